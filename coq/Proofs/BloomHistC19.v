(* Proofs/BloomHistC19.v — histories of one BloomFilter object (Model/Murmur.v: step_op, run_ops):
   every interleaving of mutators (add_item, add_hash160, add_spendable, set_bit, direct assignment to tweak /
   hash_function_count / filter_bytes[i] / filter_bytes) and observers (check_bit, filter_load_params) behaves as the
   memory-less BIP37 specification on the triple (vData, nHashFuncs, nTweak): observers see the CURRENT triple, do not
   change it, and every filterload handed out carries the bits of every element added before it. *)
From PV Require Import Base.Bytes Base.Outcome Gen.GenRipemd Spec.RipemdSpec Spec.MurmurSpec Model.Ripemd Model.Murmur
  Proofs.WordsC19 Proofs.RipemdP Proofs.MurmurP.
From Coq Require Import ZifyBool ZifyNat.
Local Open Scope Z_scope.

(* ---- the memory-less specification of a history ------------------------------------------------------------- *)
Definition sstate := (bytes * Z * Z)%type.                 (* vData, nHashFuncs, nTweak *)
Definition fields (st : bloom) : sstate := (bf_bytes st, bf_k st, bf_tweak st).

Definition norm_index (len : nat) (i : Z) : nat := Z.to_nat (if i <? 0 then i + Z.of_nat len else i).

Definition spec_step (s : sstate) (op : bloom_op) : sstate * bloom_obs :=
  let '(v, k, t) := s in
  let nbits := 8 * Z.of_nat (length v) in
  match op with
  | OpAdd it => ((MurmurSpec.insert v k t it, k, t), ObsNone)
  | OpAddHash160 it => ((MurmurSpec.insert v k t it, k, t), ObsNone)
  | OpAddSpendable h i => ((MurmurSpec.insert v k t (h ++ le_encode 4 (Z.to_N i)), k, t), ObsNone)
  | OpSetBit n => ((MurmurSpec.set_bit v (n mod nbits), k, t), ObsNone)
  | OpCheckBit n => (s, ObsBool (MurmurSpec.bit_is_set v (n mod nbits)))
  | OpLoad => (s, ObsLoad v k t)
  | OpSetTweak t' => ((v, k, t'), ObsNone)
  | OpSetK k' => ((v, k', t), ObsNone)
  | OpPoke i b => ((set_nth_list (norm_index (length v) i) (z2b b) v, k, t), ObsNone)
  | OpReplace v' => ((v', k, t), ObsNone)
  end.

Fixpoint spec_run (s : sstate) (ops : list bloom_op) : sstate * list bloom_obs :=
  match ops with
  | [] => (s, [])
  | op :: r => let '(s', o) := spec_step s op in let '(s'', os) := spec_run s' r in (s'', o :: os)
  end.

(* operations inside the theorems' domain for a filter of len bytes *)
Definition op_ok (len : nat) (op : bloom_op) : Prop :=
  match op with
  | OpAdd it => Z.of_nat (length it) < 2 ^ 32
  | OpAddHash160 it => Z.of_nat (length it) < 2 ^ 32
  | OpAddSpendable h i => 0 <= i < 2 ^ 32 /\ Z.of_nat (length h) + 4 < 2 ^ 32
  | OpPoke i b => 0 <= b < 256 /\ - Z.of_nat len <= i < Z.of_nat len
  | OpReplace v' => length v' = len
  | _ => True
  end.

Definition is_observer (op : bloom_op) : bool :=
  match op with OpCheckBit _ | OpLoad => true | _ => false end.

(* ---- check_bit ------------------------------------------------------------------------------------------------ *)
Definition byte_and_ok (b : byte) : bool :=
  forallb (fun m => Bool.eqb (Z.land (b2z b) (2 ^ m) =? 2 ^ m) (Z.testbit (b2z b) m)) [0; 1; 2; 3; 4; 5; 6; 7].
Lemma byte_and_all b : byte_and_ok b = true.
Proof. destruct b; vm_compute; reflexivity. Qed.

Lemma byte_and_bits b m : 0 <= m < 8 -> (Z.land (b2z b) (2 ^ m) =? 2 ^ m) = Z.testbit (b2z b) m.
Proof.
  intros Hm. pose proof (byte_and_all b) as H. unfold byte_and_ok in H.
  pose proof (proj1 (forallb_forall _ _) H m (in_0_7 m Hm)) as K. now apply Bool.eqb_prop in K.
Qed.

Lemma check_bit_spec st v : bloom_wf st ->
  check_bit st v = Ret (MurmurSpec.bit_is_set (bf_bytes st) (v mod bf_bit_count st)).
Proof.
  intros [Hbc Hpos]. unfold check_bit, index_for_bit.
  destruct (bf_bit_count st =? 0) eqn:E0; [lia|].
  set (idx := v mod bf_bit_count st).
  assert (Hidx : 0 <= idx < 8 * Z.of_nat (length (bf_bytes st))).
  { unfold idx. rewrite <- Hbc. apply Z.mod_pos_bound. lia. }
  assert (Hm : 0 <= idx mod 8 < 8) by (apply Z.mod_pos_bound; lia).
  assert (Hq : 0 <= idx / 8 < Z.of_nat (length (bf_bytes st))).
  { split; [apply Z.div_pos; lia|]. apply Z.div_lt_upper_bound; lia. }
  rewrite mask_lookup by exact Hm. cbn [bind].
  rewrite (py_index_ok (bf_bytes st) (idx / 8) x00) by exact Hq. cbn [bind].
  rewrite byte_and_bits by exact Hm. reflexivity.
Qed.

Lemma set_nth_list_length {A} (x : A) : forall k l, length (set_nth_list k x l) = length l.
Proof. induction k as [|k IH]; intros [|y l]; cbn [set_nth_list length]; auto. Qed.

(* ---- one step ---------------------------------------------------------------------------------------------------- *)
Lemma step_op_spec st op : bloom_wf st -> op_ok (length (bf_bytes st)) op ->
  exists st', step_op st op = Ret (st', snd (spec_step (fields st) op)) /\
              fields st' = fst (spec_step (fields st) op) /\ bloom_wf st' /\
              length (bf_bytes st') = length (bf_bytes st).
Proof.
  intros Hwf Hok. pose proof Hwf as [Hbc Hpos]. unfold fields.
  destruct op as [it | it | h i | n | n | | t' | k' | i b | v']; cbn [step_op spec_step op_ok fst snd] in *.
  - destruct (add_item_wf st it Hwf Hok) as (st' & E & Hwf' & Hb & Hk & Ht & Hl).
    exists st'. rewrite E. cbn [bind]. split; [reflexivity|]. split; [now rewrite Hb, Hk, Ht|]. split; assumption.
  - unfold add_hash160. destruct (add_item_wf st it Hwf Hok) as (st' & E & Hwf' & Hb & Hk & Ht & Hl).
    exists st'. rewrite E. cbn [bind]. split; [reflexivity|]. split; [now rewrite Hb, Hk, Ht|]. split; assumption.
  - destruct Hok as [Hi Hh]. unfold add_spendable, pack_L.
    destruct ((0 <=? i) && (i <? 2 ^ 32)) eqn:Ei; [|lia]. cbn [bind].
    assert (Hlen : Z.of_nat (length (h ++ le_encode 4 (Z.to_N i))) < 2 ^ 32).
    { rewrite app_length, le_encode_length. lia. }
    destruct (add_item_wf st _ Hwf Hlen) as (st' & E & Hwf' & Hb & Hk & Ht & Hl).
    exists st'. rewrite E. cbn [bind]. split; [reflexivity|]. split; [now rewrite Hb, Hk, Ht|]. split; assumption.
  - rewrite set_bit_spec by exact Hwf. cbn [bind]. eexists. split; [reflexivity|].
    cbn [bf_bytes bf_k bf_tweak bf_bit_count]. rewrite Hbc. split; [reflexivity|].
    unfold bloom_wf. cbn [bf_bytes bf_bit_count]. rewrite set_bit_length. auto.
  - rewrite check_bit_spec by exact Hwf. cbn [bind]. exists st. rewrite Hbc. auto.
  - exists st. unfold filter_load_params. auto.
  - eexists. split; [reflexivity|]. cbn [bf_bytes bf_k bf_tweak]. unfold bloom_wf. cbn [bf_bytes bf_bit_count]. auto.
  - eexists. split; [reflexivity|]. cbn [bf_bytes bf_k bf_tweak]. unfold bloom_wf. cbn [bf_bytes bf_bit_count]. auto.
  - destruct Hok as [Hb Hi]. destruct ((0 <=? b) && (b <? 256)) eqn:Eb; [|lia].
    unfold py_setitem.
    destruct ((0 <=? (if i <? 0 then i + Z.of_nat (length (bf_bytes st)) else i)) &&
              ((if i <? 0 then i + Z.of_nat (length (bf_bytes st)) else i) <? Z.of_nat (length (bf_bytes st)))) eqn:Ei.
    2:{ destruct (i <? 0) eqn:En; lia. }
    cbn [bind]. eexists. split; [reflexivity|]. cbn [bf_bytes bf_k bf_tweak]. split; [reflexivity|].
    unfold bloom_wf. cbn [bf_bytes bf_bit_count]. rewrite set_nth_list_length. auto.
  - eexists. split; [reflexivity|]. cbn [bf_bytes bf_k bf_tweak]. split; [reflexivity|].
    unfold bloom_wf. cbn [bf_bytes bf_bit_count]. rewrite Hok. auto.
Qed.

(* ---- whole histories -------------------------------------------------------------------------------------------- *)
Theorem run_ops_spec : forall ops st, bloom_wf st -> Forall (op_ok (length (bf_bytes st))) ops ->
  exists st', run_ops st ops = Ret (st', snd (spec_run (fields st) ops)) /\
              fields st' = fst (spec_run (fields st) ops) /\ bloom_wf st'.
Proof.
  induction ops as [|op ops IH]; intros st Hwf Hok.
  - exists st. auto.
  - inversion Hok as [|? ? Hop Hrest]; subst.
    destruct (step_op_spec st op Hwf Hop) as (st1 & E1 & F1 & W1 & L1).
    rewrite <- L1 in Hrest. destruct (IH st1 W1 Hrest) as (st2 & E2 & F2 & W2).
    rewrite F1 in E2, F2.
    exists st2. cbn [run_ops spec_run]. rewrite E1. cbn [bind].
    destruct (spec_step (fields st) op) as [s1 o1]. cbn [fst snd] in *.
    rewrite E2. cbn [bind].
    destruct (spec_run s1 ops) as [s2 os]. cbn [fst snd] in *. auto.
Qed.

(* observers are pure: deleting every check_bit / filter_load_params call from a history changes neither the final
   object nor what the remaining... (the final triple) *)
Lemma spec_run_cons_fst s op ops : fst (spec_run s (op :: ops)) = fst (spec_run (fst (spec_step s op)) ops).
Proof.
  cbn [spec_run]. destruct (spec_step s op) as [s1 o1]. cbn [fst]. destruct (spec_run s1 ops). reflexivity.
Qed.

Theorem observers_do_not_change_state : forall ops s,
  fst (spec_run s ops) = fst (spec_run s (filter (fun op => negb (is_observer op)) ops)).
Proof.
  induction ops as [|op ops IH]; intros s; [reflexivity|].
  rewrite spec_run_cons_fst. cbn [filter].
  destruct (is_observer op) eqn:E; cbn [negb].
  - rewrite IH. destruct s as [[v k] t]. destruct op; try discriminate; reflexivity.
  - rewrite spec_run_cons_fst. apply IH.
Qed.

(* a filterload observed anywhere in a history is exactly the triple built by the mutators before it *)
Theorem load_sees_current_state : forall pre post s,
  nth_error (snd (spec_run s (pre ++ OpLoad :: post))) (length pre)
  = Some (let '(v, k, t) := fst (spec_run s pre) in ObsLoad v k t).
Proof.
  induction pre as [|op pre IH]; intros post s.
  - destruct s as [[v k] t]. cbn [app spec_run spec_step length fst].
    destruct (spec_run (v, k, t) post). reflexivity.
  - cbn [app spec_run length]. destruct (spec_step s op) as [s1 o1].
    specialize (IH post s1).
    destruct (spec_run s1 (pre ++ OpLoad :: post)) as [s2 os]. destruct (spec_run s1 pre) as [s3 os3].
    cbn [snd fst nth_error] in *. exact IH.
Qed.

(* ---- every filterload matches every element added before it ------------------------------------------------ *)
Definition monotone_op (op : bloom_op) : Prop :=
  match op with
  | OpAdd _ | OpAddHash160 _ | OpAddSpendable _ _ | OpSetBit _ | OpCheckBit _ | OpLoad => True
  | _ => False
  end.

Definition item_of (op : bloom_op) : option bytes :=
  match op with
  | OpAdd it => Some it
  | OpAddHash160 it => Some it
  | OpAddSpendable h i => Some (h ++ le_encode 4 (Z.to_N i))
  | _ => None
  end.

Definition all_contained (s : sstate) (added : list bytes) : Prop :=
  let '(v, k, t) := s in Forall (fun it => MurmurSpec.contains v k t it = true) added.

Fixpoint loads_match (added : list bytes) (s : sstate) (ops : list bloom_op) : Prop :=
  match ops with
  | [] => True
  | op :: r =>
    (match op with OpLoad => all_contained s added | _ => True end) /\
    loads_match (match item_of op with Some it => it :: added | None => added end) (fst (spec_step s op)) r
  end.

Lemma contains_set_bit_monotone v k t it idx : (0 < length v)%nat -> 0 <= idx < 8 * Z.of_nat (length v) ->
  MurmurSpec.contains v k t it = true -> MurmurSpec.contains (MurmurSpec.set_bit v idx) k t it = true.
Proof.
  intros Hpos Hidx H. unfold MurmurSpec.contains in *. apply forallb_forall. intros i Hi.
  pose proof (proj1 (forallb_forall _ _) H i Hi) as Hb.
  rewrite set_bit_length, set_bit_bits, Hb; [reflexivity|exact Hidx|now apply bloom_index_range].
Qed.

Lemma insert_length v k t it : (0 < length v)%nat -> length (MurmurSpec.insert v k t it) = length v.
Proof.
  intros Hpos. destruct (insert_sets_exactly v k t it 0 Hpos) as [Hl _]; [lia|exact Hl].
Qed.

Theorem every_load_matches_all_added : forall ops added v k t,
  (0 < length v)%nat -> Forall monotone_op ops -> all_contained (v, k, t) added ->
  loads_match added (v, k, t) ops.
Proof.
  induction ops as [|op ops IH]; intros added v k t Hpos Hmono Hc; [exact I|].
  inversion Hmono as [|? ? Hop Hrest]; subst.
  assert (Hins : forall it, all_contained (MurmurSpec.insert v k t it, k, t) (it :: added)).
  { intros it. constructor; [now apply inserted_is_contained|].
    eapply Forall_impl; [|exact Hc]. cbv beta. intros a Ha. now apply contains_monotone. }
  cbn [loads_match]. destruct op; cbn [monotone_op] in Hop; try contradiction; cbn [item_of spec_step fst].
  - split; [exact I|]. apply IH; [now rewrite insert_length|exact Hrest|apply Hins].
  - split; [exact I|]. apply IH; [now rewrite insert_length|exact Hrest|apply Hins].
  - split; [exact I|]. apply IH; [now rewrite insert_length|exact Hrest|apply Hins].
  - split; [exact I|]. apply IH; [now rewrite set_bit_length|exact Hrest|].
    eapply Forall_impl; [|exact Hc]. cbv beta. intros a Ha. apply contains_set_bit_monotone; auto.
    apply Z.mod_pos_bound. lia.
  - split; [exact I|]. apply IH; assumption.
  - split; [exact Hc|]. apply IH; assumption.
Qed.
