(* Proofs/VMpySigP.v — signature-encoding lemmas of the pycoin VM model (C03), kept apart from Proofs/VMpyP.v
   because they lean on the C10 development (Proofs/DerP.v):
   * valid_signature_lax_parse: a blob accepted by check_valid_signature (the strict-DER shape test pycoin runs
     under DERSIG / LOW_S / STRICTENC) has the layout 30 L 02 rl R 02 sl S ht, and pycoin's LAX parser
     sigdecode_der(blob[:-1], use_broken_open_ssl_mechanism=True) succeeds on it with r = BE(R), s = BE(S);
   * strict_flags_never_unparsed: hence with one of those flags set the "unparseable signature matches no key"
     path of checksigs is dead;
   * low_s_decision: under LOW_S a parsed signature has r or s outside the group order (check_low_der_signature
     returns early: it simply fails to verify later) or s <= order - s, r and s being the R and S fields of the
     strict layout. *)
From Coq Require Import Lia ZifyBool ZifyNat ZifyN.
From PV Require Import Base.Bytes Base.Outcome Gen.GenFlags Model.Der Spec.VMTypes Model.VMpy.
From PV Require Import Proofs.DerP.

Lemma vbind_ok {A B} (m : vres A) (f : A -> vres B) b : vbind m f = VOk b -> exists a, m = VOk a /\ f a = VOk b.
Proof. destruct m; cbn; try discriminate. eauto. Qed.

Lemma sig_at_ok sig i v : sig_at sig i = VOk v -> exists b, nth_error sig i = Some b /\ v = b2n b.
Proof. unfold sig_at. destruct (nth_error sig i); [|discriminate]. intros H; inversion H; eauto. Qed.

Lemma cvs_shape sig : check_valid_signature sig = VOk tt ->
  exists L rl R sl S ht,
    sig = x30 :: L :: x02 :: rl :: R ++ x02 :: sl :: S ++ [ht] /\
    length R = N.to_nat (b2n rl) /\ length S = N.to_nat (b2n sl) /\ R <> [] /\ S <> [] /\
    b2n L = N.of_nat (length sig - 3) /\ (length sig <= 73)%nat.
Proof.
  intros H. unfold check_valid_signature in H.
  destruct ((length sig <? 9)%nat || (73 <? length sig)%nat) eqn:Hlen; [discriminate|].
  destruct sig as [|b0 [|b1 [|b2 [|b3 rest]]]]; try (cbn in Hlen; discriminate).
  cbn [sig_at nth_error vbind] in H.
  set (sig := b0 :: b1 :: b2 :: b3 :: rest) in *.
  destruct (negb (b2n b0 =? 48)%N) eqn:E0; [discriminate|].
  destruct (negb (b2n b1 =? N.of_nat (length sig - 3))%N) eqn:E1; [discriminate|].
  destruct (length sig <=? 5 + N.to_nat (b2n b3))%nat eqn:E3; [discriminate|].
  apply vbind_ok in H. destruct H as (sl & Hsl & H). apply sig_at_ok in Hsl. destruct Hsl as (slb & Hslb & ->).
  destruct (negb (N.to_nat (b2n b3) + N.to_nat (b2n slb) + 7 =? length sig)%nat) eqn:E4; [discriminate|].
  destruct (negb (b2n b2 =? 2)%N) eqn:E2; [discriminate|].
  destruct (N.to_nat (b2n b3) =? 0)%nat eqn:E5; [discriminate|].
  apply vbind_ok in H. destruct H as (b4 & _ & H).
  destruct (negb (N.land b4 128 =? 0)%N); [discriminate|].
  apply vbind_ok in H. destruct H as (bad_r & _ & H). destruct bad_r; [discriminate|].
  apply vbind_ok in H. destruct H as (m & Hm & H). apply sig_at_ok in Hm. destruct Hm as (mb & Hmb & ->).
  destruct (negb (b2n mb =? 2)%N) eqn:E6; [discriminate|].
  destruct (N.to_nat (b2n slb) =? 0)%nat eqn:E7; [discriminate|].
  clear H.
  set (r_len := N.to_nat (b2n b3)) in *. set (s_len := N.to_nat (b2n slb)) in *.
  assert (Hb0 : b0 = x30) by (apply b2n_inj; cbn; lia).
  assert (Hb2 : b2 = x02) by (apply b2n_inj; cbn; lia).
  assert (Hmb2 : mb = x02) by (apply b2n_inj; cbn; lia).
  subst b0 b2 mb.
  (* indices into rest *)
  replace (r_len + 4)%nat with (4 + r_len)%nat in Hmb by lia.
  subst sig. cbn [nth_error plus] in Hmb, Hslb.
  destruct (nth_error_split rest r_len Hmb) as (R & rest2 & Hrest & HR).
  change (nth_error rest (S r_len) = Some slb) in Hslb.
  subst rest. rewrite nth_error_app2 in Hslb by lia.
  replace (S r_len - length R)%nat with 1%nat in Hslb by lia. cbn [nth_error] in Hslb.
  destruct rest2 as [|slb' rest3]; [discriminate|]. inversion Hslb; subst slb'. clear Hslb Hmb.
  cbn [length] in *. rewrite app_length in *. cbn [length] in *.
  assert (Hl3 : length rest3 = S s_len) by lia.
  destruct (exists_last (l := rest3)) as (S0 & ht & HS). { intros ->. discriminate. }
  subst rest3. rewrite app_length in Hl3. cbn [length] in Hl3.
  exists b1, b3, R, slb, S0, ht. repeat split.
  - exact HR.
  - fold s_len. lia.
  - intros ->. cbn in HR. lia.
  - intros ->. cbn in Hl3. lia.
  - cbn [length]. repeat (rewrite app_length; cbn [length]). lia.
  - cbn [length]. repeat (rewrite app_length; cbn [length]). lia.
Qed.

Local Open Scope N_scope.

Lemma remove_integer_layout_lax (c rest : bytes) :
  c <> [] -> (length c <= 127)%nat ->
  remove_integer (x02 :: n2b (N.of_nat (length c)) :: c ++ rest) true = Ret (Z.of_N (be_decode c), rest).
Proof.
  intros Hc Hl. unfold remove_integer. rewrite starts_with_same. cbn [negb drop skipn].
  destruct (n_small (N.of_nat (length c)) ltac:(lia)) as [A B].
  cbn [read_length]. rewrite A. cbn [N.eqb bind]. rewrite B.
  cbn [length]. rewrite app_length.
  destruct (N.of_nat (S (S (length c + length rest))) <? N.of_nat (1 + 1) + N.of_nat (length c)) eqn:E; [lia|].
  rewrite Nat2N.id. cbn [Nat.add drop skipn].
  change (skipn (length c) (c ++ rest)) with (drop (length c) (c ++ rest)).
  unfold take, drop. rewrite firstn_app_exact, skipn_app_exact.
  destruct c as [|b0 tl]; [contradiction|].
  rewrite andb_false_r. reflexivity.
Qed.

Lemma lax_parse_of_shape L rl R sl S :
  b2n L = N.of_nat (length R + length S + 4) -> (length R + length S + 4 < 128)%nat ->
  length R = N.to_nat (b2n rl) -> length S = N.to_nat (b2n sl) -> R <> [] -> S <> [] ->
  sigdecode_der (x30 :: L :: x02 :: rl :: R ++ x02 :: sl :: S) true
  = Ret (Z.of_N (be_decode R), Z.of_N (be_decode S)).
Proof.
  intros HL Hlt HR HS HRn HSn. unfold sigdecode_der.
  assert (Erl : rl = n2b (N.of_nat (length R))) by (rewrite HR, N2Nat.id, n2b_b2n; reflexivity).
  assert (Esl : sl = n2b (N.of_nat (length S))) by (rewrite HS, N2Nat.id, n2b_b2n; reflexivity).
  set (body := x02 :: rl :: R ++ x02 :: sl :: S).
  assert (Hseq : remove_sequence (x30 :: [L] ++ body ++ []) = Ret (body, [])).
  { apply remove_sequence_layout with (t := b2n L).
    - subst body. cbn [length]. rewrite app_length. cbn [length]. lia.
    - cbn [app read_length]. destruct (byte_small L ltac:(lia)) as (A & B & _). rewrite A, B. reflexivity. }
  rewrite app_nil_r in Hseq. cbn [app] in Hseq. rewrite Hseq. cbn [bind nonempty andb].
  subst body. rewrite Erl.
  rewrite (remove_integer_layout_lax R (x02 :: sl :: S) HRn ltac:(lia)). cbn [bind].
  rewrite Esl. rewrite <- (app_nil_r S) at 2.
  rewrite (remove_integer_layout_lax S [] HSn ltac:(lia)). cbn [bind nonempty andb]. reflexivity.
Qed.

(* a signature blob that passes check_valid_signature is parsed by the LAX decoder, and the S it returns is the
   big-endian value of the S field of the strict layout *)
Theorem valid_signature_lax_parse sig :
  check_valid_signature sig = VOk tt ->
  exists L rl R sl S ht,
    sig = x30 :: L :: x02 :: rl :: R ++ x02 :: sl :: S ++ [ht] /\
    length R = N.to_nat (b2n rl) /\ length S = N.to_nat (b2n sl) /\
    sigdecode_der (removelast sig) true = Ret (Z.of_N (be_decode R), Z.of_N (be_decode S)).
Proof.
  intros H. destruct (cvs_shape sig H) as (L & rl & R & sl & S & ht & E & HR & HS & HRn & HSn & HL & Hlen).
  exists L, rl, R, sl, S, ht. repeat split; try assumption.
  assert (Er : removelast sig = x30 :: L :: x02 :: rl :: R ++ x02 :: sl :: S).
  { rewrite E.
    replace (x30 :: L :: x02 :: rl :: R ++ x02 :: sl :: S ++ [ht])
      with ((x30 :: L :: x02 :: rl :: R ++ x02 :: sl :: S) ++ [ht]).
    - apply removelast_last.
    - cbn [app]. rewrite <- app_assoc. reflexivity. }
  rewrite Er.
  assert (Hls : length sig = (length R + length S + 7)%nat).
  { rewrite E. cbn [length]. rewrite app_length. cbn [length]. rewrite app_length. cbn [length]. lia. }
  apply lax_parse_of_shape; try assumption.
  - rewrite HL, Hls. f_equal. lia.
  - lia.
Qed.

(* with any of DERSIG / LOW_S / STRICTENC set, the "unparseable signature matches no key" path is dead:
   a non-empty blob is either rejected (ScriptError) or parsed *)
Theorem strict_flags_never_unparsed o flags sig :
  flag_set flags (N.lor VERIFY_DERSIG (N.lor VERIFY_LOW_S VERIFY_STRICTENC)) = true -> sig <> [] ->
  parse_and_check_signature_blob o flags sig <> VOk None.
Proof.
  intros Hf Hne. unfold parse_and_check_signature_blob, flag. destruct sig as [|b0 tl]; [contradiction|].
  rewrite Hf.
  destruct (check_valid_signature (b0 :: tl)) as [[]| |e|] eqn:Ev; cbn [vbind]; try discriminate.
  destruct (if flag_set flags VERIFY_STRICTENC then check_defined_hashtype_signature (b0 :: tl) else VOk tt)
    as [[]| |e|]; cbn [vbind]; try discriminate.
  destruct (valid_signature_lax_parse _ Ev) as (L & rl & R & sl & S & ht & _ & _ & _ & Hp).
  rewrite Hp. destruct (flag_set flags VERIFY_LOW_S); [|discriminate].
  destruct (_ || _); [discriminate|]. destruct (_ <? _)%Z; discriminate.
Qed.

(* and under LOW_S the value compared with the group order is the S field of the strict layout *)
Theorem low_s_decision o flags sig r s :
  flag_set flags VERIFY_LOW_S = true ->
  parse_and_check_signature_blob o flags sig = VOk (Some (r, s)) ->
  ((Z.of_N (o_order o) <= r)%Z \/ (Z.of_N (o_order o) <= s)%Z \/ (s <= Z.of_N (o_order o) - s)%Z) /\
  exists L rl R sl S ht, sig = x30 :: L :: x02 :: rl :: R ++ x02 :: sl :: S ++ [ht] /\
    length R = N.to_nat (b2n rl) /\ length S = N.to_nat (b2n sl) /\
    r = Z.of_N (be_decode R) /\ s = Z.of_N (be_decode S).
Proof.
  intros Hl H. unfold parse_and_check_signature_blob, flag in H. destruct sig as [|b0 tl]; [discriminate|].
  assert (Hf : flag_set flags (N.lor VERIFY_DERSIG (N.lor VERIFY_LOW_S VERIFY_STRICTENC)) = true).
  { unfold flag_set in *. apply negb_true_iff in Hl. apply negb_true_iff. apply N.eqb_neq in Hl. apply N.eqb_neq.
    intros E. apply Hl.
    change VERIFY_LOW_S with (N.land (N.lor VERIFY_DERSIG (N.lor VERIFY_LOW_S VERIFY_STRICTENC)) VERIFY_LOW_S).
    rewrite N.land_assoc, E. reflexivity. }
  rewrite Hf in H.
  destruct (check_valid_signature (b0 :: tl)) as [[]| |e|] eqn:Ev; cbn [vbind] in H; try discriminate.
  destruct (if flag_set flags VERIFY_STRICTENC then check_defined_hashtype_signature (b0 :: tl) else VOk tt)
    as [[]| |e|]; cbn [vbind] in H; try discriminate.
  destruct (valid_signature_lax_parse _ Ev) as (L & rl & R & sl & S & ht & E & HR & HS & Hp).
  rewrite Hp, Hl in H.
  destruct ((Z.of_N (o_order o) <=? Z.of_N (be_decode R))%Z || (Z.of_N (o_order o) <=? Z.of_N (be_decode S))%Z) eqn:Eo.
  - inversion H; subst r s. split; [lia|].
    exists L, rl, R, sl, S, ht. repeat split; assumption.
  - destruct (Z.of_N (o_order o) - Z.of_N (be_decode S) <? Z.of_N (be_decode S))%Z eqn:Ec; [discriminate|].
  inversion H; subst r s. split; [lia|].
  exists L, rl, R, sl, S, ht. repeat split; assumption.
Qed.
