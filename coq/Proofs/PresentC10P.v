(* Proofs/PresentC10P.v — presentation and history independence of the C10 entry points. *)
From PV Require Import Base.Bytes Base.Outcome Model.Der Model.Sec Model.PresentC10 Proofs.SecP.
From Coq Require Import ZifyBool Lia.
Local Open Scope Z_scope.

Definition mk_blob (k : blob_kind) (d : bytes) : blob_arg := {| ba_kind := k; ba_data := d |}.
Definition mk_int (k : int_kind) (v : Z) : int_arg := {| ia_kind := k; ia_val := v |}.
Definition mk_call (p a b : Z) (k : blob_kind) (d : bytes) (strict : bool) : sec_call :=
  {| sc_p := p; sc_a := a; sc_b := b; sc_blob := mk_blob k d; sc_strict := strict |}.

Lemma sec_blob_presentation_independent (p a b : Z) (k1 k2 : blob_kind) (d : bytes) (strict : bool) :
  sec_to_public_pair_arg p a b (mk_blob k1 d) strict = sec_to_public_pair_arg p a b (mk_blob k2 d) strict /\
  key_from_sec_arg p a b (mk_blob k1 d) = key_from_sec_arg p a b (mk_blob k2 d) /\
  is_sec_compressed_arg (mk_blob k1 d) = is_sec_compressed_arg (mk_blob k2 d).
Proof. repeat split. Qed.

Lemma der_blob_presentation (d : bytes) (broken : bool) :
  sigdecode_der_arg (mk_blob Bk_bytearray d) broken = sigdecode_der_arg (mk_blob Bk_bytes d) broken /\
  sigdecode_der_arg (mk_blob Bk_bytes d) broken = sigdecode_der d broken /\
  sigdecode_der_arg (mk_blob Bk_mv_ro d) broken = Raise E_ATTR /\
  sigdecode_der_arg (mk_blob Bk_mv_rw d) broken = Raise E_ATTR.
Proof. repeat split. Qed.

Lemma int_presentation_independent (k1 k2 k3 k4 : int_kind) (order v w : Z) (c : bool) :
  key_private_arg order (mk_int k1 v) = key_private_arg order (mk_int k2 v) /\
  sigencode_der_arg (mk_int k1 v) (mk_int k3 w) = sigencode_der_arg (mk_int k2 v) (mk_int k4 w) /\
  public_pair_to_sec_arg (mk_int k1 v) (mk_int k3 w) c = public_pair_to_sec_arg (mk_int k2 v) (mk_int k4 w) c.
Proof. repeat split. Qed.

(* every call of a history is answered as if it were the only call ever made *)
Lemma sec_history_independent (h1 h2 : list sec_call) (c : sec_call) :
  run_sec_history (h1 ++ c :: h2) = run_sec_history h1 ++ eval_sec_call c :: run_sec_history h2 /\
  run_from_sec_history (h1 ++ c :: h2) = run_from_sec_history h1 ++ eval_from_sec_call c :: run_from_sec_history h2.
Proof. unfold run_sec_history, run_from_sec_history. rewrite !map_app. split; reflexivity. Qed.

Lemma nth_run_history (h : list sec_call) (i : nat) (c : sec_call) :
  nth_error h i = Some c -> nth_error (run_sec_history h) i = Some (eval_sec_call c) /\
  nth_error (run_from_sec_history h) i = Some (eval_from_sec_call c).
Proof. intros H. unfold run_sec_history, run_from_sec_history. split; apply map_nth_error; exact H. Qed.

(* the same blob under two curves, in both orders: each answer is the curve's own *)
Lemma two_curves_both_orders (c1 c2 : sec_call) :
  run_sec_history [c1; c2] = [eval_sec_call c1; eval_sec_call c2] /\
  run_sec_history [c2; c1] = [eval_sec_call c2; eval_sec_call c1] /\
  run_sec_history [c1; c2; c1] = [eval_sec_call c1; eval_sec_call c2; eval_sec_call c1].
Proof. repeat split. Qed.

(* whatever was decoded before and for whichever curves: a key accepted by Key.from_sec in a history lies
   on the curve OF ITS OWN CALL, has reduced coordinates, and its blob is the canonical encoding *)
Lemma history_accepts_only_own_curve (h : list sec_call) (i : nat) (c : sec_call) (x y : Z) (flag : bool) :
  nth_error h i = Some c ->
  2 ^ 248 <= sc_p c < 2 ^ 256 -> sc_p c mod 2 = 1 ->
  nth_error (run_from_sec_history h) i = Some (Ret ((x, y), flag)) ->
  contains_point (sc_p c) (sc_a c) (sc_b c) x y = true /\ 0 <= x < sc_p c /\ 0 <= y < sc_p c /\
  public_pair_to_sec (x, y) flag = Ret (ba_data (sc_blob c)).
Proof.
  intros Hn Hr Hodd Hres. destruct (nth_run_history h i c Hn) as [_ H2]. rewrite H2 in Hres.
  injection Hres as Hres. unfold eval_from_sec_call, key_from_sec_arg in Hres.
  destruct (sec_canonical_generic _ _ _ Hr Hodd _ _ _ _ Hres) as (Hx & Hy & Hc & Henc & _).
  repeat split; try assumption; lia.
Qed.
