(* Proofs/ChainOpsP.v — the add/remove ops computed by add_headers, replayed, turn the old chain into the new one
   and keep hash_to_index_lookup in agreement; observation functions. *)
From Coq Require Import List NArith ZArith Bool Lia Arith.
From PV Require Import Base.Outcome Model.Chain Spec.ChainSpec Proofs.ChainP.
Import ListNotations.
Local Open Scope N_scope.

Lemma apply_ops_app a : forall b l,
  apply_ops (a ++ b) l = match apply_ops a l with Some l' => apply_ops b l' | None => None end.
Proof.
  induction a as [|[[k h] i] r IH]; intros b l; [reflexivity|].
  cbn [app apply_ops]. destruct k.
  - destruct (i =? Z.of_nat (length l))%Z; [apply IH|reflexivity].
  - destruct (rev l) as [|x0 r0]; [reflexivity|]. destruct ((x0 =? h) && (i =? Z.of_nat (length l) - 1)%Z); [apply IH|reflexivity].
Qed.

Lemma nth_error_app_l {A} (l m : list A) i : (i < length l)%nat -> nth_error (l ++ m) i = nth_error l i.
Proof. intros. now apply nth_error_app1. Qed.

Lemma maps_agree_snoc chain m x :
  maps_agree chain m -> ~ In x chain -> maps_agree (chain ++ [x]) (dset x (Z.of_nat (length chain)) m).
Proof.
  intros [A B] Hx. split.
  - intros i h Hn. destruct (Nat.lt_ge_cases i (length chain)) as [Hi|Hi].
    + rewrite nth_error_app1 in Hn by exact Hi. rewrite dget_dset_neq; [now apply A|].
      intros ->. apply Hx. eapply nth_error_In; eauto.
    + rewrite nth_error_app2 in Hn by exact Hi. destruct (i - length chain)%nat eqn:E.
      * cbn in Hn. inversion Hn; subst. rewrite dget_dset_eq. f_equal. lia.
      * cbn in Hn. destruct n; discriminate.
  - intros h z. destruct (N.eq_dec h x) as [->|Hn].
    + rewrite dget_dset_eq. intros E. inversion E; subst. exists (length chain). split; [reflexivity|].
      rewrite nth_error_app2 by lia. now rewrite Nat.sub_diag.
    + rewrite dget_dset_neq by exact Hn. intros E. destruct (B _ _ E) as (i & -> & Hi). exists i. split; [reflexivity|].
      rewrite nth_error_app1; [exact Hi|]. apply nth_error_Some. congruence.
Qed.

Lemma maps_agree_unsnoc chain m x :
  maps_agree (chain ++ [x]) m -> ~ In x chain -> maps_agree chain (ddel x m).
Proof.
  intros [A B] Hx. split.
  - intros i h Hn. assert (Hi : (i < length chain)%nat) by (apply nth_error_Some; congruence).
    rewrite dget_ddel_neq; [apply A; now rewrite nth_error_app1|].
    intros ->. apply Hx. eapply nth_error_In; eauto.
  - intros h z E. destruct (N.eq_dec h x) as [->|Hn]; [rewrite dget_ddel_eq in E; discriminate|].
    rewrite dget_ddel_neq in E by exact Hn. destruct (B _ _ E) as (i & -> & Hi). exists i. split; [reflexivity|].
    destruct (Nat.lt_ge_cases i (length chain)) as [Hl|Hl]; [now rewrite nth_error_app1 in Hi|].
    rewrite nth_error_app2 in Hi by exact Hl. destruct (i - length chain)%nat; cbn in Hi.
    + inversion Hi; congruence.
    + destruct n; discriminate.
Qed.

Lemma remove_ops_spec : forall op base m idx size,
  NoDup (base ++ rev op) -> maps_agree (base ++ rev op) m ->
  size = (Z.of_nat (length base) + Z.of_nat (length op) + idx)%Z ->
  exists rops m1, remove_ops size idx op m = Ret (rops, m1) /\ maps_agree base m1 /\
    forall r, apply_ops (rops ++ r) (base ++ rev op) = apply_ops r base.
Proof.
  induction op as [|h r IH]; intros base m idx size Hnd Hm Hs.
  - exists [], m. cbn in *. rewrite app_nil_r in *. auto.
  - cbn [rev] in *. rewrite app_assoc in Hnd, Hm.
    assert (Hh : ~ In h (base ++ rev r)).
    { apply NoDup_remove_2 in Hnd. now rewrite app_nil_r in Hnd. }
    assert (Hnd' : NoDup (base ++ rev r)).
    { apply NoDup_remove_1 in Hnd. now rewrite app_nil_r in Hnd. }
    cbn [remove_ops].
    assert (Eh : dget h m = Some (Z.of_nat (length (base ++ rev r)))).
    { apply (proj1 Hm). rewrite nth_error_app2 by lia. now rewrite Nat.sub_diag. }
    assert (Hd : dhas h m = true) by (apply dhas_true; congruence). rewrite Hd.
    destruct (IH base (ddel h m) (idx + 1)%Z size Hnd') as (rops & m1 & Hr & Hm1 & Hap).
    { now apply maps_agree_unsnoc. }
    { cbn [length] in Hs. lia. }
    rewrite Hr. eexists _, m1. split; [reflexivity|]. split; [exact Hm1|].
    intros r0. cbn [app apply_ops]. rewrite app_assoc. rewrite rev_app_distr. cbn [rev app].
    rewrite N.eqb_refl. rewrite !app_length, rev_length in *. cbn [length] in *.
    replace ((size - idx - 1 =? Z.of_nat (length base + length r + 1) - 1)%Z) with true
      by (symmetry; apply Z.eqb_eq; lia).
    cbn [andb]. rewrite removelast_last. apply Hap.
Qed.

Lemma enumerate_snoc {A} (l : list A) x i : enumerate i (l ++ [x]) = enumerate i l ++ [((i + Z.of_nat (length l))%Z, x)].
Proof.
  revert i. induction l as [|y r IH]; intros i.
  - cbn. now rewrite Z.add_0_r.
  - cbn [app enumerate length]. rewrite IH.
    replace (i + 1 + Z.of_nat (length r))%Z with (i + Z.of_nat (S (length r)))%Z by lia. reflexivity.
Qed.

Lemma add_ops_spec : forall np base m size,
  NoDup (base ++ rev np) -> maps_agree base m ->
  size = (Z.of_nat (length base) + Z.of_nat (length np))%Z ->
  exists aops m2, add_ops size (rev (enumerate 0%Z np)) m = (aops, m2) /\ maps_agree (base ++ rev np) m2 /\
    apply_ops aops base = Some (base ++ rev np).
Proof.
  induction np as [|x np' IH] using rev_ind; intros base m size Hnd Hm Hs.
  - exists [], m. cbn. rewrite app_nil_r. auto.
  - rewrite enumerate_snoc, rev_app_distr. cbn [rev app]. rewrite rev_app_distr in *. cbn [rev app] in *.
    cbn [add_ops].
    assert (Hx : ~ In x base).
    { intros H. apply NoDup_remove_2 in Hnd. apply Hnd. rewrite in_app_iff. now left. }
    assert (Hnd' : NoDup ((base ++ [x]) ++ rev np')) by now rewrite <- app_assoc.
    rewrite app_length in Hs. cbn [length] in Hs.
    set (i := (size - (0 + Z.of_nat (length np')) - 1)%Z).
    assert (Ei : i = Z.of_nat (length base)) by (unfold i; lia).
    destruct (IH (base ++ [x]) (dset x i m) size Hnd') as (aops & m2 & Ha & Hm2 & Hap).
    { rewrite Ei. now apply maps_agree_snoc. }
    { rewrite app_length. cbn [length]. lia. }
    rewrite Ha. eexists _, m2. split; [reflexivity|]. rewrite <- app_assoc in Hm2, Hap. cbn [app] in Hm2, Hap.
    split; [exact Hm2|]. cbn [apply_ops]. rewrite Ei, Z.eqb_refl. exact Hap.
Qed.

(* the whole diff: old chain = L ++ rev (op ++ s), new chain = L ++ rev (np ++ s) *)
Lemma ops_correct L op np s m :
  NoDup (L ++ rev (op ++ s)) -> NoDup (L ++ rev (np ++ s)) -> maps_agree (L ++ rev (op ++ s)) m ->
  exists rops m1 aops m2,
    remove_ops (Z.of_nat (length (op ++ s)) + Z.of_nat (length L))%Z 0%Z op m = Ret (rops, m1) /\
    add_ops (Z.of_nat (length (np ++ s)) + Z.of_nat (length L))%Z (rev (enumerate 0%Z np)) m1 = (aops, m2) /\
    maps_agree (L ++ rev (np ++ s)) m2 /\
    apply_ops (rops ++ aops) (L ++ rev (op ++ s)) = Some (L ++ rev (np ++ s)).
Proof.
  rewrite !rev_app_distr, !app_assoc. intros Hnd Hnd' Hm.
  destruct (remove_ops_spec op (L ++ rev s) m 0%Z (Z.of_nat (length (op ++ s)) + Z.of_nat (length L))%Z Hnd Hm)
    as (rops & m1 & Hr & Hm1 & Hap).
  { rewrite !app_length, rev_length. lia. }
  destruct (add_ops_spec np (L ++ rev s) m1 (Z.of_nat (length (np ++ s)) + Z.of_nat (length L))%Z Hnd' Hm1)
    as (aops & m2 & Ha & Hm2 & Hap2).
  { rewrite !app_length, rev_length. lia. }
  exists rops, m1, aops, m2. split; [exact Hr|]. split; [exact Ha|]. split; [exact Hm2|]. rewrite Hap. exact Hap2.
Qed.
