(* Proofs/ComposeTxBuildWire.v — C13 x C07: the byte count that fee="standard" reads is C07's wire format.

   Model/TxBuildWire.v closes Model/TxBuild.v's `tx_byte_count` parameter with Model/TxWire.v's stream_tx.  Here:
   - stream_len is the length of the *legacy wire serialisation* (Spec/TxWireSpec.v) of the transaction whenever its
     fields fit their wire widths, with a closed form (sizes of counts, 40 + script per input, 8 + script per output);
   - filling the pool never changes that length (amounts are fixed-width): the fee create_tx(fee="standard") charges is
     the recommended fee of the transaction it *returns*, not only of the half-built one it was computed on;
   - create_tx_wire is create_tx with the byte count of the initial transaction, so every C13 theorem
     (conservation, shares, ValueError-iff, pairing, fee) transfers with no parameter left;
   - the only new outcome is struct.error, raised before anything is distributed and only for fee="standard". *)
From PV Require Import Base.Bytes Base.Outcome Base.Varint Gen.GenTxBuild.
From PV Require Import Model.TxBuild Model.TxBuildWire Proofs.TxBuildP.
From PV Require Model.TxWire Spec.TxWireSpec Proofs.TxWireP.
From Coq Require Import ZifyBool ZifyNat ZifyN.
Local Open Scope Z_scope.
Local Open Scope outcome_scope.

Notation zlen := TxWireSpec.zlen.

(* ---- the embedded transaction has no witness: Tx.stream writes the legacy form -------------------- *)
Lemma emb_no_witness t : TxWire.has_witness_data (emb t) = false.
Proof.
  unfold TxWire.has_witness_data, emb. cbn [TxWire.tx_ins].
  induction (t_ins t) as [|i l IH]; cbn [map existsb emb_in TxWire.ti_witness orb]; auto.
Qed.

Definition wire_size (t : tx) : Z := zlen (TxWireSpec.ser_legacy (emb t)).

(* the fields fit their wire widths (what struct.pack accepts) *)
Definition streamable (t : tx) : Prop := TxWireSpec.tx_wf (emb t).

Lemma stream_len_spec t : streamable t -> stream_len t = Ret (wire_size t).
Proof.
  intros H. unfold stream_len. rewrite (TxWireP.stream_tx_spec true _ H).
  unfold TxWireP.wire_bytes. rewrite emb_no_witness. cbn [andb bind]. reflexivity.
Qed.

Lemma recommended_fee_for_tx_spec t : streamable t ->
  recommended_fee_for_tx t = Ret (recommended_fee (wire_size t)).
Proof. intros H. unfold recommended_fee_for_tx. rewrite stream_len_spec by exact H. reflexivity. Qed.

(* ---- closed form of the size ------------------------------------------------------------------------ *)
Definition cs_len (n : Z) : Z := zlen (TxWireSpec.compact_size n).
Definition bytes_size (s : bytes) : Z := cs_len (zlen s) + zlen s.
Definition in_size (i : txin) : Z := zlen (i_hash i) + 4 + bytes_size (i_script i) + 4.
Definition out_size (o : txout) : Z := 8 + bytes_size (o_script o).

Lemma zlen_app {A} (a b : list A) : zlen (a ++ b) = zlen a + zlen b.
Proof. unfold zlen. rewrite app_length. lia. Qed.
Lemma zlen_le w z : zlen (TxWireSpec.le_bytes w z) = Z.of_nat w.
Proof. unfold zlen. now rewrite TxWireP.le_bytes_length. Qed.
Lemma zlen_concat_map {A} (f : A -> bytes) (g : A -> Z) l :
  (forall x, zlen (f x) = g x) -> zlen (concat (map f l)) = zsum (map g l).
Proof.
  intros H. induction l as [|x l IH]; cbn [map concat zsum fold_right]; [reflexivity|].
  rewrite zlen_app, H. unfold zsum in IH. rewrite IH. reflexivity.
Qed.

Lemma ser_txin_size i : zlen (TxWireSpec.ser_txin (emb_in i)) = in_size i.
Proof.
  unfold TxWireSpec.ser_txin, TxWireSpec.ser_bytes, in_size, bytes_size, cs_len, emb_in.
  cbn [TxWire.ti_hash TxWire.ti_index TxWire.ti_script TxWire.ti_sequence].
  rewrite !zlen_app, !zlen_le. lia.
Qed.
Lemma ser_txout_size o : zlen (TxWireSpec.ser_txout (emb_out o)) = out_size o.
Proof.
  unfold TxWireSpec.ser_txout, TxWireSpec.ser_bytes, out_size, bytes_size, cs_len, emb_out.
  cbn [TxWire.to_value TxWire.to_script]. rewrite !zlen_app, !zlen_le. lia.
Qed.

Lemma zlen_map {A B} (f : A -> B) l : zlen (map f l) = zlen l.
Proof. unfold zlen. now rewrite map_length. Qed.

Theorem wire_size_closed_form t :
  wire_size t = 4 + cs_len (zlen (t_ins t)) + zsum (map in_size (t_ins t))
                  + cs_len (zlen (t_outs t)) + zsum (map out_size (t_outs t)) + 4.
Proof.
  unfold wire_size, TxWireSpec.ser_legacy, TxWireSpec.ser_vec, emb.
  cbn [TxWire.tx_version TxWire.tx_ins TxWire.tx_outs TxWire.tx_lock_time].
  rewrite !zlen_app, !zlen_le, !zlen_map, !map_map.
  rewrite (zlen_concat_map (fun x => TxWireSpec.ser_txin (emb_in x)) in_size) by apply ser_txin_size.
  rewrite (zlen_concat_map (fun x => TxWireSpec.ser_txout (emb_out x)) out_size) by apply ser_txout_size.
  unfold cs_len. lia.
Qed.

(* ---- amounts are fixed-width: distributing the pool does not change the size ---------------------- *)
Lemma out_sizes_preserved outs outs' : Forall2 out_preserved outs outs' ->
  map out_size outs' = map out_size outs /\ length outs' = length outs.
Proof.
  induction 1 as [|o o' l l' [Hs _] _ [IHm IHl]]; cbn [map length]; [split; reflexivity|].
  split; [|now rewrite IHl]. rewrite IHm. unfold out_size. now rewrite Hs.
Qed.

Lemma wire_size_outs_preserved t outs' : Forall2 out_preserved (t_outs t) outs' ->
  wire_size (set_outs t outs') = wire_size t.
Proof.
  intros H. destruct (out_sizes_preserved _ _ H) as [Hm Hl].
  rewrite !wire_size_closed_form. cbn [set_outs t_ins t_outs]. rewrite Hm. unfold zlen. rewrite Hl. reflexivity.
Qed.

(* ---- create_tx_wire = create_tx at the byte count of the initial transaction --------------------- *)
Lemma create_tx_wire_unfold sps pays fe lt ver :
  create_tx_wire sps pays fe lt ver =
  match fe with
  | FeeInt _ => create_tx (fun _ => 0) sps pays fe lt ver
  | FeeStandard => do n <- stream_len (initial_tx sps pays lt ver);
                   create_tx (fun _ => n) sps pays FeeStandard lt ver
  end.
Proof.
  unfold create_tx_wire, create_tx, set_unspents, distribute_wire, initial_tx. cbn [t_ins].
  rewrite !map_length, Nat.eqb_refl. cbn [negb bind].
  destruct fe as [f|]; [reflexivity|].
  destruct (stream_len _) as [n|e|]; reflexivity.
Qed.

(* an integer fee never reads the byte count *)
Lemma create_tx_int_fee_bc bc bc' sps pays f lt ver :
  create_tx bc sps pays (FeeInt f) lt ver = create_tx bc' sps pays (FeeInt f) lt ver.
Proof. reflexivity. Qed.

Theorem create_tx_wire_streamable sps pays fe lt ver :
  streamable (initial_tx sps pays lt ver) ->
  create_tx_wire sps pays fe lt ver =
  create_tx (fun _ => wire_size (initial_tx sps pays lt ver)) sps pays fe lt ver.
Proof.
  intros H. rewrite create_tx_wire_unfold. destruct fe as [f|].
  - apply create_tx_int_fee_bc.
  - rewrite stream_len_spec by exact H. reflexivity.
Qed.

(* the fee the call charges *)
Definition charged_fee (sps : list spendable) (pays : list payable) (fe : feearg) (lt ver : Z) : Z :=
  match fe with
  | FeeInt f => f
  | FeeStandard => recommended_fee (wire_size (initial_tx sps pays lt ver))
  end.

Lemma charged_fee_value sps pays fe lt ver :
  fee_value (fun _ => wire_size (initial_tx sps pays lt ver)) (initial_tx sps pays lt ver) fe
  = charged_fee sps pays fe lt ver.
Proof. destruct fe; reflexivity. Qed.

(* conservation to the satoshi, no parameter left *)
Theorem create_tx_wire_conserves sps pays fe lt ver t :
  streamable (initial_tx sps pays lt ver) \/ (exists f, fe = FeeInt f) ->
  create_tx_wire sps pays fe lt ver = Ret t -> 0 < pool_size pays ->
  let f := charged_fee sps pays fe lt ver in
  total_out t + f = spendables_total sps /\
  Forall (fun v => 1 <= v) (pool_values (map payable_txout pays) (t_outs t)) /\
  Forall2 out_preserved (map payable_txout pays) (t_outs t).
Proof.
  intros Hs H Hz.
  assert (H' : create_tx (fun _ => wire_size (initial_tx sps pays lt ver)) sps pays fe lt ver = Ret t).
  { destruct Hs as [Hs|[f ->]].
    - now rewrite <- create_tx_wire_streamable.
    - rewrite create_tx_wire_unfold in H. now rewrite (create_tx_int_fee_bc _ (fun _ => 0)). }
  destruct (create_tx_conserves _ _ _ _ _ _ _ H' Hz) as [Hc [_ [_ [Hg HP]]]].
  rewrite charged_fee_value in Hc. cbn zeta. auto.
Qed.

(* size of what create_tx returns = size of what the fee was computed on *)
Theorem create_tx_wire_size sps pays fe lt ver t :
  create_tx_wire sps pays fe lt ver = Ret t -> wire_size t = wire_size (initial_tx sps pays lt ver).
Proof.
  intros H. rewrite create_tx_wire_unfold in H.
  assert (exists bc, create_tx bc sps pays fe lt ver = Ret t) as [bc Hb].
  { destruct fe as [f|]; [eauto|].
    destruct (stream_len _) as [n|e|]; cbn [bind] in H; try discriminate. eauto. }
  destruct (create_tx_frame _ _ _ _ _ _ _ Hb) as [Hi [Hu [Hv [Hl HP]]]].
  destruct (out_sizes_preserved _ _ HP) as [Hm Hlen].
  rewrite !wire_size_closed_form. cbn [initial_tx t_ins t_outs]. rewrite Hi, Hm. unfold zlen. rewrite Hlen. reflexivity.
Qed.

(* if the result fits the wire widths, so did the half-built transaction the fee was computed on *)
Lemma outs_wf_initial outs outs' : Forall2 out_preserved outs outs' ->
  Forall TxWireSpec.txout_wf (map emb_out outs') -> Forall TxWireSpec.txout_wf (map emb_out outs).
Proof.
  induction 1 as [|o o' l l' [Hs Hv] _ IH]; cbn [map]; intros HF; [constructor|].
  inversion HF as [|x xs [Hu Hl] HF']; subst. constructor; [|now apply IH].
  unfold TxWireSpec.txout_wf, emb_out in *. cbn [TxWire.to_value TxWire.to_script] in *.
  rewrite Hs in Hl. split; [|exact Hl].
  destruct (Z.eq_dec (o_value o) 0) as [E|E].
  - rewrite E. unfold TxWireSpec.u64. lia.
  - rewrite (Hv E) in Hu. exact Hu.
Qed.

Lemma streamable_initial bc sps pays fe lt ver t :
  create_tx bc sps pays fe lt ver = Ret t -> streamable t -> streamable (initial_tx sps pays lt ver).
Proof.
  intros H (Hv & Hl & Hi & Ho & Hni & Hno).
  destruct (create_tx_frame _ _ _ _ _ _ _ H) as [Ei [_ [Ev [El HP]]]].
  destruct (out_sizes_preserved _ _ HP) as [_ Hlen].
  unfold streamable, TxWireSpec.tx_wf, emb in *.
  cbn [TxWire.tx_version TxWire.tx_ins TxWire.tx_outs TxWire.tx_lock_time initial_tx t_version t_ins t_outs t_lock_time] in *.
  rewrite Ev in Hv. rewrite El in Hl. rewrite Ei in Hi, Hni.
  split; [exact Hv|]. split; [exact Hl|]. split; [exact Hi|].
  split; [eapply outs_wf_initial; eauto|]. split; [exact Hni|].
  unfold TxWireSpec.len64, TxWireSpec.zlen in *. rewrite !map_length in *. rewrite <- Hlen. exact Hno.
Qed.

(* fee="standard": tx.fee() of the result is the recommended fee *of the result* whenever the result can be streamed *)
Theorem standard_fee_is_fee_of_result sps pays lt ver t :
  create_tx_wire sps pays FeeStandard lt ver = Ret t -> 0 < pool_size pays -> tx_is_coinbase t = false ->
  streamable t ->
  fee t = Ret (recommended_fee (wire_size t)) /\ recommended_fee_for_tx t = Ret (recommended_fee (wire_size t)).
Proof.
  intros H Hz Hc Hs. split; [|now apply recommended_fee_for_tx_spec].
  pose proof (create_tx_wire_size _ _ _ _ _ _ H) as Hsz.
  rewrite create_tx_wire_unfold in H.
  destruct (stream_len (initial_tx sps pays lt ver)) as [n0|e|] eqn:E0; cbn [bind] in H; try discriminate.
  pose proof (streamable_initial _ _ _ _ _ _ _ H Hs) as Hs0.
  rewrite stream_len_spec in E0 by exact Hs0. inversion E0; subst n0.
  rewrite (create_tx_fee _ _ _ _ _ _ _ H Hz Hc). cbn [fee_value]. now rewrite Hsz.
Qed.

(* outcomes: a transaction, ValueError, or (fee="standard" on unstreamable fields only) struct.error *)
Theorem create_tx_wire_outcomes sps pays fe lt ver :
  streamable (initial_tx sps pays lt ver) \/ (exists f, fe = FeeInt f) ->
  (exists t, create_tx_wire sps pays fe lt ver = Ret t) \/ create_tx_wire sps pays fe lt ver = Raise E_VALUE.
Proof.
  intros [Hs|[f ->]].
  - rewrite create_tx_wire_streamable by exact Hs. apply create_tx_outcomes.
  - rewrite create_tx_wire_unfold. apply create_tx_outcomes.
Qed.

Theorem create_tx_wire_value_error_iff sps pays fe lt ver :
  streamable (initial_tx sps pays lt ver) \/ (exists f, fe = FeeInt f) ->
  (create_tx_wire sps pays fe lt ver = Raise E_VALUE <->
   (0 < pool_size pays /\
    let remaining := spendables_total sps - (payables_total pays + charged_fee sps pays fe lt ver) in
    (remaining < 0 \/ remaining < pool_size pays))).
Proof.
  intros Hs.
  assert (E : create_tx_wire sps pays fe lt ver =
              create_tx (fun _ => wire_size (initial_tx sps pays lt ver)) sps pays fe lt ver).
  { destruct Hs as [Hs|[f ->]]; [now apply create_tx_wire_streamable|].
    rewrite create_tx_wire_unfold. apply create_tx_int_fee_bc. }
  rewrite E, create_tx_value_error_iff, charged_fee_value. reflexivity.
Qed.

(* struct.error comes only from fee="standard", and then nothing was distributed (the model returns no tx) *)
Theorem create_tx_wire_int_fee_never_struct sps pays f lt ver :
  create_tx_wire sps pays (FeeInt f) lt ver <> Raise E_STRUCT.
Proof.
  rewrite create_tx_wire_unfold.
  destruct (create_tx_outcomes (fun _ => 0) sps pays (FeeInt f) lt ver) as [[t ->]| ->]; discriminate.
Qed.

(* ---- non-vacuity: a concrete create_tx with fee="standard" ---------------------------------------- *)
Definition ex_hash : bytes := repeat x11 32.
Definition ex_sps : list spendable := [mk_spendable 5000000 [x51] ex_hash 0; mk_spendable 70000 [x52; x53] ex_hash 1].
Definition ex_pays : list payable := [PayAddr [x76; xa9]; PayPair [x51] 1000; PayAddr [x00; x14]].
Example ex_standard :
  exists t, create_tx_wire ex_sps ex_pays FeeStandard 0 1 = Ret t /\
            map o_value (t_outs t) = [2529500; 1000; 2529500] /\
            stream_len t = Ret 124 /\ fee t = Ret 10000 /\ recommended_fee_for_tx t = Ret 10000.
Proof. eexists. split; [vm_compute; reflexivity|]. vm_compute. repeat split. Qed.
