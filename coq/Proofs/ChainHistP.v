(* Proofs/ChainHistP.v — the BlockChain-level invariant along a history: every snapshot is good as long as no
   event falls under an exclusion predicate of Spec.ChainSpec.excluded. *)
From Coq Require Import List NArith ZArith Bool Lia Arith.
From PV Require Import Base.Outcome Model.Chain Spec.ChainSpec Proofs.ChainP Proofs.ChainFinderP Proofs.ChainBestP
  Proofs.ChainOpsP Proofs.ChainPathP Proofs.ChainLockP.
Import ListNotations.
Local Open Scope N_scope.

Section Hist.
Variable anchor0 : hash.
Variable base : list hash.            (* hashes of the preloaded chain *)
Variable G : list header.             (* all headers of the history *)
Variable rk : hash -> nat.
Hypothesis Grk : forall x, In x G -> (rk (hp x) < rk (hh x))%nat.
Hypothesis Gcons : forall x y, In x G -> In y G -> hh x = hh y -> x = y.
Hypothesis Gpos : forall x, In x G -> (0 < hw x)%Z.

(* ---- spec side *)
Lemma find_header_In D x : incl D G -> In x D -> find_header D (hh x) = Some x.
Proof.
  intros HD Hx. unfold find_header. destruct (find (fun y => hh y =? hh x) D) as [y|] eqn:E.
  - apply find_some in E. destruct E as [Hy Ey]. apply N.eqb_eq in Ey. f_equal. apply Gcons; auto.
  - exfalso. eapply find_none in E; [|exact Hx]. now rewrite N.eqb_refl in E.
Qed.
Lemma find_header_None D h : (forall x, In x D -> hh x <> h) -> find_header D h = None.
Proof.
  intros H. unfold find_header. destruct (find (fun y => hh y =? h) D) as [y|] eqn:E; [|reflexivity].
  apply find_some in E. destruct E as [Hy Ey]. apply N.eqb_eq in Ey. exfalso. eapply H; eauto.
Qed.
Lemma find_header_Some D h x : find_header D h = Some x -> In x D /\ hh x = h.
Proof. unfold find_header. intros E. apply find_some in E. destruct E as [A B]. apply N.eqb_eq in B. auto. Qed.

Lemma is_chain_incl D D' a c : incl D D' -> is_chain D a c -> is_chain D' a c.
Proof. intros H. induction 1; [constructor|]. econstructor; eauto. Qed.
Lemma is_chain_rank D : incl D G -> forall a c, is_chain D a c -> forall h, In h c -> (rk a < rk h)%nat.
Proof.
  intros HD. induction 1; intros h Hh; [destruct Hh|].
  apply HD in H. apply Grk in H. rewrite H0 in H. destruct Hh as [<-|Hh]; [exact H|].
  specialize (IHis_chain _ Hh). lia.
Qed.
Lemma is_chain_NoDup D : incl D G -> forall a c, is_chain D a c -> NoDup c.
Proof.
  intros HD. induction 1; constructor; [|exact IHis_chain].
  intros Hin. eapply is_chain_rank in Hin; eauto. lia.
Qed.
Lemma is_chain_app D a c1 c2 : is_chain D a (c1 ++ c2) <-> is_chain D a c1 /\ is_chain D (last c1 a) c2.
Proof.
  revert a. induction c1 as [|h r IH]; intros a; cbn [app].
  - cbn. split; [intros H; split; [constructor|exact H]|tauto].
  - rewrite last_cons_shift. split.
    + intros H. inversion H; subst. apply IH in H5. destruct H5. split; [econstructor; eauto|assumption].
    + intros [H1 H2]. inversion H1; subst. econstructor; eauto. apply IH. auto.
Qed.
Lemma cweight_app D a b : cweight D (a ++ b) = (cweight D a + cweight D b)%Z.
Proof. unfold cweight. induction a as [|x r IH]; cbn; [lia|]. cbn in IH. rewrite IH. lia. Qed.

(* ---- link between the delivered headers and the finder's maps *)
Record link (D : list header) (p : dict hash) (w : dict Z) (a : hash) : Prop := {
  l_pD : forall h q, dget h p = Some q -> exists x, In x D /\ hh x = h /\ hp x = q;
  l_Dp : forall x, In x D -> dget (hh x) p = Some (hp x) \/ (rk (hh x) <= rk a)%nat;
  (* the weight of a header at or below the anchor may be missing (preloaded, or skipped as the anchor itself) *)
  l_w : forall x, In x D -> dget (hh x) w = Some (hw x) \/ (rk (hh x) <= rk a)%nat;
  l_wD : forall h z, dget h w = Some z -> exists x, In x D /\ hh x = h /\ hw x = z;
  l_pw : forall h, kn p h -> dget h w <> None
}.

Section Link.
Variables (D : list header) (p : dict hash) (w : dict Z) (a : hash).
Hypothesis HD : incl D G.
Hypothesis L : link D p w a.

Lemma link_weight h : (rk a < rk h)%nat -> weight_or_0 w h = spec_weight D h.
Proof.
  intros Hr. unfold weight_or_0, spec_weight. destruct (dget h w) as [z|] eqn:E.
  - destruct (l_wD _ _ _ _ L _ _ E) as (x & Hx & <- & <-). now rewrite (find_header_In D x HD Hx).
  - rewrite find_header_None; [reflexivity|]. intros x Hx <-.
    destruct (l_w _ _ _ _ L _ Hx) as [H|H]; [rewrite H in E; discriminate|lia].
Qed.
Lemma link_chain_weight b c : is_chain D b c -> (rk a <= rk b)%nat -> chain_weight w c = cweight D c.
Proof.
  intros Hc Hr. pose proof (is_chain_rank D HD _ _ Hc) as Hrk. clear Hc.
  unfold chain_weight, cweight. induction c as [|h r IH]; cbn; [reflexivity|].
  rewrite IH by (intros x Hx; apply Hrk; now right). rewrite link_weight; [reflexivity|].
  specialize (Hrk h (or_introl eq_refl)). lia.
Qed.
Lemma link_weight_nonneg h : (0 <= weight_or_0 w h)%Z.
Proof.
  unfold weight_or_0. destruct (dget h w) as [z|] eqn:E; [|lia].
  destruct (l_wD _ _ _ _ L _ _ E) as (x & Hx & _ & <-). apply HD in Hx. apply Gpos in Hx. lia.
Qed.
Lemma link_weight_pos h : kn p h -> (0 < weight_or_0 w h)%Z.
Proof.
  intros K. pose proof (l_pw _ _ _ _ L _ K) as Hw. unfold weight_or_0.
  destruct (dget h w) as [z|] eqn:E; [|congruence].
  destruct (l_wD _ _ _ _ L _ _ E) as (x & Hx & _ & <-). apply HD in Hx. apply Gpos in Hx. lia.
Qed.
Lemma link_ranked : ranked rk p.
Proof.
  intros h q E. destruct (l_pD _ _ _ _ L _ _ E) as (x & Hx & <- & <-). apply Grk. now apply HD.
Qed.
Lemma is_chain_pchain b c : is_chain D b c -> (rk a <= rk b)%nat -> pchain p b c.
Proof.
  induction 1; intros Hr; [constructor|].
  pose proof (Grk _ (HD _ H)) as Hx. subst a0.
  constructor.
  - destruct (l_Dp _ _ _ _ L _ H) as [E|E]; [exact E|lia].
  - apply IHis_chain. lia.
Qed.
Lemma pchain_is_chain b c : pchain p b c -> is_chain D b c.
Proof.
  induction 1; [constructor|]. destruct (l_pD _ _ _ _ L _ _ H) as (x & Hx & <- & <-).
  econstructor; eauto.
Qed.
End Link.


(* ---- set_weights *)
Lemma set_weights_cons x r w : set_weights (x :: r) w = set_weights r (dset (hh x) (hw x) w).
Proof. reflexivity. Qed.
Lemma set_weights_get : forall hs w h z, dget h (set_weights hs w) = Some z ->
  dget h w = Some z \/ exists x, In x hs /\ hh x = h /\ hw x = z.
Proof.
  induction hs as [|x r IH]; intros w h z E; [now left|].
  rewrite set_weights_cons in E. destruct (IH _ _ _ E) as [H|(y & Hy & E1 & E2)].
  - destruct (N.eq_dec h (hh x)) as [->|Hn].
    + rewrite dget_dset_eq in H. inversion H; subst. right. exists x. split; [now left|auto].
    + rewrite dget_dset_neq in H by exact Hn. now left.
  - right. exists y. split; [now right|auto].
Qed.
Lemma set_weights_keeps : forall hs w h, dget h w <> None -> dget h (set_weights hs w) <> None.
Proof.
  induction hs as [|x r IH]; intros w h H; [exact H|]. rewrite set_weights_cons. apply IH.
  destruct (N.eq_dec h (hh x)) as [->|Hn]; [rewrite dget_dset_eq; discriminate|now rewrite dget_dset_neq].
Qed.
Lemma set_weights_has : forall hs w x, In x hs -> dget (hh x) (set_weights hs w) <> None.
Proof.
  induction hs as [|y r IH]; intros w x []; rewrite set_weights_cons.
  - subst. apply set_weights_keeps. rewrite dget_dset_eq. discriminate.
  - now apply IH.
Qed.

(* ---- the BlockChain invariant *)
Record BI (bc : blockchain) (D : list header) (allops : list op) : Prop := {
  b_fok : finder_ok (bc_cf bc);
  b_unk : ~ kn (pl (bc_cf bc)) (bc_parent bc);
  b_link : link D (pl (bc_cf bc)) (bc_w bc) (bc_parent bc);
  b_anchor : bc_parent bc = last (map fst3 (bc_locked bc)) anchor0;
  b_cache : exists c, bc_cache bc = Some c /\
     (c = [] \/ ppath (pl (bc_cf bc)) (kn (pl (bc_cf bc))) (hd 0 c) (c ++ [bc_parent bc])) /\
     heaviest D (bc_parent bc) (rev c) /\
     is_chain D anchor0 (chain_of bc c) /\
     maps_agree (chain_of bc c) (bc_h2i bc) /\
     apply_ops allops base = Some (chain_of bc c)
}.

Lemma nth_last_len {A} (l : list A) k d d' : length l = S k -> nth k l d = last l d'.
Proof.
  revert k. induction l as [|x r IH]; intros k Hl; [discriminate|].
  destruct r as [|y r'].
  - cbn in Hl. inversion Hl; subst. reflexivity.
  - destruct k; [cbn in Hl; lia|]. cbn [nth]. rewrite last_cons_ne by discriminate. apply IH. cbn in *. lia.
Qed.

Lemma BI_good bc D allops s c :
  BI bc D allops -> bc_cache bc = Some c ->
  s_chain s = chain_of bc c -> s_locked s = length (bc_locked bc) -> s_h2i s = bc_h2i bc ->
  good_snapshot anchor0 base D allops s.
Proof.
  intros B Hc Es El Eh. destruct (b_cache _ _ _ B) as (c0 & Hc0 & _ & Hheavy & Hchain & Hmaps & Hops).
  rewrite Hc in Hc0. inversion Hc0; subst c0. unfold good_snapshot. rewrite Es, Eh.
  split; [exact Hchain|]. split; [|split; [exact Hmaps|exact Hops]].
  assert (Ea : snapshot_anchor anchor0 s = bc_parent bc).
  { unfold snapshot_anchor. rewrite El, Es, (b_anchor _ _ _ B). unfold chain_of.
    destruct (bc_locked bc) as [|t r] eqn:E; [reflexivity|].
    cbn [length]. rewrite app_nth1 by (rewrite map_length; cbn; lia).
    apply nth_last_len. rewrite map_length. reflexivity. }
  rewrite Ea, El. unfold chain_of. rewrite skipn_app, map_length, Nat.sub_diag. cbn [skipn].
  rewrite skipn_all2 by (rewrite map_length; lia). exact Hheavy.
Qed.

Lemma diff_paths cf a c c' :
  finder_ok cf -> ranked rk (pl cf) ->
  (c = [] \/ ppath (pl cf) (kn (pl cf)) (hd 0 c) (c ++ [a])) ->
  (c' = [] \/ ppath (pl cf) (kn (pl cf)) (hd 0 c') (c' ++ [a])) ->
  exists op np s',
    match c, c' with
    | o0 :: _, n0 :: _ =>
      lift (find_ancestral_path o0 n0 cf) (fun '(op_, np_) => Ret (removelast op_, removelast np_))
    | _, _ => Ret (c, c')
    end = Ret (op, np) /\ c = op ++ s' /\ c' = np ++ s'.
Proof.
  intros F R Hc Hc'.
  destruct c as [|o0 cr].
  { exists [], c', []. rewrite !app_nil_r. repeat split. }
  destruct c' as [|n0 cr'].
  { exists (o0 :: cr), [], []. rewrite !app_nil_r. repeat split. }
  destruct Hc as [Hc|Hc]; [discriminate|]. destruct Hc' as [Hc'|Hc']; [discriminate|]. cbn [hd] in *.
  destruct (maximum_path_spec rk cf o0 F R) as (l1 & M1 & P1).
  destruct (maximum_path_spec rk cf n0 F R) as (l2 & M2 & P2).
  pose proof (ppath_det _ _ _ _ _ P1 Hc) as E1. pose proof (ppath_det _ _ _ _ _ P2 Hc') as E2. subst l1 l2.
  destruct (find_ancestral_path_spec cf o0 n0 _ _ M1 M2 P1 P2) as (u1 & u2 & s0 & x & Hf & Ea & Eb & Hne).
  { rewrite !last_app_ne by discriminate. reflexivity. }
  rewrite Hf. cbn [lift bind]. rewrite !removelast_last.
  exists u1, u2, (removelast s0). split; [reflexivity|].
  rewrite (app_removelast_last 0 Hne) in Ea, Eb. rewrite app_assoc in Ea, Eb.
  apply app_inj_tail in Ea. apply app_inj_tail in Eb. destruct Ea, Eb. auto.
Qed.

Lemma ppath_grow p p' b l a :
  ppath p (kn p) b l -> (forall x q, dget x p = Some q -> dget x p' = Some q) -> last l 0 = a -> ~ kn p' a ->
  ppath p' (kn p') b l.
Proof.
  intros Hp Hext Hl Ha. eapply ppath_mono.
  - eapply ppath_change_p; [exact Hp|]. intros x q _ E. now apply Hext.
  - intros x K. unfold kn in *. destruct (dget x p) eqn:E; [|congruence]. rewrite (Hext _ _ E). discriminate.
  - now rewrite Hl.
Qed.


Lemma deliver_step bc D allops hs prio pref :
  BI bc D allops -> incl (D ++ hs) G ->
  exists s bc', step (Deliver hs prio pref) bc = inl (s, bc') /\
     good_snapshot anchor0 base (D ++ hs) (allops ++ ops_of s) s /\ BI bc' (D ++ hs) (allops ++ ops_of s).
Proof.
  intros B HG.
  assert (HD : incl D G) by (intros x Hx; apply HG; rewrite in_app_iff; now left).
  assert (Hhs : incl hs G) by (intros x Hx; apply HG; rewrite in_app_iff; now right).
  destruct (b_cache _ _ _ B) as (c & Hc & Hcp & Hheavy & Hchain & Hmaps & Hops).
  pose proof (b_link _ _ _ B) as L0. pose proof (b_fok _ _ _ B) as F0.
  set (cf := bc_cf bc) in *. set (a := bc_parent bc) in *.
  set (hs' := filter (fun x => negb (hh x =? a)) hs).
  set (nodes := map (fun x => (hh x, hp x)) hs').
  assert (Hhs' : forall x, In x hs' <-> In x hs /\ hh x <> a).
  { intros x. unfold hs'. rewrite filter_In. destruct (N.eqb_spec (hh x) a); cbn; intuition congruence. }
  destruct (register nodes (pl cf) []) as [p' N0] eqn:Hreg.
  destruct (register_spec _ _ _ _ _ Hreg) as [R1 R2].
  destruct (register_dget _ _ _ _ _ Hreg) as [R3 R4].
  set (w' := set_weights hs' (bc_w bc)).
  assert (Hnodes : forall h q, In (h, q) nodes -> exists x, In x hs' /\ hh x = h /\ hp x = q).
  { intros h q H. unfold nodes in H. apply in_map_iff in H. destruct H as (x & Ex & Hx). inversion Ex; subst. eauto. }
  assert (Hunk' : ~ kn p' a).
  { intros K. unfold kn in K. destruct (dget a p') as [q|] eqn:E; [|congruence]. destruct (R3 _ _ E) as [H|H].
    - apply (b_unk _ _ _ B). fold cf a. unfold kn. congruence.
    - destruct (Hnodes _ _ H) as (x & Hx & Ex & _). apply Hhs' in Hx. tauto. }
  (* a delivered header is old, or one of the headers actually handed to the finder, or the anchor's own header *)
  assert (Hsplit : forall x, In x (D ++ hs) -> In x D \/ In x hs' \/ hh x = a).
  { intros x Hx. apply in_app_iff in Hx. destruct Hx as [Hx|Hx]; [now left|].
    destruct (N.eq_dec (hh x) a) as [E|E]; [right; now right|right; left; apply Hhs'; auto]. }
  assert (Hhs'G : incl hs' G) by (intros x Hx; apply Hhs; now apply Hhs').
  assert (L' : link (D ++ hs) p' w' a).
  { constructor.
    - intros h q E. destruct (R3 _ _ E) as [H|H].
      + destruct (l_pD _ _ _ _ L0 _ _ H) as (x & Hx & ? & ?). exists x. rewrite in_app_iff. auto.
      + destruct (Hnodes _ _ H) as (x & Hx & ? & ?). exists x. rewrite in_app_iff. apply Hhs' in Hx. tauto.
    - intros x Hx. destruct (Hsplit _ Hx) as [Hx'|[Hx'|Hx']].
      + destruct (l_Dp _ _ _ _ L0 _ Hx') as [H|H]; [left; now apply R1|now right].
      + left. assert (K : dget (hh x) p' <> None).
        { apply (R4 (hh x) (hp x)). unfold nodes. apply in_map_iff. exists x. auto. }
        destruct (dget (hh x) p') as [q|] eqn:E; [|congruence]. f_equal.
        destruct (R3 _ _ E) as [H|H].
        * destruct (l_pD _ _ _ _ L0 _ _ H) as (y & Hy & Ey1 & Ey2).
          assert (y = x) by (apply Gcons; auto). subst y. now symmetry.
        * destruct (Hnodes _ _ H) as (y & Hy & Ey1 & Ey2).
          assert (y = x) by (apply Gcons; auto). subst y. now symmetry.
      + right. rewrite Hx'. apply le_n.
    - intros x Hx.
      assert (HxG : In x G) by (now apply HG).
      assert (Hval : forall z, dget (hh x) w' = Some z -> z = hw x).
      { intros z E. destruct (set_weights_get _ _ _ _ E) as [H|(y & Hy & Ey1 & Ey2)].
        + destruct (l_wD _ _ _ _ L0 _ _ H) as (y & Hy & Ey1 & Ey2).
          assert (y = x) by (apply Gcons; auto). subst y. now symmetry.
        + assert (y = x) by (apply Gcons; auto). subst y. now symmetry. }
      assert (Hhave : dget (hh x) w' <> None -> dget (hh x) w' = Some (hw x)).
      { intros K. destruct (dget (hh x) w') as [z|] eqn:E; [|congruence]. f_equal. now apply Hval. }
      destruct (Hsplit _ Hx) as [Hx'|[Hx'|Hx']].
      + destruct (l_w _ _ _ _ L0 _ Hx') as [H|H]; [|now right].
        left. apply Hhave. apply set_weights_keeps. rewrite H. discriminate.
      + left. apply Hhave. now apply set_weights_has.
      + right. rewrite Hx'. apply le_n.
    - intros h z E. destruct (set_weights_get _ _ _ _ E) as [H|(y & Hy & Ey1 & Ey2)].
      + destruct (l_wD _ _ _ _ L0 _ _ H) as (y & Hy & ? & ?). exists y. rewrite in_app_iff. auto.
      + exists y. rewrite in_app_iff. apply Hhs' in Hy. tauto.
    - intros h K. unfold kn in K. destruct (dget h p') as [q|] eqn:E; [|congruence].
      destruct (R3 _ _ E) as [H|H].
      + apply set_weights_keeps. apply (l_pw _ _ _ _ L0). unfold kn. fold cf. congruence.
      + destruct (Hnodes _ _ H) as (y & Hy & <- & _). now apply set_weights_has. }
  assert (Hrk' : ranked rk p') by exact (link_ranked _ _ _ _ HG L').
  destruct (load_nodes_ok rk cf nodes p' N0 F0 Hreg Hrk') with (prio := prio) as (cf' & Hload & F' & Epl').
  rewrite <- Epl' in *.
  destruct (reported_heaviest pref a w' cf' F' Hunk') as (c' & (cs & Hall & Ec') & Hpc & Hmax & Htree).
  { intros h. exact (link_weight_nonneg _ _ _ _ HG L' h). }
  { intros h. exact (link_weight_pos _ _ _ _ HG L' h). }
  assert (Hheavy' : heaviest (D ++ hs) a (rev c')).
  { split; [exact (pchain_is_chain _ _ _ _ L' _ _ Hpc)|].
    intros c'' Hc''.
    rewrite <- (link_chain_weight _ _ _ _ HG L' _ _ Hc'' (le_n _)).
    rewrite <- (link_chain_weight _ _ _ _ HG L' _ _ (pchain_is_chain _ _ _ _ L' _ _ Hpc) (le_n _)). apply Hmax.
    exact (is_chain_pchain _ _ _ _ HG L' _ _ Hc'' (le_n _)). }
  assert (Hcp' : c = [] \/ ppath (pl cf') (kn (pl cf')) (hd 0 c) (c ++ [a])).
  { destruct Hcp as [->|Hp]; [now left|right]. eapply ppath_grow; eauto. now rewrite last_app_ne by discriminate. }
  assert (Hc'p : c' = [] \/ ppath (pl cf') (kn (pl cf')) (hd 0 c') (c' ++ [a])).
  { destruct Htree as [->|Ht]; [now left|right]. apply (proj1 F' _ _ Ht). }
  destruct (diff_paths cf' a c c' F' Hrk' Hcp' Hc'p) as (op & np & s' & Hdiff & Ec & Ec'').
  set (Lk := map fst3 (bc_locked bc)).
  assert (HchainL : is_chain (D ++ hs) anchor0 Lk /\ a = last Lk anchor0).
  { unfold chain_of in Hchain. fold Lk in Hchain. apply is_chain_app in Hchain. destruct Hchain as [H1 _].
    split; [eapply is_chain_incl; [|exact H1]; intros x Hx; rewrite in_app_iff; now left|].
    apply (b_anchor _ _ _ B). }
  destruct HchainL as [HchL Ea].
  assert (Hchain' : is_chain (D ++ hs) anchor0 (Lk ++ rev c')).
  { apply is_chain_app. split; [exact HchL|]. rewrite <- Ea. apply Hheavy'. }
  unfold hash in *.
  destruct (ops_correct Lk op np s' (bc_h2i bc)) as (rops & m1 & aops & m2 & Hrem & Hadd & Hmaps' & Happly).
  { unfold hash in *. rewrite <- Ec. eapply (is_chain_NoDup D HD). exact Hchain. }
  { unfold hash in *. rewrite <- Ec''. eapply (is_chain_NoDup (D ++ hs) HG). exact Hchain'. }
  { unfold hash in *. rewrite <- Ec. exact Hmaps. }
  unfold hash in *.
  set (bc' := mkBC a (bc_locked bc) m2 w' cf' (Some c')).
  destruct (observe_spec pref (Some (rops ++ aops)) bc' c' eq_refl) as (s & Hobs & Hso & Hsc & Hsl & Hsh).
  assert (Hstep : step (Deliver hs prio pref) bc = inl (s, bc')).
  { unfold step, add_headers. unfold longest_local at 1. unfold hash in *. unfold hash in *; rewrite Hc. cbn [lift bind].
    fold cf a. fold hs'. unfold nodes in Hload. unfold hash in *; rewrite Hload. cbn [lift bind].
    unfold longest_local. cbn [bc_cache bc_parent bc_cf bc_w]. fold a. unfold hash in *; rewrite Hall. cbn [lift bind].
    fold w'. unfold hash in *; rewrite <- Ec'. cbn [bc_locked bc_h2i bc_parent bc_w bc_cf bc_cache].
    unfold hash in *; rewrite Hdiff. cbn [lift bind].
    unfold Lk in Hrem. unfold hash in *; rewrite map_length in Hrem.
    unfold hash in *; rewrite <- Ec in Hrem. unfold hash in *; rewrite Hrem. cbn [lift bind].
    unfold Lk in Hadd. unfold hash in *; rewrite map_length in Hadd. unfold hash in *; rewrite <- Ec'' in Hadd. unfold hash in *; rewrite Hadd.
    fold bc'. unfold hash in *; rewrite Hobs. reflexivity. }
  exists s, bc'. split; [exact Hstep|].
  assert (Hops_s : ops_of s = rops ++ aops) by (unfold ops_of; now rewrite Hso).
  assert (B' : BI bc' (D ++ hs) (allops ++ ops_of s)).
  { constructor; cbn [bc_cf bc_parent bc_locked bc_w bc_h2i bc_cache bc']; unfold hash in *.
    - exact F'.
    - exact Hunk'.
    - exact L'.
    - apply (b_anchor _ _ _ B).
    - exists c'. split; [reflexivity|]. split; [exact Hc'p|]. split; [exact Hheavy'|].
      unfold chain_of. cbn [bc_locked]. fold Lk. split; [exact Hchain'|]. split.
      + rewrite Ec''. exact Hmaps'.
      + rewrite Hops_s, apply_ops_app, Hops. unfold chain_of. fold Lk. rewrite Ec, Ec''. exact Happly. }
  split; [|exact B'].
  eapply BI_good; [exact B'|reflexivity|exact Hsc|exact Hsl|exact Hsh].
Qed.

Lemma chains_from_sound D : forall fuel a c, In c (chains_from fuel D a) -> is_chain D a c.
Proof.
  induction fuel as [|f IH]; cbn; intros a c H.
  - destruct H as [<-|[]]. constructor.
  - destruct H as [<-|H]; [constructor|]. apply in_flat_map in H. destruct H as (x & Hx & Hc).
    destruct (N.eqb_spec (hp x) a) as [E|E]; [|destruct Hc].
    apply in_map_iff in Hc. destruct Hc as (r & <- & Hr). econstructor; eauto.
Qed.
Lemma chains_from_complete D : forall fuel a c, is_chain D a c -> (length c <= fuel)%nat -> In c (chains_from fuel D a).
Proof.
  induction fuel as [|f IH]; intros a c Hc Hl.
  - destruct c; [now left|cbn in Hl; lia].
  - cbn. destruct Hc as [|a x c Hx Ex Hc]; [now left|]. right. apply in_flat_map. exists x. split; [exact Hx|].
    rewrite Ex, N.eqb_refl. apply in_map. apply IH; [exact Hc|cbn in Hl; lia].
Qed.
Lemma is_chain_hashes D a c : is_chain D a c -> forall h, In h c -> exists x, In x D /\ hh x = h.
Proof. induction 1; intros h []; [subst; eauto|eauto]. Qed.
Lemma is_chain_length D a c : incl D G -> is_chain D a c -> (length c <= length D)%nat.
Proof.
  intros HD Hc. rewrite <- (map_length hh D). apply NoDup_incl_length.
  - eapply is_chain_NoDup; eauto.
  - intros h Hh. destruct (is_chain_hashes _ _ _ Hc _ Hh) as (x & Hx & <-). now apply in_map.
Qed.
Lemma max_weight_spec D cs :
  (forall c, In c cs -> (cweight D c <= max_weight D cs)%Z) /\ (0 <= max_weight D cs)%Z /\
  (max_weight D cs = 0%Z \/ exists c, In c cs /\ cweight D c = max_weight D cs).
Proof.
  induction cs as [|c r (A & B & C)]; cbn [max_weight fold_right].
  - split; [intros c []|]. split; [lia|now left].
  - fold (max_weight D r). split; [|split].
    + intros c' [<-|H]; [lia|]. apply A in H. lia.
    + lia.
    + destruct (Z.max_spec (cweight D c) (max_weight D r)) as [[H1 H2]|[H1 H2]]; rewrite H2.
      * destruct C as [C|(c' & Hc' & E)]; [now left|right]. exists c'. split; [now right|exact E].
      * right. exists c. split; [now left|reflexivity].
Qed.
Lemma lock_items_some w : forall k parent rl, (k <= length rl)%nat ->
  exists items, lock_items w parent rl k = Some items /\ map fst3 items = firstn k rl /\ length items = k.
Proof.
  induction k as [|k IH]; intros parent rl Hl.
  - exists []. destruct rl; cbn; auto.
  - destruct rl as [|h r]; [cbn in Hl; lia|]. cbn [lock_items].
    destruct (IH h r) as (items & E & Hm & Hlen); [cbn in Hl; lia|]. rewrite E.
    eexists. split; [reflexivity|]. cbn [map length firstn fst3 fst]. rewrite Hm, Hlen. split; reflexivity.
Qed.
Lemma lock_items_none w : forall k parent rl, (length rl < k)%nat -> lock_items w parent rl k = None.
Proof.
  induction k as [|k IH]; intros parent rl Hl; [lia|].
  destruct rl as [|h r]; [reflexivity|]. cbn [lock_items]. rewrite IH; [reflexivity|cbn in Hl; lia].
Qed.

Lemma pchain_app p a c1 c2 : pchain p a (c1 ++ c2) -> pchain p a c1 /\ pchain p (last c1 a) c2.
Proof.
  revert a. induction c1 as [|h r IH]; intros a H; cbn [app] in H.
  - split; [constructor|exact H].
  - inversion H; subst. apply IH in H4. destruct H4. rewrite last_cons_shift. split; [now constructor|assumption].
Qed.
Lemma pchain_parent p a c : pchain p a c -> forall h q, In h c -> dget h p = Some q -> q = a \/ In q c.
Proof.
  induction 1; intros x q Hx Eq; [destruct Hx|].
  destruct Hx as [<-|Hx]; [left; congruence|].
  destruct (IHpchain _ _ Hx Eq) as [->|Hq]; right; [now left|now right].
Qed.
Lemma is_chain_last_rank D : incl D G -> forall a c, is_chain D a c ->
  (rk a <= rk (last c a))%nat /\ forall h, In h c -> (rk h <= rk (last c a))%nat.
Proof.
  intros HD. induction 1.
  - cbn. split; [lia|intros h []].
  - rewrite last_cons_shift. destruct IHis_chain as [A B].
    pose proof (Grk _ (HD _ H)) as Hx. rewrite H0 in Hx. split; [lia|].
    intros h [<-|Hh]; [exact A|auto].
Qed.
Lemma fold_ddel_dget {V} : forall L (d : dict V) x,
  (In x L -> dget x (fold_left (fun p h => ddel h p) L d) = None) /\
  (~ In x L -> dget x (fold_left (fun p h => ddel h p) L d) = dget x d).
Proof.
  induction L as [|h r IH]; intros d x; cbn [fold_left].
  - split; [intros []|reflexivity].
  - destruct (IH (ddel h d) x) as [A B]. split.
    + intros [<-|Hx].
      * destruct (in_dec N.eq_dec h r) as [Hr|Hr]; [auto|]. rewrite B by exact Hr. apply dget_ddel_eq.
      * auto.
    + intros Hn. rewrite B by (intros H; apply Hn; now right).
      apply dget_ddel_neq. intros ->. apply Hn. now left.
Qed.


Lemma rev_last_cons {A} (l : list A) d : l <> [] -> rev l = last l d :: rev (removelast l).
Proof. intros H. rewrite (app_removelast_last d H) at 1. rewrite rev_app_distr. reflexivity. Qed.

Lemma ppath_prefix p p' (P P' : hash -> Prop) : forall l1 b x l2, ppath p P b (l1 ++ x :: l2) ->
  (forall y, In y l1 -> P' y /\ dget y p' = dget y p) -> ~ P' x -> ppath p' P' b (l1 ++ [x]).
Proof.
  induction l1 as [|y r IH]; intros b x l2 Hp Hl1 Hx; cbn [app] in *.
  - destruct (ppath_hd _ _ _ _ Hp) as (r & E). inversion E; subst. now constructor.
  - inversion Hp as [t Ht E1 E2 | b0 b' l' Pb Eb Hp' E1 E2]; subst.
    + destruct r; discriminate.
    + destruct (Hl1 y (or_introl eq_refl)) as [Py Ey]. econstructor; [exact Py|rewrite Ey; exact Eb|].
      eapply IH; eauto. intros z Hz. apply Hl1. now right.
Qed.

Lemma lock_step bc D allops n prio pref :
  BI bc D allops -> incl D G ->
  (exists s bc', step (Lock n prio pref) bc = inl (s, bc') /\
       good_snapshot anchor0 base D (allops ++ ops_of s) s /\ BI bc' D (allops ++ ops_of s)) \/
  step (Lock n prio pref) bc = inr OutOfRange.
Proof.
  intros B HD. destruct (b_cache _ _ _ B) as (c & Hc & Hcp & Hheavy & Hchain & Hmaps & Hops).
  pose proof (b_link _ _ _ B) as L0. pose proof (b_fok _ _ _ B) as F0.
  unfold hash in *.
  destruct (Nat.leb_spec n (length (bc_locked bc))) as [Hle|Hgt].
  - (* index below the locked length: nothing happens *)
    left. destruct (observe_spec pref None bc c Hc) as (s & Hobs & Hso & Hsc & Hsl & Hsh).
    exists s, bc.
    assert (Eo : ops_of s = []) by (unfold ops_of; now rewrite Hso). rewrite Eo, app_nil_r.
    split; [|split; [eapply BI_good; eauto|exact B]].
    unfold step, lock_to_index, longest_local. unfold hash in *. rewrite Hc.
    match goal with |- context [(n <=? ?x)%nat] => destruct (Nat.leb_spec n x) end; [|lia]. now rewrite Hobs.
  - set (k := (n - length (bc_locked bc))%nat).
    set (cf := bc_cf bc) in *. set (a := bc_parent bc) in *.
    destruct (Nat.ltb_spec (length (rev c)) k) as [Hlt|Hge].
    + (* lock beyond the reported chain *)
      right. unfold step, lock_to_index, longest_local. unfold hash in *. rewrite Hc.
      match goal with |- context [(n <=? ?x)%nat] => destruct (Nat.leb_spec n x) end; [lia|]. fold k. fold a.
      now rewrite (lock_items_none (bc_w bc) k a (rev c) Hlt).
    + left. assert (Hk1 : (1 <= k)%nat) by (unfold k; lia).
      rewrite rev_length in Hge.
      set (LKs := firstn k (rev c)). set (tail := skipn k (rev c)).
      set (c'' := firstn (length c - k) c).
      assert (Esplit : rev c = LKs ++ tail) by (symmetry; apply firstn_skipn).
      assert (Etail : rev c'' = tail) by (unfold c'', tail; symmetry; apply skipn_rev).
      assert (ELK : rev LKs = skipn (length c - k) c).
      { unfold LKs. rewrite firstn_rev. apply rev_involutive. }
      assert (Ec : c = c'' ++ rev LKs) by (rewrite ELK; symmetry; apply firstn_skipn).
      assert (HLKne : LKs <> []).
      { intros E. apply (f_equal (@length N)) in E. unfold LKs in E. rewrite firstn_length, rev_length in E. cbn in E. lia. }
      destruct (lock_items_some (bc_w bc) k a (rev c)) as (items & Eitems & Hitems & Hilen); [rewrite rev_length; lia|].
      fold LKs in Hitems.
      set (a' := last LKs a).
      assert (Ha'in : In a' LKs) by (unfold a'; rewrite (last_default LKs a 0 HLKne); now apply last_In).
      destruct Hheavy as [Hch Hmax].
      assert (Hnd : NoDup (rev c)) by (eapply (is_chain_NoDup D HD); exact Hch).
      assert (Hpc : pchain (pl cf) a (rev c)) by exact (is_chain_pchain _ _ _ _ HD L0 _ _ Hch (le_n _)).
      rewrite Esplit in Hpc, Hch, Hnd. apply pchain_app in Hpc. destruct Hpc as [HpcL HpcT].
      apply is_chain_app in Hch. destruct Hch as [HchL HchT]. fold a' in HpcT, HchT.
      pose proof (b_unk _ _ _ B) as Hunk. fold cf a in Hunk.
      destruct (lock_nodes_spec cf LKs F0) as [N1 N2].
      { intros h q Hh Eq Kq. destruct (pchain_parent _ _ _ HpcL _ _ Hh Eq) as [->|H]; [contradiction|exact H]. }
      set (nodes := lock_iter (pl cf) (tfb cf) (rev LKs) []) in *.
      destruct (register nodes [] []) as [p'' N''] eqn:Hreg.
      destruct (register_dget _ _ _ _ _ Hreg) as [R3 R4].
      assert (P1 : forall h q, dget h p'' = Some q -> dget h (pl cf) = Some q /\ ~ In h LKs).
      { intros h q E. destruct (R3 _ _ E) as [H|H]; [discriminate|now apply N1]. }
      assert (P2 : forall h q, dget h (pl cf) = Some q -> ~ In h LKs -> dget h p'' = Some q).
      { intros h q E Hn. destruct (N2 h) as (q' & Hq'); [unfold kn; congruence|exact Hn|].
        pose proof (R4 _ _ Hq') as K. destruct (dget h p'') as [q''|] eqn:E''; [|congruence].
        destruct (P1 _ _ E'') as [E3 _]. congruence. }
      pose proof (link_ranked _ _ _ _ HD L0) as Hrk0.
      assert (Hrk'' : ranked rk p'').
      { intros h q E. apply (Hrk0 h q). now apply P1. }
      destruct (load_nodes_ok rk empty_finder nodes p'' N'' finder_ok_empty Hreg Hrk'') with (prio := prio)
        as (cf'' & Hload & F'' & Epl'').
      rewrite <- Epl'' in *.
      assert (Hunk'' : ~ kn (pl cf'') a').
      { intros K. unfold kn in K. destruct (dget a' (pl cf'')) as [q|] eqn:E; [|congruence].
        destruct (P1 _ _ E) as [_ H]. contradiction. }
      destruct (is_chain_last_rank D HD _ _ HchL) as [RkA RkL]. fold a' in RkA, RkL.
      assert (L'' : link D (pl cf'') (bc_w bc) a').
      { constructor.
        - intros h q E. apply (l_pD _ _ _ _ L0). now apply P1.
        - intros x Hx. destruct (l_Dp _ _ _ _ L0 _ Hx) as [H|H].
          + destruct (in_dec N.eq_dec (hh x) LKs) as [Hi|Hi]; [right; now apply RkL|left; now apply P2].
          + right. eapply Nat.le_trans; [exact H|exact RkA].
        - intros x Hx. destruct (l_w _ _ _ _ L0 _ Hx) as [H|H]; [now left|right].
          eapply Nat.le_trans; [exact H|exact RkA].
        - apply (l_wD _ _ _ _ L0).
        - intros h K. apply (l_pw _ _ _ _ L0). unfold kn in *. destruct (dget h (pl cf'')) as [q|] eqn:E; [|congruence].
          destruct (P1 _ _ E) as [E1 _]. fold cf. congruence. }
      (* the rest of the reported chain is a heaviest chain from the new anchor *)
      assert (Hheavy'' : heaviest D a' (rev c'')).
      { rewrite Etail. split; [exact HchT|]. intros c1 Hc1.
        assert (Hc2 : is_chain D a (LKs ++ c1)) by (apply is_chain_app; split; [exact HchL|exact Hc1]).
        apply Hmax in Hc2. rewrite Esplit in Hc2. rewrite !cweight_app in Hc2. lia. }
      assert (Hcp'' : c'' = [] \/ ppath (pl cf'') (kn (pl cf'')) (hd 0 c'') (c'' ++ [a'])).
      { destruct c'' as [|y0 r0] eqn:Ec0; [now left|right]. rewrite <- Ec0 in *.
        destruct Hcp as [Hcn|Hp]; [exfalso; rewrite Hcn in Ec; destruct c''; [congruence|discriminate]|].
        assert (Ehd : hd 0 c = hd 0 c'') by (rewrite Ec, Ec0; reflexivity).
        rewrite Ehd in Hp. rewrite Ec in Hp. rewrite (rev_last_cons LKs a HLKne) in Hp. fold a' in Hp.
        rewrite <- app_assoc in Hp. cbn [app] in Hp.
        eapply ppath_prefix; [exact Hp| |exact Hunk''].
        intros y Hy.
        assert (Hyn : ~ In y LKs).
        { intros Hi. apply (NoDup_remove_2 [] _ _) in Hnd || idtac.
          assert (Hyt : In y tail) by (rewrite <- Etail; now apply in_rev in Hy || (apply -> in_rev; exact Hy)).
          clear - Hnd Hi Hyt. induction LKs as [|z r IH]; [destruct Hi|]. cbn in Hnd. inversion Hnd; subst.
          destruct Hi as [->|Hi]; [apply H1; rewrite in_app_iff; now right|auto]. }
        assert (Ky : kn (pl cf) y).
        { eapply (ppath_interior _ _ _ _ Hp). rewrite removelast_app by discriminate. rewrite in_app_iff. now left. }
        unfold kn in Ky. destruct (dget y (pl cf)) as [q|] eqn:Eq; [|congruence].
        pose proof (P2 _ _ Eq Hyn) as E2. split; [unfold kn; congruence|congruence]. }
      set (bc3 := mkBC a' (bc_locked bc ++ items) (bc_h2i bc) (bc_w bc) cf'' (Some c'')).
      destruct (observe_spec pref None bc3 c'' eq_refl) as (s & Hobs & Hso & Hsc & Hsl & Hsh).
      assert (Eexcl : map (fun it : N * N * option Z => fst (fst it)) items = LKs) by exact Hitems.
      assert (Hstep : step (Lock n prio pref) bc = inl (s, bc3)).
      { unfold step, lock_to_index. unfold longest_local at 1. unfold hash in *. rewrite Hc.
        match goal with |- context [(n <=? ?x)%nat] => destruct (Nat.leb_spec n x) end; [lia|]. fold k. fold a cf.
        rewrite Eitems. unfold hash in *. rewrite Eexcl. fold nodes. rewrite Hload. fold a'. fold c''. fold bc3.
        now rewrite Hobs. }
      assert (Echain : chain_of bc3 c'' = chain_of bc c).
      { unfold chain_of. cbn [bc_locked bc3]. rewrite map_app. unfold fst3 in *. unfold hash in *.
        rewrite Hitems, Etail, <- app_assoc. f_equal. symmetry. exact Esplit. }
      exists s, bc3. split; [exact Hstep|].
      assert (Eo : ops_of s = []) by (unfold ops_of; now rewrite Hso). rewrite Eo, app_nil_r.
      assert (B3 : BI bc3 D allops).
      { constructor; cbn [bc_cf bc_parent bc_locked bc_w bc_h2i bc_cache bc3]; unfold hash in *.
        - exact F''.
        - exact Hunk''.
        - exact L''.
        - rewrite map_app. unfold fst3 in *. rewrite Hitems. rewrite last_app_ne by exact HLKne.
          unfold a'. apply last_default. exact HLKne.
        - exists c''. split; [reflexivity|]. split; [exact Hcp''|].
          split; [exact Hheavy''|]. fold bc3. rewrite Echain. auto. }
      split; [|exact B3].
      eapply BI_good; [exact B3|reflexivity|exact Hsc|exact Hsl|exact Hsh].
Qed.

Lemma run_from_good : forall evs bc D allops,
  BI bc D allops -> incl (D ++ all_headers evs) G ->
  forall tr st, run_from bc evs = (tr, st) ->
  (st = Done \/ st = OutOfRange) /\ good_trace anchor0 base D allops evs tr.
Proof.
  induction evs as [|ev r IH]; intros bc D allops B HG tr st Hrun.
  - cbn in Hrun. inversion Hrun; subst. split; [now left|exact I].
  - cbn [run_from] in Hrun. cbn [all_headers flat_map] in HG.
    assert (HD : incl D G) by (intros x Hx; apply HG; rewrite in_app_iff; now left).
    destruct ev as [hs prio pref|n prio pref].
    + cbn [headers_of] in HG.
      assert (HG1 : incl (D ++ hs) G) by (intros x Hx; apply HG; rewrite !in_app_iff in *; tauto).
      destruct (deliver_step bc D allops hs prio pref B HG1) as (s & bc' & Hstep & Hgood & B').
      rewrite Hstep in Hrun. destruct (run_from bc' r) as [tr' st'] eqn:Er. inversion Hrun; subst.
      destruct (IH bc' (D ++ hs) (allops ++ ops_of s) B') with (tr := tr') (st := st) as [A1 A2]; auto.
      { intros x Hx. apply HG. rewrite !in_app_iff in *. cbn [all_headers]. tauto. }
      split; [exact A1|]. cbn [good_trace headers_of]. split; [exact Hgood|exact A2].
    + cbn [headers_of app] in HG.
      destruct (lock_step bc D allops n prio pref B HD) as [(s & bc' & Hstep & Hgood & B')|Hstop].
      * rewrite Hstep in Hrun. destruct (run_from bc' r) as [tr' st'] eqn:Er. inversion Hrun; subst.
        destruct (IH bc' D (allops ++ ops_of s) B') with (tr := tr') (st := st) as [A1 A2]; auto.
        split; [exact A1|]. cbn [good_trace headers_of]. rewrite app_nil_r. split; [exact Hgood|exact A2].
      * rewrite Hstop in Hrun. inversion Hrun; subst. split; [now right|exact I].
Qed.

Definition pre_tuple (x : header) : hash * hash * option Z := (hh x, hp x, Some (hw x)).
Definition pre_index (pre : list header) : dict Z :=
  fold_left (fun m ix => dset (hh (snd ix)) (fst ix) m) (enumerate 0%Z pre) [].
Definition bc_pre (pre : list header) :=
  mkBC (last (map hh pre) anchor0) (map pre_tuple pre) (pre_index pre) [] empty_finder (Some []).
Lemma step_init pre ev : step ev (preload_locked_blocks pre (new_blockchain anchor0)) = step ev (bc_pre pre).
Proof.
  assert (E1 : forall pref, longest_local pref (preload_locked_blocks pre (new_blockchain anchor0)) = Ret ([], bc_pre pre))
    by reflexivity.
  assert (E2 : forall pref, longest_local pref (bc_pre pre) = Ret ([], bc_pre pre)) by reflexivity.
  destruct ev as [hs prio pref|n prio pref]; unfold step.
  - unfold add_headers. now rewrite E1, E2.
  - unfold lock_to_index. now rewrite E1, E2.
Qed.
Lemma chain_headers_is_chain : forall pre a, chain_headers a pre -> is_chain pre a (map hh pre).
Proof.
  induction pre as [|x r IH]; intros a Hc; [constructor|]. destruct Hc as [E Hc]. cbn [map].
  econstructor; [now left|exact E|]. eapply is_chain_incl; [|apply IH; exact Hc]. intros y Hy. now right.
Qed.
Lemma pre_index_agree : forall pre, NoDup (map hh pre) -> maps_agree (map hh pre) (pre_index pre).
Proof.
  unfold pre_index. induction pre as [|x l IH] using rev_ind; intros Hnd.
  - split; [intros i h E; destruct i; discriminate|intros h z E; discriminate].
  - rewrite map_app in *. cbn [map] in *. rewrite enumerate_snoc, fold_left_app. cbn [fold_left fst snd].
    replace (0 + Z.of_nat (length l))%Z with (Z.of_nat (length (map hh l))) by (rewrite map_length; lia).
    apply maps_agree_snoc.
    + apply IH. apply NoDup_remove_1 in Hnd. now rewrite app_nil_r in Hnd.
    + apply NoDup_remove_2 in Hnd. now rewrite app_nil_r in Hnd.
Qed.
Lemma BI_pre pre : incl pre G -> chain_headers anchor0 pre -> base = map hh pre -> BI (bc_pre pre) pre [].
Proof.
  intros HP Hch Hb.
  pose proof (chain_headers_is_chain _ _ Hch) as Hic.
  destruct (is_chain_last_rank pre HP _ _ Hic) as [RkA RkL].
  set (a := last (map hh pre) anchor0) in *.
  assert (Hlow : forall x, In x pre -> (rk (hh x) <= rk a)%nat) by (intros x Hx; apply RkL; now apply in_map).
  constructor; cbn [bc_cf bc_parent bc_locked bc_w bc_h2i bc_cache bc_pre pl empty_finder]; fold a.
  - exact finder_ok_empty.
  - intros H. apply H. reflexivity.
  - constructor.
    + intros h q E. discriminate.
    + intros x Hx. right. now apply Hlow.
    + intros x Hx. right. now apply Hlow.
    + intros h z E. discriminate.
    + intros h K. exfalso. apply K. reflexivity.
  - unfold a. f_equal. rewrite map_map. apply map_ext. reflexivity.
  - exists []. split; [reflexivity|]. split; [now left|].
    assert (Ech : chain_of (bc_pre pre) [] = map hh pre).
    { unfold chain_of. cbn [bc_locked bc_pre rev]. rewrite app_nil_r, map_map. apply map_ext. reflexivity. }
    rewrite Ech. split; [|split; [exact Hic|split]].
    + split; [constructor|]. intros c' Hc'. destruct c' as [|h r]; [cbn; lia|]. exfalso.
      pose proof (is_chain_rank pre HP _ _ Hc' h (or_introl eq_refl)) as Hr.
      destruct (is_chain_hashes _ _ _ Hc' h (or_introl eq_refl)) as (x & Hx & Ex). apply Hlow in Hx. rewrite Ex in Hx. lia.
    + apply pre_index_agree. eapply is_chain_NoDup; eauto.
    + cbn. now rewrite Hb.
Qed.
End Hist.

Theorem full_history : forall (anchor : hash) (pre : list header) (evs : list event),
  wf_headers (pre ++ all_headers evs) -> chain_headers anchor pre ->
  forall tr st, run_pre anchor pre evs = (tr, st) ->
  (st = Done \/ st = OutOfRange) /\ good_trace anchor (map hh pre) pre [] evs tr.
Proof.
  intros anchor pre evs ((rk & Hrk) & Hcons & Hpos) Hch tr st Hrun.
  unfold run_pre in Hrun.
  assert (Hrun' : run_from (bc_pre anchor pre) evs = (tr, st)).
  { destruct evs as [|ev r]; [exact Hrun|]. cbn [run_from] in *. now rewrite <- (step_init anchor). }
  apply (run_from_good anchor (map hh pre) (pre ++ all_headers evs) rk Hrk Hcons Hpos evs (bc_pre anchor pre) pre []).
  - apply (BI_pre anchor (map hh pre) (pre ++ all_headers evs) rk Hrk pre); auto.
    intros x Hx. rewrite in_app_iff. now left.
  - intros x Hx. exact Hx.
  - exact Hrun'.
Qed.

(* a BlockChain that is not preloaded *)
Corollary full_history_plain : forall (anchor : hash) (evs : list event),
  wf_headers (all_headers evs) ->
  forall tr st, run anchor evs = (tr, st) ->
  (st = Done \/ st = OutOfRange) /\ good_trace anchor [] [] [] evs tr.
Proof. intros anchor evs Hwf tr st Hrun. exact (full_history anchor [] evs Hwf I tr st Hrun). Qed.

Lemma good_trace_nth : forall evs tr anchor base D ops, good_trace anchor base D ops evs tr ->
  forall k s, nth_error tr k = Some s -> (k < length evs)%nat ->
  good_snapshot anchor base (D ++ all_headers (firstn (S k) evs)) (ops ++ flat_map ops_of (firstn (S k) tr)) s.
Proof.
  induction evs as [|ev r IH]; intros tr anchor base D ops Hg k s Hn Hk; [cbn in Hk; lia|].
  destruct tr as [|s0 tr']; [destruct k; discriminate|]. cbn [good_trace] in Hg. destruct Hg as [G0 G1].
  destruct k as [|k'].
  - cbn in Hn. inversion Hn; subst s0. cbn [firstn all_headers flat_map]. now rewrite !app_nil_r.
  - cbn [nth_error] in Hn. cbn [length] in Hk.
    specialize (IH tr' anchor base _ _ G1 k' s Hn ltac:(lia)).
    change (firstn (S (S k')) (ev :: r)) with (ev :: firstn (S k') r).
    change (firstn (S (S k')) (s0 :: tr')) with (s0 :: firstn (S k') tr').
    cbn [all_headers flat_map]. fold (all_headers (firstn (S k') r)). rewrite !app_assoc. exact IH.
Qed.


Section Corollaries.
Variables (anchor : hash) (pre : list header) (evs : list event) (tr : list snapshot) (st : stop).
Hypothesis Hwf : wf_headers (pre ++ all_headers evs).
Hypothesis Hpre : chain_headers anchor pre.
Hypothesis Hrun : run_pre anchor pre evs = (tr, st).
Variables (k : nat) (s : snapshot).
Hypothesis Hs : nth_error tr k = Some s.
Hypothesis Hk : (k < length evs)%nat.
Let D := pre ++ all_headers (firstn (S k) evs).

Lemma snapshot_good : good_snapshot anchor (map hh pre) D (flat_map ops_of (firstn (S k) tr)) s.
Proof.
  destruct (full_history anchor pre evs Hwf Hpre tr st Hrun) as [_ Hg].
  exact (good_trace_nth evs tr anchor (map hh pre) pre [] Hg k s Hs Hk).
Qed.
Lemma snapshot_chain_heaviest : is_chain D anchor (s_chain s) /\
  heaviest D (snapshot_anchor anchor s) (skipn (s_locked s) (s_chain s)).
Proof. split; apply snapshot_good. Qed.
Lemma snapshot_maps : maps_agree (s_chain s) (s_h2i s).
Proof. apply snapshot_good. Qed.
Lemma snapshot_ops : apply_ops (flat_map ops_of (firstn (S k) tr)) (map hh pre) = Some (s_chain s).
Proof. apply snapshot_good. Qed.
End Corollaries.
