(* Proofs/ComposeTemplatesReach.v — composition C05 x C03, part 10: the states Solver.sign reaches on a bare / P2SH
   multisig input, starting from the unsigned input, are canonical push sequences whose items are the empty dummy,
   the redeem script, or strictly DER-encoded signatures (signatures made by `sign`, the placeholder, or items kept
   from the previous state).  Hence they are inside the evaluator's domain (push-only) and FindAndDelete-inert when
   the listed keys are well-formed SEC keys.  Proved from Model/Solve.v directly (no rows abstraction). *)
From Coq Require Import Lia ZifyBool ZifyNat ZifyN Permutation.
From PV Require Import Base.Bytes Base.Outcome Gen.GenFlags Gen.GenSolveC05 Proofs.PushP Spec.Templates.
From PV Require Import Model.ScriptNum Spec.VMTypes Spec.VMcore Model.Solve.
From PV Require Import Proofs.AgreeSig.
From PV Require Import Proofs.SolveP Proofs.ComposeTemplatesEnc Proofs.ComposeTemplatesEval Proofs.ComposeTemplatesFad
                       Proofs.ComposeTemplatesSingle Proofs.ComposeTemplatesMulti Proofs.ComposeTemplatesVerify
                       Proofs.ComposeTemplatesWrap Proofs.ComposeTemplates Proofs.ComposeTemplatesCor.
Local Open Scope N_scope.

Lemma placeholder_strict : strict_der gen_c05_placeholder = true.
Proof. vm_compute. reflexivity. Qed.

Lemma firstn_In {A} n (l : list A) x : In x (firstn n l) -> In x l.
Proof. intros H. rewrite <- (firstn_skipn n l). apply in_or_app. now left. Qed.

Section Members.
Variable hash160 : bytes -> bytes.
Variable verifies : bytes -> bytes -> bytes -> bool.
Variable sign : bytes -> bytes -> bytes.
Variable sighash : bool -> N -> bytes -> option bytes.
Variable db : lookup.

Lemma find_sigs_members wit sc mx keys : forall blobs seen i d,
  In (i, d) (fst (find_sigs verifies sighash wit sc mx keys blobs seen)) -> In d blobs.
Proof.
  induction blobs as [|b r IH]; intros seen i d H; cbn [find_sigs] in H; [contradiction|].
  destruct (mx <=? seen)%nat; [contradiction|].
  destruct (parse_sig_ok b).
  - destruct (find_sigs verifies sighash wit sc mx keys r (S seen)) as [sigs solved] eqn:E.
    assert (IH' := IH (S seen) i d). rewrite E in IH'. cbn [fst] in IH'.
    destruct (match sighash wit (hash_type_of b) sc with
              | Some dg => first_match (fun k => verifies k dg (removelast b)) keys 0
              | None => None end) as [[j k]|]; cbn [fst] in H.
    + destruct H as [H|H]; [injection H as _ <-; now left|right; now apply IH'].
    + right. now apply IH'.
  - right. exact (IH seen i d H).
Qed.

Lemma sign_loop_members wit sc ht nvars : forall todo solved acc acc',
  sign_loop hash160 sign sighash db wit sc ht nvars todo solved acc = Ret acc' ->
  forall x, In x acc' -> In x acc \/ exists secret dg, snd x = sign secret dg ++ [n2b ht].
Proof.
  induction todo as [|[order sec] r IH]; intros solved acc acc' H x Hx; cbn [sign_loop] in H.
  - injection H as <-. now left.
  - destruct (existsb (bytes_eqb sec) solved); [exact (IH _ _ _ H x Hx)|].
    destruct (nvars <=? length acc)%nat; [injection H as <-; now left|].
    destruct (lookup_get db (hash160 sec)) as [[secret c]|]; [|exact (IH _ _ _ H x Hx)].
    destruct (sighash wit ht sc) as [dg|]; [|discriminate].
    destruct (256 <=? ht); [discriminate|].
    destruct (IH _ _ _ H x Hx) as [Hin|Hnew]; [|right; exact Hnew].
    apply in_app_or in Hin. destruct Hin as [Hin|[<-|[]]]; [left; exact Hin|].
    right. exists secret, dg. reflexivity.
Qed.

Lemma signing_solver_members wit sc ht nvars keys blobs sigs :
  signing_solver hash160 verifies sign sighash db wit sc ht nvars keys blobs = Ret sigs ->
  forall s, In s sigs -> In s blobs \/ (exists secret dg, s = sign secret dg ++ [n2b ht]) \/ s = gen_c05_placeholder.
Proof.
  unfold signing_solver. intros H s Hs.
  destruct (find_sigs verifies sighash wit sc nvars (rev keys) blobs 0) as [existing solved] eqn:Ef.
  destruct (sign_loop hash160 sign sighash db wit sc ht nvars (rev (enumerate_from 0 (rev keys))) solved existing)
    as [acc| |] eqn:El; try discriminate.
  injection H as <-. apply in_rev in Hs. apply in_map_iff in Hs. destruct Hs as ([i d] & <- & Hin). cbn [snd].
  apply firstn_In in Hin.
  apply (Permutation_in _ (Permutation_sym (isort_perm _))) in Hin.
  apply in_app_or in Hin. destruct Hin as [Hin|Hin].
  - destruct (sign_loop_members _ _ _ _ _ _ _ _ El (i, d) Hin) as [He|(secret & dg & Hn)].
    + left. pose proof (find_sigs_members wit sc nvars (rev keys) blobs 0 i d) as K. rewrite Ef in K. now apply K.
    + right. left. exists secret, dg. exact Hn.
  - apply repeat_spec in Hin. injection Hin as _ ->. right. right. reflexivity.
Qed.
End Members.

Section Reach.
Variable hash160 : bytes -> bytes.
Variable sha256 : bytes -> bytes.
Variable verifies : bytes -> bytes -> bytes -> bool.
Variable sign : bytes -> bytes -> bytes.
Variable pub_of : bytes -> bool -> bytes.
Variable sighash : bool -> N -> bytes -> option bytes.
Hypothesis sign_canonical : forall se d t, strict_der (sign se d ++ [t]) = true /\ low_s (sign se d ++ [t]) = true.
Hypothesis pub_wellformed : forall se, is_compressed (pub_of se true) = true /\ is_uncompressed (pub_of se false) = true.

Variable forkid : bool.
Variable p2sh : list bytes.
Variable kd : kind.
Variable m : nat.
Variable ks : list keyspec.
Hypothesis Hkd : kd = K_MS \/ kd = K_P2SH_MS.
Hypothesis Hshape : ms_shape pub_of kd m ks.
Hypothesis Hp2sh : p2sh_ok hash160 sha256 pub_of kd m ks p2sh.

Notation PUB := (pub pub_of).
Notation MS := (ms_script m (map PUB ks)).
Notation PZ := (pz_ms pub_of kd m ks).

Definition good_item (d : bytes) : Prop := d = [] \/ d = MS \/ strict_der d = true.

Definition Shape (st : bytes * list bytes) : Prop :=
  snd st = [] /\ exists items, fst st = pushes items /\ Forall (fun d => lenN d <= 10000) items /\ Forall good_item items.

Lemma shape_init : Shape ([], []).
Proof. split; [reflexivity|]. exists []. split; [reflexivity|]. split; constructor. Qed.

Lemma ms_len : lenN MS <= 10000.
Proof. destruct Hshape. assumption. Qed.

Lemma good_small d : good_item d -> lenN d <= 10000.
Proof.
  intros [ -> |[ -> |H]]; [cbn; lia|apply ms_len|]. apply strict_der_head in H. unfold lenN. lia.
Qed.

Lemma solver_good ht db wit sc nvars keys blobs sigs : Forall good_item blobs ->
  signing_solver hash160 verifies sign sighash db wit sc ht nvars keys blobs = Ret sigs -> Forall good_item sigs.
Proof.
  intros Hb Hs. apply Forall_forall. intros s Hin.
  destruct (signing_solver_members _ _ _ _ _ _ _ _ _ _ _ _ Hs s Hin) as [H|[(secret & dg & ->)| -> ]].
  - rewrite Forall_forall in Hb. now apply Hb.
  - right. right. apply sign_canonical.
  - right. right. exact placeholder_strict.
Qed.

Lemma shape_of_items items : Forall good_item items -> Shape (pushes items, []).
Proof.
  intros H. split; [reflexivity|]. exists items. split; [reflexivity|]. split; [|exact H].
  eapply Forall_impl; [|exact H]. apply good_small.
Qed.

Lemma sign_input_shape db hto st st' : Shape st ->
  sign_input hash160 sha256 verifies sign pub_of sighash db p2sh forkid PZ hto (fst st) (snd st) = Ret st' -> Shape st'.
Proof.
  intros HS H. destruct HS as (Hw & items & Hss & Hsm & Hgood).
  assert (HS : Shape st) by (split; [exact Hw|]; exists items; auto).
  unfold sign_input in H.
  destruct (eval_input hash160 sha256 verifies sighash LAX PZ (fst st) (snd st)).
  { injection H as <-. destruct st; exact HS. }
  unfold solve_input in H. rewrite Hw in H. unfold existing_blobs in H. rewrite Hss in H.
  rewrite parse_pushes_pushes in H by (eapply Forall_impl; [|exact Hsm]; intros; cbv beta in *; lia).
  cbn [pz_ms pz_kind pz_m pz_keys] in H.
  destruct Hkd as [Ek|Ek]; rewrite Ek in H.
  - destruct (signing_solver hash160 verifies sign sighash db false MS (effective_hash_type forkid hto) m (map PUB ks) items)
      as [sigs|e|] eqn:Es; cbn [of_outcome] in H.
    + injection H as <-. apply (shape_of_items ([] :: sigs)). constructor; [left; reflexivity|].
      exact (solver_good _ _ _ _ _ _ _ _ Hgood Es).
    + destruct e; try discriminate; injection H as <-; rewrite <- Hss, <- Hw; destruct st; exact HS.
    + discriminate.
  - destruct Hp2sh as (Hp1 & _ & _). rewrite (Hp1 Ek) in H.
    destruct (520 <? lenN MS).
    { injection H as <-. apply (shape_of_items [MS]). constructor; [right; left; reflexivity|constructor]. }
    destruct (signing_solver hash160 verifies sign sighash db false MS (effective_hash_type forkid hto) m (map PUB ks) items)
      as [sigs|e|] eqn:Es; cbn [of_outcome] in H.
    + injection H as <-. apply (shape_of_items ([] :: sigs ++ [MS])). constructor; [left; reflexivity|].
      apply Forall_app. split; [exact (solver_good _ _ _ _ _ _ _ _ Hgood Es)|]. constructor; [right; left; reflexivity|constructor].
    + destruct e; try discriminate; injection H as <-; rewrite <- Hss, <- Hw; destruct st; exact HS.
    + discriminate.
Qed.

Lemma run_shape passes : forall st st', Shape st ->
  run hash160 sha256 verifies sign pub_of sighash forkid p2sh kd m ks passes st = Ret st' -> Shape st'.
Proof.
  induction passes as [|p r IH]; intros st st' HS H; cbn [run] in H.
  - injection H as <-. exact HS.
  - destruct (sign_input hash160 sha256 verifies sign pub_of sighash (p_db p) p2sh forkid PZ (p_ht p) (fst st) (snd st))
      as [st1|e|] eqn:E; try discriminate.
    exact (IH st1 st' (sign_input_shape _ _ _ _ HS E) H).
Qed.

(* ---- a state of that shape is push-only and FindAndDelete-inert -------------------------------------------------- *)
Lemma pub_wf' k : is_compressed (PUB k) || is_uncompressed (PUB k) = true.
Proof.
  destruct k as [se [|]]; unfold pub; cbn [fst snd]; destruct (pub_wellformed se) as [H1 H2]; rewrite ?H1, ?H2;
    [reflexivity|apply orb_true_r].
Qed.

Lemma key_head k : nthn 0 (PUB k) = 2 \/ nthn 0 (PUB k) = 3 \/ nthn 0 (PUB k) = 4.
Proof.
  pose proof (pub_wf' k) as H. unfold is_compressed, is_uncompressed in H.
  destruct (nthn 0 (PUB k) =? 2) eqn:E2; [left; lia|]. destruct (nthn 0 (PUB k) =? 3) eqn:E3; [right; left; lia|].
  destruct (nthn 0 (PUB k) =? 4) eqn:E4; [right; right; lia|]. cbn in H. rewrite !andb_false_r in H. discriminate.
Qed.

Lemma ms_head : nthn 0 MS = 1 \/ 81 <= nthn 0 MS <= 96.
Proof.
  destruct Hshape as [_ Hm Hn _ _]. unfold ms_script.
  destruct (num_push_cases m ltac:(lia)) as [(b & E & Hb)|(b & E)]; rewrite E; cbn [app]; unfold nthn; cbn [nth]; [right; exact Hb|left; reflexivity].
Qed.

Lemma ms_length : (3 <= length MS)%nat.
Proof.
  unfold ms_script. rewrite !app_length. cbn [length].
  assert (Hp : forall k, (1 <= length (num_push k))%nat) by (intros k; unfold num_push; apply push_data_nonempty).
  pose proof (Hp m). pose proof (Hp (length (map PUB ks))). lia.
Qed.

Lemma good_inert s : good_item s -> find_and_delete (push_encode s) MS = MS.
Proof.
  intros Hg. destruct Hshape as [_ Hm Hn _ H10k].
  assert (Hkeys : Forall item_ok (map PUB ks)).
  { apply Forall_forall. intros x Hx. apply in_map_iff in Hx. destruct Hx as (k & <- & _).
    pose proof (pub_wf' k) as H. unfold item_ok. change (2 ^ 32) with 4294967296.
    unfold is_compressed, is_uncompressed in H.
    destruct (length (PUB k) =? 33)%nat eqn:E1; [lia|]. destruct (length (PUB k) =? 65)%nat eqn:E2; [lia|]. discriminate. }
  assert (Hnum : forall k, (1 <= k)%nat -> (length (num_data k) = 1)%nat).
  { intros k Hk. unfold num_data. replace (k =? 0)%nat with false by lia. reflexivity. }
  apply inert_ms.
  - pose proof (good_small s Hg). unfold item_ok, lenN in *. change (2 ^ 32) with 4294967296. lia.
  - exact Hkeys.
  - intros Hin. apply in_map_iff in Hin. destruct Hin as (k & Ek & _). pose proof (key_head k) as Hh. rewrite Ek in Hh.
    destruct Hg as [ -> |[ -> |Hd]].
    + cbn in Hh. lia.
    + pose proof ms_head. lia.
    + apply strict_der_head in Hd. lia.
  - intros E. pose proof (Hnum m ltac:(lia)) as Hl. rewrite <- E in Hl.
    destruct Hg as [ -> |[ -> |Hd]]; [discriminate|pose proof ms_length; lia|apply strict_der_head in Hd; lia].
  - rewrite map_length. intros E. pose proof (Hnum (length ks) ltac:(lia)) as Hl. rewrite <- E in Hl.
    destruct Hg as [ -> |[ -> |Hd]]; [discriminate|pose proof ms_length; lia|apply strict_der_head in Hd; lia].
Qed.

Lemma skipn_In {A} n (l : list A) x : In x (skipn n l) -> In x l.
Proof. intros H. rewrite <- (firstn_skipn n l). apply in_or_app. now right. Qed.
Lemma removelast_In {A} (l : list A) x : In x (removelast l) -> In x l.
Proof.
  destruct l as [|a l] using rev_ind; [contradiction|]. rewrite removelast_last. intros H. apply in_or_app. now left.
Qed.

Theorem shape_dom st : Shape st -> fad_inert PZ (fst st) /\ in_dom PZ (fst st).
Proof.
  intros (Hw & items & Hss & Hsm & Hgood).
  assert (Hp : parse_pushes (fst st) = Some (items, true)).
  { rewrite Hss. apply parse_pushes_pushes. eapply Forall_impl; [|exact Hsm]. intros; cbv beta in *; lia. }
  split.
  - intros items' mn Hp'. rewrite Hp in Hp'. injection Hp' as <- <-.
    unfold code_of, sig_items, ms_of, pz_ms. cbn [pz_kind pz_m pz_keys].
    rewrite Forall_forall in Hgood.
    destruct Hkd as [Ek|Ek]; rewrite Ek; intros s Hs; apply good_inert; apply Hgood; unfold lastn in Hs; apply skipn_In in Hs.
    + exact Hs.
    + now apply removelast_In in Hs.
  - unfold in_dom, pz_ms. cbn [pz_kind]. destruct Hkd as [Ek|Ek]; rewrite Ek; [|exact I]. unfold in_domain. now rewrite Hp.
Qed.

Theorem reached_dom passes st :
  run hash160 sha256 verifies sign pub_of sighash forkid p2sh kd m ks passes ([], []) = Ret st ->
  fad_inert PZ (fst st) /\ in_dom PZ (fst st).
Proof. intros H. apply shape_dom. exact (run_shape passes _ _ shape_init H). Qed.
End Reach.

(* ---- too few keys: all four multisig kinds ------------------------------------------------------------------------ *)
Section TooFew.
Variable hash160 : bytes -> bytes.
Variable sha256 : bytes -> bytes.
Variable verifies : bytes -> bytes -> bytes -> bool.
Variable sign : bytes -> bytes -> bytes.
Variable pub_of : bytes -> bool -> bytes.
Variable sighash : bool -> N -> bytes -> option bytes.
Hypothesis sign_verifies : forall se c d, verifies (pub_of se c) d (sign se d) = true.
Hypothesis sign_canonical : forall se d t, strict_der (sign se d ++ [t]) = true /\ low_s (sign se d ++ [t]) = true.
Hypothesis sha256_len : forall x, length (sha256 x) = 32%nat.
Hypothesis hash160_len : forall x, length (hash160 x) = 20%nat.
Hypothesis pub_wellformed : forall se, is_compressed (pub_of se true) = true /\ is_uncompressed (pub_of se false) = true.
Variable fl : flags.
Variable fw : N.
Hypothesis Hfl : flags_rel fl fw.
Variable o : oracles.
Hypothesis Ho : oracles_inst hash160 sha256 verifies sighash o.
Variable ctx : txctx.

Theorem too_few_keys_invalid_all forkid p2sh kd m ks :
  ms_ok verifies sign pub_of sighash kd m ks -> p2sh_ok hash160 sha256 pub_of kd m ks p2sh ->
  (forall k, In k ks -> pub_enc_ok fl (kwit kd) (pub pub_of k) = true) ->
  (kwit kd = true -> cast_to_bool (sha256 (ms_script m (map (pub pub_of) ks))) = true) ->
  no_collision hash160 sha256 (pz_ms pub_of kd m ks) ->
  forall passes : list pass,
  Forall (pass_ok hash160 pub_of sighash forkid kd m ks fl) passes ->
  (ncovered hash160 pub_of ks passes < m)%nat ->
  exists st, run hash160 sha256 verifies sign pub_of sighash forkid p2sh kd m ks passes ([], []) = Ret st /\
             VerifyScript o (spend_of hash160 sha256 fw ctx (pz_ms pub_of kd m ks) (fst st) (snd st)) <> VOk tt.
Proof.
  intros Hms Hp Hpub Hnz Hnc passes Hpass Hfew.
  destruct (partial_signing_order_free_c hash160 sha256 verifies sign pub_of sighash sign_verifies sign_canonical sha256_len
              forkid p2sh kd m ks fl Hms Hp Hpub passes Hpass) as (st & Hrun & Hiff).
  exists st. split; [exact Hrun|]. intros Hv.
  pose proof (ms_ok_shape _ _ _ _ _ _ _ Hms) as Hsh.
  pose proof (ms_puzzle_wf sha256 pub_of pub_wellformed kd m ks Hsh Hnz) as Hwf.
  assert (Hdom : fad_inert (pz_ms pub_of kd m ks) (fst st) /\ in_dom (pz_ms pub_of kd m ks) (fst st)).
  { pose proof (sh_kind _ _ _ _ Hsh) as Hkd. destruct Hkd as [Ek|[Ek|[Ek|Ek]]].
    - exact (reached_dom hash160 sha256 verifies sign pub_of sighash sign_canonical pub_wellformed forkid p2sh kd m ks
               (or_introl Ek) (ms_ok_shape _ _ _ _ _ _ _ Hms) Hp passes st Hrun).
    - exact (reached_dom hash160 sha256 verifies sign pub_of sighash sign_canonical pub_wellformed forkid p2sh kd m ks
               (or_intror Ek) (ms_ok_shape _ _ _ _ _ _ _ Hms) Hp passes st Hrun).
    - rewrite Ek. split; [intros items mn _ s []|exact I].
    - rewrite Ek. split; [intros items mn _ s []|exact I]. }
  destruct Hdom as [Hi Hd].
  apply (templates_complete hash160 sha256 verifies sighash fl fw Hfl o Ho ctx hash160_len sha256_len _ _ _ Hwf Hi Hd Hnc) in Hv.
  apply Hiff in Hv. lia.
Qed.
End TooFew.
