(* Proofs/C14Tie.v — the layouts the C14 models transcribe are the ones /repo uses now.
   Gen/GenBlockC14.v is regenerated from /repo on every run (harness/gens/block_c14.py). *)
From Coq Require Import NArith String.
From PV Require Import Gen.GenBlockC14.

Definition layouts_as_modelled : Prop :=
  block_header_fmt = "L##LLL"%string /\ block_count_fmt = "I"%string /\
  merkleblock_layout = "header:z total_transactions:L hashes:[#] flags:[1]"%string /\
  merkleblock_post_unpack = "post_unpack_merkleblock"%string /\
  fmt_L_width = 4%N /\ fmt_hash_width = 32%N /\ fmt_1_width = 1%N.

Lemma layouts_ok : layouts_as_modelled.
Proof. repeat split. Qed.

(* ---- pinned call signatures ---------------------------------------------------------------------------------
   Gen/GenSigC14.v holds inspect.signature of the public entry points of the anchored code on the current tree.  A call
   written against the pinned signature (positionally in this order, by these keywords, or relying on these defaults)
   must still bind the same way: the current signature has to START with the pinned parameters, names and defaults
   unchanged, and anything added after them must have a default. *)
From Coq Require Import List Bool Strings.Byte.
From PV Require Import Gen.GenSigC14 Base.Outcome Model.BlockCall.
Import ListNotations.
Local Open Scope string_scope.

Definition pinned_sigs : list (string * list (string * string)) := [
  ("Block", [("version", ""); ("previous_block_hash", ""); ("merkle_root", ""); ("timestamp", ""); ("difficulty", ""); ("nonce", "")]);
  ("Block.parse", [("f", ""); ("include_transactions", "True"); ("include_offsets", "None"); ("check_merkle_hash", "True")]);
  ("BTC.block.parse", [("f", ""); ("include_transactions", "True"); ("include_offsets", "None"); ("check_merkle_hash", "True")]);
  ("LTC.block.parse", [("f", ""); ("include_transactions", "True"); ("include_offsets", "None"); ("check_merkle_hash", "True")]);
  ("Block.parse_as_header", [("f", "")]);
  ("Block.from_bin", [("bytes", "")]);
  ("Block.set_nonce", [("nonce", "")]);
  ("Block.set_txs", [("txs", ""); ("check_merkle_hash", "True")]);
  ("Block.hash", []); ("Block.id", []); ("Block.previous_block_id", []);
  ("Block.stream", [("f", "")]); ("Block.stream_header", [("f", "")]);
  ("Block.as_bin", []); ("Block.as_hex", []); ("Block.check_merkle_hash", []); ("Block.as_blockheader", []);
  ("merkle", [("hashes", ""); ("hash_f", "fn:double_sha256")]);
  ("merkle_pair", [("hashes", ""); ("hash_f", "")]);
  ("LTC.tx.parse", [("f", "")]);
  ("BTC.message.parse", [("message_name", ""); ("data", "")]) ].

Fixpoint sig_compat (pinned cur : list (string * string)) : bool :=
  match pinned, cur with
  | [], rest => forallb (fun '(_, d) => negb (String.eqb d "")) rest
  | (n, d) :: p', (n', d') :: c' => String.eqb n n' && String.eqb d d' && sig_compat p' c'
  | _ :: _, [] => false
  end.

Fixpoint lookup_sig (name : string) (t : list (string * list (string * string))) : option (list (string * string)) :=
  match t with
  | [] => None
  | (n, s) :: r => if String.eqb n name then Some s else lookup_sig name r
  end.

Definition signatures_compatible : bool :=
  forallb (fun '(n, p) => match lookup_sig n sigs with Some c => sig_compat p c | None => false end) pinned_sigs.

Lemma signatures_ok : signatures_compatible = true.
Proof. vm_compute. reflexivity. Qed.

(* the binder of Model/BlockCall.v is written for exactly the pinned Block.parse parameters after the stream *)
Definition show_default (d : option pyval) : string :=
  match d with
  | None => ""
  | Some VNone => "None"
  | Some (VBool true) => "True"
  | Some (VBool false) => "False"
  | Some (VInt _) => "int"
  end.

Lemma model_signature_is_pinned :
  Some (("f", "") :: map (fun '(n, d) => (string_of_list_byte n, show_default d)) block_parse_sig)
  = lookup_sig "Block.parse" pinned_sigs.
Proof. vm_compute. reflexivity. Qed.
