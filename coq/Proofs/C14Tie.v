(* Proofs/C14Tie.v — the layouts the C14 models transcribe are the ones /repo uses now.
   Gen/GenBlockC14.v is regenerated from /repo on every run (harness/gens/block_c14.py). *)
From Coq Require Import NArith String.
From PV Require Import Gen.GenBlockC14.

Definition layouts_as_modelled : Prop :=
  block_header_fmt = "L##LLL"%string /\ block_count_fmt = "I"%string /\
  merkleblock_layout = "header:z total_transactions:L hashes:[#] flags:[1]"%string /\
  merkleblock_post_unpack = "post_unpack_merkleblock"%string /\
  fmt_L_width = 4%N /\ fmt_hash_width = 32%N /\ fmt_1_width = 1%N.

Lemma layouts_ok : layouts_as_modelled.
Proof. repeat split. Qed.
