(* Proofs/ComposeCommitCore.v — composition C06 x C04, corollaries of part (A): C06's commitment theorems for
   CORE's digest definition.
     C06 (Model/Commit.v, Proofs/CommitP.v)  : injectivity / invariance of what pycoin feeds to the hash
     bridge (Proofs/ComposeCommitBridge.v)    : Commit's preimages = Sighash's preimages (same Python)
     C04 (Props/C04.v)                        : Sighash's preimages = Bitcoin Core's serializer / BIP143
   Here a context c : sctx carries the RAW scriptCode, as Core's SignatureHash receives it (for SigVersion::BASE
   that is the script after FindAndDelete of the signatures, still containing its OP_CODESEPARATORs).  What the
   legacy digest commits to is the script with OP_CODESEPARATOR removed: `commit_ctx` is the context whose fields
   the classification `committed` talks about. *)
From Coq Require Import List NArith Lia Bool.
From PV Require Import Base.Bytes Base.Outcome Base.Varint Gen.GenCommitC06 Gen.GenSighashC04.
From PV Require Import Spec.SighashCore Model.Commit Proofs.CommitP Proofs.ComposeCommitBridge.
From PV Require Model.Sighash Model.SighashBridge Proofs.SighashP Props.C04.
Import ListNotations.
Local Open Scope N_scope.
Local Open Scope outcome_scope.

Module SB := PV.Model.SighashBridge.
Module SP := PV.Proofs.SighashP.
Module P04 := PV.Props.C04.

(* ---- Core's view of a C06 context ----------------------------------------------------------------------------- *)
Definition core_tx (t : tx) : CTransaction := SB.to_core (sh_tx t []).
Definition strip_codesep (s : bytes) : bytes := core_find_and_delete [n2b OP_CODESEPARATOR] s.

(* the context whose fields are committed: legacy signs the script code without its OP_CODESEPARATORs *)
Definition commit_ctx (sv : sigversion) (c : sctx) : sctx :=
  mk_sctx (sc_tx c) (match sv with SV_legacy => strip_codesep (sc_code c) | SV_bip143 => sc_code c end) (sc_amount c).

(* wire ranges (C04's tx_wf: 32-byte outpoint hashes, 32-bit index/sequence/version/lock time, 64-bit amounts and
   counts), an existing input, a 32-bit hash type, a 64-bit amount and script length *)
Record core_wf (ht : N) (idx : nat) (c : sctx) : Prop := {
  cw_tx : SP.tx_wf (sh_tx (sc_tx c) []);
  cw_idx : (idx < length (tx_ins (sc_tx c)))%nat;
  cw_ht : ht < 2 ^ 32;
  cw_code : N.of_nat (length (sc_code c)) < 2 ^ 64;
  cw_amount : sc_amount c < 2 ^ 64 }.

(* what Core hashes, and the digest, per signature version *)
Definition core_sighash_preimage (H : bytes -> bytes) (sv : sigversion) (ht : N) (idx : nat) (c : sctx) : core_sighash :=
  match sv with
  | SV_legacy => core_signature_hash_old (sc_code c) (core_tx (sc_tx c)) idx ht
  | SV_bip143 => CorePreimage (bip143_preimage H (sc_code c) (core_tx (sc_tx c)) idx (sc_amount c) ht)
  end.
Definition core_sighash_digest (H : bytes -> bytes) (sv : sigversion) (ht : N) (idx : nat) (c : sctx) : bytes :=
  SP.core_digest H (core_sighash_preimage H sv ht idx c).

(* ---- small facts ---------------------------------------------------------------------------------------------- *)
Lemma codesep_is_core : gen_codeseparator = [n2b OP_CODESEPARATOR].
Proof. reflexivity. Qed.

Lemma delete_codesep script : S.delete_subscript script gen_codeseparator = Ret (strip_codesep script).
Proof.
  rewrite codesep_is_core. apply P04.C04_find_and_delete_eq.
  exact (proj1 (proj2 (proj2 P04.C04_hypotheses_satisfiable))).
Qed.

Lemma tx_wf_unspents t us : SP.tx_wf (sh_tx t us) <-> SP.tx_wf (sh_tx t []).
Proof. reflexivity. Qed.

Lemma to_core_unspents t us : SB.to_core (sh_tx t us) = core_tx t.
Proof. reflexivity. Qed.

Lemma single_value_is : single_value = 2 ^ 248.
Proof. reflexivity. Qed.

Lemma wf_ctx_of_core ht idx c : core_wf ht idx c -> wf_ctx c.
Proof.
  intros [W _ _ _ _]. destruct W as (_ & _ & Wi & _). unfold wf_ctx, wf_tx.
  unfold sh_tx in Wi. cbn [S.tx_ins] in Wi. rewrite Forall_map in Wi.
  eapply Forall_impl; [|exact Wi]. intros x (Hh & _). exact Hh.
Qed.

Lemma commit_ctx_tx sv c : sc_tx (commit_ctx sv c) = sc_tx c.
Proof. reflexivity. Qed.
Lemma commit_ctx_has_output sv idx c : has_output idx (commit_ctx sv c) = has_output idx c.
Proof. reflexivity. Qed.

(* ---- pycoin's hash input IS Core's, in Commit's vocabulary ------------------------------------------------------ *)
Definition fed_of_core (x : core_sighash) : option bytes :=
  match x with CoreOne => None | CorePreimage p => Some p end.

Theorem legacy_fed_is_core : forall (ht : N) (idx : nat) (c : sctx), core_wf ht idx c ->
  legacy_fed_of (sc_tx c) (strip_codesep (sc_code c)) idx ht
  = Ret (fed_of_core (core_signature_hash_old (sc_code c) (core_tx (sc_tx c)) idx ht)).
Proof.
  intros ht idx c [W L Hht Hc _].
  pose proof (bridge_legacy (sc_tx c) [] (sc_code c) _ idx ht (delete_codesep (sc_code c))) as B.
  rewrite (P04.C04_legacy_preimage_eq (sh_tx (sc_tx c) []) (sc_code c) idx ht W) in B;
    [|unfold sh_tx; cbn [S.tx_ins]; now rewrite map_length|exact Hht|exact Hc].
  fold (core_tx (sc_tx c)) in B.
  destruct (legacy_fed_of (sc_tx c) (strip_codesep (sc_code c)) idx ht) as [o| |]; cbn [bind] in B; try discriminate.
  injection B as B. f_equal.
  destruct (core_signature_hash_old (sc_code c) (core_tx (sc_tx c)) idx ht), o; cbn in *; congruence.
Qed.

Theorem segwit_preimage_is_core : forall (H : bytes -> bytes) (ht : N) (idx : nat) (c : sctx), core_wf ht idx c ->
  segwit_preimage H (sc_tx c) (sc_code c) (sc_amount c) idx ht
  = Ret (bip143_preimage H (sc_code c) (core_tx (sc_tx c)) idx (sc_amount c) ht).
Proof.
  intros H ht idx c [W L Hht Hc Ha].
  rewrite <- bridge_segwit_ctx. unfold sh_ctx.
  rewrite (P04.C04_bip143_preimage_eq H H _ (sc_code c) idx ht
             (S.mk_txout (sc_amount c) [])); try assumption.
  - reflexivity.
  - unfold sh_tx; cbn [S.tx_ins]; now rewrite map_length.
  - unfold sh_tx. cbn [S.tx_unspents]. rewrite nth_error_map, sh_ctx_unspent. reflexivity.
Qed.

(* fed_of on the commit context succeeds, and its digest is Core's digest *)
Theorem fed_digest_is_core : forall (H : bytes -> bytes) (sv : sigversion) (ht : N) (idx : nat) (c : sctx),
  core_wf ht idx c ->
  exists f, fed_of sv ht idx (commit_ctx sv c) = Ret f
            /\ digest_of H f = core_sighash_digest H sv ht idx c
            /\ match sv with
               | SV_legacy => f = match core_signature_hash_old (sc_code c) (core_tx (sc_tx c)) idx ht with
                                  | CoreOne => Fed_none | CorePreimage p => Fed_legacy p end
               | SV_bip143 => exists s, f = Fed_segwit s
                              /\ segwit_assemble H s = bip143_preimage H (sc_code c) (core_tx (sc_tx c)) idx (sc_amount c) ht
               end.
Proof.
  intros H sv ht idx c W. destruct sv; unfold fed_of, commit_ctx; cbn [sc_tx sc_code sc_amount].
  - rewrite (legacy_fed_is_core ht idx c W). cbn [bind].
    unfold core_sighash_digest, core_sighash_preimage.
    destruct (core_signature_hash_old (sc_code c) (core_tx (sc_tx c)) idx ht); cbn [fed_of_core].
    + exists Fed_none. split; [reflexivity|]. split; [|reflexivity].
      cbn [digest_of SP.core_digest]. rewrite single_value_is.
      exact (proj2 P04.C04_single_bug_value_is_uint256_one).
    + exists (Fed_legacy p). split; [reflexivity|]. split; reflexivity.
  - pose proof (segwit_preimage_is_core H ht idx c W) as E. unfold segwit_preimage in E.
    destruct (segwit_fed_of (sc_tx c) (sc_code c) (sc_amount c) idx ht) as [s| |]; cbn [bind] in E; try discriminate.
    injection E as E. exists (Fed_segwit s). cbn [bind]. split; [reflexivity|]. split.
    + cbn [digest_of]. unfold core_sighash_digest, core_sighash_preimage. cbn [SP.core_digest]. now rewrite E.
    + exists s. split; [reflexivity|exact E].
Qed.

(* ---- C06's theorems over Core's definition -------------------------------------------------------------------- *)
(* (1) injectivity, legacy, no assumption on the hash: equal Core preimages (or both the SIGHASH_SINGLE constant)
   force agreement on every committed field *)
Theorem commitment_injective_core : forall (ht : N) (idx : nat) (c c' : sctx),
  core_wf ht idx c -> core_wf ht idx c' ->
  core_signature_hash_old (sc_code c) (core_tx (sc_tx c)) idx ht
  = core_signature_hash_old (sc_code c') (core_tx (sc_tx c')) idx ht ->
  forall fl, committed SV_legacy ht idx (has_output idx c) fl = true ->
             get idx fl (commit_ctx SV_legacy c) = get idx fl (commit_ctx SV_legacy c').
Proof.
  intros ht idx c c' W W' E.
  pose proof (legacy_fed_is_core ht idx c W) as F. pose proof (legacy_fed_is_core ht idx c' W') as F'.
  rewrite <- E in F'.
  apply (commitment_injective SV_legacy ht idx (commit_ctx SV_legacy c) (commit_ctx SV_legacy c')
           (match fed_of_core (core_signature_hash_old (sc_code c) (core_tx (sc_tx c)) idx ht) with
            | None => Fed_none | Some b => Fed_legacy b end)).
  - exact (wf_ctx_of_core ht idx c W).
  - exact (wf_ctx_of_core ht idx c' W').
  - exact (cw_idx _ _ _ W).
  - exact (cw_idx _ _ _ W').
  - unfold fed_of, commit_ctx; cbn [sc_tx sc_code]. now rewrite F.
  - unfold fed_of, commit_ctx; cbn [sc_tx sc_code]. now rewrite F'.
Qed.

(* (1) BIP143: Core's preimage already contains three hashes, so the hash-free statement is about the strings
   those hashes are computed from: equal `segwit_fed` records force agreement (C06) and give equal Core preimages;
   the statement in terms of Core's bytes is the digest-level one below. *)

(* (1') digest level, both versions, any 32-byte function H: equal CORE digests force agreement on the committed
   fields, or exhibit an anomaly of H among the strings pycoin hashed (f, f' are determined by c, c') *)
Theorem digest_commits_core : forall (H : bytes -> bytes), (forall x, length (H x) = 32%nat) ->
  forall (sv : sigversion) (ht : N) (idx : nat) (c c' : sctx),
  core_wf ht idx c -> core_wf ht idx c' ->
  exists f f', fed_of sv ht idx (commit_ctx sv c) = Ret f /\ fed_of sv ht idx (commit_ctx sv c') = Ret f'
    /\ digest_of H f = core_sighash_digest H sv ht idx c /\ digest_of H f' = core_sighash_digest H sv ht idx c'
    /\ (core_sighash_digest H sv ht idx c = core_sighash_digest H sv ht idx c' ->
        (forall fl, committed sv ht idx (has_output idx c) fl = true ->
                    get idx fl (commit_ctx sv c) = get idx fl (commit_ctx sv c'))
        \/ hash_anomaly H f f').
Proof.
  intros H Hlen sv ht idx c c' W W'.
  destruct (fed_digest_is_core H sv ht idx c W) as (f & F & D & _).
  destruct (fed_digest_is_core H sv ht idx c' W') as (f' & F' & D' & _).
  exists f, f'. repeat split; auto. intros E.
  apply (digest_commits H Hlen sv ht idx (commit_ctx sv c) (commit_ctx sv c') f f'); auto.
  - exact (wf_ctx_of_core ht idx c W).
  - exact (wf_ctx_of_core ht idx c' W').
  - exact (cw_idx _ _ _ W).
  - exact (cw_idx _ _ _ W').
  - congruence.
Qed.

(* (2) invariance: contexts that agree on every committed field have the same Core preimage (hence digest), for
   every hash function *)
Theorem uncommitted_invariant_core : forall (H : bytes -> bytes) (sv : sigversion) (ht : N) (idx : nat) (c c' : sctx),
  core_wf ht idx c -> core_wf ht idx c' ->
  (forall fl, committed sv ht idx (has_output idx c) fl = true ->
              get idx fl (commit_ctx sv c) = get idx fl (commit_ctx sv c')) ->
  core_sighash_preimage H sv ht idx c = core_sighash_preimage H sv ht idx c'.
Proof.
  intros H sv ht idx c c' W W' A.
  pose proof (uncommitted_invariant sv ht idx (commit_ctx sv c) (commit_ctx sv c') A) as E.
  destruct (fed_digest_is_core H sv ht idx c W) as (f & F & _ & S).
  destruct (fed_digest_is_core H sv ht idx c' W') as (f' & F' & _ & S').
  rewrite F, F' in E. injection E as <-.
  destruct sv; unfold core_sighash_preimage.
  - destruct (core_signature_hash_old (sc_code c) (core_tx (sc_tx c)) idx ht),
             (core_signature_hash_old (sc_code c') (core_tx (sc_tx c')) idx ht); congruence.
  - destruct S as (s & -> & E1), S' as (s' & Es & E2). injection Es as <-. congruence.
Qed.
