(* Proofs/EcAssocFp.v — Z modulo a prime p <> 2 as an instance of the abstract field of EcAssocAlg.v
   (carrier: the reduced representatives 0 <= v < p, so that field equality is Leibniz equality; inverse: the
   model's own inverse_mod), and the transport of associativity (EcAssocGrp.eadd_assoc) to `gadd` on `valid` points
   through the relational specification `spec_add` (which characterises slopes by the equation they solve). *)
From Coq Require Import ZArith Lia Znumtheory Field Ring Bool Eqdep_dec Setoid Morphisms.
From PV Require Import Base.Outcome Model.Curve Spec.Weierstrass Proofs.CurveInvP Proofs.CurveAddP
  Proofs.EcAssocAlg Proofs.EcAssocGrp.
Local Open Scope Z_scope.

Section Fp.
Variable p : Z.
Hypothesis Hp : prime p.
Hypothesis Hp2 : p <> 2.

Lemma p_gt_2 : 2 < p.
Proof. pose proof (prime_ge_2 p Hp). lia. Qed.

Definition inrange (v : Z) : bool := (0 <=? v) && (v <? p).

Lemma inrange_iff v : inrange v = true <-> 0 <= v < p.
Proof. unfold inrange. rewrite andb_true_iff, Z.leb_le, Z.ltb_lt. tauto. Qed.

Record Fp : Type := MkFp { fval : Z; fok : inrange fval = true }.

Lemma Fp_eq x y : fval x = fval y -> x = y.
Proof.
  destruct x as [u hu], y as [v hv]. cbn. intros E. subst v. f_equal. apply UIP_dec. apply bool_dec.
Qed.

Lemma fval_range x : 0 <= fval x < p.
Proof. apply inrange_iff. apply fok. Qed.

Lemma inj_ok z : inrange (z mod p) = true.
Proof. apply inrange_iff. apply Z.mod_pos_bound. pose proof p_gt_2. lia. Qed.

Definition inj (z : Z) : Fp := MkFp (z mod p) (inj_ok z).

Lemma inj_fval x : inj (fval x) = x.
Proof. apply Fp_eq. cbn. apply Z.mod_small. apply fval_range. Qed.

Lemma inj_eq_iff z1 z2 : inj z1 = inj z2 <-> z1 mod p = z2 mod p.
Proof. split; [intros H; exact (f_equal fval H) | intros H; apply Fp_eq; exact H]. Qed.

Lemma inj_mod z : inj (z mod p) = inj z.
Proof. apply inj_eq_iff. apply Zmod_mod. Qed.

Lemma fval_inj_small z : 0 <= z < p -> fval (inj z) = z.
Proof. intros H. cbn. now apply Z.mod_small. Qed.

Definition fadd (x y : Fp) : Fp := inj (fval x + fval y).
Definition fmul (x y : Fp) : Fp := inj (fval x * fval y).
Definition fsub (x y : Fp) : Fp := inj (fval x - fval y).
Definition fopp (x : Fp) : Fp := inj (- fval x).
Definition finv' (x : Fp) : Fp := inj (finv p (fval x)).
Definition fdiv (x y : Fp) : Fp := fmul x (finv' y).

Local Instance eqm_p_equiv : Equivalence (eqm p) := eqm_setoid p.
Local Instance add_p_proper : Proper (eqm p ==> eqm p ==> eqm p) Z.add := Zplus_eqm p.
Local Instance mul_p_proper : Proper (eqm p ==> eqm p ==> eqm p) Z.mul := Zmult_eqm p.
Local Instance sub_p_proper : Proper (eqm p ==> eqm p ==> eqm p) Z.sub := Zminus_eqm p.
Local Instance opp_p_proper : Proper (eqm p ==> eqm p) Z.opp := Zopp_eqm p.

Lemma mod_eqm z : eqm p (z mod p) z.
Proof. apply Zmod_eqm. Qed.

(* an equation between inj's of integer expressions with inner reductions: strip the reductions, then Z ring *)
Ltac fp_law :=
  intros; apply Fp_eq; cbn [fval fadd fmul fsub fopp inj];
  match goal with |- Z.modulo ?A p = Z.modulo ?B p => change (eqm p A B) end;
  (rewrite_strat (try (topdown mod_eqm)));
  unfold eqm; f_equal; ring.

(* inj is a ring homomorphism Z -> Fp *)
Lemma inj_add z1 z2 : inj (z1 + z2) = fadd (inj z1) (inj z2).
Proof. fp_law. Qed.
Lemma inj_mul z1 z2 : inj (z1 * z2) = fmul (inj z1) (inj z2).
Proof. fp_law. Qed.
Lemma inj_sub z1 z2 : inj (z1 - z2) = fsub (inj z1) (inj z2).
Proof. fp_law. Qed.
Lemma inj_opp z : inj (- z) = fopp (inj z).
Proof. fp_law. Qed.

Lemma Fp_ring : ring_theory (inj 0) (inj 1) fadd fmul fsub fopp (@eq Fp).
Proof.
  constructor.
  - intros x. rewrite <- (inj_fval x) at 2. fp_law.
  - fp_law.
  - fp_law.
  - intros x. rewrite <- (inj_fval x) at 2. fp_law.
  - fp_law.
  - fp_law.
  - fp_law.
  - fp_law.
  - intros x. fp_law.
Qed.

Lemma inj_1_neq_0 : inj 1 <> inj 0.
Proof.
  intros H. apply inj_eq_iff in H. pose proof p_gt_2. rewrite Z.mod_small, Z.mod_small in H; lia.
Qed.

Lemma Fp_field : field_theory (inj 0) (inj 1) fadd fmul fsub fopp fdiv finv' (@eq Fp).
Proof.
  constructor.
  - exact Fp_ring.
  - exact inj_1_neq_0.
  - reflexivity.
  - intros x Hx.
    assert (Hn : ~ eqm p (fval x) 0).
    { intros E. apply Hx. rewrite <- (inj_fval x). apply inj_eq_iff. exact E. }
    pose proof (finv_l p Hp (fval x) Hn) as K.
    apply Fp_eq. cbn [fval fmul finv' inj].
    change (eqm p (finv p (fval x) mod p * fval x) 1). rewrite mod_eqm. exact K.
Qed.

Lemma Fp_eq_dec (x y : Fp) : {x = y} + {x <> y}.
Proof.
  destruct (Z.eq_dec (fval x) (fval y)) as [E|N]; [left; now apply Fp_eq | right; intros H; apply N; now rewrite H].
Qed.

Lemma Fp_two_nz : fadd (inj 1) (inj 1) <> inj 0.
Proof.
  rewrite <- inj_add. intros H. apply inj_eq_iff in H. pose proof p_gt_2.
  rewrite Z.mod_small, Z.mod_small in H; lia.
Qed.

Definition FpF : fld := MkFld Fp (inj 0) (inj 1) fadd fmul fsub fopp fdiv finv' Fp_field Fp_eq_dec Fp_two_nz.

Lemma inj_2 : inj 2 = fadd (inj 1) (inj 1).
Proof. now rewrite <- inj_add. Qed.
Lemma inj_3 : inj 3 = fadd (fadd (inj 1) (inj 1)) (inj 1).
Proof. now rewrite <- !inj_add. Qed.

Lemma inj_eq0_iff z : inj z = inj 0 <-> z mod p = 0.
Proof. rewrite inj_eq_iff, Zmod_0_l. tauto. Qed.

End Fp.

(* ================================================================================================
   transport to the model's curve records *)
Section Bridge.
Variable c : curve.
Hypothesis Hp : prime (cp c).
Hypothesis Hp2 : cp c <> 2.
Hypothesis Hdisc : (4 * ca c ^ 3 + 27 * cb c ^ 2) mod cp c <> 0.

Local Notation pp := (cp c).
Local Notation F := (FpF pp Hp Hp2).
Local Notation ij := (inj pp Hp Hp2).

Ltac push_inj :=
  repeat first [ rewrite (inj_mod pp Hp Hp2) | rewrite (inj_sub pp Hp Hp2) | rewrite (inj_add pp Hp Hp2)
               | rewrite (inj_mul pp Hp Hp2) | rewrite (inj_opp pp Hp Hp2) ].

Lemma disc_ok : @disc F (ij (ca c)) (ij (cb c)) <> @kO F.
Proof.
  intros H. apply Hdisc. apply (inj_eq0_iff pp Hp Hp2).
  replace (4 * ca c ^ 3 + 27 * cb c ^ 2) with (2 * 2 * ca c * ca c * ca c + 3 * 3 * 3 * cb c * cb c) by ring.
  push_inj. rewrite (inj_2 pp Hp Hp2), (inj_3 pp Hp Hp2). exact H.
Qed.

Definition Ecv : ecurve F := MkEc F (ij (ca c)) (ij (cb c)) disc_ok.

Definition emb (P : pt) : @ept F :=
  match P with None => EO | Some (x, y) => @EP F (ij x) (ij y) end.

Lemma emb_on P : on_curve c P -> @eon F Ecv (emb P).
Proof.
  destruct P as [[x y]|]; cbn [emb eon on_curve]; [|auto]. intros H.
  unfold oc. cbn [ea eb Ecv].
  assert (E : ij (y * y) = ij (x * x * x + ca c * x + cb c)).
  { apply (inj_eq_iff pp Hp Hp2). apply (eqm_sub_zero pp Hp). apply (eqm0_iff pp). exact H. }
  revert E. push_inj. exact (fun E => E).
Qed.

Lemma ij_inj_reduced x x' : 0 <= x < pp -> 0 <= x' < pp -> ij x = ij x' -> x = x'.
Proof.
  intros H H' E. apply (inj_eq_iff pp Hp Hp2) in E. now rewrite !Z.mod_small in E.
Qed.

Lemma emb_inj P Q : reduced c P -> reduced c Q -> emb P = emb Q -> P = Q.
Proof.
  destruct P as [[x y]|], Q as [[x' y']|]; cbn [emb reduced]; try discriminate; auto.
  intros [Hx Hy] [Hx' Hy'] E.
  assert (E1 : ij x = ij x') by congruence. assert (E2 : ij y = ij y') by congruence.
  now rewrite (ij_inj_reduced _ _ Hx Hx' E1), (ij_inj_reduced _ _ Hy Hy' E2).
Qed.

(* the relational specification computes the abstract addition *)
Lemma emb_spec_add P Q G : reduced c P -> reduced c Q -> spec_add c P Q G ->
  emb G = @eadd F Ecv (emb P) (emb Q).
Proof.
  intros RP RQ H. destruct H as [Q|P|x y0 y1 Hy|x y l Hy Hl x3|x0 y0 x1 y1 l Hx Hl x3].
  - reflexivity.
  - cbn [emb]. now rewrite (eadd_O_r (F:=F) (Ec:=Ecv)).
  - cbn [emb].
    assert (E : ij y0 = @kopp F (ij y1)).
    { change (@kopp F (ij y1)) with (fopp pp Hp Hp2 (ij y1)). rewrite <- (inj_opp pp Hp Hp2).
      apply (inj_eq_iff pp Hp Hp2). apply (eqm_sub_zero pp Hp). apply (eqm0_iff pp).
      replace (y0 - - y1) with (y0 + y1) by ring. exact Hy. }
    rewrite E. symmetry. apply (eadd_opp_pt' (F:=F) (Ec:=Ecv)).
  - cbn [emb].
    assert (Ny : ij y <> @kO F).
    { intros E. apply Hy. apply (inj_eq0_iff pp Hp Hp2) in E.
      rewrite Zplus_mod, E. reflexivity. }
    assert (El : @kmul F (ij l) (@kmul F (@kadd F (@kI F) (@kI F)) (ij y))
                 = @kadd F (@kmul F (@kmul F (@kadd F (@kadd F (@kI F) (@kI F)) (@kI F)) (ij x)) (ij x)) (ea Ecv)).
    { assert (E : ij (l * (2 * y)) = ij (3 * x * x + ca c)) by (apply (inj_eq_iff pp Hp Hp2); exact Hl).
      revert E. push_inj. rewrite (inj_2 pp Hp Hp2), (inj_3 pp Hp Hp2). exact (fun E => E). }
    rewrite (eadd_tan (F:=F) (Ec:=Ecv) _ _ Ny). destruct (tan_slope (F:=F) (Ec:=Ecv) _ _ _ Ny El) as [-> ->].
    subst x3. push_inj. reflexivity.
  - cbn [emb].
    assert (Nx : ij x0 <> ij x1).
    { intros E. apply Hx. destruct RP as [R0 _], RQ as [R1 _]. exact (ij_inj_reduced _ _ R0 R1 E). }
    assert (El : @kmul F (ij l) (@ksub F (ij x1) (ij x0)) = @ksub F (ij y1) (ij y0)).
    { assert (E : ij (l * (x1 - x0)) = ij (y1 - y0)) by (apply (inj_eq_iff pp Hp Hp2); exact Hl).
      revert E. push_inj. exact (fun E => E). }
    rewrite (eadd_chord (F:=F) (Ec:=Ecv) _ _ _ _ Nx). destruct (chord_slope (F:=F) _ _ _ _ _ Nx El) as [-> ->].
    subst x3. push_inj. reflexivity.
Qed.

Lemma emb_gadd P Q : valid c P -> valid c Q -> emb (gadd c P Q) = @eadd F Ecv (emb P) (emb Q).
Proof.
  intros [HP RP] [HQ RQ].
  destruct (add_gadd c Hp Hp2 P Q HP HQ) as (R & E1 & _ & _ & <-).
  destruct (add_is_spec_c c Hp Hp2 P Q HP HQ) as (R' & E2 & _ & _ & HS).
  rewrite E1 in E2. injection E2 as <-.
  rewrite (red_id_c c P RP), (red_id_c c Q RQ) in HS.
  now apply emb_spec_add.
Qed.

Theorem gadd_assoc P Q R : valid c P -> valid c Q -> valid c R ->
  gadd c (gadd c P Q) R = gadd c P (gadd c Q R).
Proof.
  intros VP VQ VR.
  pose proof (gadd_valid c Hp Hp2 P Q (proj1 VP) (proj1 VQ)) as VS.
  pose proof (gadd_valid c Hp Hp2 Q R (proj1 VQ) (proj1 VR)) as VT.
  apply emb_inj.
  - apply (gadd_valid c Hp Hp2); [exact (proj1 VS) | exact (proj1 VR)].
  - apply (gadd_valid c Hp Hp2); [exact (proj1 VP) | exact (proj1 VT)].
  - rewrite (emb_gadd _ _ VS VR), (emb_gadd _ _ VP VT), (emb_gadd _ _ VP VQ), (emb_gadd _ _ VQ VR).
    apply eadd_assoc; apply emb_on; [exact (proj1 VP) | exact (proj1 VQ) | exact (proj1 VR)].
Qed.

End Bridge.
