(* Proofs/ComposeEcGroup.v — composition C01/C17 x C02, part 1: the module laws C01's `group_laws` asks for and
   Proofs/CurveGroupP.v does not state: the Z-action `smul` (repeated addition, Spec/Weierstrass.v) of an abelian
   group given on a carrier subset `ok` distributes over the operation, commutes with the inverse and is
   multiplicative in the scalar.  Same Section shape as CurveGroupP (whose lemmas are used, none is re-proved). *)
From Coq Require Import ZArith Lia.
From PV Require Import Spec.Weierstrass Proofs.CurveGroupP.
Local Open Scope Z_scope.

Section GroupMore.
Variable T : Type.
Variable ok : T -> Prop.
Variable (e : T) (op : T -> T -> T) (inv : T -> T).
Hypothesis ok_e : ok e.
Hypothesis ok_op : forall a b, ok a -> ok b -> ok (op a b).
Hypothesis ok_inv : forall a, ok a -> ok (inv a).
Hypothesis op_assoc : forall a b c, ok a -> ok b -> ok c -> op (op a b) c = op a (op b c).
Hypothesis op_comm : forall a b, ok a -> ok b -> op a b = op b a.
Hypothesis op_e_l : forall a, ok a -> op e a = a.
Hypothesis op_inv_r : forall a, ok a -> op a (inv a) = e.

Local Hint Resolve ok_e ok_op ok_inv : core.

Notation sm := (smul e op inv).

Let g_ok_smul := ok_smul T ok e op inv ok_e ok_op ok_inv.
Let g_smul_succ := smul_succ T ok e op inv ok_e ok_op ok_inv op_assoc op_comm op_e_l op_inv_r.
Let g_smul_pred := smul_pred T ok e op inv ok_e ok_op ok_inv op_assoc op_comm op_e_l op_inv_r.
Let g_smul_add := smul_add T ok e op inv ok_e ok_op ok_inv op_assoc op_comm op_e_l op_inv_r.
Let g_smul_opp := smul_opp T ok e op inv ok_e ok_op ok_inv op_assoc op_comm op_e_l op_inv_r.
Let g_inv_op := inv_op T ok e op inv ok_e ok_op ok_inv op_assoc op_comm op_e_l op_inv_r.
Let g_inv_e := inv_e T ok e op inv ok_e ok_inv op_assoc op_comm op_e_l op_inv_r.
Let g_inv_inv := inv_inv T ok e op inv ok_e ok_inv op_assoc op_comm op_e_l op_inv_r.
Let g_op_e_r := op_e_r T ok e op ok_e op_comm op_e_l.

Local Hint Resolve g_ok_smul : core.

(* (a + b) + (c + d) = (a + c) + (b + d) *)
Lemma op_swap a b c d : ok a -> ok b -> ok c -> ok d -> op (op a b) (op c d) = op (op a c) (op b d).
Proof.
  intros Ha Hb Hc Hd.
  rewrite (op_assoc a b), <- (op_assoc b c d), (op_comm b c), (op_assoc c b d), <- (op_assoc a c); auto.
Qed.

(* k (P + Q) = k P + k Q *)
Lemma smul_op k P Q : ok P -> ok Q -> sm k (op P Q) = op (sm k P) (sm k Q).
Proof.
  intros HP HQ. revert k. apply Z.peano_ind.
  - cbn. rewrite op_e_l; auto.
  - intros k IH. replace (Z.succ k) with (k + 1) by lia.
    rewrite !g_smul_succ, IH by auto. apply op_swap; auto.
  - intros k IH. replace (Z.pred k) with (k - 1) by lia.
    rewrite !g_smul_pred, IH, g_inv_op by auto. apply op_swap; auto.
Qed.

(* k (-P) = - (k P) *)
Lemma smul_inv k P : ok P -> sm k (inv P) = inv (sm k P).
Proof.
  intros HP. revert k. apply Z.peano_ind.
  - cbn. symmetry. apply g_inv_e.
  - intros k IH. replace (Z.succ k) with (k + 1) by lia.
    rewrite !g_smul_succ, IH, g_inv_op by auto. reflexivity.
  - intros k IH. replace (Z.pred k) with (k - 1) by lia.
    rewrite !g_smul_pred, IH, g_inv_op by auto. reflexivity.
Qed.

(* (a b) P = a (b P) *)
Lemma smul_mul a b P : ok P -> sm (a * b) P = sm a (sm b P).
Proof.
  intros HP. revert a. apply Z.peano_ind.
  - reflexivity.
  - intros a IH. replace (Z.succ a * b) with (a * b + b) by lia. replace (Z.succ a) with (a + 1) by lia.
    rewrite g_smul_add, g_smul_succ, IH by auto. reflexivity.
  - intros a IH. replace (Z.pred a * b) with (a * b + - b) by lia. replace (Z.pred a) with (a - 1) by lia.
    rewrite g_smul_add, g_smul_pred, g_smul_opp, IH by auto. reflexivity.
Qed.

(* the elements killed by m are closed under the operations *)
Lemma killed_e m : sm m e = e.
Proof. apply (smul_e T ok e op inv ok_e ok_inv op_assoc op_comm op_e_l op_inv_r). Qed.

Lemma killed_op m P Q : ok P -> ok Q -> sm m P = e -> sm m Q = e -> sm m (op P Q) = e.
Proof. intros HP HQ KP KQ. rewrite smul_op, KP, KQ by auto. auto. Qed.

Lemma killed_inv m P : ok P -> sm m P = e -> sm m (inv P) = e.
Proof. intros HP KP. rewrite smul_inv, KP by auto. apply g_inv_e. Qed.

Lemma killed_smul m k P : ok P -> sm m P = e -> sm m (sm k P) = e.
Proof.
  intros HP KP. rewrite <- smul_mul, Z.mul_comm, smul_mul, KP by auto. apply killed_e.
Qed.

End GroupMore.
