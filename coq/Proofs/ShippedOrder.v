(* Proofs/ShippedOrder.v — the mathematical premises of Props/C02.v DISCHARGED for the three shipped generators
   (Gen/GenCurves.v, regenerated from /repo), except M4:
     M1  p prime                      Proofs/CurvePrimes.v (Pocklington certificates), tied to the table in CurvePrimesEc.v
     M2  n prime                      idem
     M3  t^(p-1) = 1 (mod p)          from M1 by Proofs/FermatC10.v (fermat_little)
     n*G = O  (order_kills c G)       from M4 by Proofs/CurveOrderK1.v / CurveOrderR1.v / CurveOrderBls.v (hinted double-and-add
                                      certificates checked through Proofs/OrderCert.v), tied to the table here by `exact`
   M4 (associativity of chord-and-tangent addition on the reduced on-curve points) is the ONLY premise left in the
   `_M4only` statements below; statements that never used M4 are unconditional.  (M4 is proved in Proofs/EcAssoc.v, which
   comes later in the dependency order; Proofs/ShippedUncond.v combines the two: no premise at all.)
   "Every on-curve point is killed by n" (cofactor 1: a point count) is NOT proved here: it is true of secp256k1/secp256r1 and
   false of bls12_381_g1; statements about arbitrary points keep `order_kills c P` as a hypothesis on that point. *)
From Coq Require Import ZArith Lia Znumtheory Bool List Zpow_facts.
From PV Require Import Base.Outcome Model.Curve Spec.Weierstrass Gen.GenCurves
  Proofs.CurveInvP Proofs.CurveAddP Proofs.CurveGroupP Proofs.CurveMulP Proofs.CurveSqrtP Proofs.CurveP
  Proofs.FermatC10 Proofs.CurvePrimes Proofs.CurvePrimesEc Proofs.OrderCert Proofs.CurveOrderK1 Proofs.CurveOrderR1 Proofs.CurveOrderBls.
Import ListNotations.
Local Open Scope Z_scope.

(* the three rows of the shipped table *)
Definition secp256k1_row : Z * Z * Z * Z * Z * Z * nat := (secp256k1_params, secp256k1_bits).
Definition secp256r1_row : Z * Z * Z * Z * Z * Z * nat := (secp256r1_params, secp256r1_bits).
Definition bls12_381_g1_row : Z * Z * Z * Z * Z * Z * nat := (bls12_381_g1_params, bls12_381_g1_bits).

Lemma shipped_rows : forall t, In t shipped_curves -> t = secp256k1_row \/ t = secp256r1_row \/ t = bls12_381_g1_row.
Proof.
  intros t H. unfold shipped_curves in H. cbn [In] in H.
  destruct H as [<- | [<- | [<- | []]]]; auto.
Qed.

(* ---- n * G = O from M4, on the regenerated constants (the literals of the certificate files ARE those constants).
        The equality of the constants is checked FIRST, by `reflexivity` on the tuples, which fails at once when a constant of
        /repo has changed; without that guard the kernel would try to decide `kP c n G = kP c' n' G'` by unfolding the unary
        repeated addition on a 256-bit scalar and never return. ---- *)
Lemma secp256k1_consts_are_lit :
  (secp256k1_p, secp256k1_a, secp256k1_b, secp256k1_Gx, secp256k1_Gy, secp256k1_n) =
  (lit_k1_p, lit_k1_a, lit_k1_b, lit_k1_Gx, lit_k1_Gy, lit_k1_n).
Proof. reflexivity. Qed.

Lemma secp256r1_consts_are_lit :
  (secp256r1_p, secp256r1_a, secp256r1_b, secp256r1_Gx, secp256r1_Gy, secp256r1_n) =
  (lit_r1_p, lit_r1_a, lit_r1_b, lit_r1_Gx, lit_r1_Gy, lit_r1_n).
Proof. reflexivity. Qed.

Lemma bls12_381_g1_consts_are_lit :
  (bls12_381_g1_p, bls12_381_g1_a, bls12_381_g1_b, bls12_381_g1_Gx, bls12_381_g1_Gy, bls12_381_g1_n) =
  (lit_bls_p, lit_bls_a, lit_bls_b, lit_bls_Gx, lit_bls_Gy, lit_bls_n).
Proof. reflexivity. Qed.

Theorem secp256k1_order_kills :
  M4 (shipped_curve secp256k1_row) -> kP (shipped_curve secp256k1_row) secp256k1_n (shipped_G secp256k1_row) = None.
Proof. pose proof secp256k1_consts_are_lit as _. exact order_lit_k1. Qed.

Theorem secp256r1_order_kills :
  M4 (shipped_curve secp256r1_row) -> kP (shipped_curve secp256r1_row) secp256r1_n (shipped_G secp256r1_row) = None.
Proof. pose proof secp256r1_consts_are_lit as _. exact order_lit_r1. Qed.

Theorem bls12_381_g1_order_kills :
  M4 (shipped_curve bls12_381_g1_row) -> kP (shipped_curve bls12_381_g1_row) bls12_381_g1_n (shipped_G bls12_381_g1_row) = None.
Proof. pose proof bls12_381_g1_consts_are_lit as _. exact order_lit_bls. Qed.

(* ---- M3 (Fermat) from M1 ---- *)
Lemma M3_from_M1 c : M1 c -> M3 c.
Proof.
  intros Hp t Ht. pose proof (prime_ge_2 _ Hp).
  rewrite Zpower_mod by lia.
  apply fermat_little; [exact Hp|].
  pose proof (Z.mod_pos_bound t (cp c)). lia.
Qed.

(* ---- every row: M1, M2, M3 hold; n * G = O follows from M4 ---- *)
Theorem shipped_M1 t : In t shipped_curves -> M1 (shipped_curve t).
Proof.
  intros H. destruct (shipped_rows t H) as [-> | [-> | ->]].
  - exact prime_secp256k1_p.
  - exact prime_secp256r1_p.
  - exact prime_bls12_381_g1_p.
Qed.

Theorem shipped_M2 t : In t shipped_curves -> prime (cn (shipped_curve t)).
Proof.
  intros H. destruct (shipped_rows t H) as [-> | [-> | ->]].
  - exact prime_secp256k1_n.
  - exact prime_secp256r1_n.
  - exact prime_bls12_381_g1_n.
Qed.

Theorem shipped_M3 t : In t shipped_curves -> M3 (shipped_curve t).
Proof. intros H. apply M3_from_M1. now apply shipped_M1. Qed.

Theorem shipped_order_kills t : In t shipped_curves -> M4 (shipped_curve t) -> order_kills (shipped_curve t) (shipped_G t).
Proof.
  intros H. destruct (shipped_rows t H) as [-> | [-> | ->]].
  - exact secp256k1_order_kills.
  - exact secp256r1_order_kills.
  - exact bls12_381_g1_order_kills.
Qed.

Theorem shipped_premises t : In t shipped_curves ->
  let c := shipped_curve t in
  M1 c /\ prime (cn c) /\ M3 c /\ (M4 c -> order_kills c (shipped_G t)).
Proof.
  intros H c. subst c.
  exact (conj (shipped_M1 t H) (conj (shipped_M2 t H) (conj (shipped_M3 t H) (shipped_order_kills t H)))).
Qed.

(* ---- the C02 statements about the shipped generators with M4 as the only premise ---- *)
Theorem shipped_fixed_base_M4only t : In t shipped_curves ->
  let c := shipped_curve t in
  M4 c ->
  forall blind e, gmul (shipped_gen t blind) e = Ret (kP c e (shipped_G t)) /\
                  raw_mul (shipped_gen t blind) e = Ret (kP c e (shipped_G t)).
Proof.
  intros H c H4. subst c.
  exact (shipped_fixed_base t H (shipped_M1 t H) H4 (shipped_order_kills t H H4)).
Qed.

(* Curve.multiply on an arbitrary on-curve point killed by n (that hypothesis is about the POINT; for the curves of cofactor 1
   it holds for every point, a fact not proved here) *)
Theorem shipped_multiply_M4only t : In t shipped_curves ->
  let c := shipped_curve t in
  M4 c -> forall P, on_curve c P -> order_kills c (red c P) ->
  forall e, multiply c P e = Ret (kP c e (red c P)).
Proof.
  intros H c H4. subst c.
  exact (shipped_multiply t H (shipped_M1 t H) H4).
Qed.

(* shipped G is reduced and on the curve (decided on the table) *)
Lemma shipped_G_valid t : In t shipped_curves -> valid (shipped_curve t) (shipped_G t) /\ cp (shipped_curve t) <> 2 /\
  cp (shipped_curve t) mod 4 = 3.
Proof.
  intros Hin. pose proof (shipped_M1 t Hin) as Hp.
  pose proof (proj1 (forallb_forall shipped_checkb shipped_curves) shipped_ok t Hin) as K.
  destruct t as [[[[[[p a] b] Gx] Gy] n] bits]. unfold shipped_checkb in K. cbn [shipped_curve shipped_G] in *.
  repeat (apply andb_prop in K; let K' := fresh "K" in destruct K as [K K']).
  apply negb_true_iff in K8. apply Z.eqb_neq in K8. apply Z.ltb_lt in K7, K3, K1. apply Z.leb_le in K5, K4, K2.
  apply Z.eqb_eq in K9.
  cbn [cp]. split; [split|split; assumption].
  - apply (contains_iff_c _ Hp K8). exact K.
  - cbn. lia.
Qed.

(* ... and on the generator itself, every multiple of it included: no hypothesis on the point is left *)
Theorem shipped_multiply_G_M4only t : In t shipped_curves ->
  let c := shipped_curve t in
  M4 c -> forall e, multiply c (shipped_G t) e = Ret (kP c e (shipped_G t)).
Proof.
  intros H c H4 e. subst c.
  destruct (shipped_G_valid t H) as ([Hon Hred] & _ & _).
  pose proof (red_id_c _ _ Hred) as Er.
  rewrite <- Er at 2.
  apply (shipped_multiply t H (shipped_M1 t H) H4 _ Hon).
  rewrite Er. exact (shipped_order_kills t H H4).
Qed.

(* points_for_x never used M4: with M1 and M3 proved it is unconditional (for abscissae without a point of ordinate 0) *)
Theorem shipped_points_for_x t : In t shipped_curves ->
  let c := shipped_curve t in
  forall (g : gen) (x : Z), gc g = c -> ~ on_curve c (Some (x, 0)) ->
  match points_for_x g x with
  | Ret (P0, P1) =>
      exists y0 y1, P0 = Some (x, y0) /\ P1 = Some (x, y1) /\ Z.even y0 = true /\ Z.odd y1 = true /\
        0 < y0 < cp c /\ 0 < y1 < cp c /\ y0 + y1 = cp c /\
        forall y, 0 <= y < cp c -> (on_curve c (Some (x, y)) <-> y = y0 \/ y = y1)
  | Raise _ => forall y, ~ on_curve c (Some (x, y))
  | OutOfFuel => False
  end.
Proof.
  intros H c g x Hgc Hno. subst c.
  destruct (shipped_G_valid t H) as (_ & _ & Hm4).
  pose proof (shipped_M1 t H) as Hp. pose proof (shipped_M3 t H) as H3.
  destruct (shipped_curve t) as [p a b n] eqn:Ec. cbn [cp] in *.
  exact (points_for_x_spec p Hp Hm4 H3 a b n g Hgc x Hno).
Qed.
