(* Proofs/ChainExamplesP.v — concrete histories evaluated on the model (vm_compute): the three histories on which
   the code used to violate C15 (kept as regression examples) and a non-vacuity example. *)
From Coq Require Import List NArith ZArith Bool Lia Arith.
From PV Require Import Base.Outcome Model.Chain Spec.ChainSpec.
Import ListNotations.
Local Open Scope N_scope.

Definition H (h p : N) := mkHeader h p 1%Z.

(* 1. 7<-9, 6<-7 wait for 9; then 8<-9 and 9<-anchor arrive together and 8 is popped first *)
Definition regress1 : list event :=
  [Deliver [H 7 9; H 6 7] [] []; Deliver [H 8 9; H 9 0] [8] []].
(* 2. the header at the lock point is delivered again, then the chain grows *)
Definition regress2 : list event :=
  [Deliver [H 1 0; H 2 1; H 3 2] [] []; Lock 2 [] []; Deliver [H 2 1] [] []; Deliver [H 4 3] [] []].
(* 3. two equally heavy chains, lock, and a preference for the other one *)
Definition regress3 : list event :=
  [Deliver [H 1 0; H 2 1] [] []; Deliver [H 3 2] [] []; Deliver [H 11 2] [] []; Lock 1 [] [11]].
(* an orphan subtree adopted later, a fork, a lock and a later extension *)
Definition clean_example : list event :=
  [Deliver [H 7 9; H 6 7] [6] []; Deliver [H 9 0] [] []; Deliver [H 8 9] [] [8]; Lock 1 [6; 7] [];
   Deliver [H 13 6; H 12 8] [12; 13] []].

Definition rank_of (h : N) : nat :=
  N.to_nat (match h with 0 => 0 | 1 => 1 | 2 => 2 | 3 => 3 | 4 => 4 | 11 => 3 | 9 => 1 | 7 => 2 | 8 => 2 | 6 => 3
                       | 13 => 4 | 12 => 3 | _ => 0 end).

Ltac wf_tac :=
  split; [exists rank_of; intros x Hx; cbn in Hx;
          repeat (destruct Hx as [<-|Hx]; [vm_compute; lia|]); destruct Hx|];
  split; [intros x y Hx Hy; cbn in Hx, Hy;
          repeat (destruct Hx as [<-|Hx]; [repeat (destruct Hy as [<-|Hy]; [first [reflexivity|intros E; vm_compute in E; discriminate]|]); destruct Hy|]);
          destruct Hx|];
  intros x Hx; cbn in Hx;
  repeat (destruct Hx as [<-|Hx]; [reflexivity|]); destruct Hx.

Lemma regress1_ok : wf_headers (all_headers regress1) /\
  exists tr, run 0 regress1 = (tr, Done) /\ map s_chain tr = [[]; [9; 7; 6]].
Proof. split; [wf_tac|]. eexists. split; vm_compute; reflexivity. Qed.
Lemma regress2_ok : wf_headers (all_headers regress2) /\
  exists tr, run 0 regress2 = (tr, Done) /\ map s_chain tr = [[1; 2; 3]; [1; 2; 3]; [1; 2; 3]; [1; 2; 3; 4]].
Proof. split; [wf_tac|]. eexists. split; vm_compute; reflexivity. Qed.
Lemma regress3_ok : wf_headers (all_headers regress3) /\
  exists tr, run 0 regress3 = (tr, Done) /\ map s_chain tr = [[1; 2]; [1; 2; 3]; [1; 2; 3]; [1; 2; 3]].
Proof. split; [wf_tac|]. eexists. split; vm_compute; reflexivity. Qed.
Lemma clean_example_ok : wf_headers (all_headers clean_example) /\
  exists tr, run 0 clean_example = (tr, Done) /\
    map s_chain tr = [[]; [9; 7; 6]; [9; 7; 6]; [9; 7; 6]; [9; 7; 6; 13]].
Proof. split; [wf_tac|]. eexists. split; vm_compute; reflexivity. Qed.

(* a BlockChain anchored at the checkpoint block 2 (hash given to the constructor only); peers deliver the
   checkpoint header itself, its parent's header, and its descendants, in overlapping batches *)
Definition checkpoint_example : list event :=
  [Deliver [H 2 1; H 3 2] [3; 2] []; Deliver [H 1 0; H 2 1; H 4 3; H 11 2] [2; 11; 1; 4] []; Deliver [H 2 1] [] []].
Lemma checkpoint_example_ok : wf_headers (all_headers checkpoint_example) /\
  exists tr, run 2 checkpoint_example = (tr, Done) /\ map s_chain tr = [[3]; [3; 4]; [3; 4]].
Proof. split; [wf_tac|]. eexists. split; vm_compute; reflexivity. Qed.

(* preload_locked_blocks [1<-0; 2<-1], then the block at the lock point, a preloaded block and new blocks arrive *)
Definition preload_example_pre : list header := [H 1 0; H 2 1].
Definition preload_example : list event :=
  [Deliver [H 2 1; H 3 2] [3; 2] []; Deliver [H 1 0; H 4 3] [] []; Lock 3 [] []; Deliver [H 3 2] [] []].
Lemma preload_example_ok : wf_headers (preload_example_pre ++ all_headers preload_example) /\
  chain_headers 0 preload_example_pre /\
  exists tr, run_pre 0 preload_example_pre preload_example = (tr, Done) /\
    map s_chain tr = [[1; 2; 3]; [1; 2; 3; 4]; [1; 2; 3; 4]; [1; 2; 3; 4]] /\ map s_locked tr = [2; 2; 3; 3]%nat.
Proof. split; [wf_tac|]. split; [cbn; auto|]. eexists. split; [|split]; vm_compute; reflexivity. Qed.
