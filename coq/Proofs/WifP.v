(* Proofs/WifP.v — lemmas about Model/Wif.v (C10). *)
From PV Require Import Base.Bytes Base.Outcome Model.Sec Model.Wif Proofs.SecP Gen.GenWifPrefixes Gen.GenCurveC10.
From Coq Require Import ZifyBool ZifyNat ZifyN.
Local Open Scope Z_scope.

Lemma startswith_app pre d : bytes_startswith (pre ++ d) pre = true.
Proof. induction pre as [|c pre IH]; [destruct d; reflexivity|]. cbn [app bytes_startswith]. now rewrite byte_eqb_refl. Qed.

Lemma startswith_split d pre : bytes_startswith d pre = true -> d = pre ++ drop (length pre) d.
Proof.
  revert d; induction pre as [|c pre IH]; intros d H; [reflexivity|].
  destruct d as [|e d]; [discriminate|]. cbn [bytes_startswith] in H.
  apply andb_true_iff in H. destruct H as [H1 H2]. apply byte_eqb_eq in H1. subst e.
  cbn [app length drop skipn]. f_equal. apply IH. exact H2.
Qed.

Lemma wif_payload_spec prefix se c : 0 <= se < 2 ^ 256 ->
  wif_payload prefix se c = Ret (prefix ++ be_encode 32 (Z.to_N se) ++ (if c then [x01] else [])).
Proof.
  intros H. unfold wif_payload, wif_blob. rewrite to_bytes_32_ok by assumption. cbn [bind].
  destruct c; [reflexivity|]. rewrite app_nil_r. reflexivity.
Qed.

(* what the parser does with an encoder output, any prefix, both flags, any 256-bit exponent *)
Lemma wif_payload_parse prefix order se c :
  0 <= se < 2 ^ 256 ->
  exists pl, wif_payload prefix se c = Ret pl /\
    parse_wif_payload (Some prefix) order (Some pl) =
      if (1 <=? se) && (se <? order) then Some (se, c) else None.
Proof.
  intros Hse. rewrite wif_payload_spec by lia. eexists; split; [reflexivity|].
  unfold parse_wif_payload. rewrite startswith_app. cbn [negb].
  assert (Hdrop : forall x : bytes, drop (length prefix) (prefix ++ x) = x)
    by (intros x; unfold drop; apply skipn_app_exact).
  rewrite !Hdrop.
  set (xs := be_encode 32 (Z.to_N se)).
  assert (Lx : length xs = 32%nat) by apply be_encode_length.
  assert (Hkey : match key_private order se with Ret e => Some (e, c) | _ => None end
                 = if (1 <=? se) && (se <? order) then Some (se, c) else None).
  { unfold key_private. destruct (se <? 1) eqn:E1, (order <=? se) eqn:E2, (1 <=? se) eqn:E3, (se <? order) eqn:E4;
      try lia; reflexivity. }
  destruct c.
  - set (d1 := xs ++ [x01]).
    assert (L1 : length d1 = 33%nat) by (unfold d1; rewrite app_length, Lx; reflexivity).
    assert (D1 : drop (length d1 - 1) d1 = [x01]).
    { rewrite L1. unfold d1, drop. change (33 - 1)%nat with 32%nat. rewrite <- Lx. apply skipn_app_exact. }
    assert (T1 : take (length d1 - 1) d1 = xs).
    { rewrite L1. unfold d1, take. change (33 - 1)%nat with 32%nat. rewrite <- Lx. apply firstn_app_exact. }
    rewrite D1, T1, L1. cbn [Nat.ltb Nat.leb Nat.eqb negb orb bytes_eqb andb]. rewrite byte_eqb_refl.
    cbn [negb andb]. unfold xs. rewrite from_to_bytes_32 by lia. exact Hkey.
  - rewrite app_nil_r, Lx. cbn [Nat.ltb Nat.leb Nat.eqb negb].
    unfold xs. rewrite from_to_bytes_32 by lia. exact Hkey.
Qed.

Lemma wif_payload_roundtrip prefix order se c :
  1 <= se < order -> order <= 2 ^ 256 ->
  exists pl, wif_payload prefix se c = Ret pl /\
    parse_wif_payload (Some prefix) order (Some pl) = Some (se, c).
Proof.
  intros Hse Ho. destruct (wif_payload_parse prefix order se c ltac:(lia)) as (pl & E1 & E2).
  exists pl. split; [exact E1|]. rewrite E2.
  destruct (1 <=? se) eqn:A; [|lia]. destruct (se <? order) eqn:B; [|lia]. reflexivity.
Qed.

Lemma wif_payload_refuses_out_of_range prefix order se c :
  0 <= se < 2 ^ 256 -> ~ (1 <= se < order) ->
  exists pl, wif_payload prefix se c = Ret pl /\
    parse_wif_payload (Some prefix) order (Some pl) = None.
Proof.
  intros Hse Hout. destruct (wif_payload_parse prefix order se c Hse) as (pl & E1 & E2).
  exists pl. split; [exact E1|]. rewrite E2.
  destruct (1 <=? se) eqn:A; [|reflexivity]. destruct (se <? order) eqn:B; [lia|reflexivity].
Qed.

(* strictness: what parses is exactly an encoder output for an in-range exponent *)
Lemma wif_payload_strict prefix order d se c :
  parse_wif_payload (Some prefix) order (Some d) = Some (se, c) ->
  1 <= se < order /\ wif_payload prefix se c = Ret d.
Proof.
  unfold parse_wif_payload.
  destruct (bytes_startswith d prefix) eqn:Es; [|discriminate]. cbn [negb].
  pose proof (startswith_split d prefix Es) as Ed.
  set (d1 := drop (length prefix) d) in *.
  destruct (32 <? length d1)%nat eqn:Ec.
  - destruct (length d1 =? 33)%nat eqn:E33; [|discriminate]. cbn [negb orb].
    destruct (bytes_eqb (drop (length d1 - 1) d1) [x01]) eqn:E1; [|discriminate]. cbn [negb].
    apply Nat.eqb_eq in E33. apply bytes_eqb_eq in E1.
    set (d2 := take (length d1 - 1) d1) in *.
    assert (L2 : length d2 = 32%nat) by (unfold d2, take; rewrite firstn_length; lia).
    assert (E : d1 = d2 ++ [x01]) by (rewrite <- E1; unfold d2, take, drop; symmetry; apply firstn_skipn).
    destruct (key_private order (from_bytes_32 d2)) as [se'| |] eqn:Ek; try discriminate.
    intros H; injection H as <- <-.
    unfold key_private in Ek.
    destruct ((from_bytes_32 d2 <? 1) || (order <=? from_bytes_32 d2)) eqn:Er; [discriminate|].
    injection Ek as <-. split; [lia|].
    unfold wif_payload, wif_blob. rewrite to_from_bytes_32 by assumption. cbn [bind].
    rewrite <- E, <- Ed. reflexivity.
  - destruct (length d1 =? 32)%nat eqn:E32; [|discriminate]. cbn [negb].
    apply Nat.eqb_eq in E32.
    destruct (key_private order (from_bytes_32 d1)) as [se'| |] eqn:Ek; try discriminate.
    intros H; injection H as <- <-.
    unfold key_private in Ek.
    destruct ((from_bytes_32 d1 <? 1) || (order <=? from_bytes_32 d1)) eqn:Er; [discriminate|].
    injection Ek as <-. split; [lia|].
    unfold wif_payload, wif_blob. rewrite to_from_bytes_32 by assumption. cbn [bind].
    rewrite <- Ed. reflexivity.
Qed.

Section Text.
Variable text : Type.
Variable b2a_hashed : bytes -> text.
Variable a2b_hashed : text -> option bytes.
Hypothesis b58check_roundtrip : forall d, a2b_hashed (b2a_hashed d) = Some d.

Lemma wif_text_roundtrip prefix order se c :
  1 <= se < order -> order <= 2 ^ 256 ->
  exists w, key_wif text b2a_hashed prefix se c = Ret w /\
    parse_wif text a2b_hashed (Some prefix) order w = Some (se, c).
Proof.
  intros Hse Ho. destruct (wif_payload_roundtrip prefix order se c Hse Ho) as (pl & E1 & E2).
  unfold key_wif, parse_wif. rewrite E1. cbn [bind]. eexists; split; [reflexivity|].
  rewrite b58check_roundtrip. exact E2.
Qed.

(* every network of the regenerated table, with the regenerated group order *)
Lemma wif_table_roundtrip sym prefix se c :
  In (sym, prefix) wif_prefixes -> 1 <= se < k1_n ->
  exists w, key_wif text b2a_hashed prefix se c = Ret w /\
    parse_wif text a2b_hashed (Some prefix) k1_n w = Some (se, c).
Proof.
  intros _ Hse. apply wif_text_roundtrip; [assumption|]. pose proof k1_n_range. lia.
Qed.
End Text.

(* a parsed WIF never yields an out-of-range exponent, whatever the text layer returns *)
Lemma parse_wif_range prefix order data se c :
  parse_wif_payload prefix order data = Some (se, c) -> 1 <= se < order.
Proof.
  destruct prefix as [pre|], data as [d|]; try discriminate.
  intros H. apply (wif_payload_strict _ _ _ _ _ H).
Qed.

(* facts about the regenerated table: non-empty, every prefix non-empty, and no prefix ends the
   32-byte/33-byte distinction (a prefix is never itself mistaken for key material: lengths differ) *)
Lemma wif_table_facts :
  wif_prefixes <> [] /\ forallb (fun e => negb (Nat.eqb (length (snd e)) 0)) wif_prefixes = true.
Proof. split; [discriminate|vm_compute; reflexivity]. Qed.

Lemma wif_btc_example : (exists sym, In (sym, [x80]) wif_prefixes) /\ 1 <= 1 < k1_n.
Proof.
  split; [|pose proof k1_n_range; lia].
  destruct (find (fun e => bytes_eqb (snd e) [x80]) wif_prefixes) as [[sym pre]|] eqn:E; [|discriminate].
  apply find_some in E. destruct E as [Hin Heq]. cbn [snd] in Heq. apply bytes_eqb_eq in Heq. subst pre.
  exists sym. exact Hin.
Qed.
