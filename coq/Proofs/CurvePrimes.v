(* Proofs/CurvePrimes.v — premises M1/M2 of DESIGN.md section 3 PROVED for the shipped 256-bit curves: the field primes and group
   orders of secp256k1 and secp256r1 are prime.  Certificates (Pocklington chains; the factorisations were found with sympy and are
   untrusted: the kernel re-checks every step through Proofs/Pocklington.v) are the literals below.  This file mentions no
   generated table; Proofs/CurvePrimesEc.v and Proofs/CurvePrimesC10.v tie the literals to the constants regenerated from
   pycoin/ecdsa/secp256k1.py / secp256r1.py by `exact` (a changed curve parameter in /repo breaks those lemmas). *)
From Coq Require Import ZArith Znumtheory List.
From PV Require Import Proofs.Pocklington.
Import ListNotations.
Local Open Scope Z_scope.

Definition chain_k1_p : list (Z * list item) :=
  [ (107590001, [(53, 1, 2); (29, 1, 2); (7, 1, 2)]);
    (255515944373312847190720520512484175977, [(107590001, 1, 2); (7240687, 1, 2); (96557, 1, 2)]);
    (205115282021455665897114700593932402728804164701536103180137503955397371, [(255515944373312847190720520512484175977, 1, 2)]);
    (115792089237316195423570985008687907853269984665640564039457584007908834671663, [(205115282021455665897114700593932402728804164701536103180137503955397371, 1, 2)]) ].

Definition chain_k1_n : list (Z * list item) :=
  [ (297159362677, [(1627771, 1, 2)]);
    (545358713, [(28181, 1, 2)]);
    (29047611873442575647497758179, [(297159362677, 1, 2); (545358713, 1, 2)]);
    (341948486974166000522343609283189, [(29047611873442575647497758179, 1, 2)]);
    (44706919, [(9349, 1, 2)]);
    (174723607534414371449, [(44706919, 1, 2); (120233, 1, 2)]);
    (115792089237316195423570985008687907852837564279074904382605163141518161494337, [(341948486974166000522343609283189, 1, 2); (174723607534414371449, 1, 2)]) ].

Definition chain_r1_p : list (Z * list item) :=
  [ (46076956964474543, [(704251, 1, 2); (78283, 1, 2)]);
    (66417393611, [(3677, 1, 2); (197, 1, 2)]);
    (11290956913871, [(66417393611, 1, 2)]);
    (774023187263532362759620327192479577272145303, [(46076956964474543, 1, 2); (11290956913871, 1, 2)]);
    (835945042244614951780389953367877943453916927241, [(774023187263532362759620327192479577272145303, 1, 2)]);
    (115792089210356248762697446949407573530086143415290314195533631308867097853951, [(835945042244614951780389953367877943453916927241, 1, 2)]) ].

Definition chain_r1_n : list (Z * list item) :=
  [ (191039911, [(155317, 1, 2)]);
    (208150935158385979, [(191039911, 1, 2); (3023, 1, 2)]);
    (2624747550333869278416773953, [(208150935158385979, 1, 2)]);
    (1002328039319, [(3969899, 1, 2)]);
    (115792089210356248762697446949407573529996955224135760342422259061068512044369, [(2624747550333869278416773953, 1, 2); (1002328039319, 1, 2)]) ].

Definition lit_k1_p : Z := 115792089237316195423570985008687907853269984665640564039457584007908834671663.

Lemma chain_k1_p_ok : check_chain [] chain_k1_p = true.
Proof. vm_compute. reflexivity. Qed.

Theorem prime_lit_k1_p : prime lit_k1_p.
Proof. apply (chain_last_prime chain_k1_p); [exact chain_k1_p_ok|]. vm_compute. repeat (first [left; reflexivity | right]). Qed.

Definition lit_k1_n : Z := 115792089237316195423570985008687907852837564279074904382605163141518161494337.

Lemma chain_k1_n_ok : check_chain [] chain_k1_n = true.
Proof. vm_compute. reflexivity. Qed.

Theorem prime_lit_k1_n : prime lit_k1_n.
Proof. apply (chain_last_prime chain_k1_n); [exact chain_k1_n_ok|]. vm_compute. repeat (first [left; reflexivity | right]). Qed.

Definition lit_r1_p : Z := 115792089210356248762697446949407573530086143415290314195533631308867097853951.

Lemma chain_r1_p_ok : check_chain [] chain_r1_p = true.
Proof. vm_compute. reflexivity. Qed.

Theorem prime_lit_r1_p : prime lit_r1_p.
Proof. apply (chain_last_prime chain_r1_p); [exact chain_r1_p_ok|]. vm_compute. repeat (first [left; reflexivity | right]). Qed.

Definition lit_r1_n : Z := 115792089210356248762697446949407573529996955224135760342422259061068512044369.

Lemma chain_r1_n_ok : check_chain [] chain_r1_n = true.
Proof. vm_compute. reflexivity. Qed.

Theorem prime_lit_r1_n : prime lit_r1_n.
Proof. apply (chain_last_prime chain_r1_n); [exact chain_r1_n_ok|]. vm_compute. repeat (first [left; reflexivity | right]). Qed.

Definition chain_bls_p : list (Z * list item) :=
  [ (13090036741, [(421987, 1, 2)]);
    (3819663927398918131021, [(13090036741, 1, 2); (755057, 1, 2)]);
    (1125266252156850182658904441386709967, [(3819663927398918131021, 1, 2)]);
    (15778400344354997994418419698270088123916926905054652752758194827714659, [(1125266252156850182658904441386709967, 1, 2)]);
    (4002409555221667393417789825735904156556882819939007885332058136124031650490837864442687629129015664037894272559787, [(15778400344354997994418419698270088123916926905054652752758194827714659, 1, 2)]) ].

Definition lit_bls_p : Z := 4002409555221667393417789825735904156556882819939007885332058136124031650490837864442687629129015664037894272559787.

Lemma chain_bls_p_ok : check_chain [] chain_bls_p = true.
Proof. vm_compute. reflexivity. Qed.

Theorem prime_lit_bls_p : prime lit_bls_p.
Proof. apply (chain_last_prime chain_bls_p); [exact chain_bls_p_ok|]. vm_compute. repeat (first [left; reflexivity | right]). Qed.

Definition chain_bls_n : list (Z * list item) :=
  [ (63690073, [(2653753, 1, 2)]);
    (254760293, [(63690073, 1, 2)]);
    (52437899, [(609743, 1, 2)]);
    (52435875175126190479447740508185965837690552500527637822603658699938581184513, [(254760293, 2, 2); (52437899, 1, 2); (2529403, 1, 2); (2508409, 1, 2); (906349, 2, 2)]) ].

Definition lit_bls_n : Z := 52435875175126190479447740508185965837690552500527637822603658699938581184513.

Lemma chain_bls_n_ok : check_chain [] chain_bls_n = true.
Proof. vm_compute. reflexivity. Qed.

Theorem prime_lit_bls_n : prime lit_bls_n.
Proof. apply (chain_last_prime chain_bls_n); [exact chain_bls_n_ok|]. vm_compute. repeat (first [left; reflexivity | right]). Qed.

