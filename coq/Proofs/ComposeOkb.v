(* Proofs/ComposeOkb.v — composition C16 x (C07, C14): the concrete transaction / block / header codecs in the shape
   Model/Streamer.v expects, and their restrictions to well-formed values.

   Model/Streamer.v (C16) takes the codecs T (Tx), B (Block), z (block header) as Section variables and
   Proofs/StreamerP.v needs the frame law FOR EVERY VALUE of the value type:
       forall v rest, parse_T (stream_T v ++ rest) = Ret (v, rest).
   The real codecs satisfy it for well-formed values only (a transaction with an out-of-range field does not even
   serialise).  So C16's section is instantiated twice (Proofs/ComposeStreamer.v):
     - with the REAL codecs on the full types  tx / block tx / header              (m_parse_T, m_stream_T, ...)
     - with their RESTRICTIONS to the subset types {t | tx_okb t = true} ...       (parse_TS, stream_TS, ...)
       for which the frame law holds for every value, so C16's theorems apply;
   and the result is carried from the second to the first along the inclusion of the subset types.
   The subset predicates are boolean (decision procedures of tx_ok / wf_header / block_ok, proved equivalent to the
   Props below), so that equality of the packed proofs is provable (UIP on bool) and no axiom is needed. *)
From PV Require Import Base.Bytes Base.Outcome Base.Varint Model.TxWire Spec.TxWireSpec Proofs.TxWireP.
From PV Require Import Model.Merkle Spec.MerkleSpec Model.Block Proofs.BlockP Proofs.ComposeBlockTx.
From Coq Require Import ZifyBool ZifyNat ZifyN Eqdep_dec.
Local Open Scope outcome_scope.

(* ---- restriction of a parser to a decidable subset of its values ---------------------------------------------------- *)
Section Restrict.
Context {A : Type} (okb : A -> bool).
Definition sub : Type := {a : A | okb a = true}.

Definition check_aux (a : A) (b : bool) : okb a = b -> option sub :=
  match b as b0 return okb a = b0 -> option sub with
  | true => fun pf => Some (exist _ a pf)
  | false => fun _ => None
  end.
Definition check (a : A) : option sub := check_aux a (okb a) eq_refl.

Lemma bool_uip (x y : bool) (p q : x = y) : p = q.
Proof. apply UIP_dec. apply Bool.bool_dec. Qed.

Lemma check_aux_ok a b (e : okb a = b) (pf : okb a = true) : check_aux a b e = Some (exist _ a pf).
Proof. destruct b; cbn [check_aux]; [|congruence]. f_equal. f_equal. apply bool_uip. Qed.
Lemma check_ok a (pf : okb a = true) : check a = Some (exist _ a pf).
Proof. apply check_aux_ok. Qed.
Lemma check_aux_inv a b (e : okb a = b) v : check_aux a b e = Some v -> proj1_sig v = a.
Proof. destruct b; cbn [check_aux]; intros H; [injection H as <-; reflexivity | discriminate]. Qed.
Lemma check_inv a v : check a = Some v -> proj1_sig v = a.
Proof. apply check_aux_inv. Qed.

Lemma sub_eq (v w : sub) : proj1_sig v = proj1_sig w -> v = w.
Proof. destruct v as [a p], w as [b q]. cbn [proj1_sig]. intros ->. f_equal. apply bool_uip. Qed.

(* the parser, refusing (with a marker exception) a result outside the subset *)
Definition restrict (p : parser A) : parser sub := fun s =>
  match p s with
  | Ret (a, r) => match check a with Some v => Ret (v, r) | None => Raise E_OTHER end
  | Raise e => Raise e
  | OutOfFuel => OutOfFuel
  end.

(* it only ever returns what the unrestricted parser returns *)
Lemma restrict_sound p s v r : restrict p s = Ret (v, r) -> p s = Ret (proj1_sig v, r).
Proof.
  unfold restrict. destruct (p s) as [[a r']| |]; try discriminate.
  destruct (check a) as [w|] eqn:C; [|discriminate]. intros H. injection H as <- <-.
  now rewrite (check_inv _ _ C).
Qed.
Lemma restrict_complete p s (v : sub) r : p s = Ret (proj1_sig v, r) -> restrict p s = Ret (v, r).
Proof. unfold restrict. intros ->. destruct v as [a pf]. cbn [proj1_sig]. now rewrite (check_ok a pf). Qed.

Lemma restrict_frame p (stream : A -> bytes) :
  (forall a rest, okb a = true -> p (stream a ++ rest) = Ret (a, rest)) ->
  forall (v : sub) rest, restrict p (stream (proj1_sig v) ++ rest) = Ret (v, rest).
Proof. intros H v rest. apply restrict_complete. apply H. exact (proj2_sig v). Qed.
End Restrict.

Lemma forallb_Forall {A} (f : A -> bool) (P : A -> Prop) l :
  (forall x, f x = true <-> P x) -> (forallb f l = true <-> Forall P l).
Proof.
  intros H. rewrite forallb_forall, Forall_forall. split; intros G x Hx; apply H, G, Hx.
Qed.

(* ---- transactions ---------------------------------------------------------------------------------------------------- *)
Definition u32b (z : Z) : bool := ((0 <=? z) && (z <? 2 ^ 32))%Z.
Definition u64b (z : Z) : bool := ((0 <=? z) && (z <? 2 ^ 64))%Z.
Definition len63b (l : bytes) : bool := (zlen l <? 2 ^ 63)%Z.
Definition txin_wfb (i : txin) : bool :=
  (length (ti_hash i) =? 32)%nat && u32b (ti_index i) && u32b (ti_sequence i) && len63b (ti_script i)
  && (zlen (ti_witness i) <? 2 ^ 64)%Z && forallb len63b (ti_witness i).
Definition txout_wfb (o : txout) : bool := u64b (to_value o) && len63b (to_script o).
Definition tx_wfb (t : tx) : bool :=
  u32b (tx_version t) && u32b (tx_lock_time t) && forallb txin_wfb (tx_ins t) && forallb txout_wfb (tx_outs t)
  && (zlen (tx_ins t) <? 2 ^ 64)%Z && (zlen (tx_outs t) <? 2 ^ 64)%Z.
Definition tx_okb (t : tx) : bool := tx_wfb t && match tx_ins t with [] => false | _ => true end.

Lemma u32b_iff z : u32b z = true <-> u32 z.
Proof. unfold u32b, u32. lia. Qed.
Lemma u64b_iff z : u64b z = true <-> u64 z.
Proof. unfold u64b, u64. lia. Qed.
Lemma len63b_iff l : len63b l = true <-> len63 l.
Proof. unfold len63b, len63. lia. Qed.

Lemma txin_wfb_iff i : txin_wfb i = true <-> txin_wf i.
Proof.
  unfold txin_wfb, txin_wf, len64. rewrite !andb_true_iff, !u32b_iff, len63b_iff.
  rewrite (forallb_Forall len63b len63 _ len63b_iff). rewrite Nat.eqb_eq, Z.ltb_lt. tauto.
Qed.
Lemma txout_wfb_iff o : txout_wfb o = true <-> txout_wf o.
Proof. unfold txout_wfb, txout_wf. rewrite andb_true_iff, u64b_iff, len63b_iff. tauto. Qed.
Lemma tx_wfb_iff t : tx_wfb t = true <-> tx_wf t.
Proof.
  unfold tx_wfb, tx_wf, len64. rewrite !andb_true_iff, !u32b_iff.
  rewrite (forallb_Forall txin_wfb txin_wf _ txin_wfb_iff), (forallb_Forall txout_wfb txout_wf _ txout_wfb_iff).
  rewrite !Z.ltb_lt. tauto.
Qed.
Lemma tx_okb_iff t : tx_okb t = true <-> tx_ok t.
Proof.
  unfold tx_okb, tx_ok. rewrite andb_true_iff, tx_wfb_iff.
  destruct (tx_ins t); split; intros [H1 H2]; split; auto; try discriminate; congruence.
Qed.

(* ---- headers ------------------------------------------------------------------------------------------------------------ *)
Definition wf_headerb (h : header) : bool :=
  (h_version h <? 2 ^ 32)%N && (length (h_prev h) =? 32)%nat && (length (h_merkle_root h) =? 32)%nat &&
  (h_timestamp h <? 2 ^ 32)%N && (h_difficulty h <? 2 ^ 32)%N && (h_nonce h <? 2 ^ 32)%N.
Lemma wf_headerb_iff h : wf_headerb h = true <-> wf_header h.
Proof. unfold wf_headerb, wf_header. rewrite !andb_true_iff, !N.ltb_lt, !Nat.eqb_eq. tauto. Qed.

(* ---- the concrete codecs, in the shape of Model/Streamer.v's section variables ------------------------------------------ *)
(* "T": (Tx.parse, tx.stream)    "z": (Block.parse_as_header, blockheader.stream_header)
   "B": (Block.parse, block.stream)  — Block.parse with its defaults include_transactions=True, check_merkle_hash=True *)
Definition m_parse_T : parser tx := c07_parse.
Definition m_stream_T : tx -> bytes := c07_stream.
Definition m_parse_z : parser header := parse_header.
Definition m_stream_z (h : header) : bytes := ret_or_nil (stream_header h).

Lemma m_stream_z_ok h : wf_header h -> stream_header h = Ret (m_stream_z h) /\ m_stream_z h = header_bytes h.
Proof. intros W. unfold m_stream_z. rewrite (stream_header_wf h W). cbn [ret_or_nil]. auto. Qed.

Lemma m_frame_T t rest : tx_ok t -> m_parse_T (m_stream_T t ++ rest) = Ret (t, rest).
Proof. intros H. exact (c07_frame t H rest). Qed.
Lemma m_frame_z h rest : wf_header h -> m_parse_z (m_stream_z h ++ rest) = Ret (h, rest).
Proof.
  intros W. destruct (header_stream_parse h W) as (s & S1 & _ & S3). unfold m_stream_z. rewrite S1. cbn [ret_or_nil].
  apply S3.
Qed.

Section BlockCodec.
Variable Htx : bytes -> bytes.        (* hash of the Tx class *)
Variable dsha256 : bytes -> bytes.    (* Block's double_sha256 *)

Definition m_parse_B : parser (block tx) := block_parse tx c07_parse (c07_txhash Htx) dsha256 true true.
Definition m_stream_B (b : block tx) : bytes := ret_or_nil (block_stream tx c07_stream b).

(* a block that Block.stream / Block.parse carry faithfully: well-formed header, at least one transaction (a block
   without transactions is written as its 80 header bytes only and read back with a count), well-formed transactions
   with inputs, and the header's merkle root is the root of the transaction ids (Block.parse checks it) *)
Definition block_ok (b : block tx) : Prop :=
  wf_header (b_header tx b) /\ b_txs tx b <> [] /\ (N.of_nat (length (b_txs tx b)) < 2 ^ 64)%N /\
  Forall tx_ok (b_txs tx b) /\
  h_merkle_root (b_header tx b) = merkle_root dsha256 (map (c07_txhash Htx) (b_txs tx b)).
Definition block_okb (b : block tx) : bool :=
  wf_headerb (b_header tx b) && match b_txs tx b with [] => false | _ => true end &&
  (N.of_nat (length (b_txs tx b)) <? 2 ^ 64)%N && forallb tx_okb (b_txs tx b) &&
  bytes_eqb (h_merkle_root (b_header tx b)) (merkle_root dsha256 (map (c07_txhash Htx) (b_txs tx b))).
Lemma block_okb_iff b : block_okb b = true <-> block_ok b.
Proof.
  unfold block_okb, block_ok. rewrite !andb_true_iff, wf_headerb_iff, N.ltb_lt, bytes_eqb_eq.
  rewrite (forallb_Forall tx_okb tx_ok _ tx_okb_iff).
  assert (E : forall l : list tx, match l with [] => false | _ => true end = true <-> l <> []).
  { intros [|x l]; split; intros H; try discriminate; congruence. }
  rewrite E. tauto.
Qed.

Lemma m_stream_B_ok b : block_ok b -> block_stream tx c07_stream b = Ret (m_stream_B b) /\
  m_stream_B b = header_bytes (b_header tx b) ++ compact_size (zlen (b_txs tx b)) ++ concat (map c07_stream (b_txs tx b)).
Proof.
  intros (W & Hne & Hlen & Hok & _). destruct b as [h ts]. cbn [b_header b_txs] in *.
  pose proof (c_block_stream_bytes0 h ts W Hne Hlen) as S. unfold m_stream_B. rewrite S. cbn [ret_or_nil]. auto.
Qed.

Lemma m_frame_B b rest : block_ok b -> m_parse_B (m_stream_B b ++ rest) = Ret (b, rest).
Proof.
  intros (W & Hne & Hlen & Hok & Hroot). destruct b as [h ts]. cbn [b_header b_txs] in *.
  destruct (c_block_roundtrip Htx dsha256 h ts W Hne Hlen Hok Hroot) as (s & S1 & S2).
  unfold m_stream_B. rewrite S1. cbn [ret_or_nil]. apply S2.
Qed.

(* a header-only Block (what "z" returns) given to the "B" packer is written as its 80 bytes: covered by m_frame_z *)

(* ---- the restricted codecs: the frame law for EVERY value -------------------------------------------------------------- *)
Definition TxS : Type := sub tx_okb.
Definition HdrS : Type := sub wf_headerb.
Definition BlockS : Type := sub block_okb.
Definition parse_TS : parser TxS := restrict tx_okb m_parse_T.
Definition stream_TS (v : TxS) : bytes := m_stream_T (proj1_sig v).
Definition parse_zS : parser HdrS := restrict wf_headerb m_parse_z.
Definition stream_zS (v : HdrS) : bytes := m_stream_z (proj1_sig v).
Definition parse_BS : parser BlockS := restrict block_okb m_parse_B.
Definition stream_BS (v : BlockS) : bytes := m_stream_B (proj1_sig v).

Lemma block_okb_header b : block_okb b = true -> wf_headerb (b_header tx b) = true.
Proof. unfold block_okb. rewrite !andb_true_iff. tauto. Qed.
Definition header_ofS (b : BlockS) : HdrS := exist _ (b_header tx (proj1_sig b)) (block_okb_header _ (proj2_sig b)).

Lemma frame_TS : forall (v : TxS) rest, parse_TS (stream_TS v ++ rest) = Ret (v, rest).
Proof. apply (restrict_frame tx_okb m_parse_T m_stream_T). intros a rest H. apply m_frame_T. now apply tx_okb_iff. Qed.
Lemma frame_zS : forall (v : HdrS) rest, parse_zS (stream_zS v ++ rest) = Ret (v, rest).
Proof. apply (restrict_frame wf_headerb m_parse_z m_stream_z). intros a rest H. apply m_frame_z. now apply wf_headerb_iff. Qed.
Lemma frame_BS : forall (v : BlockS) rest, parse_BS (stream_BS v ++ rest) = Ret (v, rest).
Proof. apply (restrict_frame block_okb m_parse_B m_stream_B). intros a rest H. apply m_frame_B. now apply block_okb_iff. Qed.

(* totality of the real parsers (for C16's fuel theorem) *)
Lemma m_parse_T_total s : m_parse_T s <> OutOfFuel.
Proof. apply c07_total. Qed.
Lemma m_parse_z_total s : m_parse_z s <> OutOfFuel.
Proof. apply header_parse_total. Qed.
Lemma m_parse_B_total s : m_parse_B s <> OutOfFuel.
Proof. apply c_block_parse_total. Qed.
End BlockCodec.

(* ---- example values (non-vacuity of Props/C16compose.v) ------------------------------------------------------------------ *)
Local Open Scope Z_scope.
Definition ex_H (x : bytes) : bytes := firstn 32 (rev x ++ repeatb x00 32).
Definition ex_tx1 : tx :=
  mk_tx 1 [mk_txin (repeatb x33 32) 1 [x51] 4294967295 []] [mk_txout 5000000000 [x51; x52]] 0.
Definition ex_tx2 : tx :=
  mk_tx 2 [mk_txin (repeatb x11 32) 0 (repeatb x61 253) 4294967295 [];
           mk_txin (repeatb x22 32) 4294967295 [] 0 [[]; repeatb x77 3]]
          [mk_txout 9223372036854775808 [x51]; mk_txout 18446744073709551615 []] 4294967295.
Definition ex_hdr : header :=
  mkHeader 1 (repeatb x11 32) (merkle_root ex_H (map (c07_txhash ex_H) [ex_tx1; ex_tx2])) 5 6 7.
Definition ex_blk : block tx := mkBlock tx ex_hdr [ex_tx1; ex_tx2].
Lemma ex_tx1_ok : tx_ok ex_tx1. Proof. apply tx_okb_iff. vm_compute. reflexivity. Qed.
Lemma ex_tx2_ok : tx_ok ex_tx2. Proof. apply tx_okb_iff. vm_compute. reflexivity. Qed.
Lemma ex_hdr_ok : wf_header ex_hdr. Proof. apply wf_headerb_iff. vm_compute. reflexivity. Qed.
Lemma ex_blk_ok : block_ok ex_H ex_H ex_blk. Proof. apply block_okb_iff. vm_compute. reflexivity. Qed.
