(* Proofs/ShippedUncond.v — with M4 PROVED (Proofs/EcAssoc.v: associativity of chord-and-tangent addition for every
   non-singular curve over a prime field of odd characteristic) no mathematical premise is left:

   (1) generic: in the C02 theorems the hypothesis `M4 c` is replaced by the COMPUTABLE condition
         nonsingular c :  (4 a^3 + 27 b^2) mod p <> 0
       (M3 is replaced by nothing: it follows from M1), and "n * G = O" can be established by a checked certificate
       (`order_cert_kills`: Proofs/OrderCert.v) instead of being assumed.  `prime p` stays the hypothesis of the generic
       statements (it is decidable, and decided by certificate for the shipped curves).
   (2) the three shipped generators (Gen/GenCurves.v, regenerated from /repo): M1, M2, M3 (Proofs/ShippedOrder.v), M4
       (Proofs/EcAssoc.v) and n * G = O hold outright; the `_unconditional` statements below assume nothing.
   Still NOT proved: "n kills EVERY on-curve point" (cofactor 1: a point count; false for bls12_381_g1).  Statements about an
   arbitrary point P keep `order_kills c P` as a hypothesis on that point. *)
From Coq Require Import ZArith Lia Znumtheory Bool List.
From PV Require Import Base.Outcome Model.Curve Spec.Weierstrass Gen.GenCurves
  Proofs.CurveInvP Proofs.CurveAddP Proofs.CurveGroupP Proofs.CurveMulP Proofs.CurveSqrtP Proofs.CurveP
  Proofs.OrderCert Proofs.ShippedOrder Proofs.EcAssoc.
Import ListNotations.
Local Open Scope Z_scope.

(* ---- (1) generic ------------------------------------------------------------------------------------------------ *)
Definition nonsingular (c : curve) : Prop := (4 * ca c ^ 3 + 27 * cb c ^ 2) mod cp c <> 0.
Definition nonsingularb (c : curve) : bool := negb ((4 * ca c ^ 3 + 27 * cb c ^ 2) mod cp c =? 0).

Lemma nonsingularb_iff c : nonsingularb c = true <-> nonsingular c.
Proof. unfold nonsingularb, nonsingular. rewrite negb_true_iff, Z.eqb_neq. tauto. Qed.

Theorem M4_of_nonsingular c : M1 c -> cp c <> 2 -> nonsingular c -> M4 c.
Proof. exact (M4_holds_odd c). Qed.

Section Generic.
Variable c : curve.
Hypothesis Hp : M1 c.
Hypothesis Hp2 : cp c <> 2.
Hypothesis Hns : nonsingular c.
Let H4 : M4 c := M4_of_nonsingular c Hp Hp2 Hns.

Theorem add_assoc_nonsingular : forall P Q R, on_curve c P -> on_curve c Q -> on_curve c R ->
  same_element c (bind (add c P Q) (fun S => add c S R)) (bind (add c Q R) (fun S => add c P S)).
Proof. exact (add_assoc_model c Hp Hp2 H4). Qed.

Theorem multiply_correct_nonsingular : forall (P : pt) (e : Z), on_curve c P -> 0 < cn c -> order_kills c (red c P) ->
  exists R, multiply c P e = Ret R /\ on_curve c R /\ red c R = kP c e (red c P).
Proof. exact (multiply_correct c Hp Hp2 H4). Qed.

Theorem multiply_exact_nonsingular : forall (P : pt) (e : Z), on_curve c P -> 0 < cn c -> Z.odd (cn c) = true ->
  order_kills c (red c P) -> multiply c P e = Ret (kP c e (red c P)).
Proof. exact (multiply_exact c Hp Hp2 H4). Qed.

Theorem multiply_no_order_nonsingular : forall (P : pt) (e : Z), on_curve c P -> cn c = 0 -> 0 <= e ->
  exists R, multiply c P e = Ret R /\ on_curve c R /\ red c R = kP c e (red c P).
Proof. exact (multiply_no_order c Hp Hp2 H4). Qed.

Theorem fixed_base_exact_nonsingular : forall g : gen, gc g = c -> valid c (gG g) ->
  0 < cn c <= 2 ^ Z.of_nat (g_bits g) -> order_kills c (gG g) ->
  forall e : Z, gmul g e = Ret (kP c e (gG g)) /\ raw_mul g e = Ret (kP c e (gG g)).
Proof. exact (fixed_base_exact c Hp Hp2 H4). Qed.

(* "n * G = O" by certificate instead of by assumption: order_certb re-runs a double-and-add of n * G with hinted inverses *)
Theorem order_cert_kills : forall (G : pt) (hs : list Z),
  validb c G = true -> order_certb c G (cn c) hs = true -> order_kills c G.
Proof.
  intros G hs HV HC.
  exact (order_cert_sound c Hp Hp2 H4 G (validb_sound c Hp Hp2 G HV) (cn c) hs HC).
Qed.
End Generic.

(* points_for_x on a curve of odd order: M3 and M4 are no longer hypotheses *)
Theorem points_for_x_odd_order_nonsingular c : M1 c -> cp c mod 4 = 3 -> nonsingular c ->
  Z.odd (cn c) = true -> (forall P, valid c P -> order_kills c P) ->
  forall (g : gen) (x : Z), gc g = c ->
  match points_for_x g x with
  | Ret (P0, P1) =>
      exists y0 y1, P0 = Some (x, y0) /\ P1 = Some (x, y1) /\ Z.even y0 = true /\ Z.odd y1 = true /\
        0 < y0 < cp c /\ 0 < y1 < cp c /\ y0 + y1 = cp c /\
        forall y, 0 <= y < cp c -> (on_curve c (Some (x, y)) <-> y = y0 \/ y = y1)
  | Raise _ => forall y, ~ on_curve c (Some (x, y))
  | OutOfFuel => False
  end.
Proof.
  intros Hp Hm4 Hns.
  assert (Hp2 : cp c <> 2) by (intros E; rewrite E in Hm4; discriminate).
  exact (points_for_x_odd_order c Hp Hm4 (M3_from_M1 c Hp) (M4_of_nonsingular c Hp Hp2 Hns)).
Qed.

(* ---- (2) the shipped generators: nothing assumed ------------------------------------------------------------------ *)
Theorem shipped_M4 t : In t shipped_curves -> M4 (shipped_curve t).
Proof. exact (M4_shipped t). Qed.

Theorem shipped_order_kills_unconditional t : In t shipped_curves -> order_kills (shipped_curve t) (shipped_G t).
Proof. intros H. exact (shipped_order_kills t H (M4_shipped t H)). Qed.

Theorem secp256k1_order_kills_unconditional :
  kP (shipped_curve secp256k1_row) secp256k1_n (shipped_G secp256k1_row) = None.
Proof. exact (shipped_order_kills_unconditional secp256k1_row (or_introl eq_refl)). Qed.

Theorem secp256r1_order_kills_unconditional :
  kP (shipped_curve secp256r1_row) secp256r1_n (shipped_G secp256r1_row) = None.
Proof. exact (shipped_order_kills_unconditional secp256r1_row (or_intror (or_introl eq_refl))). Qed.

Theorem bls12_381_g1_order_kills_unconditional :
  kP (shipped_curve bls12_381_g1_row) bls12_381_g1_n (shipped_G bls12_381_g1_row) = None.
Proof. exact (shipped_order_kills_unconditional bls12_381_g1_row (or_intror (or_intror (or_introl eq_refl)))). Qed.

Theorem shipped_all_premises t : In t shipped_curves ->
  let c := shipped_curve t in
  M1 c /\ prime (cn c) /\ M3 c /\ M4 c /\ order_kills c (shipped_G t).
Proof.
  intros H c. subst c.
  exact (conj (shipped_M1 t H) (conj (shipped_M2 t H) (conj (shipped_M3 t H)
          (conj (M4_shipped t H) (shipped_order_kills_unconditional t H))))).
Qed.

Theorem shipped_fixed_base_unconditional t : In t shipped_curves ->
  let c := shipped_curve t in
  forall blind e, gmul (shipped_gen t blind) e = Ret (kP c e (shipped_G t)) /\
                  raw_mul (shipped_gen t blind) e = Ret (kP c e (shipped_G t)).
Proof. intros H c. subst c. exact (shipped_fixed_base_M4only t H (M4_shipped t H)). Qed.

Theorem shipped_multiply_G_unconditional t : In t shipped_curves ->
  let c := shipped_curve t in
  forall e, multiply c (shipped_G t) e = Ret (kP c e (shipped_G t)).
Proof. intros H c. subst c. exact (shipped_multiply_G_M4only t H (M4_shipped t H)). Qed.

(* an arbitrary on-curve point killed by n: the only hypothesis is about the POINT (see the header: cofactor) *)
Theorem shipped_multiply_killed_point t : In t shipped_curves ->
  let c := shipped_curve t in
  forall P, on_curve c P -> order_kills c (red c P) ->
  forall e, multiply c P e = Ret (kP c e (red c P)).
Proof. intros H c. subst c. exact (shipped_multiply_M4only t H (M4_shipped t H)). Qed.

(* associativity of the model's add on the shipped curves, arbitrary (unreduced) on-curve operands *)
Theorem shipped_add_associative t : In t shipped_curves ->
  let c := shipped_curve t in
  forall P Q R : pt, on_curve c P -> on_curve c Q -> on_curve c R ->
  same_element c (bind (add c P Q) (fun S => add c S R)) (bind (add c Q R) (fun S => add c P S)).
Proof.
  intros H c. subst c.
  destruct (shipped_G_valid t H) as (_ & Hp2 & _).
  exact (add_assoc_model (shipped_curve t) (shipped_M1 t H) Hp2 (M4_shipped t H)).
Qed.
