(* Proofs/VMpyP.v — lemmas about the pycoin-side VM model (Model/VMpy.v), property C03:
   * the opcode -> handler map `hk` agrees with the tables regenerated from /repo
     (Gen/GenFlags.handler_table, Gen/GenOpcodes.opcode_list / data_opcodes);
   * every instruction advances pc, handlers never touch pc; fuel `length script` suffices
     (vmpy_fuel_sufficient, check_solution_fuel_sufficient: VOutOfFuel is never returned);
   * invariants of the conditional state: a step changes `cond` only through c_step, and in an unexecuted
     branch it changes nothing but pc, op_count and cond. *)
From Coq Require Import Lia ZifyBool ZifyNat ZifyN.
From Coq Require Strings.String.
From PV Require Import Base.Bytes Base.Outcome Gen.GenOpcodes Gen.GenFlags.
From PV Require Import Model.ScriptNum Model.Push Model.CondStack Model.Der Spec.VMTypes Model.VMpy.
From PV Require Import Proofs.ScriptNumP.

(* ---- get_opcode ----------------------------------------------------------------------------------- *)
Ltac break_if :=
  match goal with
  | |- context [if ?c then _ else _] => destruct c
  end.

Lemma get_opcode_advances s pc m o d pc' ok :
  btc_get_opcode s pc m = Ret (o, d, pc', ok) -> (pc < pc')%nat.
Proof.
  unfold btc_get_opcode, get_opcode.
  destruct (nth_error s pc); [|discriminate].
  destruct (const_by_opcode _ _). { intros H; inversion H; lia. }
  destruct (sized_by_opcode _ _).
  { repeat break_if; intros H; inversion H; lia. }
  destruct (var_by_opcode _ _) as [[w ms]|].
  { repeat break_if; intros H; inversion H; lia. }
  intros H; inversion H; lia.
Qed.

Lemma get_opcode_no_oof s pc m : btc_get_opcode s pc m <> OutOfFuel.
Proof.
  unfold btc_get_opcode, get_opcode.
  destruct (nth_error s pc); [|discriminate].
  destruct (const_by_opcode _ _); [discriminate|].
  destruct (sized_by_opcode _ _).
  { repeat break_if; discriminate. }
  destruct (var_by_opcode _ _) as [[w ms]|]; [|discriminate].
  repeat break_if; discriminate.
Qed.

Lemma get_opcode_in_range s pc m : (pc < length s)%nat -> exists r, btc_get_opcode s pc m = Ret r \/ btc_get_opcode s pc m = Raise E_SCRIPT.
Proof.
  intros Hpc. unfold btc_get_opcode, get_opcode.
  destruct (nth_error s pc) eqn:E; [|apply nth_error_None in E; lia].
  destruct (const_by_opcode _ _); [eexists; left; reflexivity|].
  destruct (sized_by_opcode _ _).
  { repeat break_if; eexists; (left; reflexivity) || (right; reflexivity). }
  destruct (var_by_opcode _ _) as [[w ms]|]; [|eexists; left; reflexivity].
  repeat break_if; eexists; (left; reflexivity) || (right; reflexivity).
  Unshelve. all: exact (0%N, None, O, true).
Qed.

(* ---- helper functions never run out of fuel ------------------------------------------------------------ *)
Lemma int_to_script_no_oof v : int_to_script_bytes v <> OutOfFuel.
Proof.
  unfold int_to_script_bytes. destruct (v =? 0)%Z; [discriminate|].
  destruct (le_min_fuel_ok (Z.to_N (Z.abs v))) as [bs [E _]]. rewrite E.
  repeat break_if; discriminate.
Qed.

Lemma int_from_no_oof s m : int_from_script_bytes s m <> OutOfFuel.
Proof. unfold int_from_script_bytes. destruct (rev s); [discriminate|]. break_if; discriminate. Qed.

Lemma int_from_lax_total s : exists z, int_from_script_bytes s false = Ret z.
Proof. unfold int_from_script_bytes. destruct (rev s); cbn [andb]; eexists; reflexivity. Qed.

Lemma compile_push_no_oof d : btc_compile_push_data d <> OutOfFuel.
Proof.
  unfold btc_compile_push_data, compile_push_data.
  destruct (const_by_data _ _); [discriminate|].
  destruct (sized_by_size _ _); [discriminate|].
  destruct (var_pick _ _ _) as [[[a b] c]|]; [|discriminate].
  break_if; discriminate.
Qed.

Lemma bind_no_oof {A B} (m : outcome A) (f : A -> outcome B) :
  m <> OutOfFuel -> (forall a, f a <> OutOfFuel) -> bind m f <> OutOfFuel.
Proof. destruct m; cbn; auto; discriminate. Qed.

Lemma read_length_no_oof s : read_length s <> OutOfFuel.
Proof.
  unfold read_length. destruct s; [discriminate|].
  break_if; [discriminate|]. break_if; [discriminate|].
  destruct (N.to_nat _); discriminate.
Qed.

Lemma remove_integer_no_oof s b : remove_integer s b <> OutOfFuel.
Proof.
  unfold remove_integer. break_if; [discriminate|].
  apply bind_no_oof; [apply read_length_no_oof|]. intros [len llen].
  break_if; [discriminate|].
  destruct (take _ _); [discriminate|]. break_if; discriminate.
Qed.

Lemma sigdecode_no_oof s b : sigdecode_der s b <> OutOfFuel.
Proof.
  unfold sigdecode_der, remove_sequence.
  apply bind_no_oof.
  { break_if; [discriminate|]. apply bind_no_oof; [apply read_length_no_oof|]. intros [len ll]. discriminate. }
  intros [rs rem]. break_if; [discriminate|].
  apply bind_no_oof; [apply remove_integer_no_oof|]. intros [r rest].
  apply bind_no_oof; [apply remove_integer_no_oof|]. intros [s' rem2].
  break_if; discriminate.
Qed.

Lemma delete_walk_no_oof fuel : forall script sub pc,
  (length script - pc <= fuel)%nat -> delete_walk fuel script sub pc <> OutOfFuel.
Proof.
  induction fuel as [|f IH]; intros script sub pc Hf; cbn [delete_walk].
  - destruct (Nat.leb_spec (length script) pc); [discriminate|lia].
  - destruct (Nat.leb_spec (length script) pc); [discriminate|].
    destruct (btc_get_opcode script pc false) as [[[[o d] npc] ok]|e|] eqn:E.
    + apply get_opcode_advances in E.
      specialize (IH script sub npc ltac:(lia)).
      destruct ok; [|discriminate].
      destruct (delete_walk f script sub npc); [discriminate|discriminate|congruence].
    + discriminate.
    + now apply get_opcode_no_oof in E.
Qed.

Lemma delete_signature_no_oof script b : delete_signature script b <> OutOfFuel.
Proof.
  unfold delete_signature, plain_push. repeat break_if; try discriminate; apply delete_walk_no_oof; lia.
Qed.

Lemma delete_signatures_no_oof blobs : forall script, delete_signatures script blobs <> OutOfFuel.
Proof.
  induction blobs as [|b r IH]; intros script; cbn [delete_signatures]; [discriminate|].
  destruct (delete_signature script b) eqn:E; [apply IH|discriminate|now apply delete_signature_no_oof in E].
Qed.

(* ---- `good P r`: r is not VOutOfFuel and a returned value satisfies P ------------------------------------ *)
Definition good {A} (P : A -> Prop) (r : vres A) : Prop :=
  match r with
  | VOk a => P a
  | VOutOfFuel => False
  | _ => True
  end.

Lemma good_bind {A B} (P : A -> Prop) (Q : B -> Prop) (m : vres A) (f : A -> vres B) :
  good P m -> (forall a, P a -> good Q (f a)) -> good Q (vbind m f).
Proof. destruct m; cbn; auto. Qed.

Lemma good_weaken {A} (P Q : A -> Prop) (r : vres A) : good P r -> (forall a, P a -> Q a) -> good Q r.
Proof. destruct r; cbn; auto. Qed.

Lemma good_lift {A} (m : outcome A) : m <> OutOfFuel -> good (fun _ => True) (lift m).
Proof. destruct m as [a|e|]; cbn; auto. destruct e; cbn; auto. Qed.

Lemma good_not_oof {A} (P : A -> Prop) (r : vres A) : good P r -> r <> VOutOfFuel.
Proof. destruct r; cbn; auto; discriminate. Qed.

Lemma good_ok {A} (P : A -> Prop) (r : vres A) a : good P r -> r = VOk a -> P a.
Proof. intros H ->. exact H. Qed.

Lemma good_require c : good (fun _ => True) (require c).
Proof. destruct c; exact I. Qed.

(* the frame a handler cannot touch: pc and (unless it is IF/NOTIF/ELSE/ENDIF) the conditional state *)
Definition pc_is (p : nat * cstate) (s : vmstate) : Prop := st_pc s = fst p /\ st_cond s = snd p.
Definition pc2_is {X} (p : nat * cstate) (xs : X * vmstate) : Prop := pc_is p (snd xs).
(* after any handler: pc untouched, cond untouched or moved by one ConditionalStack operation *)
Definition post (p : nat * cstate) (s : vmstate) : Prop :=
  st_pc s = fst p /\ (st_cond s = snd p \/ exists op, c_step (snd p) op = Some (st_cond s)).
Definition is_cond_kind (k : hkind) : bool :=
  match k with KIf _ | KElse | KEndif => true | _ => false end.

Section Handlers.
Variable o : oracles.
Variable flags : N.
Variable sv : sigversion.
Variable ctx : txctx.
Variable script : bytes.
Variable p : nat * cstate.

Lemma g_pop s : pc_is p s -> good (pc2_is p) (vm_pop s).
Proof. unfold vm_pop, pc_is, pc2_is. destruct (st_stack s); cbn; auto. Qed.

Lemma g_get k s : good (fun _ => True) (vm_get k s).
Proof. unfold vm_get. destruct (nth_error _ _); exact I. Qed.

Lemma g_pop_at k s : pc_is p s -> good (pc2_is p) (vm_pop_at k s).
Proof. unfold vm_pop_at, pc_is, pc2_is. destruct (remove_nth _ _) as [[x r]|]; cbn; auto. Qed.

Lemma g_pop_n n : forall s, pc_is p s -> good (pc2_is p) (vm_pop_n n s).
Proof.
  induction n as [|n IH]; intros s H; cbn [vm_pop_n]; [exact H|].
  eapply good_bind; [apply g_pop, H|]. intros [x s1] H1.
  eapply good_bind; [apply IH, H1|]. intros [xs s2] H2. exact H2.
Qed.

Lemma g_pop_int m s : pc_is p s -> good (pc2_is p) (vm_pop_int flags m s).
Proof.
  intros H. unfold vm_pop_int.
  eapply good_bind; [apply g_pop, H|]. intros [v s1] H1.
  break_if; [exact I|].
  eapply good_bind; [apply good_lift, int_from_no_oof|]. intros z _. exact H1.
Qed.

Lemma g_pop_nonneg s : pc_is p s -> good (pc2_is p) (vm_pop_nonnegative flags s).
Proof.
  intros H. unfold vm_pop_nonnegative.
  eapply good_bind; [apply g_pop_int, H|]. intros [v s1] H1. break_if; [exact I|exact H1].
Qed.

Lemma g_push_int v s : pc_is p s -> good (pc_is p) (vm_push_int v s).
Proof.
  intros H. unfold vm_push_int.
  eapply good_bind; [apply good_lift, int_to_script_no_oof|]. intros b _. exact H.
Qed.

Lemma g_pcb s : pc_is p s -> good (pc2_is p) (pop_check_bounds flags s).
Proof.
  intros H. unfold pop_check_bounds.
  eapply good_bind; [apply g_get|]. intros top _. break_if; [exact I|apply g_pop_int, H].
Qed.

Lemma g_pop_verify s : pc_is p s -> good (pc_is p) (pop_verify s).
Proof.
  intros H. unfold pop_verify.
  eapply good_bind; [apply g_pop, H|]. intros [v s1] H1. break_if; [exact H1|exact I].
Qed.

Lemma g_dup_from k s : pc_is p s -> good (pc_is p) (dup_from k s).
Proof. intros H. unfold dup_from. eapply good_bind; [apply g_get|]. intros x _. exact H. Qed.

Lemma g_move_from k s : pc_is p s -> good (pc_is p) (move_from k s).
Proof. intros H. unfold move_from. eapply good_bind; [apply g_pop_at, H|]. intros [x s1] H1. exact H1. Qed.

Lemma g_cond_op s op : pc_is p s -> good (post p) (cond_op s op).
Proof.
  intros [H1 H2]. unfold cond_op. destruct (c_step _ _) as [c|] eqn:E; [|exact I].
  split; [exact H1|]. right. exists op. rewrite <- H2. exact E.
Qed.

Lemma g_sig_at sg i : good (fun _ => True) (sig_at sg i).
Proof. unfold sig_at. destruct (nth_error _ _); exact I. Qed.

Ltac gb_sig := eapply good_bind; [apply g_sig_at|intros ? _].

Lemma g_check_valid_signature sg : good (fun _ => True) (check_valid_signature sg).
Proof.
  unfold check_valid_signature.
  break_if; [exact I|]. gb_sig. break_if; [exact I|]. gb_sig. break_if; [exact I|]. gb_sig.
  break_if; [exact I|]. gb_sig. break_if; [exact I|]. gb_sig. break_if; [exact I|]. break_if; [exact I|].
  gb_sig. break_if; [exact I|].
  eapply good_bind with (P := fun _ => True). { break_if; [gb_sig|]; exact I. }
  intros bad_r _. break_if; [exact I|]. gb_sig. break_if; [exact I|]. break_if; [exact I|]. gb_sig.
  break_if; [exact I|].
  eapply good_bind with (P := fun _ => True). { break_if; [gb_sig|]; exact I. }
  intros bad_s _. break_if; exact I.
Qed.

Lemma g_check_hashtype sg : good (fun _ => True) (check_defined_hashtype_signature sg).
Proof. unfold check_defined_hashtype_signature. destruct (last_opt sg); [break_if|]; exact I. Qed.

Lemma g_parse_sig sg : good (fun _ => True) (parse_and_check_signature_blob o flags sg).
Proof.
  unfold parse_and_check_signature_blob. destruct sg as [|b0 r]; [exact I|].
  eapply good_bind with (P := fun _ => True). { break_if; [apply g_check_valid_signature|exact I]. }
  intros _ _.
  eapply good_bind with (P := fun _ => True). { break_if; [apply g_check_hashtype|exact I]. }
  intros _ _.
  destruct (sigdecode_der _ _) as [[r' s']|e|] eqn:E.
  - repeat break_if; exact I.
  - destruct e; exact I.
  - now apply sigdecode_no_oof in E.
Qed.

Lemma g_checksig sp sg pk code : code <> OutOfFuel -> good (fun _ => True) (checksig o flags sv sp sg pk code).
Proof.
  intros Hc. unfold checksig.
  eapply good_bind with (P := fun _ => True). { break_if; [apply good_require|exact I]. }
  intros _ _.
  eapply good_bind with (P := fun _ => True). { break_if; [apply good_require|exact I]. }
  intros _ _.
  destruct sp; [|exact I].
  eapply good_bind; [apply good_lift, Hc|]. intros c _. exact I.
Qed.

Lemma g_checksigs_inner sp sg n code keys : code <> OutOfFuel ->
  good (fun _ => True) (checksigs_inner o flags sv sp sg n keys code).
Proof.
  intros Hc. induction keys as [|k ks IH]; cbn [checksigs_inner]; [exact I|].
  break_if; [|exact I].
  eapply good_bind; [apply g_checksig, Hc|]. intros ok _. destruct ok; [exact I|exact IH].
Qed.

Lemma g_checksigs_outer sigs : forall keys anb code, code <> OutOfFuel ->
  good (fun _ => True) (checksigs_outer o flags sv sigs keys anb code).
Proof.
  induction sigs as [|sg rest IH]; intros keys anb code Hc; cbn [checksigs_outer]; [exact I|].
  eapply good_bind; [apply g_parse_sig|]. intros sp _.
  eapply good_bind; [apply g_checksigs_inner, Hc|]. intros r _.
  destruct r; [apply IH, Hc|break_if; exact I].
Qed.

Lemma script_code_no_oof s blobs : script_code_for sv script s blobs <> OutOfFuel.
Proof. unfold script_code_for. destruct sv; [apply delete_signatures_no_oof|discriminate]. Qed.

Lemma g_checksigs s sigs keys : pc_is p s -> good (pc_is p) (checksigs o flags sv script s sigs keys).
Proof.
  intros H. unfold checksigs.
  eapply good_bind; [apply g_checksigs_outer, script_code_no_oof|]. intros b _. exact H.
Qed.

Lemma g_checksig_op s : pc_is p s -> good (pc_is p) (do_OP_CHECKSIG o flags sv script s).
Proof.
  intros H. unfold do_OP_CHECKSIG.
  eapply good_bind; [apply g_pop, H|]. intros [pk s1] H1.
  eapply good_bind; [apply g_pop, H1|]. intros [sg s2] H2.
  apply g_checksigs, H2.
Qed.

Lemma g_checkmultisig_op s : pc_is p s -> good (pc_is p) (do_OP_CHECKMULTISIG o flags sv script s).
Proof.
  intros H. unfold do_OP_CHECKMULTISIG.
  eapply good_bind; [apply g_pop_int, H|]. intros [kc s1] H1. break_if; [exact I|].
  eapply good_bind; [apply g_pop_n, H1|]. intros [keys s2] H2.
  eapply good_bind; [apply g_pop_int, H2|]. intros [sc s3] H3. break_if; [exact I|].
  eapply good_bind; [apply g_pop_n, H3|]. intros [sigs s4] H4.
  eapply good_bind; [apply g_pop, H4|]. intros [hack s5] H5. break_if; [exact I|].
  eapply good_bind; [apply g_checksigs, H5|]. intros s6 H6. exact H6.
Qed.

Lemma g_cltv s : pc_is p s -> good (pc_is p) (do_OP_CHECKLOCKTIMEVERIFY flags ctx s).
Proof.
  intros H. unfold do_OP_CHECKLOCKTIMEVERIFY.
  break_if. { break_if; [exact I|exact H]. }
  break_if; [exact I|]. destruct (st_stack s) as [|top tl] eqn:E; [exact I|]. break_if; [exact I|].
  eapply good_bind; [apply g_pop_int, H|]. intros [v s1] H1.
  assert (H2 : pc_is p (vm_append top s1)) by exact H1. cbv zeta.
  repeat (break_if; [exact I|]). exact H2.
Qed.

Lemma g_csv s : pc_is p s -> good (pc_is p) (do_OP_CHECKSEQUENCEVERIFY flags ctx s).
Proof.
  intros H. unfold do_OP_CHECKSEQUENCEVERIFY.
  break_if. { break_if; [exact I|exact H]. }
  destruct (st_stack s) as [|top tl] eqn:E; [exact I|]. break_if; [exact I|].
  eapply good_bind; [apply g_pop_int, H|]. intros [v s1] H1.
  assert (H2 : pc_is p (vm_append top s1)) by exact H1. cbv zeta.
  break_if; [exact I|]. break_if; [exact H2|]. break_if; [exact I|]. break_if; [exact I|].
  eapply good_bind with (P := fun _ => True).
  { unfold check_sequence_verify. repeat break_if; exact I. }
  intros _ _. exact H2.
Qed.

(* every handler but IF/NOTIF/ELSE/ENDIF: never out of fuel, pc and cond are left alone *)
Lemma handler_good k s : is_cond_kind k = false -> pc_is p s -> good (pc_is p) (handler o flags sv ctx script k s).
Proof.
  intros Hk H.
  destruct k; cbn [handler]; try discriminate Hk;
    try exact H; try exact I;
    try (apply g_pop_verify, H); try (apply g_dup_from, H); try (apply g_move_from, H);
    try (apply g_checksig_op, H); try (apply g_checkmultisig_op, H);
    try (apply g_cltv, H); try (apply g_csv, H); try (apply g_push_int, H).
  - (* KReserved *) break_if; [exact I|exact H].
  - (* KToAlt *) eapply good_bind; [apply g_pop, H|]. intros [x s1] H1. exact H1.
  - (* KFromAlt *) destruct (st_alt s); [exact I|exact H].
  - (* K2Drop *) eapply good_bind; [apply g_pop, H|]. intros [x s1] H1.
    eapply good_bind; [apply g_pop, H1|]. intros [y s2] H2. exact H2.
  - (* K2Dup *) eapply good_bind; [apply g_dup_from, H|]. intros s1 H1. apply g_dup_from, H1.
  - (* K3Dup *) eapply good_bind; [apply g_dup_from, H|]. intros s1 H1.
    eapply good_bind; [apply g_dup_from, H1|]. intros s2 H2. apply g_dup_from, H2.
  - (* K2Over *) eapply good_bind; [apply g_dup_from, H|]. intros s1 H1. apply g_dup_from, H1.
  - (* K2Rot *) eapply good_bind; [apply g_move_from, H|]. intros s1 H1. apply g_move_from, H1.
  - (* K2Swap *) eapply good_bind; [apply g_move_from, H|]. intros s1 H1. apply g_move_from, H1.
  - (* KIfDup *) eapply good_bind; [apply g_get|]. intros top _. break_if; [apply g_dup_from, H|exact H].
  - (* KDrop *) eapply good_bind; [apply g_pop, H|]. intros [x s1] H1. exact H1.
  - (* KNip *) eapply good_bind; [apply g_pop, H|]. intros [x s1] H1.
    eapply good_bind; [apply g_pop, H1|]. intros [y s2] H2. exact H2.
  - (* KPick *) eapply good_bind; [apply g_pop_nonneg, H|]. intros [v s1] H1.
    destruct (index_of v s1); [apply g_dup_from, H1|exact I].
  - (* KRoll *) eapply good_bind; [apply g_pop_nonneg, H|]. intros [v s1] H1.
    destruct (index_of v s1); [apply g_move_from, H1|exact I].
  - (* KTuck *) eapply good_bind; [apply g_pop, H|]. intros [x s1] H1.
    eapply good_bind; [apply g_pop, H1|]. intros [y s2] H2. exact H2.
  - (* KSize *) eapply good_bind; [apply g_get|]. intros top _. apply g_push_int, H.
  - (* KEqual *) eapply good_bind; [apply g_pop, H|]. intros [x s1] H1.
    eapply good_bind; [apply g_pop, H1|]. intros [y s2] H2. exact H2.
  - (* KEqualVerify *) eapply good_bind; [apply g_pop, H|]. intros [x s1] H1.
    eapply good_bind; [apply g_pop, H1|]. intros [y s2] H2. apply g_pop_verify. exact H2.
  - (* KUnary *) eapply good_bind; [apply g_pcb, H|]. intros [v s1] H1. apply g_push_int, H1.
  - (* KNot *) eapply good_bind; [apply g_pcb, H|]. intros [v s1] H1. exact H1.
  - (* K0NotEqual *) eapply good_bind; [apply g_pcb, H|]. intros [v s1] H1. apply g_push_int, H1.
  - (* KBin *) eapply good_bind; [apply g_pcb, H|]. intros [v1 s1] H1.
    eapply good_bind; [apply g_pcb, H1|]. intros [v2 s2] H2. apply g_push_int, H2.
  - (* KBoolBin *) eapply good_bind; [apply g_pcb, H|]. intros [v1 s1] H1.
    eapply good_bind; [apply g_pcb, H1|]. intros [v2 s2] H2. exact H2.
  - (* KNumEqualVerify *) eapply good_bind; [apply g_pcb, H|]. intros [v1 s1] H1.
    eapply good_bind; [apply g_pcb, H1|]. intros [v2 s2] H2. apply g_pop_verify. exact H2.
  - (* KWithin *) eapply good_bind; [apply g_pop_int, H|]. intros [v3 s1] H1.
    eapply good_bind; [apply g_pop_int, H1|]. intros [v2 s2] H2.
    eapply good_bind; [apply g_pop_int, H2|]. intros [v1 s3] H3. exact H3.
  - (* KHash *) eapply good_bind; [apply g_pop, H|]. intros [x s1] H1. exact H1.
  - (* KCheckSigVerify *) eapply good_bind; [apply g_checksig_op, H|]. intros s1 H1. apply g_pop_verify, H1.
  - (* KCheckMultiSigVerify *) eapply good_bind; [apply g_checkmultisig_op, H|]. intros s1 H1. apply g_pop_verify, H1.
  - (* KDiscourageNops *) break_if; [exact I|exact H].
Qed.

Lemma handler_post k s : pc_is p s -> good (post p) (handler o flags sv ctx script k s).
Proof.
  intros H. destruct (is_cond_kind k) eqn:Hk.
  - destruct k; try discriminate Hk; cbn [handler]; try (apply g_cond_op, H).
    (* KIf *)
    eapply good_bind with (P := pc2_is p).
    { break_if; [|exact H]. destruct (st_stack s) eqn:E; [exact I|].
      eapply good_bind; [apply g_pop, H|]. intros [item s1] H1. break_if; [exact I|exact H1]. }
    intros [b s1] H1. apply g_cond_op, H1.
  - eapply good_weaken; [apply handler_good; assumption|].
    intros a [A B]. split; [exact A|left; exact B].
Qed.
End Handlers.

(* ---- eval_instruction advances pc; fuel ------------------------------------------------------------------ *)
Section Run.
Variable o : oracles.
Variable flags : N.
Variable sv : sigversion.
Variable ctx : txctx.
Variable script : bytes.

Notation step' := (step o flags sv ctx script).
Notation run' := (run o flags sv ctx script).

(* each step advances pc by at least one, never runs out of fuel, and moves the conditional state by at most
   one ConditionalStack operation *)
Definition step_post (s s' : vmstate) : Prop :=
  (st_pc s < st_pc s')%nat /\ (st_cond s' = st_cond s \/ exists op, c_step (st_cond s) op = Some (st_cond s')).

Lemma step_good s : good (step_post s) (step' s).
Proof.
  unfold step.
  destruct (btc_get_opcode script (st_pc s) _) as [[[[opcode data] pc'] is_ok]|e|] eqn:E.
  2: { destruct e; exact I. }
  2: { now apply get_opcode_no_oof in E. }
  apply get_opcode_advances in E. cbn [lift vbind].
  break_if; [exact I|]. break_if; [exact I|].
  eapply good_bind with (P := post (pc', st_cond s)).
  { break_if; [apply handler_post; split; reflexivity|split; [reflexivity|left; reflexivity]]. }
  intros s2 [H2 H3]. break_if; [exact I|]. break_if; [exact I|].
  cbn [good]. cbn [fst snd] in H2, H3. split; [lia|exact H3].
Qed.

Theorem step_advances_pc s s' : step' s = VOk s' -> (st_pc s < st_pc s')%nat.
Proof. intros H. exact (proj1 (good_ok _ _ _ (step_good s) H)). Qed.

(* the counters move only through ConditionalStack.OP_IF / OP_ELSE / OP_ENDIF *)
Theorem step_cond s s' : step' s = VOk s' ->
  st_cond s' = st_cond s \/ exists op, c_step (st_cond s) op = Some (st_cond s').
Proof. intros H. exact (proj2 (good_ok _ _ _ (step_good s) H)). Qed.

(* inside an unexecuted branch an instruction changes nothing but pc, op_count and the counters *)
Theorem step_dead_branch s s' : c_all_if_true (st_cond s) = false -> step' s = VOk s' ->
  st_stack s' = st_stack s /\ st_alt s' = st_alt s /\ st_bch s' = st_bch s.
Proof.
  intros Hd. unfold step. rewrite Hd, andb_false_r. cbn [orb].
  destruct (btc_get_opcode script (st_pc s) false) as [[[[opcode data] pc'] is_ok]|e|]; cbn [lift vbind].
  2: { destruct e; discriminate. }
  2: discriminate.
  break_if; [discriminate|]. break_if; [discriminate|].
  assert (Hstk : match data with Some d => st_stack s | None => st_stack s end = st_stack s) by (destruct data; reflexivity).
  rewrite Hstk. clear Hstk.
  set (s1 := mkst pc' (st_stack s) (st_alt s) (st_cond s) _ (st_bch s)).
  assert (Hfin : forall s2, st_stack s2 = st_stack s /\ st_alt s2 = st_alt s /\ st_bch s2 = st_bch s ->
            (if (Z.of_N MAX_OP_COUNT <? st_opc s2)%Z then VFail
             else if negb (check_stack_size s2) then VFail else VOk s2) = VOk s' ->
            st_stack s' = st_stack s /\ st_alt s' = st_alt s /\ st_bch s' = st_bch s).
  { intros s2 H2. break_if; [discriminate|]. break_if; [discriminate|]. intros E; inversion E; subst; exact H2. }
  destruct (hk opcode) eqn:Hk; cbn [hk_outside handler vbind];
    try (apply Hfin; repeat split; reflexivity); try discriminate.
  - (* KReserved *) subst s1. cbn [st_cond]. rewrite Hd. cbn [vbind]. apply Hfin. repeat split; reflexivity.
  - (* KBadOpcode *) destruct outside; cbn [vbind]; [discriminate|apply Hfin; repeat split; reflexivity].
  - (* KIf *) subst s1. cbn [st_cond]. rewrite Hd. cbn [vbind]. unfold cond_op.
    destruct (c_step _ _); cbn [vbind]; [apply Hfin; repeat split; reflexivity|discriminate].
  - (* KElse *) unfold cond_op. destruct (c_step _ _); cbn [vbind]; [apply Hfin; repeat split; reflexivity|discriminate].
  - (* KEndif *) unfold cond_op. destruct (c_step _ _); cbn [vbind]; [apply Hfin; repeat split; reflexivity|discriminate].
Qed.

Lemma step_no_oof s : step' s <> VOutOfFuel.
Proof. exact (good_not_oof _ _ (step_good s)). Qed.

Lemma run_no_oof fuel : forall s, (length script - st_pc s <= fuel)%nat -> run' fuel s <> VOutOfFuel.
Proof.
  induction fuel as [|f IH]; intros s Hf; cbn [run].
  - destruct (Nat.leb_spec (length script) (st_pc s)); [discriminate|lia].
  - destruct (Nat.leb_spec (length script) (st_pc s)); [discriminate|].
    destruct (step' s) as [s'| |e|] eqn:E; cbn [vbind]; try discriminate.
    + apply IH. apply step_advances_pc in E. lia.
    + now apply step_no_oof in E.
Qed.

Lemma eval_state_no_oof init : eval_state o flags sv ctx script init <> VOutOfFuel.
Proof.
  unfold eval_state. break_if; [discriminate|].
  destruct (run' _ _) as [s| |e|] eqn:E; cbn [vbind]; try discriminate.
  - repeat break_if; discriminate.
  - apply run_no_oof in E; [contradiction|]. cbn. lia.
Qed.
End Run.

(* fuel `length script` suffices: the model never reports VOutOfFuel *)
Theorem vmpy_fuel_sufficient o flags sv ctx script initial_stack :
  eval_script o flags sv ctx script initial_stack <> VOutOfFuel.
Proof.
  unfold eval_script.
  destruct (eval_state _ _ _ _ _ _) eqn:E; cbn [vbind]; try discriminate.
  now apply eval_state_no_oof in E.
Qed.

Lemma push_only_walk_no_oof fuel : forall script pc,
  (length script - pc <= fuel)%nat -> push_only_walk fuel script pc <> VOutOfFuel.
Proof.
  induction fuel as [|f IH]; intros script pc Hf; cbn [push_only_walk].
  - destruct (Nat.leb_spec (length script) pc); [discriminate|lia].
  - destruct (Nat.leb_spec (length script) pc); [discriminate|].
    destruct (btc_get_opcode script pc false) as [[[[oc d] npc] ok]|e|] eqn:E; cbn [lift vbind].
    + apply get_opcode_advances in E. break_if; [apply IH; lia|discriminate].
    + destruct e; discriminate.
    + now apply get_opcode_no_oof in E.
Qed.

Lemma check_script_push_only_no_oof script : check_script_push_only script <> VOutOfFuel.
Proof. apply push_only_walk_no_oof. lia. Qed.

Lemma vbind_no_oof {A B} (m : vres A) (f : A -> vres B) :
  m <> VOutOfFuel -> (forall a, f a <> VOutOfFuel) -> vbind m f <> VOutOfFuel.
Proof. destruct m; cbn; auto; discriminate. Qed.

Lemma lift_no_oof {A} (m : outcome A) : m <> OutOfFuel -> lift m <> VOutOfFuel.
Proof. destruct m as [a|e|]; cbn; try discriminate; auto. destruct e; discriminate. Qed.

Lemma run_and_check_no_oof o flags sv ctx script st : run_and_check o flags sv ctx script st <> VOutOfFuel.
Proof.
  unfold run_and_check. apply vbind_no_oof; [apply vmpy_fuel_sufficient|].
  intros a. destruct (last_opt a); [break_if|]; discriminate.
Qed.

Lemma witness_program_tuple_no_oof o flags ssig wit puzzle p2sh :
  witness_program_tuple o flags ssig wit puzzle p2sh <> VOutOfFuel.
Proof.
  unfold witness_program_tuple. break_if; [discriminate|].
  destruct (witness_program_version puzzle); [|break_if; discriminate].
  apply vbind_no_oof.
  { break_if; [|discriminate]. apply vbind_no_oof; [apply lift_no_oof, compile_push_no_oof|discriminate]. }
  intros mal. break_if; [discriminate|]. break_if.
  - apply vbind_no_oof.
    + unfold check_witness_program_v0. break_if.
      { destruct (last_opt wit); [break_if|]; discriminate. }
      break_if; [|discriminate]. break_if; [discriminate|].
      apply vbind_no_oof; [apply lift_no_oof, compile_push_no_oof|discriminate].
    + intros [st ws]. break_if; discriminate.
  - break_if; discriminate.
Qed.

Theorem check_solution_fuel_sufficient o sp : check_solution o sp <> VOutOfFuel.
Proof.
  unfold check_solution.
  apply vbind_no_oof. { break_if; [apply check_script_push_only_no_oof|discriminate]. }
  intros _. apply vbind_no_oof; [apply vmpy_fuel_sufficient|]. intros sol.
  apply vbind_no_oof; [apply run_and_check_no_oof|]. intros st1.
  apply vbind_no_oof.
  { break_if; [|discriminate]. apply vbind_no_oof; [apply check_script_push_only_no_oof|]. intros _.
    destruct (last_opt sol); [|discriminate].
    apply vbind_no_oof; [apply run_and_check_no_oof|discriminate]. }
  intros p2sh.
  destruct p2sh as [[[redeem f2] st2]|];
    (apply vbind_no_oof; [apply witness_program_tuple_no_oof|]);
    intros [[[[ws wst] wf] wsv]|];
    try (apply vbind_no_oof; [apply run_and_check_no_oof|intros st3]);
    unfold clean_stack_check; break_if; discriminate.
Qed.

(* ---- the opcode -> handler map against the tables regenerated from /repo ----------------------------------- *)
Definition hkind_eq_dec (a b : hkind) : {a = b} + {a <> b}.
Proof. repeat decide equality. Defined.
Definition hkind_eqb (a b : hkind) : bool := if hkind_eq_dec a b then true else false.

Section Tables.
Import String.
Local Open Scope string_scope.

(* what make_instruction_lookup binds to each NAME of satoshi/opcodes.py (read off the Python source) *)
Definition kind_by_name : list (string * hkind) :=
  [ ("OP_0", KLambda0); ("OP_PUSHDATA1", KLambda0); ("OP_PUSHDATA2", KLambda0); ("OP_PUSHDATA4", KLambda0);
    ("OP_1NEGATE", KNoOp); ("OP_RESERVED", KReserved);
    ("OP_1", KLambda0); ("OP_2", KLambda0); ("OP_3", KLambda0); ("OP_4", KLambda0); ("OP_5", KLambda0);
    ("OP_6", KLambda0); ("OP_7", KLambda0); ("OP_8", KLambda0); ("OP_9", KLambda0); ("OP_10", KLambda0);
    ("OP_11", KLambda0); ("OP_12", KLambda0); ("OP_13", KLambda0); ("OP_14", KLambda0); ("OP_15", KLambda0);
    ("OP_16", KLambda0);
    ("OP_NOP", KNop); ("OP_VER", KRaise); ("OP_IF", KIf false); ("OP_NOTIF", KIf true);
    ("OP_VERIF", KBadOpcode true); ("OP_VERNOTIF", KBadOpcode true); ("OP_ELSE", KElse); ("OP_ENDIF", KEndif);
    ("OP_VERIFY", KVerify); ("OP_RETURN", KRaise); ("OP_TOALTSTACK", KToAlt); ("OP_FROMALTSTACK", KFromAlt);
    ("OP_2DROP", K2Drop); ("OP_2DUP", K2Dup); ("OP_3DUP", K3Dup); ("OP_2OVER", K2Over); ("OP_2ROT", K2Rot);
    ("OP_2SWAP", K2Swap); ("OP_IFDUP", KIfDup); ("OP_DEPTH", KDepth); ("OP_DROP", KDrop); ("OP_DUP", KDup);
    ("OP_NIP", KNip); ("OP_OVER", KOver); ("OP_PICK", KPick); ("OP_ROLL", KRoll); ("OP_ROT", KRot);
    ("OP_SWAP", KSwap); ("OP_TUCK", KTuck);
    ("OP_CAT", KBadOpcode true); ("OP_SUBSTR", KBadOpcode true); ("OP_LEFT", KBadOpcode true); ("OP_RIGHT", KBadOpcode true);
    ("OP_SIZE", KSize);
    ("OP_INVERT", KBadOpcode true); ("OP_AND", KBadOpcode true); ("OP_OR", KBadOpcode true); ("OP_XOR", KBadOpcode true);
    ("OP_EQUAL", KEqual); ("OP_EQUALVERIFY", KEqualVerify); ("OP_RESERVED1", KRaise); ("OP_RESERVED2", KRaise);
    ("OP_1ADD", KUnary U1Add); ("OP_1SUB", KUnary U1Sub); ("OP_2MUL", KBadOpcode true); ("OP_2DIV", KBadOpcode true);
    ("OP_NEGATE", KUnary UNegate); ("OP_ABS", KUnary UAbs); ("OP_NOT", KNot); ("OP_0NOTEQUAL", K0NotEqual);
    ("OP_ADD", KBin BAdd); ("OP_SUB", KBin BSub);
    ("OP_MUL", KBadOpcode true); ("OP_DIV", KBadOpcode true); ("OP_MOD", KBadOpcode true);
    ("OP_LSHIFT", KBadOpcode true); ("OP_RSHIFT", KBadOpcode true);
    ("OP_BOOLAND", KBoolBin BoBoolAnd); ("OP_BOOLOR", KBoolBin BoBoolOr); ("OP_NUMEQUAL", KBoolBin BoNumEqual);
    ("OP_NUMEQUALVERIFY", KNumEqualVerify); ("OP_NUMNOTEQUAL", KBoolBin BoNumNotEqual);
    ("OP_LESSTHAN", KBoolBin BoLessThan); ("OP_GREATERTHAN", KBoolBin BoGreaterThan);
    ("OP_LESSTHANOREQUAL", KBoolBin BoLessThanOrEqual); ("OP_GREATERTHANOREQUAL", KBoolBin BoGreaterThanOrEqual);
    ("OP_MIN", KBin BMin); ("OP_MAX", KBin BMax); ("OP_WITHIN", KWithin);
    ("OP_RIPEMD160", KHash HRipemd160); ("OP_SHA1", KHash HSha1); ("OP_SHA256", KHash HSha256);
    ("OP_HASH160", KHash HHash160); ("OP_HASH256", KHash HHash256);
    ("OP_CODESEPARATOR", KCodeSeparator); ("OP_CHECKSIG", KCheckSig); ("OP_CHECKSIGVERIFY", KCheckSigVerify);
    ("OP_CHECKMULTISIG", KCheckMultiSig); ("OP_CHECKMULTISIGVERIFY", KCheckMultiSigVerify);
    ("OP_NOP1", KDiscourageNops);
    ("OP_NOP2", KCheckLockTimeVerify); ("OP_CHECKLOCKTIMEVERIFY", KCheckLockTimeVerify);
    ("OP_NOP3", KCheckSequenceVerify); ("OP_CHECKSEQUENCEVERIFY", KCheckSequenceVerify);
    ("OP_NOP4", KDiscourageNops); ("OP_NOP5", KDiscourageNops); ("OP_NOP6", KDiscourageNops); ("OP_NOP7", KDiscourageNops);
    ("OP_NOP8", KDiscourageNops); ("OP_NOP9", KDiscourageNops); ("OP_NOP10", KDiscourageNops);
    ("OP_INVALIDOPCODE", KBadOpcode false) ].

Fixpoint assoc_kind (t : list (string * hkind)) (name : string) : option hkind :=
  match t with
  | [] => None
  | (n, k) :: r => if String.eqb n name then Some k else assoc_kind r name
  end.

(* every (name, number) pair of the regenerated OPCODE_LIST: `hk number` is the kind bound to that name
   (the sized pushes OP_PUSH_1..75 are `_no_op`) *)
Definition name_entry_ok (e : string * N) : bool :=
  let '(name, n) := e in
  if prefix "OP_PUSH_" name then hkind_eqb (hk n) KNoOp
  else match assoc_kind kind_by_name name with
       | Some k => hkind_eqb (hk n) k
       | None => false
       end.

Lemma hk_agrees_with_opcode_list : forallb name_entry_ok opcode_list = true.
Proof. vm_compute. reflexivity. Qed.

(* the qualified Python name of INSTRUCTION_LOOKUP[n] that the model expects *)
Definition expected_pyname (n : N) : string :=
  match hk n with
  | KNoOp => "_no_op"
  | KLambda0 => "extra_opcodes._locals_._lambda_"
  | KReserved => "do_OP_RESERVED"
  | KNop => "do_OP_NOP"
  | KRaise => if (n =? 98)%N then "do_OP_VER" else if (n =? 106)%N then "do_OP_RETURN"
              else if (n =? 137)%N then "do_OP_RESERVED1" else "do_OP_RESERVED2"
  | KBadOpcode _ => "make_bad_opcode._locals_.bad_opcode"
  | KBadInstruction => "_make_bad_instruction._locals_.f"
  | KIf _ => "make_if._locals_.f"
  | KElse => "do_OP_ELSE" | KEndif => "do_OP_ENDIF" | KVerify => "do_OP_VERIFY"
  | KToAlt => "do_OP_TOALTSTACK" | KFromAlt => "do_OP_FROMALTSTACK"
  | K2Drop => "do_OP_2DROP" | K2Dup => "do_OP_2DUP" | K3Dup => "do_OP_3DUP" | K2Over => "do_OP_2OVER"
  | K2Rot => "do_OP_2ROT" | K2Swap => "do_OP_2SWAP" | KIfDup => "do_OP_IFDUP" | KDepth => "do_OP_DEPTH"
  | KDrop => "do_OP_DROP" | KDup => "do_OP_DUP" | KNip => "do_OP_NIP" | KOver => "do_OP_OVER"
  | KPick => "do_OP_PICK" | KRoll => "do_OP_ROLL" | KRot => "do_OP_ROT" | KSwap => "do_OP_SWAP"
  | KTuck => "do_OP_TUCK" | KSize => "do_OP_SIZE" | KEqual => "do_OP_EQUAL" | KEqualVerify => "do_OP_EQUALVERIFY"
  | KUnary _ => "make_unary_num_op._locals_.f"
  | KNot => "do_OP_NOT" | K0NotEqual => "do_OP_0NOTEQUAL"
  | KBin _ => "make_bin_op._locals_.f"
  | KBoolBin _ => "make_bool_bin_op._locals_.f"
  | KNumEqualVerify => "do_OP_NUMEQUALVERIFY" | KWithin => "do_OP_WITHIN"
  | KHash HRipemd160 => "do_OP_RIPEMD160" | KHash HSha1 => "do_OP_SHA1" | KHash HSha256 => "do_OP_SHA256"
  | KHash HHash160 => "do_OP_HASH160" | KHash HHash256 => "do_OP_HASH256"
  | KCodeSeparator => "do_OP_CODESEPARATOR" | KCheckSig => "do_OP_CHECKSIG" | KCheckSigVerify => "do_OP_CHECKSIGVERIFY"
  | KCheckMultiSig => "do_OP_CHECKMULTISIG" | KCheckMultiSigVerify => "do_OP_CHECKMULTISIGVERIFY"
  | KDiscourageNops => "discourage_nops"
  | KCheckLockTimeVerify => "do_OP_CHECKLOCKTIMEVERIFY" | KCheckSequenceVerify => "do_OP_CHECKSEQUENCEVERIFY"
  end.

Definition handler_entry_ok (e : N * string * bool) : bool :=
  let '(n, pyname, outside) := e in
  String.eqb (expected_pyname n) pyname && Bool.eqb (hk_outside (hk n)) outside.

(* all 256 entries of BitcoinVM.INSTRUCTION_LOOKUP as dumped from /repo: same function, same outside_conditional mark *)
Lemma hk_agrees_with_handler_table :
  forallb handler_entry_ok handler_table = true /\
  map (fun e : N * string * bool => fst (fst e)) handler_table = map N.of_nat (seq 0 256).
Proof. split; vm_compute; reflexivity. Qed.
End Tables.

(* the decoder's data opcodes are exactly the opcodes bound to one of the two do-nothing functions *)
Definition is_noop_kind (k : hkind) : bool := match k with KNoOp | KLambda0 => true | _ => false end.
Lemma hk_agrees_with_data_opcodes :
  forallb (fun n => Bool.eqb (is_noop_kind (hk n)) (existsb (N.eqb n) data_opcodes)) (map N.of_nat (seq 0 256)) = true.
Proof. vm_compute. reflexivity. Qed.

(* the limits and flag bits the model reads are the generated ones; their present values *)
Lemma vm_limits_today :
  MAX_SCRIPT_LENGTH = 10000%N /\ MAX_BLOB_LENGTH = 520%N /\ MAX_OP_COUNT = 201%N /\ MAX_STACK_SIZE = 1000%N.
Proof. repeat split; reflexivity. Qed.
