(* Proofs/ComposeTemplatesVerify.v — composition C05 x C03, part 5: Core's VerifyScript around the scriptPubKey
   evaluation: the scriptSig run, the shape tests (IsWitnessProgram, IsPayToScriptHash) on the template scripts,
   and the assembly lemmas for the legacy kinds. *)
From Coq Require Import Lia ZifyBool ZifyNat ZifyN.
From PV Require Import Base.Bytes Base.Outcome Gen.GenFlags Proofs.PushP Spec.Templates.
From PV Require Import Model.ScriptNum Spec.VMTypes Spec.VMcore.
From PV Require Import Proofs.SolveP Proofs.ComposeTemplatesEnc Proofs.ComposeTemplatesEval Proofs.ComposeTemplatesFad
                       Proofs.ComposeTemplatesSingle.
Local Open Scope N_scope.

(* ---- shape tests on the template scripts ------------------------------------------------------------------ *)
Lemma push_data_head d : exists h t, push_data d = h :: t /\ b2n h <= 96 /\
  ((b2n h = lenN t /\ b2n h <= 75) \/ (76 <= b2n h <= 78 /\ 77 <= lenN t) \/ (79 <= b2n h /\ t = [])).
Proof.
  unfold push_data, spec_push. destruct d as [|b [|b2 r]].
  - exists x00, []. split; [reflexivity|]. split; [cbn; lia|left; split; [reflexivity|cbn; lia]].
  - pose proof (b2n_lt b) as Hb. destruct ((1 <=? b2n b) && (b2n b <=? 16)) eqn:E1.
    + exists (n2b (80 + b2n b)), []. split; [reflexivity|]. rewrite b2n_n2b by lia. split; [lia|right; right; split; [lia|reflexivity]].
    + destruct (b2n b =? 129).
      * exists x4f, []. split; [reflexivity|]. change (b2n x4f) with 79. split; [lia|right; right; split; [lia|reflexivity]].
      * exists x01, [b]. split; [reflexivity|]. split; [cbn; lia|left; split; [reflexivity|cbn; lia]].
  - set (n := N.of_nat (length (b :: b2 :: r))).
    destruct (n <=? 75) eqn:E.
    { exists (n2b n), (b :: b2 :: r). split; [reflexivity|]. rewrite b2n_n2b by lia. split; [lia|left; split; [reflexivity|lia]]. }
    destruct (n <=? 255).
    { eexists x4c, _. split; [reflexivity|]. change (b2n x4c) with 76. split; [lia|right; left; split; [lia|]].
      unfold lenN. rewrite app_length, le_encode_length. fold n. lia. }
    destruct (n <=? 65535).
    { eexists x4d, _. split; [reflexivity|]. change (b2n x4d) with 77. split; [lia|right; left; split; [lia|]].
      unfold lenN. rewrite app_length, le_encode_length. fold n. lia. }
    eexists x4e, _. split; [reflexivity|]. change (b2n x4e) with 78. split; [lia|right; left; split; [lia|]].
    unfold lenN. rewrite app_length, le_encode_length. fold n. lia.
Qed.

Lemma not_p2sh_head b t : b2n b <> 169 -> is_pay_to_script_hash (b :: t) = false.
Proof.
  intros H. unfold is_pay_to_script_hash. rewrite at_nthn. change (N.to_nat 0) with 0%nat. unfold nthn. cbn [nth].
  replace (b2n b =? 169) with false by lia. now rewrite andb_false_r.
Qed.

Lemma not_wp_head b t : 1 <= b2n b <= 80 \/ 96 < b2n b -> is_witness_program (b :: t) = None.
Proof.
  intros H. unfold is_witness_program. destruct (_ || _); [reflexivity|]. rewrite !at_nthn.
  change (N.to_nat 0) with 0%nat. unfold nthn at 1 2 3. cbn [nth].
  replace (negb (b2n b =? 0) && ((b2n b <? 81) || (96 <? b2n b))) with true by lia. reflexivity.
Qed.

Lemma not_wp_short s : VMcore.len s < 4 -> is_witness_program s = None.
Proof. intros H. unfold is_witness_program. replace (VMcore.len s <? 4) with true by lia. reflexivity. Qed.

Lemma not_wp_second b0 h t : b2n h + 2 <> VMcore.len (b0 :: h :: t) -> is_witness_program (b0 :: h :: t) = None.
Proof.
  intros H. unfold is_witness_program. destruct (_ || _); [reflexivity|]. destruct (_ && _); [reflexivity|].
  rewrite at_nthn. change (N.to_nat 1) with 1%nat. unfold nthn. cbn [nth].
  replace (b2n h + 2 =? VMcore.len (b0 :: h :: t)) with false by lia. reflexivity.
Qed.

Lemma p2pk_not_p2sh key : is_pay_to_script_hash (p2pk_script key) = false.
Proof.
  unfold p2pk_script. destruct (push_data_head key) as (h & t & E & Hh & _). rewrite E. cbn [app].
  apply not_p2sh_head. lia.
Qed.

Lemma p2pk_not_wp key : is_witness_program (p2pk_script key) = None.
Proof.
  unfold p2pk_script. destruct (push_data_head key) as (h & t & E & Hh & Hc). rewrite E. cbn [app].
  destruct (N.eq_dec (b2n h) 0) as [H0|H0].
  - apply not_wp_short. destruct Hc as [[Hc _]|[Hc|[Hc _]]]; [|lia|lia].
    unfold VMcore.len, lenN in *. cbn [length]. rewrite app_length. cbn [length]. lia.
  - destruct (N.le_gt_cases (b2n h) 80); [apply not_wp_head; lia|].
    destruct Hc as [Hc|[Hc|[_ ->]]]; [lia|lia|]. apply not_wp_short. cbn. lia.
Qed.

Lemma p2pkh_not_p2sh h : is_pay_to_script_hash (p2pkh_script h) = false.
Proof. unfold p2pkh_script. cbn [app]. apply not_p2sh_head. cbn. lia. Qed.
Lemma p2pkh_not_wp h : is_witness_program (p2pkh_script h) = None.
Proof. unfold p2pkh_script. cbn [app]. apply not_wp_head. right. cbn. lia. Qed.

(* ---- VerifyScript around a legacy scriptPubKey ------------------------------------------------------------ *)
Section Verify.
Variable fl : flags.
Variable fw : N.
Hypothesis Hfl : flags_rel fl fw.
Variable o : oracles.
Variable ctx : txctx.

Definition sig_conds (ss : bytes) (items : list bytes) (mn : bool) : bool :=
  negb (10000 <? lenN ss) && negb ((f_std fl && negb mn) || negb (all_le_520 items) || (1000 <? lenN items)).

Lemma eval_script_sig ss items mn : parse_pushes ss = Some (items, mn) ->
  exists e, eval_script_e o fw SV_BASE ctx ss [] = if sig_conds ss items mn then COk (rev items) else CErr e.
Proof.
  intros Hp. rewrite eval_script_fin. unfold sig_conds, MAX_SCRIPT_SIZE. change (VMcore.len ss) with (lenN ss).
  destruct (10000 <? lenN ss); [exists SE_SCRIPT_SIZE; reflexivity|]. cbn [negb andb].
  destruct (crun_pushes o fw SV_BASE ctx _ ss items mn [] 0 ss Hp) as [e He]; [cbn; lia|].
  rewrite He. unfold pushes_ok. rewrite (fr_minimaldata _ _ Hfl). change (lenN []) with 0. rewrite app_nil_r.
  exists e.
  replace (all_le_520 items && negb (f_std fl && negb mn) && (0 + lenN items <=? 1000))
    with (negb (f_std fl && negb mn || negb (all_le_520 items) || (1000 <? lenN items))).
  2:{ destruct (f_std fl && negb mn), (all_le_520 items); cbn [negb orb andb]; lia. }
  destruct (negb _); reflexivity.
Qed.

Lemma top_true_evfalse r : evfalse r -> exists e, cbind r (fun st => cbind (top_true st) (fun _ => COk tt)) = CErr e.
Proof. intros [[e ->]|[t ->]]; eexists; reflexivity. Qed.

(* the scriptPubKey is neither P2SH nor a witness program *)
Lemma verify_legacy ss spk wit items mn :
  parse_pushes ss = Some (items, mn) -> is_witness_program spk = None -> is_pay_to_script_hash spk = false ->
  let sp := {| sp_script_sig := ss; sp_script_pubkey := spk; sp_witness := wit; sp_flags := fw; sp_ctx := ctx |} in
  let r := eval_script_e o fw SV_BASE ctx spk (rev items) in
  (sig_conds ss items mn = false -> exists e, VerifyScriptE o sp = CErr e) /\
  (sig_conds ss items mn = true -> evfalse r -> exists e, VerifyScriptE o sp = CErr e) /\
  (sig_conds ss items mn = true -> forall rest, r = COk ([x01] :: rest) ->
     exists e, VerifyScriptE o sp = if (if f_std fl then is_nil rest else true) && is_nil wit then COk tt else CErr e).
Proof.
  intros Hp Hwp Hp2sh. cbv zeta. unfold VerifyScriptE. cbn [sp_flags sp_ctx sp_script_sig sp_script_pubkey sp_witness].
  rewrite (parse_pushes_push_only _ _ _ _ Hp). cbn [negb]. rewrite andb_false_r.
  destruct (eval_script_sig ss items mn Hp) as [e0 He0]. rewrite He0. rewrite Hwp, Hp2sh.
  rewrite (fr_witness _ _ Hfl), (fr_p2sh _ _ Hfl), (fr_cleanstack _ _ Hfl).
  split; [|split].
  - intros ->. eexists. reflexivity.
  - intros Hc Hev. rewrite Hc. cbn [cbind]. destruct Hev as [[e Hev]|[t Hev]]; rewrite Hev; eexists; reflexivity.
  - intros Hc rest Hr. rewrite Hc. cbn [cbind]. rewrite Hr. cbn [cbind top_true cast_to_bool fst snd andb negb].
    change (b2n x01 =? 0) with false. cbn [cbind fst snd negb andb].
    destruct (f_std fl).
    + destruct rest as [|x rest]; cbn [is_nil length Nat.eqb negb andb].
      * destruct wit as [|w wit]; [exists SE_UNKNOWN_ERROR; reflexivity|].
        cbn [rev]. destruct (rev wit ++ [w]) eqn:Er; [destruct (rev wit); discriminate|]. exists SE_WITNESS_UNEXPECTED. reflexivity.
      * exists SE_CLEANSTACK. reflexivity.
    + cbn [andb]. destruct wit as [|w wit]; [exists SE_UNKNOWN_ERROR; reflexivity|].
      cbn [rev]. destruct (rev wit ++ [w]) eqn:Er; [destruct (rev wit); discriminate|]. exists SE_WITNESS_UNEXPECTED. reflexivity.
Qed.
End Verify.

(* ---- more shape tests: multisig, P2SH, witness v0 scripts --------------------------------------------------- *)
Lemma not_wp_long s : 42 < VMcore.len s -> is_witness_program s = None.
Proof. intros H. unfold is_witness_program. replace (42 <? VMcore.len s) with true by lia. now rewrite orb_true_r. Qed.

Lemma ms_not_p2sh m keys : is_pay_to_script_hash (ms_script m keys) = false.
Proof.
  unfold ms_script, num_push. destruct (push_data_head (if (m =? 0)%nat then [] else [n2b (N.of_nat m)])) as (h & t & E & Hh & _).
  rewrite E. cbn [app]. apply not_p2sh_head. lia.
Qed.

Lemma num_push_cases m : (1 <= m <= 20)%nat ->
  (exists b, num_push m = [b] /\ 81 <= b2n b <= 96) \/ (exists b, num_push m = [x01; b]).
Proof.
  intros H. do 21 (destruct m as [|m]; [try lia; first [left; eexists; split; [reflexivity|vm_compute; split; discriminate]
                                                       |right; eexists; reflexivity]|]). lia.
Qed.

Lemma ms_not_wp m keys : (1 <= m <= length keys)%nat -> (length keys <= 20)%nat ->
  is_witness_program (ms_script m keys) = None.
Proof.
  intros Hm Hn. unfold ms_script.
  destruct (num_push_cases m ltac:(lia)) as [(b & E & Hb)|(b & E)]; rewrite E.
  2:{ cbn [app]. apply not_wp_head. left. cbn. lia. }
  destruct keys as [|k1 kr]; [cbn in Hm; lia|]. cbn [flat_map].
  destruct (push_data_head k1) as (h & t & Ek & Hh & Hc). rewrite Ek. cbn [app].
  set (R := flat_map push_data kr ++ num_push (length (k1 :: kr)) ++ [xae]).
  assert (HR : (2 <= length R)%nat).
  { unfold R. rewrite !app_length.
    assert (Hp : forall k, (1 <= length (num_push k))%nat) by (intros k; unfold num_push; apply push_data_nonempty).
    pose proof (Hp (length (k1 :: kr))). change (length [xae]) with 1%nat. lia. }
  rewrite <- app_assoc. fold R.
  destruct (N.lt_ge_cases 42 (VMcore.len (b :: h :: t ++ R))) as [Hl|Hl]; [now apply not_wp_long|].
  apply not_wp_second. unfold VMcore.len, lenN in *. cbn [length] in *. rewrite app_length in *.
  destruct Hc as [[Hc _]|[[Hc1 Hc2]|[Hc ->]]]; [lia|lia|]. cbn [length] in *. lia.
Qed.

Lemma push_data_direct d : 2 <= lenN d <= 75 -> push_data d = n2b (lenN d) :: d.
Proof.
  intros H. unfold push_data, spec_push, lenN in *. destruct d as [|b [|b2 r]]; [cbn in H; lia|cbn in H; lia|].
  replace (N.of_nat (length (b :: b2 :: r)) <=? 75) with true by lia. reflexivity.
Qed.

Lemma wit0_is_wp prog : 2 <= lenN prog <= 40 -> is_witness_program (wit0_script prog) = Some (0, prog).
Proof.
  intros H. unfold wit0_script. rewrite push_data_direct by lia. cbn [app]. unfold is_witness_program.
  assert (Hl : VMcore.len (x00 :: n2b (lenN prog) :: prog) = lenN prog + 2) by (unfold VMcore.len, lenN; cbn [length]; lia).
  rewrite Hl. replace ((lenN prog + 2 <? 4) || (42 <? lenN prog + 2)) with false by lia.
  rewrite !at_nthn. change (N.to_nat 0) with 0%nat. change (N.to_nat 1) with 1%nat. unfold nthn. cbn [nth].
  change (b2n x00) with 0. cbn [N.eqb negb andb]. rewrite b2n_n2b by lia. rewrite N.eqb_refl. reflexivity.
Qed.

Lemma wit0_not_p2sh prog : is_pay_to_script_hash (wit0_script prog) = false.
Proof. unfold wit0_script. cbn [app]. apply not_p2sh_head. cbn. lia. Qed.

Lemma p2sh_is_p2sh H : length H = 20%nat -> is_pay_to_script_hash (p2sh_script H) = true.
Proof.
  intros Hl. unfold p2sh_script. rewrite push_data_direct by (unfold lenN; lia). unfold lenN. rewrite Hl.
  cbn [app]. unfold is_pay_to_script_hash, VMcore.len. cbn [length]. rewrite app_length, Hl. cbn [length].
  rewrite !at_nthn. change (N.to_nat 0) with 0%nat. change (N.to_nat 1) with 1%nat. change (N.to_nat 22) with 22%nat.
  unfold nthn. cbn [nth]. rewrite app_nth2 by lia. rewrite Hl. reflexivity.
Qed.

Lemma p2sh_not_wp H : is_witness_program (p2sh_script H) = None.
Proof. unfold p2sh_script. cbn [app]. apply not_wp_head. right. cbn. lia. Qed.
