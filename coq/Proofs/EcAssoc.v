(* Proofs/EcAssoc.v — premise M4 (associativity of chord-and-tangent addition on the valid points) PROVED.

   Log of what is proved (no hypothesis left, no axiom: every Print Assumptions below says "Closed under the global context")
   * Proofs/EcAssocAlg.v  : abstract field F (record `fld`: carrier, operations, `field_theory` over Leibniz equality,
       decidable equality, 1+1 <> 0) and curve (record `ecurve`: a, b, 4a^3+27b^2 <> 0).  Chord / tangent formulas
       cx cy tx ty; closure (chord_oc, tan_oc); (P+Q)-Q = P at the level of coordinates (sub_tan_gen, sub_chord_gen,
       sub_chord_tan, chord_sing: the only place where the discriminant is used); the five associativity identities
       I1 (four chords), I2 ((Q+Q)+R = Q+(Q+R)), I3 ((P+Q)+(P+Q) = P+(Q+(P+Q))), I4 ((P+P)+(P+P) = P+(P+(P+P))),
       I5 (doubling commutes with translation by a point of order two), each for both coordinates, closed by `field`.
   * Proofs/EcAssocGrp.v  : points `ept`, `eadd`, `eneg`; closure, commutativity, -(P+Q) = -P + -Q,
       eadd_sub : (P+Q)-Q = P, cancellation, and
       eadd_assoc : eon P -> eon Q -> eon R -> eadd (eadd P Q) R = eadd P (eadd Q R)        (all cases).
   * Proofs/EcAssocFp.v   : Z/p (p prime, p <> 2) as an `fld` (reduced representatives; inverse = the model's inverse_mod);
       `spec_add` computes `eadd` (emb_spec_add); gadd_assoc.
   * this file            : M4_holds and the three shipped curves. *)
From Coq Require Import ZArith Znumtheory Lia List.
From PV Require Import Model.Curve Spec.Weierstrass Gen.GenCurves Proofs.CurveAddP Proofs.CurveP
  Proofs.CurvePrimesEc Proofs.ComposeEcC01 Proofs.EcAssocAlg Proofs.EcAssocGrp Proofs.EcAssocFp.
Local Open Scope Z_scope.

(* the side conditions actually needed: p an odd prime, non-singular curve *)
Theorem M4_holds_odd : forall c : curve,
  prime (cp c) -> cp c <> 2 -> (4 * ca c ^ 3 + 27 * cb c ^ 2) mod cp c <> 0 -> M4 c.
Proof. intros c Hp Hp2 Hd P Q R. exact (gadd_assoc c Hp Hp2 Hd P Q R). Qed.

Theorem M4_holds : forall c : curve,
  prime (cp c) -> 3 < cp c -> (4 * ca c ^ 3 + 27 * cb c ^ 2) mod cp c <> 0 -> M4 c.
Proof. intros c Hp H3. apply M4_holds_odd; [exact Hp | lia]. Qed.

(* the non-singularity condition cannot be dropped: on the nodal cubic y^2 = x^3 - 3x + 2 over F_7 *)
Example M4_needs_nonsingular :
  let c := {| cp := 7; ca := 4; cb := 2; cn := 0 |} in
  (4 * ca c ^ 3 + 27 * cb c ^ 2) mod cp c = 0 /\ ~ M4 c.
Proof.
  split; [reflexivity|]. intros H.
  specialize (H (Some (1, 0)) (Some (1, 0)) (Some (2, 2))).
  assert (V1 : valid {| cp := 7; ca := 4; cb := 2; cn := 0 |} (Some (1, 0))) by (split; cbn; [reflexivity | lia]).
  assert (V2 : valid {| cp := 7; ca := 4; cb := 2; cn := 0 |} (Some (2, 2))) by (split; cbn; [reflexivity | lia]).
  specialize (H V1 V1 V2). vm_compute in H. discriminate.
Qed.

(* ---- the shipped curves ---- *)
Theorem M4_secp256k1 : M4 secp256k1_curve.
Proof.
  apply M4_holds.
  - exact prime_secp256k1_p.
  - vm_compute. reflexivity.
  - vm_compute. discriminate.
Qed.

Theorem M4_secp256r1 :
  M4 {| cp := secp256r1_p; ca := secp256r1_a; cb := secp256r1_b; cn := secp256r1_n |}.
Proof.
  apply M4_holds.
  - exact prime_secp256r1_p.
  - vm_compute. reflexivity.
  - vm_compute. discriminate.
Qed.

Theorem M4_bls12_381_g1 :
  M4 {| cp := bls12_381_g1_p; ca := bls12_381_g1_a; cb := bls12_381_g1_b; cn := bls12_381_g1_n |}.
Proof.
  apply M4_holds.
  - exact prime_bls12_381_g1_p.
  - vm_compute. reflexivity.
  - vm_compute. discriminate.
Qed.

(* every row of the regenerated table Gen/GenCurves.shipped_curves (the form used by Proofs/CurveP.shipped_fixed_base) *)
Theorem M4_shipped t : In t shipped_curves -> M4 (shipped_curve t).
Proof.
  intros [<-|[<-|[<-|[]]]]; [exact M4_secp256k1 | exact M4_secp256r1 | exact M4_bls12_381_g1].
Qed.

Print Assumptions M4_holds_odd.
Print Assumptions M4_holds.
Print Assumptions M4_secp256k1.
Print Assumptions M4_secp256r1.
Print Assumptions M4_bls12_381_g1.
Print Assumptions M4_shipped.
