(* Proofs/Bech32DetectP.v — C11, part 3: the Bech32 checksum detects every error of up to four symbols.
   Linearity (Proofs/Bech32P.v) + injectivity of the register step reduce the claim to a finite statement
   about syndromes S[d][b] = lstep^d(b), 1 <= d <= 88, 1 <= b <= 31, which is decided INSIDE THE KERNEL by a
   meet-in-the-middle sweep (vm_compute over a PositiveSet). *)
From PV Require Import Base.Bytes Base.Outcome Gen.GenCodecsC11 Model.Base58 Model.Bech32
  Proofs.Base58P Proofs.Bech32P.
From Coq Require Import ZifyBool ZifyNat ZifyN MSetPositive.
Local Open Scope Z_scope.

(* ---- the register step is injective on 30-bit states --------------------------------------------------- *)
Definition top_kernel_ok (top : nat) : bool :=
  negb (Z.land (xg bech32_generator 0 (Z.of_nat top)) 31 =? 0) || (Z.of_nat top =? 0).
Lemma top_kernel_sweep : forallb top_kernel_ok (seq 0 32) = true.
Proof. vm_compute. reflexivity. Qed.

Lemma land31_shiftl5 y : Z.land (Z.shiftl y 5) 31 = 0.
Proof.
  apply Z.bits_inj'. intros n Hn. rewrite Z.land_spec, Z.bits_0.
  destruct (Z_lt_dec n 5).
  - now rewrite Z.shiftl_spec_low by lia.
  - change 31 with (Z.ones 5). rewrite Z.ones_spec_high by lia. apply andb_false_r.
Qed.

Lemma lstep_kernel x : small x -> lstep x = 0 -> x = 0.
Proof.
  unfold small. intros Hx E. unfold lstep in E.
  change polymod_top_shift with 25 in E. change polymod_shift with 5 in E. rewrite mask_ones in E.
  set (top := Z.shiftr x 25) in *. set (low := Z.land x (Z.ones 25)) in *.
  apply Z.lxor_eq in E.
  assert (Htop : 0 <= top < 32).
  { unfold top. rewrite Z.shiftr_div_pow2 by lia. split; [apply Z.div_pos; lia|].
    apply Z.div_lt_upper_bound; lia. }
  assert (Hg : Z.land (xg bech32_generator 0 top) 31 = 0) by (rewrite <- E; apply land31_shiftl5).
  pose proof (proj1 (forallb_forall _ _) top_kernel_sweep (Z.to_nat top) ltac:(apply in_seq; lia)) as K.
  unfold top_kernel_ok in K. replace (Z.of_nat (Z.to_nat top)) with top in K by lia.
  rewrite Hg in K. cbn [Z.eqb negb orb] in K. assert (top = 0) by lia.
  assert (Hlow : low = 0).
  { rewrite H, xg_0 in E. rewrite Z.shiftl_mul_pow2 in E by lia. lia. }
  unfold low in Hlow. rewrite Z.land_ones in Hlow by lia.
  unfold top in H. rewrite Z.shiftr_div_pow2 in H by lia.
  pose proof (Z.div_mod x (2 ^ 25) ltac:(lia)). lia.
Qed.

Lemma lstep_inj a b : small a -> small b -> lstep a = lstep b -> a = b.
Proof.
  intros Ha Hb E. apply Z.lxor_eq. apply lstep_kernel; [now apply small_lxor|].
  rewrite lstep_lxor, E. apply Z.lxor_nilpotent.
Qed.

(* ---- iterated step ------------------------------------------------------------------------------------------ *)
Fixpoint S_ (d : nat) (b : Z) : Z :=
  match d with O => b | S d' => lstep (S_ d' b) end.

Lemma S_lxor d a b : S_ d (Z.lxor a b) = Z.lxor (S_ d a) (S_ d b).
Proof. induction d as [|d IH]; cbn [S_]; [reflexivity|]. now rewrite IH, lstep_lxor. Qed.
Lemma S_0 d : S_ d 0 = 0.
Proof. induction d as [|d IH]; cbn [S_]; [reflexivity|]. now rewrite IH, lstep_0. Qed.
Lemma S_small d b : small b -> small (S_ d b).
Proof. intros Hb. induction d as [|d IH]; cbn [S_]; [exact Hb|]. apply lstep_small. Qed.
Lemma S_succ_r d b : S_ (S d) b = S_ d (lstep b).
Proof. induction d as [|d IH]; [reflexivity|]. cbn [S_] in *. now rewrite IH. Qed.
Lemma S_inj d a b : small a -> small b -> S_ d a = S_ d b -> a = b.
Proof.
  intros Ha Hb. induction d as [|d IH]; [auto|]. cbn [S_]. intros E.
  apply IH. apply lstep_inj; [apply S_small..|]; assumption.
Qed.

(* the register started at 0 *)
Definition lin (e : list Z) : Z := pm_from 0 e.

Lemma pm_from_state e : forall s, pm_from s e = Z.lxor (S_ (length e) s) (lin e).
Proof.
  unfold lin. induction e as [|v r IH]; intros s.
  - cbn. now rewrite Z.lxor_0_r.
  - cbn [pm_from fold_left length]. fold (pm_from (polymod_step s v) r) (pm_from (polymod_step 0 v) r).
    rewrite (IH (polymod_step s v)), (IH (polymod_step 0 v)), !step_lstep, lstep_0, Z.lxor_0_l.
    rewrite S_succ_r, S_lxor. now rewrite Z.lxor_assoc.
Qed.

Lemma lin_cons v r : lin (v :: r) = Z.lxor (S_ (length r) v) (lin r).
Proof.
  unfold lin at 1. cbn [pm_from fold_left]. fold (pm_from (polymod_step 0 v) r).
  now rewrite step_lstep, lstep_0, Z.lxor_0_l, pm_from_state.
Qed.

Lemma lin_snoc e v : lin (e ++ [v]) = Z.lxor (lstep (lin e)) v.
Proof. unfold lin. rewrite pm_from_app. cbn [pm_from fold_left]. apply step_lstep. Qed.

Lemma lin_small e : syms5 e -> small (lin e).
Proof. intros. apply pm_from_small; [assumption|apply small_0]. Qed.

(* ---- the finite statement and its sweep ------------------------------------------------------------------- *)
Definition vals31 : list Z := map Z.of_nat (seq 1 31).
Definition singles : list Z := flat_map (fun d => map (fun b => S_ d b) vals31) (seq 1 88).
Definition Z0 : list Z := 0 :: singles.

Lemma vals31_in a : 1 <= a <= 31 -> In a vals31.
Proof. intros H. apply in_map_iff. exists (Z.to_nat a). split; [lia|apply in_seq; lia]. Qed.

Lemma singles_in d b : (1 <= d <= 88)%nat -> 1 <= b <= 31 -> In (S_ d b) singles.
Proof.
  intros Hd Hb. apply in_flat_map. exists d. split; [apply in_seq; lia|].
  apply in_map_iff. exists b. split; [reflexivity|now apply vals31_in].
Qed.

Definition key (z : Z) : positive := Z.to_pos (Z.succ z).

Fixpoint all_pairs {A} (P : A -> A -> bool) (l : list A) : bool :=
  match l with
  | [] => true
  | x :: r => forallb (P x) r && all_pairs P r
  end.

Lemma all_pairs_sym {A} (P : A -> A -> bool) l :
  (forall x y, P x y = P y x) -> (forall x, In x l -> P x x = true) -> all_pairs P l = true ->
  forall x y, In x l -> In y l -> P x y = true.
Proof.
  intros Hsym. induction l as [|z r IH]; intros Hd Hall x y Hx Hy; [destruct Hx|].
  cbn [all_pairs] in Hall. apply andb_true_iff in Hall. destruct Hall as [H1 H2].
  pose proof (proj1 (forallb_forall _ _) H1) as F.
  destruct Hx as [<-|Hx], Hy as [<-|Hy].
  - apply Hd. now left.
  - now apply F.
  - rewrite Hsym. now apply F.
  - apply IH; auto. intros w Hw. apply Hd. now right.
Qed.

(* the logic of the meet-in-the-middle argument, for an ARBITRARY table and set (nothing to unfold) *)
Section SweepLogic.
Variables (vals sing : list Z) (ts : PositiveSet.t).
Definition notin_of (z : Z) : bool := negb (PositiveSet.mem (key z) ts).
Definition sweep_of : bool :=
  forallb notin_of (0 :: sing) && all_pairs (fun u v => notin_of (Z.lxor u v)) sing.
Hypothesis Hmem : forall a x, In a vals -> In x (0 :: sing) -> PositiveSet.mem (key (Z.lxor a x)) ts = true.
Hypothesis Hsweep : sweep_of = true.

Lemma notin_pairs u v : In u (0 :: sing) -> In v (0 :: sing) -> notin_of (Z.lxor u v) = true.
Proof.
  pose proof Hsweep as Sw. unfold sweep_of in Sw. apply andb_true_iff in Sw. destruct Sw as [S1 S2].
  pose proof (proj1 (forallb_forall _ _) S1) as F1.
  intros [<-|Hu] [<-|Hv].
  - apply F1. left. reflexivity.
  - rewrite Z.lxor_0_l. apply F1. right. exact Hv.
  - rewrite Z.lxor_0_r. apply F1. right. exact Hu.
  - apply (all_pairs_sym (fun u v => notin_of (Z.lxor u v)) sing); try assumption.
    + intros x y. rewrite Z.lxor_comm. reflexivity.
    + intros x _. rewrite Z.lxor_nilpotent. apply F1. left. reflexivity.
Qed.

Lemma sweep_logic : forall a x u v, In a vals -> In x (0 :: sing) -> In u (0 :: sing) -> In v (0 :: sing) ->
  Z.lxor (Z.lxor a x) (Z.lxor u v) <> 0.
Proof.
  intros a x u v Ha Hx Hu Hv E. apply Z.lxor_eq in E.
  pose proof (Hmem a x Ha Hx) as M. pose proof (notin_pairs u v Hu Hv) as N.
  unfold notin_of in N. rewrite <- E, M in N. discriminate.
Qed.
End SweepLogic.

Definition tkeys : list positive := flat_map (fun a => map (fun x => key (Z.lxor a x)) Z0) vals31.
Definition tset : PositiveSet.t := fold_left (fun s k => PositiveSet.add k s) tkeys PositiveSet.empty.

(* 84 599 keys in the set, 3 719 628 pair sums looked up *)
Lemma sweep_true : sweep_of singles tset = true.
Proof. vm_cast_no_check (eq_refl true). Qed.

Lemma fold_add_mem l : forall s k, In k l \/ PositiveSet.mem k s = true ->
  PositiveSet.mem k (fold_left (fun s k => PositiveSet.add k s) l s) = true.
Proof.
  induction l as [|x r IH]; intros s k H; cbn [fold_left].
  - destruct H as [[]|H]; exact H.
  - apply IH. destruct H as [[->|H]|H]; [right|left; exact H|right].
    + apply PositiveSet.mem_spec, PositiveSet.add_spec. now left.
    + apply PositiveSet.mem_spec, PositiveSet.add_spec. right. now apply PositiveSet.mem_spec.
Qed.

Lemma tset_mem a x : In a vals31 -> In x (0 :: singles) -> PositiveSet.mem (key (Z.lxor a x)) tset = true.
Proof.
  intros Ha Hx. unfold tset. apply fold_add_mem. left. unfold tkeys.
  apply in_flat_map. exists a. split; [exact Ha|]. apply in_map_iff. exists x. split; [reflexivity|exact Hx].
Qed.

(* the finite statement: one error of value a at distance 0 plus at most three more at distances 1..88 never
   has syndrome zero *)
Theorem sweep_statement : forall a x u v, In a vals31 -> In x Z0 -> In u Z0 -> In v Z0 ->
  Z.lxor (Z.lxor a x) (Z.lxor u v) <> 0.
Proof. exact (sweep_logic vals31 singles tset tset_mem sweep_true). Qed.

(* ---- lifting: every error pattern of weight 1..4 and length <= 89 has a non-zero syndrome ------------------- *)
Definition weight (e : list Z) : nat := length (filter (fun v => negb (v =? 0)) e).

Fixpoint xor_all (l : list Z) : Z :=
  match l with [] => 0 | x :: r => Z.lxor x (xor_all r) end.

Lemma weight_cons v r : weight (v :: r) = ((if (v =? 0)%Z then 0%nat else 1%nat) + weight r)%nat.
Proof. unfold weight. cbn [filter]. destruct (v =? 0); reflexivity. Qed.

Lemma weight_app a b : weight (a ++ b) = (weight a + weight b)%nat.
Proof. unfold weight. now rewrite filter_app, app_length. Qed.

Lemma xor_all_zeros k : xor_all (repeat 0 k) = 0.
Proof. induction k as [|k IH]; cbn [repeat xor_all]; [reflexivity|]. now rewrite IH. Qed.

(* lstep (lin e) is the xor of at most `weight e` single syndromes at distances 1..|e| *)
Lemma syndrome_decomposition e : syms5 e -> (length e <= 88)%nat -> forall k, (weight e <= k)%nat ->
  exists l, length l = k /\ Forall (fun x => In x Z0) l /\ lstep (lin e) = xor_all l.
Proof.
  induction 1 as [|v r Hv Hr IH]; intros Hlen k Hw.
  - exists (repeat 0 k). split; [apply repeat_length|]. split.
    + apply Forall_forall. intros x Hx. apply repeat_spec in Hx. subst. left. reflexivity.
    + rewrite xor_all_zeros. apply lstep_0.
  - cbn [length] in Hlen. rewrite weight_cons in Hw. rewrite lin_cons, lstep_lxor.
    destruct (v =? 0) eqn:E0.
    + assert (v = 0) by lia. subst v. change (lstep (S_ (length r) 0)) with (S_ (S (length r)) 0).
      rewrite S_0, Z.lxor_0_l. apply IH; lia.
    + destruct k as [|k]; [lia|]. destruct (IH ltac:(lia) k ltac:(lia)) as (l & Hl & Hin & E).
      exists (S_ (S (length r)) v :: l). split; [cbn [length]; lia|]. split.
      * constructor; [|exact Hin]. right. apply singles_in; lia.
      * cbn [xor_all]. rewrite <- E. reflexivity.
Qed.

Theorem weight_le4_nonzero : forall e, syms5 e -> (length e <= 89)%nat -> (1 <= weight e <= 4)%nat ->
  lin e <> 0.
Proof.
  induction e as [|a e IH] using rev_ind; intros Hs Hlen Hw; [cbn in Hw; lia|].
  apply Forall_app in Hs. destruct Hs as [Hs Ha]. inversion Ha as [|? ? Ha' _]; subst.
  rewrite app_length in Hlen. cbn [length] in Hlen.
  rewrite weight_app, weight_cons in Hw. change (weight []) with 0%nat in Hw.
  rewrite lin_snoc. destruct (a =? 0) eqn:E0.
  - assert (a = 0) by lia. subst a. rewrite Z.lxor_0_r. intros E.
    apply (IH Hs ltac:(lia) ltac:(lia)).
    apply lstep_inj; [now apply lin_small|apply small_0|]. now rewrite lstep_0.
  - destruct (syndrome_decomposition e Hs ltac:(lia) 3%nat ltac:(lia)) as (l & Hl & Hin & E).
    destruct l as [|x [|u [|v [|? ?]]]]; try discriminate.
    inversion Hin as [|? ? Hx Hin1]; subst. inversion Hin1 as [|? ? Hu Hin2]; subst.
    inversion Hin2 as [|? ? Hv _]; subst.
    rewrite E. cbn [xor_all]. rewrite Z.lxor_0_r.
    pose proof (sweep_statement a x u v (vals31_in a ltac:(lia)) Hx Hu Hv) as K.
    intros E2. apply K. rewrite <- E2.
    apply Z.bits_inj'. intros n _. rewrite !Z.lxor_spec.
    destruct (Z.testbit a n), (Z.testbit x n), (Z.testbit u n), (Z.testbit v n); reflexivity.
Qed.

(* ---- two runs of the register from the same state -------------------------------------------------------------- *)
Definition hamming (d d' : list Z) : nat := weight (zipxor d d').

Lemma lxor_range5 a b : 0 <= a < 32 -> 0 <= b < 32 -> 0 <= Z.lxor a b < 32.
Proof.
  intros Ha Hb.
  assert (H0 : 0 <= Z.lxor a b) by (apply Z.lxor_nonneg; lia).
  split; [exact H0|].
  destruct (Z.eq_dec (Z.lxor a b) 0) as [->|Hnz]; [lia|].
  change 32 with (2 ^ 5). apply Z.log2_lt_pow2; [lia|].
  pose proof (Z.log2_lxor a b ltac:(lia) ltac:(lia)) as Hl.
  assert (La : Z.log2 a < 5).
  { destruct (Z.eq_dec a 0) as [->|]; [cbn; lia|]. apply Z.log2_lt_pow2; [lia|]. change (2 ^ 5) with 32. lia. }
  assert (Lb : Z.log2 b < 5).
  { destruct (Z.eq_dec b 0) as [->|]; [cbn; lia|]. apply Z.log2_lt_pow2; [lia|]. change (2 ^ 5) with 32. lia. }
  lia.
Qed.

Lemma zipxor_range d : forall d', syms5 d -> syms5 d' -> syms5 (zipxor d d').
Proof.
  induction d as [|x r IH]; intros [|y r'] H1 H2; cbn [zipxor]; try constructor.
  - inversion H1; inversion H2; subst. now apply lxor_range5.
  - inversion H1; inversion H2; subst. now apply IH.
Qed.

Lemma zipxor_length d : forall d', length d = length d' -> length (zipxor d d') = length d.
Proof. induction d as [|x r IH]; intros [|y r'] H; cbn in *; try lia. rewrite IH; lia. Qed.

(* the checksum register distinguishes any two symbol strings of the same length <= 89 that differ in one
   to four positions *)
Theorem register_detects_4_errors : forall s0 d d', syms5 d -> syms5 d' -> length d = length d' ->
  (length d <= 89)%nat -> (1 <= hamming d d' <= 4)%nat -> pm_from s0 d <> pm_from s0 d'.
Proof.
  intros s0 d d' H1 H2 Hl Hlen Hh E.
  pose proof (pm_from_lxor d d' s0 s0 Hl) as L. rewrite E, !Z.lxor_nilpotent in L.
  apply (weight_le4_nonzero (zipxor d d')); try assumption.
  - now apply zipxor_range.
  - rewrite zipxor_length; assumption.
  - symmetry. exact L.
Qed.

(* ... hence bech32_verify_checksum cannot report the SAME encoding for both *)
Theorem verify_detects_4_errors : forall hrp d d' spec, syms5 d -> syms5 d' -> length d = length d' ->
  (length d <= 89)%nat -> (1 <= hamming d d' <= 4)%nat ->
  bech32_verify_checksum hrp d = Some spec -> bech32_verify_checksum hrp d' <> Some spec.
Proof.
  intros hrp d d' spec H1 H2 Hl Hlen Hh V1 V2.
  unfold bech32_verify_checksum in V1, V2. rewrite !polymod_pm_from, !pm_from_app in V1, V2.
  set (s0 := pm_from polymod_init (bech32_hrp_expand hrp)) in *.
  pose proof (register_detects_4_errors s0 d d' H1 H2 Hl Hlen Hh) as K.
  destruct (pm_from s0 d =? 1) eqn:A1.
  - injection V1 as <-. destruct (pm_from s0 d' =? 1) eqn:B1; [lia|].
    destruct (pm_from s0 d' =? bech32m_const); [|discriminate]. injection V2 as V2. vm_compute in V2. discriminate.
  - destruct (pm_from s0 d =? bech32m_const) eqn:A2; [|discriminate]. injection V1 as <-.
    destruct (pm_from s0 d' =? 1) eqn:B1; [injection V2 as V2; vm_compute in V2; discriminate|].
    destruct (pm_from s0 d' =? bech32m_const) eqn:B2; [lia|discriminate].
Qed.
