(* Proofs/ComposeEcSighashC05.v — composition C05 x C04: the digest function of C05's interface
       sighash : witness v0? -> hash type -> script code -> option digest
   instantiated, for input `idx` of transaction `t` on coin `c`, by C04's model of what pycoin's signer asks its
   SolutionChecker (harness/c05.py `_o_sighash` is the same thing on the implementation):
       witness v0      _signature_for_hash_type_segwit(script_code, idx, hash_type)     Model/Sighash.v signature_for_hash_type_segwit
       otherwise       _signature_hash(script_code, idx, hash_type)                      Model/Sighash.v signature_hash
   Python passes the INTEGER on to generator.sign / verify; C05's interface carries digests as byte strings, so the integer
   is written big-endian on 32 bytes (ComposeEcC05's `bz` reads it back: c04_digest_int).  None = the call raises (ScriptError:
   the coin refuses the hash type, e.g. no fork-id bit on BCH / BTG), or the value does not fit 32 bytes (impossible for a
   32-byte hash function; the SIGHASH_SINGLE bug value is 2^248).  No proofs of C04 are needed: C05 asks nothing of sighash. *)
From Coq Require Import ZArith List Lia.
From PV Require Import Base.Bytes Base.Outcome Model.Sighash Proofs.ComposeEcC05.
From Coq Require Import ZifyBool ZifyNat ZifyN.
Import ListNotations.
Local Open Scope N_scope.

Definition to_digest (o : outcome N) : option bytes :=
  match o with
  | Ret v => if v <? 2 ^ 256 then Some (be_encode 32 v) else None
  | _ => None
  end.

Section C04.
Variables sha256 dsha256 : bytes -> bytes.
Variable c : coin.
Variable t : tx.
Variable idx : nat.

Definition c04_digest_int (wit : bool) (ht : N) (sc : bytes) : outcome N :=
  if wit then signature_for_hash_type_segwit sha256 dsha256 c t sc idx ht
  else signature_hash sha256 dsha256 c t sc idx ht.

Definition c04_sighash (wit : bool) (ht : N) (sc : bytes) : option bytes := to_digest (c04_digest_int wit ht sc).

(* a produced digest IS the integer the SolutionChecker returned *)
Lemma c04_digest_value wit ht sc d : c04_sighash wit ht sc = Some d ->
  exists v, c04_digest_int wit ht sc = Ret v /\ v < 2 ^ 256 /\ d = be_encode 32 v /\ bz d = Z.of_N v.
Proof.
  unfold c04_sighash, to_digest. destruct (c04_digest_int wit ht sc) as [v| |]; try discriminate.
  destruct (v <? 2 ^ 256) eqn:E; [|discriminate]. intros H. injection H as <-.
  exists v. split; [reflexivity|]. split; [lia|]. split; [reflexivity|].
  unfold bz. rewrite be_decode_encode; [reflexivity|]. change (256 ^ N.of_nat 32) with (2 ^ 256). lia.
Qed.

(* the digest is defined exactly when the SolutionChecker returns (a 256-bit value) *)
Lemma c04_defined wit ht sc : c04_sighash wit ht sc <> None <-> exists v, c04_digest_int wit ht sc = Ret v /\ v < 2 ^ 256.
Proof.
  unfold c04_sighash, to_digest. destruct (c04_digest_int wit ht sc) as [v| |].
  - destruct (v <? 2 ^ 256) eqn:E; split.
    + intros _. exists v. split; [reflexivity|lia].
    + discriminate.
    + intros H. now elim H.
    + intros (v' & Hv & Hlt). injection Hv as <-. lia.
  - split; [intros H; now elim H | intros (v & Hv & _); discriminate].
  - split; [intros H; now elim H | intros (v & Hv & _); discriminate].
Qed.
End C04.
