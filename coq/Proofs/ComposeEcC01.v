(* Proofs/ComposeEcC01.v — composition C01/C17 x C02, part 3: the premises packaged; the order of G; the shipped
   secp256k1 generator (side conditions decided by vm_compute on Gen/GenCurves.v) and a toy generator on which
   every premise is decided by vm_compute.

   Mathematical premises (never axioms): M1 c (p prime), M4 c (associativity of chord-and-tangent addition),
   order_kills c G (n*G = O), prime n (M2).  (For the shipped secp256k1 / secp256r1 generators all four are proved in
   Proofs/ComposeEcShipped.v — M4 by Proofs/EcAssoc.v — nothing is left there.)   Decidable side conditions, one boolean `ec_sideb g`:
   G on the curve, G reduced, G finite, p = 3 mod 4, n odd, n <= 2^bit_count. *)
From Coq Require Import ZArith Lia Znumtheory Bool List.
From PV Require Import Base.Outcome Model.Curve Spec.Weierstrass Spec.EcdsaSpec Gen.GenCurves
  Proofs.CurveInvP Proofs.CurveAddP Proofs.CurveGroupP Proofs.CurveMulP Proofs.CurveSqrtP Proofs.CurveToy Proofs.CurveP
  Proofs.ComposeEcGroup Proofs.ComposeEcInst.
Import ListNotations.
Local Open Scope Z_scope.

Definition finiteb (P : pt) : bool := match P with Some _ => true | None => false end.

Definition ec_sideb (g : gen) : bool :=
  let c := gc g in
  contains_point c (gG g) && reducedb c (gG g) && finiteb (gG g) &&
  (cp c mod 4 =? 3) && Z.odd (cn c) && (cn c <=? 2 ^ Z.of_nat (g_bits g)).

Section Composed.
Variable g : gen.
Notation c := (gc g).
Hypothesis HM1 : M1 c.
Hypothesis HM4 : M4 c.
Hypothesis HnG : order_kills c (gG g).
Hypothesis HM2 : prime (cn c).
Hypothesis Hside : ec_sideb g = true.

Lemma side_facts : contains_point c (gG g) = true /\ reduced c (gG g) /\ gG g <> None /\ cp c mod 4 = 3 /\
  Z.odd (cn c) = true /\ cn c <= 2 ^ Z.of_nat (g_bits g).
Proof.
  pose proof Hside as H. unfold ec_sideb in H. cbv zeta in H.
  apply andb_prop in H. destruct H as [H K6]. apply andb_prop in H. destruct H as [H K5].
  apply andb_prop in H. destruct H as [H K4]. apply andb_prop in H. destruct H as [H K3].
  apply andb_prop in H. destruct H as [K1 K2].
  split; [exact K1|]. split; [now apply reducedb_iff|]. split.
  { intros E. rewrite E in K3. discriminate K3. }
  split; [now apply Z.eqb_eq|]. split; [exact K5|now apply Z.leb_le].
Qed.

Lemma c_mod4 : cp c mod 4 = 3.
Proof. apply side_facts. Qed.
Lemma c_odd : Z.odd (cn c) = true.
Proof. apply side_facts. Qed.
Lemma c_bits : cn c <= 2 ^ Z.of_nat (g_bits g).
Proof. apply side_facts. Qed.
Local Notation Hmod4 := c_mod4.
Local Notation Hodd := c_odd.
Local Notation Hbits := c_bits.

Lemma c_npos : 0 < cn c.
Proof. pose proof (prime_ge_2 _ HM2). lia. Qed.

Lemma c_G_valid : valid c (gG g).
Proof.
  destruct side_facts as (HC & HR & _). split; [|exact HR].
  apply (contains_iff_c c HM1 (Hp2 g Hmod4)). exact HC.
Qed.

Theorem c_group_laws : group_laws (ept c) (eadd c) (eneg c) (eO c) (esmul c) (cn c) ecoords.
Proof. exact (ec_group_laws g HM1 Hmod4 HM4 c_npos Hodd). Qed.

Theorem c_lift_laws : lift_laws (ept c) ecoords (elift g) (fun x => 0 <= x < cp c).
Proof. exact (ec_lift_laws g HM1 Hmod4 HM4 Hodd). Qed.

Lemma c_G_val : eval (eG g) = gG g.
Proof. exact (eG_val g HM1 Hmod4 c_G_valid HnG). Qed.

Lemma c_G_nonzero : eG g <> eO c.
Proof.
  intros E. apply (f_equal eval) in E. rewrite c_G_val in E. cbn in E.
  destruct side_facts as (_ & _ & HN & _). contradiction.
Qed.

(* what the abstract operations are, in C02's terms: the model function returns exactly the operation's pair *)
Theorem c_ops_run :
  (forall P Q : ept c, add c (eval P) (eval Q) = Ret (eval (eadd c P Q))) /\
  (forall P : ept c, neg c (eval P) = Ret (eval (eneg c P))) /\
  (forall (e : Z) (P : ept c), multiply c (eval P) e = Ret (eval (esmul c e P))) /\
  (forall e : Z, gmul g e = Ret (eval (esmul c e (eG g))) /\ raw_mul g e = Ret (eval (esmul c e (eG g)))) /\
  eval (eG g) = gG g /\ eval (eO c) = None.
Proof.
  repeat split.
  - intros P Q. apply (eadd_run g HM1 Hmod4 HM4).
  - intros P. apply (eneg_run g HM1 Hmod4 HM4 Hodd).
  - intros e P. apply (esmul_run g HM1 Hmod4 HM4 c_npos Hodd).
  - apply (eG_run g HM1 Hmod4 HM4 c_npos Hodd c_G_valid HnG Hbits).
  - apply (eG_run g HM1 Hmod4 HM4 c_npos Hodd c_G_valid HnG Hbits).
  - exact c_G_val.
Qed.

(* ... and in the textbook's terms: the operations are chord-and-tangent addition, negation, repeated addition *)
Theorem c_ops_spec :
  (forall P Q : ept c, eval (eadd c P Q) = gadd c (eval P) (eval Q)) /\
  (forall P : ept c, eval (eneg c P) = gneg c (eval P)) /\
  (forall (e : Z) (P : ept c), eval (esmul c e P) = kP c e (eval P)).
Proof.
  repeat split.
  - intros P Q. apply (eadd_run g HM1 Hmod4 HM4).
  - intros P. apply (eneg_run g HM1 Hmod4 HM4 Hodd).
  - intros e P. apply (esmul_run g HM1 Hmod4 HM4 c_npos Hodd).
Qed.

(* membership: a raw pair is (the pair of) a carrier element iff it is a reduced on-curve point killed by n *)
Theorem c_carrier (P : pt) : (exists Q : ept c, eval Q = P) <-> valid c P /\ order_kills c P.
Proof.
  split.
  - intros [Q <-]. split; [apply (eval_valid g HM1 Hmod4) | apply (eval_killed g HM1 Hmod4)].
  - intros [HV HK]. exists (mk c P). apply (mk_val g HM1 Hmod4); auto.
Qed.

(* on a curve of cofactor 1 every reduced on-curve pair is a carrier element, and elift is points_for_x *)
Theorem c_cofactor1 : (forall P, valid c P -> order_kills c P) ->
  (forall P, valid c P -> exists Q : ept c, eval Q = P) /\
  (forall x, 0 <= x < cp c ->
     match points_for_x g x with
     | Ret (P0, P1) => exists Q0 Q1, elift g x = Some (Q0, Q1) /\ eval Q0 = P0 /\ eval Q1 = P1
     | _ => elift g x = None
     end).
Proof.
  intros Hc. split.
  - intros P HV. apply c_carrier. auto.
  - apply (elift_run_cofactor1 g HM1 Hmod4 Hc).
Qed.

(* ---- G has order exactly n (n prime, G <> O) --------------------------------------------------------------- *)
Local Notation Hp2' := (Hp2 g Hmod4).

Lemma kG_mod a : kP c (a mod cn c) (gG g) = kP c a (gG g).
Proof. apply (sm_mod c HM1 Hp2' HM4); [exact c_G_valid | pose proof c_npos; lia | exact HnG]. Qed.

Lemma kG_zero_iff a : kP c a (gG g) = None <-> a mod cn c = 0.
Proof.
  pose proof c_npos as Hn. split.
  - intros K. destruct (Z.eq_dec (a mod cn c) 0) as [|Hnz]; [assumption|exfalso].
    assert (RP : rel_prime (cn c) a).
    { apply prime_rel_prime; [exact HM2|]. intros D. apply Hnz. apply Z.mod_divide; [lia|exact D]. }
    destruct (rel_prime_bezout _ _ RP) as [u v Huv].
    assert (E : kP c 1 (gG g) = None).
    { rewrite <- Huv.
      unfold kP. rewrite (sm_add c HM1 Hp2' HM4) by exact c_G_valid. fold (kP c (u * cn c) (gG g)) (kP c (v * a) (gG g)).
      rewrite !(kP_mul g HM1 Hmod4 HM4) by exact c_G_valid.
      rewrite K. rewrite HnG. rewrite !kP_None. reflexivity. }
    unfold kP in E. rewrite (sm_1 c) in E by exact c_G_valid.
    destruct side_facts as (_ & _ & HN & _). contradiction.
  - intros E. rewrite <- kG_mod, E. reflexivity.
Qed.

Lemma kG_eq_iff a b : kP c a (gG g) = kP c b (gG g) <-> a mod cn c = b mod cn c.
Proof.
  pose proof c_npos as Hn. split.
  - intros E.
    assert (K : kP c (a - b) (gG g) = None).
    { unfold kP. rewrite (sm_sub c HM1 Hp2' HM4) by exact c_G_valid. fold (kP c a (gG g)) (kP c b (gG g)).
      rewrite E. apply (g_inv_r c HM1 Hp2'). apply (kP_ok g HM1 Hmod4). exact c_G_valid. }
    apply kG_zero_iff in K.
    rewrite Zminus_mod in K.
    pose proof (Z.mod_pos_bound a (cn c) Hn). pose proof (Z.mod_pos_bound b (cn c) Hn).
    apply Z.mod_divide in K; [|lia]. destruct K as [q Hq].
    assert (q = 0) by nia. lia.
  - intros E. rewrite <- (kG_mod a), <- (kG_mod b), E. reflexivity.
Qed.

Lemma esmulG_eq_iff a b : esmul c a (eG g) = esmul c b (eG g) <-> a mod cn c = b mod cn c.
Proof.
  rewrite <- kG_eq_iff. rewrite <- c_G_val.
  rewrite <- !(esmul_val g HM1 Hmod4 HM4 c_npos Hodd).
  split; [intros ->; reflexivity | apply ept_eq].
Qed.

End Composed.

(* ---- the shipped secp256k1 generator (any blinding factor) ------------------------------------------------- *)
Definition secp256k1_curve : curve :=
  {| cp := secp256k1_p; ca := secp256k1_a; cb := secp256k1_b; cn := secp256k1_n |}.
Definition secp256k1_G : pt := Some (secp256k1_Gx, secp256k1_Gy).
Definition secp256k1_gen (blind : Z) : gen :=
  {| gc := secp256k1_curve; gG := secp256k1_G; g_bits := secp256k1_bits; g_blind := blind |}.

(* it is the generator Props/C02.v talks about *)
Lemma secp256k1_gen_is_shipped blind : secp256k1_gen blind = shipped_gen (secp256k1_params, secp256k1_bits) blind.
Proof. reflexivity. Qed.

Lemma secp256k1_in_shipped : In (secp256k1_params, secp256k1_bits) shipped_curves.
Proof. left. reflexivity. Qed.

(* decidable side conditions, on the regenerated table: G on the curve, reduced, finite; p = 3 mod 4; n odd;
   n <= 2^256 = 2^bit_count; and for C17: p <= 2n (two recid bits suffice), p <= 2^256 (coordinates fit 32 bytes) *)
Lemma secp256k1_side blind : ec_sideb (secp256k1_gen blind) = true.
Proof. vm_compute. reflexivity. Qed.

Lemma secp256k1_sizes : secp256k1_p <= 2 * secp256k1_n /\ secp256k1_p <= 2 ^ 256 /\ secp256k1_n < secp256k1_p.
Proof. vm_compute. repeat split; discriminate. Qed.

(* ---- a toy generator: y^2 = x^3 + 7 over F_43, G = (2, 12), n = 31 (a miniature secp256k1), any blinding ---- *)
Definition toy43 : curve := {| cp := 43; ca := 0; cb := 7; cn := 31 |}.
Definition toy43_gen (blind : Z) : gen := {| gc := toy43; gG := Some (2, 12); g_bits := 256; g_blind := blind |}.

Lemma toy43_ok : toy_ok toy43 = true.
Proof. vm_compute. reflexivity. Qed.

Lemma toy43_side blind : ec_sideb (toy43_gen blind) = true.
Proof. vm_compute. reflexivity. Qed.

Lemma toy43_n_prime : prime (cn toy43).
Proof. apply prime_checkb_sound. vm_compute. reflexivity. Qed.

Lemma toy43_M1 : M1 toy43.
Proof. exact (tf_prime _ (toy_ok_sound _ toy43_ok)). Qed.
Lemma toy43_M4 : M4 toy43.
Proof. exact (tf_assoc _ (toy_ok_sound _ toy43_ok)). Qed.
Lemma toy43_cofactor1 : forall P, valid toy43 P -> order_kills toy43 P.
Proof. exact (tf_order _ (toy_ok_sound _ toy43_ok)). Qed.
Lemma toy43_nG blind : order_kills toy43 (gG (toy43_gen blind)).
Proof.
  apply toy43_cofactor1. split; [|cbn; lia]. vm_compute. reflexivity.
Qed.

Lemma toy43_sizes : cp toy43 <= 2 * cn toy43 /\ cp toy43 <= 2 ^ 256.
Proof. vm_compute. split; discriminate. Qed.
