(* Proofs/TxObjectP.v — histories of a Tx object (Model/TxObject.v): what an observer returns depends on the
   current fields only, whatever was observed before; consequences through the C07 / C20 theorems. *)
From PV Require Import Base.Bytes Base.Outcome Base.Varint Gen.GenTxConsts Model.TxWire Model.TxCheck Model.TxObject
  Spec.TxWireSpec Spec.TxCheckSpec Proofs.TxWireP Proofs.TxCheckP.
Local Open Scope outcome_scope.

(* generated scans: no observer method stores into its object, at module level or behind a caching decorator; every
   coin class hashes the stripped / full serialisation with the expected function *)
Record object_table_facts : Prop := {
  of_observers : observer_writes = [];
  of_check : check_mutations = [];
  of_hash : coin_hash_alg =
    [ (coin_BTC, [x64; x73; x68; x61; x32; x35; x36]); (coin_BCH, [x64; x73; x68; x61; x32; x35; x36]);
      (coin_BTG, [x64; x73; x68; x61; x32; x35; x36]); (coin_LTC, [x64; x73; x68; x61; x32; x35; x36]);
      (coin_GRS, [x73; x68; x61; x32; x35; x36]) ];           (* "dsha256" x4, "sha256" for Groestlcoin *)
}.
Lemma object_facts : object_table_facts.
Proof. split; vm_compute; reflexivity. Qed.

Section Hist.
Variable H : bytes -> bytes.

Lemma run_app ops1 ops2 ob : run H (ops1 ++ ops2) ob = run H ops1 ob ++ run H ops2 (state_after ops1 ob).
Proof.
  revert ob. induction ops1 as [|o r IH]; intros ob; [reflexivity|]. destruct o as [m|o]; cbn [app run state_after].
  - destruct (apply_mut m ob); cbn [app]; now rewrite IH.
  - now rewrite IH.
Qed.

(* the last observation of a history is the observation of the current fields *)
Lemma run_last ops o ob : run H (ops ++ [Obs o]) ob = run H ops ob ++ [observe H o (state_after ops ob)].
Proof. now rewrite run_app. Qed.

(* the observers in a history do not matter for the state ... *)
Lemma state_erase_obs ops ob : state_after ops ob = state_after (filter is_mut ops) ob.
Proof.
  revert ob. induction ops as [|o r IH]; intros ob; [reflexivity|]. destruct o as [m|o]; cbn [filter is_mut state_after].
  - destruct (apply_mut m ob); apply IH.
  - apply IH.
Qed.

(* ... so two histories with the same mutators, in particular one WITHOUT any earlier observation (a fresh object
   brought to the same fields), end in the same observation *)
Lemma history_independent ops1 ops2 o ob : filter is_mut ops1 = filter is_mut ops2 ->
  last (run H (ops1 ++ [Obs o]) ob) (Raise E_OTHER) = last (run H (ops2 ++ [Obs o]) ob) (Raise E_OTHER).
Proof.
  intros E. rewrite !run_last, !last_last. now rewrite (state_erase_obs ops1), (state_erase_obs ops2), E.
Qed.

Lemma observe_twice ops o ob :
  last (run H (ops ++ [Obs o; Obs o]) ob) (Raise E_OTHER) = last (run H (ops ++ [Obs o]) ob) (Raise E_OTHER).
Proof.
  change [Obs o; Obs o] with ([Obs o] ++ [Obs o]). rewrite app_assoc, !run_last, !last_last.
  f_equal. rewrite state_erase_obs, filter_app. cbn [filter is_mut]. rewrite app_nil_r. symmetry. apply state_erase_obs.
Qed.

(* the official setter and the plain assignment are the same mutation *)
Lemma set_witness_is_assignment i w ob : apply_mut (MSetWitness i w) ob = apply_mut (MAssignWitness i w) ob.
Proof. reflexivity. Qed.

(* after ANY history the serialisation is the wire format of the current fields *)
Lemma history_wire_format ops ob : let t := ob_tx (state_after ops ob) in tx_wf t ->
  exists b, last (run H (ops ++ [Obs (OAsBin false false true)]) ob) (Raise E_OTHER) = Ret (RBytes b) /\ wire_format t b.
Proof.
  intros t W. rewrite run_last, last_last. destruct (stream_is_wire_format t W) as (b & Hs & Hw). exists b. split; [|exact Hw].
  cbn [observe]. unfold tx_as_bin. fold t. rewrite Hs. reflexivity.
Qed.

Lemma history_ids ops ob : let t := ob_tx (state_after ops ob) in tx_wf t ->
  last (run H (ops ++ [Obs (OHash None)]) ob) (Raise E_OTHER) = Ret (RBytes (H (ser_legacy t))) /\
  exists b, wire_format t b /\ last (run H (ops ++ [Obs OWHash]) ob) (Raise E_OTHER) = Ret (RBytes (H b)).
Proof.
  intros t W. rewrite !run_last, !last_last. cbn [observe]. fold t. split.
  - now rewrite (hash_is_legacy H t W).
  - destruct (w_hash_is_wire H t W) as (b & Hw & ->). exists b. auto.
Qed.

(* and the check judges the current fields *)
Lemma history_check_rejects mm ms ops ob : defect mm (ob_tx (state_after ops ob)) ->
  last (run H (ops ++ [Obs (OCheck mm ms)]) ob) (Raise E_OTHER) = Raise E_VALIDATION.
Proof. intros D. rewrite run_last, last_last. cbn [observe]. now rewrite (check_rejects mm ms _ _ D). Qed.

Lemma seq_ids_consistent t : ids_consistent (map N.of_nat (seq 0 (length (tx_ins t)))) t.
Proof.
  split; [now rewrite map_length, seq_length|]. intros j k x Hj Hk. rewrite nth_error_map in Hj, Hk.
  destruct (nth_error (seq 0 (length (tx_ins t))) j) as [a|] eqn:Ea; [|discriminate].
  destruct (nth_error (seq 0 (length (tx_ins t))) k) as [b|] eqn:Eb; [|discriminate].
  cbn in Hj, Hk. assert (a = b) by (apply Nat2N.inj; congruence). subst b.
  assert (Lj : (j < length (seq 0 (length (tx_ins t))))%nat) by (apply nth_error_Some; congruence).
  assert (Lk : (k < length (seq 0 (length (tx_ins t))))%nat) by (apply nth_error_Some; congruence).
  rewrite seq_length in Lj, Lk.
  apply (nth_error_nth _ _ 0%nat) in Ea. apply (nth_error_nth _ _ 0%nat) in Eb.
  rewrite seq_nth in Ea, Eb by assumption. cbn in Ea, Eb. now subst.
Qed.

Lemma history_check_accepts mm ms ops ob b : let t := ob_tx (state_after ops ob) in
  ~ defect mm t -> stream_tx false true t = Ret b -> (Z.of_nat (length b) <= ms)%Z ->
  last (run H (ops ++ [Obs (OCheck mm ms)]) ob) (Raise E_OTHER) = Ret RNone.
Proof.
  intros t D S L. rewrite run_last, last_last. cbn [observe]. fold t.
  now rewrite (check_accepts mm ms _ t b (seq_ids_consistent t) D S L).
Qed.
End Hist.
