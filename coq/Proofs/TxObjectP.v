(* Proofs/TxObjectP.v — histories of a Tx object (Model/TxObject.v): what an observer returns depends on the
   current fields only, whatever was observed before; consequences through the C07 / C20 theorems. *)
From PV Require Import Base.Bytes Base.Outcome Base.Varint Gen.GenTxConsts Model.TxWire Model.TxCheck Model.TxObject
  Spec.TxWireSpec Spec.TxCheckSpec Proofs.TxWireP Proofs.TxCheckP.
From Coq Require Import Lia.
Local Open Scope outcome_scope.

(* generated scans: no observer method stores into its object, at module level or behind a caching decorator; every
   coin class hashes the stripped / full serialisation with the expected function *)
Record object_table_facts : Prop := {
  of_observers : observer_writes = [];
  of_check : check_mutations = [];
  of_hash : coin_hash_alg =
    [ (coin_BTC, [x64; x73; x68; x61; x32; x35; x36]); (coin_BCH, [x64; x73; x68; x61; x32; x35; x36]);
      (coin_BTG, [x64; x73; x68; x61; x32; x35; x36]); (coin_LTC, [x64; x73; x68; x61; x32; x35; x36]);
      (coin_GRS, [x73; x68; x61; x32; x35; x36]) ];           (* "dsha256" x4, "sha256" for Groestlcoin *)
}.
Lemma object_facts : object_table_facts.
Proof. split; vm_compute; reflexivity. Qed.

Section Hist.
Variable H : bytes -> bytes.

Lemma run_app ops1 ops2 ob : run H (ops1 ++ ops2) ob = run H ops1 ob ++ run H ops2 (state_after ops1 ob).
Proof.
  revert ob. induction ops1 as [|o r IH]; intros ob; [reflexivity|]. destruct o as [m|o]; cbn [app run state_after].
  - destruct (apply_mut m ob); cbn [app]; now rewrite IH.
  - now rewrite IH.
Qed.

(* the last observation of a history is the observation of the current fields *)
Lemma run_last ops o ob : run H (ops ++ [Obs o]) ob = run H ops ob ++ [observe H o (state_after ops ob)].
Proof. now rewrite run_app. Qed.

(* the observers in a history do not matter for the state ... *)
Lemma state_erase_obs ops ob : state_after ops ob = state_after (filter is_mut ops) ob.
Proof.
  revert ob. induction ops as [|o r IH]; intros ob; [reflexivity|]. destruct o as [m|o]; cbn [filter is_mut state_after].
  - destruct (apply_mut m ob); apply IH.
  - apply IH.
Qed.

(* ... so two histories with the same mutators, in particular one WITHOUT any earlier observation (a fresh object
   brought to the same fields), end in the same observation *)
Lemma history_independent ops1 ops2 o ob : filter is_mut ops1 = filter is_mut ops2 ->
  last (run H (ops1 ++ [Obs o]) ob) (Raise E_OTHER) = last (run H (ops2 ++ [Obs o]) ob) (Raise E_OTHER).
Proof.
  intros E. rewrite !run_last, !last_last. now rewrite (state_erase_obs ops1), (state_erase_obs ops2), E.
Qed.

Lemma observe_twice ops o ob :
  last (run H (ops ++ [Obs o; Obs o]) ob) (Raise E_OTHER) = last (run H (ops ++ [Obs o]) ob) (Raise E_OTHER).
Proof.
  change [Obs o; Obs o] with ([Obs o] ++ [Obs o]). rewrite app_assoc, !run_last, !last_last.
  f_equal. rewrite state_erase_obs, filter_app. cbn [filter is_mut]. rewrite app_nil_r. symmetry. apply state_erase_obs.
Qed.

(* the official setter and the plain assignment are the same mutation *)
Lemma set_witness_is_assignment i w ob : apply_mut (MSetWitness i w) ob = apply_mut (MAssignWitness i w) ob.
Proof. reflexivity. Qed.

(* after ANY history the serialisation is the wire format of the current fields *)
Lemma history_wire_format ops ob : let t := ob_tx (state_after ops ob) in tx_wf t ->
  exists b, last (run H (ops ++ [Obs (OAsBin false false true)]) ob) (Raise E_OTHER) = Ret (RBytes b) /\ wire_format t b.
Proof.
  intros t W. rewrite run_last, last_last. destruct (stream_is_wire_format t W) as (b & Hs & Hw). exists b. split; [|exact Hw].
  cbn [observe]. unfold tx_as_bin. fold t. rewrite Hs. reflexivity.
Qed.

Lemma history_ids ops ob : let t := ob_tx (state_after ops ob) in tx_wf t ->
  last (run H (ops ++ [Obs (OHash None)]) ob) (Raise E_OTHER) = Ret (RBytes (H (ser_legacy t))) /\
  exists b, wire_format t b /\ last (run H (ops ++ [Obs OWHash]) ob) (Raise E_OTHER) = Ret (RBytes (H b)).
Proof.
  intros t W. rewrite !run_last, !last_last. cbn [observe]. fold t. split.
  - now rewrite (hash_is_legacy H t W).
  - destruct (w_hash_is_wire H t W) as (b & Hw & ->). exists b. auto.
Qed.

(* and the check judges the current fields *)
Lemma history_check_rejects mm ms ops ob : defect mm (ob_tx (state_after ops ob)) ->
  last (run H (ops ++ [Obs (OCheck mm ms)]) ob) (Raise E_OTHER) = Raise E_VALIDATION.
Proof. intros D. rewrite run_last, last_last. cbn [observe]. now rewrite (check_rejects mm ms _ _ D). Qed.

Lemma seq_ids_consistent t : ids_consistent (map N.of_nat (seq 0 (length (tx_ins t)))) t.
Proof.
  split; [now rewrite map_length, seq_length|]. intros j k x Hj Hk. rewrite nth_error_map in Hj, Hk.
  destruct (nth_error (seq 0 (length (tx_ins t))) j) as [a|] eqn:Ea; [|discriminate].
  destruct (nth_error (seq 0 (length (tx_ins t))) k) as [b|] eqn:Eb; [|discriminate].
  cbn in Hj, Hk. assert (a = b) by (apply Nat2N.inj; congruence). subst b.
  assert (Lj : (j < length (seq 0 (length (tx_ins t))))%nat) by (apply nth_error_Some; congruence).
  assert (Lk : (k < length (seq 0 (length (tx_ins t))))%nat) by (apply nth_error_Some; congruence).
  rewrite seq_length in Lj, Lk.
  apply (nth_error_nth _ _ 0%nat) in Ea. apply (nth_error_nth _ _ 0%nat) in Eb.
  rewrite seq_nth in Ea, Eb by assumption. cbn in Ea, Eb. now subst.
Qed.

Lemma history_check_accepts mm ms ops ob b : let t := ob_tx (state_after ops ob) in
  ~ defect mm t -> stream_tx false true t = Ret b -> (Z.of_nat (length b) <= ms)%Z ->
  last (run H (ops ++ [Obs (OCheck mm ms)]) ob) (Raise E_OTHER) = Ret RNone.
Proof.
  intros t D S L. rewrite run_last, last_last. cbn [observe]. fold t.
  now rewrite (check_accepts mm ms _ t b (seq_ids_consistent t) D S L).
Qed.
(* ---- worlds of several objects: what is done to one object is invisible on every other one --------------------- *)
Lemma nth_error_wupd_same k ob' (w : list txobj) : (k < length w)%nat -> nth_error (wupd k ob' w) k = Some ob'.
Proof. revert k; induction w as [|x r IH]; intros [|k] L; cbn in *; try lia; auto. apply IH. lia. Qed.
Lemma nth_error_wupd_other k j ob' (w : list txobj) : j <> k -> nth_error (wupd k ob' w) j = nth_error w j.
Proof. revert k j; induction w as [|x r IH]; intros [|k] [|j] N; cbn; auto; try congruence. Qed.

Definition on_obj (k : nat) {A} (x : nat * A) : bool := Nat.eqb (fst x) k.

(* one step of the single-object semantics, as a pair *)
Definition step1 (o : op) (ob : txobj) : outcome oval * txobj :=
  match o with
  | Obs o' => (observe H o' ob, ob)
  | Mut m => match apply_mut m ob with
             | Ret ob' => (Ret RNone, ob')
             | Raise e => (Raise e, ob)
             | OutOfFuel => (OutOfFuel, ob)
             end
  end.
Lemma run_cons o r ob : run H (o :: r) ob = fst (step1 o ob) :: run H r (snd (step1 o ob)).
Proof. destruct o as [m|o]; cbn [run step1]; [destruct (apply_mut m ob)|]; reflexivity. Qed.
Lemma wrun_cons k o r w : wrun H ((k, o) :: r) w = (k, fst (wstep H k o w)) :: wrun H r (snd (wstep H k o w)).
Proof. cbn [wrun]. destruct (wstep H k o w). reflexivity. Qed.
Lemma wstep_same k o (w : list txobj) ob : nth_error w k = Some ob ->
  fst (wstep H k o w) = fst (step1 o ob) /\ nth_error (snd (wstep H k o w)) k = Some (snd (step1 o ob)).
Proof.
  intros Hk. unfold wstep, step1. rewrite Hk. destruct o as [m|o]; [|split; [reflexivity|exact Hk]].
  destruct (apply_mut m ob) as [ob'|e|]; cbn [fst snd]; split; auto.
  apply nth_error_wupd_same. apply nth_error_Some. congruence.
Qed.
Lemma wstep_other j k o (w : list txobj) : j <> k -> nth_error (snd (wstep H j o w)) k = nth_error w k.
Proof.
  intros N. unfold wstep. destruct (nth_error w j) as [obj|]; [|reflexivity].
  destruct o as [m|o]; [|reflexivity]. destruct (apply_mut m obj); cbn [snd]; auto.
  apply nth_error_wupd_other. congruence.
Qed.

(* the trace seen on object k in ANY interleaving with operations on other objects is the trace of k's own operations
   applied to k alone *)
Lemma world_projection ops : forall (w : list txobj) k ob, nth_error w k = Some ob ->
  map snd (filter (on_obj k) (wrun H ops w)) = run H (map snd (filter (on_obj k) ops)) ob.
Proof.
  induction ops as [|[j o] r IH]; intros w k ob Hk; [reflexivity|].
  rewrite wrun_cons.
  assert (F1 : forall A (x : A) l, filter (on_obj k) ((j, x) :: l)
                = if Nat.eqb j k then (j, x) :: filter (on_obj k) l else filter (on_obj k) l) by reflexivity.
  rewrite !F1.
  destruct (Nat.eqb_spec j k) as [->|N].
  - destruct (wstep_same k o w ob Hk) as [E1 E2]. cbn [map snd]. rewrite run_cons, E1. f_equal. now apply IH.
  - apply IH. rewrite wstep_other by exact N. exact Hk.
Qed.

(* in particular: operations on OTHER objects never change what object k shows *)
Lemma world_noninterference ops (w : list txobj) k ob o : nth_error w k = Some ob ->
  (forall x, In x ops -> fst x <> k) ->
  map snd (filter (on_obj k) (wrun H (ops ++ [(k, Obs o)]) w)) = [observe H o ob].
Proof.
  intros Hk Hn. rewrite (world_projection _ w k ob Hk), filter_app.
  assert (E : filter (on_obj k) ops = []).
  { clear -Hn. induction ops as [|x r IH]; [reflexivity|]. cbn [filter]. unfold on_obj at 1.
    destruct (Nat.eqb_spec (fst x) k) as [E|_]; [exfalso; apply (Hn x); [now left|exact E]|].
    apply IH. intros y Hy. apply Hn. now right. }
  rewrite E. cbn [app].
  assert (F : filter (on_obj k) [(k, Obs o)] = [(k, Obs o)]).
  { cbn [filter]. unfold on_obj. cbn [fst]. now rewrite Nat.eqb_refl. }
  rewrite F. reflexivity.
Qed.

(* extending a witness in place is the assignment of the extended list (nothing else moves) *)
Lemma upd_ext {A} i (f g : A -> A) l x : nth_error l i = Some x -> f x = g x -> upd i f l = upd i g l.
Proof.
  revert i; induction l as [|y r IH]; intros [|i] Hn E; cbn [nth_error upd] in *; try discriminate.
  - inversion Hn; subst. now rewrite E.
  - now rewrite (IH i Hn E).
Qed.
Lemma upd_none {A} i (f : A -> A) l : nth_error l i = None -> upd i f l = Raise E_INDEX.
Proof.
  revert i; induction l as [|y r IH]; intros [|i] Hn; cbn [nth_error upd] in *; try discriminate; try reflexivity.
  now rewrite (IH i Hn).
Qed.
Lemma extend_witness_spec i w ob : apply_mut (MExtendWitness i w) ob =
  match nth_error (tx_ins (ob_tx ob)) i with
  | Some x => apply_mut (MAssignWitness i (ti_witness x ++ w)) ob
  | None => Raise E_INDEX
  end.
Proof.
  unfold apply_mut. destruct (nth_error (tx_ins (ob_tx ob)) i) as [x|] eqn:E.
  - now rewrite (upd_ext i (fun x0 => mk_txin (ti_hash x0) (ti_index x0) (ti_script x0) (ti_sequence x0) (ti_witness x0 ++ w))
                           (fun x0 => mk_txin (ti_hash x0) (ti_index x0) (ti_script x0) (ti_sequence x0) (ti_witness x ++ w)) _ x E eq_refl).
  - now rewrite (upd_none i _ _ E).
Qed.

End Hist.
