(* Proofs/StreamerP.v — lemmas for property C16 (Model/Streamer.v against Spec/WireC16.v). *)
From PV Require Import Base.Bytes Base.Outcome Base.Varint Gen.GenMessages Model.Streamer Spec.WireC16.
From Coq Require Import Permutation.
From Coq Require Import ZifyBool ZifyNat ZifyN.
Local Open Scope N_scope.

(* ---- numbers ------------------------------------------------------------------------------------------ *)
Lemma byte_at_succ n k : byte_at n (S k) = byte_at (n / 256) k.
Proof.
  unfold byte_at. f_equal. rewrite Nat2N.inj_succ, N.pow_succ_r' by lia.
  assert (256 ^ N.of_nat k <> 0) by (apply N.pow_nonzero; lia).
  rewrite N.div_div by lia. reflexivity.
Qed.

Lemma le_bytes_eq w : forall n, le_bytes w n = le_encode w n.
Proof.
  unfold le_bytes. induction w as [|w IH]; intros n; [reflexivity|].
  cbn [seq map le_encode]. f_equal.
  - unfold byte_at. cbn. now rewrite N.div_1_r.
  - rewrite <- seq_shift, map_map. rewrite <- IH. apply map_ext. intros k. apply byte_at_succ.
Qed.

Lemma rev_map_seq {A} (f : nat -> A) w :
  rev (map f (seq 0 w)) = map (fun k => f (w - 1 - k)%nat) (seq 0 w).
Proof.
  induction w as [|w IH]; [reflexivity|].
  rewrite seq_S at 1. cbn [plus]. rewrite map_app, rev_app_distr. cbn [map rev app].
  cbn [seq map]. f_equal.
  - f_equal. lia.
  - rewrite IH. rewrite <- seq_shift, map_map. apply map_ext_in. intros k Hk. apply in_seq in Hk. f_equal. lia.
Qed.

Lemma be_bytes_eq w n : be_bytes w n = be_encode w n.
Proof.
  unfold be_bytes, be_encode. rewrite <- le_bytes_eq. unfold le_bytes. symmetry. apply rev_map_seq.
Qed.

Lemma compact_size_eq n : n < 2 ^ 64 -> stream_varint n = Ret (compact_size n).
Proof.
  intros H. unfold stream_varint, compact_size. rewrite !le_bytes_eq.
  change (2 ^ 64) with 18446744073709551616 in *. change (2 ^ 16) with 65536. change (2 ^ 32) with 4294967296.
  destruct (n <? 253) eqn:E1; [reflexivity|].
  destruct (n <=? 65535) eqn:E2.
  - replace (n <? 65536) with true by lia. reflexivity.
  - replace (n <? 65536) with false by lia.
    destruct (n <=? 4294967295) eqn:E3.
    + replace (n <? 4294967296) with true by lia. reflexivity.
    + replace (n <? 4294967296) with false by lia.
      replace (n <? 18446744073709551616) with true by lia. reflexivity.
Qed.

Lemma firstn_le_encode a b : forall n, firstn a (le_encode (a + b) n) = le_encode a n.
Proof. induction a as [|a IH]; intros n; [reflexivity|]. cbn [plus le_encode firstn]. now rewrite IH. Qed.

Lemma char_of_lookup k : codec_of_char (char_of k) = Some k.
Proof. destruct k; reflexivity. Qed.
Lemma char_of_not_lbracket k : byte_eqb (char_of k) lbracket = false.
Proof. destruct k; reflexivity. Qed.
Lemma char_of_not_rbracket k : byte_eqb (char_of k) rbracket = false.
Proof. destruct k; reflexivity. Qed.

Lemma codec_eqb_eq a b : codec_eqb a b = true <-> a = b.
Proof. split; [|intros ->; apply byte_eqb_refl]. destruct a, b; cbn; intros H; try reflexivity; discriminate. Qed.

Lemma zrange_N z bits : zrange z bits -> Z.to_N z < 2 ^ bits /\ Z.of_N (Z.to_N z) = z /\ (z <? 0)%Z = false.
Proof.
  unfold zrange. intros [H0 H1]. repeat split; try lia.
Qed.

(* ---- the array count loop ------------------------------------------------------------------------------ *)
Section LoopP.
Variables TxV BlockV HdrV : Type.
Notation pyv := (pyval TxV BlockV HdrV).
Variable elem : parser pyv.

Lemma iter_done m r : Nat.iter m (step elem) (Done r) = Done r.
Proof.
  induction m as [|m IH]; [reflexivity|].
  change (Nat.iter (S m) (step elem) (Done r)) with (step elem (Nat.iter m (step elem) (Done r))).
  now rewrite IH.
Qed.

Lemma iter_add (m n : nat) (st : lstate TxV BlockV HdrV) :
  Nat.iter (m + n) (step elem) st = Nat.iter m (step elem) (Nat.iter n (step elem) st).
Proof.
  induction m as [|m IH]; [reflexivity|].
  change (Nat.iter (S m + n) (step elem) st) with (step elem (Nat.iter (m + n) (step elem) st)).
  change (Nat.iter (S m) (step elem) (Nat.iter n (step elem) st))
    with (step elem (Nat.iter m (step elem) (Nat.iter n (step elem) st))).
  now rewrite IH.
Qed.

Lemma iter_succ_r (n : nat) (st : lstate TxV BlockV HdrV) :
  Nat.iter (S n) (step elem) st = Nat.iter n (step elem) (step elem st).
Proof. replace (S n) with (n + 1)%nat by lia. rewrite iter_add. reflexivity. Qed.

(* loopk k = 2^k applications of step *)
Lemma loopk_iter k : forall st, loopk elem k st = Nat.iter (2 ^ k) (step elem) st.
Proof.
  induction k as [|k IH]; intros st.
  - destruct st; reflexivity.
  - destruct st as [c acc s | r].
    + cbn [loopk]. rewrite !IH, <- iter_add. f_equal. rewrite Nat.pow_succ_r'. lia.
    + cbn [loopk]. now rewrite iter_done.
Qed.

Lemma iter_run : forall es enc acc rest,
  Forall2 (fun e b => forall r, elem (b ++ r) = Ret (e, r)) es enc ->
  Nat.iter (S (length es)) (step elem) (Running (N.of_nat (length es)) acc (concat enc ++ rest))
  = Done (Ret (rev acc ++ es, rest)).
Proof.
  intros es enc acc rest H. revert acc. induction H as [|e b es enc He _ IH]; intros acc.
  - cbn [length concat app Nat.iter nat_rect step N.of_nat N.eqb].
    now rewrite rev_append_rev, !app_nil_r.
  - rewrite iter_succ_r. cbn [length concat step].
    replace (N.of_nat (S (length es)) =? 0) with false by lia.
    rewrite <- app_assoc, He.
    replace (N.of_nat (S (length es)) - 1) with (N.of_nat (length es)) by lia.
    rewrite IH. cbn [rev]. now rewrite <- app_assoc.
Qed.

Lemma loop_capacity : N.of_nat (2 ^ loop_depth) = 36893488147419103232.
Proof. rewrite Nat2N.inj_pow. reflexivity. Qed.

(* exactly `count` iterations for every count below 2^64: no fuel hypothesis *)
Lemma parse_array_ok es enc rest :
  Forall2 (fun e b => forall r, elem (b ++ r) = Ret (e, r)) es enc ->
  N.of_nat (length es) < 2 ^ 64 ->
  parse_array elem (N.of_nat (length es)) (concat enc ++ rest) = Ret (es, rest).
Proof.
  intros H Hlen. unfold parse_array. rewrite loopk_iter.
  pose proof loop_capacity as Hcap. remember (2 ^ loop_depth)%nat as X eqn:EX. clear EX.
  change (2 ^ 64) with 18446744073709551616 in Hlen.
  replace X with ((X - S (length es)) + S (length es))%nat by lia.
  rewrite iter_add, (iter_run es enc [] rest H), iter_done. reflexivity.
Qed.
End LoopP.

(* ---- layouts, association lists (no codec involved) ---------------------------------------------------- *)
Lemma ftype_of_text_chars ty ft : ftype_of_text ty = Some ft -> ty = chars_of_ftype ft.
Proof.
  unfold ftype_of_text. destruct (ftype_guess ty) as [g|]; [|discriminate].
  destruct (bytes_eqb ty (chars_of_ftype g)) eqn:E; [|discriminate].
  intros H. injection H as <-. now apply bytes_eqb_eq.
Qed.

Lemma opt_only_last_cons ft fts :
  opt_only_last (ft :: fts) = true -> (fts = [] \/ is_opt ft = false) /\ opt_only_last fts = true.
Proof.
  destruct fts as [|ft2 fts]; [intros _; split; [now left|reflexivity]|].
  cbn [opt_only_last]. intros H. apply andb_true_iff in H. destruct H as [H1 H2].
  apply negb_true_iff in H1. split; [now right|exact H2].
Qed.

Lemma combine_fst_length {A B C} (l : list (A * B)) (vals : list C) :
  length vals = length l -> map fst (combine (map fst l) vals) = map fst l.
Proof.
  revert vals. induction l as [|[a b] l IH]; intros [|v vals] H; cbn in *; try discriminate; [reflexivity|].
  f_equal. apply IH. lia.
Qed.

Lemma layout_ftypes_length layout fts : layout_ftypes layout = Some fts -> length fts = length layout.
Proof.
  revert fts. induction layout as [|[nm ty] layout IH]; intros fts H; cbn [layout_ftypes] in H.
  - now injection H as <-.
  - destruct (ftype_of_text ty); [|discriminate]. destruct (layout_ftypes layout) eqn:E; [|discriminate].
    injection H as <-. cbn [length]. now rewrite (IH _ eq_refl).
Qed.

(* association lists with distinct keys *)
Lemma nodupb_cons x l : nodupb (x :: l) = true -> ~ In x l /\ nodupb l = true.
Proof.
  cbn [nodupb]. intros H. apply andb_true_iff in H. destruct H as [H1 H2]. split; [|exact H2].
  intros Hin. apply negb_true_iff in H1.
  assert (existsb (bytes_eqb x) l = true) by (apply existsb_exists; exists x; split; [exact Hin|apply bytes_eqb_refl]).
  congruence.
Qed.

Lemma str_lookup_in {A} (d : list (bytes * A)) k v :
  nodupb (map fst d) = true -> In (k, v) d -> str_lookup d k = Some v.
Proof.
  induction d as [|[k' v'] d IH]; intros Hnd Hin; [contradiction|].
  cbn [map fst] in Hnd. apply nodupb_cons in Hnd. destruct Hnd as [Hni Hnd].
  cbn [str_lookup]. destruct Hin as [Heq | Hin].
  - injection Heq as -> ->. now rewrite bytes_eqb_refl.
  - destruct (bytes_eqb k k') eqn:E.
    + apply bytes_eqb_eq in E. subst k'. exfalso. apply Hni. apply in_map_iff. exists (k, v). split; [reflexivity|exact Hin].
    + apply IH; assumption.
Qed.

Lemma nodupb_app_l a b : nodupb (a ++ b) = true -> nodupb a = true.
Proof.
  induction a as [|x a IH]; [reflexivity|]. cbn [app]. intros H. apply nodupb_cons in H. destruct H as [Hni H].
  cbn [nodupb]. rewrite (IH H), andb_true_r. apply negb_true_iff.
  destruct (existsb (bytes_eqb x) a) eqn:E; [|reflexivity].
  apply existsb_exists in E. destruct E as [y [Hy Heq]]. apply bytes_eqb_eq in Heq. subst y.
  exfalso. apply Hni. apply in_or_app. now left.
Qed.

(* the canonical keyword arguments: exactly the fields, in layout order *)
Lemma kwargs_canonical {V} layout (vals : list V) :
  layout_ok layout = true -> length vals = length layout ->
  forall nm v, In (nm, v) (combine (map fst layout) vals) -> str_lookup (combine (map fst layout) vals) nm = Some v.
Proof.
  intros Hok Hlen nm v Hin. apply str_lookup_in; [|exact Hin].
  rewrite combine_fst_length by exact Hlen.
  unfold layout_ok in Hok. destruct (layout_ftypes layout); [|discriminate].
  apply andb_true_iff in Hok. destruct Hok as [Hok _]. apply andb_true_iff in Hok. destruct Hok as [Hnd _].
  now apply nodupb_app_l in Hnd.
Qed.

Lemma bytes_eqb_neq a b : a <> b -> bytes_eqb a b = false.
Proof. intros H. destruct (bytes_eqb a b) eqn:E; [|reflexivity]. apply bytes_eqb_eq in E. contradiction. Qed.

Lemma table_entry msgs name layout :
  table_ok msgs = true -> In (name, layout) msgs ->
  str_lookup msgs name = Some layout /\ layout_ok layout = true /\ exists fts, layout_ftypes layout = Some fts.
Proof.
  intros Hok Hin. unfold table_ok in Hok. apply andb_true_iff in Hok. destruct Hok as [Hnd Hall].
  assert (Hl : layout_ok layout = true).
  { rewrite forallb_forall in Hall. apply (Hall (name, layout) Hin). }
  split; [now apply str_lookup_in|]. split; [exact Hl|].
  unfold layout_ok in Hl. destruct (layout_ftypes layout) as [fts|]; [now exists fts|discriminate].
Qed.

Section Ints.
Variables TxV BlockV HdrV : Type.
Notation pyv := (pyval TxV BlockV HdrV).
Lemma pack_uint_le w z bits (v := VInt z : pyv) :
  zrange z bits -> bits = 8 * N.of_nat w ->
  pack_uint false w v = Ret (le_bytes w (Z.to_N z)).
Proof.
  intros Hr ->. destruct (zrange_N _ _ Hr) as [Hlt [_ Hneg]].
  unfold pack_uint, v. cbn [as_int]. rewrite Hneg. unfold write_le.
  replace (256 ^ N.of_nat w) with (2 ^ (8 * N.of_nat w)) by (rewrite N.pow_mul_r; reflexivity).
  replace (Z.to_N z <? 2 ^ (8 * N.of_nat w)) with true by lia. now rewrite le_bytes_eq.
Qed.

Lemma pack_uint_be w z bits (v := VInt z : pyv) :
  zrange z bits -> bits = 8 * N.of_nat w ->
  pack_uint true w v = Ret (be_bytes w (Z.to_N z)).
Proof.
  intros Hr ->. destruct (zrange_N _ _ Hr) as [Hlt [_ Hneg]].
  unfold pack_uint, v. cbn [as_int]. rewrite Hneg. unfold write_be.
  replace (256 ^ N.of_nat w) with (2 ^ (8 * N.of_nat w)) by (rewrite N.pow_mul_r; reflexivity).
  replace (Z.to_N z <? 2 ^ (8 * N.of_nat w)) with true by lia. now rewrite be_bytes_eq.
Qed.

Lemma read_le_bytes w z bits rest :
  zrange z bits -> bits = 8 * N.of_nat w ->
  read_le w (le_bytes w (Z.to_N z) ++ rest) = Ret (Z.to_N z, rest).
Proof.
  intros Hr ->. destruct (zrange_N _ _ Hr) as [Hlt _]. rewrite le_bytes_eq. apply read_le_frame.
  replace (256 ^ N.of_nat w) with (2 ^ (8 * N.of_nat w)) by (rewrite N.pow_mul_r; reflexivity). exact Hlt.
Qed.
Lemma read_be_bytes w z bits rest :
  zrange z bits -> bits = 8 * N.of_nat w ->
  read_be w (be_bytes w (Z.to_N z) ++ rest) = Ret (Z.to_N z, rest).
Proof.
  intros Hr ->. destruct (zrange_N _ _ Hr) as [Hlt _]. rewrite be_bytes_eq. apply read_be_frame.
  replace (256 ^ N.of_nat w) with (2 ^ (8 * N.of_nat w)) by (rewrite N.pow_mul_r; reflexivity). exact Hlt.
Qed.

Lemma n2v_to_N z bits : zrange z bits -> (n2v (Z.to_N z) : pyv) = VInt z.
Proof. intros Hr. unfold n2v. destruct (zrange_N _ _ Hr) as [_ [-> _]]. reflexivity. Qed.

Lemma read_exact (b rest : bytes) n : length b = n -> read n (b ++ rest) = (b, rest).
Proof. intros <-. apply read_app. Qed.

Lemma bool_byte_parse b : negb (b2n (bool_byte b) =? 0) = b.
Proof. destruct b; reflexivity. Qed.

End Ints.
Arguments pack_uint_le {TxV BlockV HdrV} w z bits.
Arguments pack_uint_be {TxV BlockV HdrV} w z bits.
Arguments n2v_to_N {TxV BlockV HdrV} z bits.

Section P.
Variables TxV BlockV HdrV : Type.
Variable parse_T : parser TxV.
Variable stream_T : TxV -> bytes.
Variable parse_B : parser BlockV.
Variable stream_B : BlockV -> bytes.
Variable parse_z : parser HdrV.
Variable stream_z : HdrV -> bytes.
Variable header_of : BlockV -> HdrV.
Variable ip4 : bytes.
Variable ict : list Z.
(* the only facts used about the transaction / block / header codecs (C07, C14) *)
Hypothesis frame_T : forall v rest, parse_T (stream_T v ++ rest) = Ret (v, rest).
Hypothesis frame_B : forall v rest, parse_B (stream_B v ++ rest) = Ret (v, rest).
Hypothesis frame_z : forall v rest, parse_z (stream_z v ++ rest) = Ret (v, rest).

Notation pyv := (pyval TxV BlockV HdrV).
Notation sc := (stream_codec stream_T stream_B stream_z header_of).
Notation pc := (parse_codec parse_T parse_B parse_z ip4 ict).
Notation ss := (stream_struct stream_T stream_B stream_z header_of).
Notation ps := (parse_struct parse_T parse_B parse_z ip4 ict).
Notation wire_ := (wire stream_T stream_B stream_z).
Notation wire_tuple_ := (wire_tuple stream_T stream_B stream_z).
Notation wire_elem_ := (wire_elem stream_T stream_B stream_z).
Notation wire_field_ := (wire_field stream_T stream_B stream_z).
Notation wire_message_ := (wire_message stream_T stream_B stream_z).

(* ---- every codec: declared-type values are written as the wire form and read back, whatever follows ---- *)
Lemma codec_frame k (v : pyv) rest :
  wt k v -> (k = CO -> v = VNone -> rest = []) ->
  sc k v = Ret (wire_ k v) /\ pc k (wire_ k v ++ rest) = Ret (v, rest).
Proof.
  intros Hwt Hopt.
  destruct k; destruct v; cbn [wt] in Hwt; try contradiction; cbn [wire stream_codec parse_codec].
  - (* I *)
    destruct (zrange_N _ _ Hwt) as [Hlt [Hid Hneg]].
    unfold stream_I. cbn [as_int]. rewrite Hneg, compact_size_eq by exact Hlt. split; [reflexivity|].
    destruct (varint_frame (Z.to_N z) rest Hlt) as [p [Hs [Hp _]]].
    rewrite compact_size_eq in Hs by exact Hlt. injection Hs as <-.
    unfold lift. rewrite Hp. cbn [bind]. now rewrite (n2v_to_N _ _ Hwt).
  - (* S *)
    unfold stream_S, lift.
    destruct (varstr_frame b rest Hwt) as [p [Hs Hp]].
    assert (Hlt : N.of_nat (length b) < 2 ^ 64).
    { eapply N.lt_trans; [exact Hwt|]. reflexivity. }
    unfold stream_varstr in Hs |- *. rewrite compact_size_eq in Hs |- * by exact Hlt.
    injection Hs as <-. split; [reflexivity|]. rewrite Hp. reflexivity.
  - (* h *)
    rewrite (pack_uint_be 2 z 16) by (auto; reflexivity). split; [reflexivity|].
    unfold lift. rewrite (read_be_bytes 2 z 16) by (auto; reflexivity). cbn [bind]. now rewrite (n2v_to_N _ _ Hwt).
  - (* L *)
    rewrite (pack_uint_le 4 z 32) by (auto; reflexivity). split; [reflexivity|].
    unfold lift. rewrite (read_le_bytes 4 z 32) by (auto; reflexivity). cbn [bind]. now rewrite (n2v_to_N _ _ Hwt).
  - (* Q *)
    rewrite (pack_uint_le 8 z 64) by (auto; reflexivity). split; [reflexivity|].
    unfold lift. rewrite (read_le_bytes 8 z 64) by (auto; reflexivity). cbn [bind]. now rewrite (n2v_to_N _ _ Hwt).
  - (* # *)
    unfold stream_fixed. rewrite <- Hwt at 1. rewrite firstn_all. split; [reflexivity|].
    now rewrite (read_exact b rest 32 Hwt).
  - (* @ *)
    unfold stream_fixed. rewrite <- Hwt at 1. rewrite firstn_all. split; [reflexivity|].
    now rewrite (read_exact b rest 16 Hwt).
  - (* b *)
    cbn [truthy]. split; [destruct b; reflexivity|]. cbn [app]. now rewrite bool_byte_parse.
  - (* A *)
    destruct Hwt as [Hs [Hip Hp]]. cbn [stream_obj]. unfold stream_addr.
    rewrite (pack_uint_le 8 services 64), (pack_uint_be 2 port 16) by (auto; reflexivity). cbn [bind].
    split; [reflexivity|]. unfold parse_addr. rewrite <- !app_assoc.
    rewrite (read_le_bytes 8 services 64) by (auto; reflexivity). cbn [bind].
    rewrite (read_exact ip_bin _ 16 Hip).
    rewrite (read_be_bytes 2 port 16) by (auto; reflexivity). cbn [bind].
    unfold mk_addr. rewrite Hip. cbn [Nat.eqb]. rewrite Hip. cbn [Nat.eqb bind].
    destruct (zrange_N _ _ Hs) as [_ [-> _]]. destruct (zrange_N _ _ Hp) as [_ [-> _]]. reflexivity.
  - (* v *)
    destruct Hwt as [Ht Hd]. cbn [stream_obj]. unfold stream_inv.
    rewrite (pack_uint_le 4 item_type 32) by (auto; reflexivity). cbn [bind].
    rewrite <- Hd at 1. rewrite firstn_all. split; [reflexivity|].
    unfold parse_inv. rewrite <- app_assoc.
    rewrite (read_le_bytes 4 item_type 32) by (auto; reflexivity). cbn [bind].
    rewrite (read_exact data _ 32 Hd). unfold mk_inv. rewrite Hd. cbn [negb andb Nat.eqb bind].
    destruct (zrange_N _ _ Ht) as [_ [-> _]]. reflexivity.
  - (* T *) split; [reflexivity|]. unfold lift. now rewrite frame_T.
  - (* B *) split; [reflexivity|]. unfold lift. now rewrite frame_B.
  - (* z *) split; [reflexivity|]. unfold lift. now rewrite frame_z.
  - (* 1 *)
    rewrite (pack_uint_le 1 z 8) by (auto; reflexivity). split; [reflexivity|].
    unfold lift. rewrite (read_le_bytes 1 z 8) by (auto; reflexivity). cbn [bind]. now rewrite (n2v_to_N _ _ Hwt).
  - (* 6 *)
    assert (H64 : zrange z 64).
    { unfold zrange in *. split; [lia|]. eapply Z.lt_trans; [apply Hwt|]. reflexivity. }
    rewrite (pack_uint_le 8 z 64) by (auto; reflexivity). cbn [bind].
    rewrite le_bytes_eq. change 8%nat with (6 + 2)%nat. rewrite firstn_le_encode, <- le_bytes_eq.
    split; [reflexivity|].
    unfold lift. rewrite (read_le_bytes 6 z 48) by (auto; reflexivity). cbn [bind]. now rewrite (n2v_to_N _ _ Hwt).
  - (* O, absent *)
    rewrite (Hopt eq_refl eq_refl). split; reflexivity.
  - (* O, present *)
    split; [destruct b; reflexivity|]. cbn [app]. now rewrite bool_byte_parse.
Qed.


(* ---- parse_struct / stream_struct on formats without arrays ------------------------------------------- *)
Lemma ps_nil n s : ps n [] s = Ret ([], s).
Proof. destruct n; reflexivity. Qed.

Lemma ps_codec n k fmt s :
  ps (S n) (char_of k :: fmt) s =
  bind (pc k s) (fun x => let '(v, s1) := x in
  bind (ps n fmt s1) (fun y => let '(rest, s2) := y in Ret (v :: rest, s2))).
Proof. cbn [parse_struct]. rewrite char_of_not_lbracket, char_of_lookup. reflexivity. Qed.

Lemma no_opt_cons k ks : existsb (codec_eqb CO) (k :: ks) = false -> k <> CO /\ existsb (codec_eqb CO) ks = false.
Proof.
  cbn [existsb]. intros H. apply orb_false_iff in H. destruct H as [H1 H2]. split; [|exact H2].
  intros ->. discriminate.
Qed.

Lemma tuple_frame ks (vs : list pyv) :
  Forall2 wt ks vs -> existsb (codec_eqb CO) ks = false ->
  ss (map char_of ks) vs = Ret (wire_tuple_ ks vs) /\
  forall rest n, (length ks <= n)%nat -> ps n (map char_of ks) (wire_tuple_ ks vs ++ rest) = Ret (vs, rest).
Proof.
  induction 1 as [|k v ks vs Hwt _ IH]; intros Hno.
  - split; [reflexivity|]. intros rest n _. apply ps_nil.
  - apply no_opt_cons in Hno. destruct Hno as [Hk Hno]. destruct (IH Hno) as [IHs IHp].
    assert (Hopt : forall rest : bytes, k = CO -> v = VNone -> rest = []) by (intros; contradiction).
    split.
    + cbn [map stream_struct wire_tuple]. rewrite char_of_lookup.
      destruct (codec_frame k v [] Hwt (Hopt [])) as [-> _]. cbn [bind]. rewrite IHs. reflexivity.
    + intros rest n Hn. cbn [length] in Hn. destruct n as [|n]; [lia|].
      cbn [map wire_tuple]. rewrite ps_codec, <- app_assoc.
      destruct (codec_frame k v (wire_tuple_ ks vs ++ rest) Hwt (Hopt _)) as [_ ->]. cbn [bind].
      rewrite IHp by lia. reflexivity.
Qed.

(* ---- array elements -------------------------------------------------------------------------------------- *)
Definition elem_parser (n : nat) (sub : bytes) : parser pyv := fun s0 =>
  bind (ps n sub s0) (fun x => let '(items, r) := x in
  Ret (match sub, items with
       | [_], v :: _ => v
       | _, _ => VTuple items
       end, r)).

Lemma wt_not_tuple k (e : pyv) : wt k e -> match e with VTuple t => t | _ => [e] end = [e].
Proof. destruct k, e; cbn [wt]; intros H; try contradiction; reflexivity. Qed.

Lemma elem_frame ks (e : pyv) :
  wt_elem ks e -> existsb (codec_eqb CO) ks = false ->
  ss (map char_of ks) (match e with VTuple t => t | _ => [e] end) = Ret (wire_elem_ ks e) /\
  forall rest n, (length ks <= n)%nat -> elem_parser n (map char_of ks) (wire_elem_ ks e ++ rest) = Ret (e, rest).
Proof.
  intros Hwt Hno. destruct ks as [|k [|k2 ks]].
  - cbn [wt_elem] in Hwt. destruct e; try contradiction. inversion Hwt; subst.
    split; [reflexivity|]. intros rest n _. unfold elem_parser. cbn [map wire_elem wire_tuple app].
    rewrite ps_nil. reflexivity.
  - cbn [wt_elem] in Hwt. rewrite (wt_not_tuple k e Hwt).
    destruct (tuple_frame [k] [e] (Forall2_cons _ _ Hwt (Forall2_nil _)) Hno) as [Hs Hp].
    cbn [wire_tuple] in Hs, Hp. rewrite app_nil_r in Hs, Hp. cbn [wire_elem].
    split; [exact Hs|]. intros rest n Hn. unfold elem_parser. rewrite (Hp rest n Hn). reflexivity.
  - cbn [wt_elem] in Hwt. destruct e; try contradiction.
    destruct (tuple_frame (k :: k2 :: ks) l Hwt Hno) as [Hs Hp]. cbn [wire_elem].
    split; [exact Hs|]. intros rest n Hn. unfold elem_parser. rewrite (Hp rest n Hn). reflexivity.
Qed.

Lemma elems_frame ks (es : list pyv) n :
  Forall (wt_elem ks) es -> existsb (codec_eqb CO) ks = false -> (length ks <= n)%nat ->
  pack_elems stream_T stream_B stream_z header_of (map char_of ks) es = Ret (concat (map (wire_elem_ ks) es)) /\
  Forall2 (fun e b => forall r, elem_parser n (map char_of ks) (b ++ r) = Ret (e, r)) es (map (wire_elem_ ks) es).
Proof.
  intros H Hno Hn. induction H as [|e es He _ [IHs IHp]].
  - split; [reflexivity|constructor].
  - destruct (elem_frame ks e He Hno) as [Hs Hp]. split.
    + cbn [pack_elems map concat]. rewrite Hs. cbn [bind]. rewrite IHs. reflexivity.
    + cbn [map]. constructor; [|exact IHp]. intros r. apply Hp. exact Hn.
Qed.

(* ---- one field of a message ------------------------------------------------------------------------------ *)
Lemma find_close_ok ks more : find_close (map char_of ks ++ rbracket :: more) = Some (map char_of ks, more).
Proof.
  induction ks as [|k ks IH]; cbn [map app find_close].
  - reflexivity.
  - rewrite char_of_not_rbracket, IH. reflexivity.
Qed.

Lemma ps_array n ks more s :
  ps (S n) (lbracket :: map char_of ks ++ rbracket :: more) s =
  bind (parse_varint s) (fun x => let '(count, s1) := x in
  bind (parse_array (elem_parser n (map char_of ks)) count s1) (fun y => let '(arr, s2) := y in
  bind (ps n more s2) (fun w => let '(rest, s3) := w in Ret (VTuple arr :: rest, s3)))).
Proof. cbn [parse_struct]. rewrite find_close_ok. reflexivity. Qed.

Lemma compact_parse n rest : n < 2 ^ 64 -> parse_varint (compact_size n ++ rest) = Ret (n, rest).
Proof.
  intros H. destruct (varint_frame n rest H) as [p [Hs [Hp _]]].
  rewrite compact_size_eq in Hs by exact H. injection Hs as <-. exact Hp.
Qed.

Lemma field_frame ft (v : pyv) rest :
  wt_field ft v -> arr_no_opt ft = true -> (ft = FOne CO -> v = VNone -> rest = []) ->
  pack_field stream_T stream_B stream_z header_of (chars_of_ftype ft) v = Ret (wire_field_ ft v) /\
  forall n more, (length (chars_of_ftype ft) <= S n)%nat ->
    ps (S n) (chars_of_ftype ft ++ more) (wire_field_ ft v ++ rest) =
    bind (ps n more rest) (fun y => let '(items, r) := y in Ret (v :: items, r)).
Proof.
  intros Hwt Hno Hopt. destruct ft as [k|ks].
  - cbn [wt_field] in Hwt. cbn [chars_of_ftype wire_field].
    assert (Hopt' : k = CO -> v = VNone -> rest = []) by (intros ->; apply Hopt; reflexivity).
    destruct (codec_frame k v rest Hwt Hopt') as [_ Hp].
    assert (Hs : sc k v = Ret (wire_ k v)).
    { destruct k; try (apply (codec_frame _ v [] Hwt); intros; discriminate).
      destruct v; cbn [wt] in Hwt; try contradiction; [reflexivity | destruct b; reflexivity]. }
    split.
    + unfold pack_field. rewrite char_of_not_lbracket. cbn [stream_struct]. rewrite char_of_lookup, Hs.
      cbn [bind]. now rewrite app_nil_r.
    + intros n more _. cbn [app]. rewrite ps_codec, Hp. reflexivity.
  - cbn [wt_field] in Hwt. destruct v; try contradiction. destruct Hwt as [Hlen Hall].
    cbn [arr_no_opt] in Hno. apply negb_true_iff in Hno.
    cbn [chars_of_ftype wire_field].
    assert (HI : wt CI (VInt (Z.of_nat (length l)) : pyv)).
    { cbn [wt]. unfold zrange. change (2 ^ 64) with 18446744073709551616 in Hlen.
      change (2 ^ Z.of_N 64)%Z with 18446744073709551616%Z. lia. }
    assert (HN : Z.to_N (Z.of_nat (length l)) = N.of_nat (length l)) by lia.
    split.
    + unfold pack_field. change (byte_eqb lbracket lbracket) with true. cbn [as_seq bind].
      cbn [stream_struct]. rewrite char_of_lookup.
      destruct (codec_frame CI _ [] HI ltac:(intros; discriminate)) as [-> _]. cbn [bind wire].
      rewrite HN, app_nil_r, removelast_last.
      destruct (elems_frame ks l (length ks) Hall Hno (le_n _)) as [-> _]. reflexivity.
    + intros n more Hn. cbn [length] in Hn. rewrite app_length, map_length in Hn. cbn [length] in Hn.
      cbn [app]. rewrite <- app_assoc. cbn [app]. rewrite ps_array, <- app_assoc, compact_parse by exact Hlen.
      cbn [bind].
      destruct (elems_frame ks l n Hall Hno ltac:(lia)) as [_ HF].
      rewrite (parse_array_ok _ _ _ _ l _ rest HF Hlen). reflexivity.
Qed.

(* ---- whole messages ---------------------------------------------------------------------------------------- *)


Lemma fields_frame : forall layout fts (vals : list pyv) kwargs,
  layout_ftypes layout = Some fts -> Forall2 wt_field fts vals ->
  forallb arr_no_opt fts = true -> opt_only_last fts = true ->
  (forall nm v, In (nm, v) (combine (map fst layout) vals) -> str_lookup kwargs nm = Some v) ->
  pack_fields stream_T stream_B stream_z header_of layout kwargs = Ret (wire_message_ fts vals) /\
  forall n, (length (layout_types layout) <= n)%nat ->
    ps n (layout_types layout) (wire_message_ fts vals) = Ret (vals, []).
Proof.
  induction layout as [|[nm ty] layout IH]; intros fts vals kwargs Hft Hwt Hno Hopt Hkw.
  - cbn [layout_ftypes] in Hft. injection Hft as <-. inversion Hwt; subst.
    split; [reflexivity|]. intros n _. apply ps_nil.
  - cbn [layout_ftypes] in Hft.
    destruct (ftype_of_text ty) as [ft|] eqn:Eft; [|discriminate].
    destruct (layout_ftypes layout) as [fts'|] eqn:Efts; [|discriminate].
    injection Hft as <-. inversion Hwt as [|ft0 v fts0 vals' Hv Hvals]; subst.
    apply ftype_of_text_chars in Eft. subst ty.
    cbn [forallb] in Hno. apply andb_true_iff in Hno. destruct Hno as [Hno1 Hno].
    apply opt_only_last_cons in Hopt. destruct Hopt as [Hlast Hopt].
    assert (Hkw' : forall nm' v', In (nm', v') (combine (map fst layout) vals') -> str_lookup kwargs nm' = Some v').
    { intros nm' v' Hin. apply Hkw. cbn [map fst combine]. right. exact Hin. }
    destruct (IH fts' vals' kwargs eq_refl Hvals Hno Hopt Hkw') as [IHs IHp].
    assert (Hrest : ft = FOne CO -> v = VNone -> wire_message_ fts' vals' = []).
    { intros -> _. destruct Hlast as [-> | Hc]; [reflexivity | discriminate]. }
    destruct (field_frame ft v (wire_message_ fts' vals') Hv Hno1 Hrest) as [Hs Hp].
    split.
    + cbn [pack_fields]. rewrite (Hkw nm v) by (cbn [map fst combine]; now left).
      rewrite Hs. cbn [bind]. rewrite IHs. reflexivity.
    + intros n Hn. unfold layout_types in Hn |- *. cbn [map snd concat] in Hn |- *.
      rewrite app_length in Hn. cbn [wire_message].
      assert (Hpos : (1 <= length (chars_of_ftype ft))%nat).
      { destruct ft; cbn [chars_of_ftype length]; lia. }
      destruct n as [|n]; [lia|].
      rewrite Hp by lia. fold (layout_types layout). rewrite IHp by (unfold layout_types; lia). reflexivity.
Qed.



(* pack = the wire form; reading it back gives the field values under their names and leaves nothing *)
Lemma message_frame layout fts (vals : list pyv) kwargs :
  layout_ok layout = true -> layout_ftypes layout = Some fts -> Forall2 wt_field fts vals ->
  (forall nm v, In (nm, v) (combine (map fst layout) vals) -> str_lookup kwargs nm = Some v) ->
  pack_fields stream_T stream_B stream_z header_of layout kwargs = Ret (wire_message_ fts vals) /\
  parse_message parse_T parse_B parse_z ip4 ict layout (wire_message_ fts vals)
    = Ret (combine (map fst layout) vals, []).
Proof.
  intros Hok Hft Hwt Hkw. unfold layout_ok in Hok. rewrite Hft in Hok.
  apply andb_true_iff in Hok. destruct Hok as [Hok Hno]. apply andb_true_iff in Hok. destruct Hok as [_ Hopt].
  destruct (fields_frame layout fts vals kwargs Hft Hwt Hno Hopt Hkw) as [Hs Hp].
  split; [exact Hs|]. unfold parse_message. rewrite Hp by lia. reflexivity.
Qed.





Lemma parse_from_data_unfold msgs al post name layout data d rest :
  str_lookup msgs name = Some layout ->
  parse_message parse_T parse_B parse_z ip4 ict layout data = Ret (d, rest) ->
  parse_from_data parse_T parse_B parse_z ip4 ict msgs al post name data =
  (if bytes_eqb name (str "alert") then post_unpack_alert parse_T parse_B parse_z ip4 ict al d
   else if bytes_eqb name (str "merkleblock") then post d else Ret d).
Proof. intros H1 H2. unfold parse_from_data. rewrite H1, H2. reflexivity. Qed.



(* the generic statement over ANY layout table that passes table_ok *)
Lemma all_messages_generic msgs : table_ok msgs = true ->
  forall name layout, In (name, layout) msgs ->
  exists fts, layout_ftypes layout = Some fts /\
  forall (vals : list pyv) kwargs, Forall2 wt_field fts vals ->
    (forall nm v, In (nm, v) (combine (map fst layout) vals) -> str_lookup kwargs nm = Some v) ->
    pack_from_data stream_T stream_B stream_z header_of msgs name kwargs = Ret (wire_message_ fts vals) /\
    parse_message parse_T parse_B parse_z ip4 ict layout (wire_message_ fts vals)
      = Ret (combine (map fst layout) vals, []) /\
    forall al post, name <> str "alert" -> name <> str "merkleblock" ->
      parse_from_data parse_T parse_B parse_z ip4 ict msgs al post name (wire_message_ fts vals)
        = Ret (combine (map fst layout) vals).
Proof.
  intros Hok name layout Hin. destruct (table_entry msgs name layout Hok Hin) as [Hlk [Hl [fts Hft]]].
  exists fts. split; [exact Hft|]. intros vals kwargs Hwt Hkw.
  destruct (message_frame layout fts vals kwargs Hl Hft Hwt Hkw) as [Hs Hp].
  split; [unfold pack_from_data; rewrite Hlk; exact Hs|]. split; [exact Hp|].
  intros al post Ha Hm. rewrite (parse_from_data_unfold msgs al post name layout _ _ _ Hlk Hp).
  now rewrite (bytes_eqb_neq _ _ Ha), (bytes_eqb_neq _ _ Hm).
Qed.

(* ---- keyword arguments are looked up by NAME: the order in which the caller wrote them does not matter ---- *)
Lemma pack_fields_lookup_ext layout (k1 k2 : list (bytes * pyv)) :
  (forall nm, In nm (map fst layout) -> str_lookup k1 nm = str_lookup k2 nm) ->
  pack_fields stream_T stream_B stream_z header_of layout k1 = pack_fields stream_T stream_B stream_z header_of layout k2.
Proof.
  induction layout as [|[nm ty] r IH]; intros H; cbn [pack_fields]; [reflexivity|].
  rewrite (H nm) by (cbn [map fst]; now left).
  rewrite IH by (intros n Hn; apply H; cbn [map fst]; now right). reflexivity.
Qed.

Lemma pack_lookup_ext msgs name (k1 k2 : list (bytes * pyv)) :
  (forall nm, str_lookup k1 nm = str_lookup k2 nm) ->
  pack_from_data stream_T stream_B stream_z header_of msgs name k1
  = pack_from_data stream_T stream_B stream_z header_of msgs name k2.
Proof.
  intros H. unfold pack_from_data. destruct (str_lookup msgs name) as [layout|]; [|reflexivity].
  apply pack_fields_lookup_ext. intros nm _. apply H.
Qed.

Lemma str_lookup_not_in {A} (d : list (bytes * A)) k : ~ In k (map fst d) -> str_lookup d k = None.
Proof.
  induction d as [|[k' v] r IH]; cbn [str_lookup map fst]; intros H; [reflexivity|].
  destruct (bytes_eqb k k') eqn:E; [apply bytes_eqb_eq in E; subst; exfalso; apply H; now left|].
  apply IH. intros Hin. apply H. now right.
Qed.

Lemma str_lookup_perm {A} (d1 d2 : list (bytes * A)) : Permutation d1 d2 -> NoDup (map fst d1) ->
  forall k, str_lookup d1 k = str_lookup d2 k.
Proof.
  induction 1 as [|[k0 v0] l l' HP IH|[k1 v1] [k2 v2] l|l l' l'' HP1 IH1 HP2 IH2]; intros ND k.
  - reflexivity.
  - cbn [str_lookup]. cbn [map fst] in ND. inversion ND; subst. rewrite IH by assumption. reflexivity.
  - cbn [str_lookup]. cbn [map fst] in ND. inversion ND as [|? ? Hn1 ND']; subst.
    destruct (bytes_eqb k k2) eqn:E2; destruct (bytes_eqb k k1) eqn:E1; try reflexivity.
    apply bytes_eqb_eq in E1, E2. subst. exfalso. apply Hn1. now left.
  - rewrite IH1 by assumption. apply IH2.
    eapply Permutation_NoDup; [|exact ND]. now apply Permutation_map.
Qed.

(* any reordering of duplicate-free keyword arguments packs to the same bytes (or raises the same exception) *)
Lemma pack_kwargs_order_independent msgs name (k1 k2 : list (bytes * pyv)) :
  Permutation k1 k2 -> NoDup (map fst k1) ->
  pack_from_data stream_T stream_B stream_z header_of msgs name k1
  = pack_from_data stream_T stream_B stream_z header_of msgs name k2.
Proof. intros HP ND. apply pack_lookup_ext. now apply str_lookup_perm. Qed.

End P.

Section Total.
Variables TxV BlockV HdrV : Type.
Variable parse_T : parser TxV.
Variable parse_B : parser BlockV.
Variable parse_z : parser HdrV.
Variable ip4 : bytes.
Variable ict : list Z.
Notation pyv := (pyval TxV BlockV HdrV).
Notation pc := (parse_codec parse_T parse_B parse_z ip4 ict).
Notation ps := (parse_struct parse_T parse_B parse_z ip4 ict).

(* ---- fuel: parse_struct never runs out of fuel when fuel >= length of the format text ------------------ *)
Lemma bind_no_oof {A B} (m : outcome A) (f : A -> outcome B) :
  m <> OutOfFuel -> (forall a, f a <> OutOfFuel) -> bind m f <> OutOfFuel.
Proof. destruct m; cbn [bind]; intros H1 H2; [apply H2 | discriminate | contradiction]. Qed.

Lemma read_le_no_oof w s : read_le w s <> OutOfFuel.
Proof. unfold read_le, read. destruct (_ <? _)%nat; discriminate. Qed.
Lemma read_be_no_oof w s : read_be w s <> OutOfFuel.
Proof. unfold read_be, read. destruct (_ <? _)%nat; discriminate. Qed.
Lemma parse_varint_no_oof s : parse_varint s <> OutOfFuel.
Proof.
  unfold parse_varint. destruct s as [|b r]; [discriminate|].
  repeat match goal with |- context [if ?c then _ else _] => destruct c end;
    try apply read_le_no_oof; discriminate.
Qed.
Lemma parse_varint_bound s v r : parse_varint s = Ret (v, r) -> v < 2 ^ 64.
Proof.
  unfold parse_varint. destruct s as [|b t]; [discriminate|]. pose proof (b2n_lt b) as Hb.
  change (2 ^ 64) with 18446744073709551616.
  repeat match goal with |- context [if ?c then _ else _] => destruct c end; intros H;
    try (apply read_le_inv in H; destruct H as [_ H];
         first [ change (256 ^ N.of_nat 2) with 65536 in H | change (256 ^ N.of_nat 4) with 4294967296 in H
               | change (256 ^ N.of_nat 8) with 18446744073709551616 in H ]; lia).
  injection H as <- _. lia.
Qed.

Lemma lift_no_oof {A} (p : parser A) (f : A -> pyv) s : p s <> OutOfFuel -> lift p f s <> OutOfFuel.
Proof. intros H. unfold lift. apply bind_no_oof; [exact H|]. intros [a r]. discriminate. Qed.

Lemma pc_no_oof k s : k <> CT -> k <> CB -> k <> Cz -> pc k s <> OutOfFuel.
Proof.
  intros HT HB Hz. destruct k; try contradiction; cbn [parse_codec];
    try (apply lift_no_oof; first [apply parse_varint_no_oof | apply read_le_no_oof | apply read_be_no_oof]).
  - (* S *) apply lift_no_oof. unfold parse_varstr. pose proof (parse_varint_no_oof s).
    destruct (parse_varint s) as [[n r]| |]; try discriminate; [|contradiction].
    destruct (_ <=? _); discriminate.
  - unfold read. cbv beta iota. discriminate.
  - unfold read. cbv beta iota. discriminate.
  - destruct s; discriminate.
  - (* A *) unfold parse_addr. apply bind_no_oof; [apply read_le_no_oof|]. intros [sv s1]. unfold read. cbv beta iota.
    apply bind_no_oof; [apply read_be_no_oof|]. intros [p s3]. apply bind_no_oof; [|discriminate].
    unfold mk_addr. cbv zeta. repeat match goal with |- context [if ?c then _ else _] => destruct c end; discriminate.
  - (* v *) unfold parse_inv. apply bind_no_oof; [apply read_le_no_oof|]. intros [ty s1]. unfold read. cbv beta iota.
    apply bind_no_oof; [|discriminate]. unfold mk_inv. cbn [negb andb]. repeat match goal with |- context [if ?c then _ else _] => destruct c end; discriminate.
  - destruct s; discriminate.
Qed.

Section LoopTotal.
Variable elem : parser pyv.
Hypothesis elem_total : forall s, elem s <> OutOfFuel.
Lemma loop_total : forall (c : nat) acc s m, (S c <= m)%nat ->
  exists r, Nat.iter m (step elem) (Running (N.of_nat c) acc s) = Done r /\ r <> OutOfFuel.
Proof.
  induction c as [|c IH]; intros acc s m Hm; (destruct m as [|m]; [lia|]); rewrite iter_succ_r.
  - cbn [step N.of_nat N.eqb]. rewrite iter_done. eexists. split; [reflexivity|discriminate].
  - cbn [step]. replace (N.of_nat (S c) =? 0) with false by lia.
    pose proof (elem_total s) as He. destruct (elem s) as [[v s']| e |]; [| |contradiction].
    + replace (N.of_nat (S c) - 1) with (N.of_nat c) by lia. apply IH. lia.
    + rewrite iter_done. eexists. split; [reflexivity|discriminate].
Qed.
Lemma parse_array_no_oof count s : count < 2 ^ 64 -> parse_array elem count s <> OutOfFuel.
Proof.
  intros Hc. unfold parse_array. rewrite loopk_iter.
  pose proof loop_capacity as Hcap. remember (2 ^ loop_depth)%nat as X eqn:EX. clear EX.
  change (2 ^ 64) with 18446744073709551616 in Hc.
  rewrite <- (N2Nat.id count).
  destruct (loop_total (N.to_nat count) [] s X ltac:(lia)) as [r [-> Hr]]. exact Hr.
Qed.
End LoopTotal.

Lemma find_close_split l a b : find_close l = Some (a, b) -> l = a ++ rbracket :: b.
Proof.
  revert a b. induction l as [|c l IH]; intros a b; cbn [find_close]; [discriminate|].
  destruct (byte_eqb c rbracket) eqn:E.
  - intros H. injection H as <- <-. apply byte_eqb_eq in E. now subst c.
  - destruct (find_close l) as [[a' b']|]; [|discriminate]. intros H. injection H as <- <-.
    cbn [app]. f_equal. now apply IH.
Qed.

Lemma ps_no_oof : forall n fmt s, (length fmt <= n)%nat ->
  (forall c k, In c fmt -> codec_of_char c = Some k -> forall s', pc k s' <> OutOfFuel) ->
  ps n fmt s <> OutOfFuel.
Proof.
  induction n as [|n IH]; intros fmt s Hlen Hc.
  - destruct fmt; [discriminate|cbn [length] in Hlen; lia].
  - destruct fmt as [|c fmt]; [discriminate|]. cbn [length] in Hlen. cbn [parse_struct].
    destruct (byte_eqb c lbracket).
    + destruct (find_close fmt) as [[sub more]|] eqn:Ef; [|discriminate].
      apply find_close_split in Ef. subst fmt. rewrite app_length in Hlen. cbn [length] in Hlen.
      assert (Hsub : forall c' k, In c' sub -> codec_of_char c' = Some k -> forall s', pc k s' <> OutOfFuel).
      { intros c' k Hin. apply Hc. right. apply in_or_app. now left. }
      assert (Hmore : forall c' k, In c' more -> codec_of_char c' = Some k -> forall s', pc k s' <> OutOfFuel).
      { intros c' k Hin. apply Hc. right. apply in_or_app. right. now right. }
      pose proof (parse_varint_no_oof s) as Hv.
      destruct (parse_varint s) as [[count s1]| |] eqn:Ev; [|discriminate|contradiction].
      cbn [bind]. apply parse_varint_bound in Ev.
      apply bind_no_oof.
      * apply parse_array_no_oof; [|exact Ev]. intros s0. apply bind_no_oof; [apply IH; [lia|exact Hsub]|].
        intros [items r]. discriminate.
      * intros [arr s2]. apply bind_no_oof; [apply IH; [lia|exact Hmore]|]. intros [rest s3]. discriminate.
    + destruct (codec_of_char c) as [k|] eqn:Ek; [|discriminate].
      apply bind_no_oof; [apply (Hc c k); [now left|exact Ek]|]. intros [v s1].
      apply bind_no_oof; [apply IH; [lia|]|].
      * intros c' k' Hin. apply Hc. now right.
      * intros [rest s2]. discriminate.
Qed.

(* fuel sufficiency of parse_message: with total Tx/Block/header parsers no input runs out of fuel *)
Lemma parse_message_no_oof layout data :
  (forall s, parse_T s <> OutOfFuel) -> (forall s, parse_B s <> OutOfFuel) -> (forall s, parse_z s <> OutOfFuel) ->
  parse_message parse_T parse_B parse_z ip4 ict layout data <> OutOfFuel.
Proof.
  intros HT HB Hz. unfold parse_message. apply bind_no_oof; [|intros [items rest]; discriminate].
  apply ps_no_oof; [lia|]. intros c k _ _ s'.
  destruct k; try (apply pc_no_oof; discriminate); cbn [parse_codec]; apply lift_no_oof; auto.
Qed.

Definition no_object_codec (c : byte) : bool :=
  match codec_of_char c with Some CT | Some CB | Some Cz => false | _ => true end.
Lemma parse_message_no_oof_plain layout data :
  forallb no_object_codec (layout_types layout) = true ->
  parse_message parse_T parse_B parse_z ip4 ict layout data <> OutOfFuel.
Proof.
  intros Hall. unfold parse_message. apply bind_no_oof; [|intros [items rest]; discriminate].
  apply ps_no_oof; [lia|]. intros c k Hin Hk s'. rewrite forallb_forall in Hall. specialize (Hall c Hin).
  unfold no_object_codec in Hall. rewrite Hk in Hall. apply pc_no_oof; intros ->; discriminate.
Qed.
End Total.


Lemma std_table_ok : table_ok std_messages = true.
Proof. vm_compute. reflexivity. Qed.
Lemma std_alert_layout_ok : layout_ok alert_layout = true.
Proof. vm_compute. reflexivity. Qed.
Lemma std_layouts_match : layouts_match std_messages protocol_layouts = true.
Proof. vm_compute. reflexivity. Qed.
Lemma std_post_unpack_names : post_unpack_names = [str "alert"; str "merkleblock"].
Proof. reflexivity. Qed.

Lemma codec_of_char_inv c k : codec_of_char c = Some k -> c = char_of k.
Proof. destruct c; vm_compute; intros H; try discriminate; injection H as <-; reflexivity. Qed.

(* the characters the implementation registers are exactly the sixteen the model interprets *)
Lemma registered_chars_exact c : In c registered_chars <-> exists k, codec_of_char c = Some k.
Proof.
  split.
  - intros H. assert (Hall : forallb (fun c => match codec_of_char c with Some _ => true | None => false end) registered_chars = true)
      by (vm_compute; reflexivity).
    rewrite forallb_forall in Hall. specialize (Hall c H). destruct (codec_of_char c) as [k|]; [now exists k|discriminate].
  - intros [k H]. apply codec_of_char_inv in H. subst c.
    assert (He : existsb (byte_eqb (char_of k)) registered_chars = true) by (destruct k; vm_compute; reflexivity).
    apply existsb_exists in He. destruct He as [x [Hx Hxe]]. apply byte_eqb_eq in Hxe. now subst x.
Qed.

Section Std.
Variables TxV BlockV HdrV : Type.
Variable parse_T : parser TxV.
Variable stream_T : TxV -> bytes.
Variable parse_B : parser BlockV.
Variable stream_B : BlockV -> bytes.
Variable parse_z : parser HdrV.
Variable stream_z : HdrV -> bytes.
Variable header_of : BlockV -> HdrV.
Hypothesis frame_T : forall v rest, parse_T (stream_T v ++ rest) = Ret (v, rest).
Hypothesis frame_B : forall v rest, parse_B (stream_B v ++ rest) = Ret (v, rest).
Hypothesis frame_z : forall v rest, parse_z (stream_z v ++ rest) = Ret (v, rest).
Variable post_merkleblock : list (bytes * pyval TxV BlockV HdrV) -> outcome (list (bytes * pyval TxV BlockV HdrV)).
Notation pyv := (pyval TxV BlockV HdrV).
Notation std_pack := (pack_from_data stream_T stream_B stream_z header_of std_messages).
Notation std_parse_message := (parse_message parse_T parse_B parse_z ip4_header inv_checked_types).
Notation std_parse := (parse_from_data parse_T parse_B parse_z ip4_header inv_checked_types std_messages alert_layout post_merkleblock).
Notation wire_message_ := (wire_message stream_T stream_B stream_z).

Lemma std_all_messages : forall name layout, In (name, layout) std_messages ->
  exists fts, layout_ftypes layout = Some fts /\
  forall (vals : list pyv) kwargs, Forall2 wt_field fts vals ->
    (forall nm v, In (nm, v) (combine (map fst layout) vals) -> str_lookup kwargs nm = Some v) ->
    std_pack name kwargs = Ret (wire_message_ fts vals) /\
    std_parse_message layout (wire_message_ fts vals) = Ret (combine (map fst layout) vals, []) /\
    (name <> str "alert" -> name <> str "merkleblock" ->
      std_parse name (wire_message_ fts vals) = Ret (combine (map fst layout) vals)).
Proof.
  intros name layout Hin.
  destruct (all_messages_generic TxV BlockV HdrV parse_T stream_T parse_B stream_B parse_z stream_z header_of
              ip4_header inv_checked_types frame_T frame_B frame_z std_messages std_table_ok name layout Hin)
    as [fts [Hft H]].
  exists fts. split; [exact Hft|]. intros vals kwargs Hwt Hkw. destruct (H vals kwargs Hwt Hkw) as [H1 [H2 H3]].
  split; [exact H1|]. split; [exact H2|]. intros Ha Hm. apply H3; assumption.
Qed.

(* parse_from_data including the post-processing steps *)
Lemma std_parse_from_data : forall name layout fts (vals : list pyv),
  In (name, layout) std_messages -> layout_ftypes layout = Some fts -> Forall2 wt_field fts vals ->
  (name = str "merkleblock" -> exists extra,
      post_merkleblock (combine (map fst layout) vals) = Ret (combine (map fst layout) vals ++ extra)) ->
  exists extra, std_parse name (wire_message_ fts vals) = Ret (combine (map fst layout) vals ++ extra).
Proof.
  intros name layout fts vals Hin Hft Hwt Hmb.
  destruct (table_entry std_messages name layout std_table_ok Hin) as [Hlk [Hl _]].
  assert (Hkw := kwargs_canonical layout vals Hl).
  assert (Hlen : length vals = length layout).
  { rewrite <- (layout_ftypes_length layout fts Hft). symmetry. clear -Hwt. induction Hwt; cbn [length]; congruence. }
  destruct (message_frame TxV BlockV HdrV parse_T stream_T parse_B stream_B parse_z stream_z header_of
              ip4_header inv_checked_types frame_T frame_B frame_z layout fts vals _ Hl Hft Hwt (Hkw Hlen)) as [_ Hp].
  rewrite (parse_from_data_unfold TxV BlockV HdrV parse_T parse_B parse_z ip4_header inv_checked_types
             std_messages alert_layout post_merkleblock name layout _ _ _ Hlk Hp).
  destruct (bytes_eqb name (str "alert")) eqn:Ea.
  - apply bytes_eqb_eq in Ea. subst name.
    assert (Hl0 : str_lookup std_messages (str "alert") = Some [(str "payload", str "S"); (str "signature", str "S")])
      by (vm_compute; reflexivity).
    rewrite Hl0 in Hlk. injection Hlk as <-.
    vm_compute in Hft. injection Hft as <-.
    inversion Hwt as [|ft1 v1 fts1 vals1 Hv1 Hvals1]; subst.
    inversion Hvals1 as [|ft2 v2 fts2 vals2 Hv2 Hvals2]; subst.
    inversion Hvals2; subst.
    cbn [wt_field wt] in Hv1. destruct v1; try contradiction.
    unfold post_unpack_alert. cbn [map fst combine].
    match goal with |- context [str_lookup ?d ?k] => change (str_lookup d k) with (Some (VBytes b : pyv)) end.
    cbv beta iota.
    pose proof (parse_message_no_oof_plain TxV BlockV HdrV parse_T parse_B parse_z ip4_header inv_checked_types
                  alert_layout b ltac:(vm_compute; reflexivity)) as Hno.
    destruct (parse_message parse_T parse_B parse_z ip4_header inv_checked_types alert_layout b) as [[d1 r]| e |];
      [| |contradiction]; cbn [bind]; eexists; reflexivity.
  - destruct (bytes_eqb name (str "merkleblock")) eqn:Em.
    + apply bytes_eqb_eq in Em. exact (Hmb Em).
    + exists []. now rewrite app_nil_r.
Qed.
End Std.

(* ---- per-codec statements in explicit form (Props/C16.v quotes these) ------------------------------------- *)
Section Named.
Variables TxV BlockV HdrV : Type.
Variable parse_T : parser TxV.
Variable stream_T : TxV -> bytes.
Variable parse_B : parser BlockV.
Variable stream_B : BlockV -> bytes.
Variable parse_z : parser HdrV.
Variable stream_z : HdrV -> bytes.
Variable header_of : BlockV -> HdrV.
Variable ip4 : bytes.
Variable ict : list Z.
Hypothesis frame_T : forall v rest, parse_T (stream_T v ++ rest) = Ret (v, rest).
Hypothesis frame_B : forall v rest, parse_B (stream_B v ++ rest) = Ret (v, rest).
Hypothesis frame_z : forall v rest, parse_z (stream_z v ++ rest) = Ret (v, rest).
Notation pyv := (pyval TxV BlockV HdrV).
Notation sc := (stream_codec stream_T stream_B stream_z header_of).
Notation pc := (parse_codec parse_T parse_B parse_z ip4 ict).
Notation cf := (codec_frame TxV BlockV HdrV parse_T stream_T parse_B stream_B parse_z stream_z header_of ip4 ict
                  frame_T frame_B frame_z).

Ltac by_frame k v rest H := exact (cf k v rest H ltac:(intros; discriminate)).

Lemma rt_I (z : Z) rest : (0 <= z < 2 ^ 64)%Z ->
  sc CI (VInt z) = Ret (compact_size (Z.to_N z)) /\ pc CI (compact_size (Z.to_N z) ++ rest) = Ret (VInt z, rest).
Proof. intros H. by_frame CI (VInt z : pyv) rest H. Qed.
Lemma rt_S (b : bytes) rest : N.of_nat (length b) < 2 ^ 63 ->
  sc CS (VBytes b) = Ret (compact_size (N.of_nat (length b)) ++ b) /\
  pc CS ((compact_size (N.of_nat (length b)) ++ b) ++ rest) = Ret (VBytes b, rest).
Proof. intros H. by_frame CS (VBytes b : pyv) rest H. Qed.
Lemma rt_h (z : Z) rest : (0 <= z < 2 ^ 16)%Z ->
  sc Ch (VInt z) = Ret (be_bytes 2 (Z.to_N z)) /\ pc Ch (be_bytes 2 (Z.to_N z) ++ rest) = Ret (VInt z, rest).
Proof. intros H. by_frame Ch (VInt z : pyv) rest H. Qed.
Lemma rt_L (z : Z) rest : (0 <= z < 2 ^ 32)%Z ->
  sc CL (VInt z) = Ret (le_bytes 4 (Z.to_N z)) /\ pc CL (le_bytes 4 (Z.to_N z) ++ rest) = Ret (VInt z, rest).
Proof. intros H. by_frame CL (VInt z : pyv) rest H. Qed.
Lemma rt_Q (z : Z) rest : (0 <= z < 2 ^ 64)%Z ->
  sc CQ (VInt z) = Ret (le_bytes 8 (Z.to_N z)) /\ pc CQ (le_bytes 8 (Z.to_N z) ++ rest) = Ret (VInt z, rest).
Proof. intros H. by_frame CQ (VInt z : pyv) rest H. Qed.
Lemma rt_1 (z : Z) rest : (0 <= z < 2 ^ 8)%Z ->
  sc C1 (VInt z) = Ret (le_bytes 1 (Z.to_N z)) /\ pc C1 (le_bytes 1 (Z.to_N z) ++ rest) = Ret (VInt z, rest).
Proof. intros H. by_frame C1 (VInt z : pyv) rest H. Qed.
Lemma rt_6 (z : Z) rest : (0 <= z < 2 ^ 48)%Z ->
  sc C6 (VInt z) = Ret (le_bytes 6 (Z.to_N z)) /\ pc C6 (le_bytes 6 (Z.to_N z) ++ rest) = Ret (VInt z, rest).
Proof. intros H. by_frame C6 (VInt z : pyv) rest H. Qed.
Lemma rt_hash (b : bytes) rest : length b = 32%nat ->
  sc CHash (VBytes b) = Ret b /\ pc CHash (b ++ rest) = Ret (VBytes b, rest).
Proof. intros H. by_frame CHash (VBytes b : pyv) rest H. Qed.
Lemma rt_at (b : bytes) rest : length b = 16%nat ->
  sc CAt (VBytes b) = Ret b /\ pc CAt (b ++ rest) = Ret (VBytes b, rest).
Proof. intros H. by_frame CAt (VBytes b : pyv) rest H. Qed.
Lemma rt_b (b : bool) rest :
  sc Cb (VBool b) = Ret [bool_byte b] /\ pc Cb (bool_byte b :: rest) = Ret (VBool b, rest).
Proof. by_frame Cb (VBool b : pyv) rest I. Qed.
Lemma rt_A (s : Z) (ip : bytes) (p : Z) rest : (0 <= s < 2 ^ 64)%Z -> length ip = 16%nat -> (0 <= p < 2 ^ 16)%Z ->
  sc CA (VAddr s ip p) = Ret (le_bytes 8 (Z.to_N s) ++ ip ++ be_bytes 2 (Z.to_N p)) /\
  pc CA ((le_bytes 8 (Z.to_N s) ++ ip ++ be_bytes 2 (Z.to_N p)) ++ rest) = Ret (VAddr s ip p, rest).
Proof. intros H1 H2 H3. by_frame CA (VAddr s ip p : pyv) rest (conj H1 (conj H2 H3)). Qed.
Lemma rt_v (t : Z) (d : bytes) rest : (0 <= t < 2 ^ 32)%Z -> length d = 32%nat ->
  sc Cv (VInv t d) = Ret (le_bytes 4 (Z.to_N t) ++ d) /\
  pc Cv ((le_bytes 4 (Z.to_N t) ++ d) ++ rest) = Ret (VInv t d, rest).
Proof. intros H1 H2. by_frame Cv (VInv t d : pyv) rest (conj H1 H2). Qed.
Lemma rt_T (t : TxV) rest : sc CT (VTx t) = Ret (stream_T t) /\ pc CT (stream_T t ++ rest) = Ret (VTx t, rest).
Proof. by_frame CT (VTx t : pyv) rest I. Qed.
Lemma rt_B (b : BlockV) rest : sc CB (VBlock b) = Ret (stream_B b) /\ pc CB (stream_B b ++ rest) = Ret (VBlock b, rest).
Proof. by_frame CB (VBlock b : pyv) rest I. Qed.
Lemma rt_z (h : HdrV) rest : sc Cz (VHdr h) = Ret (stream_z h) /\ pc Cz (stream_z h ++ rest) = Ret (VHdr h, rest).
Proof. by_frame Cz (VHdr h : pyv) rest I. Qed.
Lemma rt_O_present (b : bool) rest :
  sc CO (VBool b) = Ret [bool_byte b] /\ pc CO (bool_byte b :: rest) = Ret (VBool b, rest).
Proof. by_frame CO (VBool b : pyv) rest I. Qed.
Lemma rt_O_absent : sc CO VNone = Ret [] /\ pc CO [] = Ret (VNone, []).
Proof. split; reflexivity. Qed.
(* ... and an absent value is read ONLY at the end of the stream: 'O' can only be a last field *)
Lemma O_absent_only_at_end s r : pc CO s = Ret (VNone, r) -> s = [].
Proof. destruct s; [reflexivity|]. cbn [parse_codec]. intros H. discriminate. Qed.

(* what the code does with byte strings of the wrong length: '#' / '@' write v[:n] and read n bytes without
   any check, so the length hypothesis is NECESSARY for the round trip (except for a short value at the very
   end of the stream, which reads back as itself) *)
Lemma fixed_length_necessary k n (b : bytes) rest : (k = CHash /\ n = 32%nat) \/ (k = CAt /\ n = 16%nat) ->
  sc k (VBytes b) = Ret (firstn n b) /\
  (pc k (firstn n b ++ rest) = Ret (VBytes b, rest) -> length b = n \/ (rest = [] /\ (length b < n)%nat)).
Proof.
  intros Hk.
  assert (Hs : sc k (VBytes b) = Ret (firstn n b) /\ pc k (firstn n b ++ rest)
               = Ret (VBytes (firstn n (firstn n b ++ rest)), skipn n (firstn n b ++ rest))).
  { destruct Hk as [[-> ->]|[-> ->]]; split; reflexivity. }
  destruct Hs as [Hs Hp]. split; [exact Hs|]. rewrite Hp. intros H. injection H as Hf Hr.
  destruct (Nat.le_gt_cases n (length b)) as [Hge|Hlt].
  - left. assert (Hl : length (firstn n b) = n) by (rewrite firstn_length; lia).
    rewrite <- Hl in Hf at 1. rewrite firstn_app_exact in Hf. rewrite <- Hf. exact Hl.
  - right. rewrite (firstn_all2 b) in Hf by lia.
    assert (Hl : length (firstn n (b ++ rest)) = length b) by (now rewrite Hf).
    rewrite firstn_length, app_length in Hl. destruct rest; [split; [reflexivity|exact Hlt]|cbn [length] in Hl; lia].
Qed.

(* the 6-byte codec accepts any unsigned 64-bit value and silently keeps its low 48 bits *)
Lemma le_decode_encode_mod w : forall v, le_decode (le_encode w v) = v mod 256 ^ N.of_nat w.
Proof.
  induction w as [|w IH]; intros v.
  - cbn [le_encode le_decode]. change (256 ^ N.of_nat 0) with 1. now rewrite N.mod_1_r.
  - cbn [le_encode le_decode]. rewrite IH, b2n_n2b_mod, Nat2N.inj_succ, N.pow_succ_r' by lia.
    assert (256 ^ N.of_nat w <> 0) by (apply N.pow_nonzero; lia).
    rewrite N.mod_mul_r by lia. reflexivity.
Qed.
Lemma six_truncates (z : Z) rest : (0 <= z < 2 ^ 64)%Z ->
  sc C6 (VInt z) = Ret (le_bytes 6 (Z.to_N z)) /\
  pc C6 (le_bytes 6 (Z.to_N z) ++ rest) = Ret (VInt (z mod 2 ^ 48), rest).
Proof.
  intros H. assert (H64 : zrange z 64) by exact H. cbn [stream_codec parse_codec].
  rewrite (pack_uint_le 8 z 64) by (auto; reflexivity). cbn [bind].
  rewrite !le_bytes_eq. change 8%nat with (6 + 2)%nat. rewrite firstn_le_encode. split; [reflexivity|].
  unfold lift, read_le. pose proof (read_app (le_encode 6 (Z.to_N z)) rest) as E.
  rewrite le_encode_length in E. rewrite E, le_encode_length. cbn [Nat.ltb Nat.leb bind].
  rewrite le_decode_encode_mod. unfold n2v. do 2 f_equal.
  change (256 ^ N.of_nat 6) with 281474976710656. change (2 ^ 48)%Z with 281474976710656%Z.
  destruct H as [H0 _]. rewrite N2Z.inj_mod, Z2N.id by lia. reflexivity.
Qed.
End Named.

(* PeerAddress(services, ip, port): a 4-byte address becomes the IPv4-mapped 16-byte form, a 16-byte one is kept,
   anything else is refused; the object then meets the declared type of 'A' when services/port are in range *)
Lemma peer_address_forms {TxV BlockV HdrV} (s : Z) (ip : bytes) (p : Z) :
  (length ip = 4%nat -> @mk_addr TxV BlockV HdrV ip4_header s ip p = Ret (VAddr s (ip4_header ++ ip) p)
                        /\ length (ip4_header ++ ip) = 16%nat) /\
  (length ip = 16%nat -> @mk_addr TxV BlockV HdrV ip4_header s ip p = Ret (VAddr s ip p)) /\
  (length ip <> 4%nat -> length ip <> 16%nat -> @mk_addr TxV BlockV HdrV ip4_header s ip p = Raise E_ASSERT).
Proof.
  unfold mk_addr. split; [|split].
  - intros H. rewrite H. cbn [Nat.eqb].
    assert (L : length (ip4_header ++ ip) = 16%nat) by (rewrite app_length, H; reflexivity).
    rewrite L. split; reflexivity.
  - intros H. rewrite H. cbn [Nat.eqb]. rewrite H. reflexivity.
  - intros H4 H16. destruct (length ip =? 4)%nat eqn:E4; [apply Nat.eqb_eq in E4; contradiction|].
    destruct (length ip =? 16)%nat eqn:E16; [apply Nat.eqb_eq in E16; contradiction|reflexivity].
Qed.

Lemma inv_item_forms {TxV BlockV HdrV} (t : Z) (d : bytes) :
  (length d = 32%nat -> (t = 1 \/ t = 2 \/ t = 3)%Z -> @mk_inv TxV BlockV HdrV inv_checked_types t d false = Ret (VInv t d)) /\
  (length d = 32%nat -> @mk_inv TxV BlockV HdrV inv_checked_types t d true = Ret (VInv t d)) /\
  (length d <> 32%nat -> forall dc, @mk_inv TxV BlockV HdrV inv_checked_types t d dc = Raise E_ASSERT).
Proof.
  unfold mk_inv. repeat split.
  - intros H Ht. rewrite H. destruct Ht as [-> | [-> | ->]]; reflexivity.
  - intros H. rewrite H. reflexivity.
  - intros H dc. destruct (length d =? 32)%nat eqn:E; [apply Nat.eqb_eq in E; contradiction|].
    destruct (negb dc && _); reflexivity.
Qed.

(* ---- presentations of field values, constructor forms ------------------------------------------------------ *)
Section Presentations.
Variables TxV BlockV HdrV : Type.
Variable stream_T : TxV -> bytes.
Variable stream_B : BlockV -> bytes.
Variable stream_z : HdrV -> bytes.
Variable header_of : BlockV -> HdrV.
Notation pyv := (pyval TxV BlockV HdrV).
Notation sc := (stream_codec stream_T stream_B stream_z header_of).

Definition int_codec (k : codec) : Prop := k = CI \/ k = Ch \/ k = CL \/ k = CQ \/ k = C1 \/ k = C6 \/ k = CO.
(* a bool where an integer is declared (True/False are ints in Python) packs as 1/0 *)
Lemma bool_as_int k (b : bool) : int_codec k -> sc k (VBool b) = sc k (VInt (if b then 1 else 0)%Z).
Proof. intros [->|[->|[->|[->|[->|[->| ->]]]]]]; destruct b; reflexivity. Qed.
(* an integer 0/1 where a boolean is declared packs as the boolean *)
Lemma int_as_bool (b : bool) : sc Cb (VInt (if b then 1 else 0)%Z) = sc Cb (VBool b) /\
                               sc CO (VInt (if b then 1 else 0)%Z) = sc CO (VBool b).
Proof. destruct b; split; reflexivity. Qed.
(* bytes where an array is declared iterate as their integers *)
Lemma bytes_as_array rest (b : bytes) :
  pack_field stream_T stream_B stream_z header_of (lbracket :: rest) (VBytes b) =
  pack_field stream_T stream_B stream_z header_of (lbracket :: rest) (VTuple (map (fun x => VInt (b2z x)) b)).
Proof. unfold pack_field. change (byte_eqb lbracket lbracket) with true. cbn [as_seq bind]. now rewrite map_length. Qed.
(* 1-tuples (or 1-lists) around array elements are the bare elements *)
Lemma one_tuple_as_bare sub (e : pyv) r : match e with VTuple _ => False | _ => True end ->
  pack_elems stream_T stream_B stream_z header_of sub (VTuple [e] :: r) =
  pack_elems stream_T stream_B stream_z header_of sub (e :: r).
Proof. intros H. destruct e; try contradiction; reflexivity. Qed.
End Presentations.

(* the 4-byte IPv4 form and its 16-byte IPv4-mapped twin are the same object *)
Lemma peer_address_ipv4_twin {TxV BlockV HdrV} (s : Z) (ip : bytes) (p : Z) : length ip = 4%nat ->
  @mk_addr TxV BlockV HdrV ip4_header s ip p = @mk_addr TxV BlockV HdrV ip4_header s (ip4_header ++ ip) p.
Proof.
  intros H. destruct (peer_address_forms (TxV:=TxV) (BlockV:=BlockV) (HdrV:=HdrV) s ip p) as [H4 _].
  destruct (H4 H) as [-> L].
  destruct (peer_address_forms (TxV:=TxV) (BlockV:=BlockV) (HdrV:=HdrV) s (ip4_header ++ ip) p) as [_ [H16 _]].
  now rewrite (H16 L).
Qed.

Section Constructed.
Variables TxV BlockV HdrV : Type.
Variable parse_T : parser TxV.
Variable stream_T : TxV -> bytes.
Variable parse_B : parser BlockV.
Variable stream_B : BlockV -> bytes.
Variable parse_z : parser HdrV.
Variable stream_z : HdrV -> bytes.
Variable header_of : BlockV -> HdrV.
Hypothesis frame_T : forall v rest, parse_T (stream_T v ++ rest) = Ret (v, rest).
Hypothesis frame_B : forall v rest, parse_B (stream_B v ++ rest) = Ret (v, rest).
Hypothesis frame_z : forall v rest, parse_z (stream_z v ++ rest) = Ret (v, rest).
Notation sc := (stream_codec stream_T stream_B stream_z header_of).
Notation pc := (parse_codec parse_T parse_B parse_z ip4_header inv_checked_types).
(* every accepted constructor form of a PeerAddress (4 or 16 address bytes) packs and parses back to an EQUAL object *)
Lemma peer_address_constructed_roundtrip (s : Z) (ip : bytes) (p : Z) rest :
  (0 <= s < 2 ^ 64)%Z -> (0 <= p < 2 ^ 16)%Z -> length ip = 4%nat \/ length ip = 16%nat ->
  exists a bs, mk_addr ip4_header s ip p = Ret a /\ sc CA a = Ret bs /\ pc CA (bs ++ rest) = Ret (a, rest).
Proof.
  intros Hs Hp Hl.
  destruct (peer_address_forms (TxV:=TxV) (BlockV:=BlockV) (HdrV:=HdrV) s ip p) as [H4 [H16 _]].
  destruct Hl as [Hl|Hl].
  - destruct (H4 Hl) as [E L]. exists (VAddr s (ip4_header ++ ip) p). eexists. split; [exact E|].
    exact (codec_frame TxV BlockV HdrV parse_T stream_T parse_B stream_B parse_z stream_z header_of ip4_header
             inv_checked_types frame_T frame_B frame_z CA (VAddr s (ip4_header ++ ip) p) rest (conj Hs (conj L Hp))
             ltac:(intros; discriminate)).
  - exists (VAddr s ip p). eexists. split; [exact (H16 Hl)|].
    exact (codec_frame TxV BlockV HdrV parse_T stream_T parse_B stream_B parse_z stream_z header_of ip4_header
             inv_checked_types frame_T frame_B frame_z CA (VAddr s ip p) rest (conj Hs (conj Hl Hp))
             ltac:(intros; discriminate)).
Qed.
(* ... and so does an InvItem, checked or unchecked constructor *)
Lemma inv_item_constructed_roundtrip (t : Z) (d : bytes) (dc : bool) a rest :
  (0 <= t < 2 ^ 32)%Z -> mk_inv inv_checked_types t d dc = Ret a ->
  exists bs, sc Cv a = Ret bs /\ pc Cv (bs ++ rest) = Ret (a, rest).
Proof.
  intros Ht E. unfold mk_inv in E.
  destruct (negb dc && _); [discriminate|]. destruct (length d =? 32)%nat eqn:L; [|discriminate].
  injection E as <-. apply Nat.eqb_eq in L. eexists.
  exact (codec_frame TxV BlockV HdrV parse_T stream_T parse_B stream_B parse_z stream_z header_of ip4_header
           inv_checked_types frame_T frame_B frame_z Cv (VInv t d) rest (conj Ht L) ltac:(intros; discriminate)).
Qed.
End Constructed.

(* a variable-length codec (unary count, as a stand-in for a header with a length-prefixed tail such as Bitcoin
   Gold's) satisfies the frame hypothesis: the theorems are not tied to 80-byte headers *)
Fixpoint unary_parse (s : bytes) : outcome (nat * bytes) :=
  match s with
  | [] => Raise E_STRUCT
  | b :: r => if byte_eqb b x00 then Ret (O, r)
              else match unary_parse r with Ret (n, r') => Ret (S n, r') | Raise e => Raise e | OutOfFuel => OutOfFuel end
  end.
Definition unary_stream (n : nat) : bytes := repeatb x01 n ++ [x00].
Lemma unary_frame n rest : unary_parse (unary_stream n ++ rest) = Ret (n, rest).
Proof. unfold unary_stream. induction n as [|n IH]; cbn; [reflexivity|]. cbn in IH. now rewrite IH. Qed.
