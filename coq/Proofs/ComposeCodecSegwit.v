(* Proofs/ComposeCodecSegwit.v — composition, part 2: C11's segwit-address model (Model/Bech32.v: bech32m.encode and
   parseable_str.parse_bech32) as the codec pair C08 takes as parameters, on byte-string texts (see
   Proofs/ComposeCodecB58.v for the two representations of `str`), and the laws S1..S4 of Spec/AddressSpec.v proved
   for it from C11's theorems.  Nothing is assumed.

     cc_segwit_encode hrp v prog = bech32m.encode(hrp, v, prog)          (None also where Python raises IndexError:
                                                                          witness version >= 32, never used by C08)
     cc_segwit_parse s           = parseable_str.parse_bech32(s)         (hrp, version, program, checksum constant) *)
From PV Require Import Base.Bytes Base.Outcome Gen.GenCodecsC11 Model.Base58 Model.Bech32
  Proofs.Base58P Proofs.Bech32P Proofs.Bech32StrP Proofs.Bech32DetectP Proofs.Bech32DetectStrP
  Proofs.Bech32Detect3P Proofs.Bech32CanonP Proofs.ComposeCodecB58.
From PV Require Gen.GenNetworks Spec.AddressSpec Model.Address.
From Coq Require Import ZifyBool ZifyNat ZifyN.
Local Open Scope Z_scope.

Definition cc_segwit_encode (hrp : bytes) (v : N) (prog : bytes) : option bytes :=
  match encode (str_of hrp) (Z.of_N v) (map b2z prog) with
  | Ret (Some s) => Some (bytes_of s)
  | _ => None
  end.

Definition cc_segwit_parse (s : bytes) : option (bytes * N * bytes * N) :=
  match parse_bech32 (str_of s) with
  | Some (h, v, d, spec) => Some (bytes_of h, Z.to_N v, d, Z.to_N spec)
  | None => None
  end.

(* ---- small facts ------------------------------------------------------------------------------------------- *)
Lemma printable_lt256 t : printable t -> Forall (fun c => (c < 256)%N) t.
Proof. intros H. eapply Forall_impl; [|exact H]. cbv beta. lia. Qed.

Lemma printable_ascii t : printable t -> ascii_str t.
Proof. intros H. eapply Forall_impl; [|exact H]. cbv beta. lia. Qed.

Lemma map_z2b_b2z p : map z2b (map b2z p) = p.
Proof. rewrite map_map. rewrite <- (map_id p) at 2. apply map_ext. intros c. apply z2b_b2z. Qed.

Lemma map_b2z_z2b d : bytes8 d -> map b2z (map z2b d) = d.
Proof.
  induction 1 as [|x r Hx _ IH]; [reflexivity|]. cbn [map]. rewrite IH, b2z_z2b by exact Hx. reflexivity.
Qed.

Lemma bytes8_b2z p : bytes8 (map b2z p).
Proof. apply Forall_map. apply Forall_forall. intros c _. apply b2z_range. Qed.

Lemma Forall_firstn' {X} (P : X -> Prop) l : Forall P l -> forall n, Forall P (firstn n l).
Proof. induction 1 as [|x r Hx _ IH]; intros [|n]; cbn [firstn]; constructor; auto. Qed.

(* the checksum constants of the two generated tables are the same numbers (AddressSpec.spec_for is over N) *)
Lemma spec_for_expected v : Z.to_N (expected_spec (Z.of_N v)) = AddressSpec.spec_for v.
Proof. unfold expected_spec, AddressSpec.spec_for. destruct v; reflexivity. Qed.

Lemma charset_at_nonneg d c : 0 <= d -> charset_at d = Some c -> d < 32.
Proof.
  intros Hd. unfold charset_at. change (Z.of_nat (length bech32_charset)) with 32.
  destruct ((0 <=? d) && (d <? 32)) eqn:E; [lia|].
  destruct ((- (32) <=? d) && (d <? 0)) eqn:E'; [lia|discriminate].
Qed.

Lemma charset_map_head d l s : charset_map (d :: l) = Ret s -> exists c, charset_at d = Some c.
Proof. cbn [charset_map]. destruct (charset_at d) as [c|]; [eauto|discriminate]. Qed.

Lemma lower_fix_no_upper h : map lower_c h = h -> no_upper h.
Proof. intros E. rewrite <- E. apply lower_no_upper. Qed.

(* AddressSpec.hrp_ok (bool, on bytes) gives Bech32StrP.hrp_ok (Prop, on code points) *)
Lemma hrp_ok_bridge hrp : AddressSpec.hrp_ok hrp = true ->
  Bech32StrP.hrp_ok (str_of hrp) /\ (length hrp <= 30)%nat.
Proof.
  unfold AddressSpec.hrp_ok. intros H. apply andb_true_iff in H. destruct H as [H H3].
  apply andb_true_iff in H. destruct H as [H1 H2]. split; [|lia].
  assert (G : forall l, forallb AddressSpec.hrp_char_ok l = true -> printable (str_of l) /\ no_upper (str_of l)).
  { induction l as [|c r IH]; intros F; [split; constructor|].
    cbn [forallb] in F. apply andb_true_iff in F. destruct F as [Fc Fr]. destruct (IH Fr) as [P U].
    unfold AddressSpec.hrp_char_ok in Fc. unfold str_of. cbn [map]. split; constructor; try assumption.
    - lia.
    - unfold is_upper. lia. }
  destruct (G hrp H3) as [P U]. split; [exact P|]. split; [exact U|]. rewrite str_of_length. lia.
Qed.

(* ---- what a successful encode means ---------------------------------------------------------------------- *)
Lemma encode_inv hrp v prog ret : 0 <= v -> encode hrp v prog = Ret (Some ret) ->
  Bech32StrP.hrp_ok hrp /\ bytes8 prog /\ v < 32 /\ printable ret /\
  exists conv, bech32_decode ret = Some (hrp, v :: conv, expected_spec v)
               /\ convertbits conv 5 8 false = Some prog /\ decode hrp ret = Some (v, prog).
Proof.
  intros Hv. unfold encode.
  destruct (convertbits prog 8 5 true) as [conv|] eqn:E1; [|discriminate].
  set (spec := if v =? 0 then enc_bech32 else enc_bech32m).
  destruct (bech32_encode hrp (v :: conv) spec) as [r| |] eqn:E2; try discriminate.
  destruct (decode hrp r) as [[v' p']|] eqn:D; [|discriminate]. intros E. injection E as <-.
  pose proof (convertbits_range_8_5 prog conv E1) as Hb.
  destruct (convertbits_roundtrip_8_5_8 prog Hb) as (conv' & E1' & Hc & _ & Eback).
  rewrite E1 in E1'. injection E1' as <-.
  (* the string *)
  unfold bech32_encode in E2.
  destruct (charset_map ((v :: conv) ++ bech32_create_checksum hrp (v :: conv) spec)) as [cs| |] eqn:Ecs; try discriminate.
  injection E2 as <-.
  destruct (charset_map_head _ _ _ Ecs) as (c0 & Ec0). pose proof (charset_at_nonneg v c0 Hv Ec0) as Hv32.
  assert (Hsy : syms5 (v :: conv)) by (constructor; [lia|exact Hc]).
  assert (Hall : syms5 ((v :: conv) ++ bech32_create_checksum hrp (v :: conv) spec))
    by (apply Forall_app; split; [exact Hsy|apply create_checksum_range]).
  destruct (charset_map_ok _ Hall) as (cs' & Ecs' & Hlen & Hin & Hf & Hlow & Hpt & H1).
  rewrite Ecs in Ecs'. injection Ecs' as <-.
  (* what decode saw *)
  pose proof D as D0. apply segwit_decode_accepts_iff in D.
  destruct D as (data & sp & Edec & Econv & _ & _ & _ & _).
  destruct (bech32_decode_inv _ 90 _ _ _ Edec) as (tail & F).
  pose proof (df_split _ _ _ _ _ _ F) as Sp. rewrite map_app in Sp. cbn [app map] in Sp. rewrite Hlow in Sp.
  change (lower_c 49) with 49%N in Sp.
  destruct (app_cons_unique 49%N _ _ _ _ Sp H1 (df_no1 _ _ _ _ _ _ F)) as [Eh Et].
  pose proof (df_print _ _ _ _ _ _ F) as Pr.
  assert (Ph : printable hrp) by (apply Forall_app in Pr; tauto).
  assert (Hok : Bech32StrP.hrp_ok hrp).
  { split; [exact Ph|]. split; [now apply lower_fix_no_upper|exact (df_hrp _ _ _ _ _ _ F)]. }
  pose proof (df_len _ _ _ _ _ _ F) as Ln. rewrite !app_length in Ln. cbn [length] in Ln.
  rewrite app_length in Hlen. change (length (bech32_create_checksum hrp (v :: conv) spec)) with 6%nat in Hlen.
  destruct (bech32_encode_decode_low hrp (v :: conv) spec 90 Hok Hsy ltac:(lia)) as (s' & Es' & _ & Ed').
  unfold bech32_encode in Es'. rewrite Ecs in Es'. injection Es' as <-.
  assert (Esp : spec_norm spec = expected_spec v).
  { unfold spec, expected_spec. destruct (v =? 0); reflexivity. }
  rewrite Esp in Ed'. unfold bech32_decode in Edec. cbn [app] in Edec, Ed'.
  rewrite Ed' in Edec. injection Edec as -> <- _.
  rewrite Eback in Econv. injection Econv as <-.
  split; [exact Hok|]. split; [exact Hb|]. split; [exact Hv32|]. split; [exact Pr|].
  exists conv. split; [exact Ed'|]. split; [exact Eback|exact D0].
Qed.

(* ---- what a successful parse means ---------------------------------------------------------------------- *)
Lemma parse_inv s hrp v prog spec : cc_segwit_parse s = Some (hrp, v, prog, spec) ->
  exists h vz rest specz tail,
    bech32_decode (str_of s) = Some (h, vz :: rest, specz) /\ decoded_form (str_of s) 90 h (vz :: rest) specz tail
    /\ hrp = bytes_of h /\ v = Z.to_N vz /\ spec = Z.to_N specz /\ 0 <= vz < 32 /\ printable h
    /\ (specz = enc_bech32 \/ specz = enc_bech32m)
    /\ prog = map z2b (match convertbits rest 5 8 false with Some d => d | None => [] end).
Proof.
  unfold cc_segwit_parse, parse_bech32, parse_bech32_or_32m.
  destruct (bech32_decode (str_of s)) as [[[h data] specz]|] eqn:E; [|discriminate].
  destruct data as [|vz rest]; [discriminate|]. intros Q. injection Q as <- <- <- <-.
  destruct (bech32_decode_inv _ 90 _ _ _ E) as (tail & F).
  exists h, vz, rest, specz, tail. split; [reflexivity|]. split; [exact F|].
  split; [reflexivity|]. split; [reflexivity|]. split; [reflexivity|].
  pose proof (tail_syms tail (df_charset _ _ _ _ _ _ F)) as SD.
  pose proof (Forall_firstn' _ _ SD (length tail - 6)) as SF. rewrite <- (df_data _ _ _ _ _ _ F) in SF.
  inversion SF as [|? ? Hvz _]; subst.
  pose proof (lower_map_printable _ (df_print _ _ _ _ _ _ F)) as Pl. rewrite (df_split _ _ _ _ _ _ F) in Pl.
  apply Forall_app in Pl. destruct Pl as [Ph _].
  split; [exact Hvz|]. split; [exact Ph|]. split; [|reflexivity].
  destruct (verify_inv _ _ _ (df_verify _ _ _ _ _ _ F)) as [[-> _]|[-> _]]; auto.
Qed.

(* ---- S1: parse (encode hrp v prog) = (hrp, v, prog, constant of v) ------------------------------------- *)
Theorem cc_segwit_parse_encode : forall hrp v prog s, cc_segwit_encode hrp v prog = Some s ->
  cc_segwit_parse s = Some (hrp, v, prog, AddressSpec.spec_for v).
Proof.
  intros hrp v prog s. unfold cc_segwit_encode.
  destruct (encode (str_of hrp) (Z.of_N v) (map b2z prog)) as [[ret|]| |] eqn:E; try discriminate.
  intros Q. injection Q as <-.
  destruct (encode_inv _ _ _ _ (N2Z.is_nonneg v) E) as (_ & _ & _ & Pr & conv & Ed & Ec & _).
  unfold cc_segwit_parse. rewrite (str_of_bytes_of ret (printable_lt256 ret Pr)).
  unfold parse_bech32, parse_bech32_or_32m. rewrite Ed, Ec.
  rewrite bytes_of_str_of, N2Z.id, map_z2b_b2z, spec_for_expected. reflexivity.
Qed.

(* ---- S2: the encoder accepts every hrp of AddressSpec.hrp_ok with the standard witness programs ----------- *)
Theorem cc_segwit_encode_defined : forall hrp v prog, AddressSpec.hrp_ok hrp = true -> AddressSpec.std_witness v prog ->
  cc_segwit_encode hrp v prog <> None.
Proof.
  intros hrp v prog Hh Hw. destruct (hrp_ok_bridge hrp Hh) as [Hok Hl30].
  assert (T : triple_ok (str_of hrp) (Z.of_N v) (map b2z prog)).
  { assert (Lp : length (map b2z prog) = length prog) by apply map_length.
    assert (Lh : length (str_of hrp) = length hrp) by apply str_of_length.
    split.
    - exact Hok.
    - destruct Hw as [[-> _]|[-> _]]; lia.
    - apply bytes8_b2z.
    - rewrite Lp. destruct Hw as [[_ [-> | ->]]|[_ ->]]; lia.
    - intros Hv0. rewrite Lp. destruct Hw as [[_ Hl]|[-> _]]; [exact Hl|discriminate].
    - rewrite Lp, Lh. destruct Hw as [[_ [-> | ->]]|[_ ->]].
      + replace ((8 * Z.of_nat 20 + 4) / 5) with 32 by reflexivity. lia.
      + replace ((8 * Z.of_nat 32 + 4) / 5) with 52 by reflexivity. lia.
      + replace ((8 * Z.of_nat 32 + 4) / 5) with 52 by reflexivity. lia. }
  destruct (segwit_encode_decode _ _ _ T) as (s & E & _). unfold cc_segwit_encode. rewrite E. discriminate.
Qed.

(* ---- S4: a segwit string with a program of 20 bytes or more has more than 40 characters ------------------- *)
Theorem cc_segwit_length : forall s hrp v prog spec, cc_segwit_parse s = Some (hrp, v, prog, spec) ->
  (20 <= length prog)%nat -> (40 <= length s)%nat.
Proof.
  intros s hrp v prog spec P L.
  destruct (parse_inv _ _ _ _ _ P) as (h & vz & rest & specz & tail & _ & F & _ & _ & _ & _ & _ & _ & ->).
  rewrite map_length in L.
  destruct (convertbits rest 5 8 false) as [d|] eqn:Ec; [|cbn in L; lia].
  pose proof (convertbits_range_5_8 rest d Ec) as Sr. pose proof (convertbits_5_8 rest Sr) as C. cbv zeta in C.
  rewrite Ec in C. destruct C as (_ & _ & _ & Hl & _).
  assert (0 <= (5 * Z.of_nat (length rest)) mod 8) by (apply Z.mod_pos_bound; lia).
  pose proof (f_equal (@length _) (df_data _ _ _ _ _ _ F)) as Ld. rewrite firstn_length, map_length in Ld.
  cbn [length] in Ld.
  pose proof (f_equal (@length _) (df_split _ _ _ _ _ _ F)) as Ls.
  rewrite map_length, app_length, str_of_length in Ls. cbn [length] in Ls.
  pose proof (df_hrp _ _ _ _ _ _ F). lia.
Qed.

(* ---- S3: what parses with the right constant re-encodes to its lower-case form --------------------------- *)
Lemma bytes_of_lower s : bytes_of (map lower_c (str_of s)) = Address.ascii_lower s.
Proof.
  unfold bytes_of, str_of, Address.ascii_lower. rewrite !map_map. apply map_ext. intros b.
  unfold lower_c, Address.ascii_lower_byte. destruct ((65 <=? b2n b)%N && (b2n b <=? 90)%N); [reflexivity|apply n2b_b2n].
Qed.

Theorem cc_segwit_encode_parse : forall s hrp v prog spec, cc_segwit_parse s = Some (hrp, v, prog, spec) ->
  spec = AddressSpec.spec_for v -> AddressSpec.std_witness v prog ->
  cc_segwit_encode hrp v prog = Some (Address.ascii_lower s).
Proof.
  intros s hrp v prog spec P Hs Hw.
  destruct (parse_inv _ _ _ _ _ P) as (h & vz & rest & specz & tail & Ed & F & -> & -> & -> & Hvz & Ph & Hsz & ->).
  assert (Lw : exists d, convertbits rest 5 8 false = Some d /\ (length d = 20%nat \/ length d = 32%nat)
                          /\ (vz = 0 \/ (vz = 1 /\ length d = 32%nat))).
  { unfold AddressSpec.std_witness in Hw. destruct (convertbits rest 5 8 false) as [d|].
    - exists d. split; [reflexivity|]. rewrite !map_length in Hw. destruct Hw as [[Hv Hl]|[Hv Hl]].
      + split; [exact Hl|]. left. lia.
      + split; [now right|]. right. split; [lia|exact Hl].
    - exfalso. cbn in Hw. destruct Hw as [[_ [Hl|Hl]]|[_ Hl]]; discriminate. }
  destruct Lw as (d & Ec & Ld & Hv). rewrite Ec.
  assert (Esp : specz = expected_spec vz).
  { unfold expected_spec, AddressSpec.spec_for in *. destruct Hv as [-> |[-> _]]; destruct Hsz as [-> | ->];
      vm_compute in Hs; try discriminate; reflexivity. }
  assert (D : decode h (str_of s) = Some (vz, d)).
  { apply (decode_of_decoded h (str_of s) (vz :: rest) specz d Ed); cbn [hd tl]; try assumption.
    - destruct Ld as [-> | ->]; lia.
    - lia.
    - intros _. exact Ld. }
  destruct (segwit_decode_encode _ _ _ _ D) as [Hb E].
  unfold cc_segwit_encode.
  rewrite (str_of_bytes_of h (printable_lt256 h Ph)), Z2N.id, (map_b2z_z2b d Hb), E by lia.
  now rewrite bytes_of_lower.
Qed.

(* ---- faithfulness of the representation ------------------------------------------------------------------ *)
(* the parser, applied to the UTF-8 bytes of ANY str, returns what C11's parse_bech32 returns on that str *)
Lemma cc_segwit_parse_faithful t s : utf8_encode t = Ret s ->
  cc_segwit_parse s = match parse_bech32 t with
                      | Some (h, v, d, spec) => Some (bytes_of h, Z.to_N v, d, Z.to_N spec)
                      | None => None
                      end.
Proof.
  intros E. unfold cc_segwit_parse.
  destruct (utf8_encode_split t s E) as [[Ha ->]|[(c & Hc1 & Hc2) (x & Hx1 & Hx2)]].
  - now rewrite (str_of_bytes_of t (ascii_lt256 t Ha)).
  - assert (R1 : bech32_decode t = None) by (apply (unprintable_rejected t 90 c Hc1); lia).
    assert (R2 : bech32_decode (str_of s) = None).
    { apply (unprintable_rejected _ 90 (b2n x)); [apply in_map; exact Hx1|lia]. }
    unfold parse_bech32, parse_bech32_or_32m. now rewrite R1, R2.
Qed.

(* the encoder's output is the UTF-8 encoding of what C11's encode returns *)
Lemma cc_segwit_encode_faithful hrp v prog s : cc_segwit_encode hrp v prog = Some s ->
  exists t, encode (str_of hrp) (Z.of_N v) (map b2z prog) = Ret (Some t) /\ utf8_encode t = Ret s.
Proof.
  unfold cc_segwit_encode.
  destruct (encode (str_of hrp) (Z.of_N v) (map b2z prog)) as [[ret|]| |] eqn:E; try discriminate.
  intros Q. injection Q as <-. exists ret. split; [reflexivity|].
  destruct (encode_inv _ _ _ _ (N2Z.is_nonneg v) E) as (_ & _ & _ & Pr & _).
  apply utf8_of_ascii. now apply printable_ascii.
Qed.
