(* Proofs/CurveSqrtP.v — Generator.modular_sqrt / points_for_x.  Premises: M1 (p prime), p = 3 mod 4 (asserted by the
   constructor), M3 (Fermat: t^(p-1) = 1 mod p for t <> 0 mod p) and "no point with y = 0 has this x"
   (impossible on a curve of odd order, see CurveMulP.odd_order_neg_reduced / Props). *)
From Coq Require Import ZArith Lia Znumtheory Bool Setoid Morphisms.
From PV Require Import Base.Outcome Model.Curve Spec.Weierstrass Proofs.CurveMulP.
Local Open Scope Z_scope.

Lemma pow_mod_pos_spec a q m : pow_mod_pos a q m = (a ^ Zpos q) mod m.
Proof.
  induction q as [q IH|q IH|]; cbn [pow_mod_pos].
  - rewrite IH. set (x := a ^ Z.pos q).
    rewrite Zmult_mod_idemp_l. rewrite (Zmult_mod (x mod m * (x mod m)) a), <- (Zmult_mod x x), <- Zmult_mod.
    f_equal. rewrite Pos2Z.inj_xI, Z.pow_add_r, Z.pow_1_r, Z.pow_twice_r by lia. fold x. ring.
  - rewrite IH. rewrite <- Zmult_mod. f_equal. rewrite Pos2Z.inj_xO, Z.pow_twice_r. reflexivity.
  - now rewrite Z.pow_1_r.
Qed.

Lemma pow_mod_spec a e m : 0 <= e -> pow_mod a e m = (a ^ e) mod m.
Proof.
  intros He. destruct e as [|q|q]; [reflexivity | apply pow_mod_pos_spec | lia].
Qed.

Lemma even_of_mod y : y mod 2 = 0 -> Z.even y = true.
Proof. intros H. rewrite (Z.div_mod y 2), H, Z.add_0_r, Z.even_mul by lia. reflexivity. Qed.

Lemma odd_of_mod y : y mod 2 = 1 -> Z.odd y = true.
Proof. intros H. rewrite (Z.div_mod y 2), H, Z.add_comm, Z.odd_add_mul_2 by lia. reflexivity. Qed.

Lemma small_multiple p q z : 0 < p -> z = q * p -> - p < z < p -> z = 0.
Proof. intros Hp E Hz. assert (q = 0) by nia. subst. lia. Qed.

Lemma small_multiple2 p q z : 0 < p -> z = q * p -> 0 < z < 2 * p -> z = p.
Proof. intros Hp E Hz. assert (q = 1) by nia. subst. lia. Qed.

Section Sqrt.
Variable p : Z.
Hypothesis Hp : prime p.
Hypothesis Hmod4 : p mod 4 = 3.
(* M3 *)
Hypothesis HM3 : forall t, t mod p <> 0 -> (t ^ (p - 1)) mod p = 1.

Notation "a == b" := (eqm p a b) (at level 70).
Local Instance eqm_p_equiv : Equivalence (eqm p) := eqm_setoid p.
Local Instance add_p_proper : Proper (eqm p ==> eqm p ==> eqm p) Z.add := Zplus_eqm p.
Local Instance mul_p_proper : Proper (eqm p ==> eqm p ==> eqm p) Z.mul := Zmult_eqm p.
Local Instance sub_p_proper : Proper (eqm p ==> eqm p ==> eqm p) Z.sub := Zminus_eqm p.

Let Hp1 : 1 < p. Proof. destruct Hp; lia. Qed.

Lemma p_shape : exists k, 0 < k /\ p = 4 * k - 1 /\ (p + 1) / 4 = k.
Proof.
  exists ((p + 1) / 4). pose proof (Z.div_mod p 4 ltac:(lia)) as H. rewrite Hmod4 in H.
  assert (E : p + 1 = 4 * (p / 4 + 1)) by lia.
  assert (0 <= p / 4) by (apply Z.div_pos; lia).
  rewrite E, Z.mul_comm, Z.div_mul by lia. repeat split; lia.
Qed.

Lemma eqm_pow x y k : 0 <= k -> x == y -> x ^ k == y ^ k.
Proof.
  intros Hk E. pattern k. apply natlike_ind; [reflexivity| |exact Hk].
  intros j Hj IH. rewrite !Z.pow_succ_r by lia. now rewrite IH, E.
Qed.

Lemma mod_eqm_p x : x mod p == x.
Proof. apply Zmod_eqm. Qed.

Lemma eqm0 x : x == 0 <-> x mod p = 0.
Proof. unfold eqm. now rewrite Zmod_0_l. Qed.

Lemma eqm_mul_zero x y : x * y == 0 -> x == 0 \/ y == 0.
Proof.
  intros H. apply eqm0 in H. apply Z.mod_divide in H; [|lia].
  destruct (prime_mult p Hp _ _ H) as [D|D]; [left|right]; apply eqm0; apply Z.mod_divide; auto; lia.
Qed.

(* Euler's criterion in the form used by modular_sqrt: if alpha is a non-zero square, alpha^((p+1)/4) is a root *)
Lemma sqrt_of_square alpha t : t * t == alpha -> ~ alpha == 0 ->
  let r := alpha ^ ((p + 1) / 4) in r * r == alpha.
Proof.
  intros Ht Hnz r. destruct p_shape as (k & Hk & Hpk & Hdiv). subst r. rewrite Hdiv.
  assert (Htnz : t mod p <> 0).
  { intros E. apply Hnz. rewrite <- Ht. apply eqm0 in E. now rewrite E. }
  assert (E1 : alpha ^ k * alpha ^ k = alpha * alpha ^ (2 * k - 1)).
  { rewrite <- Z.pow_add_r by lia. replace (k + k) with (Z.succ (2 * k - 1)) by lia.
    now rewrite Z.pow_succ_r by lia. }
  rewrite E1.
  assert (E2 : alpha ^ (2 * k - 1) == (t * t) ^ (2 * k - 1)) by (apply eqm_pow; [lia | now symmetry]).
  rewrite E2.
  assert (E3 : (t * t) ^ (2 * k - 1) = t ^ (p - 1)).
  { rewrite <- Z.pow_2_r, <- Z.pow_mul_r by lia. f_equal. lia. }
  rewrite E3.
  assert (E4 : t ^ (p - 1) == 1).
  { unfold eqm. rewrite (HM3 t Htnz). symmetry. apply Z.mod_small. lia. }
  rewrite E4. now rewrite Z.mul_1_r.
Qed.

Variables a b n : Z.
Let c : curve := {| cp := p; ca := a; cb := b; cn := n |}.
Variable g : gen.
Hypothesis Hgc : gc g = c.

Definition alpha_of (x : Z) : Z := (pow_mod x 3 p + a * x + b) mod p.

Lemma alpha_eq x : alpha_of x == x * x * x + a * x + b.
Proof.
  unfold alpha_of. rewrite mod_eqm_p, pow_mod_spec by lia. rewrite mod_eqm_p.
  replace (x ^ 3) with (x * x * x) by ring. reflexivity.
Qed.

Lemma oc_alpha x y : on_curve c (Some (x, y)) <-> y * y == alpha_of x.
Proof.
  cbn [on_curve c cp ca cb]. rewrite alpha_eq. rewrite <- eqm0.
  split; intros H.
  - assert (E : y * y = (y * y - (x * x * x + a * x + b)) + (x * x * x + a * x + b)) by ring.
    rewrite E, H. reflexivity.
  - rewrite H. unfold eqm. f_equal. ring.
Qed.

Lemma mk_point_c x y : mk_point c x y = if (y * y - (x * x * x + a * x + b)) mod p =? 0 then Ret (Some (x, y)) else Raise E_NOPOINT.
Proof. reflexivity. Qed.

Theorem points_for_x_spec x : ~ on_curve c (Some (x, 0)) ->
  match points_for_x g x with
  | Ret (P0, P1) =>
      exists y0 y1, P0 = Some (x, y0) /\ P1 = Some (x, y1) /\ Z.even y0 = true /\ Z.odd y1 = true /\
        0 < y0 < p /\ 0 < y1 < p /\ y0 + y1 = p /\
        forall y, 0 <= y < p -> (on_curve c (Some (x, y)) <-> y = y0 \/ y = y1)
  | Raise _ => forall y, ~ on_curve c (Some (x, y))
  | OutOfFuel => False
  end.
Proof.
  intros Hno2.
  unfold points_for_x, modular_sqrt. rewrite Hgc. cbn [cp ca cb c]. fold (alpha_of x).
  set (al := alpha_of x).
  assert (Hal : 0 <= al < p) by (apply Z.mod_pos_bound; lia).
  destruct p_shape as (k & Hk & Hpk & Hdiv).
  rewrite pow_mod_spec by (rewrite Hdiv; lia).
  set (y0 := (al ^ ((p + 1) / 4)) mod p).
  assert (Hy0 : 0 <= y0 < p) by (apply Z.mod_pos_bound; lia).
  assert (Hnz : ~ al == 0).
  { intros E. apply Hno2. apply oc_alpha. fold al. now rewrite E. }
  (* if any point has this x then y0 is a root *)
  assert (Hroot : forall t, on_curve c (Some (x, t)) -> y0 * y0 == al).
  { intros t Ht. apply oc_alpha in Ht. fold al in Ht.
    pose proof (sqrt_of_square al t Ht Hnz) as K. cbv zeta in K.
    subst y0. now rewrite !mod_eqm_p. }
  destruct (Z.eqb_spec y0 0) as [E0|E0].
  - (* ValueError *)
    intros t Ht. apply Hnz. rewrite <- (Hroot t Ht), E0. reflexivity.
  - assert (Hy0' : 0 < y0 < p) by lia.
    destruct (Z.eq_dec ((y0 * y0 - al) mod p) 0) as [Eon|Eoff].
    + (* y0 is a root: both points are constructed *)
      assert (On0 : on_curve c (Some (x, y0))).
      { apply oc_alpha. fold al. apply eqm0 in Eon.
        assert (E : y0 * y0 = (y0 * y0 - al) + al) by ring. rewrite E, Eon. reflexivity. }
      assert (On1 : on_curve c (Some (x, p - y0))).
      { apply oc_alpha. apply oc_alpha in On0. rewrite <- On0.
        unfold eqm. replace ((p - y0) * (p - y0)) with (y0 * y0 + (p - 2 * y0) * p) by ring.
        apply Z_mod_plus_full. }
      pose proof On0 as C0. pose proof On1 as C1.
      cbn [on_curve c cp ca cb] in C0, C1.
      rewrite !mk_point_c, C0, C1. cbn [Z.eqb bind].
      assert (Hpodd : p mod 2 = 1).
      { rewrite Hpk. replace (4 * k - 1) with (1 + (2 * k - 1) * 2) by lia. rewrite Z_mod_plus_full. reflexivity. }
      assert (Hall : forall y, 0 <= y < p -> (on_curve c (Some (x, y)) <-> y = y0 \/ y = p - y0)).
      { intros y Hy. split.
        - intros Hon. apply oc_alpha in Hon. apply oc_alpha in On0.
          assert (E : (y - y0) * (y + y0) == 0).
          { replace ((y - y0) * (y + y0)) with (y * y - y0 * y0) by ring. rewrite Hon, On0.
            unfold eqm. f_equal. ring. }
          destruct (eqm_mul_zero _ _ E) as [D|D]; apply eqm0 in D; apply Z.mod_divide in D; try lia;
            destruct D as [q Hq]; [left|right].
          + pose proof (small_multiple p q _ ltac:(lia) Hq ltac:(lia)). lia.
          + pose proof (small_multiple2 p q _ ltac:(lia) Hq ltac:(lia)). lia.
        - intros [->| ->]; assumption. }
      rewrite land_1.
      destruct (Z.eqb_spec (y0 mod 2) 0) as [Ev|Od].
      * exists y0, (p - y0). repeat split; try lia; auto; try (apply Hall; assumption).
        -- now apply even_of_mod.
        -- apply odd_of_mod. rewrite Zminus_mod, Hpodd, Ev. reflexivity.
      * pose proof (Z.mod_pos_bound y0 2 ltac:(lia)). assert (E1 : y0 mod 2 = 1) by lia.
        assert (Hall' : forall y, 0 <= y < p -> (on_curve c (Some (x, y)) <-> y = p - y0 \/ y = y0))
          by (intros y Hy; rewrite (Hall y Hy); tauto).
        exists (p - y0), y0. repeat split; try lia; auto; try (apply Hall'; assumption).
        -- apply even_of_mod. rewrite Zminus_mod, Hpodd, E1. reflexivity.
        -- now apply odd_of_mod.
    + (* y0 is not a root: NoSuchPointError, and indeed nothing has this x *)
      assert (Off : (y0 * y0 - (x * x * x + a * x + b)) mod p <> 0).
      { intros E. apply Eoff. apply (proj1 (eqm0 _)). apply (proj2 (eqm0 _)) in E.
        pose proof (alpha_eq x) as K. fold al in K. rewrite K. exact E. }
      rewrite mk_point_c. destruct (Z.eqb_spec ((y0 * y0 - (x * x * x + a * x + b)) mod p) 0); [contradiction|].
      cbn [bind]. intros t Ht. apply Eoff. apply (proj1 (eqm0 _)). rewrite (Hroot t Ht).
      unfold eqm. f_equal. ring.
Qed.

End Sqrt.
