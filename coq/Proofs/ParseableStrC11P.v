(* Proofs/ParseableStrC11P.v — history independence of the parseable_str cache (C11): whatever was observed,
   cleared, popped or re-wrapped before, every observer answers as on a fresh str; in particular the verdict under
   one checksum function never leaks into the verdict under another. *)
From PV Require Import Base.Bytes Base.Outcome Gen.GenCodecsC11 Model.Base58 Model.Bech32 Model.ParseableStrC11.
Local Open Scope Z_scope.

Section WithHashes.
Variables (dsha groestl : bytes -> bytes).

(* every filled entry holds what the pure function gives on s *)
Definition cache_ok (s : pystr) (c : pcache) : Prop :=
  (forall v, k_b58 c = Some v -> v = btc_parse_b58 s)
  /\ (forall v, k_dsha c = Some v -> v = btc_parse_b58_double_sha256 dsha s)
  /\ (forall v, k_grs c = Some v -> v = btc_parse_b58_double_sha256 groestl s)
  /\ (forall v, k_bech32 c = Some v -> v = parse_bech32 s).

(* the same, except that the entry of one checksum key is the placeholder None written before f runs *)
Definition cache_ok_but_dsha (s : pystr) (c : pcache) : Prop := cache_ok s (set_dsha c None).
Definition cache_ok_but_grs (s : pystr) (c : pcache) : Prop := cache_ok s (set_grs c None).

Lemma empty_ok s : cache_ok s empty_cache.
Proof. repeat split; cbn; discriminate. Qed.

Lemma checksum_strip_spec H s : checksum_strip H (btc_parse_b58 s) = btc_parse_b58_double_sha256 H s.
Proof.
  unfold checksum_strip, btc_parse_b58_double_sha256, parse_b58_double_sha256, btc_parse_b58.
  destruct (parse_b58 b58_alphabet s) as [[|x r]|]; reflexivity.
Qed.

Lemma parse_b58_st_ok s c : cache_ok s c ->
  fst (parse_b58_st s c) = btc_parse_b58 s /\ cache_ok s (snd (parse_b58_st s c)).
Proof.
  intros Hc. pose proof Hc as (H1 & H2 & H3 & H4). unfold parse_b58_st. destruct (k_b58 c) as [v|] eqn:E; cbn [fst snd].
  - split; [exact (H1 v eq_refl)|exact Hc].
  - split; [reflexivity|]. repeat split; cbn; try assumption. intros v Hv. now injection Hv as <-.
Qed.

Lemma body_ok H s c : (forall v, k_b58 c = Some v -> v = btc_parse_b58 s) ->
  fst (b58_hashed_body H s c) = btc_parse_b58_double_sha256 H s
  /\ (forall v, k_b58 (snd (b58_hashed_body H s c)) = Some v -> v = btc_parse_b58 s)
  /\ k_dsha (snd (b58_hashed_body H s c)) = k_dsha c /\ k_grs (snd (b58_hashed_body H s c)) = k_grs c
  /\ k_bech32 (snd (b58_hashed_body H s c)) = k_bech32 c.
Proof.
  intros H1. unfold b58_hashed_body, parse_b58_st. destruct (k_b58 c) as [v|] eqn:E; cbn [fst snd].
  - rewrite (H1 v eq_refl), checksum_strip_spec. repeat split; try reflexivity. rewrite E. exact H1.
  - rewrite checksum_strip_spec. repeat split; try reflexivity. cbn. intros v Hv. now injection Hv as <-.
Qed.

Lemma parse_b58_dsha_st_ok s c : cache_ok s c ->
  fst (parse_b58_dsha_st dsha s c) = btc_parse_b58_double_sha256 dsha s
  /\ cache_ok s (snd (parse_b58_dsha_st dsha s c)).
Proof.
  intros Hc. pose proof Hc as (H1 & H2 & H3 & H4). unfold parse_b58_dsha_st. destruct (k_dsha c) as [v|] eqn:E; cbn [fst snd].
  - split; [exact (H2 v eq_refl)|exact Hc].
  - destruct (body_ok dsha s (set_dsha c (Some None)) H1) as (B1 & B2 & B3 & B4 & B5).
    destruct (b58_hashed_body dsha s (set_dsha c (Some None))) as [v c1]. cbn [fst snd] in *.
    split; [exact B1|]. repeat split; cbn.
    + exact B2.
    + intros w Hw. injection Hw as <-. exact B1.
    + rewrite B4. exact H3.
    + rewrite B5. exact H4.
Qed.

Lemma parse_b58_grs_st_ok s c : cache_ok s c ->
  fst (parse_b58_grs_st groestl s c) = btc_parse_b58_double_sha256 groestl s
  /\ cache_ok s (snd (parse_b58_grs_st groestl s c)).
Proof.
  intros Hc. pose proof Hc as (H1 & H2 & H3 & H4). unfold parse_b58_grs_st. destruct (k_grs c) as [v|] eqn:E; cbn [fst snd].
  - split; [exact (H3 v eq_refl)|exact Hc].
  - destruct (body_ok groestl s (set_grs c (Some None)) H1) as (B1 & B2 & B3 & B4 & B5).
    destruct (b58_hashed_body groestl s (set_grs c (Some None))) as [v c1]. cbn [fst snd] in *.
    split; [exact B1|]. repeat split; cbn.
    + exact B2.
    + rewrite B3. exact H2.
    + intros w Hw. injection Hw as <-. exact B1.
    + rewrite B5. exact H4.
Qed.

Lemma parse_bech32_st_ok s c : cache_ok s c ->
  fst (parse_bech32_st s c) = parse_bech32 s /\ cache_ok s (snd (parse_bech32_st s c)).
Proof.
  intros Hc. pose proof Hc as (H1 & H2 & H3 & H4). unfold parse_bech32_st. destruct (k_bech32 c) as [v|] eqn:E; cbn [fst snd].
  - split; [exact (H4 v eq_refl)|exact Hc].
  - split; [reflexivity|]. repeat split; cbn; try assumption. intros v Hv. now injection Hv as <-.
Qed.

Lemma run_op_ok s o c : cache_ok s c ->
  fst (run_op dsha groestl s o c) = fresh_op dsha groestl s o /\ cache_ok s (snd (run_op dsha groestl s o c)).
Proof.
  intros Hc. destruct o as [| | | | |k|]; cbn [run_op fresh_op].
  - destruct (parse_b58_st_ok s c Hc) as [A B]. destruct (parse_b58_st s c); cbn [fst snd] in *. now subst.
  - destruct (parse_b58_dsha_st_ok s c Hc) as [A B]. destruct (parse_b58_dsha_st dsha s c); cbn [fst snd] in *. now subst.
  - destruct (parse_b58_grs_st_ok s c Hc) as [A B]. destruct (parse_b58_grs_st groestl s c); cbn [fst snd] in *. now subst.
  - destruct (parse_bech32_st_ok s c Hc) as [A B]. destruct (parse_bech32_st s c); cbn [fst snd] in *. now subst.
  - split; [reflexivity|apply empty_ok].
  - split; [reflexivity|]. destruct Hc as (H1 & H2 & H3 & H4).
    destruct k; repeat split; cbn; try assumption; discriminate.
  - split; [reflexivity|exact Hc].
Qed.

Lemma run_ops_ok s ops : forall c, cache_ok s c ->
  fst (run_ops dsha groestl s ops c) = map (fresh_op dsha groestl s) ops.
Proof.
  induction ops as [|o r IH]; intros c Hc; [reflexivity|].
  cbn [run_ops map]. destruct (run_op_ok s o c Hc) as [A B].
  destruct (run_op dsha groestl s o c) as [v c1]. cbn [fst snd] in *.
  specialize (IH c1 B). destruct (run_ops dsha groestl s r c1) as [vs c2]. cbn [fst] in *. now subst.
Qed.

(* one parseable_str object through ANY history of observers and cache mutators answers like a fresh str *)
Theorem history_independent : forall (s : pystr) (ops : list pop),
  history dsha groestl s ops = map (fresh_op dsha groestl s) ops.
Proof. intros. unfold history. apply run_ops_ok. apply empty_ok. Qed.

(* in particular: a string whose double-SHA256 checksum is wrong is refused by parse_b58_double_sha256 whatever
   happened to the object before (e.g. a Groestlcoin network accepted it), and vice versa *)
Corollary dsha_verdict_after_any_history : forall (s : pystr) (before : list pop),
  last (history dsha groestl s (before ++ [ODsha])) RNone = RBytes (btc_parse_b58_double_sha256 dsha s).
Proof. intros. rewrite history_independent, map_app. cbn [map]. apply last_last. Qed.

Corollary grs_verdict_after_any_history : forall (s : pystr) (before : list pop),
  last (history dsha groestl s (before ++ [OGrs])) RNone = RBytes (btc_parse_b58_double_sha256 groestl s).
Proof. intros. rewrite history_independent, map_app. cbn [map]. apply last_last. Qed.
End WithHashes.
