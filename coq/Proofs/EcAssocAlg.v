(* Proofs/EcAssocAlg.v — the field-level half of the associativity proof for chord-and-tangent addition on
   y^2 = x^3 + a x + b over an abstract field (Leibniz equality, decidable, characteristic <> 2):
   the chord / tangent formulas and every polynomial identity the case analysis of EcAssocGrp.v needs.
   All identities are closed by the stdlib `field` tactic (with the curve equations as rewriting rules).
   The field is a record with PRIMITIVE projections: `field` post-processes its non-zero side conditions by vm_compute,
   which would expand ordinary projections of a variable record into `match` terms; primitive ones stay `F.(kadd)`.
   Compile time ~60 s (I3: 40 s). *)
From Coq Require Import Field Ring.

Set Primitive Projections.
Record fld : Type := MkFld {
  K :> Type;
  kO : K; kI : K;
  kadd : K -> K -> K; kmul : K -> K -> K; ksub : K -> K -> K; kopp : K -> K;
  kdiv : K -> K -> K; kinv : K -> K;
  Kfth : field_theory kO kI kadd kmul ksub kopp kdiv kinv (@eq K);
  Keq_dec : forall x y : K, {x = y} + {x <> y};
  K2nz : kadd kI kI <> kO }.
Unset Primitive Projections.
Arguments kO {f}. Arguments kI {f}. Arguments kadd {f}. Arguments kmul {f}. Arguments ksub {f}.
Arguments kopp {f}. Arguments kdiv {f}. Arguments kinv {f}. Arguments Kfth {f}. Arguments Keq_dec {f}.
Arguments K2nz {f}.

Declare Scope k_scope.
Delimit Scope k_scope with k.
Module KNotations.
Notation "0" := kO : k_scope.
Notation "1" := kI : k_scope.
Infix "+" := kadd : k_scope.
Infix "*" := kmul : k_scope.
Infix "-" := ksub : k_scope.
Infix "/" := kdiv : k_scope.
Notation "- x" := (kopp x) : k_scope.
Notation "/ x" := (kinv x) : k_scope.
Notation "2" := (kadd kI kI) : k_scope.
Notation "3" := (kadd (kadd kI kI) kI) : k_scope.
End KNotations.
Import KNotations.
Local Open Scope k_scope.

(* the discriminant 4 a^3 + 27 b^2 (written with 2 and 3 only) *)
Definition disc {F : fld} (a b : F) : F := 2 * 2 * a * a * a + 3 * 3 * 3 * b * b.

Record ecurve (F : fld) : Type := MkEc { ea : F; eb : F; edisc : disc ea eb <> 0 }.
Arguments ea {F}. Arguments eb {F}. Arguments edisc {F}.

Section EC.
Context {F : fld} {Ec : ecurve F}.
Add Field Kfield : (@Kfth F).
Local Notation a := (ea Ec).
Local Notation b := (eb Ec).

Implicit Types x y e d n : F.

Lemma two_nz : (2 : F) <> 0.
Proof. exact K2nz. Qed.

(* ---- integral domain facts ---- *)
Lemma Kmul_eq0 (x y : F) : x * y = 0 -> x = 0 \/ y = 0.
Proof.
  intros H. destruct (Keq_dec x 0) as [E|E]; [left; exact E|right].
  transitivity (/ x * (x * y)); [field; exact E | rewrite H; ring].
Qed.

Lemma Kmul_nz x y : x <> 0 -> y <> 0 -> x * y <> 0.
Proof. intros Hx Hy E. destruct (Kmul_eq0 _ _ E); contradiction. Qed.

Lemma Ksub_eq0 x y : x - y = 0 -> x = y.
Proof. intros H. transitivity (x - y + y); [ring | rewrite H; ring]. Qed.

Lemma Ksub_nz x y : x <> y -> x - y <> 0.
Proof. intros H E. apply H. now apply Ksub_eq0. Qed.

Lemma Ksub_nz' x y : x <> y -> y - x <> 0.
Proof. intros H E. apply H. symmetry. now apply Ksub_eq0. Qed.

Lemma Kopp_opp x : - - x = x.
Proof. ring. Qed.

Lemma Kself_opp y : y = - y -> y = 0.
Proof.
  intros H. assert (E : 2 * y = 0).
  { transitivity (y - - y); [ring | rewrite <- H; ring]. }
  destruct (Kmul_eq0 _ _ E) as [E2|E2]; [exfalso; exact (two_nz E2) | assumption].
Qed.

Lemma Kopp_inj x y : - x = - y -> x = y.
Proof. intros H. rewrite <- (Kopp_opp x), H. ring. Qed.

Lemma Ksq_eq x y : x * x = y * y -> x = y \/ x = - y.
Proof.
  intros H. assert (E : (x - y) * (x + y) = 0).
  { transitivity (x * x - y * y); [ring | rewrite H; ring]. }
  destruct (Kmul_eq0 _ _ E) as [D|D]; [left; now apply Ksub_eq0 | right].
  transitivity (x + y - y); [ring | rewrite D; ring].
Qed.

Lemma Kopp_nz x : x <> 0 -> - x <> 0.
Proof. intros H E. apply H. rewrite <- (Kopp_opp x), E. ring. Qed.

Lemma frac_nz d x n : d <> 0 -> x = n / d -> x <> 0 -> n <> 0.
Proof. intros Hd E Hx Hn. apply Hx. rewrite E, Hn. field. exact Hd. Qed.

(* ---- the curve and the two formulas ---- *)
Definition oc (x y : F) : Prop := y * y = x * x * x + a * x + b.
Definition cx x1 y1 x2 y2 := let l := (y2 - y1) / (x2 - x1) in l * l - x1 - x2.
Definition cy x1 y1 x2 y2 := let l := (y2 - y1) / (x2 - x1) in l * (x1 - cx x1 y1 x2 y2) - y1.
Definition tx x1 y1 := let l := (3 * x1 * x1 + a) / (2 * y1) in l * l - x1 - x1.
Definition ty x1 y1 := let l := (3 * x1 * x1 + a) / (2 * y1) in l * (x1 - tx x1 y1) - y1.

Ltac unf := unfold oc, cy, ty, cx, tx in *.
Ltac nz := repeat split; auto using two_nz, Ksub_nz, Ksub_nz', Kmul_nz, Kopp_nz.

Ltac nz_via H d :=
  match type of H with
  | ?X <> 0 => apply (frac_nz d X); [ nz | unf; field; nz | exact H ]
  | ?X <> ?Y =>
    first [ apply (frac_nz d (X - Y)); [ nz | unf; field; nz | apply Ksub_nz; exact H ]
          | apply (frac_nz d (Y - X)); [ nz | unf; field; nz | apply Ksub_nz'; exact H ] ]
  end.
Ltac cut1 :=
  match goal with
  | |- ?A /\ ?B => let h := fresh "C" in assert (h : A); [ | split; [exact h | ] ]
  end.

Lemma chord_oc x1 y1 x2 y2 : oc x1 y1 -> oc x2 y2 -> x1 <> x2 ->
  oc (cx x1 y1 x2 y2) (cy x1 y1 x2 y2).
Proof. intros H1 H2 D. unf. field [H1 H2]. nz. Qed.

Lemma tan_oc x1 y1 : oc x1 y1 -> y1 <> 0 -> oc (tx x1 y1) (ty x1 y1).
Proof. intros H1 D. unf. field [H1]. nz. Qed.

(* symmetry of the chord *)
Lemma cx_sym x1 y1 x2 y2 : x1 <> x2 -> cx x1 y1 x2 y2 = cx x2 y2 x1 y1.
Proof. intros D. unf. field. nz. Qed.
Lemma cy_sym x1 y1 x2 y2 : x1 <> x2 -> cy x1 y1 x2 y2 = cy x2 y2 x1 y1.
Proof. intros D. unf. field. nz. Qed.

(* negation *)
Lemma cx_neg x1 y1 x2 y2 : x1 <> x2 -> cx x1 (- y1) x2 (- y2) = cx x1 y1 x2 y2.
Proof. intros D. unf. field. nz. Qed.
Lemma cy_neg x1 y1 x2 y2 : x1 <> x2 -> cy x1 (- y1) x2 (- y2) = - cy x1 y1 x2 y2.
Proof. intros D. unf. field. nz. Qed.
Lemma tx_neg x1 y1 : y1 <> 0 -> tx x1 (- y1) = tx x1 y1.
Proof. intros D. unf. field. nz. Qed.
Lemma ty_neg x1 y1 : y1 <> 0 -> ty x1 (- y1) = - ty x1 y1.
Proof. intros D. unf. field. nz. Qed.


(* ---- (P + Q) - Q = P : the algebra ---- *)
Lemma tan_same_x x y : tx x y = x -> ty x y = - y.
Proof. intros H. unfold ty. rewrite H. ring. Qed.

Lemma chord_same_x x1 y1 x2 y2 : x1 <> x2 -> cx x1 y1 x2 y2 = x2 -> cy x1 y1 x2 y2 = - y2.
Proof. intros D H. unfold cy. rewrite H. field. nz. Qed.

Lemma sub_tan_gen x y : oc x y -> y <> 0 -> tx x y <> x ->
  cx (tx x y) (ty x y) x (- y) = x /\ cy (tx x y) (ty x y) x (- y) = y.
Proof.
  intros H D D2. unf. 
  split; field [H]; (cut1; [nz|]); (cut1; [nz|]); nz_via D2 (2 * y * (2 * y)).
Qed.

Lemma sub_chord_gen x1 y1 x2 y2 : oc x1 y1 -> oc x2 y2 -> x1 <> x2 -> cx x1 y1 x2 y2 <> x2 ->
  cx (cx x1 y1 x2 y2) (cy x1 y1 x2 y2) x2 (- y2) = x1 /\ cy (cx x1 y1 x2 y2) (cy x1 y1 x2 y2) x2 (- y2) = y1.
Proof.
  intros H1 H2 D D2. unf.
  split; field [H1 H2]; (cut1; [nz|]); nz_via D2 ((x2 - x1) * (x2 - x1)).
Qed.

(* the chord through P and Q lands on Q's abscissa: it is the tangent at Q *)
Lemma chord_is_tangent x1 y1 x2 y2 : oc x1 y1 -> oc x2 y2 -> x1 <> x2 -> cx x1 y1 x2 y2 = x2 ->
  (3 * x2 * x2 + a) * (x2 - x1) = 2 * y2 * (y2 - y1).
Proof.
  intros H1 H2 D H.
  assert (Hn : (y2 - y1) * (y2 - y1) = (x1 + 2 * x2) * ((x2 - x1) * (x2 - x1))).
  { transitivity ((cx x1 y1 x2 y2 + x1 + x2) * ((x2 - x1) * (x2 - x1))); [unfold cx; field; nz | rewrite H; ring]. }
  unfold oc in *. apply Ksub_eq0.
  transitivity (- ((y2 - y1) * (y2 - y1) - (x1 + 2 * x2) * ((x2 - x1) * (x2 - x1)))
                + (y1 * y1 - (x1 * x1 * x1 + a * x1 + b)) - (y2 * y2 - (x2 * x2 * x2 + a * x2 + b))); [ring|].
  rewrite Hn, H1, H2. ring.
Qed.

Lemma sub_chord_tan x1 y1 x2 y2 : oc x1 y1 -> oc x2 y2 -> x1 <> x2 -> cx x1 y1 x2 y2 = x2 -> y2 <> 0 ->
  tx x2 (- y2) = x1 /\ ty x2 (- y2) = y1.
Proof.
  intros H1 H2 D H D2.
  pose proof (chord_is_tangent _ _ _ _ H1 H2 D H) as E.
  assert (El : (3 * x2 * x2 + a) / (2 * - y2) = - ((y2 - y1) / (x2 - x1))).
  { transitivity (- (((3 * x2 * x2 + a) * (x2 - x1)) / (2 * y2 * (x2 - x1)))); [field; nz | rewrite E; field; nz]. }
  unfold cx in H. unfold ty, tx. rewrite El. set (l := (y2 - y1) / (x2 - x1)) in *.
  assert (Ex : - l * - l - x2 - x2 = x1).
  { transitivity (l * l - x1 - x2 - x2 + x1); [ring | rewrite H; ring]. }
  split; [exact Ex|]. rewrite Ex. subst l. field. nz.
Qed.


Lemma chord_sing x1 y1 x2 : oc x1 y1 -> oc x2 0 -> x1 <> x2 -> cx x1 y1 x2 0 = x2 -> disc a b = 0.
Proof.
  intros H1 H2 D H.
  pose proof (chord_is_tangent _ _ _ _ H1 H2 D H) as E.
  assert (Ea : 3 * x2 * x2 + a = 0).
  { assert (E0 : (3 * x2 * x2 + a) * (x2 - x1) = 0) by (rewrite E; ring).
    destruct (Kmul_eq0 _ _ E0) as [E1|E1]; [exact E1 | exfalso; exact (Ksub_nz' _ _ D E1)]. }
  assert (Ea' : a = - (3 * x2 * x2)).
  { transitivity (3 * x2 * x2 + a - 3 * x2 * x2); [ring | rewrite Ea; ring]. }
  unfold oc in H2.
  assert (Eb : b = 2 * x2 * x2 * x2).
  { transitivity (x2 * x2 * x2 + a * x2 + b - x2 * x2 * x2 - a * x2); [ring | rewrite <- H2, Ea'; ring]. }
  unfold disc. rewrite Ea', Eb. ring.
Qed.

(* ---- associativity: the five configurations ---- *)
Lemma I1 x1 y1 x2 y2 x3 y3 : oc x1 y1 -> oc x2 y2 -> oc x3 y3 -> x1 <> x2 -> x2 <> x3 ->
  let xS := cx x1 y1 x2 y2 in let yS := cy x1 y1 x2 y2 in
  let xT := cx x2 y2 x3 y3 in let yT := cy x2 y2 x3 y3 in
  xS <> x3 -> x1 <> xT ->
  cx xS yS x3 y3 = cx x1 y1 xT yT /\ cy xS yS x3 y3 = cy x1 y1 xT yT.
Proof.
  intros H1 H2 H3 D1 D2 xS yS xT yT D3 D4. subst xS yS xT yT. unf.
  split; field [H1 H2 H3]; (cut1; [nz|]);
    (cut1; [nz_via D4 ((x3 - x2) * (x3 - x2))|]); (cut1; [nz|]); nz_via D3 ((x2 - x1) * (x2 - x1)).
Qed.

Lemma I2 x2 y2 x3 y3 : oc x2 y2 -> oc x3 y3 -> y2 <> 0 -> x2 <> x3 ->
  let xS := tx x2 y2 in let yS := ty x2 y2 in
  let xT := cx x2 y2 x3 y3 in let yT := cy x2 y2 x3 y3 in
  xS <> x3 -> x2 <> xT ->
  cx xS yS x3 y3 = cx x2 y2 xT yT /\ cy xS yS x3 y3 = cy x2 y2 xT yT.
Proof.
  intros H2 H3 D1 D2 xS yS xT yT D3 D4. subst xS yS xT yT. unf.
  split; field [H2 H3]; (cut1; [nz|]);
    (cut1; [nz_via D4 ((x3 - x2) * (x3 - x2))|]); (cut1; [nz|]); (cut1; [nz|]); nz_via D3 (2 * y2 * (2 * y2)).
Qed.

Lemma I3 x1 y1 x2 y2 : oc x1 y1 -> oc x2 y2 -> x1 <> x2 ->
  let xS := cx x1 y1 x2 y2 in let yS := cy x1 y1 x2 y2 in
  yS <> 0 -> x2 <> xS ->
  let xT := cx x2 y2 xS yS in let yT := cy x2 y2 xS yS in
  x1 <> xT ->
  tx xS yS = cx x1 y1 xT yT /\ ty xS yS = cy x1 y1 xT yT.
Proof.
  intros H1 H2 D1 xS yS D2 D3 xT yT D4. subst xS yS xT yT. unf.
  split; field [H1 H2]; (cut1; [nz|]); (cut1; [nz_via D3 ((x2 - x1) * (x2 - x1))|]);
    (cut1; [match type of C0 with ?n <> 0 => nz_via D4 ((x2 - x1) * n * ((x2 - x1) * n)) end|]);
    (cut1; [nz_via D2 ((x2 - x1) * ((x2 - x1) * (x2 - x1)))|]); nz.
Qed.

(* (P+P) + (P+P) = P + (P + (P+P)) *)
Lemma I4 x y : oc x y -> y <> 0 ->
  let xS := tx x y in let yS := ty x y in
  yS <> 0 -> x <> xS ->
  let xT := cx x y xS yS in let yT := cy x y xS yS in
  x <> xT ->
  tx xS yS = cx x y xT yT /\ ty xS yS = cy x y xT yT.
Proof.
  intros H D1 xS yS D2 D3 xT yT D4. subst xS yS xT yT. unf.
  split; field [H]; (cut1; [nz|]); (cut1; [nz|]); (cut1; [nz_via D3 (2 * y * (2 * y))|]);
    (cut1; [match type of C1 with ?n <> 0 => nz_via D4 (2 * y * n * (2 * y * n)) end|]);
    nz_via D2 (2 * y * (2 * y * (2 * y))).
Qed.

(* translation by a point of order two commutes with doubling *)
Lemma I5 x1 y1 e : oc x1 y1 -> oc e 0 -> x1 <> e -> y1 <> 0 ->
  let xS := cx x1 y1 e 0 in let yS := cy x1 y1 e 0 in
  yS <> 0 ->
  tx xS yS = tx x1 y1 /\ ty xS yS = ty x1 y1.
Proof.
  intros H1 H2 D1 D2 xS yS D3. subst xS yS. unf.
  assert (Hb : b = - (e * e * e) - a * e).
  { transitivity (e * e * e + a * e + b - e * e * e - a * e); [ring | rewrite <- H2; ring]. }
  rewrite Hb in H1. clear H2 Hb.
  split; field [H1]; (cut1; [nz|]); (cut1; [nz|]); (cut1; [nz|]);
    nz_via D3 ((e - x1) * ((e - x1) * (e - x1))).
Qed.

(* ---- the two formulas in terms of ANY solution l of the slope equation (no division) ---- *)
Lemma tan_slope x y l : y <> 0 -> l * (2 * y) = 3 * x * x + a ->
  tx x y = l * l - x - x /\ ty x y = l * (x - (l * l - x - x)) - y.
Proof.
  intros D H. assert (El : (3 * x * x + a) / (2 * y) = l) by (rewrite <- H; field; nz).
  unfold ty, tx. rewrite El. split; reflexivity.
Qed.

Lemma chord_slope x1 y1 x2 y2 l : x1 <> x2 -> l * (x2 - x1) = y2 - y1 ->
  cx x1 y1 x2 y2 = l * l - x1 - x2 /\ cy x1 y1 x2 y2 = l * (x1 - (l * l - x1 - x2)) - y1.
Proof.
  intros D H. assert (El : (y2 - y1) / (x2 - x1) = l) by (rewrite <- H; field; nz).
  unfold cy, cx. rewrite El. split; reflexivity.
Qed.

End EC.
