(* Proofs/MerkleBlockP.v — the BIP37 verifier of pycoin (post_unpack_merkleblock/_recurse):
   (1) the model equals a position-free recursive verifier `vrec` (level widths and node indices eliminated);
   (2) honest proofs are accepted with exactly the matched ids, unless two computed siblings collide;
   (3) rejection theorems. *)
From PV Require Import Base.Bytes Base.Outcome Base.Varint Model.Merkle Model.Block Model.MerkleBlock
  Spec.MerkleSpec Spec.PartialMerkle Proofs.MerkleP Proofs.BlockP.
From Coq Require Import ZifyBool ZifyNat ZifyN ArithRing.
Ltac Zify.zify_post_hook ::= Z.to_euclidean_division_equations.
Local Open Scope outcome_scope.

(* ---- flag bits ---------------------------------------------------------------------------------- *)
Definition bit (flags : bytes) (k : nat) : option bool :=
  match nth_error flags (k / 8) with
  | None => None
  | Some b => Some (N.testbit (b2n b) (N.of_nat (k mod 8)))
  end.

Lemma land_pow2 a n : (N.land a (N.shiftl 1 n) =? 0)%N = negb (N.testbit a n).
Proof.
  rewrite N.shiftl_1_l.
  destruct (N.testbit a n) eqn:E; cbn [negb].
  - apply N.eqb_neq. intros Hz.
    assert (T : N.testbit (N.land a (2 ^ n)) n = true) by (rewrite N.land_spec, E, N.pow2_bits_true; reflexivity).
    rewrite Hz in T. now rewrite N.bits_0 in T.
  - apply N.eqb_eq. apply N.bits_inj_0. intros m. rewrite N.land_spec.
    destruct (N.eq_dec n m) as [<-|Hne]; [now rewrite E|].
    rewrite N.pow2_bits_false by exact Hne. apply andb_false_r.
Qed.

Lemma flag_is_zero_bit flags k :
  flag_is_zero flags k = match bit flags k with None => Raise E_INDEX | Some b => Ret (negb b) end.
Proof. unfold flag_is_zero, bit. destruct (nth_error flags (k / 8)); [|reflexivity]. now rewrite land_pow2. Qed.

(* ---- level widths -------------------------------------------------------------------------------- *)
Definition cdivN (t : N) (j : nat) : N := ((t + 2 ^ N.of_nat j - 1) / 2 ^ N.of_nat j)%N.

Lemma cdivN_succ t j : (0 < t)%N -> cdivN t (S j) = ((cdivN t j + 1) / 2)%N.
Proof.
  intros Ht. unfold cdivN. rewrite Nat2N.inj_succ, N.pow_succ_r'.
  set (p := (2 ^ N.of_nat j)%N). assert (Hp : (0 < p)%N) by (apply N.neq_0_lt_0, N.pow_nonzero; lia).
  replace (2 * p)%N with (p * 2)%N by lia. rewrite <- N.div_div by lia.
  f_equal. replace (t + p * 2 - 1)%N with ((t + p - 1) + 1 * p)%N by lia.
  now rewrite N.div_add by lia.
Qed.

Lemma cdivN_0 t : cdivN t 0 = t.
Proof. unfold cdivN. cbn. rewrite N.div_1_r. lia. Qed.

Lemma cdivN_le1 t j : (t <= 2 ^ N.of_nat j)%N -> (cdivN t j <= 1)%N.
Proof.
  intros H. unfold cdivN. set (p := (2 ^ N.of_nat j)%N) in *.
  assert (Hp : (0 < p)%N) by (apply N.neq_0_lt_0, N.pow_nonzero; lia).
  apply N.lt_succ_r. apply N.div_lt_upper_bound; lia.
Qed.

Lemma cdivN_gt1 t j : (2 ^ N.of_nat j < t)%N -> (1 < cdivN t j)%N.
Proof.
  intros H. unfold cdivN. set (p := (2 ^ N.of_nat j)%N) in *.
  assert (Hp : (0 < p)%N) by (apply N.neq_0_lt_0, N.pow_nonzero; lia).
  apply N.le_succ_l. change (N.succ 1) with 2%N. apply N.div_le_lower_bound; lia.
Qed.

(* h is the height for t leaves, in N *)
Definition heightN (h : nat) (t : N) : Prop :=
  (t <= 2 ^ N.of_nat h)%N /\ (h = 0 \/ (2 ^ N.of_nat (h - 1) < t)%N).

Lemma widths_loop_spec t h : (0 < t)%N -> heightN h t -> forall k j fuel acc, j + k = h -> k < fuel ->
  widths_loop fuel (cdivN t j) acc = Ret (acc ++ map (cdivN t) (seq j k)).
Proof.
  intros Ht [Hle Hgt]. induction k as [|k IH]; intros j fuel acc Hj Hf.
  - assert (j = h) by lia. subst j. destruct fuel; [lia|]. cbn [widths_loop seq map].
    pose proof (cdivN_le1 t h Hle). replace (1 <? cdivN t h)%N with false by lia. now rewrite app_nil_r.
  - destruct fuel as [|f]; [lia|]. cbn [widths_loop seq map].
    assert (G : (1 < cdivN t j)%N).
    { apply cdivN_gt1. destruct Hgt as [->|Hgt]; [lia|].
      eapply N.le_lt_trans; [|exact Hgt]. apply N.pow_le_mono_r; lia. }
    replace (1 <? cdivN t j)%N with true by lia.
    rewrite <- cdivN_succ by exact Ht. rewrite IH by lia. now rewrite <- app_assoc.
Qed.

Lemma heightN_size t h : (0 < t)%N -> heightN h t -> h <= N.to_nat (N.size t).
Proof.
  intros Ht [_ [->|Hgt]]; [lia|].
  pose proof (N.size_gt t) as Hs.
  assert (Hlt : (2 ^ N.of_nat (h - 1) < 2 ^ N.size t)%N) by lia.
  apply N.pow_lt_mono_r_iff in Hlt; lia.
Qed.

Definition widths_spec (t : N) (h : nat) : list N := rev (map (cdivN t) (seq 0 (S h))).

Lemma level_widths_spec t h : (0 < t)%N -> heightN h t -> level_widths t = Ret (widths_spec t h).
Proof.
  intros Ht Hh. unfold level_widths.
  pose proof (heightN_size t h Ht Hh) as Hs.
  pose proof (widths_loop_spec t h Ht Hh h 0 (S (N.to_nat (N.size t))) [] eq_refl ltac:(lia)) as E.
  rewrite cdivN_0 in E. rewrite E. cbn [bind app]. unfold widths_spec. f_equal. f_equal.
  rewrite seq_S, map_app. cbn [map plus]. f_equal. f_equal.
  destruct Hh as [Hle _]. pose proof (cdivN_le1 t h Hle).
  assert ((0 < cdivN t h)%N); [|lia].
  unfold cdivN. set (p := (2 ^ N.of_nat h)%N) in *.
  assert (Hp : (0 < p)%N) by (apply N.neq_0_lt_0, N.pow_nonzero; lia).
  apply N.div_str_pos. lia.
Qed.

Lemma level_widths_0 : level_widths 0 = level_widths 1.
Proof. reflexivity. Qed.

Lemma widths_spec_length t h : length (widths_spec t h) = S h.
Proof. unfold widths_spec. now rewrite rev_length, map_length, seq_length. Qed.

Lemma widths_spec_nth t h k : k <= h -> nth_error (widths_spec t h) k = Some (cdivN t (h - k)).
Proof.
  intros Hk. unfold widths_spec.
  assert (L : length (map (cdivN t) (seq 0 (S h))) = S h) by now rewrite map_length, seq_length.
  rewrite nth_error_nth' with (d := 0%N) by (rewrite rev_length; lia).
  rewrite rev_nth by lia. rewrite L. f_equal.
  replace (S h - S k) with (h - k) by lia.
  rewrite nth_indep with (d' := cdivN t 0) by lia.
  rewrite map_nth. rewrite seq_nth by lia. reflexivity.
Qed.

Lemma cdiv_lt a t q : (0 < q)%N -> (a <? (t + q - 1) / q)%N = (a * q <? t)%N.
Proof.
  intros Hq. apply Bool.eq_iff_eq_true. rewrite !N.ltb_lt. split; intros Hlt.
  - destruct (N.lt_ge_cases (a * q) t) as [|Hge]; [assumption|exfalso].
    assert (((t + q - 1) / q < a + 1)%N); [|lia].
    apply N.div_lt_upper_bound; [lia|]. rewrite N.mul_add_distr_l, N.mul_1_r, (N.mul_comm q a). lia.
  - apply N.le_succ_l. rewrite <- N.add_1_r. apply N.div_le_lower_bound; [lia|].
    rewrite N.mul_add_distr_l, N.mul_1_r, (N.mul_comm q a). lia.
Qed.

Lemma right_test n i j :
  (N.of_nat i * 2 + 1 <? cdivN (N.of_nat n) j)%N = ((2 * i + 1) * 2 ^ j <? n).
Proof.
  unfold cdivN. set (p := 2 ^ j).
  assert (Ep : (2 ^ N.of_nat j)%N = N.of_nat p) by (unfold p; now rewrite Nat2N.inj_pow).
  rewrite Ep. assert (Hp : 0 < p) by (unfold p; apply Nat.neq_0_lt_0, Nat.pow_nonzero; lia).
  rewrite cdiv_lt by lia.
  replace ((N.of_nat i * 2 + 1) * N.of_nat p)%N with (N.of_nat ((2 * i + 1) * p)).
  - set (x := (2 * i + 1) * p). destruct (x <? n) eqn:E; lia.
  - rewrite Nat2N.inj_mul, Nat2N.inj_add, Nat2N.inj_mul. lia.
Qed.

(* ---- the position-free verifier ----------------------------------------------------------------- *)
Section Verifier.
Variable H : bytes -> bytes.

Notation vres := (bytes * nat * list bytes * list bytes)%type.

(* node of height h with cnt leaves below it *)
Fixpoint vrec (h cnt : nat) (hashes : list bytes) (flags : bytes) (fi : nat) (acc : list bytes) : outcome vres :=
  do z <- flag_is_zero flags fi;
  if z then
    match hashes with
    | [] => Raise E_INDEX
    | x :: rest => Ret (x, S fi, rest, acc)
    end
  else
    match h with
    | O =>
      match hashes with
      | [] => Raise E_INDEX
      | x :: rest => Ret (x, S fi, rest, acc ++ [x])
      end
    | S h' =>
      do '(lh, fi1, hashes1, acc1) <- vrec h' (Nat.min cnt (2 ^ h')) hashes flags (S fi) acc;
      if 2 ^ h' <? cnt then
        do '(rh, fi2, hashes2, acc2) <- vrec h' (cnt - 2 ^ h') hashes1 flags fi1 acc1;
        if bytes_eqb lh rh then Raise E_VALUE else Ret (H (lh ++ rh), fi2, hashes2, acc2)
      else Ret (H (lh ++ lh), fi1, hashes1, acc1)
    end.

Lemma recurse_vrec n Hh : forall h i d hs flags fi acc,
  h <= Hh -> i * 2 ^ h < n -> h < d ->
  recurse H d (widths_spec (N.of_nat n) Hh) (Hh - h) (N.of_nat i) hs flags fi acc =
  vrec h (Nat.min (2 ^ h) (n - i * 2 ^ h)) hs flags fi acc.
Proof.
  induction h as [|h IH]; intros i d hs flags fi acc Hle Hi Hd.
  - destruct d as [|d]; [lia|]. cbn [recurse vrec]. rewrite widths_spec_length.
    replace (Z.of_nat (Hh - 0) =? Z.of_nat (S Hh) - 1)%Z with true by lia. reflexivity.
  - destruct d as [|d]; [lia|]. cbn [recurse vrec]. rewrite widths_spec_length.
    replace (Z.of_nat (Hh - S h) =? Z.of_nat (S Hh) - 1)%Z with false by lia.
    destruct (flag_is_zero flags fi) as [z| |]; cbn [bind]; try reflexivity.
    destruct z; [reflexivity|].
    replace (S (Hh - S h)) with (Hh - h) by lia.
    assert (P2 : 2 ^ S h = 2 * 2 ^ h) by (cbn; lia).
    set (p := 2 ^ h) in *. assert (Hp : 0 < p) by (unfold p; apply Nat.neq_0_lt_0, Nat.pow_nonzero; lia).
    assert (Eo : (2 * i) * p = i * 2 ^ S h) by (rewrite P2; ring).
    replace (N.of_nat i * 2)%N with (N.of_nat (2 * i)) by lia.
    rewrite IH by lia.
    rewrite widths_spec_nth by lia. replace (Hh - (Hh - h)) with h by lia.
    replace (N.of_nat (2 * i)) with (N.of_nat i * 2)%N by lia.
    rewrite right_test. fold p.
    assert (Eo2 : (2 * i + 1) * p = i * 2 ^ S h + p) by (rewrite P2; ring).
    rewrite Eo, Eo2. set (o := i * 2 ^ S h) in *.
    replace (Nat.min p (n - o)) with (Nat.min (Nat.min (2 ^ S h) (n - o)) p) by lia.
    destruct (vrec h _ hs flags (S fi) acc) as [[[[lh fi1] hs1] acc1]| |]; cbn [bind]; try reflexivity.
    replace (p <? Nat.min (2 ^ S h) (n - o)) with (o + p <? n) by lia.
    destruct (o + p <? n) eqn:Et; [|reflexivity].
    replace (N.of_nat i * 2 + 1)%N with (N.of_nat (2 * i + 1)) by lia.
    rewrite IH by lia. rewrite Eo2.
    replace (Nat.min p (n - (o + p))) with (Nat.min (2 ^ S h) (n - o) - p) by lia.
    reflexivity.
Qed.
End Verifier.

Section Verifier2.
Variable H : bytes -> bytes.
Notation vres := (bytes * nat * list bytes * list bytes)%type.

(* the checks of post_unpack_merkleblock after the traversal *)
Definition final_checks (flags root : bytes) (r : vres) : outcome (list bytes) :=
  let '(left_hash, flag_index, rest, tx_acc) := r in
  match rest with
  | _ :: _ => Raise E_VALUE
  | [] =>
    let idx := (flag_index - 1) / 8 in
    let r := (flag_index - 1) mod 8 in
    if negb (Z.of_nat idx =? Z.of_nat (length flags) - 1)%Z then Raise E_VALUE
    else match nth_error flags idx with
    | None => Raise E_INDEX
    | Some b =>
      if (N.shiftl 1 (N.of_nat r + 1) - 1 <? b2n b)%N then Raise E_VALUE
      else if negb (bytes_eqb left_hash root) then Raise E_VALUE
      else Ret tx_acc
    end
  end.

Definition post_unpack_v (h n : nat) (hashes : list bytes) (flags root : bytes) : outcome (list bytes) :=
  do r <- vrec H h n hashes flags 0 []; final_checks flags root r.

Lemma heightN_of_nat h n : tree_height h n -> heightN h (N.of_nat n).
Proof.
  intros [A B]. unfold heightN. split.
  - change 2%N with (N.of_nat 2). rewrite <- Nat2N.inj_pow. lia.
  - destruct B as [->|B]; [now left|right].
    change 2%N with (N.of_nat 2). rewrite <- Nat2N.inj_pow. lia.
Qed.

Lemma post_unpack_pos n hashes flags root : 0 < n ->
  post_unpack H (N.of_nat n) hashes flags root = post_unpack_v (Nat.log2_up n) n hashes flags root.
Proof.
  intros Hn. set (h := Nat.log2_up n).
  pose proof (tree_height_log2_up n Hn) as Th. fold h in Th.
  unfold post_unpack, post_unpack_v.
  rewrite (level_widths_spec (N.of_nat n) h) by (try apply heightN_of_nat; try assumption; lia).
  cbn [bind]. rewrite widths_spec_length.
  pose proof (recurse_vrec H n h h 0 (S h) hashes flags 0 [] (le_n _) ltac:(lia) ltac:(lia)) as E.
  rewrite Nat.sub_diag in E. change (N.of_nat 0) with 0%N in E. rewrite E.
  replace (Nat.min (2 ^ h) (n - 0 * 2 ^ h)) with n by (destruct Th; lia).
  destruct (vrec H h n hashes flags 0 []) as [[[[lh fi] rest] acc]| |]; reflexivity.
Qed.

(* total_transactions = 0 is treated exactly like 1 (the `while count > 1` loop does not run) *)
Lemma post_unpack_zero hashes flags root :
  post_unpack H 0 hashes flags root = post_unpack H 1 hashes flags root.
Proof. reflexivity. Qed.

Definition leaves_of_total (total : N) : nat := Nat.max 1 (N.to_nat total).

Theorem post_unpack_is_vrec total hashes flags root :
  post_unpack H total hashes flags root =
  post_unpack_v (Nat.log2_up (leaves_of_total total)) (leaves_of_total total) hashes flags root.
Proof.
  unfold leaves_of_total. destruct (N.eq_dec total 0) as [->|Hz].
  - rewrite post_unpack_zero. apply (post_unpack_pos 1). lia.
  - replace (Nat.max 1 (N.to_nat total)) with (N.to_nat total) by lia.
    rewrite <- post_unpack_pos by lia. now rewrite N2Nat.id.
Qed.

(* never out of fuel: the depth given by post_unpack is enough for every input *)
Lemma vrec_total h : forall cnt hs flags fi acc, vrec H h cnt hs flags fi acc <> OutOfFuel.
Proof.
  induction h as [|h IH]; intros cnt hs flags fi acc; cbn [vrec]; rewrite flag_is_zero_bit;
    destruct (bit flags fi) as [[|]|]; cbn [bind negb]; try discriminate; try (destruct hs; discriminate).
  destruct (vrec H h _ hs flags (S fi) acc) as [[[[lh fi1] hs1] acc1]| |] eqn:E1; cbn [bind]; try discriminate.
  - destruct (2 ^ h <? cnt); [|discriminate].
    destruct (vrec H h _ hs1 flags fi1 acc1) as [[[[rh fi2] hs2] acc2]| |] eqn:E2; cbn [bind]; try discriminate.
    + destruct (bytes_eqb lh rh); discriminate.
    + now apply IH in E2.
  - now apply IH in E1.
Qed.

Theorem post_unpack_total total hashes flags root : post_unpack H total hashes flags root <> OutOfFuel.
Proof.
  rewrite post_unpack_is_vrec. unfold post_unpack_v.
  destruct (vrec H _ _ hashes flags 0 []) as [[[[lh fi] rest] acc]| |] eqn:E; cbn [bind].
  - unfold final_checks. destruct rest; [|discriminate].
    destruct (negb _); [discriminate|]. destruct (nth_error _ _); [|discriminate].
    destruct (_ <? _)%N; [discriminate|]. destruct (negb _); discriminate.
  - discriminate.
  - now apply vrec_total in E.
Qed.
End Verifier2.

(* ---- helper facts about matched / any / bits ------------------------------------------------------- *)
Lemma matched_nil_r l : matched l [] = [].
Proof. unfold matched. destruct l; reflexivity. Qed.

Lemma matched_cons x l b m : matched (x :: l) (b :: m) = (if b then [x] else []) ++ matched l m.
Proof. unfold matched. cbn [combine filter snd]. destruct b; reflexivity. Qed.

Lemma matched_split k : forall l m,
  matched l m = matched (firstn k l) (firstn k m) ++ matched (skipn k l) (skipn k m).
Proof.
  induction k as [|k IH]; intros l m; [reflexivity|].
  destruct l as [|x l]; [reflexivity|]. destruct m as [|b m].
  - cbn [firstn skipn]. now rewrite !matched_nil_r.
  - cbn [firstn skipn]. rewrite !matched_cons, <- app_assoc. f_equal. apply IH.
Qed.

Lemma any_false_matched : forall l m, any m = false -> matched l m = [].
Proof.
  induction l as [|x l IH]; intros m Hm; [reflexivity|]. destruct m as [|b m]; [reflexivity|].
  unfold any in Hm. cbn [existsb] in Hm. apply orb_false_iff in Hm. destruct Hm as [-> Hm].
  rewrite matched_cons. cbn [app]. now apply IH.
Qed.

Definition bits_at (flags : bytes) (fi : nat) (bits : list bool) : Prop :=
  forall k, k < length bits -> bit flags (fi + k) = Some (nth k bits false).

Lemma bits_at_cons flags fi b bs : bits_at flags fi (b :: bs) -> bit flags fi = Some b /\ bits_at flags (S fi) bs.
Proof.
  intros Hb. split.
  - specialize (Hb 0 ltac:(cbn; lia)). now rewrite Nat.add_0_r in Hb.
  - intros k Hk. specialize (Hb (S k) ltac:(cbn; lia)). now rewrite Nat.add_succ_r in Hb.
Qed.

Lemma bits_at_app flags fi b1 b2 : bits_at flags fi (b1 ++ b2) ->
  bits_at flags fi b1 /\ bits_at flags (fi + length b1) b2.
Proof.
  intros Hb. split.
  - intros k Hk. rewrite (Hb k) by (rewrite app_length; lia). now rewrite app_nth1.
  - intros k Hk. rewrite <- Nat.add_assoc. rewrite (Hb (length b1 + k)) by (rewrite app_length; lia).
    rewrite app_nth2 by lia. f_equal. f_equal. lia.
Qed.

Section Honest.
Variable H : bytes -> bytes.

Lemma pow2_pos h : 0 < 2 ^ h.
Proof. apply Nat.neq_0_lt_0, Nat.pow_nonzero. lia. Qed.

Lemma vrec_honest h : forall l m flags fi rest acc,
  l <> [] -> length l <= 2 ^ h -> length m = length l -> bits_at flags fi (build_bits h l m) ->
  vrec H h (length l) (build_hashes H h l m ++ rest) flags fi acc =
  if trav_collision H h l m then Raise E_VALUE
  else Ret (sub H h l, fi + length (build_bits h l m), rest, acc ++ matched l m).
Proof.
  induction h as [|h IH]; intros l m flags fi rest acc Hne Hlen Hm Hb.
  - destruct l as [|x [|y l]]; [congruence| |cbn in Hlen; lia].
    destruct m as [|b [|c m]]; try discriminate.
    cbn [build_bits build_hashes trav_collision sub hd vrec app length] in *.
    apply bits_at_cons in Hb. destruct Hb as [Hb _]. rewrite flag_is_zero_bit, Hb.
    unfold any. cbn [existsb bind]. rewrite orb_false_r.
    rewrite matched_cons, matched_nil_r, app_nil_r, Nat.add_1_r. destruct b; cbn [negb]; [reflexivity|].
    now rewrite app_nil_r.
  - cbn [build_bits build_hashes trav_collision vrec] in *.
    destruct (any m) eqn:Ea.
    + (* a match below: descend *)
      set (p := 2 ^ h) in *. pose proof (pow2_pos h) as Hp. fold p in Hp.
      assert (P2 : 2 ^ S h = 2 * p) by (cbn; unfold p; lia).
      apply bits_at_cons in Hb. destruct Hb as [Hb0 Hb]. rewrite flag_is_zero_bit, Hb0. cbn [bind negb andb].
      apply bits_at_app in Hb. destruct Hb as [HbL HbR].
      set (L := firstn p l) in *. set (mL := firstn p m) in *.
      assert (HL : L <> []) by (unfold L; destruct l; [congruence | destruct p; [lia | discriminate]]).
      assert (HLlen : length L = Nat.min (length l) p) by (unfold L; rewrite firstn_length; lia).
      rewrite <- HLlen. rewrite <- app_assoc.
      rewrite (IH L mL flags (S fi) _ acc HL ltac:(lia) ltac:(unfold L, mL; rewrite !firstn_length; lia) HbL).
      destruct (trav_collision H h L mL); [reflexivity|]. cbn [bind orb].
      pose proof (skipn_length p l) as Hsk.
      assert (Esub : sub H (S h) l =
                H (sub H h L ++ match skipn p l with [] => sub H h L | r0 => sub H h r0 end)) by reflexivity.
      rewrite Esub. rewrite (matched_split p l m). fold L mL.
      destruct (skipn p l) as [|a r] eqn:ER.
      * cbn [length] in Hsk. replace (p <? length l) with false by lia.
        cbn [app length]. rewrite app_nil_r.
        assert (E0 : forall x, matched [] x = []) by reflexivity. rewrite E0, app_nil_r.
        now rewrite Nat.add_succ_r.
      * set (R := a :: r) in *. set (mR := skipn p m) in *.
        assert (HR : 0 < length R) by (unfold R; cbn; lia).
        replace (p <? length l) with true by lia.
        replace (length l - p) with (length R) by lia.
        rewrite (IH R mR flags _ rest _ ltac:(discriminate) ltac:(lia)
                    ltac:(unfold mR; rewrite skipn_length; lia) HbR).
        destruct (trav_collision H h R mR); [reflexivity|]. cbn [bind orb].
        destruct (bytes_eqb (sub H h L) (sub H h R)); [reflexivity|].
        rewrite <- app_assoc. cbn [length]. rewrite app_length.
        now rewrite Nat.add_succ_r, Nat.add_assoc.
    + (* no match below: one 0 bit, one hash *)
      apply bits_at_cons in Hb. destruct Hb as [Hb0 _]. rewrite flag_is_zero_bit, Hb0. cbn [bind negb andb app length].
      rewrite any_false_matched by exact Ea. now rewrite app_nil_r, Nat.add_1_r.
Qed.
End Honest.

(* ---- bit packing ------------------------------------------------------------------------------------ *)
Lemma bits_value_lt bs : (bits_value bs < 2 ^ N.of_nat (length bs))%N.
Proof.
  induction bs as [|b r IH]; cbn [bits_value length]; [cbn; lia|].
  rewrite Nat2N.inj_succ, N.pow_succ_r'. destruct b; cbn [N.b2n]; lia.
Qed.

Lemma testbit_bits_value bs : forall i, N.testbit (bits_value bs) (N.of_nat i) = nth i bs false.
Proof.
  induction bs as [|b r IH]; intros i; cbn [bits_value].
  - rewrite N.bits_0. destruct i; reflexivity.
  - destruct i as [|i].
    + cbn [nth]. change (N.of_nat 0) with 0%N. apply N.testbit_0_r.
    + cbn [nth]. rewrite Nat2N.inj_succ. rewrite N.testbit_succ_r. apply IH.
Qed.

Lemma pack_bits_length bits : length (pack_bits bits) = (length bits + 7) / 8.
Proof. unfold pack_bits. now rewrite map_length, seq_length. Qed.

Lemma pack_bits_nth bits j : j < (length bits + 7) / 8 ->
  nth_error (pack_bits bits) j = Some (n2b (bits_value (firstn 8 (skipn (8 * j) bits)))).
Proof.
  intros Hj. unfold pack_bits.
  rewrite nth_error_map. rewrite nth_error_nth' with (d := 0) by (rewrite seq_length; lia).
  rewrite seq_nth by lia. reflexivity.
Qed.

Lemma chunk_value_lt (bs : list bool) : (bits_value (firstn 8 bs) < 256)%N.
Proof.
  pose proof (bits_value_lt (firstn 8 bs)) as Hb.
  assert (Hl : length (firstn 8 bs) <= 8) by (rewrite firstn_length; lia).
  assert ((2 ^ N.of_nat (length (firstn 8 bs)) <= 2 ^ 8)%N) by (apply N.pow_le_mono_r; lia).
  change (2 ^ 8)%N with 256%N in *. lia.
Qed.

Lemma nth_firstn_skipn {A} (d : A) (l : list A) a w i : i < w -> nth i (firstn w (skipn a l)) d = nth (a + i) l d.
Proof.
  intros Hi. revert l. induction a as [|a IH]; intros l.
  - cbn [skipn plus]. revert i Hi l. induction w as [|w IHw]; intros i Hi l; [lia|].
    destruct l; [destruct i; reflexivity|]. destruct i; [reflexivity|]. cbn [firstn nth]. apply IHw. lia.
  - destruct l; [cbn [skipn]; rewrite firstn_nil; destruct i; reflexivity | cbn [skipn plus nth]; apply IH].
Qed.

Lemma bit_pack bits k : k < 8 * ((length bits + 7) / 8) -> bit (pack_bits bits) k = Some (nth k bits false).
Proof.
  intros Hk. unfold bit. rewrite pack_bits_nth by lia.
  rewrite b2n_n2b by apply chunk_value_lt.
  rewrite testbit_bits_value. rewrite nth_firstn_skipn by lia. do 2 f_equal. lia.
Qed.

Lemma bits_at_pack bits : bits_at (pack_bits bits) 0 bits.
Proof. intros k Hk. cbn [plus]. apply bit_pack. lia. Qed.

Lemma shiftl1 n : N.shiftl 1 n = (2 ^ n)%N.
Proof. apply N.shiftl_1_l. Qed.

Section HonestTop.
Variable H : bytes -> bytes.

Lemma final_checks_pack bits v acc : 0 < length bits ->
  final_checks (pack_bits bits) v (v, length bits, [], acc) = Ret acc.
Proof.
  intros Hn. unfold final_checks. rewrite pack_bits_length.
  replace (Z.of_nat ((length bits - 1) / 8) =? Z.of_nat ((length bits + 7) / 8) - 1)%Z with true by lia.
  cbn [negb]. rewrite pack_bits_nth by lia.
  rewrite b2n_n2b by apply chunk_value_lt.
  set (idx := (length bits - 1) / 8). set (r := (length bits - 1) mod 8).
  pose proof (bits_value_lt (firstn 8 (skipn (8 * idx) bits))) as Hb.
  assert (Hl : length (firstn 8 (skipn (8 * idx) bits)) = r + 1).
  { rewrite firstn_length, skipn_length. unfold idx, r. lia. }
  rewrite Hl in Hb. rewrite shiftl1. replace (N.of_nat r + 1)%N with (N.of_nat (r + 1)) by lia.
  replace (2 ^ N.of_nat (r + 1) - 1 <? bits_value (firstn 8 (skipn (8 * idx) bits)))%N with false by lia.
  now rewrite bytes_eqb_refl.
Qed.

Lemma build_bits_nonempty h l m : 0 < length (build_bits h l m).
Proof. destruct h; cbn [build_bits]; [cbn; lia|]. destruct (any m); cbn [length]; lia. Qed.

(* exact behaviour of the verifier on an honest BIP37 proof *)
Theorem honest_proof_exact (txids : list bytes) (matches : list bool) :
  txids <> [] -> length matches = length txids ->
  let h := Nat.log2_up (length txids) in
  post_unpack H (N.of_nat (length txids)) (build_hashes H h txids matches)
              (pack_bits (build_bits h txids matches)) (sub H h txids) =
  if trav_collision H h txids matches then Raise E_VALUE else Ret (matched txids matches).
Proof.
  intros Hne Hm h.
  assert (Hn : 0 < length txids) by (destruct txids; [congruence | cbn; lia]).
  rewrite post_unpack_pos by exact Hn. fold h. unfold post_unpack_v.
  pose proof (tree_height_log2_up _ Hn) as [Hle _]. fold h in Hle.
  pose proof (vrec_honest H h txids matches (pack_bits (build_bits h txids matches)) 0 [] [] Hne Hle Hm
                (bits_at_pack _)) as E.
  rewrite app_nil_r in E. rewrite E.
  destruct (trav_collision H h txids matches); [reflexivity|]. cbn [bind plus app].
  apply final_checks_pack. apply build_bits_nonempty.
Qed.

Lemma trav_collision_sibling h : forall l m, trav_collision H h l m = true -> sibling_collision H h l.
Proof.
  induction h as [|h IH]; intros l m; cbn [trav_collision sibling_collision]; [discriminate|].
  intros E. apply andb_true_iff in E. destruct E as [_ E]. apply orb_true_iff in E. destruct E as [E|E].
  - left. eapply IH; exact E.
  - right. destruct (skipn (2 ^ h) l) as [|a r]; [discriminate|].
    apply orb_true_iff in E. destruct E as [E|E]; [left; eapply IH; exact E | right; now apply bytes_eqb_eq].
Qed.

Theorem honest_proof_accepted (txids : list bytes) (matches : list bool) (root : bytes) :
  txids <> [] -> length matches = length txids -> merkle H txids = Ret root ->
  let '(total, hashes, flags) := partial_merkle_tree H txids matches in
  post_unpack H total hashes flags root = Ret (matched txids matches) \/
  sibling_collision H (Nat.log2_up (length txids)) txids.
Proof.
  intros Hne Hm Hr. rewrite merkle_is_spec in Hr by exact Hne. injection Hr as <-.
  unfold partial_merkle_tree, merkle_root. rewrite honest_proof_exact by assumption.
  destruct (trav_collision _ _ _ _) eqn:E; [right; eapply trav_collision_sibling; exact E | now left].
Qed.
End HonestTop.

(* ---- structure of a successful traversal ------------------------------------------------------------- *)
Section Rejections.
Variable H : bytes -> bytes.
Notation vres := (bytes * nat * list bytes * list bytes)%type.

Lemma vrec_inv h : forall cnt hs flags fi acc v fi' rest acc',
  vrec H h cnt hs flags fi acc = Ret (v, fi', rest, acc') ->
  exists u a, hs = u ++ rest /\ acc' = acc ++ a /\ fi < fi' /\
    (forall k, fi <= k < fi' -> bit flags k <> None) /\
    forall rest2 acc2 flags2, (forall k, fi <= k < fi' -> bit flags2 k = bit flags k) ->
      vrec H h cnt (u ++ rest2) flags2 fi acc2 = Ret (v, fi', rest2, acc2 ++ a).
Proof.
  induction h as [|h IH]; intros cnt hs flags fi acc v fi' rest acc' E; cbn [vrec] in E;
    rewrite flag_is_zero_bit in E; destruct (bit flags fi) as [[|]|] eqn:Eb; cbn [bind negb] in E; try discriminate.
  - (* leaf below a 1 bit *)
    destruct hs as [|x hs]; [discriminate|]. injection E as <- <- <- <-.
    exists [x], [x]. repeat split; try reflexivity; try lia.
    + intros k Hk. assert (k = fi) by lia. subst k. congruence.
    + intros rest2 acc2 flags2 Hf. cbn [vrec]. rewrite flag_is_zero_bit, (Hf fi) by lia. rewrite Eb. reflexivity.
  - (* 0 bit *)
    destruct hs as [|x hs]; [discriminate|]. injection E as <- <- <- <-.
    exists [x], []. repeat split; try (now rewrite app_nil_r); try lia.
    + intros k Hk. assert (k = fi) by lia. subst k. congruence.
    + intros rest2 acc2 flags2 Hf. cbn [vrec]. rewrite flag_is_zero_bit, (Hf fi) by lia. rewrite Eb.
      cbn [bind negb app]. now rewrite app_nil_r.
  - (* inner node below a 1 bit *)
    destruct (vrec H h (Nat.min cnt (2 ^ h)) hs flags (S fi) acc) as [[[[lh fi1] hs1] acc1]| |] eqn:E1;
      cbn [bind] in E; try discriminate.
    apply IH in E1. destruct E1 as (u1 & a1 & -> & -> & Hfi1 & Hd1 & U1).
    destruct (2 ^ h <? cnt) eqn:Et.
    + destruct (vrec H h (cnt - 2 ^ h) hs1 flags fi1 (acc ++ a1)) as [[[[rh fi2] hs2] acc2]| |] eqn:E2;
        cbn [bind] in E; try discriminate.
      destruct (bytes_eqb lh rh) eqn:Eq; [discriminate|]. injection E as <- <- <- <-.
      apply IH in E2. destruct E2 as (u2 & a2 & -> & -> & Hfi2 & Hd2 & U2).
      exists (u1 ++ u2), (a1 ++ a2). repeat split; try (now rewrite app_assoc); try lia.
      * intros k Hk. destruct (Nat.eq_dec k fi) as [->|]; [congruence|].
        destruct (Nat.lt_ge_cases k fi1); [apply Hd1 | apply Hd2]; lia.
      * intros rest2 acc0 flags2 Hf. cbn [vrec]. rewrite flag_is_zero_bit, (Hf fi) by lia. rewrite Eb.
        cbn [bind negb]. rewrite <- app_assoc.
        rewrite U1 by (intros k Hk; apply Hf; lia). cbn [bind]. rewrite Et.
        rewrite U2 by (intros k Hk; apply Hf; lia). cbn [bind]. rewrite Eq. now rewrite app_assoc.
    + injection E as <- <- <- <-.
      exists u1, a1. repeat split; try reflexivity; try lia.
      * intros k Hk. destruct (Nat.eq_dec k fi) as [->|]; [congruence|]. apply Hd1. lia.
      * intros rest2 acc0 flags2 Hf. cbn [vrec]. rewrite flag_is_zero_bit, (Hf fi) by lia. rewrite Eb.
        cbn [bind negb]. rewrite U1 by (intros k Hk; apply Hf; lia). cbn [bind]. now rewrite Et.
  - (* 0 bit at an inner node *)
    destruct hs as [|x hs]; [discriminate|]. injection E as <- <- <- <-.
    exists [x], []. repeat split; try (now rewrite app_nil_r); try lia.
    + intros k Hk. assert (k = fi) by lia. subst k. congruence.
    + intros rest2 acc2 flags2 Hf. cbn [vrec]. rewrite flag_is_zero_bit, (Hf fi) by lia. rewrite Eb.
      cbn [bind negb app]. now rewrite app_nil_r.
Qed.

(* the number of hashes and flag bits consumed depends on the flags only *)
Lemma vrec_shape h : forall cnt flags fi hs acc v fi' rest acc' hs2 acc2 v2 fi2 rest2 acc2',
  vrec H h cnt hs flags fi acc = Ret (v, fi', rest, acc') ->
  vrec H h cnt hs2 flags fi acc2 = Ret (v2, fi2, rest2, acc2') ->
  fi2 = fi' /\ exists c, length hs = c + length rest /\ length hs2 = c + length rest2.
Proof.
  induction h as [|h IH]; intros cnt flags fi hs acc v fi' rest acc' hs2 acc2 v2 fi2 rest2 acc2' E E';
    cbn [vrec] in E, E'; rewrite flag_is_zero_bit in E, E';
    destruct (bit flags fi) as [[|]|] eqn:Eb; cbn [bind negb] in E, E'; try discriminate.
  - destruct hs as [|x hs]; [discriminate|]. destruct hs2 as [|x2 hs2]; [discriminate|].
    injection E as <- <- <- <-. injection E' as <- <- <- <-. split; [reflexivity|]. exists 1. cbn [length]. lia.
  - destruct hs as [|x hs]; [discriminate|]. destruct hs2 as [|x2 hs2]; [discriminate|].
    injection E as <- <- <- <-. injection E' as <- <- <- <-. split; [reflexivity|]. exists 1. cbn [length]. lia.
  - destruct (vrec H h (Nat.min cnt (2 ^ h)) hs flags (S fi) acc) as [[[[lh fi1] hs1] acc1]| |] eqn:E1;
      cbn [bind] in E; try discriminate.
    destruct (vrec H h (Nat.min cnt (2 ^ h)) hs2 flags (S fi) acc2) as [[[[lh' fi1'] hs1'] acc1']| |] eqn:E1';
      cbn [bind] in E'; try discriminate.
    destruct (IH _ _ _ _ _ _ _ _ _ _ _ _ _ _ _ E1 E1') as (-> & c1 & L1 & L1').
    destruct (2 ^ h <? cnt).
    + destruct (vrec H h (cnt - 2 ^ h) hs1 flags fi1 acc1) as [[[[rh fi2a] hs2a] acc2a]| |] eqn:E2;
        cbn [bind] in E; try discriminate.
      destruct (vrec H h (cnt - 2 ^ h) hs1' flags fi1 acc1') as [[[[rh' fi2b] hs2b] acc2b]| |] eqn:E2';
        cbn [bind] in E'; try discriminate.
      destruct (IH _ _ _ _ _ _ _ _ _ _ _ _ _ _ _ E2 E2') as (-> & c2 & L2 & L2').
      destruct (bytes_eqb lh rh); [discriminate|]. destruct (bytes_eqb lh' rh'); [discriminate|].
      injection E as <- <- <- <-. injection E' as <- <- <- <-. split; [reflexivity|]. exists (c1 + c2). lia.
    + injection E as <- <- <- <-. injection E' as <- <- <- <-. split; [reflexivity|]. exists c1. lia.
  - destruct hs as [|x hs]; [discriminate|]. destruct hs2 as [|x2 hs2]; [discriminate|].
    injection E as <- <- <- <-. injection E' as <- <- <- <-. split; [reflexivity|]. exists 1. cbn [length]. lia.
Qed.
End Rejections.

(* ---- bytes are determined by their bits ----------------------------------------------------------------- *)
Lemma testbit_small b m j : (b < 2 ^ m)%N -> (m <= j)%N -> N.testbit b j = false.
Proof.
  intros Hb Hj. destruct (N.eq_dec b 0) as [->|Hz]; [apply N.bits_0|].
  apply N.bits_above_log2. apply N.log2_lt_pow2 in Hb; lia.
Qed.

Lemma byte_ext (b1 b2 : byte) :
  (forall i, i < 8 -> N.testbit (b2n b1) (N.of_nat i) = N.testbit (b2n b2) (N.of_nat i)) -> b1 = b2.
Proof.
  intros Hi. apply b2n_inj. apply N.bits_inj. intros j.
  destruct (N.lt_ge_cases j 8) as [Hlt|Hge].
  - specialize (Hi (N.to_nat j) ltac:(lia)). now rewrite N2Nat.id in Hi.
  - pose proof (b2n_lt b1). pose proof (b2n_lt b2).
    rewrite !(testbit_small _ 8 j) by (try (change (2 ^ 8)%N with 256%N); lia). reflexivity.
Qed.

Lemma bytes_ext : forall f1 f2 : bytes, length f1 = length f2 ->
  (forall k, k < 8 * length f1 -> bit f1 k = bit f2 k) -> f1 = f2.
Proof.
  induction f1 as [|b1 f1 IH]; intros [|b2 f2] Hl Hk; try discriminate; [reflexivity|].
  f_equal.
  - apply byte_ext. intros i Hi. specialize (Hk i ltac:(cbn [length]; lia)).
    unfold bit in Hk. rewrite Nat.div_small in Hk by lia. cbn [nth_error] in Hk.
    rewrite Nat.mod_small in Hk by lia. congruence.
  - apply IH; [cbn in Hl; lia|]. intros k Hk'.
    specialize (Hk (8 + k) ltac:(cbn [length]; lia)). unfold bit in *.
    replace ((8 + k) / 8) with (S (k / 8)) in Hk by lia.
    replace ((8 + k) mod 8) with (k mod 8) in Hk by lia. exact Hk.
Qed.

Lemma bit_app_l flags extra k : bit flags k <> None -> bit (flags ++ extra) k = bit flags k.
Proof.
  unfold bit. destruct (nth_error flags (k / 8)) eqn:E; [|congruence]. intros _.
  rewrite nth_error_app1; [now rewrite E|]. apply nth_error_Some. congruence.
Qed.

Section RejectionsTop.
Variable H : bytes -> bytes.

Lemma accepted_inv h n hs flags root acc : post_unpack_v H h n hs flags root = Ret acc ->
  exists fi b, vrec H h n hs flags 0 [] = Ret (root, fi, [], acc) /\
    (Z.of_nat ((fi - 1) / 8) = Z.of_nat (length flags) - 1)%Z /\
    nth_error flags ((fi - 1) / 8) = Some b /\
    (b2n b < 2 ^ (N.of_nat ((fi - 1) mod 8) + 1))%N.
Proof.
  unfold post_unpack_v. intros E. apply bind_ret_inv in E. destruct E as ([[[v fi] rest] acc0] & E1 & E).
  unfold final_checks in E. destruct rest; [|discriminate].
  destruct (Z.of_nat ((fi - 1) / 8) =? Z.of_nat (length flags) - 1)%Z eqn:Ei; cbn [negb] in E; [|discriminate].
  destruct (nth_error flags ((fi - 1) / 8)) as [b|] eqn:En; [|discriminate].
  rewrite shiftl1 in E.
  destruct (2 ^ (N.of_nat ((fi - 1) mod 8) + 1) - 1 <? b2n b)%N eqn:Ev; [discriminate|].
  destruct (bytes_eqb v root) eqn:Er; cbn [negb] in E; [|discriminate].
  apply bytes_eqb_eq in Er. subst v. injection E as <-.
  exists fi, b. repeat split; try assumption; try lia.
Qed.

(* extra hashes appended *)
Theorem reject_extra_hashes total hs flags root acc extra :
  post_unpack H total hs flags root = Ret acc -> extra <> [] ->
  post_unpack H total (hs ++ extra) flags root = Raise E_VALUE.
Proof.
  rewrite !post_unpack_is_vrec. intros E Hx. apply accepted_inv in E.
  destruct E as (fi & b & E1 & _). apply vrec_inv in E1.
  destruct E1 as (u & a & Hu & _ & _ & _ & U). rewrite app_nil_r in Hu. subst u.
  unfold post_unpack_v. rewrite (U extra [] flags) by reflexivity. cbn [bind final_checks].
  destruct extra; [congruence | reflexivity].
Qed.

(* any proof with the same flags and a different number of hashes (added or removed anywhere) *)
Theorem reject_hash_count total hs hs' flags root acc :
  post_unpack H total hs flags root = Ret acc -> length hs' <> length hs ->
  exists e, post_unpack H total hs' flags root = Raise e.
Proof.
  intros E Hl. pose proof (post_unpack_total H total hs' flags root) as Ht.
  rewrite post_unpack_is_vrec in E, Ht |- *. apply accepted_inv in E.
  destruct E as (fi & b & E1 & _). unfold post_unpack_v in *.
  destruct (vrec H _ _ hs' flags 0 []) as [[[[v2 fi2] rest2] acc2]|e|] eqn:E2; cbn [bind] in *.
  - destruct (vrec_shape H _ _ _ _ _ _ _ _ _ _ _ _ _ _ _ _ E1 E2) as (_ & c & L1 & L2).
    cbn [length] in L1. destruct rest2; [cbn [length] in L2; lia|]. exists E_VALUE. reflexivity.
  - exists e. reflexivity.
  - congruence.
Qed.

(* extra flag bytes appended *)
Theorem reject_extra_flag_bytes total hs flags root acc extra :
  post_unpack H total hs flags root = Ret acc -> extra <> [] ->
  post_unpack H total hs (flags ++ extra) root = Raise E_VALUE.
Proof.
  rewrite !post_unpack_is_vrec. intros E Hx. apply accepted_inv in E.
  destruct E as (fi & b & E1 & Hidx & _). apply vrec_inv in E1.
  destruct E1 as (u & a & Hu & _ & _ & Hd & U). rewrite app_nil_r in Hu. subst u.
  unfold post_unpack_v. specialize (U [] [] (flags ++ extra)). rewrite app_nil_r in U.
  rewrite U by (intros k Hk; apply bit_app_l, Hd; exact Hk). cbn [bind final_checks].
  rewrite app_length. destruct extra; [congruence|]. cbn [length].
  replace (Z.of_nat ((fi - 1) / 8) =? Z.of_nat (length flags + S (length extra)) - 1)%Z with false by lia.
  reflexivity.
Qed.

(* the flag bytes of an accepted proof are canonical: minimal length, padding bits zero; any other byte string
   carrying the same consumed bits is rejected (covers "set padding bits" and "unconsumed flag bytes") *)
Theorem flags_canonical total hs flags root acc :
  post_unpack H total hs flags root = Ret acc ->
  exists nb, 0 < nb /\ length flags = (nb + 7) / 8 /\
    (forall k, nb <= k < 8 * length flags -> bit flags k = Some false) /\
    forall flags', (forall k, k < nb -> bit flags' k = bit flags k) -> flags' <> flags ->
      post_unpack H total hs flags' root = Raise E_VALUE.
Proof.
  rewrite !post_unpack_is_vrec. intros E. apply accepted_inv in E.
  destruct E as (fi & b & E1 & Hidx & Hb & Hv). apply vrec_inv in E1.
  destruct E1 as (u & a & Hu & _ & Hfi & Hd & U). rewrite app_nil_r in Hu. subst u.
  assert (Pad : forall (f : bytes) c, (Z.of_nat ((fi - 1) / 8) = Z.of_nat (length f) - 1)%Z ->
            nth_error f ((fi - 1) / 8) = Some c -> (b2n c < 2 ^ (N.of_nat ((fi - 1) mod 8) + 1))%N ->
            forall k, fi <= k < 8 * length f -> bit f k = Some false).
  { intros f c Hi Hn Hc k Hk. unfold bit. replace (k / 8) with ((fi - 1) / 8) by lia. rewrite Hn. f_equal.
    eapply testbit_small; [exact Hc|]. lia. }
  exists fi. split; [lia|]. split; [lia|]. split; [exact (Pad flags b Hidx Hb Hv)|].
  intros flags' Hsame Hne. rewrite post_unpack_is_vrec.
  unfold post_unpack_v. specialize (U [] [] flags'). rewrite app_nil_r in U.
  rewrite U by (intros k Hk; apply Hsame; lia). cbn [bind final_checks].
  destruct (Z.of_nat ((fi - 1) / 8) =? Z.of_nat (length flags') - 1)%Z eqn:Ei; cbn [negb]; [|reflexivity].
  destruct (nth_error flags' ((fi - 1) / 8)) as [c|] eqn:En.
  2:{ apply nth_error_None in En. lia. }
  rewrite shiftl1.
  destruct (2 ^ (N.of_nat ((fi - 1) mod 8) + 1) - 1 <? b2n c)%N eqn:Ev; [reflexivity|].
  exfalso. apply Hne. apply bytes_ext; [lia|]. intros k Hk.
  destruct (Nat.lt_ge_cases k fi) as [Hlt|Hge]; [now apply Hsame|].
  assert ((0 < 2 ^ (N.of_nat ((fi - 1) mod 8) + 1))%N) by (apply N.neq_0_lt_0, N.pow_nonzero; lia).
  rewrite (Pad flags' c) by (try assumption; lia).
  rewrite (Pad flags b) by (try assumption; lia). reflexivity.
Qed.

(* root mismatch *)
Theorem reject_wrong_root total hs flags root root' acc :
  post_unpack H total hs flags root = Ret acc -> root' <> root ->
  post_unpack H total hs flags root' = Raise E_VALUE.
Proof.
  rewrite !post_unpack_is_vrec. intros E Hr. apply accepted_inv in E.
  destruct E as (fi & b & E1 & Hidx & Hb & Hv). unfold post_unpack_v. rewrite E1. cbn [bind final_checks].
  replace (Z.of_nat ((fi - 1) / 8) =? Z.of_nat (length flags) - 1)%Z with true by lia. cbn [negb].
  rewrite Hb, shiftl1.
  replace (2 ^ (N.of_nat ((fi - 1) mod 8) + 1) - 1 <? b2n b)%N with false by lia.
  destruct (bytes_eqb root root') eqn:Eq; [|reflexivity]. apply bytes_eqb_eq in Eq. congruence.
Qed.
End RejectionsTop.

(* ---- binding and soundness (need 32-byte hashes) --------------------------------------------------------- *)
Definition len32 (x : bytes) : Prop := length x = 32.

Lemma app_eq_len {A} : forall (a1 a2 b1 b2 : list A), length a1 = length a2 -> a1 ++ b1 = a2 ++ b2 -> a1 = a2 /\ b1 = b2.
Proof.
  induction a1 as [|x a1 IH]; intros [|y a2] b1 b2 Hl E; try discriminate; [now split|].
  cbn in E. injection E as -> E. cbn in Hl. destruct (IH a2 b1 b2 ltac:(lia) E) as [-> ->]. now split.
Qed.

Section Binding.
Variable H : bytes -> bytes.
Hypothesis Hlen : forall x, length (H x) = 32.

Lemma hash_inj_or_collision a b c d : length a = length c -> H (a ++ b) = H (c ++ d) ->
  (a = c /\ b = d) \/ hash_collision H.
Proof.
  intros Hl E. destruct (bytes_eqb (a ++ b) (c ++ d)) eqn:Eq.
  - apply bytes_eqb_eq in Eq. left. now apply app_eq_len.
  - right. exists (a ++ b), (c ++ d). split; [|exact E]. intros Heq. rewrite Heq, bytes_eqb_refl in Eq. discriminate.
Qed.

Lemma vrec_rest_len32 h cnt hs flags fi acc v fi' rest acc' :
  Forall len32 hs -> vrec H h cnt hs flags fi acc = Ret (v, fi', rest, acc') -> Forall len32 rest.
Proof.
  intros F E. apply vrec_inv in E. destruct E as (u & a & -> & _). apply Forall_app in F. tauto.
Qed.

Lemma vrec_binding h : forall cnt flags fi hs acc v fi' rest acc' hs2 acc2 v2 fi2 rest2 acc2',
  Forall len32 hs -> Forall len32 hs2 ->
  vrec H h cnt hs flags fi acc = Ret (v, fi', rest, acc') ->
  vrec H h cnt hs2 flags fi acc2 = Ret (v2, fi2, rest2, acc2') ->
  length v = 32 /\ length v2 = 32 /\ exists u u2, hs = u ++ rest /\ hs2 = u2 ++ rest2 /\ length u = length u2 /\
    (v = v2 -> u = u2 \/ hash_collision H).
Proof.
  induction h as [|h IH]; intros cnt flags fi hs acc v fi' rest acc' hs2 acc2 v2 fi2 rest2 acc2' F F2 E E';
    cbn [vrec] in E, E'; rewrite flag_is_zero_bit in E, E';
    destruct (bit flags fi) as [[|]|] eqn:Eb; cbn [bind negb] in E, E'; try discriminate.
  1,2,4: destruct hs as [|x hs]; [discriminate|]; destruct hs2 as [|x2 hs2]; [discriminate|];
    injection E as <- <- <- <-; injection E' as <- <- <- <-;
    inversion F; inversion F2; subst; repeat split; try assumption;
    exists [x], [x2]; repeat split; intros ->; now left.
  destruct (vrec H h (Nat.min cnt (2 ^ h)) hs flags (S fi) acc) as [[[[lh fi1] hs1] acc1]| |] eqn:E1;
    cbn [bind] in E; try discriminate.
  destruct (vrec H h (Nat.min cnt (2 ^ h)) hs2 flags (S fi) acc2) as [[[[lh' fi1'] hs1'] acc1']| |] eqn:E1';
    cbn [bind] in E'; try discriminate.
  pose proof (vrec_rest_len32 _ _ _ _ _ _ _ _ _ _ F E1) as F1.
  pose proof (vrec_rest_len32 _ _ _ _ _ _ _ _ _ _ F2 E1') as F1'.
  destruct (vrec_shape H _ _ _ _ _ _ _ _ _ _ _ _ _ _ _ _ E1 E1') as (-> & _).
  destruct (IH _ _ _ _ _ _ _ _ _ _ _ _ _ _ _ F F2 E1 E1') as (Ll & Ll' & u1 & u1' & -> & -> & Lu1 & B1).
  destruct (2 ^ h <? cnt).
  - destruct (vrec H h (cnt - 2 ^ h) hs1 flags fi1 acc1) as [[[[rh fi2a] hs2a] acc2a]| |] eqn:E2;
      cbn [bind] in E; try discriminate.
    destruct (vrec H h (cnt - 2 ^ h) hs1' flags fi1 acc1') as [[[[rh' fi2b] hs2b] acc2b]| |] eqn:E2';
      cbn [bind] in E'; try discriminate.
    destruct (IH _ _ _ _ _ _ _ _ _ _ _ _ _ _ _ F1 F1' E2 E2') as (Lr & Lr' & u2 & u2' & -> & -> & Lu2 & B2).
    destruct (bytes_eqb lh rh); [discriminate|]. destruct (bytes_eqb lh' rh'); [discriminate|].
    injection E as <- <- <- <-. injection E' as <- <- <- <-.
    split; [apply Hlen|]. split; [apply Hlen|].
    exists (u1 ++ u2), (u1' ++ u2'). rewrite <- !app_assoc, !app_length. repeat split; try lia.
    intros Ev. apply hash_inj_or_collision in Ev; [|lia]. destruct Ev as [[-> ->]|C]; [|now right].
    destruct (B1 eq_refl) as [->|C]; [|now right]. destruct (B2 eq_refl) as [->|C]; [|now right]. now left.
  - injection E as <- <- <- <-. injection E' as <- <- <- <-.
    split; [apply Hlen|]. split; [apply Hlen|].
    exists u1, u1'. repeat split; try lia.
    intros Ev. apply hash_inj_or_collision in Ev; [|lia]. destruct Ev as [[-> _]|C]; [|now right].
    exact (B1 eq_refl).
Qed.

(* two accepted proofs with the same flags, count and root carry the same hashes, or exhibit a collision *)
Theorem proof_binding total hs hs' flags root acc acc' :
  Forall len32 hs -> Forall len32 hs' ->
  post_unpack H total hs flags root = Ret acc -> post_unpack H total hs' flags root = Ret acc' ->
  hs = hs' \/ hash_collision H.
Proof.
  rewrite !post_unpack_is_vrec. intros F F' E E'.
  apply accepted_inv in E. destruct E as (fi & b & E1 & _).
  apply accepted_inv in E'. destruct E' as (fi' & b' & E1' & _).
  destruct (vrec_binding _ _ _ _ _ _ _ _ _ _ _ _ _ _ _ _ F F' E1 E1') as (_ & _ & u & u' & -> & -> & _ & B).
  rewrite !app_nil_r. exact (B eq_refl).
Qed.

(* altering any supplied hash (keeping 32-byte entries): rejected, or a collision of H is exhibited *)
Theorem reject_altered_hashes total hs hs' flags root acc :
  Forall len32 hs -> Forall len32 hs' ->
  post_unpack H total hs flags root = Ret acc -> hs' <> hs ->
  (exists e, post_unpack H total hs' flags root = Raise e) \/ hash_collision H.
Proof.
  intros F F' E Hne.
  destruct (post_unpack H total hs' flags root) as [acc'|e|] eqn:E'.
  - destruct (proof_binding _ _ _ _ _ _ _ F F' E E') as [->|C]; [congruence | now right].
  - left. now exists e.
  - now apply post_unpack_total in E'.
Qed.

(* ---- soundness: an accepted proof only proves transactions of the tree with that root ------------------- *)
Lemma sub_len32 h l : l <> [] -> Forall len32 l -> length (sub H h l) = 32.
Proof.
  intros Hne F. destruct h; [|apply Hlen]. destruct l; [congruence|]. inversion F. assumption.
Qed.

Lemma matched_all_false : forall l, matched l (repeat false (length l)) = [].
Proof. intros l. apply any_false_matched. induction (length l); [reflexivity | assumption]. Qed.

Lemma vrec_sound h : forall l hs flags fi acc v fi' rest acc',
  l <> [] -> length l <= 2 ^ h -> Forall len32 l -> Forall len32 hs ->
  vrec H h (length l) hs flags fi acc = Ret (v, fi', rest, acc') ->
  length v = 32 /\ exists a, acc' = acc ++ a /\
    (v = sub H h l -> (exists m, length m = length l /\ a = matched l m) \/ hash_collision H).
Proof.
  induction h as [|h IH]; intros l hs flags fi acc v fi' rest acc' Hne Hl Fl F E;
    cbn [vrec] in E; rewrite flag_is_zero_bit in E;
    destruct (bit flags fi) as [[|]|] eqn:Eb; cbn [bind negb] in E; try discriminate.
  - destruct hs as [|x hs]; [discriminate|]. injection E as <- <- <- <-.
    inversion F; subst. split; [assumption|]. exists [x]. split; [reflexivity|].
    destruct l as [|y [|z l]]; [congruence| |cbn in Hl; lia]. cbn [sub hd]. intros ->.
    left. exists [true]. split; reflexivity.
  - destruct hs as [|x hs]; [discriminate|]. injection E as <- <- <- <-.
    inversion F; subst. split; [assumption|]. exists []. split; [now rewrite app_nil_r|].
    intros _. left. exists (repeat false (length l)). split; [apply repeat_length | symmetry; apply matched_all_false].
  - set (p := 2 ^ h) in *. pose proof (pow2_pos h) as Hp. fold p in Hp.
    assert (P2 : 2 ^ S h = 2 * p) by (cbn; unfold p; lia).
    set (L := firstn p l) in *.
    assert (HL : L <> []) by (unfold L; destruct l; [congruence | destruct p; [lia | discriminate]]).
    assert (HLlen : length L = Nat.min (length l) p) by (unfold L; rewrite firstn_length; lia).
    assert (FL : Forall len32 L) by (unfold L; rewrite <- (firstn_skipn p l) in Fl; apply Forall_app in Fl; tauto).
    rewrite <- HLlen in E.
    destruct (vrec H h (length L) hs flags (S fi) acc) as [[[[lh fi1] hs1] acc1]| |] eqn:E1;
      cbn [bind] in E; try discriminate.
    pose proof (vrec_rest_len32 _ _ _ _ _ _ _ _ _ _ F E1) as F1.
    destruct (IH L _ _ _ _ _ _ _ _ HL ltac:(lia) FL F E1) as (Ll & a1 & -> & S1).
    assert (Esub : sub H (S h) l =
              H (sub H h L ++ match skipn p l with [] => sub H h L | r0 => sub H h r0 end)) by reflexivity.
    pose proof (skipn_length p l) as Hsk.
    destruct (skipn p l) as [|x r] eqn:ER.
    + cbn [length] in Hsk. replace (p <? length l) with false in E by lia.
      injection E as <- <- <- <-. split; [apply Hlen|]. exists a1. split; [reflexivity|].
      rewrite Esub. intros Ev. apply hash_inj_or_collision in Ev; [|rewrite sub_len32 by assumption; lia].
      destruct Ev as [[-> _]|C]; [|now right].
      destruct (S1 eq_refl) as [(m & Lm & ->)|C]; [|now right]. left.
      assert (El : L = l) by (unfold L; apply firstn_all2; lia). rewrite El in *.
      exists m. split; [exact Lm | reflexivity].
    + set (R := x :: r) in *.
      assert (HR : 0 < length R) by (unfold R; cbn; lia).
      assert (FR : Forall len32 R) by (rewrite <- (firstn_skipn p l), ER in Fl; apply Forall_app in Fl; tauto).
      replace (p <? length l) with true in E by lia.
      replace (length l - p) with (length R) in E by lia.
      destruct (vrec H h (length R) hs1 flags fi1 (acc ++ a1)) as [[[[rh fi2] hs2] acc2]| |] eqn:E2;
        cbn [bind] in E; try discriminate.
      destruct (IH R _ _ _ _ _ _ _ _ ltac:(discriminate) ltac:(lia) FR F1 E2) as (Lr & a2 & -> & S2).
      destruct (bytes_eqb lh rh); [discriminate|]. injection E as <- <- <- <-.
      split; [apply Hlen|]. exists (a1 ++ a2). split; [now rewrite app_assoc|].
      rewrite Esub. intros Ev. apply hash_inj_or_collision in Ev; [|rewrite sub_len32 by assumption; lia].
      destruct Ev as [[-> ->]|C]; [|now right].
      destruct (S1 eq_refl) as [(m1 & Lm1 & ->)|C]; [|now right].
      destruct (S2 eq_refl) as [(m2 & Lm2 & ->)|C]; [|now right]. left.
      exists (m1 ++ m2). split.
      * rewrite app_length. lia.
      * rewrite (matched_split p l (m1 ++ m2)). fold L. rewrite ER. fold R.
        assert (Lm1' : length m1 = p) by lia.
        replace (firstn p (m1 ++ m2)) with m1 by (rewrite <- Lm1'; now rewrite firstn_app_exact).
        replace (skipn p (m1 ++ m2)) with m2 by (rewrite <- Lm1'; now rewrite skipn_app_exact).
        reflexivity.
  - destruct hs as [|x hs]; [discriminate|]. injection E as <- <- <- <-.
    inversion F; subst. split; [assumption|]. exists []. split; [now rewrite app_nil_r|].
    intros _. left. exists (repeat false (length l)). split; [apply repeat_length | symmetry; apply matched_all_false].
Qed.

(* whatever the hashes and flags: if the proof is accepted against the merkle root of `txids`, the returned ids
   are a sub-sequence of txids (selected by some match vector), or a collision of H is exhibited *)
Theorem accepted_proof_sound (txids : list bytes) total hs flags root acc :
  txids <> [] -> Forall len32 txids -> Forall len32 hs -> total = N.of_nat (length txids) ->
  merkle H txids = Ret root -> post_unpack H total hs flags root = Ret acc ->
  (exists m, length m = length txids /\ acc = matched txids m) \/ hash_collision H.
Proof.
  intros Hne Ft Fh -> Hr E. rewrite merkle_is_spec in Hr by exact Hne. injection Hr as <-.
  assert (Hn : 0 < length txids) by (destruct txids; [congruence | cbn; lia]).
  rewrite post_unpack_pos in E by exact Hn. apply accepted_inv in E. destruct E as (fi & b & E1 & _).
  pose proof (tree_height_log2_up _ Hn) as [Hle _].
  destruct (vrec_sound _ _ _ _ _ _ _ _ _ _ Hne Hle Ft Fh E1) as (_ & a & Ea & S).
  cbn [app] in Ea. subst a. exact (S eq_refl).
Qed.
End Binding.

(* ---- the wire format of the merkleblock message --------------------------------------------------------- *)
Section Wire.
Variable H : bytes -> bytes.

Lemma chunks32_concat : forall (hs : list bytes) rest, Forall len32 hs ->
  chunks32 (length hs) (concat hs ++ rest) = (hs, rest).
Proof.
  induction hs as [|x hs IH]; intros rest F; [reflexivity|].
  inversion F as [|? ? Fx Fr]; subst. cbn [length chunks32 concat]. rewrite <- app_assoc.
  unfold len32 in Fx.
  replace (firstn 32 (x ++ concat hs ++ rest)) with x by (rewrite <- Fx; now rewrite firstn_app_exact).
  replace (skipn 32 (x ++ concat hs ++ rest)) with (concat hs ++ rest) by (rewrite <- Fx; now rewrite skipn_app_exact).
  now rewrite IH.
Qed.

Lemma concat_len32 (hs : list bytes) : Forall len32 hs -> length (concat hs) = 32 * length hs.
Proof.
  induction 1 as [|x hs Fx _ IH]; [reflexivity|]. cbn [concat length]. rewrite app_length, IH. unfold len32 in Fx. lia.
Qed.

(* BIP37 serialisation of (header, total, hashes, flag bytes) *)
Definition merkleblock_wire (h : header) (total : N) (hs : list bytes) (flags : bytes) : outcome bytes :=
  do c1 <- stream_varint (N.of_nat (length hs));
  do c2 <- stream_varint (N.of_nat (length flags));
  Ret (header_bytes h ++ le_encode 4 total ++ c1 ++ concat hs ++ c2 ++ flags).

Theorem parse_merkleblock_wire h total hs flags :
  wf_header h -> (total < 2 ^ 32)%N -> Forall len32 hs ->
  (N.of_nat (length hs) < 2 ^ 64)%N -> (N.of_nat (length flags) < 2 ^ 64)%N ->
  exists s, merkleblock_wire h total hs flags = Ret s /\
    forall trailing, parse_merkleblock H (s ++ trailing) = post_unpack H total hs flags (h_merkle_root h).
Proof.
  intros W Ht F L1 L2. unfold merkleblock_wire.
  destruct (varint_frame _ [] L1) as (c1 & C1 & _). destruct (varint_frame _ [] L2) as (c2 & C2 & _).
  rewrite C1, C2. cbn [bind]. eexists. split; [reflexivity|]. intros trailing.
  unfold parse_merkleblock. rewrite <- !app_assoc.
  destruct (header_stream_parse h W) as (q & Q1 & _ & Q3).
  rewrite stream_header_wf in Q1 by exact W. injection Q1 as <-. rewrite Q3. cbn [bind].
  rewrite read_le_frame by (rewrite pow256_4; exact Ht). cbn [bind].
  unfold parse_hash_array_then_more.
  destruct (varint_frame _ (concat hs ++ c2 ++ flags ++ trailing) L1) as (c1' & C1' & P1 & _).
  rewrite C1 in C1'. injection C1' as <-. rewrite P1. cbn [bind].
  rewrite app_length, concat_len32 by exact F.
  replace (N.of_nat (32 * length hs + length (c2 ++ flags ++ trailing)) <? 32 * N.of_nat (length hs))%N with false by lia.
  rewrite Nat2N.id, chunks32_concat by exact F. cbn [bind].
  unfold parse_byte_array.
  destruct (varint_frame _ (flags ++ trailing) L2) as (c2' & C2' & P2 & _).
  rewrite C2 in C2'. injection C2' as <-. rewrite P2. cbn [bind].
  rewrite app_length. replace (N.of_nat (length flags + length trailing) <? N.of_nat (length flags))%N with false by lia.
  rewrite Nat2N.id, read_app. reflexivity.
Qed.
End Wire.
