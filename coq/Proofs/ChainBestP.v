(* Proofs/ChainBestP.v — with the ChainFinder invariant, `_longest_local_block_chain` returns a maximum-weight
   chain from the anchor, whatever the iteration order of the set (preference list). *)
From Coq Require Import List NArith ZArith Bool Lia Arith.
From PV Require Import Base.Outcome Model.Chain Spec.ChainSpec Proofs.ChainP Proofs.ChainFinderP.
Import ListNotations.
Local Open Scope N_scope.

Lemma pchain_snoc p a c b : pchain p a c -> dget b p = Some (last c a) -> pchain p a (c ++ [b]).
Proof.
  induction 1; intros Hb.
  - cbn in *. constructor; [exact Hb|constructor].
  - cbn [app]. constructor; [exact H|]. apply IHpchain. rewrite last_cons_shift in Hb. exact Hb.
Qed.

Lemma pchain_known p a c : pchain p a c -> forall h, In h c -> kn p h.
Proof. induction 1; intros x []; [subst; unfold kn; congruence|auto]. Qed.

(* weights *)
Lemma chain_weight_app w a b : chain_weight w (a ++ b) = (chain_weight w a + chain_weight w b)%Z.
Proof. unfold chain_weight. induction a as [|x r IH]; cbn; [lia|]. cbn in IH. rewrite IH. lia. Qed.
Lemma chain_weight_single w a : chain_weight w [a] = weight_or_0 w a.
Proof. unfold chain_weight. cbn. lia. Qed.
Lemma chain_weight_cons w a r : chain_weight w (a :: r) = (weight_or_0 w a + chain_weight w r)%Z.
Proof. reflexivity. Qed.
Lemma chain_weight_rev w a : chain_weight w (rev a) = chain_weight w a.
Proof.
  induction a as [|x r IH]; [reflexivity|]. cbn [rev]. rewrite chain_weight_app, IH.
  rewrite chain_weight_single, chain_weight_cons. lia.
Qed.
Lemma chain_weight_nonneg w a : (forall h, 0 <= weight_or_0 w h)%Z -> (0 <= chain_weight w a)%Z.
Proof. intros H. induction a as [|x r IH]; cbn; [lia|]. specialize (H x). unfold chain_weight in IH. lia. Qed.
Lemma removelast_app_last {A} (l : list A) d : l <> [] -> l = removelast l ++ [last l d].
Proof. intros H. now apply app_removelast_last. Qed.

(* full paths are unique *)
Lemma ppath_det p P b l l' : ppath p P b l -> ppath p P b l' -> l = l'.
Proof.
  intros H. revert l'. induction H; intros l' H'; inversion H'; subst; try contradiction; [reflexivity|].
  rewrite H0 in H3. inversion H3; subst. f_equal. now apply IHppath.
Qed.

(* a full path ending at a, read backwards without its top, is a chain from a *)
Lemma ppath_pchain p P b l : ppath p P b l -> pchain p (last l 0) (rev (removelast l)) /\
  last (rev (removelast l)) (last l 0) = b.
Proof.
  induction 1.
  - cbn. split; [constructor|reflexivity].
  - pose proof (ppath_ne _ _ _ _ H1) as Hne. destruct IHppath as [IH1 IH2].
    rewrite last_cons_ne by exact Hne.
    destruct l as [|y r]; [congruence|]. change (removelast (b :: y :: r)) with (b :: removelast (y :: r)).
    cbn [rev]. split.
    + apply pchain_snoc; [exact IH1|]. rewrite IH2. exact H0.
    + rewrite last_app_ne by discriminate. reflexivity.
Qed.

(* a chain from an unknown anchor, read backwards, followed by the anchor is the full path of its last element *)
Lemma pchain_ppath_gen p : forall a c, pchain p a c -> forall tl, ppath p (kn p) a (a :: tl) ->
  ppath p (kn p) (last c a) (rev c ++ a :: tl).
Proof.
  induction 1; intros tl Ht.
  - exact Ht.
  - rewrite last_cons_shift. cbn [rev]. rewrite <- app_assoc. cbn [app]. apply IHpchain.
    econstructor; [unfold kn; congruence|exact H|exact Ht].
Qed.
Lemma pchain_ppath p a : ~ kn p a -> forall c, pchain p a c -> forall x, last c a = x -> ppath p (kn p) x (rev c ++ [a]).
Proof. intros Ha c H x <-. apply pchain_ppath_gen; [exact H|now constructor]. Qed.

(* ---- best_chain *)
Lemma best_chain_spec w : forall chains maxw longest,
  let r := best_chain w chains maxw longest in
  (r = longest /\ forall c, In c chains -> (chain_weight w c <= maxw)%Z) \/
  (In r chains /\ (maxw < chain_weight w r)%Z /\ forall c, In c chains -> (chain_weight w c <= chain_weight w r)%Z).
Proof.
  induction chains as [|c r IH]; intros maxw longest; cbn [best_chain].
  - left. split; [reflexivity|intros c []].
  - destruct (Z.gtb_spec (chain_weight w c) maxw) as [Hgt|Hle].
    + destruct (IH (chain_weight w c) c) as [[E Hall]|(Hin & Hlt & Hall)].
      * right. rewrite E. split; [now left|]. split; [lia|]. intros c' [<-|Hc']; [lia|auto].
      * right. split; [now right|]. split; [lia|]. intros c' [<-|Hc']; [lia|auto].
    + destruct (IH maxw longest) as [[E Hall]|(Hin & Hlt & Hall)].
      * left. split; [exact E|]. intros c' [<-|Hc']; [lia|auto].
      * right. split; [now right|]. split; [exact Hlt|]. intros c' [<-|Hc']; [lia|auto].
Qed.

Lemma iter_order_In pref s x : In x (iter_order pref s) <-> In x s.
Proof.
  unfold iter_order. rewrite in_app_iff, !filter_In. split.
  - intros [[_ H]|[H _]]; [now apply mem_In|exact H].
  - intros H. destruct (mem x pref) eqn:E.
    + left. split; [now apply mem_In|now apply mem_In].
    + right. split; [exact H|reflexivity].
Qed.
Lemma chains_of_spec t : forall bs, (forall b, In b bs -> dget b t <> None) ->
  exists cs, chains_of t bs = Ret cs /\ forall l, In l cs <-> exists b, In b bs /\ dget b t = Some l.
Proof.
  induction bs as [|b r IH]; intros Hall.
  - exists []. split; [reflexivity|]. intros l. split; [intros []|intros (b & [] & _)].
  - cbn. destruct (dget b t) as [l0|] eqn:E; [|exfalso; eapply Hall; [now left|exact E]].
    destruct IH as (cs & Hc & Hin); [intros b' Hb'; apply Hall; now right|].
    rewrite Hc. exists (l0 :: cs). split; [reflexivity|]. intros l. cbn. rewrite Hin. split.
    + intros [<-|(b' & Hb' & E')]; [exists b; auto|exists b'; auto].
    + intros (b' & [<-|Hb'] & E'); [left; congruence|right; eauto].
Qed.

Lemma all_chains_spec pref a cf : finder_ok cf ->
  exists cs, all_chains_ending_at pref a cf = Ret cs /\
    forall l, In l cs <-> exists b, dget b (tfb cf) = Some l /\ last l 0 = a.
Proof.
  intros (Ft & Fd & Fn & Fc & Fk). unfold all_chains_ending_at.
  destruct (dget a (dbt cf)) as [s|] eqn:Es.
  - destruct (chains_of_spec (tfb cf) (iter_order pref s)) as (cs & Hc & Hin).
    { intros b Hb. apply iter_order_In in Hb. assert (Hi : inset (dbt cf) a b) by (exists s; auto).
      apply Fd in Hi. destruct Hi as (l & E & _). congruence. }
    exists cs. split; [exact Hc|]. intros l. rewrite Hin. split.
    + intros (b & Hb & E). exists b. split; [exact E|]. apply iter_order_In in Hb.
      assert (Hi : inset (dbt cf) a b) by (exists s; auto). apply Fd in Hi. destruct Hi as (l' & E' & El). congruence.
    + intros (b & E & El). exists b. split; [|exact E]. apply iter_order_In.
      assert (Hi : inset (dbt cf) a b) by (apply Fd; eauto). destruct Hi as (s' & Es' & Hb). congruence.
  - exists []. split; [reflexivity|]. intros l. split; [intros []|]. intros (b & E & El).
    assert (Hi : inset (dbt cf) a b) by (apply Fd; eauto). destruct Hi as (s' & Es' & _). congruence.
Qed.


Theorem reported_heaviest pref a w cf :
  finder_ok cf -> ~ kn (pl cf) a ->
  (forall h, 0 <= weight_or_0 w h)%Z -> (forall h, kn (pl cf) h -> 0 < weight_or_0 w h)%Z ->
  exists c, reported pref a w cf c /\
    pchain (pl cf) a (rev c) /\
    (forall c', pchain (pl cf) a c' -> (chain_weight w c' <= chain_weight w (rev c))%Z) /\
    (c = [] \/ (dget (hd 0 c) (tfb cf) = Some (c ++ [a]))).
Proof.
  intros F Ha Hw0 Hwpos. pose proof F as (Ft & Fd & Fn & Fc & Fk).
  destruct (all_chains_spec pref a cf F) as (cs & Hcs & Hin).
  exists (removelast (best_chain w cs 0%Z [])). split; [exists cs; auto|].
  (* every chain from the anchor is covered by a stored tree ending at the anchor *)
  assert (Hcov : forall c', pchain (pl cf) a c' -> c' <> [] ->
            exists l, In l cs /\ (chain_weight w c' + weight_or_0 w a <= chain_weight w l)%Z).
  { intros c' Hc' Hne.
    pose proof (pchain_ppath _ _ Ha _ Hc' _ eq_refl) as Hp.
    set (x := last c' a) in *.
    assert (Kx : kn (pl cf) x).
    { apply (pchain_known _ _ _ Hc'). unfold x. rewrite (last_default c' a 0 Hne). now apply last_In. }
    destruct (Fc _ Kx) as (b & l & E & Hxl).
    destruct (Ft _ _ E) as [Kb Hpl].
    destruct (ppath_split _ _ _ _ Hpl _ Hxl) as (l1 & l2 & -> & Hp2).
    pose proof (ppath_det _ _ _ _ _ Hp Hp2) as El2.
    exists (l1 ++ x :: l2). split.
    - apply Hin. exists b. split; [exact E|]. rewrite <- El2. rewrite last_app_ne by (destruct (rev c'); discriminate).
      rewrite last_app_ne by discriminate. reflexivity.
    - rewrite <- El2. rewrite !chain_weight_app, chain_weight_rev.
      pose proof (chain_weight_nonneg w l1 Hw0). rewrite chain_weight_single. lia. }
  destruct (best_chain_spec w cs 0%Z []) as [[E Hall]|(Hr & Hlt & Hall)].
  - (* nothing heavier than 0: there is no chain at all *)
    rewrite E. cbn. split; [constructor|]. split; [|now left].
    intros c' Hc'. destruct c' as [|h r]; [cbn; lia|].
    destruct (Hcov _ Hc') as (l & Hl & Hwl); [discriminate|].
    apply Hall in Hl. exfalso.
    inversion Hc' as [|a0 h0 c0 Eh Hr0]; subst.
    assert (0 < weight_or_0 w h)%Z by (apply Hwpos; unfold kn; congruence).
    pose proof (chain_weight_nonneg w r Hw0). specialize (Hw0 a).
    rewrite chain_weight_cons in Hwl. lia.
  - set (r := best_chain w cs 0%Z []) in *.
    apply Hin in Hr. destruct Hr as (b & E & El).
    destruct (Ft _ _ E) as [Kb Hp].
    pose proof (ppath_ne _ _ _ _ Hp) as Hne.
    pose proof (ppath_pchain _ _ _ _ Hp) as [Hpc Hlast]. rewrite El in Hpc.
    assert (Er : r = removelast r ++ [a]) by (rewrite <- El; now apply removelast_app_last).
    assert (Wr : chain_weight w r = (chain_weight w (rev (removelast r)) + weight_or_0 w a)%Z).
    { rewrite Er at 1. rewrite chain_weight_app, chain_weight_rev, chain_weight_single. lia. }
    split; [exact Hpc|]. split.
    + intros c' Hc'. destruct c' as [|h t]; [cbn; apply chain_weight_nonneg; exact Hw0|].
      destruct (Hcov _ Hc') as (l & Hl & Hwl); [discriminate|]. apply Hall in Hl. lia.
    + right. destruct (ppath_hd _ _ _ _ Hp) as (t & Et).
      destruct (removelast r) as [|y q] eqn:Erl.
      * exfalso. rewrite Er in Et. cbn in Et. inversion Et; subst.
        apply Ha. exact Kb.
      * rewrite <- Er. rewrite Er in Et. cbn in Et. inversion Et; subst y. cbn. exact E.
Qed.
