(* Proofs/ScriptTextP.v — compile (disassemble s) = s for scripts made of known opcodes and minimal pushes (C12). *)
From Coq Require Import String.
From PV Require Import Base.Bytes Base.Outcome Gen.GenOpcodes Model.Push Model.ScriptText Proofs.PushP.
From Coq Require Import ZifyBool ZifyNat ZifyN.
Local Open Scope N_scope.

(* ---- get_opcode is local: it depends only on the bytes of the instruction it decodes ------------ *)
Lemma slice_app_le {A} a b (l r : list A) : (b <= length l)%nat -> slice a b (l ++ r) = slice a b l.
Proof.
  intros H. unfold slice. rewrite skipn_app, firstn_app, skipn_length.
  replace (b - a - (length l - a))%nat with 0%nat by lia. cbn [firstn]. apply app_nil_r.
Qed.

Lemma slice_shift {A} (pre l : list A) a b :
  slice (length pre + a) (length pre + b) (pre ++ l) = slice a b l.
Proof.
  unfold slice. replace (length pre + b - (length pre + a))%nat with (b - a)%nat by lia.
  rewrite skipn_app. replace (length pre + a - length pre)%nat with a by lia.
  rewrite (skipn_all2 pre) by lia. reflexivity.
Qed.

Definition shift_res (k : nat) (r : outcome (N * option bytes * nat * bool)) :=
  match r with
  | Ret (o, d, pc, ok) => Ret (o, d, (k + pc)%nat, ok)
  | Raise e => Raise e
  | OutOfFuel => OutOfFuel
  end.

Ltac fin := cbn [shift_res]; repeat (f_equal; try lia).

Lemma get_opcode_shift pre s pc m :
  btc_get_opcode (pre ++ s) (length pre + pc) m = shift_res (length pre) (btc_get_opcode s pc m).
Proof.
  unfold btc_get_opcode, get_opcode.
  rewrite nth_error_app2 by lia. replace (length pre + pc - length pre)%nat with pc by lia.
  destruct (nth_error s pc) as [ob|]; [|reflexivity].
  destruct (const_by_opcode const_table (b2n ob)) as [d|].
  { fin. }
  destruct (sized_by_opcode sized_table (b2n ob)) as [size|].
  { replace (length pre + pc + 1)%nat with (length pre + (pc + 1))%nat by lia.
    replace (length pre + (pc + 1) + N.to_nat size)%nat with (length pre + (pc + 1 + N.to_nat size))%nat by lia.
    rewrite slice_shift.
    destruct (length (slice (pc + 1) (pc + 1 + N.to_nat size) s) <? N.to_nat size)%nat.
    { fin. }
    destruct (m && is_const_value const_table _)%bool; [reflexivity|].
    fin. }
  destruct (var_by_opcode variable_table (b2n ob)) as [[w ms]|].
  2:{ fin. }
  replace (length pre + pc + 1)%nat with (length pre + (pc + 1))%nat by lia.
  replace (length pre + (pc + 1) + w)%nat with (length pre + (pc + 1 + w))%nat by lia.
  rewrite slice_shift.
  destruct (length (slice (pc + 1) (pc + 1 + w) s) <? w)%nat.
  { fin. }
  rewrite app_length.
  replace (length pre + length s - (length pre + (pc + 1 + w)))%nat with (length s - (pc + 1 + w))%nat by lia.
  destruct (N.of_nat (length s - (pc + 1 + w)) <? le_decode (slice (pc + 1) (pc + 1 + w) s)).
  { fin. }
  set (sz := N.to_nat (le_decode (slice (pc + 1) (pc + 1 + w) s))).
  replace (length pre + (pc + 1 + w) + sz)%nat with (length pre + (pc + 1 + w + sz))%nat by lia.
  rewrite slice_shift.
  destruct (length (slice (pc + 1 + w) (pc + 1 + w + sz) s) <? sz)%nat.
  { fin. }
  destruct (m && _)%bool; [reflexivity|].
  fin.
Qed.

Lemma get_opcode_app s rest m o d npc :
  btc_get_opcode s 0 m = Ret (o, Some d, npc, true) -> (npc <= length s)%nat ->
  btc_get_opcode (s ++ rest) 0 m = Ret (o, Some d, npc, true).
Proof.
  unfold btc_get_opcode, get_opcode. intros H Hn.
  destruct (nth_error s 0) as [ob|] eqn:E0; [|discriminate].
  rewrite nth_error_app1 by (apply nth_error_Some; congruence). rewrite E0.
  destruct (const_by_opcode const_table (b2n ob)) as [dd|]; [exact H|].
  destruct (sized_by_opcode sized_table (b2n ob)) as [size|].
  { change (0 + 1)%nat with 1%nat in *.
    destruct (length (slice 1 (1 + N.to_nat size) s) <? N.to_nat size)%nat eqn:E1; [discriminate|].
    destruct (m && is_const_value const_table (slice 1 (1 + N.to_nat size) s))%bool eqn:E2; [discriminate|].
    injection H as <- <- <-.
    rewrite slice_app_le by exact Hn. rewrite E1, E2. reflexivity. }
  destruct (var_by_opcode variable_table (b2n ob)) as [[w ms]|]; [|discriminate].
  change (0 + 1)%nat with 1%nat in *.
  destruct (length (slice 1 (1 + w) s) <? w)%nat eqn:E1; [discriminate|].
  destruct (N.of_nat (length s - (1 + w)) <? le_decode (slice 1 (1 + w) s)) eqn:E2; [discriminate|].
  set (size := le_decode (slice 1 (1 + w) s)) in *.
  destruct (length (slice (1 + w) (1 + w + N.to_nat size) s) <? N.to_nat size)%nat eqn:E3; [discriminate|].
  destruct (m && (is_sized_value sized_table size || (size <=? ms)))%bool eqn:E4; [discriminate|].
  injection H as <- <- <-.
  assert (Hw : (1 + w <= length s)%nat).
  { rewrite slice_length in E1. apply Nat.ltb_ge in E1. lia. }
  rewrite (slice_app_le 1 (1 + w)) by exact Hw. rewrite E1. fold size.
  rewrite app_length.
  replace (N.of_nat (length s + length rest - (1 + w)) <? size) with false by lia.
  rewrite slice_app_le by exact Hn. rewrite E3, E4. reflexivity.
Qed.

(* ---- which opcodes survive the text form ------------------------------------------------------- *)
(* an opcode byte that is not a sized/variable push, whose name is not an OP_PUSH* name and maps back to it *)
Definition good_op (o : N) : bool :=
  (o <? 256) &&
  match sized_by_opcode sized_table o, var_by_opcode variable_table o, int_to_opcode o with
  | None, None, Some n => negb (is_push_name n) && match opcode_to_int n with Some o' => o' =? o | None => false end
  | _, _, _ => false
  end.

Lemma good_op_decode o pre rest : good_op o = true ->
  exists d n, btc_get_opcode (pre ++ n2b o :: rest) (length pre) false = Ret (o, d, (length pre + 1)%nat, true)
            /\ disasm_tok o d = TName n /\ opcode_to_int n = Some o.
Proof.
  unfold good_op. intros H. apply andb_true_iff in H. destruct H as [Ho H].
  destruct (sized_by_opcode sized_table o) eqn:Es; [discriminate|].
  destruct (var_by_opcode variable_table o) eqn:Ev; [discriminate|].
  destruct (int_to_opcode o) as [n|] eqn:En; [|discriminate].
  apply andb_true_iff in H. destruct H as [Hp Hback].
  destruct (opcode_to_int n) as [o'|] eqn:Eo; [|discriminate].
  assert (o' = o) by lia. subst o'.
  pose proof (get_opcode_shift pre (n2b o :: rest) 0 false) as Hs.
  rewrite Nat.add_0_r in Hs. rewrite Hs.
  unfold btc_get_opcode, get_opcode. cbn [nth_error]. rewrite b2n_n2b by lia.
  destruct (const_by_opcode const_table o) as [dd|] eqn:Ec.
  - exists (Some dd), n. cbn [shift_res]. repeat split; auto.
    unfold disasm_tok. rewrite En.
    replace (is_push_name n) with false by (destruct (is_push_name n); [discriminate|reflexivity]).
    rewrite andb_false_r. reflexivity.
  - rewrite Es, Ev. exists None, n. cbn [shift_res]. repeat split; auto.
    unfold disasm_tok. rewrite En. reflexivity.
Qed.

(* the opcode bytes minimal pushes of non-constant data start with all carry OP_PUSH* names *)
Definition push_names_ok : bool :=
  forallb (fun o => match int_to_opcode (N.of_nat o) with Some n => is_push_name n | None => false end) (seq 1 78).
Lemma push_names : push_names_ok = true.
Proof. vm_compute. reflexivity. Qed.

Lemma push_name o : 1 <= o <= 78 -> exists n, int_to_opcode o = Some n /\ is_push_name n = true.
Proof.
  intros H. pose proof push_names as K. unfold push_names_ok in K.
  assert (Hin : In (N.to_nat o) (seq 1 78)) by (apply in_seq; lia).
  pose proof (proj1 (forallb_forall _ _) K _ Hin) as Q. cbv beta in Q. rewrite N2Nat.id in Q.
  destruct (int_to_opcode o) as [n|]; [|discriminate]. eauto.
Qed.

Definition one_byte_nonconst (b : byte) : bool :=
  match const_by_data const_table [b] with
  | None => negb ((1 <=? b2n b) && (b2n b <=? 16)) && negb (b2n b =? 129)
  | Some _ => true
  end.
Lemma one_byte_nonconst_all b : one_byte_nonconst b = true.
Proof. destruct b; vm_compute; reflexivity. Qed.

(* first opcode of the minimal push of non-constant data *)
Lemma spec_push_head d : const_by_data const_table d = None -> N.of_nat (length d) < 2 ^ 32 ->
  exists o tl, spec_push d = n2b o :: tl /\ 1 <= o <= 78.
Proof.
  intros Hc Hlen. destruct d as [|b [|b2 r]].
  - rewrite empty_is_const in Hc. discriminate.
  - pose proof (one_byte_nonconst_all b) as H. unfold one_byte_nonconst in H. rewrite Hc in H.
    apply andb_true_iff in H. destruct H as [H1 H2].
    unfold spec_push.
    replace ((1 <=? b2n b) && (b2n b <=? 16))%bool with false by (destruct ((1 <=? b2n b) && (b2n b <=? 16))%bool; [discriminate|reflexivity]).
    replace (b2n b =? 129) with false by (destruct (b2n b =? 129); [discriminate|reflexivity]).
    exists 1, [b]. split; [reflexivity|lia].
  - unfold spec_push. set (n := N.of_nat (length (b :: b2 :: r))).
    assert (2 <= n) by (unfold n; cbn [length]; lia).
    destruct (n <=? 75) eqn:E1; [exists n; eexists; split; [reflexivity|lia]|].
    destruct (n <=? 255); [exists 76; eexists; split; [reflexivity|lia]|].
    destruct (n <=? 65535); [exists 77; eexists; split; [reflexivity|lia]|].
    exists 78; eexists; split; [reflexivity|lia].
Qed.

Lemma push_decode_ctx d pre rest : const_by_data const_table d = None -> N.of_nat (length d) < 2 ^ 32 ->
  exists o, btc_get_opcode (pre ++ spec_push d ++ rest) (length pre) false
            = Ret (o, Some d, (length pre + length (spec_push d))%nat, true)
         /\ disasm_tok o (Some d) = THex d.
Proof.
  intros Hc Hlen.
  destruct (push_roundtrip d Hlen) as [s [Hs Hok]]. rewrite (push_is_spec d Hlen) in Hs.
  injection Hs as <-.
  destruct (Hok false) as [o [Hhd [Ho Hget]]].
  destruct (spec_push_head d Hc Hlen) as [o' [tl [Hsp Hrange]]].
  assert (o' = o).
  { rewrite Hsp in Hhd. cbn in Hhd. injection Hhd as E.
    apply (f_equal b2n) in E. rewrite !b2n_n2b in E by lia. exact E. }
  subst o'.
  exists o. split.
  - pose proof (get_opcode_shift pre (spec_push d ++ rest) 0 false) as Hsh.
    rewrite Nat.add_0_r in Hsh. rewrite Hsh.
    rewrite (get_opcode_app _ rest _ _ _ _ Hget (le_n _)). reflexivity.
  - destruct (push_name o Hrange) as [n [En Hp]].
    unfold disasm_tok. rewrite En, Hp.
    assert (d <> []) by (intros ->; rewrite empty_is_const in Hc; discriminate).
    destruct d; [congruence|]. reflexivity.
Qed.

(* ---- scripts as item lists ------------------------------------------------------------------------ *)
Inductive item : Type :=
| IOp (o : N)          (* a known opcode that is not a sized/variable push *)
| IPush (d : bytes).   (* the minimal push of data that no constant opcode pushes *)

Definition item_ok (it : item) : Prop :=
  match it with
  | IOp o => good_op o = true
  | IPush d => const_by_data const_table d = None /\ N.of_nat (length d) < 2 ^ 32
  end.
Definition item_bytes (it : item) : bytes :=
  match it with IOp o => [n2b o] | IPush d => spec_push d end.
Definition item_tok (it : item) : tok :=
  match it with
  | IOp o => TName (match int_to_opcode o with Some n => n | None => "???"%string end)
  | IPush d => THex d
  end.
Fixpoint flat (l : list item) : bytes :=
  match l with [] => [] | it :: r => item_bytes it ++ flat r end.

Lemma good_op_tok o d n : good_op o = true -> disasm_tok o d = TName n -> TName n = item_tok (IOp o).
Proof.
  unfold good_op, disasm_tok, item_tok. intros H.
  destruct (int_to_opcode o) as [nn|].
  - intros E. destruct d as [dd|]; [destruct ((0 <? length dd)%nat && is_push_name nn)%bool|]; congruence.
  - apply andb_true_iff in H. destruct H as [_ H].
    destruct (sized_by_opcode sized_table o), (var_by_opcode variable_table o); discriminate.
Qed.

Lemma item_bytes_nonempty it : item_ok it -> (1 <= length (item_bytes it))%nat.
Proof.
  destruct it as [o|d]; cbn; [lia|]. intros [Hc Hl].
  destruct (spec_push_head d Hc Hl) as [o [tl [-> _]]]. cbn. lia.
Qed.

Lemma disassemble_items items : Forall item_ok items ->
  forall pre fuel, (length (flat items) <= fuel)%nat ->
  opcode_list_f fuel (pre ++ flat items) (length pre) = Ret (map item_tok items).
Proof.
  induction items as [|it items IH]; intros Hall pre fuel Hf.
  - cbn [flat map]. rewrite app_nil_r. destruct fuel; cbn [opcode_list_f]; rewrite Nat.leb_refl; reflexivity.
  - inversion Hall as [|? ? Hit Hrest]; subst. cbn [flat map] in *.
    pose proof (item_bytes_nonempty it Hit) as Hne.
    rewrite app_length in Hf. destruct fuel as [|fuel]; [lia|].
    cbn [opcode_list_f].
    replace (length (pre ++ item_bytes it ++ flat items) <=? length pre)%nat with false
      by (rewrite !app_length; lia).
    destruct it as [o|d].
    + cbn [item_bytes app] in *.
      destruct (good_op_decode o pre (flat items) Hit) as [d [n [Hget [Htok Hback]]]].
      rewrite Hget.
      replace (pre ++ n2b o :: flat items) with ((pre ++ [n2b o]) ++ flat items) by (rewrite <- app_assoc; reflexivity).
      replace (length pre + 1)%nat with (length (pre ++ [n2b o])) by (rewrite app_length; cbn; lia).
      rewrite IH by (auto; cbn [length] in Hf; lia).
      f_equal. f_equal. rewrite Htok. apply (good_op_tok o d n); assumption.
    + cbn [item_bytes] in *. destruct Hit as [Hc Hl].
      destruct (push_decode_ctx d pre (flat items) Hc Hl) as [o [Hget Htok]].
      rewrite Hget.
      replace (pre ++ spec_push d ++ flat items) with ((pre ++ spec_push d) ++ flat items) by (rewrite <- app_assoc; reflexivity).
      replace (length pre + length (spec_push d))%nat with (length (pre ++ spec_push d)) by (rewrite app_length; lia).
      rewrite IH by (auto; lia).
      cbn [item_tok]. rewrite Htok. reflexivity.
Qed.

Lemma compile_items items : Forall item_ok items -> compile (map item_tok items) = Ret (flat items).
Proof.
  induction items as [|it items IH]; intros Hall; [reflexivity|].
  inversion Hall as [|? ? Hit Hrest]; subst. cbn [map compile flat].
  rewrite (IH Hrest).
  destruct it as [o|d].
  - destruct (good_op_decode o [] [] Hit) as [d [n [_ [Htok Hback]]]].
    rewrite <- (good_op_tok o d n Hit Htok). cbn [compile_tok item_bytes]. rewrite Hback. reflexivity.
  - cbn [item_tok compile_tok item_bytes]. destruct Hit as [Hc Hl]. rewrite (push_is_spec d Hl). reflexivity.
Qed.

Theorem text_roundtrip items : Forall item_ok items ->
  exists toks, disassemble (flat items) = Ret toks /\ compile toks = Ret (flat items).
Proof.
  intros Hall. exists (map item_tok items). split; [|apply compile_items; exact Hall].
  unfold disassemble. apply (disassemble_items items Hall [] _ (le_n _)).
Qed.

(* how many of the 256 opcode values qualify (non-vacuity; re-checked when the opcode table changes) *)
Definition good_op_count : nat := length (filter good_op (map N.of_nat (seq 0 256))).
