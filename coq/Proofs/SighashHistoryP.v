(* Proofs/SighashHistoryP.v — history independence of the signature-hash observers (Model/SighashHistory.v). *)
From PV Require Import Base.Bytes Base.Outcome Base.Varint Gen.GenSighashC04 Model.Sighash Model.SighashHistory
  Spec.SighashCore Model.SighashBridge Proofs.SighashP.
From Coq Require Import Permutation.
Local Open Scope N_scope.

Section Hist.
Variables (sha256 dsha256 : bytes -> bytes).
Notation run := (run sha256 dsha256).
Notation observe := (observe sha256 dsha256).
Notation step := (step sha256 dsha256).

(* an observer leaves the transaction as it is *)
Lemma observer_keeps_state c t o : fst (step c t (Observe o)) = t.
Proof. reflexivity. Qed.

Lemma step_state c t o : fst (step c t o) = state_after t [o].
Proof.
  destruct o as [ob|m]; cbn [step state_after fst]; [reflexivity|].
  destruct (mutate t m); reflexivity.
Qed.

Lemma state_after_app t a b : state_after t (a ++ b) = state_after (state_after t a) b.
Proof.
  revert t; induction a as [|[ob|m] a IH]; intros t; cbn [app state_after]; auto.
Qed.

(* every observation of a history is what a FRESH checker computes on a transaction holding the current fields:
   it does not depend on which observations were made before, nor on the fields the transaction had earlier *)
Lemma history_observation c : forall ops t k o, nth_error ops k = Some (Observe o) ->
  nth_error (run c t ops) k = Some (observe c (state_after t (firstn k ops)) o).
Proof.
  induction ops as [|x ops IH]; intros t k o H; [destruct k; discriminate|].
  cbn [SighashHistory.run]. destruct (step c t x) as [t' res] eqn:E.
  destruct k as [|k].
  - cbn in H. injection H as ->. cbn [step] in E. injection E as <- <-. reflexivity.
  - cbn [nth_error firstn] in *. rewrite (IH t' k o H). do 2 f_equal.
    change (x :: firstn k ops) with ([x] ++ firstn k ops). rewrite state_after_app.
    f_equal. rewrite <- (step_state c), E. reflexivity.
Qed.

(* a mutation is reported as done (or as the IndexError / ValueError it raises) and changes only the state *)
Lemma history_mutation c : forall ops t k m, nth_error ops k = Some (Mutate m) ->
  nth_error (run c t ops) k
  = Some (match mutate (state_after t (firstn k ops)) m with Ret _ => Ret HDone | Raise e => Raise e | OutOfFuel => OutOfFuel end).
Proof.
  induction ops as [|x ops IH]; intros t k m H; [destruct k; discriminate|].
  cbn [SighashHistory.run]. destruct (step c t x) as [t' res] eqn:E.
  destruct k as [|k].
  - cbn in H. injection H as ->. cbn [step firstn state_after nth_error] in *.
    destruct (mutate t m); injection E as <- <-; reflexivity.
  - cbn [nth_error firstn] in *. rewrite (IH t' k m H). do 2 f_equal.
    change (x :: firstn k ops) with ([x] ++ firstn k ops). rewrite state_after_app.
    f_equal. rewrite <- (step_state c), E. reflexivity.
Qed.

(* without mutations: any sequence of observations gives, position by position, the stateless results;
   hence any re-ordering of the same observations gives the re-ordered results *)
Lemma observations_only c t l : run c t (map Observe l) = map (observe c t) l.
Proof. induction l as [|o l IH]; [reflexivity|]. cbn [map SighashHistory.run step]. now rewrite IH. Qed.

Lemma observations_permute c t l l' : Permutation l l' ->
  Permutation (run c t (map Observe l)) (run c t (map Observe l')).
Proof. intros P. rewrite !observations_only. now apply Permutation_map. Qed.

(* asking twice gives the same answer *)
Lemma observation_repeatable c t o pre mid :
  (forall x, In x mid -> exists ob, x = Observe ob) ->
  nth_error (run c t (pre ++ Observe o :: mid ++ [Observe o])) (length pre)
  = nth_error (run c t (pre ++ Observe o :: mid ++ [Observe o])) (length pre + S (length mid)).
Proof.
  intros Hmid.
  assert (Hobs : forall l s, (forall x, In x l -> exists ob, x = Observe ob) -> state_after s l = s).
  { induction l as [|x l IH]; intros s Hl; [reflexivity|].
    destruct (Hl x (or_introl eq_refl)) as [ob ->]. cbn [state_after]. apply IH. intros y Hy. apply Hl. now right. }
  rewrite (history_observation c _ t (length pre) o).
  2:{ rewrite nth_error_app2 by lia. now rewrite Nat.sub_diag. }
  rewrite (history_observation c _ t (length pre + S (length mid)) o).
  2:{ rewrite nth_error_app2 by lia. replace (length pre + S (length mid) - length pre)%nat with (S (length mid)) by lia.
      cbn [nth_error]. rewrite nth_error_app2 by lia. now rewrite Nat.sub_diag. }
  do 2 f_equal.
  rewrite firstn_app, firstn_all, Nat.sub_diag. cbn [firstn]. rewrite app_nil_r.
  rewrite firstn_app. rewrite (firstn_all2 pre) by lia.
  replace (length pre + S (length mid) - length pre)%nat with (S (length mid)) by lia. cbn [firstn].
  rewrite firstn_app, firstn_all, Nat.sub_diag. cbn [firstn]. rewrite app_nil_r.
  rewrite state_after_app. cbn [state_after]. symmetry. now apply Hobs.
Qed.

(* ---- with the specification: what any BIP143 / legacy observation of a history returns ------------------ *)
Lemma history_segwit_spec c ops t k script idx ht u :
  nth_error ops k = Some (Observe (ObsSegwit script idx ht)) ->
  let t' := state_after t (firstn k ops) in
  tx_wf t' -> (idx < length (tx_ins t'))%nat -> ht < 2 ^ 32 -> N.of_nat (length script) < 2 ^ 64 ->
  nth_error (tx_unspents t') idx = Some (Some u) -> to_value u < 2 ^ 64 ->
  c = BTC \/ c = LTC \/ c = BCH ->
  nth_error (run c t ops) k
  = Some (Ret (HInt (be_decode (dsha256 (bip143_preimage dsha256 script (to_core t') idx (to_value u) ht))))).
Proof.
  intros H t' Hwf Hidx Hht Hs Hu Ha Hc. rewrite (history_observation c ops t k _ H). fold t'.
  cbn [SighashHistory.observe]. now rewrite (bip143_digest_btc_ltc_bch sha256 dsha256 t' script idx ht u c).
Qed.

Lemma history_forkid_spec ops t k script idx ht u :
  nth_error ops k = Some (Observe (ObsSegwit script idx ht)) ->
  let t' := state_after t (firstn k ops) in
  tx_wf t' -> (idx < length (tx_ins t'))%nat -> ht < 2 ^ 32 -> N.of_nat (length script) < 2 ^ 64 ->
  nth_error (tx_unspents t') idx = Some (Some u) -> to_value u < 2 ^ 64 ->
  nth_error (run BTG t ops) k
  = Some (match forkid_preimage dsha256 FORKID_BTG script (to_core t') idx (to_value u) ht with
          | None => Raise E_SCRIPT
          | Some p => Ret (HInt (be_decode (dsha256 p)))
          end).
Proof.
  intros H t' Hwf Hidx Hht Hs Hu Ha. rewrite (history_observation BTG ops t k _ H). fold t'.
  cbn [SighashHistory.observe].
  rewrite (proj2 (forkid_btg_both sha256 dsha256 t' script idx ht u Hwf Hidx Hht Hs Hu Ha)).
  unfold forkid_result. destruct (forkid_preimage _ _ _ _ _ _ _); reflexivity.
Qed.

Lemma history_grs_spec ops t k script idx ht u :
  nth_error ops k = Some (Observe (ObsSegwit script idx ht)) ->
  let t' := state_after t (firstn k ops) in
  tx_wf t' -> (idx < length (tx_ins t'))%nat -> ht < 2 ^ 32 -> N.of_nat (length script) < 2 ^ 64 ->
  nth_error (tx_unspents t') idx = Some (Some u) -> to_value u < 2 ^ 64 ->
  nth_error (run GRS t ops) k
  = Some (Ret (HInt (be_decode (sha256 (bip143_preimage sha256 script (to_core t') idx (to_value u) ht))))).
Proof.
  intros H t' Hwf Hidx Hht Hs Hu Ha. rewrite (history_observation GRS ops t k _ H). fold t'.
  cbn [SighashHistory.observe].
  now rewrite (proj2 (grs_single_sha sha256 dsha256 t' script idx ht u Hwf Hidx Hht Hs Hu Ha)).
Qed.

Lemma history_legacy_spec c ops t k script idx ht :
  nth_error ops k = Some (Observe (ObsLegacy script idx ht)) ->
  let t' := state_after t (firstn k ops) in
  tx_wf t' -> (idx < length (tx_ins t'))%nat -> ht < 2 ^ 32 -> N.of_nat (length script) < 2 ^ 64 ->
  c = BTC \/ c = LTC ->
  nth_error (run c t ops) k
  = Some (Ret (HInt (be_decode (core_digest dsha256 (core_signature_hash_old script (to_core t') idx ht))))).
Proof.
  intros H t' Hwf Hidx Hht Hs Hc. rewrite (history_observation c ops t k _ H). fold t'.
  cbn [SighashHistory.observe]. now rewrite (legacy_digest_btc_ltc sha256 dsha256 t' script idx ht c).
Qed.
End Hist.

(* two inputs, two outputs *)
Definition witness_tx2 : tx :=
  mk_tx 2 [mk_txin (repeatb x11 32) 0 [] 4294967295; mk_txin (repeatb x22 32) 1 [] 4294967294]
        [mk_txout 1 [x51]; mk_txout 2 [x52]] 0 [Some (mk_txout 5 [x51]); Some (mk_txout 6 [x51])].
