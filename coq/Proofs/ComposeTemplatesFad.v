(* Proofs/ComposeTemplatesFad.v — composition C05 x C03, part 3: FindAndDelete on the template scripts.
   Spec/Templates.v hands the WHOLE template script to the digest; Core hands FindAndDelete(script, CScript() << sig)
   (signature version BASE only).  The two coincide exactly when no instruction of the script is the plain push of
   a signature item.  `sigs_inert code sigs` is that condition stated semantically; `inert_of_distinct` gives the
   syntactic sufficient condition (the item is none of the data pushed by the script) using the instruction
   decomposition and filter characterisation of Proofs/AgreeFad.v. *)
From Coq Require Import Lia ZifyBool ZifyNat ZifyN.
From PV Require Import Base.Bytes Base.Outcome Gen.GenFlags Proofs.PushP Spec.Templates.
From PV Require Import Model.ScriptNum Spec.VMTypes Spec.VMcore.
From PV Require Import Proofs.AgreeSig Proofs.AgreeFad.
Local Open Scope N_scope.

Definition sigs_inert (code : bytes) (sigs : list bytes) : Prop :=
  forall s, In s sigs -> find_and_delete (push_encode s) code = code.

Lemma fold_fad_inert code sigs : sigs_inert code sigs ->
  fold_left (fun c sg => find_and_delete (push_encode sg) c) sigs code = code.
Proof.
  induction sigs as [|s r IH]; intros H; cbn [fold_left]; [reflexivity|].
  rewrite (H s) by (left; reflexivity). apply IH. intros x Hx. apply H. right. exact Hx.
Qed.

(* ---- push_data vs CScript() << d ------------------------------------------------------------------------ *)
Lemma push_data_plain d : small_int_data d = false -> push_data d = push_encode d.
Proof.
  intros Hs. unfold push_data, spec_push, push_encode, VMcore.len. destruct d as [|b [|b2 r]].
  - reflexivity.
  - unfold small_int_data in Hs. apply orb_false_iff in Hs. destruct Hs as [H1 H2]. rewrite H1, H2. reflexivity.
  - set (n := N.of_nat (length (b :: b2 :: r))).
    destruct (n <=? 75) eqn:E1.
    { replace (n <? 76) with true by lia. reflexivity. }
    replace (n <? 76) with false by lia. destruct (n <=? 255); [reflexivity|]. destruct (n <=? 65535); reflexivity.
Qed.

Lemma push_data_small d : small_int_data d = true -> exists b, push_data d = [b] /\ (78 <? b2n b) = true.
Proof.
  destruct d as [|b [|b2 r]]; try discriminate. unfold small_int_data, push_data, spec_push. intros H.
  pose proof (b2n_lt b) as Hb.
  destruct ((1 <=? b2n b) && (b2n b <=? 16)) eqn:E1.
  - exists (n2b (80 + b2n b)). split; [reflexivity|]. rewrite b2n_n2b by lia. lia.
  - cbn [orb] in H. rewrite H. exists x4f. split; reflexivity.
Qed.

Definition decode_plain (p : bytes) : bytes :=
  match p with
  | [] => []
  | h :: t => if b2n h <? 76 then t else if b2n h =? 76 then skipn 1 t else if b2n h =? 77 then skipn 2 t else skipn 4 t
  end.

Lemma decode_plain_encode s : decode_plain (push_encode s) = s.
Proof.
  unfold push_encode. set (n := VMcore.len s).
  destruct (n <? 76) eqn:E1.
  { unfold decode_plain. rewrite b2n_n2b by lia. now rewrite E1. }
  destruct (n <=? 255); [reflexivity|]. destruct (n <=? 65535); reflexivity.
Qed.

Lemma push_encode_inj s d : push_encode s = push_encode d -> s = d.
Proof. intros H. apply (f_equal decode_plain) in H. now rewrite !decode_plain_encode in H. Qed.

Lemma push_encode_head s : exists h t, push_encode s = h :: t /\ (b2n h <=? 78) = true.
Proof.
  unfold push_encode. set (n := VMcore.len s). destruct (n <? 76) eqn:E1.
  { eexists _, _. split; [reflexivity|]. rewrite b2n_n2b by lia. lia. }
  destruct (n <=? 255); [eexists _, _; split; reflexivity|]. destruct (n <=? 65535); eexists _, _; split; reflexivity.
Qed.

Lemma complete_high b : (78 <? b2n b) = true -> complete [b].
Proof.
  intros H. split; [discriminate|]. exists b, []. intros t. cbn [app get_op]. now rewrite H.
Qed.

(* ---- instructions of the template scripts ----------------------------------------------------------------- *)
(* an instruction that is not the plain push of s *)
Definition instr_not (s : bytes) (i : bytes) : Prop :=
  (exists b, i = [b] /\ (78 <? b2n b) = true) \/ (exists d, i = push_data d /\ item_ok d /\ d <> s).

Lemma instr_not_complete s i : instr_not s i -> complete i /\ i <> push_encode s.
Proof.
  intros [(b & -> & Hb)|(d & -> & Hd & Hne)].
  - split; [now apply complete_high|]. destruct (push_encode_head s) as (h & t & E & Hh). rewrite E.
    intros K. injection K as <- _. lia.
  - destruct (small_int_data d) eqn:Es.
    + destruct (push_data_small d Es) as (b & E & Hb). rewrite E. split; [now apply complete_high|].
      destruct (push_encode_head s) as (h & t & E' & Hh). rewrite E'. intros K. injection K as <- _. lia.
    + rewrite (push_data_plain d Es). split; [now apply push_complete|].
      intros K. apply push_encode_inj in K. congruence.
Qed.

Lemma filter_keep_id pat l : ~ In pat l -> filter (keep pat) l = l.
Proof.
  induction l as [|x l IH]; intros H; [reflexivity|]. cbn [filter]. unfold keep at 1.
  destruct (bytes_eqb x pat) eqn:E.
  - apply bytes_eqb_eq in E. subst. exfalso. apply H. left. reflexivity.
  - cbn [negb]. f_equal. apply IH. intros K. apply H. right. exact K.
Qed.

Lemma fad_inert_instrs s l : item_ok s -> Forall (instr_not s) l ->
  find_and_delete (push_encode s) (concat l) = concat l.
Proof.
  intros Hs Hl.
  assert (Hc : Forall complete l) by (eapply Forall_impl; [|exact Hl]; intros i Hi; apply (instr_not_complete s i Hi)).
  assert (Hn : ~ In (push_encode s) l).
  { intros K. rewrite Forall_forall in Hl. destruct (instr_not_complete s _ (Hl _ K)) as [_ Hne]. congruence. }
  pose proof (dec_of_complete l [] Hc eq_refl) as Hd. rewrite app_nil_r in Hd.
  rewrite (find_and_delete_filter _ _ _ _ (push_complete s Hs) Hd). rewrite app_nil_r. now rewrite filter_keep_id.
Qed.

(* the template scripts as instruction lists *)
Definition p2pk_instrs (key : bytes) : list bytes := [push_data key; [xac]].
Definition p2pkh_instrs (h : bytes) : list bytes := [[x76]; [xa9]; push_data h; [x88]; [xac]].
Definition ms_instrs (m : nat) (keys : list bytes) : list bytes :=
  [num_push m] ++ map push_data keys ++ [num_push (length keys); [xae]].

Lemma p2pk_concat key : p2pk_script key = concat (p2pk_instrs key).
Proof. unfold p2pk_script, p2pk_instrs. cbn [concat]. now rewrite app_nil_r. Qed.
Lemma p2pkh_concat h : p2pkh_script h = concat (p2pkh_instrs h).
Proof. reflexivity. Qed.
Lemma concat_map_flat {A B} (f : A -> list B) l : concat (map f l) = flat_map f l.
Proof. induction l as [|x l IH]; [reflexivity|]. cbn [map concat flat_map]. now rewrite IH. Qed.
Lemma ms_concat m keys : ms_script m keys = concat (ms_instrs m keys).
Proof.
  unfold ms_script, ms_instrs. cbn [concat app]. rewrite concat_app, concat_map_flat. cbn [concat]. now rewrite app_nil_r.
Qed.

(* the data a script number 0..20 pushes: nothing (OP_0, OP_1..OP_16) or the byte itself (17..20) *)
Definition num_data (k : nat) : bytes := if (k =? 0)%nat then [] else [n2b (N.of_nat k)].

(* sufficient: the item is none of the pushed data *)
Lemma inert_p2pk key s : item_ok s -> item_ok key -> s <> key -> find_and_delete (push_encode s) (p2pk_script key) = p2pk_script key.
Proof.
  intros Hs Hk Hne. rewrite p2pk_concat. apply fad_inert_instrs; [exact Hs|]. unfold p2pk_instrs.
  constructor; [|constructor; [|constructor]].
  - right. exists key. repeat split; auto.
  - left. exists xac. split; reflexivity.
Qed.

Lemma inert_p2pkh h s : item_ok s -> item_ok h -> s <> h -> find_and_delete (push_encode s) (p2pkh_script h) = p2pkh_script h.
Proof.
  intros Hs Hk Hne. rewrite p2pkh_concat. apply fad_inert_instrs; [exact Hs|]. unfold p2pkh_instrs.
  assert (Hop : forall b, (78 <? b2n b) = true -> instr_not s [b]) by (intros b Hb; left; exists b; split; auto).
  constructor; [now apply Hop|]. constructor; [now apply Hop|]. constructor.
  { right. exists h. repeat split; auto. }
  constructor; [now apply Hop|]. constructor; [now apply Hop|]. constructor.
Qed.

Lemma inert_ms m keys s : item_ok s -> Forall item_ok keys -> ~ In s keys -> s <> num_data m -> s <> num_data (length keys) ->
  find_and_delete (push_encode s) (ms_script m keys) = ms_script m keys.
Proof.
  intros Hs Hk Hne Hm Hn. rewrite ms_concat. apply fad_inert_instrs; [exact Hs|]. unfold ms_instrs.
  assert (Hnum : forall k, s <> num_data k -> instr_not s (num_push k)).
  { intros k Hk'. right. exists (num_data k). split; [reflexivity|]. split; [|congruence].
    unfold item_ok, num_data. destruct (k =? 0)%nat; cbn; lia. }
  apply Forall_app. split; [constructor; [now apply Hnum|constructor]|].
  apply Forall_app. split.
  - apply Forall_forall. intros i Hi. apply in_map_iff in Hi. destruct Hi as (k & <- & Hk').
    right. exists k. split; [reflexivity|]. rewrite Forall_forall in Hk. split; [now apply Hk|].
    intros ->. contradiction.
  - constructor; [now apply Hnum|]. constructor; [|constructor]. left. exists xae. split; reflexivity.
Qed.
