(* Proofs/SolveP.v — lemmas for property C05 (solver contract Model/Solve.v, template evaluator Spec/Templates.v). *)
From Coq Require Import Permutation Sorted.
From PV Require Import Base.Bytes Base.Outcome Gen.GenSolveC05 Proofs.PushP Spec.Templates Model.Solve.
From Coq Require Import ZifyBool ZifyNat ZifyN.
Local Open Scope N_scope.

(* ================================================================================================ *)
(* 0. the regenerated constants are the ones the templates and the contract were written with       *)
Definition gen_c05_consts_ok : bool :=
  gen_c05_shape_ok &&
  (gen_c05_op_0 =? 0) && (gen_c05_op_1 =? 81) && (gen_c05_op_16 =? 96) && (gen_c05_op_1negate =? 79) &&
  (gen_c05_op_pushdata1 =? 76) && (gen_c05_op_pushdata2 =? 77) && (gen_c05_op_pushdata4 =? 78) &&
  (gen_c05_op_dup =? 118) && (gen_c05_op_hash160 =? 169) && (gen_c05_op_equal =? 135) &&
  (gen_c05_op_equalverify =? 136) && (gen_c05_op_checksig =? 172) && (gen_c05_op_checkmultisig =? 174) &&
  (gen_c05_sighash_all =? 1) && (gen_c05_sighash_none =? 2) && (gen_c05_sighash_single =? 3) &&
  (gen_c05_sighash_forkid =? 64) && (gen_c05_sighash_anyonecanpay =? 128) &&
  (gen_c05_default_flags =? N.lor gen_c05_verify_p2sh gen_c05_verify_witness) &&
  (gen_c05_max_blob_length =? 520) && (gen_c05_max_script_length =? 10000) && (gen_c05_max_stack_size =? 1000) &&
  (gen_c05_order =? secp256k1_order) && (gen_c05_default_signature_type =? 1) &&
  negb gen_c05_forkid_btc && negb gen_c05_forkid_xtn && negb gen_c05_forkid_ltc && gen_c05_forkid_bch && gen_c05_forkid_btg &&
  (* the placeholder: parses, is strictly encoded with low S and hash type ALL (so it occupies a signature slot) *)
  parse_sig_ok gen_c05_placeholder && strict_der gen_c05_placeholder && low_s gen_c05_placeholder &&
  (hash_type_of gen_c05_placeholder =? 1) && (lenN gen_c05_placeholder =? 72).
Lemma gen_c05_consts : gen_c05_consts_ok = true.
Proof. vm_compute. reflexivity. Qed.

(* ================================================================================================ *)
(* 1. sorting (Python's sort of (int, bytes) tuples as insertion sort)                                *)
Definition ele (a b : Z * bytes) : Prop := entry_leb a b = true.

Lemma bytes_leb_refl a : bytes_leb a a = true.
Proof. induction a as [|x a IH]; cbn [bytes_leb]; [reflexivity|]. rewrite N.ltb_irrefl. exact IH. Qed.

Lemma bytes_leb_total a b : bytes_leb a b = true \/ bytes_leb b a = true.
Proof.
  revert b; induction a as [|x a IH]; intros [|y b]; cbn [bytes_leb]; auto.
  destruct (b2n x <? b2n y) eqn:E1; auto.
  destruct (b2n y <? b2n x) eqn:E2; auto.
Qed.

Lemma bytes_leb_antisym a b : bytes_leb a b = true -> bytes_leb b a = true -> a = b.
Proof.
  revert b; induction a as [|x a IH]; intros [|y b]; cbn [bytes_leb]; try discriminate; auto.
  destruct (b2n x <? b2n y) eqn:E1; destruct (b2n y <? b2n x) eqn:E2; try discriminate; try lia.
  intros H1 H2. f_equal; [apply b2n_inj; lia | auto].
Qed.

Lemma bytes_leb_trans a b c : bytes_leb a b = true -> bytes_leb b c = true -> bytes_leb a c = true.
Proof.
  revert b c; induction a as [|x a IH]; intros [|y b] [|z c]; cbn [bytes_leb]; try discriminate; auto.
  destruct (b2n x <? b2n y) eqn:E1; destruct (b2n y <? b2n x) eqn:E2;
  destruct (b2n y <? b2n z) eqn:E3; destruct (b2n z <? b2n y) eqn:E4;
  destruct (b2n x <? b2n z) eqn:E5; destruct (b2n z <? b2n x) eqn:E6; try discriminate; try lia; auto.
  intros; eapply IH; eauto.
Qed.

Lemma ele_refl a : ele a a.
Proof. unfold ele, entry_leb. rewrite Z.ltb_irrefl. apply bytes_leb_refl. Qed.

Lemma ele_total a b : ele a b \/ ele b a.
Proof.
  unfold ele, entry_leb.
  destruct (fst a <? fst b)%Z eqn:E1; auto. destruct (fst b <? fst a)%Z eqn:E2; auto.
  apply bytes_leb_total.
Qed.

Lemma ele_antisym a b : ele a b -> ele b a -> a = b.
Proof.
  unfold ele, entry_leb. destruct a as [i x], b as [j y]; cbn [fst snd].
  destruct (i <? j)%Z eqn:E1; destruct (j <? i)%Z eqn:E2; try discriminate; try lia.
  intros H1 H2. f_equal; [lia | now apply bytes_leb_antisym].
Qed.

Lemma ele_trans a b c : ele a b -> ele b c -> ele a c.
Proof.
  unfold ele, entry_leb. destruct a as [i x], b as [j y], c as [k z]; cbn [fst snd].
  destruct (i <? j)%Z eqn:E1; destruct (j <? i)%Z eqn:E2;
  destruct (j <? k)%Z eqn:E3; destruct (k <? j)%Z eqn:E4;
  destruct (i <? k)%Z eqn:E5; destruct (k <? i)%Z eqn:E6; try discriminate; try lia; auto.
  apply bytes_leb_trans.
Qed.

Lemma ele_lt a b : (fst a < fst b)%Z -> ele a b.
Proof. unfold ele, entry_leb. intros H. replace (fst a <? fst b)%Z with true by lia. reflexivity. Qed.

Lemma insert_perm x l : Permutation (x :: l) (insert x l).
Proof.
  induction l as [|y l IH]; cbn [insert]; [apply Permutation_refl|].
  destruct (entry_leb x y); [apply Permutation_refl|].
  eapply perm_trans; [apply perm_swap|]. now apply perm_skip.
Qed.

Lemma isort_perm l : Permutation l (isort l).
Proof.
  induction l as [|x l IH]; cbn [isort]; [constructor|].
  eapply perm_trans; [apply perm_skip, IH | apply insert_perm].
Qed.

Lemma insert_sorted x l : StronglySorted ele l -> StronglySorted ele (insert x l).
Proof.
  induction 1 as [|y l Hs IH Hy]; cbn [insert].
  - repeat constructor.
  - destruct (entry_leb x y) eqn:E.
    + constructor; [now constructor|]. constructor; [exact E|].
      rewrite Forall_forall in *. intros z Hz. eapply ele_trans; [exact E | now apply Hy].
    + constructor; [exact IH|].
      assert (Hyx : ele y x) by (destruct (ele_total x y) as [H|H]; [unfold ele in H; congruence | exact H]).
      rewrite Forall_forall in *. intros z Hz.
      apply (Permutation_in _ (Permutation_sym (insert_perm x l))) in Hz.
      destruct Hz as [<-|Hz]; [exact Hyx | now apply Hy].
Qed.

Lemma isort_sorted l : StronglySorted ele (isort l).
Proof. induction l; cbn [isort]; [constructor | now apply insert_sorted]. Qed.

Lemma sorted_perm_unique l1 l2 :
  StronglySorted ele l1 -> StronglySorted ele l2 -> Permutation l1 l2 -> l1 = l2.
Proof.
  revert l2; induction l1 as [|a l1 IH]; intros l2 S1 S2 P.
  - apply Permutation_nil in P. now subst.
  - destruct l2 as [|b l2]; [apply Permutation_sym, Permutation_nil in P; discriminate|].
    inversion S1 as [|? ? S1' F1]; inversion S2 as [|? ? S2' F2]; subst.
    assert (a = b) as ->.
    { assert (Hb : In b (a :: l1)) by (eapply Permutation_in; [apply Permutation_sym, P | now left]).
      assert (Ha : In a (b :: l2)) by (eapply Permutation_in; [apply P | now left]).
      rewrite Forall_forall in F1, F2.
      destruct Hb as [->|Hb]; [reflexivity|]. destruct Ha as [->|Ha]; [reflexivity|].
      apply ele_antisym; [now apply F1 | now apply F2]. }
    f_equal. apply IH; auto. eapply Permutation_cons_inv; eauto.
Qed.

Lemma isort_unique l e : StronglySorted ele e -> Permutation l e -> isort l = e.
Proof.
  intros S P. apply sorted_perm_unique; [apply isort_sorted | exact S|].
  eapply perm_trans; [apply Permutation_sym, isort_perm | exact P].
Qed.

(* ================================================================================================ *)
(* 2. push-only scripts: the parser of Spec/Templates.v inverts the minimal push encoder             *)
Ltac ifs := repeat (match goal with
  | |- context [if ?c then _ else _] => let E := fresh "E" in destruct c eqn:E; try lia; try discriminate
  end).

Lemma firstn_app_exact {A} (a b : list A) n : n = length a -> firstn n (a ++ b) = a.
Proof. intros ->. rewrite firstn_app, Nat.sub_diag, firstn_all. cbn. apply app_nil_r. Qed.
Lemma skipn_app_exact {A} (a b : list A) n : n = length a -> skipn n (a ++ b) = b.
Proof. intros ->. rewrite skipn_app, Nat.sub_diag, skipn_all. reflexivity. Qed.

Lemma lenN_app {A} (a b : list A) : lenN (a ++ b) = lenN a + lenN b.
Proof. unfold lenN. rewrite app_length. lia. Qed.
Lemma lenN_cons {A} (x : A) l : lenN (x :: l) = 1 + lenN l.
Proof. unfold lenN. cbn [length]. lia. Qed.

Lemma parse_one_push d rest : lenN d <= 65535 -> parse_one (push_data d ++ rest) = Some (d, rest, true).
Proof.
  intros Hlen. unfold push_data, spec_push.
  destruct d as [|b [|b2 r]].
  - reflexivity.
  - pose proof (b2n_lt b) as Hb.
    destruct ((1 <=? b2n b) && (b2n b <=? 16)) eqn:E1.
    + cbn [app]. unfold parse_one. rewrite b2n_n2b by lia. ifs.
      replace (80 + b2n b - 80) with (b2n b) by lia. now rewrite n2b_b2n.
    + destruct (b2n b =? 129) eqn:E2.
      * cbn [app]. unfold parse_one. change (b2n x4f) with 79. cbn.
        assert (b = x81) as -> by (apply b2n_inj; change (b2n x81) with 129; lia). reflexivity.
      * cbn [app]. unfold parse_one. change (b2n x01) with 1. cbn [N.eqb N.leb N.compare Pos.compare Pos.compare_cont].
        change (N.to_nat 1) with 1%nat. cbn [length Nat.ltb Nat.leb firstn skipn small_int_data].
        rewrite E2. rewrite E1. reflexivity.
  - set (d := b :: b2 :: r) in *.
    assert (Hs : small_int_data d = false) by reflexivity.
    set (n := N.of_nat (length d)). assert (Hn : n = lenN d) by reflexivity.
    assert (H2 : 2 <= n) by (unfold n, d; cbn [length]; lia).
    assert (Hnat : N.to_nat n = length d) by (unfold n; apply Nat2N.id).
    destruct (n <=? 75) eqn:E75; [|destruct (n <=? 255) eqn:E255; [|destruct (n <=? 65535) eqn:E64k; [|lia]]].
    + cbn [app]. unfold parse_one. rewrite b2n_n2b by lia.
      replace (n =? 0) with false by lia. rewrite E75. rewrite Hnat.
      replace (length (d ++ rest) <? length d)%nat with false by (rewrite app_length; lia).
      rewrite firstn_app_exact, skipn_app_exact by reflexivity. now rewrite Hs.
    + cbn [app le_encode]. unfold parse_one. change (b2n x4c) with 76. cbn [N.eqb N.leb N.compare Pos.compare Pos.compare_cont Pos.eqb].
      rewrite b2n_n2b by lia. rewrite Hnat.
      replace (length (d ++ rest) <? length d)%nat with false by (rewrite app_length; lia).
      rewrite firstn_app_exact, skipn_app_exact by reflexivity.
      replace (76 <=? n) with true by lia. reflexivity.
    + cbn [app]. unfold parse_one. change (b2n x4d) with 77. cbn [N.eqb N.leb N.compare Pos.compare Pos.compare_cont Pos.eqb].
      rewrite <- app_assoc.
      replace (length (le_encode 2 n ++ d ++ rest) <? 2)%nat with false by (rewrite app_length, le_encode_length; lia).
      rewrite firstn_app_exact, skipn_app_exact by (now rewrite le_encode_length).
      rewrite le_decode_encode by (change (256 ^ N.of_nat 2) with 65536; lia).
      replace (N.of_nat (length (d ++ rest)) <? n) with false by (rewrite app_length; lia).
      rewrite Hnat, firstn_app_exact, skipn_app_exact by reflexivity.
      replace (256 <=? n) with true by lia. reflexivity.
Qed.

Lemma push_data_nonempty d : (1 <= length (push_data d))%nat.
Proof.
  unfold push_data, spec_push. destruct d as [|b [|b2 r]]; [cbn; lia| |].
  - destruct ((1 <=? b2n b) && (b2n b <=? 16)); [cbn; lia|]. destruct (b2n b =? 129); cbn; lia.
  - destruct (_ <=? 75); [cbn [length]; lia|]. destruct (_ <=? 255); [cbn [length]; lia|].
    destruct (_ <=? 65535); cbn [length]; lia.
Qed.

Lemma parse_pushes_f_pushes items : Forall (fun d => lenN d <= 65535) items ->
  forall fuel, (length (pushes items) <= fuel)%nat -> parse_pushes_f fuel (pushes items) = Some (items, true).
Proof.
  induction 1 as [|d items Hd Hall IH]; intros fuel Hf.
  - destruct fuel; reflexivity.
  - unfold pushes in *. cbn [flat_map] in *.
    pose proof (push_data_nonempty d) as Hne. rewrite app_length in Hf.
    destruct fuel as [|fuel]; [lia|].
    cbn [parse_pushes_f].
    destruct (push_data d ++ flat_map push_data items) eqn:Eq.
    { apply (f_equal (@length _)) in Eq. rewrite app_length in Eq. cbn in Eq. lia. }
    rewrite <- Eq. rewrite parse_one_push by exact Hd. rewrite IH by lia. reflexivity.
Qed.

Lemma parse_pushes_pushes items : Forall (fun d => lenN d <= 65535) items ->
  parse_pushes (pushes items) = Some (items, true).
Proof. intros H. unfold parse_pushes. now apply parse_pushes_f_pushes. Qed.

(* ================================================================================================ *)
(* 3. CHECKMULTISIG's matching loop                                                                   *)
Section Cms.
Variable verifies : bytes -> bytes -> bytes -> bool.
Variable sighash : bool -> N -> bytes -> option bytes.
Variable fl : flags.
Variable wit : bool.
Variable sc : bytes.
Notation sv := (sig_verifies verifies sighash wit sc).
Notation CMS := (cms verifies sighash fl wit sc).

(* keys and signatures top of stack first: every signature has a key of its own further down, in order *)
Inductive matchable : list bytes -> list bytes -> Prop :=
| m_nil : matchable [] []
| m_skip k K sigs : matchable K sigs -> matchable (k :: K) sigs
| m_take k K s sigs : sv s k = true -> matchable K sigs -> matchable (k :: K) (s :: sigs).

Lemma matchable_len K sigs : matchable K sigs -> (length sigs <= length K)%nat.
Proof. induction 1; cbn [length]; lia. Qed.

Lemma matchable_drop K s sr : matchable K (s :: sr) -> matchable K sr.
Proof.
  intros H. remember (s :: sr) as l eqn:El. revert s sr El.
  induction H as [|k K sigs H IH|k K s' sigs Hv H IH]; intros s sr El; try discriminate.
  - apply m_skip. eapply IH; eauto.
  - injection El as -> ->. now apply m_skip.
Qed.

Lemma cms_matchable K : forall sigs,
  Forall (fun s => sig_enc_ok fl s = true) sigs -> Forall (fun k => pub_enc_ok fl wit k = true) K ->
  matchable K sigs -> CMS K sigs = true.
Proof.
  induction K as [|k K IH]; intros sigs Hs Hk Hm.
  - inversion Hm; subst. reflexivity.
  - destruct sigs as [|s sr]; [reflexivity|].
    cbn [cms]. inversion Hs as [|? ? Hs1 Hs2]; inversion Hk as [|? ? Hk1 Hk2]; subst.
    rewrite Hs1, Hk1. cbn [andb].
    destruct (sv s k) eqn:Ev.
    + assert (Hm' : matchable K sr).
      { inversion Hm; subst; [eapply matchable_drop; eauto | assumption]. }
      pose proof (matchable_len _ _ Hm').
      replace (length K <? length sr)%nat with false by lia. now apply IH.
    + assert (Hm' : matchable K (s :: sr)).
      { inversion Hm; subst; [assumption | congruence]. }
      pose proof (matchable_len _ _ Hm').
      replace (length K <? length (s :: sr))%nat with false by lia. now apply IH.
Qed.

Lemma matchable_snoc_skip K sigs k : matchable K sigs -> matchable (K ++ [k]) sigs.
Proof. induction 1; cbn [app]; [apply m_skip, m_nil | now apply m_skip | now apply m_take]. Qed.

Lemma matchable_snoc_take K sigs k s : sv s k = true -> matchable K sigs -> matchable (K ++ [k]) (sigs ++ [s]).
Proof.
  intros Hv. induction 1; cbn [app].
  - apply m_take; [exact Hv | apply m_nil].
  - now apply m_skip.
  - now apply m_take.
Qed.

(* a signature that verifies under none of the remaining keys sinks the whole check *)
Lemma cms_head_never K : forall s sr, (forall k, In k K -> sv s k = false) -> CMS K (s :: sr) = false.
Proof.
  induction K as [|k K IH]; intros s sr Hn; [reflexivity|].
  cbn [cms]. destruct (sig_enc_ok fl s && pub_enc_ok fl wit k); [|reflexivity].
  rewrite (Hn k) by now left.
  destruct (length K <? length (s :: sr))%nat; [reflexivity|].
  apply IH. intros k' Hk'. apply Hn. now right.
Qed.
End Cms.

(* ================================================================================================ *)
(* 4. generic list facts used below                                                                   *)
Lemma sorted_app {A} (R : A -> A -> Prop) l1 l2 :
  StronglySorted R l1 -> StronglySorted R l2 -> (forall a b, In a l1 -> In b l2 -> R a b) ->
  StronglySorted R (l1 ++ l2).
Proof.
  induction 1 as [|a l1 S1 IH F1]; intros S2 H; cbn [app]; [exact S2|].
  constructor.
  - apply IH; [exact S2|]. intros; apply H; [now right | assumption].
  - rewrite Forall_forall in *. intros x Hx. apply in_app_or in Hx. destruct Hx; [now apply F1 | apply H; [now left | assumption]].
Qed.

Lemma sorted_rev {A} (R : A -> A -> Prop) l :
  StronglySorted R l -> StronglySorted (fun a b => R b a) (rev l).
Proof.
  induction 1 as [|a l S IH F]; cbn [rev]; [constructor|].
  apply sorted_app; [exact IH | repeat constructor|].
  intros x y Hx Hy. destruct Hy as [<-|[]]. rewrite Forall_forall in F. apply F. now apply in_rev.
Qed.

Lemma sorted_repeat {A} (R : A -> A -> Prop) x k : R x x -> StronglySorted R (repeat x k).
Proof.
  intros Hx. induction k; cbn [repeat]; constructor; [assumption|].
  rewrite Forall_forall. intros y Hy. apply repeat_spec in Hy. now subst.
Qed.

Lemma rev_repeat {A} (x : A) k : rev (repeat x k) = repeat x k.
Proof.
  induction k; cbn [repeat rev]; [reflexivity|]. rewrite IHk.
  clear. induction k; cbn [repeat app]; [reflexivity|]. now rewrite IHk.
Qed.

Lemma map_repeat {A B} (f : A -> B) x k : map f (repeat x k) = repeat (f x) k.
Proof. induction k; cbn; congruence. Qed.

Lemma enumerate_from_app {A} (a b : list A) i :
  enumerate_from i (a ++ b) = enumerate_from i a ++ enumerate_from (i + length a) b.
Proof.
  revert i; induction a as [|x a IH]; intros i; cbn [app enumerate_from length].
  - now rewrite Nat.add_0_r.
  - rewrite IH. do 3 f_equal. lia.
Qed.

(* reversed(list(enumerate(reversed keys))): each key with the number of keys after it *)
Fixpoint denum {A} (l : list A) : list (nat * A) :=
  match l with
  | [] => []
  | x :: r => (length r, x) :: denum r
  end.

Lemma rev_enumerate_rev {A} (l : list A) : rev (enumerate_from 0 (rev l)) = denum l.
Proof.
  induction l as [|x l IH]; [reflexivity|].
  cbn [rev denum]. rewrite enumerate_from_app, rev_app_distr. cbn [enumerate_from rev app].
  rewrite IH, rev_length. reflexivity.
Qed.

Lemma first_match_none f l i : (forall k, In k l -> f k = false) -> first_match f l i = None.
Proof.
  revert i; induction l as [|k l IH]; intros i H; [reflexivity|].
  cbn [first_match]. rewrite (H k) by now left. apply IH. intros; apply H; now right.
Qed.

Lemma first_match_at f a k b i :
  (forall x, In x a -> f x = false) -> f k = true -> first_match f (a ++ k :: b) i = Some ((i + length a)%nat, k).
Proof.
  revert i; induction a as [|x a IH]; intros i Ha Hk; cbn [app first_match length].
  - rewrite Hk. now rewrite Nat.add_0_r.
  - rewrite (Ha x) by now left. rewrite IH; [|intros; apply Ha; now right|assumption]. do 2 f_equal. lia.
Qed.

(* ================================================================================================ *)
(* 5. the signing contract on the abstract multisig state                                             *)
Definition keyspec : Type := (bytes * bool)%type.          (* (secret, compressed) *)
Definition row : Type := (keyspec * option N)%type.        (* a listed key and the hash type it has signed with *)

Section Rows.
Variable hash160 : bytes -> bytes.
Variable verifies : bytes -> bytes -> bytes -> bool.
Variable sign : bytes -> bytes -> bytes.
Variable pub_of : bytes -> bool -> bytes.
Variable sighash : bool -> N -> bytes -> option bytes.
Variable wit : bool.
Variable sc : bytes.

Definition pub (k : keyspec) : bytes := pub_of (fst k) (snd k).
Definition blob (k : keyspec) (t : N) : bytes :=
  match sighash wit t sc with Some d => sign (fst k) d ++ [n2b t] | None => [] end.

(* signatures present, as the (index in sec_keys, blob) entries of _find_signatures, in script order *)
Fixpoint dentries (rows : list row) : list (Z * bytes) :=
  match rows with
  | [] => []
  | (k, Some t) :: r => (Z.of_nat (length r), blob k t) :: dentries r
  | (_, None) :: r => dentries r
  end.
Definition real_sigs (rows : list row) : list bytes := map snd (dentries rows).
Fixpoint solved_keys (rows : list row) : list bytes :=
  match rows with
  | [] => []
  | (k, Some _) :: r => pub k :: solved_keys r
  | (_, None) :: r => solved_keys r
  end.
Definition count (rows : list row) : nat := length (dentries rows).

Definition ht_ok (t : N) : Prop := t < 256 /\ sighash wit t sc <> None.
Definition rows_ok (rows : list row) : Prop := forall k t, In (k, Some t) rows -> ht_ok t.

(* drop the section hypotheses before arithmetic so that `lia` does not record them as dependencies *)
Ltac clr := repeat match goal with
  | H : ?T |- _ => match T with
                   | forall _, _ => clear H
                   | ht_ok _ => clear H
                   | nat => clear H
                   | N => clear H
                   | list _ => clear H
                   | bool => clear H
                   | lookup => clear H
                   end
  end.

Hypothesis Hsv : forall se c d, verifies (pub_of se c) d (sign se d) = true.
Hypothesis Hparse : forall se d t, parse_sig_ok (sign se d ++ [t]) = true.

Variable ks : list keyspec.
(* a signature made with one listed key does not verify under another listed key *)
Hypothesis Hexcl : forall a k1 b k2 c d, ks = a ++ k1 :: b ++ k2 :: c ->
  verifies (pub k1) d (sign (fst k2) d) = false /\ verifies (pub k2) d (sign (fst k1) d) = false.
(* the placeholder "signature" verifies under no listed key *)
Hypothesis Hph : forall k d, In k ks -> sighash wit 1 sc = Some d ->
  verifies (pub k) d (removelast gen_c05_placeholder) = false.

Variable m : nat.
Notation sec_keys := (rev (map pub ks)).
Notation FS := (find_sigs verifies sighash wit sc m sec_keys).

Lemma blob_ok k t : ht_ok t -> exists d, sighash wit t sc = Some d /\ blob k t = sign (fst k) d ++ [n2b t] /\
  hash_type_of (blob k t) = t /\ removelast (blob k t) = sign (fst k) d /\ parse_sig_ok (blob k t) = true.
Proof.
  intros [Hlt Hd]. unfold blob. destruct (sighash wit t sc) as [d|] eqn:E; [|congruence].
  exists d. repeat split.
  - unfold hash_type_of. rewrite last_last. now apply b2n_n2b.
  - apply removelast_last.
  - apply Hparse.
Qed.

Lemma find_sigs_cons d r seen :
  FS (d :: r) seen =
  if (m <=? seen)%nat then ([], [])
  else if parse_sig_ok d then
    let found := match sighash wit (hash_type_of d) sc with
                 | Some dg => first_match (fun k => verifies k dg (removelast d)) sec_keys 0
                 | None => None end in
    let '(sigs, solved) := FS r (S seen) in
    match found with Some (i, k) => ((Z.of_nat i, d) :: sigs, k :: solved) | None => (sigs, solved) end
  else FS r seen.
Proof using Type. reflexivity. Qed.

Lemma find_sigs_rows cur : forall pre seen rest,
  ks = map fst (pre ++ cur) -> rows_ok cur -> (seen + count cur <= m)%nat ->
  FS (real_sigs cur ++ rest) seen =
  (dentries cur ++ fst (FS rest (seen + count cur)), solved_keys cur ++ snd (FS rest (seen + count cur))).
Proof.
  induction cur as [|[k [t|]] r IH]; intros pre seen rest Hks Hok Hm.
  - unfold real_sigs, count. cbn [dentries map app solved_keys length]. rewrite Nat.add_0_r. now destruct (FS rest seen).
  - unfold real_sigs, count in *. cbn [dentries map snd app solved_keys length] in *.
    destruct (blob_ok k t) as (d & Hd & Hb & Hty & Hrl & Hp); [apply (Hok k t); now left|].
    rewrite find_sigs_cons. replace (m <=? seen)%nat with false by lia.
    rewrite Hp, Hty, Hd, Hrl.
    assert (Hfm : first_match (fun x => verifies x d (sign (fst k) d)) sec_keys 0 = Some (length r, pub k)).
    { assert (Hsec : sec_keys = rev (map pub (map fst r)) ++ pub k :: rev (map pub (map fst pre))).
      { rewrite Hks, map_app. cbn [map fst]. rewrite map_app. cbn [map]. rewrite rev_app_distr. cbn [rev].
        rewrite <- app_assoc. reflexivity. }
      rewrite Hsec. rewrite first_match_at.
      - rewrite rev_length, !map_length. reflexivity.
      - intros x Hx. apply in_rev in Hx. apply in_map_iff in Hx. destruct Hx as (k' & <- & Hk').
        apply in_split in Hk'. destruct Hk' as (b & c & Hsplit).
        destruct (Hexcl (map fst pre) k b k' c d) as [_ H]; [|exact H].
        rewrite Hks, map_app. cbn [map fst]. now rewrite Hsplit.
      - destruct k as [se c]. apply Hsv. }
    rewrite Hfm.
    specialize (IH (pre ++ [(k, Some t)]) (S seen) rest).
    rewrite <- app_assoc in IH. cbn [app] in IH.
    rewrite IH; [| exact Hks | intros k' t' H'; apply (Hok k' t'); now right | lia].
    replace (S seen + length (dentries r))%nat with (seen + S (length (dentries r)))%nat by lia.
    reflexivity.
  - unfold real_sigs, count in *. cbn [dentries solved_keys] in *.
    specialize (IH (pre ++ [(k, None)]) seen rest).
    rewrite <- app_assoc in IH. cbn [app] in IH.
    apply IH; [exact Hks | intros k' t' H'; apply (Hok k' t'); now right | exact Hm].
Qed.

Lemma find_sigs_pads j : forall seen tail, (seen + j = m)%nat ->
  FS (repeat gen_c05_placeholder j ++ tail) seen = ([], []).
Proof.
  induction j as [|j IH]; intros seen tail Hm; cbn [repeat app].
  - destruct tail as [|x tail]; [reflexivity|]. rewrite find_sigs_cons. now replace (m <=? seen)%nat with true by lia.
  - rewrite find_sigs_cons. replace (m <=? seen)%nat with false by lia.
    replace (parse_sig_ok gen_c05_placeholder) with true by (vm_compute; reflexivity).
    replace (hash_type_of gen_c05_placeholder) with 1 by (vm_compute; reflexivity).
    rewrite IH by lia.
    destruct (sighash wit 1 sc) as [dg|] eqn:E; [|reflexivity].
    rewrite first_match_none; [reflexivity|].
    intros x Hx. apply in_rev in Hx. apply in_map_iff in Hx. destruct Hx as (k & <- & Hk). now apply Hph.
Qed.

Lemma find_sigs_skip_empty r seen : FS ([] :: r) seen = FS r seen.
Proof.
  rewrite find_sigs_cons. destruct (m <=? seen)%nat eqn:E; [|reflexivity].
  destruct r; [reflexivity|]. rewrite find_sigs_cons. now rewrite E.
Qed.

(* the existing unlocking data of a multisig input in abstract state `rows`: dummy, signatures, placeholders, tail *)
Definition sig_items (rows : list row) : list bytes :=
  real_sigs rows ++ repeat gen_c05_placeholder (m - count rows).

Lemma find_sigs_state rows tail : ks = map fst rows -> rows_ok rows -> (count rows <= m)%nat ->
  FS ([] :: sig_items rows ++ tail) 0 = (dentries rows, solved_keys rows).
Proof.
  intros Hks Hok Hc. rewrite find_sigs_skip_empty. unfold sig_items. rewrite <- app_assoc.
  rewrite (find_sigs_rows rows [] 0); [|exact Hks|exact Hok|lia].
  cbn [Nat.add]. rewrite find_sigs_pads by lia. cbn [fst snd]. now rewrite !app_nil_r.
Qed.

(* ---- one signing pass: lookup table db, hash type ht ---------------------------------------------- *)
Variable db : lookup.
Variable ht : N.
Hypothesis Hdb : forall k se c, In k ks -> lookup_get db (hash160 (pub k)) = Some (se, c) -> se = fst k.
Hypothesis Hht : ht_ok ht.

Definition avail (k : keyspec) : bool :=
  match lookup_get db (hash160 (pub k)) with Some _ => true | None => false end.

(* the first `budget` unsigned available keys, in script order, sign with ht *)
Fixpoint fill (budget : nat) (rows : list row) : list row :=
  match rows with
  | [] => []
  | (k, Some t) :: r => (k, Some t) :: fill budget r
  | (k, None) :: r =>
    match budget with
    | O => (k, None) :: r
    | S b => if avail k then (k, Some ht) :: fill b r else (k, None) :: fill (S b) r
    end
  end.

Fixpoint new_entries (budget : nat) (rows : list row) : list (Z * bytes) :=
  match rows with
  | [] => []
  | (k, Some t) :: r => new_entries budget r
  | (k, None) :: r =>
    match budget with
    | O => []
    | S b => if avail k then (Z.of_nat (length r), blob k ht) :: new_entries b r else new_entries (S b) r
    end
  end.

Lemma fill_length b rows : length (fill b rows) = length rows.
Proof using Type.
  clr.
  revert b; induction rows as [|[k [t|]] r IH]; intros b; cbn [fill length]; auto.
  destruct b; [reflexivity|]. destruct (avail k); cbn [length]; auto.
Qed.

Lemma fill_fst b rows : map fst (fill b rows) = map fst rows.
Proof using Type.
  clr.
  revert b; induction rows as [|[k [t|]] r IH]; intros b; cbn [fill map fst]; auto.
  - now rewrite IH.
  - destruct b; [reflexivity|]. destruct (avail k); cbn [map fst]; now rewrite IH.
Qed.

Lemma fill_ok b rows : rows_ok rows -> rows_ok (fill b rows).
Proof.
  revert b; induction rows as [|[k [t|]] r IH]; intros b Hok; cbn [fill]; auto.
  - intros k' t' [H|H]; [apply (Hok k' t'); now left|]. apply (IH b) in H; [exact H|]. intros ? ? ?; eapply Hok; right; eauto.
  - assert (Hr : rows_ok r) by (intros ? ? ?; eapply Hok; right; eauto).
    destruct b; [exact Hok|]. destruct (avail k).
    + intros k' t' [H|H]; [injection H as <- <-; exact Hht | now apply (IH b Hr k' t')].
    + intros k' t' [H|H]; [discriminate | now apply (IH (S b) Hr k' t')].
Qed.

Lemma new_entries_length b rows : (length (new_entries b rows) <= b)%nat.
Proof using Type.
  clr.
  revert b; induction rows as [|[k [t|]] r IH]; intros b; cbn [new_entries length]; try lia; auto.
  destruct b; [cbn; lia|]. destruct (avail k); cbn [length]; [specialize (IH b) | specialize (IH (S b))]; lia.
Qed.

Lemma dentries_fill_perm b rows : Permutation (dentries rows ++ new_entries b rows) (dentries (fill b rows)).
Proof using Type.
  clr.
  revert b; induction rows as [|[k [t|]] r IH]; intros b; cbn [dentries new_entries fill app].
  - constructor.
  - rewrite fill_length. apply perm_skip, IH.
  - destruct b; [rewrite app_nil_r; apply Permutation_refl|].
    destruct (avail k); cbn [dentries].
    + rewrite fill_length. apply Permutation_sym. eapply perm_trans; [|apply Permutation_middle].
      apply perm_skip, Permutation_sym, IH.
    + apply IH.
Qed.

Lemma count_fill b rows : count (fill b rows) = (count rows + length (new_entries b rows))%nat.
Proof using Type. unfold count. rewrite <- (Permutation_length (dentries_fill_perm b rows)), app_length. reflexivity. Qed.

(* positions: a listed key is not the key of another position *)
Lemma pub_distinct a k1 b k2 c : ks = a ++ k1 :: b ++ k2 :: c -> pub k1 <> pub k2.
Proof.
  intros Hs E. destruct (Hexcl a k1 b k2 c [] Hs) as [H _].
  rewrite E in H. destruct k2 as [se cc]. unfold pub in H. cbn [fst snd] in H. rewrite Hsv in H. discriminate.
Qed.

Lemma solved_keys_in x rows : In x (solved_keys rows) -> exists k t, In (k, Some t) rows /\ x = pub k.
Proof using Type.
  clr.
  induction rows as [|[k [t|]] r IH]; cbn [solved_keys]; [intros []| |].
  - intros [<-|H]; [exists k, t; split; [now left|reflexivity]|].
    destruct (IH H) as (k' & t' & H1 & H2). exists k', t'. split; [now right|exact H2].
  - intros H. destruct (IH H) as (k' & t' & H1 & H2). exists k', t'. split; [now right|exact H2].
Qed.

Lemma existsb_bytes_in x l : existsb (bytes_eqb x) l = true <-> In x l.
Proof.
  rewrite existsb_exists. split.
  - intros (y & Hy & E). apply bytes_eqb_eq in E. now subst.
  - intros H. exists x. split; [exact H | apply bytes_eqb_refl].
Qed.

(* no unsigned listed key has the same encoding as a key that has signed *)
Definition no_clash (rows : list row) : Prop :=
  forall k, In (k, None) rows -> ~ In (pub k) (solved_keys rows).

Lemma no_clash_of_excl rows : ks = map fst rows -> no_clash rows.
Proof.
  intros Hks k Hk H.
  apply solved_keys_in in H. destruct H as (k' & t' & Hin & E).
  apply in_split in Hk. destruct Hk as (pre & r & ->).
  apply in_app_or in Hin. destruct Hin as [Hin|[Hin|Hin]]; [|discriminate|].
  - apply in_split in Hin. destruct Hin as (a & b & ->).
    apply (pub_distinct (map fst a) k' (map fst b) k (map fst r)); [|now symmetry].
    rewrite Hks, !map_app. cbn [map fst]. rewrite <- app_assoc. reflexivity.
  - apply in_split in Hin. destruct Hin as (a & b & ->).
    apply (pub_distinct (map fst pre) k (map fst a) k' (map fst b)); [|exact E].
    rewrite Hks, map_app. cbn [map fst]. now rewrite map_app.
Qed.

Lemma sign_loop_rows cur : forall pre acc,
  ks = map fst (pre ++ cur) -> no_clash (pre ++ cur) ->
  sign_loop hash160 sign sighash db wit sc ht m (denum (map (fun r => pub (fst r)) cur)) (solved_keys (pre ++ cur)) acc
  = Ret (acc ++ new_entries (m - length acc) cur).
Proof.
  clear Hexcl Hph Hsv Hparse.
  induction cur as [|[k [t|]] r IH]; intros pre acc Hks Hnc.
  - cbn [map denum sign_loop new_entries]. now rewrite app_nil_r.
  - cbn [map denum sign_loop new_entries fst].
    replace (existsb (bytes_eqb (pub k)) (solved_keys (pre ++ (k, Some t) :: r))) with true.
    + specialize (IH (pre ++ [(k, Some t)]) acc). rewrite <- app_assoc in IH. cbn [app] in IH. now apply IH.
    + symmetry. apply existsb_bytes_in. clear. induction pre as [|[k' [t'|]] pre IHp]; cbn [app solved_keys]; [now left|now right|exact IHp].
  - cbn [map denum sign_loop new_entries fst].
    replace (existsb (bytes_eqb (pub k)) (solved_keys (pre ++ (k, None) :: r))) with false.
    2:{ symmetry. apply not_true_iff_false. intros H. apply existsb_bytes_in in H.
        apply (Hnc k); [apply in_or_app; right; now left | exact H]. }
    rewrite map_length.
    destruct (m - length acc)%nat as [|b] eqn:Eb.
    + replace (m <=? length acc)%nat with true by lia. now rewrite app_nil_r.
    + replace (m <=? length acc)%nat with false by lia.
      unfold avail. destruct (lookup_get db (hash160 (pub k))) as [[se c]|] eqn:El.
      * assert (se = fst k) as ->.
        { eapply Hdb; [|exact El]. rewrite Hks, map_app. apply in_or_app. right. now left. }
        destruct Hht as [Hlt Hd]. destruct (sighash wit ht sc) as [dg|] eqn:Ed; [|congruence].
        replace (256 <=? ht) with false by lia.
        specialize (IH (pre ++ [(k, None)]) (acc ++ [(Z.of_nat (length r), sign (fst k) dg ++ [n2b ht])])).
        rewrite <- app_assoc in IH. cbn [app] in IH. rewrite IH by assumption.
        rewrite app_length. cbn [length]. replace (m - (length acc + 1))%nat with b by lia.
        rewrite <- app_assoc. cbn [app]. unfold blob. now rewrite Ed.
      * specialize (IH (pre ++ [(k, None)]) acc). rewrite <- app_assoc in IH. cbn [app] in IH.
        rewrite IH by assumption. now rewrite Eb.
Qed.

Lemma dentries_bound rows : Forall (fun e => (0 <= fst e < Z.of_nat (length rows))%Z) (dentries rows).
Proof using Type.
  clr.
  induction rows as [|[k [t|]] r IH]; cbn [dentries length]; [constructor| |].
  - constructor; [cbn [fst]; lia|]. eapply Forall_impl; [|exact IH]. cbn beta. intros; lia.
  - eapply Forall_impl; [|exact IH]. cbn beta. intros; lia.
Qed.

Lemma dentries_desc rows : StronglySorted (fun a b => (fst b < fst a)%Z) (dentries rows).
Proof using Type.
  clr.
  induction rows as [|[k [t|]] r IH]; cbn [dentries]; [constructor| |exact IH].
  constructor; [exact IH|]. eapply Forall_impl; [|apply dentries_bound]. cbn [fst]. intros; lia.
Qed.

Lemma sorted_weaken {A} (R R' : A -> A -> Prop) l :
  (forall a b, R a b -> R' a b) -> StronglySorted R l -> StronglySorted R' l.
Proof.
  intros H. induction 1 as [|a l S IH F]; constructor; [exact IH|].
  eapply Forall_impl; [|exact F]. intros; now apply H.
Qed.

Lemma expected_sorted rows j :
  StronglySorted ele (repeat ((-1)%Z, gen_c05_placeholder) j ++ rev (dentries rows)).
Proof using Type.
  clr.
  apply sorted_app.
  - apply sorted_repeat, ele_refl.
  - apply (sorted_weaken (fun a b => (fst a < fst b)%Z)); [intros; now apply ele_lt|].
    apply (sorted_rev (fun a b => (fst b < fst a)%Z)), dentries_desc.
  - intros a b Ha Hb. apply repeat_spec in Ha. subst a. apply ele_lt. cbn [fst].
    apply in_rev in Hb. pose proof (dentries_bound rows) as F. rewrite Forall_forall in F. specialize (F _ Hb). lia.
Qed.

Lemma real_sigs_length rows : length (real_sigs rows) = count rows.
Proof using Type. clr. unfold real_sigs, count. apply map_length. Qed.

Lemma signing_solver_from blobs rows : ks = map fst rows -> (count rows <= m)%nat -> no_clash rows ->
  find_sigs verifies sighash wit sc m (rev (map pub ks)) blobs 0 = (dentries rows, solved_keys rows) ->
  signing_solver hash160 verifies sign sighash db wit sc ht m (map pub ks) blobs
  = Ret (sig_items (fill (m - count rows) rows)).
Proof.
  clear Hexcl Hph Hsv Hparse.
  intros Hks Hc Hnc Hfs. unfold signing_solver. rewrite Hfs.
  rewrite rev_enumerate_rev.
  replace (map pub ks) with (map (fun r : keyspec * option N => pub (fst r)) rows) by (rewrite Hks, map_map; reflexivity).
  pose proof (sign_loop_rows rows [] (dentries rows)) as HL. cbn [app] in HL. rewrite HL by assumption. clear HL.
  fold (count rows).
  set (b := (m - count rows)%nat). set (rows' := fill b rows).
  assert (Hc' : count rows' = (count rows + length (new_entries b rows))%nat) by apply count_fill.
  pose proof (new_entries_length b rows) as Hn.
  rewrite app_length. fold (count rows). rewrite <- Hc'.
  set (j := (m - count rows')%nat).
  rewrite (isort_unique _ (repeat ((-1)%Z, gen_c05_placeholder) j ++ rev (dentries rows'))).
  - rewrite firstn_all2.
    2:{ rewrite app_length, repeat_length, rev_length. fold (count rows'). lia. }
    rewrite map_app, map_repeat, map_rev, rev_app_distr, rev_involutive, rev_repeat. cbn [snd].
    unfold sig_items. fold j. reflexivity.
  - apply expected_sorted.
  - eapply perm_trans; [apply Permutation_app_comm|]. apply Permutation_app_head.
    eapply perm_trans; [apply dentries_fill_perm | apply Permutation_rev].
Qed.

(* ---- the template evaluator on an abstract state ---------------------------------------------------- *)
Variable fl : flags.
Notation sv := (sig_verifies verifies sighash wit sc).

Lemma sig_verifies_nonempty s k : s <> [] ->
  sv s k = match sighash wit (hash_type_of s) sc with Some d => verifies k d (removelast s) | None => false end.
Proof. destruct s; [congruence | reflexivity]. Qed.

Lemma sv_blob k t : ht_ok t -> sv (blob k t) (pub k) = true.
Proof.
  intros H. destruct (blob_ok k t H) as (d & Hd & Hb & Hty & Hrl & Hp).
  unfold sig_verifies. rewrite Hty, Hd, Hrl.
  destruct (blob k t) eqn:E.
  - rewrite Hb in E. destruct (sign (fst k) d); discriminate.
  - destruct k as [se c]. apply Hsv.
Qed.

Lemma sv_placeholder k : In k ks -> sv gen_c05_placeholder (pub k) = false.
Proof.
  intros Hk. rewrite sig_verifies_nonempty by (unfold gen_c05_placeholder; discriminate).
  replace (hash_type_of gen_c05_placeholder) with 1 by (vm_compute; reflexivity).
  destruct (sighash wit 1 sc) as [d|] eqn:Ed; [|reflexivity]. now apply Hph.
Qed.

Lemma matchable_rows rows : rows_ok rows ->
  matchable verifies sighash wit sc (rev (map pub (map fst rows))) (rev (real_sigs rows)).
Proof.
  induction rows as [|[k [t|]] r IH]; intros Hok; unfold real_sigs; cbn [map fst dentries rev snd].
  - constructor.
  - apply matchable_snoc_take.
    + apply sv_blob. apply (Hok k t). now left.
    + apply IH. intros ? ? ?; eapply Hok; right; eauto.
  - apply matchable_snoc_skip. apply IH. intros ? ? ?; eapply Hok; right; eauto.
Qed.

Definition rows_enc_ok (rows : list row) : Prop :=
  forall k t, In (k, Some t) rows -> sig_enc_ok fl (blob k t) = true.

Lemma real_sigs_in x rows : In x (real_sigs rows) -> exists k t, In (k, Some t) rows /\ x = blob k t.
Proof using Type.
  clr.
  unfold real_sigs. induction rows as [|[k [t|]] r IH]; cbn [dentries map snd]; [intros []| |].
  - intros [<-|H]; [exists k, t; split; [now left|reflexivity]|].
    destruct (IH H) as (k' & t' & H1 & H2). exists k', t'. split; [now right|exact H2].
  - intros H. destruct (IH H) as (k' & t' & H1 & H2). exists k', t'. split; [now right|exact H2].
Qed.

Lemma sig_items_length rows : (count rows <= m)%nat -> length (sig_items rows) = m.
Proof using Type. clr. intros H. unfold sig_items. rewrite app_length, repeat_length, real_sigs_length. lia. Qed.

(* all m signatures present: accepted; needs sign => verifies only *)
Lemma eval_multisig_full rows clean :
  ks = map fst rows -> rows_ok rows -> rows_enc_ok rows -> count rows = m ->
  (1 <= m <= length ks)%nat -> (length ks <= 20)%nat ->
  (forall k, In k ks -> pub_enc_ok fl wit (pub k) = true) ->
  eval_multisig verifies sighash fl wit clean sc m (map pub ks) ([] :: sig_items rows) = true.
Proof.
  clear Hexcl Hph.
  intros Hks Hok Henc Hc Hm Hn Hpub.
  unfold eval_multisig. rewrite map_length. cbn [length]. rewrite sig_items_length by lia.
  replace ((1 <=? m)%nat && (m <=? length ks)%nat && (length ks <=? 20)%nat && (m + 1 <=? S m)%nat) with true by lia.
  replace (lenN ([] :: sig_items rows) + N.of_nat (length ks) + 2 <=? 1000) with true
    by (unfold lenN; cbn [length]; rewrite sig_items_length by lia; lia).
  replace (S m - (m + 1))%nat with 0%nat by lia. cbn [skipn firstn andb is_nil].
  replace (if f_std fl then true else true) with true by (destruct (f_std fl); reflexivity).
  replace (if clean then true else true) with true by (destruct clean; reflexivity).
  rewrite andb_true_r. cbn [andb].
  unfold sig_items. replace (m - count rows)%nat with 0%nat by lia. cbn [repeat]. rewrite app_nil_r.
  apply cms_matchable.
  - rewrite Forall_forall. intros x Hx. apply in_rev in Hx. apply real_sigs_in in Hx.
    destruct Hx as (k & t & Hin & ->). now apply (Henc k t).
  - rewrite Forall_forall. intros x Hx. apply in_rev in Hx. apply in_map_iff in Hx.
    destruct Hx as (k & <- & Hk). now apply Hpub.
  - rewrite Hks. now apply matchable_rows.
Qed.

Lemma eval_multisig_state rows clean :
  ks = map fst rows -> rows_ok rows -> rows_enc_ok rows -> (count rows <= m)%nat ->
  (1 <= m <= length ks)%nat -> (length ks <= 20)%nat ->
  (forall k, In k ks -> pub_enc_ok fl wit (pub k) = true) ->
  eval_multisig verifies sighash fl wit clean sc m (map pub ks) ([] :: sig_items rows) = (count rows =? m)%nat.
Proof.
  intros Hks Hok Henc Hc Hm Hn Hpub.
  destruct (count rows =? m)%nat eqn:E.
  - apply eval_multisig_full; auto. lia.
  - unfold eval_multisig. rewrite map_length. cbn [length]. rewrite sig_items_length by exact Hc.
    replace ((1 <=? m)%nat && (m <=? length ks)%nat && (length ks <=? 20)%nat && (m + 1 <=? S m)%nat) with true by lia.
    replace (lenN ([] :: sig_items rows) + N.of_nat (length ks) + 2 <=? 1000) with true
      by (unfold lenN; cbn [length]; rewrite sig_items_length by exact Hc; lia).
    replace (S m - (m + 1))%nat with 0%nat by lia. cbn [skipn firstn andb is_nil].
    replace (if f_std fl then true else true) with true by (destruct (f_std fl); reflexivity).
    replace (if clean then true else true) with true by (destruct clean; reflexivity).
    rewrite andb_true_r. cbn [andb].
    unfold sig_items. destruct (m - count rows)%nat as [|j] eqn:Ej; [lia|].
    rewrite rev_app_distr, rev_repeat. cbn [repeat app].
    apply cms_head_never. intros x Hx. apply in_rev in Hx. apply in_map_iff in Hx.
    destruct Hx as (k & <- & Hk). now apply sv_placeholder.
Qed.
End Rows.

(* ================================================================================================ *)
(* 6. sizes                                                                                           *)
Lemma push_data_length d : lenN d <= 65535 -> lenN (push_data d) <= lenN d + 3.
Proof.
  intros H. unfold push_data, spec_push. destruct d as [|b [|b2 r]].
  - cbn. lia.
  - destruct ((1 <=? b2n b) && (b2n b <=? 16)); [cbn; lia|]. destruct (b2n b =? 129); cbn; lia.
  - set (d := b :: b2 :: r) in *. fold (lenN d).
    destruct (lenN d <=? 75); [rewrite lenN_cons; lia|].
    destruct (lenN d <=? 255); [rewrite lenN_cons, lenN_app; unfold lenN at 1; rewrite le_encode_length; lia|].
    destruct (lenN d <=? 65535) eqn:E65; [rewrite lenN_cons, lenN_app; unfold lenN at 1; rewrite le_encode_length; lia|lia].
Qed.

Lemma pushes_app a b : pushes (a ++ b) = pushes a ++ pushes b.
Proof. unfold pushes. apply flat_map_app. Qed.

Lemma lenN_pushes B items : B <= 65535 -> Forall (fun d => lenN d <= B) items -> lenN (pushes items) <= (B + 3) * lenN items.
Proof.
  intros HB. induction 1 as [|d items Hd H IH]; [cbn; lia|].
  unfold pushes in *. cbn [flat_map]. rewrite lenN_app, lenN_cons.
  pose proof (push_data_length d ltac:(lia)). nia.
Qed.

Lemma split_last_snoc {A} (l : list A) x : split_last (l ++ [x]) = Some (l, x).
Proof. unfold split_last. rewrite rev_app_distr. cbn [rev app]. now rewrite rev_involutive. Qed.

Lemma strict_der_len sig : strict_der sig = true -> lenN sig <= 73.
Proof.
  unfold strict_der. intros H. repeat (apply andb_true_iff in H; destruct H as [H ?]). unfold lenN. lia.
Qed.

Lemma all_le_520_forall items : Forall (fun d => lenN d <= 520) items -> all_le_520 items = true.
Proof.
  intros H. unfold all_le_520. apply forallb_forall. rewrite Forall_forall in H. intros x Hx. specialize (H x Hx). lia.
Qed.

Lemma Forall_le_weaken items a b : a <= b -> Forall (fun d : bytes => lenN d <= a) items -> Forall (fun d : bytes => lenN d <= b) items.
Proof. intros Hab. apply Forall_impl. intros; lia. Qed.

(* ================================================================================================ *)
(* 7. the four multisig kinds: rendered states, evaluation, one signing pass                          *)
Definition is_ms_kind (kd : kind) : Prop := kd = K_MS \/ kd = K_P2SH_MS \/ kd = K_P2WSH_MS \/ kd = K_P2SH_P2WSH_MS.
Definition kwit (kd : kind) : bool := match kd with K_P2WSH_MS | K_P2SH_P2WSH_MS => true | _ => false end.

Section MsKinds.
Variable hash160 : bytes -> bytes.
Variable sha256 : bytes -> bytes.
Variable verifies : bytes -> bytes -> bytes -> bool.
Variable sign : bytes -> bytes -> bytes.
Variable pub_of : bytes -> bool -> bytes.
Variable sighash : bool -> N -> bytes -> option bytes.

Hypothesis Hsv : forall se c d, verifies (pub_of se c) d (sign se d) = true.
Hypothesis Hcanon : forall se d t, strict_der (sign se d ++ [t]) = true /\ low_s (sign se d ++ [t]) = true.
Hypothesis Hparse : forall se d t, parse_sig_ok (sign se d ++ [t]) = true.
Hypothesis Hsha : forall x, length (sha256 x) = 32%nat.

Notation keys_of ks := (map (pub pub_of) ks).
Notation ms_of m ks := (ms_script m (keys_of ks)).

Definition pz_ms (kd : kind) (m : nat) (ks : list keyspec) : puzzle := mkPuzzle kd m (keys_of ks) [].

(* what the property text assumes about the puzzle, plus the two hypotheses on the abstract ECDSA *)
Record ms_ok (kd : kind) (m : nat) (ks : list keyspec) : Prop := {
  mo_kind : is_ms_kind kd;
  mo_m : (1 <= m <= length ks)%nat;
  mo_n : (length ks <= 20)%nat;
  mo_520 : kd = K_P2SH_MS -> lenN (ms_of m ks) <= 520;
  mo_10k : lenN (ms_of m ks) <= 10000;
  mo_excl : forall a k1 b k2 c d, ks = a ++ k1 :: b ++ k2 :: c ->
            verifies (pub pub_of k1) d (sign (fst k2) d) = false /\ verifies (pub pub_of k2) d (sign (fst k1) d) = false;
  mo_ph : forall k d, In k ks -> sighash (kwit kd) 1 (ms_of m ks) = Some d ->
          verifies (pub pub_of k) d (removelast gen_c05_placeholder) = false
}.

(* the part of ms_ok that is about sizes only *)
Record ms_shape (kd : kind) (m : nat) (ks : list keyspec) : Prop := {
  sh_kind : is_ms_kind kd;
  sh_m : (1 <= m <= length ks)%nat;
  sh_n : (length ks <= 20)%nat;
  sh_520 : kd = K_P2SH_MS -> lenN (ms_of m ks) <= 520;
  sh_10k : lenN (ms_of m ks) <= 10000
}.
Lemma ms_ok_shape kd m ks : ms_ok kd m ks -> ms_shape kd m ks.
Proof. intros [H1 H2 H3 H4 H5 _ _]. now constructor. Qed.

(* the redeem / witness scripts the caller must supply *)
Definition p2sh_ok (kd : kind) (m : nat) (ks : list keyspec) (p2sh : list bytes) : Prop :=
  let ms := ms_of m ks in
  (kd = K_P2SH_MS -> p2sh_get hash160 sha256 p2sh (hash160 ms) = Some ms) /\
  (kd = K_P2WSH_MS \/ kd = K_P2SH_P2WSH_MS -> p2sh_get hash160 sha256 p2sh (sha256 ms) = Some ms) /\
  (kd = K_P2SH_P2WSH_MS ->
   p2sh_get hash160 sha256 p2sh (hash160 (wit0_script (sha256 ms))) = Some (wit0_script (sha256 ms))).

Definition items (kd : kind) (m : nat) (ks : list keyspec) (rows : list row) : list bytes :=
  [] :: sig_items sign sighash (kwit kd) (ms_of m ks) m rows.

Definition render (kd : kind) (m : nat) (ks : list keyspec) (rows : list row) : bytes * list bytes :=
  let ms := ms_of m ks in
  let its := items kd m ks rows in
  match kd with
  | K_MS => (pushes its, [])
  | K_P2SH_MS => (pushes (its ++ [ms]), [])
  | K_P2WSH_MS => ([], its ++ [ms])
  | K_P2SH_P2WSH_MS => (pushes [wit0_script (sha256 ms)], its ++ [ms])
  | _ => ([], [])
  end.

Lemma blob_small w sc k t : lenN (blob sign sighash w sc k t) <= 73.
Proof.
  unfold blob. destruct (sighash w t sc); [|cbn; lia]. apply strict_der_len. apply Hcanon.
Qed.

Lemma items_small kd m ks rows : Forall (fun d => lenN d <= 73) (items kd m ks rows).
Proof.
  unfold items. constructor; [cbn; lia|]. unfold sig_items. apply Forall_app. split.
  - rewrite Forall_forall. intros x Hx. apply real_sigs_in in Hx. destruct Hx as (k & t & _ & ->). apply blob_small.
  - rewrite Forall_forall. intros x Hx. apply repeat_spec in Hx. subst x. vm_compute. discriminate.
Qed.

Lemma items_length kd m ks rows : (count sign sighash (kwit kd) (ms_of m ks) rows <= m)%nat ->
  length (items kd m ks rows) = S m.
Proof. intros H. unfold items. cbn [length]. now rewrite sig_items_length. Qed.

Lemma wit0_sha_len x : lenN (wit0_script (sha256 x)) = 34.
Proof.
  unfold wit0_script, push_data, spec_push. pose proof (Hsha x) as H.
  destruct (sha256 x) as [|b [|b2 r]] eqn:E; [discriminate|discriminate|].
  rewrite <- E in *. unfold lenN. rewrite H. cbn [N.of_nat Pos.of_succ_nat Pos.succ N.leb N.compare Pos.compare Pos.compare_cont].
  cbn [app length]. rewrite H. reflexivity.
Qed.

Lemma parse_pushes_nil : parse_pushes [] = Some ([], true).
Proof. reflexivity. Qed.

Lemma items_sizes kd m ks rows : (m <= 20)%nat -> lenN (ms_of m ks) <= 520 ->
  (count sign sighash (kwit kd) (ms_of m ks) rows <= m)%nat ->
  lenN (items kd m ks rows) <= 21 /\
  lenN (pushes (items kd m ks rows)) <= 1600 /\ lenN (pushes (items kd m ks rows ++ [ms_of m ks])) <= 2200.
Proof.
  intros Hm Hms Hc.
  assert (H1 : lenN (items kd m ks rows) <= 21) by (unfold lenN; rewrite items_length by exact Hc; lia).
  pose proof (lenN_pushes 73 _ ltac:(lia) (items_small kd m ks rows)) as H2.
  split; [exact H1|]. split; [lia|].
  rewrite pushes_app, lenN_app.
  pose proof (lenN_pushes 520 [ms_of m ks] ltac:(lia) ltac:(repeat constructor; exact Hms)) as H3.
  change (lenN [ms_of m ks]) with 1 in H3. lia.
Qed.

Lemma eval_render_reduce fl kd m ks rows :
  ms_shape kd m ks -> (count sign sighash (kwit kd) (ms_of m ks) rows <= m)%nat ->
  exists clean,
  eval_input hash160 sha256 verifies sighash fl (pz_ms kd m ks) (fst (render kd m ks rows)) (snd (render kd m ks rows))
  = eval_multisig verifies sighash fl (kwit kd) clean (ms_of m ks) m (keys_of ks) (items kd m ks rows).
Proof.
  intros [Hkd Hm Hn H520 H10k] Hc.
  pose proof (items_small kd m ks rows) as Hsm.
  assert (Hsm520 : all_le_520 (items kd m ks rows) = true)
    by (apply all_le_520_forall; eapply Forall_le_weaken; [|exact Hsm]; lia).
  assert (Hm20 : (m <= 20)%nat) by lia.
  unfold eval_input.
  destruct Hkd as [ -> | [ -> | [ -> | -> ] ] ]; cbn [render fst snd pz_ms pz_kind pz_m pz_keys kwit] in *.
  - (* bare *)
    exists (f_std fl).
    assert (H1 : lenN (items K_MS m ks rows) <= 21) by (unfold lenN; rewrite items_length by exact Hc; lia).
    pose proof (lenN_pushes 73 _ ltac:(lia) Hsm) as H2.
    replace (10000 <? lenN (pushes (items K_MS m ks rows))) with false by lia.
    rewrite parse_pushes_pushes by (eapply Forall_le_weaken; [|exact Hsm]; lia).
    rewrite Hsm520. replace (1000 <? lenN (items K_MS m ks rows)) with false by lia.
    rewrite andb_false_r. cbn [negb orb is_nil andb]. reflexivity.
  - (* P2SH *)
    exists (f_std fl).
    specialize (H520 eq_refl).
    destruct (items_sizes K_P2SH_MS m ks rows Hm20 H520 Hc) as (H1 & H2 & H3).
    replace (10000 <? lenN (pushes (items K_P2SH_MS m ks rows ++ [ms_of m ks]))) with false by lia.
    rewrite parse_pushes_pushes.
    2:{ apply Forall_app. split; [eapply Forall_le_weaken; [|exact Hsm]; lia | repeat constructor; lia]. }
    replace (all_le_520 (items K_P2SH_MS m ks rows ++ [ms_of m ks])) with true.
    2:{ symmetry. apply all_le_520_forall. apply Forall_app. split; [eapply Forall_le_weaken; [|exact Hsm]; lia | repeat constructor; lia]. }
    replace (1000 <? lenN (items K_P2SH_MS m ks rows ++ [ms_of m ks])) with false by (rewrite lenN_app; change (lenN [ms_of m ks]) with 1; lia).
    rewrite andb_false_r. cbn [negb orb is_nil andb].
    rewrite split_last_snoc, bytes_eqb_refl. cbn [andb]. reflexivity.
  - (* P2WSH *)
    exists true.
    change (10000 <? lenN (@nil byte)) with false. cbv iota. rewrite parse_pushes_nil.
    rewrite andb_false_r. cbn [negb orb all_le_520 forallb lenN length N.of_nat N.ltb N.compare expected_wit_script_sig pz_kind bytes_eqb andb].
    unfold eval_witness_part. cbn [pz_kind pz_m pz_keys].
    rewrite split_last_snoc, bytes_eqb_refl, Hsm520.
    replace (lenN (ms_of m ks) <=? 10000) with true by lia. cbn [andb]. reflexivity.
  - (* P2SH-P2WSH *)
    exists true.
    pose proof (wit0_sha_len (ms_of m ks)) as Hw.
    pose proof (push_data_length (wit0_script (sha256 (ms_of m ks))) ltac:(lia)) as Hp.
    assert (Hpp : pushes [wit0_script (sha256 (ms_of m ks))] = push_data (wit0_script (sha256 (ms_of m ks))))
      by (unfold pushes; cbn [flat_map]; apply app_nil_r).
    replace (10000 <? lenN (pushes [wit0_script (sha256 (ms_of m ks))])) with false by (rewrite Hpp; lia).
    rewrite parse_pushes_pushes by (repeat constructor; lia).
    replace (all_le_520 [wit0_script (sha256 (ms_of m ks))]) with true
      by (symmetry; apply all_le_520_forall; repeat constructor; lia).
    change (lenN [wit0_script (sha256 (ms_of m ks))]) with 1.
    rewrite andb_false_r. cbn [negb orb N.ltb N.compare Pos.compare Pos.compare_cont expected_wit_script_sig pz_kind pz_m pz_keys].
    rewrite Hpp, bytes_eqb_refl. cbn [andb].
    unfold eval_witness_part. cbn [pz_kind pz_m pz_keys].
    rewrite split_last_snoc, bytes_eqb_refl, Hsm520.
    replace (lenN (ms_of m ks) <=? 10000) with true by lia. cbn [andb]. reflexivity.
Qed.

Lemma eval_render fl kd m ks rows :
  ms_ok kd m ks -> ks = map fst rows ->
  rows_ok sighash (kwit kd) (ms_of m ks) rows -> rows_enc_ok sign sighash (kwit kd) (ms_of m ks) fl rows ->
  (count sign sighash (kwit kd) (ms_of m ks) rows <= m)%nat ->
  (forall k, In k ks -> pub_enc_ok fl (kwit kd) (pub pub_of k) = true) ->
  eval_input hash160 sha256 verifies sighash fl (pz_ms kd m ks) (fst (render kd m ks rows)) (snd (render kd m ks rows))
  = (count sign sighash (kwit kd) (ms_of m ks) rows =? m)%nat.
Proof.
  intros Hok Hks Hrok Henc Hc Hpub.
  destruct (eval_render_reduce fl kd m ks rows (ms_ok_shape _ _ _ Hok) Hc) as (clean & ->).
  destruct Hok as [Hkd Hm Hn H520 H10k Hex Hph].
  unfold items. eapply (eval_multisig_state) with (hash160 := hash160) (db := []); eauto.
  intros ? ? ? ? H; discriminate H.
Qed.

(* all signatures present: accepted (no hypothesis on other keys or on the placeholder) *)
Lemma eval_render_full fl kd m ks rows :
  ms_shape kd m ks -> ks = map fst rows ->
  rows_ok sighash (kwit kd) (ms_of m ks) rows -> rows_enc_ok sign sighash (kwit kd) (ms_of m ks) fl rows ->
  count sign sighash (kwit kd) (ms_of m ks) rows = m ->
  (forall k, In k ks -> pub_enc_ok fl (kwit kd) (pub pub_of k) = true) ->
  eval_input hash160 sha256 verifies sighash fl (pz_ms kd m ks) (fst (render kd m ks rows)) (snd (render kd m ks rows)) = true.
Proof.
  intros Hsh Hks Hrok Henc Hc Hpub.
  destruct (eval_render_reduce fl kd m ks rows Hsh ltac:(lia)) as (clean & ->).
  destruct Hsh as [Hkd Hm Hn H520 H10k].
  unfold items. eapply (eval_multisig_full) with (hash160 := hash160) (db := []); eauto.
  intros ? ? ? ? H; discriminate H.
Qed.

Definition db_ok (db : lookup) (ks : list keyspec) : Prop :=
  forall k se c, In k ks -> lookup_get db (hash160 (pub pub_of k)) = Some (se, c) -> se = fst k.

Notation FILL db ht kd m ks rows :=
  (fill hash160 pub_of db ht (m - count sign sighash (kwit kd) (ms_of m ks) rows) rows).

Lemma solve_generic kd m ks rows db ht p2sh s w blobs :
  ms_shape kd m ks -> no_clash pub_of rows -> p2sh_ok kd m ks p2sh -> ks = map fst rows ->
  (count sign sighash (kwit kd) (ms_of m ks) rows <= m)%nat ->
  db_ok db ks -> ht_ok sighash (kwit kd) (ms_of m ks) ht ->
  existing_blobs s w = Some blobs ->
  find_sigs verifies sighash (kwit kd) (ms_of m ks) m (rev (keys_of ks)) blobs 0
    = (dentries sign sighash (kwit kd) (ms_of m ks) rows, solved_keys pub_of rows) ->
  solve_input hash160 sha256 verifies sign pub_of sighash db p2sh (pz_ms kd m ks) ht s w
  = Solved (fst (render kd m ks (FILL db ht kd m ks rows)))
           (if kwit kd then Some (snd (render kd m ks (FILL db ht kd m ks rows))) else None).
Proof.
  intros [Hkd Hm Hn H520 H10k] Hnc (Hp1 & Hp2 & Hp3) Hks Hc Hdb Hht Hblobs Hfs.
  pose proof (signing_solver_from hash160 verifies sign pub_of sighash (kwit kd) (ms_of m ks) ks m db ht
                Hdb Hht blobs rows Hks Hc Hnc Hfs) as HS.
  unfold solve_input. rewrite Hblobs.
  destruct Hkd as [ -> | [ -> | [ -> | -> ] ] ]; cbn [render fst snd pz_ms pz_kind pz_m pz_keys kwit items] in *.
  - rewrite HS. reflexivity.
  - rewrite (Hp1 eq_refl). specialize (H520 eq_refl). replace (520 <? lenN (ms_of m ks)) with false by lia.
    rewrite HS. reflexivity.
  - rewrite Hp2 by now left. rewrite HS. reflexivity.
  - rewrite (Hp3 eq_refl). rewrite Hp2 by now right. rewrite HS. reflexivity.
Qed.

Lemma existing_render kd m ks rows : ms_shape kd m ks ->
  (count sign sighash (kwit kd) (ms_of m ks) rows <= m)%nat ->
  exists tail, existing_blobs (fst (render kd m ks rows)) (snd (render kd m ks rows)) = Some (items kd m ks rows ++ tail).
Proof.
  intros [Hkd Hm Hn H520 H10k] Hc.
  pose proof (items_small kd m ks rows) as Hsm.
  destruct Hkd as [ -> | [ -> | [ -> | -> ] ] ]; cbn [render fst snd kwit] in *; unfold existing_blobs.
  - exists []. rewrite parse_pushes_pushes by (eapply Forall_le_weaken; [|exact Hsm]; lia). now rewrite app_nil_r.
  - exists [ms_of m ks]. specialize (H520 eq_refl). rewrite parse_pushes_pushes; [reflexivity|].
    apply Forall_app. split; [eapply Forall_le_weaken; [|exact Hsm]; lia | repeat constructor; lia].
  - exists [ms_of m ks]. unfold items. reflexivity.
  - exists [ms_of m ks]. unfold items. reflexivity.
Qed.

(* one signing pass on a state that is not valid yet *)
Lemma sign_generic kd m ks rows db hto forkid p2sh s w blobs :
  ms_shape kd m ks -> no_clash pub_of rows -> p2sh_ok kd m ks p2sh -> ks = map fst rows ->
  (count sign sighash (kwit kd) (ms_of m ks) rows <= m)%nat ->
  db_ok db ks -> ht_ok sighash (kwit kd) (ms_of m ks) (effective_hash_type forkid hto) ->
  existing_blobs s w = Some blobs ->
  find_sigs verifies sighash (kwit kd) (ms_of m ks) m (rev (keys_of ks)) blobs 0
    = (dentries sign sighash (kwit kd) (ms_of m ks) rows, solved_keys pub_of rows) ->
  (kwit kd = false -> w = []) ->
  eval_input hash160 sha256 verifies sighash LAX (pz_ms kd m ks) s w = false ->
  sign_input hash160 sha256 verifies sign pub_of sighash db p2sh forkid (pz_ms kd m ks) hto s w
  = Ret (render kd m ks (FILL db (effective_hash_type forkid hto) kd m ks rows)).
Proof.
  intros Hok Hnc Hp Hks Hc Hdb Hht Hblobs Hfs Hw Hev.
  unfold sign_input. rewrite Hev.
  rewrite (solve_generic kd m ks rows db _ p2sh s w blobs Hok Hnc Hp Hks Hc Hdb Hht Hblobs Hfs).
  destruct Hok as [Hkd _ _ _ _].
  destruct Hkd as [ -> | [ -> | [ -> | -> ] ] ]; cbn [kwit] in *; try rewrite (Hw eq_refl); cbn [render fst snd]; reflexivity.
Qed.

(* ---- counting: which keys have signed / have been supplied ------------------------------------------ *)
Definition is_signed (r : row) : bool := match snd r with Some _ => true | None => false end.
Definition ctrue (l : list bool) : nat := length (filter (fun b : bool => b) l).

Lemma count_ctrue w sc rows : count sign sighash w sc rows = ctrue (map is_signed rows).
Proof.
  unfold count, ctrue. induction rows as [|[k [t|]] r IH]; cbn [dentries map is_signed snd filter length]; auto.
Qed.

Section OnePass.
Variable db : lookup.
Variable ht : N.
Notation AV := (avail hash160 pub_of db).
Definition umask (rows : list row) : list bool := map (fun r => is_signed r || AV (fst r)) rows.

Lemma ctrue_le_umask rows : (ctrue (map is_signed rows) <= ctrue (umask rows))%nat.
Proof.
  unfold ctrue, umask. induction rows as [|[k [t|]] r IH]; cbn [map is_signed snd fst orb filter length]; try lia.
  destruct (AV k); cbn [filter length]; lia.
Qed.

Lemma umask_eq rows : (ctrue (umask rows) <= ctrue (map is_signed rows))%nat -> map is_signed rows = umask rows.
Proof.
  unfold umask. induction rows as [|[k [t|]] r IH]; cbn [map is_signed snd fst orb]; [reflexivity| |].
  - unfold ctrue. cbn [filter length]. intros H. f_equal. apply IH. unfold ctrue. lia.
  - pose proof (ctrue_le_umask r) as Hle. unfold umask in Hle.
    destruct (AV k); unfold ctrue in *; cbn [filter length]; intros H; [lia|]. f_equal. apply IH. unfold ctrue. lia.
Qed.

Lemma fill_masks rows : forall b,
  let S' := map is_signed (fill hash160 pub_of db ht b rows) in
  ((ctrue (umask rows) - ctrue (map is_signed rows) <= b)%nat -> S' = umask rows) /\
  ((b <= ctrue (umask rows) - ctrue (map is_signed rows))%nat -> ctrue S' = (ctrue (map is_signed rows) + b)%nat).
Proof.
  induction rows as [|[k [t|]] r IH]; intros b; cbn zeta.
  - cbn. split; intros; [reflexivity|lia].
  - cbn [fill map is_signed snd fst orb umask]. fold (umask r).
    destruct (IH b) as [I1 I2]. cbn zeta in I1, I2.
    unfold ctrue in *. cbn [filter length]. split; intros H.
    + f_equal. apply I1. lia.
    + rewrite I2 by lia. lia.
  - pose proof (ctrue_le_umask r) as Hle.
    cbn [fill umask map is_signed snd fst orb]. fold (umask r).
    destruct b as [|b].
    + split; intros H.
      * apply (umask_eq ((k, None) :: r)). unfold umask. cbn [map is_signed snd fst orb]. fold (umask r).
        unfold ctrue in *. cbn [map is_signed snd filter length] in *. lia.
      * cbn [map is_signed snd]. lia.
    + destruct (AV k) eqn:Ea.
      * destruct (IH b) as [I1 I2]. cbn zeta in I1, I2.
        cbn [map is_signed snd]. unfold ctrue in *. cbn [filter length]. split; intros H.
        -- f_equal. apply I1. lia.
        -- rewrite I2 by lia. lia.
      * destruct (IH (S b)) as [I1 I2]. cbn zeta in I1, I2.
        cbn [map is_signed snd]. unfold ctrue in *. cbn [filter length]. split; intros H.
        -- f_equal. apply I1. lia.
        -- rewrite I2 by lia. lia.
Qed.
End OnePass.

Lemma eval_empty fl kd m ks : ms_shape kd m ks ->
  eval_input hash160 sha256 verifies sighash fl (pz_ms kd m ks) [] [] = false.
Proof.
  intros [Hkd Hm Hn H520 H10k].
  unfold eval_input. change (10000 <? lenN (@nil byte)) with false. cbv iota. rewrite parse_pushes_nil.
  rewrite andb_false_r. cbn [negb orb all_le_520 forallb lenN length N.of_nat N.ltb N.compare].
  destruct Hkd as [ -> | [ -> | [ -> | -> ] ] ]; cbn [pz_ms pz_kind pz_m pz_keys is_nil andb].
  - unfold eval_multisig. cbn [length]. replace (m + 1 <=? 0)%nat with false by lia. now rewrite !andb_false_r.
  - reflexivity.
  - unfold expected_wit_script_sig, eval_witness_part. cbn [pz_ms pz_kind pz_m pz_keys bytes_eqb andb]. reflexivity.
  - unfold expected_wit_script_sig. cbn [pz_ms pz_kind pz_m pz_keys].
    pose proof (push_data_nonempty (wit0_script (sha256 (ms_script m (keys_of ks))))) as Hne.
    destruct (push_data (wit0_script (sha256 (ms_script m (keys_of ks))))); [cbn in Hne; lia|reflexivity].
Qed.

Lemma fill_forall (P : N -> Prop) db ht b rows : P ht ->
  (forall k t, In (k, Some t) rows -> P t) -> (forall k t, In (k, Some t) (fill hash160 pub_of db ht b rows) -> P t).
Proof.
  intros Hht. revert b; induction rows as [|[k [t|]] r IH]; intros b Hok; cbn [fill]; auto.
  - intros k' t' [H|H]; [apply (Hok k' t'); now left|]. apply (IH b) in H; [exact H|]. intros ? ? ?; eapply Hok; right; eauto.
  - assert (Hr : forall k t, In (k, Some t) r -> P t) by (intros ? ? ?; eapply Hok; right; eauto).
    destruct b; [exact Hok|]. destruct (avail hash160 pub_of db k).
    + intros k' t' [H|H]; [injection H as <- <-; exact Hht | now apply (IH b Hr k' t')].
    + intros k' t' [H|H]; [discriminate | now apply (IH (S b) Hr k' t')].
Qed.

Lemma umask_all_avail db (l : list keyspec) : (forall k, In k l -> avail hash160 pub_of db k = true) ->
  ctrue (umask db (map (fun k => (k, None)) l)) = length l.
Proof.
  unfold ctrue, umask. induction l as [|k l IH]; intros H; cbn [map is_signed snd fst orb filter length]; [reflexivity|].
  rewrite (H k) by now left. cbn [filter length]. f_equal. apply IH. intros; apply H; now right.
Qed.

Lemma rows0_gen (l : list keyspec) w sc :
  let r0 : list row := map (fun k => (k, None)) l in
  l = map fst r0 /\ dentries sign sighash w sc r0 = [] /\ solved_keys pub_of r0 = [] /\
  (forall k t, ~ In (k, Some t) r0) /\ (forall r, In r r0 -> is_signed r = false).
Proof.
  cbn zeta. induction l as [|k l IH]; cbn [map fst dentries solved_keys].
  - repeat split; auto; intros ? [].
  - destruct IH as (I1 & I2 & I3 & I4 & I5). repeat split; auto.
    + now f_equal.
    + intros k' t' [H|H]; [discriminate | now apply (I4 k' t')].
    + intros r [<-|H]; [reflexivity | now apply I5].
Qed.

(* ---- sequences of signing passes ------------------------------------------------------------------- *)
Record pass : Type := mkPass { p_db : lookup; p_ht : option N }.

Section Passes.
Variable forkid : bool.
Variable p2sh : list bytes.
Variable kd : kind.
Variable m : nat.
Variable ks : list keyspec.
Variable fl0 : flags.                       (* the flag set of the final verdict *)
Notation W := (kwit kd).
Notation MS := (ms_of m ks).
Notation PZ := (pz_ms kd m ks).
Notation CNT := (count sign sighash W MS).

Fixpoint run (passes : list pass) (st : bytes * list bytes) : outcome (bytes * list bytes) :=
  match passes with
  | [] => Ret st
  | p :: r =>
    match sign_input hash160 sha256 verifies sign pub_of sighash (p_db p) p2sh forkid PZ (p_ht p) (fst st) (snd st) with
    | Ret st' => run r st'
    | Raise e => Raise e
    | OutOfFuel => OutOfFuel
    end
  end.

Definition covered (passes : list pass) (k : keyspec) : bool :=
  existsb (fun p => avail hash160 pub_of (p_db p) k) passes.
Definition ncovered (passes : list pass) : nat := length (filter (covered passes) ks).

(* hash types whose signatures pass the encoding rules of fl0 *)
Definition enc_ht_ok (t : N) : Prop :=
  f_std fl0 = true -> f_strictenc fl0 = true -> In t [1; 2; 3; 129; 130; 131].
Definition PH (t : N) : Prop := ht_ok sighash W MS t /\ enc_ht_ok t.
Definition pass_ok (p : pass) : Prop := db_ok (p_db p) ks /\ PH (effective_hash_type forkid (p_ht p)).
Definition rows_P (rows : list row) : Prop := forall k t, In (k, Some t) rows -> PH t.

Hypothesis Hms : ms_ok kd m ks.
Hypothesis Hp2sh : p2sh_ok kd m ks p2sh.
Hypothesis Hpub0 : forall k, In k ks -> pub_enc_ok fl0 W (pub pub_of k) = true.

Lemma fill_P db ht b rows : PH ht -> rows_P rows -> rows_P (fill hash160 pub_of db ht b rows).
Proof.
  intros Hht. revert b; induction rows as [|[k [t|]] r IH]; intros b Hok; cbn [fill]; auto.
  - intros k' t' [H|H]; [apply (Hok k' t'); now left|]. apply (IH b) in H; [exact H|]. intros ? ? ?; eapply Hok; right; eauto.
  - assert (Hr : rows_P r) by (intros ? ? ?; eapply Hok; right; eauto).
    destruct b; [exact Hok|]. destruct (avail hash160 pub_of db k).
    + intros k' t' [H|H]; [injection H as <- <-; exact Hht | now apply (IH b Hr k' t')].
    + intros k' t' [H|H]; [discriminate | now apply (IH (S b) Hr k' t')].
Qed.

Lemma rows_P_ok rows : rows_P rows -> rows_ok sighash W MS rows.
Proof. intros H k t Hin. now destruct (H k t Hin). Qed.

Lemma sig_enc_ok_nonempty fl s : s <> [] -> sig_enc_ok fl s =
  if f_std fl then strict_der s && low_s s && (if f_strictenc fl then defined_hashtype s else true) else true.
Proof. destruct s; [congruence|reflexivity]. Qed.

Lemma sig_enc_blob fl k t : ht_ok sighash W MS t ->
  (f_std fl = true -> f_strictenc fl = true -> In t [1; 2; 3; 129; 130; 131]) ->
  sig_enc_ok fl (blob sign sighash W MS k t) = true.
Proof.
  intros Hok Henc. destruct (blob_ok sign sighash W MS Hparse k t Hok) as (d & Hd & Hb & Hty & Hrl & Hp).
  rewrite sig_enc_ok_nonempty by (rewrite Hb; destruct (sign (fst k) d); discriminate).
  destruct (f_std fl) eqn:Es; [|reflexivity].
  rewrite Hb. destruct (Hcanon (fst k) d (n2b t)) as [-> ->]. cbn [andb].
  destruct (f_strictenc fl) eqn:Ee; [|reflexivity].
  rewrite <- Hb. unfold defined_hashtype. rewrite Hty.
  specialize (Henc eq_refl eq_refl). cbn [In] in Henc.
  destruct Henc as [<-|[<-|[<-|[<-|[<-|[<-|[]]]]]]]; reflexivity.
Qed.

Lemma rows_P_enc rows : rows_P rows -> rows_enc_ok sign sighash W MS fl0 rows.
Proof. intros H k t Hin. destruct (H k t Hin) as [H1 H2]. now apply sig_enc_blob. Qed.

Lemma rows_ok_enc_lax rows : rows_ok sighash W MS rows -> rows_enc_ok sign sighash W MS LAX rows.
Proof. intros H k t Hin. apply sig_enc_blob; [now apply (H k t)|discriminate]. Qed.

(* a concrete (scriptSig, witness) standing for the abstract state rows *)
Record Repr (rows : list row) (st : bytes * list bytes) : Prop := {
  rp_blobs : exists blobs, existing_blobs (fst st) (snd st) = Some blobs /\
             find_sigs verifies sighash W MS m (rev (keys_of ks)) blobs 0
             = (dentries sign sighash W MS rows, solved_keys pub_of rows);
  rp_wit : W = false -> snd st = [];
  rp_eval : forall fl, rows_enc_ok sign sighash W MS fl rows ->
            (forall k, In k ks -> pub_enc_ok fl W (pub pub_of k) = true) ->
            eval_input hash160 sha256 verifies sighash fl PZ (fst st) (snd st) = (CNT rows =? m)%nat
}.

Lemma repr_render rows : ks = map fst rows -> rows_ok sighash W MS rows -> (CNT rows <= m)%nat ->
  Repr rows (render kd m ks rows).
Proof.
  intros Hks Hok Hc. destruct Hms as [Hkd Hm Hn H520 H10k Hex Hph] eqn:Em. constructor.
  - destruct (existing_render kd m ks rows (ms_ok_shape _ _ _ Hms) Hc) as (tail & Ht). eexists. split; [exact Ht|].
    unfold items. cbn [app]. eapply find_sigs_state; eauto.
  - clear Em. intros Hw. destruct Hkd as [ -> | [ -> | [ -> | -> ] ] ]; try discriminate; reflexivity.
  - intros fl Henc Hpub. now apply eval_render.
Qed.

Definition rows0 : list row := map (fun k => (k, None)) ks.

Lemma rows0_facts : ks = map fst rows0 /\ dentries sign sighash W MS rows0 = [] /\ solved_keys pub_of rows0 = [] /\
  CNT rows0 = 0%nat /\ rows_P rows0 /\ (forall r, In r rows0 -> is_signed r = false).
Proof.
  destruct (rows0_gen ks W MS) as (I1 & I2 & I3 & I4 & I5). fold rows0 in I1, I2, I3, I4, I5.
  split; [exact I1|]. split; [exact I2|]. split; [exact I3|]. split; [unfold count; now rewrite I2|].
  split; [|exact I5]. intros k0 t0 Hin. now destruct (I4 k0 t0).
Qed.

Lemma repr_empty : Repr rows0 ([], []).
Proof.
  destruct rows0_facts as (I1 & I2 & I3 & I4 & I5 & I6).
  constructor; cbn [fst snd].
  - exists []. split; [reflexivity|]. now rewrite I2, I3.
  - reflexivity.
  - intros fl _ _. rewrite I4. destruct Hms as [Hkd Hm Hn H520 H10k Hex Hph] eqn:Em. replace (0 =? m)%nat with false by lia.
    apply eval_empty. now apply ms_ok_shape.
Qed.

Lemma covered_snoc done p k : covered (done ++ [p]) k = covered done k || avail hash160 pub_of (p_db p) k.
Proof. unfold covered. rewrite existsb_app. cbn [existsb]. now rewrite orb_false_r. Qed.

Lemma filter_length_ctrue {A} (f : A -> bool) l : length (filter f l) = ctrue (map f l).
Proof. unfold ctrue. induction l as [|x l IH]; cbn [filter map length]; [reflexivity|]. destruct (f x); cbn [length]; lia. Qed.

Lemma filter_length_mono {A} (f g : A -> bool) l : (forall x, f x = true -> g x = true) ->
  (length (filter f l) <= length (filter g l))%nat.
Proof.
  intros H. induction l as [|x l IH]; cbn [filter]; [lia|].
  destruct (f x) eqn:Ef; [rewrite (H x Ef); cbn [length]; lia|]. destruct (g x); cbn [length]; lia.
Qed.

Definition Inv (rows : list row) (done : list pass) : Prop :=
  ((forall r, In r rows -> is_signed r = covered done (fst r)) /\ (CNT rows < m)%nat) \/
  (CNT rows = m /\ (m <= ncovered done)%nat).

Lemma phase1_count rows done : ks = map fst rows -> (forall r, In r rows -> is_signed r = covered done (fst r)) ->
  CNT rows = ncovered done.
Proof.
  intros Hks H. rewrite count_ctrue. unfold ncovered. rewrite filter_length_ctrue, Hks, map_map.
  f_equal. now apply map_ext_in.
Qed.

Lemma inv_verdict rows done : ks = map fst rows -> Inv rows done -> ((CNT rows =? m)%nat = true <-> (m <= ncovered done)%nat).
Proof.
  intros Hks [[H1 H2]|[H1 H2]].
  - rewrite <- (phase1_count rows done Hks H1). split; intros; lia.
  - split; intros; lia.
Qed.

Lemma step rows st done p :
  Repr rows st -> ks = map fst rows -> rows_P rows -> (CNT rows <= m)%nat -> Inv rows done -> pass_ok p ->
  exists rows' st',
    sign_input hash160 sha256 verifies sign pub_of sighash (p_db p) p2sh forkid PZ (p_ht p) (fst st) (snd st) = Ret st' /\
    Repr rows' st' /\ ks = map fst rows' /\ rows_P rows' /\ (CNT rows' <= m)%nat /\ Inv rows' (done ++ [p]).
Proof.
  intros [(blobs & Hb1 & Hb2) Hw Hev] Hks HP Hc HI [Hdb Hht].
  pose proof (rows_P_ok rows HP) as Hok.
  assert (HevL : eval_input hash160 sha256 verifies sighash LAX PZ (fst st) (snd st) = (CNT rows =? m)%nat).
  { apply Hev; [now apply rows_ok_enc_lax | reflexivity]. }
  destruct HI as [[H1 H2]|[H1 H2]].
  - (* not yet valid: the pass signs *)
    set (ht := effective_hash_type forkid (p_ht p)) in *.
    set (rows' := fill hash160 pub_of (p_db p) ht (m - CNT rows) rows).
    exists rows', (render kd m ks rows').
    assert (Hks' : ks = map fst rows') by (unfold rows'; now rewrite fill_fst).
    assert (HP' : rows_P rows') by (apply fill_P; assumption).
    pose proof (fill_masks (p_db p) ht rows (m - CNT rows)) as [F1 F2]. cbn zeta in F1, F2. fold rows' in F1, F2.
    assert (HU : umask (p_db p) rows = map (fun r => covered (done ++ [p]) (fst r)) rows).
    { unfold umask. apply map_ext_in. intros r Hr. now rewrite covered_snoc, (H1 r Hr). }
    assert (HcU : ctrue (umask (p_db p) rows) = ncovered (done ++ [p])).
    { rewrite HU. unfold ncovered. rewrite filter_length_ctrue, Hks, map_map. reflexivity. }
    rewrite <- !count_ctrue with (w := W) (sc := MS) in F1, F2.
    pose proof (ctrue_le_umask (p_db p) ht rows) as Hle. rewrite <- count_ctrue with (w := W) (sc := MS) in Hle.
    assert (Hc' : (CNT rows' <= m)%nat /\ Inv rows' (done ++ [p])).
    { destruct (Nat.le_gt_cases (ctrue (umask (p_db p) rows) - CNT rows) (m - CNT rows)) as [Hd|Hd].
      - specialize (F1 Hd).
        assert (Hpt : forall r, In r rows' -> is_signed r = covered (done ++ [p]) (fst r)).
        { apply map_ext_in_iff.
          transitivity (map (covered (done ++ [p])) (map fst rows')); [|now rewrite map_map].
          rewrite F1, HU, <- Hks', Hks, map_map. reflexivity. }
        assert (Hcnt : CNT rows' = ncovered (done ++ [p])) by now apply phase1_count.
        split; [lia|]. destruct (Nat.eq_dec (CNT rows') m) as [E|E]; [right; lia | left; split; [exact Hpt | lia]].
      - specialize (F2 ltac:(lia)). rewrite <- count_ctrue with (w := W) (sc := MS) in F2.
        split; [lia | right; lia]. }
    destruct Hc' as [Hc' HI'].
    split; [|split; [apply repr_render; [exact Hks' | now apply rows_P_ok | exact Hc'] | auto]].
    eapply sign_generic; eauto; [now apply ms_ok_shape | destruct Hms; eapply no_clash_of_excl; eauto
                                | now destruct Hht | rewrite HevL; apply Nat.eqb_neq; lia].
  - (* already valid: skipped *)
    exists rows, st. split; [|split; [constructor; eauto | split; [exact Hks | split; [exact HP | split; [exact Hc|]]]]].
    + unfold sign_input. rewrite HevL. replace (CNT rows =? m)%nat with true by lia. now destruct st.
    + right. split; [exact H1|]. etransitivity; [exact H2|]. unfold ncovered. apply filter_length_mono.
      intros k Hk. rewrite covered_snoc, Hk. reflexivity.
Qed.

Lemma run_invariant passes : forall rows st done,
  Repr rows st -> ks = map fst rows -> rows_P rows -> (CNT rows <= m)%nat -> Inv rows done ->
  Forall pass_ok passes ->
  exists rows' st', run passes st = Ret st' /\ Repr rows' st' /\ ks = map fst rows' /\ rows_P rows' /\
                    (CNT rows' <= m)%nat /\ Inv rows' (done ++ passes).
Proof.
  induction passes as [|p r IH]; intros rows st done HR Hks HP Hc HI Hall.
  - exists rows, st. rewrite app_nil_r. cbn [run]. auto 10.
  - inversion Hall as [|? ? Hp Hr]; subst.
    destruct (step rows st done p HR Hks HP Hc HI Hp) as (rows1 & st1 & Hs & HR1 & Hks1 & HP1 & Hc1 & HI1).
    destruct (IH rows1 st1 (done ++ [p]) HR1 Hks1 HP1 Hc1 HI1 Hr) as (rows2 & st2 & Hrun & H2).
    exists rows2, st2. cbn [run]. rewrite Hs. rewrite <- app_assoc in H2. cbn [app] in H2. auto.
Qed.

(* partial signing in any order: after any sequence of passes the input validates exactly when at least m
   listed keys have been supplied (to some pass) *)
Theorem partial_signing_order_free passes : Forall pass_ok passes ->
  exists st, run passes ([], []) = Ret st /\
  (eval_input hash160 sha256 verifies sighash fl0 PZ (fst st) (snd st) = true <-> (m <= ncovered passes)%nat).
Proof.
  intros Hall. destruct rows0_facts as (I1 & I2 & I3 & I4 & I5 & I6).
  assert (HI0 : Inv rows0 []).
  { left. split; [intros r Hr; now rewrite (I6 r Hr) | rewrite I4; destruct Hms; lia]. }
  destruct (run_invariant passes rows0 ([], []) [] repr_empty I1 I5 ltac:(rewrite I4; lia) HI0 Hall)
    as (rows' & st' & Hrun & [_ _ Hev] & Hks' & HP' & Hc' & HI').
  exists st'. split; [exact Hrun|]. cbn [app] in HI'.
  rewrite Hev; [now apply inv_verdict | now apply rows_P_enc | exact Hpub0].
Qed.
End Passes.

(* ---- all listed keys supplied at once: the produced multisig input validates -------------------------- *)
Definition std_hash_type (t : N) : Prop := In t [1; 2; 3; 129; 130; 131].

Theorem ms_validates fl forkid kd m ks db hto p2sh :
  ms_shape kd m ks -> p2sh_ok kd m ks p2sh -> db_ok db ks ->
  (forall k, In k ks -> avail hash160 pub_of db k = true) ->
  ht_ok sighash (kwit kd) (ms_of m ks) (effective_hash_type forkid hto) ->
  (f_std fl = true -> f_strictenc fl = true -> std_hash_type (effective_hash_type forkid hto)) ->
  (forall k, In k ks -> pub_enc_ok fl (kwit kd) (pub pub_of k) = true) ->
  exists st, sign_input hash160 sha256 verifies sign pub_of sighash db p2sh forkid (pz_ms kd m ks) hto [] [] = Ret st /\
             eval_input hash160 sha256 verifies sighash fl (pz_ms kd m ks) (fst st) (snd st) = true.
Proof.
  intros Hsh Hp Hdb Hav Hht Hstd Hpub.
  set (ht := effective_hash_type forkid hto) in *.
  set (r0 := map (fun k : keyspec => (k, @None N)) ks).
  destruct (rows0_gen ks (kwit kd) (ms_of m ks)) as (I1 & I2 & I3 & I4 & I5). fold r0 in I1, I2, I3, I4, I5.
  assert (Hc0 : count sign sighash (kwit kd) (ms_of m ks) r0 = 0%nat) by (unfold count; now rewrite I2).
  set (rows' := fill hash160 pub_of db ht (m - count sign sighash (kwit kd) (ms_of m ks) r0) r0).
  exists (render kd m ks rows'). split.
  - apply (sign_generic kd m ks r0 db hto forkid p2sh [] [] []);
      [exact Hsh | intros k Hk H; rewrite I3 in H; exact H | exact Hp | exact I1 | lia | exact Hdb | exact Hht
      | reflexivity | now rewrite I2, I3 | reflexivity | now apply eval_empty].
  - assert (Hcnt : count sign sighash (kwit kd) (ms_of m ks) rows' = m).
    { pose proof (fill_masks db ht r0 (m - count sign sighash (kwit kd) (ms_of m ks) r0)) as [_ F2]. cbn zeta in F2.
      fold rows' in F2. rewrite <- !count_ctrue with (w := kwit kd) (sc := ms_of m ks) in F2.
      unfold r0 in F2 at 2. rewrite umask_all_avail in F2 by exact Hav. fold r0 in F2.
      rewrite Hc0 in *. destruct Hsh. rewrite F2 by lia. lia. }
    assert (HPall : forall k t, In (k, Some t) rows' ->
              ht_ok sighash (kwit kd) (ms_of m ks) t /\ (f_std fl = true -> f_strictenc fl = true -> std_hash_type t)).
    { apply fill_forall; [split; assumption|]. intros k t Hin. now destruct (I4 k t). }
    apply eval_render_full; auto.
    + unfold rows'. now rewrite fill_fst.
    + intros k t Hin. now destruct (HPall k t Hin).
    + intros k t Hin. destruct (HPall k t Hin) as [H1 H2]. now apply sig_enc_blob.
Qed.
End MsKinds.

(* ================================================================================================ *)
(* 8. the single-key kinds: P2PK, P2PKH, P2WPKH, P2SH-P2WPKH                                          *)
Section Single.
Variable hash160 : bytes -> bytes.
Variable sha256 : bytes -> bytes.
Variable verifies : bytes -> bytes -> bytes -> bool.
Variable sign : bytes -> bytes -> bytes.
Variable pub_of : bytes -> bool -> bytes.
Variable sighash : bool -> N -> bytes -> option bytes.

Hypothesis Hsv : forall se c d, verifies (pub_of se c) d (sign se d) = true.
Hypothesis Hcanon : forall se d t, strict_der (sign se d ++ [t]) = true /\ low_s (sign se d ++ [t]) = true.
Hypothesis Hparse : forall se d t, parse_sig_ok (sign se d ++ [t]) = true.
Hypothesis Hh160 : forall x, length (hash160 x) = 20%nat.
Hypothesis Hpubwf : forall se, is_compressed (pub_of se true) = true /\ is_uncompressed (pub_of se false) = true.

Notation PUB := (pub pub_of).
Notation BLOB := (blob sign sighash).

Lemma pub_len k : lenN (PUB k) <= 65.
Proof.
  destruct k as [se [|]]; unfold pub; cbn [fst snd]; destruct (Hpubwf se) as [H1 H2].
  - unfold is_compressed in H1. apply andb_true_iff in H1. destruct H1 as [H1 _]. unfold lenN. lia.
  - unfold is_uncompressed in H2. apply andb_true_iff in H2. destruct H2 as [H2 _]. unfold lenN. lia.
Qed.

Lemma blob_len w sc k t : lenN (BLOB w sc k t) <= 73.
Proof. unfold blob. destruct (sighash w t sc); [|cbn; lia]. apply strict_der_len. apply Hcanon. Qed.

Lemma sig_enc_blob_gen fl w sc k t : ht_ok sighash w sc t ->
  (f_std fl = true -> f_strictenc fl = true -> In t [1; 2; 3; 129; 130; 131]) ->
  sig_enc_ok fl (BLOB w sc k t) = true.
Proof.
  intros Hok Henc. destruct (blob_ok sign sighash w sc Hparse k t Hok) as (d & Hd & Hb & Hty & Hrl & Hp).
  rewrite sig_enc_ok_nonempty by (rewrite Hb; destruct (sign (fst k) d); discriminate).
  destruct (f_std fl) eqn:Es; [|reflexivity].
  rewrite Hb. destruct (Hcanon (fst k) d (n2b t)) as [-> ->]. cbn [andb].
  destruct (f_strictenc fl) eqn:Ee; [|reflexivity].
  rewrite <- Hb. unfold defined_hashtype. rewrite Hty.
  specialize (Henc eq_refl eq_refl). cbn [In] in Henc.
  destruct Henc as [<-|[<-|[<-|[<-|[<-|[<-|[]]]]]]]; reflexivity.
Qed.

Lemma checksig_blob fl w sc k t : ht_ok sighash w sc t ->
  (f_std fl = true -> f_strictenc fl = true -> In t [1; 2; 3; 129; 130; 131]) ->
  pub_enc_ok fl w (PUB k) = true ->
  checksig verifies sighash fl w sc (BLOB w sc k t) (PUB k) = true.
Proof.
  intros Hok Henc Hpub. unfold checksig. rewrite sig_enc_blob_gen, Hpub by assumption. cbn [andb].
  now apply (sv_blob verifies sign pub_of sighash w sc Hsv Hparse).
Qed.

(* one key, one signature variable, nothing there yet: the signature, when the key is in the lookup *)
Lemma single_solver w sc k db ht c' :
  lookup_get db (hash160 (PUB k)) = Some (fst k, c') -> ht_ok sighash w sc ht ->
  signing_solver hash160 verifies sign sighash db w sc ht 1 [PUB k] [] = Ret [BLOB w sc k ht].
Proof.
  intros Hl Hht.
  pose proof (signing_solver_from hash160 verifies sign pub_of sighash w sc [k] 1%nat db ht) as H.
  cbn [map] in H. rewrite (H ltac:(intros k0 se c [<-|[]] E; rewrite Hl in E; now injection E as <- _) Hht [] [(k, None)]).
  - unfold sig_items, real_sigs, count. cbn [dentries length Nat.sub fill]. unfold avail. rewrite Hl.
    cbn [dentries map snd length Nat.sub repeat app]. reflexivity.
  - reflexivity.
  - unfold count. cbn. lia.
  - intros k0 _ [].
  - reflexivity.
Qed.

Definition pz_single (kd : kind) (k : keyspec) : puzzle :=
  match kd with
  | K_P2PK => mkPuzzle K_P2PK 1 [PUB k] []
  | _ => mkPuzzle kd 1 [] (hash160 (PUB k))
  end.
Definition is_single_kind (kd : kind) : Prop := kd = K_P2PK \/ kd = K_P2PKH \/ kd = K_P2WPKH \/ kd = K_P2SH_P2WPKH.
Definition single_wit (kd : kind) : bool := match kd with K_P2WPKH | K_P2SH_P2WPKH => true | _ => false end.
Definition single_sc (kd : kind) (k : keyspec) : bytes :=
  match kd with K_P2PK => p2pk_script (PUB k) | _ => p2pkh_script (hash160 (PUB k)) end.

Lemma wit0_h160_len x : lenN (wit0_script (hash160 x)) = 22.
Proof.
  unfold wit0_script, push_data, spec_push. pose proof (Hh160 x) as H.
  destruct (hash160 x) as [|b [|b2 r]] eqn:E; [discriminate|discriminate|].
  rewrite <- E in *. unfold lenN. rewrite H. cbn [N.of_nat Pos.of_succ_nat Pos.succ N.leb N.compare Pos.compare Pos.compare_cont].
  cbn [app length]. rewrite H. reflexivity.
Qed.

Theorem single_validates fl forkid kd k db hto p2sh :
  is_single_kind kd ->
  lookup_get db (hash160 (PUB k)) = Some k ->
  (kd = K_P2SH_P2WPKH ->
   p2sh_get hash160 sha256 p2sh (hash160 (wit0_script (hash160 (PUB k)))) = Some (wit0_script (hash160 (PUB k)))) ->
  ht_ok sighash (single_wit kd) (single_sc kd k) (effective_hash_type forkid hto) ->
  (f_std fl = true -> f_strictenc fl = true -> std_hash_type (effective_hash_type forkid hto)) ->
  pub_enc_ok fl (single_wit kd) (PUB k) = true ->
  exists st, sign_input hash160 sha256 verifies sign pub_of sighash db p2sh forkid (pz_single kd k) hto [] [] = Ret st /\
             eval_input hash160 sha256 verifies sighash fl (pz_single kd k) (fst st) (snd st) = true.
Proof.
  intros Hkd Hl Hp Hht Hstd Hpub.
  set (ht := effective_hash_type forkid hto) in *.
  assert (Hl' : lookup_get db (hash160 (PUB k)) = Some (fst k, snd k)) by (now destruct k).
  pose proof (pub_len k) as Hpl.
  destruct Hkd as [ -> | [ -> | [ -> | -> ] ] ]; cbn [single_wit single_sc pz_single] in *.
  - (* P2PK *)
    pose proof (blob_len false (p2pk_script (PUB k)) k ht) as Hbl.
    pose proof (checksig_blob fl false _ k ht Hht Hstd Hpub) as Hcs.
    exists (pushes [BLOB false (p2pk_script (PUB k)) k ht], []). split.
    + unfold sign_input, eval_input. change (10000 <? lenN (@nil byte)) with false. cbv iota. rewrite parse_pushes_nil.
      cbn [f_std LAX andb orb negb all_le_520 forallb lenN length N.of_nat N.ltb N.compare pz_kind is_nil eval_p2pk split_last rev].
      unfold solve_input. cbn [existing_blobs]. rewrite parse_pushes_nil. cbn [pz_kind pz_keys pz_m hd].
      fold ht. rewrite (single_solver false _ k db ht (snd k) Hl' Hht). reflexivity.
    + cbn [fst snd]. unfold eval_input.
      pose proof (lenN_pushes 73 [BLOB false (p2pk_script (PUB k)) k ht] ltac:(lia) ltac:(repeat constructor; lia)) as Hs.
      change (lenN [BLOB false (p2pk_script (PUB k)) k ht]) with 1 in Hs.
      replace (10000 <? lenN (pushes [BLOB false (p2pk_script (PUB k)) k ht])) with false by lia.
      rewrite parse_pushes_pushes by (repeat constructor; lia).
      replace (all_le_520 [BLOB false (p2pk_script (PUB k)) k ht]) with true
        by (symmetry; apply all_le_520_forall; repeat constructor; lia).
      change (lenN [BLOB false (p2pk_script (PUB k)) k ht]) with 1.
      rewrite andb_false_r. cbn [negb orb N.ltb N.compare Pos.compare Pos.compare_cont pz_kind pz_keys hd is_nil andb].
      unfold eval_p2pk. cbn [split_last rev app]. change (lenN [BLOB false (p2pk_script (PUB k)) k ht]) with 1.
      rewrite Hcs. now destruct (f_std fl).
  - (* P2PKH *)
    set (h := hash160 (PUB k)) in *.
    pose proof (blob_len false (p2pkh_script h) k ht) as Hbl.
    pose proof (checksig_blob fl false _ k ht Hht Hstd Hpub) as Hcs.
    exists (pushes [BLOB false (p2pkh_script h) k ht; PUB k], []). split.
    + unfold sign_input, eval_input. change (10000 <? lenN (@nil byte)) with false. cbv iota. rewrite parse_pushes_nil.
      cbn [f_std LAX andb orb negb all_le_520 forallb lenN length N.of_nat N.ltb N.compare pz_kind is_nil eval_p2pkh split_last rev].
      unfold solve_input. cbn [existing_blobs]. rewrite parse_pushes_nil. cbn [pz_kind pz_keys pz_m pz_hash].
      unfold solve_pkh. fold h. rewrite Hl. destruct k as [se c]. cbn [fst snd] in *. change (pub_of se c) with (PUB (se, c)).
      fold ht. rewrite (single_solver false _ (se, c) db ht c Hl' Hht). reflexivity.
    + cbn [fst snd]. unfold eval_input.
      pose proof (lenN_pushes 73 [BLOB false (p2pkh_script h) k ht; PUB k] ltac:(lia) ltac:(repeat constructor; lia)) as Hs.
      change (lenN [BLOB false (p2pkh_script h) k ht; PUB k]) with 2 in Hs.
      replace (10000 <? lenN (pushes [BLOB false (p2pkh_script h) k ht; PUB k])) with false by lia.
      rewrite parse_pushes_pushes by (repeat constructor; lia).
      replace (all_le_520 [BLOB false (p2pkh_script h) k ht; PUB k]) with true
        by (symmetry; apply all_le_520_forall; repeat constructor; lia).
      change (lenN [BLOB false (p2pkh_script h) k ht; PUB k]) with 2.
      rewrite andb_false_r. cbn [negb orb N.ltb N.compare Pos.compare Pos.compare_cont pz_kind pz_hash is_nil andb].
      unfold eval_p2pkh. cbn [split_last rev app]. change (lenN [BLOB false (p2pkh_script h) k ht; PUB k]) with 2.
      fold h. rewrite bytes_eqb_refl, Hcs. now destruct (f_std fl).
  - (* P2WPKH *)
    set (h := hash160 (PUB k)) in *.
    pose proof (blob_len true (p2pkh_script h) k ht) as Hbl.
    pose proof (checksig_blob fl true _ k ht Hht Hstd Hpub) as Hcs.
    exists ([], [BLOB true (p2pkh_script h) k ht; PUB k]). split.
    + unfold sign_input, eval_input. change (10000 <? lenN (@nil byte)) with false. cbv iota. rewrite parse_pushes_nil.
      cbn [f_std LAX andb orb negb all_le_520 forallb lenN length N.of_nat N.ltb N.compare pz_kind is_nil expected_wit_script_sig
           bytes_eqb eval_witness_part Nat.eqb].
      unfold solve_input. cbn [existing_blobs]. rewrite parse_pushes_nil. cbn [pz_kind pz_keys pz_m pz_hash].
      unfold solve_pkh. fold h. rewrite Hl. destruct k as [se c]. cbn [fst snd] in *. change (pub_of se c) with (PUB (se, c)).
      fold ht. rewrite (single_solver true _ (se, c) db ht c Hl' Hht). reflexivity.
    + cbn [fst snd]. unfold eval_input. change (10000 <? lenN (@nil byte)) with false. cbv iota. rewrite parse_pushes_nil.
      rewrite andb_false_r.
      cbn [negb orb all_le_520 forallb lenN length N.of_nat N.ltb N.compare pz_kind expected_wit_script_sig bytes_eqb andb].
      unfold eval_witness_part. cbn [pz_kind pz_hash length Nat.eqb andb].
      replace (all_le_520 [BLOB true (p2pkh_script h) k ht; PUB k]) with true
        by (symmetry; apply all_le_520_forall; repeat constructor; lia).
      cbn [andb]. unfold eval_p2pkh. cbn [split_last rev app]. change (lenN [BLOB true (p2pkh_script h) k ht; PUB k]) with 2.
      fold h. rewrite bytes_eqb_refl, Hcs. reflexivity.
  - (* P2SH-P2WPKH *)
    set (h := hash160 (PUB k)) in *. specialize (Hp eq_refl).
    pose proof (blob_len true (p2pkh_script h) k ht) as Hbl.
    pose proof (checksig_blob fl true _ k ht Hht Hstd Hpub) as Hcs.
    pose proof (wit0_h160_len (PUB k)) as Hw. fold h in Hw.
    assert (Hpp : pushes [wit0_script h] = push_data (wit0_script h)) by (unfold pushes; cbn [flat_map]; apply app_nil_r).
    exists (pushes [wit0_script h], [BLOB true (p2pkh_script h) k ht; PUB k]). split.
    + unfold sign_input, eval_input. change (10000 <? lenN (@nil byte)) with false. cbv iota. rewrite parse_pushes_nil.
      cbn [f_std LAX andb orb negb all_le_520 forallb lenN length N.of_nat N.ltb N.compare pz_kind pz_hash is_nil expected_wit_script_sig].
      pose proof (push_data_nonempty (wit0_script h)) as Hne.
      destruct (push_data (wit0_script h)) as [|pb pl] eqn:Epd; [cbn in Hne; lia|]. cbn [bytes_eqb andb].
      unfold solve_input. cbn [existing_blobs]. rewrite parse_pushes_nil. cbn [pz_kind pz_keys pz_m pz_hash].
      rewrite Hp. unfold solve_pkh. fold h. rewrite Hl. destruct k as [se c]. cbn [fst snd] in *. change (pub_of se c) with (PUB (se, c)).
      fold ht. rewrite (single_solver true _ (se, c) db ht c Hl' Hht). reflexivity.
    + cbn [fst snd]. unfold eval_input.
      pose proof (push_data_length (wit0_script h) ltac:(lia)) as Hpl2.
      replace (10000 <? lenN (pushes [wit0_script h])) with false by (rewrite Hpp; lia).
      rewrite parse_pushes_pushes by (repeat constructor; lia).
      replace (all_le_520 [wit0_script h]) with true by (symmetry; apply all_le_520_forall; repeat constructor; lia).
      change (lenN [wit0_script h]) with 1.
      rewrite andb_false_r. cbn [negb orb N.ltb N.compare Pos.compare Pos.compare_cont pz_kind pz_hash expected_wit_script_sig].
      rewrite Hpp, bytes_eqb_refl. cbn [andb].
      unfold eval_witness_part. cbn [pz_kind pz_hash length Nat.eqb andb].
      replace (all_le_520 [BLOB true (p2pkh_script h) k ht; PUB k]) with true
        by (symmetry; apply all_le_520_forall; repeat constructor; lia).
      cbn [andb]. unfold eval_p2pkh. cbn [split_last rev app]. change (lenN [BLOB true (p2pkh_script h) k ht; PUB k]) with 2.
      fold h. rewrite bytes_eqb_refl, Hcs. reflexivity.
Qed.
End Single.

(* ================================================================================================ *)
(* 9. frame: Solver.sign touches only requested inputs that are not already valid                     *)
Section Frame.
Variable hash160 : bytes -> bytes.
Variable sha256 : bytes -> bytes.
Variable verifies : bytes -> bytes -> bytes -> bool.
Variable sign : bytes -> bytes -> bytes.
Variable pub_of : bytes -> bool -> bytes.
Variable sighash_tx : nat -> bool -> N -> bytes -> option bytes.
Variable db : lookup.
Variable p2sh : list bytes.
Variable forkid : bool.
Variable ht : option N.
Notation STF := (sign_tx_from hash160 sha256 verifies sign pub_of sighash_tx db p2sh forkid ht).

Lemma existsb_eqb_in i idxs : existsb (Nat.eqb i) idxs = true <-> In i idxs.
Proof.
  rewrite existsb_exists. split.
  - intros (x & Hx & E). apply Nat.eqb_eq in E. now subst.
  - intros H. exists i. split; [exact H | apply Nat.eqb_refl].
Qed.

Lemma sign_tx_from_frame inputs : forall i idxs,
  length (fst (STF i idxs inputs)) = length inputs /\
  forall j pz ss w, nth_error inputs j = Some (pz, ss, w) ->
    (~ In (i + j)%nat idxs \/ eval_input hash160 sha256 verifies (sighash_tx (i + j)%nat) LAX pz ss w = true) ->
    nth_error (fst (STF i idxs inputs)) j = Some (ss, w).
Proof.
  induction inputs as [|[[pz ss] w] r IH]; intros i idxs.
  - split; [reflexivity|]. intros [|j]; discriminate.
  - cbn [sign_tx_from].
    assert (Hmap : forall l : list txin_state,
              length (map (fun '(_, s, x) => (s, x)) l) = length l /\
              forall j pz0 ss0 w0, nth_error l j = Some (pz0, ss0, w0) ->
                nth_error (map (fun '(_, s, x) => (s, x)) l) j = Some (ss0, w0)).
    { intros l. split; [apply map_length|]. intros j pz0 ss0 w0 Hn.
      revert j Hn. induction l as [|[[p0 s0] x0] l IHl]; intros [|j] Hn; try discriminate; cbn [map nth_error] in *.
      - now injection Hn as <- <- <-.
      - now apply IHl. }
    destruct (IH (S i) idxs) as [IH1 IH2].
    assert (Hshift : forall j, (S i + j = i + S j)%nat) by (intros; lia).
    destruct (existsb (Nat.eqb i) idxs) eqn:Ei.
    + destruct (sign_input hash160 sha256 verifies sign pub_of (sighash_tx i) db p2sh forkid pz ht ss w) as [sw|e0|] eqn:Es.
      * destruct (STF (S i) idxs r) as [rs e] eqn:Er. cbn [fst] in *. split; [cbn [length]; now rewrite IH1|].
        intros [|j] pz0 ss0 w0 Hn Hc; cbn [nth_error] in *.
        -- injection Hn as <- <- <-. rewrite Nat.add_0_r in Hc. destruct Hc as [Hc|Hc].
           ++ exfalso. apply Hc. now apply existsb_eqb_in.
           ++ unfold sign_input in Es. rewrite Hc in Es. now injection Es as <-.
        -- apply (IH2 j pz0 ss0 w0 Hn). now rewrite Hshift.
      * cbn [fst]. destruct (Hmap r) as [M1 M2]. split; [cbn [length]; now rewrite M1|].
        intros [|j] pz0 ss0 w0 Hn Hc; cbn [nth_error] in *; [now injection Hn as <- <- <- | now apply (M2 j pz0 ss0 w0)].
      * cbn [fst]. destruct (Hmap r) as [M1 M2]. split; [cbn [length]; now rewrite M1|].
        intros [|j] pz0 ss0 w0 Hn Hc; cbn [nth_error] in *; [now injection Hn as <- <- <- | now apply (M2 j pz0 ss0 w0)].
    + destruct (STF (S i) idxs r) as [rs e] eqn:Er. cbn [fst] in *. split; [cbn [length]; now rewrite IH1|].
      intros [|j] pz0 ss0 w0 Hn Hc; cbn [nth_error] in *.
      * now injection Hn as <- <- <-.
      * apply (IH2 j pz0 ss0 w0 Hn). now rewrite Hshift.
Qed.

Theorem sign_tx_frame idxs inputs :
  let res := fst (sign_tx hash160 sha256 verifies sign pub_of sighash_tx db p2sh forkid ht idxs inputs) in
  length res = length inputs /\
  forall j pz ss w, nth_error inputs j = Some (pz, ss, w) ->
    (~ In j idxs \/ eval_input hash160 sha256 verifies (sighash_tx j) LAX pz ss w = true) ->
    nth_error res j = Some (ss, w).
Proof. cbn zeta. unfold sign_tx. apply (sign_tx_from_frame inputs 0 idxs). Qed.
End Frame.

(* ================================================================================================ *)
(* 10. what acceptance under the standard flag set implies about the unlocking data                  *)
Section StdShape.
Variable hash160 : bytes -> bytes.
Variable sha256 : bytes -> bytes.
Variable verifies : bytes -> bytes -> bytes -> bool.
Variable sighash : bool -> N -> bytes -> option bytes.

(* push-only and minimally encoded (SIGPUSHONLY-like shape, MINIMALDATA) *)
Lemma eval_std_push_only fl pz ss w : f_std fl = true ->
  eval_input hash160 sha256 verifies sighash fl pz ss w = true ->
  exists items, parse_pushes ss = Some (items, true) /\ all_le_520 items = true.
Proof.
  intros Hs. unfold eval_input. destruct (10000 <? lenN ss); [discriminate|].
  destruct (parse_pushes ss) as [[items mn]|]; [|discriminate].
  rewrite Hs. destruct mn; cbn [andb negb orb]; [|discriminate].
  destruct (all_le_520 items) eqn:E520; cbn [negb orb]; [|discriminate]. intros _. exists items. split; [reflexivity | exact E520].
Qed.

(* CLEANSTACK and NULLDUMMY: the multisig template leaves nothing but an empty dummy and m signatures *)
Lemma eval_multisig_std_shape fl wit sc m keys st : f_std fl = true ->
  eval_multisig verifies sighash fl wit true sc m keys st = true ->
  exists sigs, st = [] :: sigs /\ length sigs = m.
Proof.
  intros Hs. unfold eval_multisig. rewrite Hs.
  intros H. apply andb_true_iff in H. destruct H as [H1 H2].
  apply andb_true_iff in H1. destruct H1 as [H1 _].
  assert (Hlen : (m + 1 <= length st)%nat) by lia.
  destruct (skipn (length st - (m + 1)) st) as [|dummy sigs] eqn:Esk; [discriminate|].
  apply andb_true_iff in H2. destruct H2 as [H2 H3]. apply andb_true_iff in H2. destruct H2 as [H2 _].
  destruct dummy; [|discriminate].
  destruct (firstn (length st - (m + 1)) st) eqn:Ef; [|discriminate].
  assert (Hz : (length st - (m + 1) = 0)%nat).
  { apply (f_equal (@length _)) in Ef. rewrite firstn_length in Ef. cbn in Ef. lia. }
  rewrite Hz in Esk. cbn [skipn] in Esk. exists sigs. split; [exact Esk|].
  apply (f_equal (@length _)) in Esk. cbn [length] in Esk. lia.
Qed.
End StdShape.

(* ================================================================================================ *)
(* 11. no exception escapes Tx.sign                                                                   *)
Section NoCrash.
Variable hash160 : bytes -> bytes.
Variable sha256 : bytes -> bytes.
Variable verifies : bytes -> bytes -> bytes -> bool.
Variable sign : bytes -> bytes -> bytes.
Variable pub_of : bytes -> bool -> bytes.
Variable sighash : bool -> N -> bytes -> option bytes.
Variable db : lookup.
Variable p2sh : list bytes.

Lemma sign_loop_ret w sc ht nvars : ht < 256 -> sighash w ht sc <> None ->
  forall todo solved acc, exists acc', sign_loop hash160 sign sighash db w sc ht nvars todo solved acc = Ret acc'.
Proof.
  intros Hlt Hd. induction todo as [|[o sec] r IH]; intros solved acc; cbn [sign_loop]; [eauto|].
  destruct (existsb (bytes_eqb sec) solved); [apply IH|].
  destruct (nvars <=? length acc)%nat; [eauto|].
  destruct (lookup_get db (hash160 sec)) as [[secret c]|]; [|apply IH].
  destruct (sighash w ht sc) as [dg|]; [|congruence].
  replace (256 <=? ht) with false by lia. apply IH.
Qed.

Lemma signing_solver_ret w sc ht nvars keys blobs : ht < 256 -> sighash w ht sc <> None ->
  exists sigs, signing_solver hash160 verifies sign sighash db w sc ht nvars keys blobs = Ret sigs.
Proof.
  intros Hlt Hd. unfold signing_solver.
  destruct (find_sigs verifies sighash w sc nvars (rev keys) blobs 0) as [existing solved].
  destruct (sign_loop_ret w sc ht nvars Hlt Hd (rev (enumerate_from 0 (rev keys))) solved existing) as (acc & ->). eauto.
Qed.

(* on every push-only input, whatever it already holds (stale signatures included), Solver.sign returns *)
Theorem sign_input_no_crash forkid pz hto ss w :
  existing_blobs ss w <> None ->                      (* push-only scriptSig: the contract's domain *)
  effective_hash_type forkid hto < 256 ->
  (forall wit sc, sighash wit (effective_hash_type forkid hto) sc <> None) ->
  exists st, sign_input hash160 sha256 verifies sign pub_of sighash db p2sh forkid pz hto ss w = Ret st.
Proof.
  intros Hdom Hlt Hd. set (ht := effective_hash_type forkid hto) in *.
  unfold sign_input. destruct (eval_input _ _ _ _ _ _ _ _); [eauto|]. fold ht.
  unfold solve_input.
  destruct (existing_blobs ss w) as [blobs|]; [|congruence].
  assert (HS : forall wt sc nv keys bl k, exists r,
            of_outcome (signing_solver hash160 verifies sign sighash db wt sc ht nv keys bl) k = k r).
  { intros. destruct (signing_solver_ret wt sc ht nv keys bl Hlt (Hd wt sc)) as (sigs & ->). now exists sigs. }
  assert (HP : forall wt h k,
            solve_pkh hash160 verifies sign pub_of sighash db wt h ht blobs k = Unsolved \/
            exists a b, solve_pkh hash160 verifies sign pub_of sighash db wt h ht blobs k = k a b).
  { intros wt h k. unfold solve_pkh.
    destruct (lookup_get db h) as [[secret c]|]; [|now left]. right.
    destruct (HS wt (p2pkh_script h) 1%nat [pub_of secret c] blobs (fun sigs => k (hd [] sigs) (pub_of secret c))) as (r & ->). eauto. }
  destruct (pz_kind pz) eqn:Ek.
  - destruct (HS false (p2pk_script (hd [] (pz_keys pz))) 1%nat [hd [] (pz_keys pz)] blobs (fun sigs => Solved (pushes sigs) None)) as (r & ->). eauto.
  - destruct (HP false (pz_hash pz) (fun sig sec => Solved (pushes [sig; sec]) None)) as [->|(a & b & ->)]; eauto.
  - destruct (HS false (ms_script (pz_m pz) (pz_keys pz)) (pz_m pz) (pz_keys pz) blobs (fun sigs => Solved (pushes ([] :: sigs)) None)) as (r & ->). eauto.
  - destruct (p2sh_get hash160 sha256 p2sh _) as [u|]; [|eauto]. destruct (520 <? lenN u); [eauto|].
    destruct (HS false (ms_script (pz_m pz) (pz_keys pz)) (pz_m pz) (pz_keys pz) blobs (fun sigs => Solved (pushes ([] :: sigs ++ [u])) None)) as (r & ->). eauto.
  - destruct (p2sh_get hash160 sha256 p2sh _) as [u|]; [|eauto].
    destruct (HS true (ms_script (pz_m pz) (pz_keys pz)) (pz_m pz) (pz_keys pz) blobs (fun sigs => Solved [] (Some ([] :: sigs ++ [u])))) as (r & ->). eauto.
  - destruct (p2sh_get hash160 sha256 p2sh (hash160 _)) as [u1|]; [|eauto].
    destruct (p2sh_get hash160 sha256 p2sh (sha256 _)) as [u2|]; [|eauto].
    destruct (HS true (ms_script (pz_m pz) (pz_keys pz)) (pz_m pz) (pz_keys pz) blobs (fun sigs => Solved (pushes [u1]) (Some ([] :: sigs ++ [u2])))) as (r & ->). eauto.
  - destruct (HP true (pz_hash pz) (fun sig sec => Solved [] (Some [sig; sec]))) as [->|(a & b & ->)]; eauto.
  - destruct (p2sh_get hash160 sha256 p2sh _) as [u|]; [|eauto].
    destruct (HP true (pz_hash pz) (fun sig sec => Solved (pushes [u]) (Some [sig; sec]))) as [->|(a & b & ->)]; eauto.
Qed.
End NoCrash.

(* ================================================================================================ *)
(* 12. a strictly encoded signature (BIP66) is accepted by the lax parser of parse_signature_blob      *)
Lemma nth_skipn_add {A} (l : list A) k i d : nth i (skipn k l) d = nth (k + i) l d.
Proof. revert l; induction k as [|k IH]; intros l; [reflexivity|]. destruct l; [destruct i; reflexivity | apply IH]. Qed.

Lemma nth_removelast_lt {A} (l : list A) i d : (S i < length l)%nat -> nth i (removelast l) d = nth i l d.
Proof.
  revert i; induction l as [|x l IH]; intros i H; [cbn in H; lia|].
  destruct l as [|y l]; [cbn in H; lia|].
  destruct i; [reflexivity|]. cbn [removelast nth]. apply IH. cbn [length] in *. lia.
Qed.

Lemma removelast_length {A} (l : list A) : length (removelast l) = (length l - 1)%nat.
Proof.
  induction l as [|x l IH]; [reflexivity|]. destruct l as [|y l]; [reflexivity|].
  cbn [removelast length] in *. lia.
Qed.

Lemma remove_integer_at (l : bytes) :
  nthn 0 l = 2 -> nthn 1 l < 128 -> nthn 1 l <> 0 -> (N.to_nat (nthn 1 l) + 2 <= length l)%nat ->
  remove_integer l = Some (skipn (N.to_nat (nthn 1 l) + 2) l).
Proof.
  destruct l as [|c0 [|c1 r]]; unfold nthn; cbn [nth length]; intros H0 H1 H2 H3; try lia.
  unfold remove_integer, read_length. rewrite H0. cbn [N.eqb Pos.eqb].
  replace (b2n c1 <? 128) with true by lia. cbn [length Nat.sub].
  replace (length r - 0)%nat with (length r) by lia.
  replace (N.of_nat (length r) <? b2n c1) with false by lia.
  replace (b2n c1 =? 0) with false by lia.
  rewrite Nat.add_comm. reflexivity.
Qed.

Lemma remove_sequence_at (l : bytes) :
  nthn 0 l = 48 -> nthn 1 l < 128 -> (N.to_nat (nthn 1 l) + 2 = length l)%nat ->
  remove_sequence l = Some (skipn 2 l).
Proof.
  destruct l as [|c0 [|c1 r]]; unfold nthn; cbn [nth length]; intros H0 H1 H3; try lia.
  unfold remove_sequence, read_length. rewrite H0. cbn [N.eqb Pos.eqb].
  replace (b2n c1 <? 128) with true by lia. cbn [skipn]. unfold take_N.
  replace (N.of_nat (length r) <=? b2n c1) with true by lia. reflexivity.
Qed.

Lemma parse_sig_ok_nonempty blob : blob <> [] -> parse_sig_ok blob =
  match remove_sequence (removelast blob) with
  | Some body => match remove_integer body with
                 | Some rest => match remove_integer rest with Some _ => true | None => false end
                 | None => false end
  | None => false end.
Proof. destruct blob; [congruence | reflexivity]. Qed.

Lemma strict_der_parses sig : strict_der sig = true -> parse_sig_ok sig = true.
Proof.
  unfold strict_der. intros H. repeat (apply andb_true_iff in H; destruct H as [H ?]).
  set (L := length sig) in *. set (lenR := N.to_nat (nthn 3 sig)) in *. set (lenS := N.to_nat (nthn (5 + lenR) sig)) in *.
  assert (HL : (9 <= L <= 73)%nat) by lia.
  assert (Hsum : (lenR + lenS + 7 = L)%nat) by lia.
  assert (HR : (lenR <> 0)%nat) by (destruct (lenR =? 0)%nat eqn:E; [discriminate | lia]).
  assert (HS : (lenS <> 0)%nat) by (destruct (lenS =? 0)%nat eqn:E; [discriminate | lia]).
  set (der := removelast sig).
  assert (Hdl : length der = (L - 1)%nat) by apply removelast_length.
  assert (Hn : forall i, (S i < L)%nat -> nthn i der = nthn i sig) by (intros; unfold nthn, der; now rewrite nth_removelast_lt).
  rewrite parse_sig_ok_nonempty by (intros ->; cbn in HL; lia). fold der.
  rewrite (remove_sequence_at der).
  2:{ rewrite Hn by lia. lia. }
  2:{ rewrite Hn by lia. lia. }
  2:{ rewrite Hn by lia. lia. }
  set (body := skipn 2 der).
  assert (Hbl : length body = (L - 3)%nat) by (unfold body; rewrite skipn_length; lia).
  assert (Hb : forall i, nthn i body = nthn (2 + i) der) by (intros; unfold nthn, body; now rewrite nth_skipn_add).
  rewrite (remove_integer_at body).
  2:{ rewrite Hb, Hn by lia. cbn [Nat.add]. lia. }
  2:{ rewrite Hb, Hn by lia. cbn [Nat.add]. fold lenR. unfold lenR in *. lia. }
  2:{ rewrite Hb, Hn by lia. cbn [Nat.add]. unfold lenR in *. lia. }
  2:{ rewrite Hb, Hn by lia. cbn [Nat.add]. fold lenR. lia. }
  rewrite Hb, Hn by lia. cbn [Nat.add]. fold lenR.
  set (rest := skipn (lenR + 2) body).
  assert (Hrl : length rest = (lenS + 2)%nat) by (unfold rest; rewrite skipn_length; lia).
  assert (Hr : forall i, (S (lenR + 4 + i) < L)%nat -> nthn i rest = nthn (lenR + 4 + i) sig).
  { intros i Hi. replace (lenR + 4 + i)%nat with (2 + (lenR + 2 + i))%nat by lia.
    rewrite <- Hn by lia. rewrite <- Hb. unfold nthn, rest. now rewrite nth_skipn_add. }
  rewrite (remove_integer_at rest); [reflexivity| | | |].
  - rewrite Hr by lia. rewrite Nat.add_0_r. lia.
  - rewrite Hr by lia. replace (lenR + 4 + 1)%nat with (5 + lenR)%nat by lia. unfold lenS in *. lia.
  - rewrite Hr by lia. replace (lenR + 4 + 1)%nat with (5 + lenR)%nat by lia. unfold lenS in *. lia.
  - rewrite Hr by lia. replace (lenR + 4 + 1)%nat with (5 + lenR)%nat by lia. fold lenS. lia.
Qed.

(* the three main theorems with "sign's output parses" discharged from "sign's output is strictly encoded" *)
Section Final.
Variable hash160 : bytes -> bytes.
Variable sha256 : bytes -> bytes.
Variable verifies : bytes -> bytes -> bytes -> bool.
Variable sign : bytes -> bytes -> bytes.
Variable pub_of : bytes -> bool -> bytes.
Variable sighash : bool -> N -> bytes -> option bytes.
Hypothesis Hsv : forall se c d, verifies (pub_of se c) d (sign se d) = true.
Hypothesis Hcanon : forall se d t, strict_der (sign se d ++ [t]) = true /\ low_s (sign se d ++ [t]) = true.

Lemma canon_parses : forall se d t, parse_sig_ok (sign se d ++ [t]) = true.
Proof. intros. apply strict_der_parses. apply Hcanon. Qed.

Definition ms_validates_c (Hsha : forall x, length (sha256 x) = 32%nat) :=
  ms_validates hash160 sha256 verifies sign pub_of sighash Hsv Hcanon canon_parses Hsha.
Definition single_validates_c (Hh : forall x, length (hash160 x) = 20%nat)
    (Hp : forall se, is_compressed (pub_of se true) = true /\ is_uncompressed (pub_of se false) = true) :=
  single_validates hash160 sha256 verifies sign pub_of sighash Hsv Hcanon canon_parses Hh Hp.
Definition partial_signing_order_free_c (Hsha : forall x, length (sha256 x) = 32%nat) :=
  partial_signing_order_free hash160 sha256 verifies sign pub_of sighash Hsv Hcanon canon_parses Hsha.
End Final.
