(* Proofs/SolveP.v — lemmas for property C05 (solver contract Model/Solve.v, template evaluator Spec/Templates.v). *)
From Coq Require Import Permutation Sorted.
From PV Require Import Base.Bytes Base.Outcome Gen.GenSolveC05 Proofs.PushP Spec.Templates Model.Solve.
From Coq Require Import ZifyBool ZifyNat ZifyN.
Local Open Scope N_scope.

(* ================================================================================================ *)
(* 0. the regenerated constants are the ones the templates and the contract were written with       *)
Definition gen_c05_consts_ok : bool :=
  gen_c05_shape_ok &&
  (gen_c05_op_0 =? 0) && (gen_c05_op_1 =? 81) && (gen_c05_op_16 =? 96) && (gen_c05_op_1negate =? 79) &&
  (gen_c05_op_pushdata1 =? 76) && (gen_c05_op_pushdata2 =? 77) && (gen_c05_op_pushdata4 =? 78) &&
  (gen_c05_op_dup =? 118) && (gen_c05_op_hash160 =? 169) && (gen_c05_op_equal =? 135) &&
  (gen_c05_op_equalverify =? 136) && (gen_c05_op_checksig =? 172) && (gen_c05_op_checkmultisig =? 174) &&
  (gen_c05_sighash_all =? 1) && (gen_c05_sighash_none =? 2) && (gen_c05_sighash_single =? 3) &&
  (gen_c05_sighash_forkid =? 64) && (gen_c05_sighash_anyonecanpay =? 128) &&
  (gen_c05_default_flags =? N.lor gen_c05_verify_p2sh gen_c05_verify_witness) &&
  (gen_c05_max_blob_length =? 520) && (gen_c05_max_script_length =? 10000) && (gen_c05_max_stack_size =? 1000) &&
  (gen_c05_order =? secp256k1_order) && (gen_c05_default_signature_type =? 1) &&
  negb gen_c05_forkid_btc && negb gen_c05_forkid_xtn && negb gen_c05_forkid_ltc && gen_c05_forkid_bch && gen_c05_forkid_btg &&
  (* the placeholder: parses, is strictly encoded with low S and hash type ALL (so it occupies a signature slot) *)
  parse_sig_ok gen_c05_placeholder && strict_der gen_c05_placeholder && low_s gen_c05_placeholder &&
  (hash_type_of gen_c05_placeholder =? 1) && (lenN gen_c05_placeholder =? 72).
Lemma gen_c05_consts : gen_c05_consts_ok = true.
Proof. vm_compute. reflexivity. Qed.

(* ================================================================================================ *)
(* 1. sorting (Python's sort of (int, bytes) tuples as insertion sort)                                *)
Definition ele (a b : Z * bytes) : Prop := entry_leb a b = true.

Lemma bytes_leb_refl a : bytes_leb a a = true.
Proof. induction a as [|x a IH]; cbn [bytes_leb]; [reflexivity|]. rewrite N.ltb_irrefl. exact IH. Qed.

Lemma bytes_leb_total a b : bytes_leb a b = true \/ bytes_leb b a = true.
Proof.
  revert b; induction a as [|x a IH]; intros [|y b]; cbn [bytes_leb]; auto.
  destruct (b2n x <? b2n y) eqn:E1; auto.
  destruct (b2n y <? b2n x) eqn:E2; auto.
Qed.

Lemma bytes_leb_antisym a b : bytes_leb a b = true -> bytes_leb b a = true -> a = b.
Proof.
  revert b; induction a as [|x a IH]; intros [|y b]; cbn [bytes_leb]; try discriminate; auto.
  destruct (b2n x <? b2n y) eqn:E1; destruct (b2n y <? b2n x) eqn:E2; try discriminate; try lia.
  intros H1 H2. f_equal; [apply b2n_inj; lia | auto].
Qed.

Lemma bytes_leb_trans a b c : bytes_leb a b = true -> bytes_leb b c = true -> bytes_leb a c = true.
Proof.
  revert b c; induction a as [|x a IH]; intros [|y b] [|z c]; cbn [bytes_leb]; try discriminate; auto.
  destruct (b2n x <? b2n y) eqn:E1; destruct (b2n y <? b2n x) eqn:E2;
  destruct (b2n y <? b2n z) eqn:E3; destruct (b2n z <? b2n y) eqn:E4;
  destruct (b2n x <? b2n z) eqn:E5; destruct (b2n z <? b2n x) eqn:E6; try discriminate; try lia; auto.
  intros; eapply IH; eauto.
Qed.

Lemma ele_refl a : ele a a.
Proof. unfold ele, entry_leb. rewrite Z.ltb_irrefl. apply bytes_leb_refl. Qed.

Lemma ele_total a b : ele a b \/ ele b a.
Proof.
  unfold ele, entry_leb.
  destruct (fst a <? fst b)%Z eqn:E1; auto. destruct (fst b <? fst a)%Z eqn:E2; auto.
  apply bytes_leb_total.
Qed.

Lemma ele_antisym a b : ele a b -> ele b a -> a = b.
Proof.
  unfold ele, entry_leb. destruct a as [i x], b as [j y]; cbn [fst snd].
  destruct (i <? j)%Z eqn:E1; destruct (j <? i)%Z eqn:E2; try discriminate; try lia.
  intros H1 H2. f_equal; [lia | now apply bytes_leb_antisym].
Qed.

Lemma ele_trans a b c : ele a b -> ele b c -> ele a c.
Proof.
  unfold ele, entry_leb. destruct a as [i x], b as [j y], c as [k z]; cbn [fst snd].
  destruct (i <? j)%Z eqn:E1; destruct (j <? i)%Z eqn:E2;
  destruct (j <? k)%Z eqn:E3; destruct (k <? j)%Z eqn:E4;
  destruct (i <? k)%Z eqn:E5; destruct (k <? i)%Z eqn:E6; try discriminate; try lia; auto.
  apply bytes_leb_trans.
Qed.

Lemma ele_lt a b : (fst a < fst b)%Z -> ele a b.
Proof. unfold ele, entry_leb. intros H. replace (fst a <? fst b)%Z with true by lia. reflexivity. Qed.

Lemma insert_perm x l : Permutation (x :: l) (insert x l).
Proof.
  induction l as [|y l IH]; cbn [insert]; [apply Permutation_refl|].
  destruct (entry_leb x y); [apply Permutation_refl|].
  eapply perm_trans; [apply perm_swap|]. now apply perm_skip.
Qed.

Lemma isort_perm l : Permutation l (isort l).
Proof.
  induction l as [|x l IH]; cbn [isort]; [constructor|].
  eapply perm_trans; [apply perm_skip, IH | apply insert_perm].
Qed.

Lemma insert_sorted x l : StronglySorted ele l -> StronglySorted ele (insert x l).
Proof.
  induction 1 as [|y l Hs IH Hy]; cbn [insert].
  - repeat constructor.
  - destruct (entry_leb x y) eqn:E.
    + constructor; [now constructor|]. constructor; [exact E|].
      rewrite Forall_forall in *. intros z Hz. eapply ele_trans; [exact E | now apply Hy].
    + constructor; [exact IH|].
      assert (Hyx : ele y x) by (destruct (ele_total x y) as [H|H]; [unfold ele in H; congruence | exact H]).
      rewrite Forall_forall in *. intros z Hz.
      apply (Permutation_in _ (Permutation_sym (insert_perm x l))) in Hz.
      destruct Hz as [<-|Hz]; [exact Hyx | now apply Hy].
Qed.

Lemma isort_sorted l : StronglySorted ele (isort l).
Proof. induction l; cbn [isort]; [constructor | now apply insert_sorted]. Qed.

Lemma sorted_perm_unique l1 l2 :
  StronglySorted ele l1 -> StronglySorted ele l2 -> Permutation l1 l2 -> l1 = l2.
Proof.
  revert l2; induction l1 as [|a l1 IH]; intros l2 S1 S2 P.
  - apply Permutation_nil in P. now subst.
  - destruct l2 as [|b l2]; [apply Permutation_sym, Permutation_nil in P; discriminate|].
    inversion S1 as [|? ? S1' F1]; inversion S2 as [|? ? S2' F2]; subst.
    assert (a = b) as ->.
    { assert (Hb : In b (a :: l1)) by (eapply Permutation_in; [apply Permutation_sym, P | now left]).
      assert (Ha : In a (b :: l2)) by (eapply Permutation_in; [apply P | now left]).
      rewrite Forall_forall in F1, F2.
      destruct Hb as [->|Hb]; [reflexivity|]. destruct Ha as [->|Ha]; [reflexivity|].
      apply ele_antisym; [now apply F1 | now apply F2]. }
    f_equal. apply IH; auto. eapply Permutation_cons_inv; eauto.
Qed.

Lemma isort_unique l e : StronglySorted ele e -> Permutation l e -> isort l = e.
Proof.
  intros S P. apply sorted_perm_unique; [apply isort_sorted | exact S|].
  eapply perm_trans; [apply Permutation_sym, isort_perm | exact P].
Qed.

(* ================================================================================================ *)
(* 2. push-only scripts: the parser of Spec/Templates.v inverts the minimal push encoder             *)
Ltac ifs := repeat (match goal with
  | |- context [if ?c then _ else _] => let E := fresh "E" in destruct c eqn:E; try lia; try discriminate
  end).

Lemma firstn_app_exact {A} (a b : list A) n : n = length a -> firstn n (a ++ b) = a.
Proof. intros ->. rewrite firstn_app, Nat.sub_diag, firstn_all. cbn. apply app_nil_r. Qed.
Lemma skipn_app_exact {A} (a b : list A) n : n = length a -> skipn n (a ++ b) = b.
Proof. intros ->. rewrite skipn_app, Nat.sub_diag, skipn_all. reflexivity. Qed.

Lemma lenN_app {A} (a b : list A) : lenN (a ++ b) = lenN a + lenN b.
Proof. unfold lenN. rewrite app_length. lia. Qed.
Lemma lenN_cons {A} (x : A) l : lenN (x :: l) = 1 + lenN l.
Proof. unfold lenN. cbn [length]. lia. Qed.

Lemma parse_one_push d rest : lenN d <= 65535 -> parse_one (push_data d ++ rest) = Some (d, rest, true).
Proof.
  intros Hlen. unfold push_data, spec_push.
  destruct d as [|b [|b2 r]].
  - reflexivity.
  - pose proof (b2n_lt b) as Hb.
    destruct ((1 <=? b2n b) && (b2n b <=? 16)) eqn:E1.
    + cbn [app]. unfold parse_one. rewrite b2n_n2b by lia. ifs.
      replace (80 + b2n b - 80) with (b2n b) by lia. now rewrite n2b_b2n.
    + destruct (b2n b =? 129) eqn:E2.
      * cbn [app]. unfold parse_one. change (b2n x4f) with 79. cbn.
        assert (b = x81) as -> by (apply b2n_inj; change (b2n x81) with 129; lia). reflexivity.
      * cbn [app]. unfold parse_one. change (b2n x01) with 1. cbn [N.eqb N.leb N.compare Pos.compare Pos.compare_cont].
        change (N.to_nat 1) with 1%nat. cbn [length Nat.ltb Nat.leb firstn skipn small_int_data].
        rewrite E2. rewrite E1. reflexivity.
  - set (d := b :: b2 :: r) in *.
    assert (Hs : small_int_data d = false) by reflexivity.
    set (n := N.of_nat (length d)). assert (Hn : n = lenN d) by reflexivity.
    assert (H2 : 2 <= n) by (unfold n, d; cbn [length]; lia).
    assert (Hnat : N.to_nat n = length d) by (unfold n; apply Nat2N.id).
    destruct (n <=? 75) eqn:E75; [|destruct (n <=? 255) eqn:E255; [|destruct (n <=? 65535) eqn:E64k; [|lia]]].
    + cbn [app]. unfold parse_one. rewrite b2n_n2b by lia.
      replace (n =? 0) with false by lia. rewrite E75. rewrite Hnat.
      replace (length (d ++ rest) <? length d)%nat with false by (rewrite app_length; lia).
      rewrite firstn_app_exact, skipn_app_exact by reflexivity. now rewrite Hs.
    + cbn [app le_encode]. unfold parse_one. change (b2n x4c) with 76. cbn [N.eqb N.leb N.compare Pos.compare Pos.compare_cont Pos.eqb].
      rewrite b2n_n2b by lia. rewrite Hnat.
      replace (length (d ++ rest) <? length d)%nat with false by (rewrite app_length; lia).
      rewrite firstn_app_exact, skipn_app_exact by reflexivity.
      replace (76 <=? n) with true by lia. reflexivity.
    + cbn [app]. unfold parse_one. change (b2n x4d) with 77. cbn [N.eqb N.leb N.compare Pos.compare Pos.compare_cont Pos.eqb].
      rewrite <- app_assoc.
      replace (length (le_encode 2 n ++ d ++ rest) <? 2)%nat with false by (rewrite app_length, le_encode_length; lia).
      rewrite firstn_app_exact, skipn_app_exact by (now rewrite le_encode_length).
      rewrite le_decode_encode by (change (256 ^ N.of_nat 2) with 65536; lia).
      replace (N.of_nat (length (d ++ rest)) <? n) with false by (rewrite app_length; lia).
      rewrite Hnat, firstn_app_exact, skipn_app_exact by reflexivity.
      replace (256 <=? n) with true by lia. reflexivity.
Qed.

Lemma push_data_nonempty d : (1 <= length (push_data d))%nat.
Proof.
  unfold push_data, spec_push. destruct d as [|b [|b2 r]]; [cbn; lia| |].
  - destruct ((1 <=? b2n b) && (b2n b <=? 16)); [cbn; lia|]. destruct (b2n b =? 129); cbn; lia.
  - destruct (_ <=? 75); [cbn [length]; lia|]. destruct (_ <=? 255); [cbn [length]; lia|].
    destruct (_ <=? 65535); cbn [length]; lia.
Qed.

Lemma parse_pushes_f_pushes items : Forall (fun d => lenN d <= 65535) items ->
  forall fuel, (length (pushes items) <= fuel)%nat -> parse_pushes_f fuel (pushes items) = Some (items, true).
Proof.
  induction 1 as [|d items Hd Hall IH]; intros fuel Hf.
  - destruct fuel; reflexivity.
  - unfold pushes in *. cbn [flat_map] in *.
    pose proof (push_data_nonempty d) as Hne. rewrite app_length in Hf.
    destruct fuel as [|fuel]; [lia|].
    cbn [parse_pushes_f].
    destruct (push_data d ++ flat_map push_data items) eqn:Eq.
    { apply (f_equal (@length _)) in Eq. rewrite app_length in Eq. cbn in Eq. lia. }
    rewrite <- Eq. rewrite parse_one_push by exact Hd. rewrite IH by lia. reflexivity.
Qed.

Lemma parse_pushes_pushes items : Forall (fun d => lenN d <= 65535) items ->
  parse_pushes (pushes items) = Some (items, true).
Proof. intros H. unfold parse_pushes. now apply parse_pushes_f_pushes. Qed.

(* ================================================================================================ *)
(* 3. CHECKMULTISIG's matching loop                                                                   *)
Section Cms.
Variable verifies : bytes -> bytes -> bytes -> bool.
Variable sighash : bool -> N -> bytes -> option bytes.
Variable fl : flags.
Variable wit : bool.
Variable sc : bytes.
Notation sv := (sig_verifies verifies sighash wit sc).
Notation CMS := (cms verifies sighash fl wit sc).

(* keys and signatures top of stack first: every signature has a key of its own further down, in order *)
Inductive matchable : list bytes -> list bytes -> Prop :=
| m_nil : matchable [] []
| m_skip k K sigs : matchable K sigs -> matchable (k :: K) sigs
| m_take k K s sigs : sv s k = true -> matchable K sigs -> matchable (k :: K) (s :: sigs).

Lemma matchable_len K sigs : matchable K sigs -> (length sigs <= length K)%nat.
Proof. induction 1; cbn [length]; lia. Qed.

Lemma matchable_drop K s sr : matchable K (s :: sr) -> matchable K sr.
Proof.
  intros H. remember (s :: sr) as l eqn:El. revert s sr El.
  induction H as [|k K sigs H IH|k K s' sigs Hv H IH]; intros s sr El; try discriminate.
  - apply m_skip. eapply IH; eauto.
  - injection El as -> ->. now apply m_skip.
Qed.

Lemma cms_matchable K : forall sigs,
  Forall (fun s => sig_enc_ok fl s = true) sigs -> Forall (fun k => pub_enc_ok fl wit k = true) K ->
  matchable K sigs -> CMS K sigs = true.
Proof.
  induction K as [|k K IH]; intros sigs Hs Hk Hm.
  - inversion Hm; subst. reflexivity.
  - destruct sigs as [|s sr]; [reflexivity|].
    cbn [cms]. inversion Hs as [|? ? Hs1 Hs2]; inversion Hk as [|? ? Hk1 Hk2]; subst.
    rewrite Hs1, Hk1. cbn [andb].
    destruct (sv s k) eqn:Ev.
    + assert (Hm' : matchable K sr).
      { inversion Hm; subst; [eapply matchable_drop; eauto | assumption]. }
      pose proof (matchable_len _ _ Hm').
      replace (length K <? length sr)%nat with false by lia. now apply IH.
    + assert (Hm' : matchable K (s :: sr)).
      { inversion Hm; subst; [assumption | congruence]. }
      pose proof (matchable_len _ _ Hm').
      replace (length K <? length (s :: sr))%nat with false by lia. now apply IH.
Qed.

Lemma matchable_snoc_skip K sigs k : matchable K sigs -> matchable (K ++ [k]) sigs.
Proof. induction 1; cbn [app]; [apply m_skip, m_nil | now apply m_skip | now apply m_take]. Qed.

Lemma matchable_snoc_take K sigs k s : sv s k = true -> matchable K sigs -> matchable (K ++ [k]) (sigs ++ [s]).
Proof.
  intros Hv. induction 1; cbn [app].
  - apply m_take; [exact Hv | apply m_nil].
  - now apply m_skip.
  - now apply m_take.
Qed.

(* a signature that verifies under none of the remaining keys sinks the whole check *)
Lemma cms_head_never K : forall s sr, (forall k, In k K -> sv s k = false) -> CMS K (s :: sr) = false.
Proof.
  induction K as [|k K IH]; intros s sr Hn; [reflexivity|].
  cbn [cms]. destruct (sig_enc_ok fl s && pub_enc_ok fl wit k); [|reflexivity].
  rewrite (Hn k) by now left.
  destruct (length K <? length (s :: sr))%nat; [reflexivity|].
  apply IH. intros k' Hk'. apply Hn. now right.
Qed.
End Cms.

(* ================================================================================================ *)
(* 4. generic list facts used below                                                                   *)
Lemma sorted_app {A} (R : A -> A -> Prop) l1 l2 :
  StronglySorted R l1 -> StronglySorted R l2 -> (forall a b, In a l1 -> In b l2 -> R a b) ->
  StronglySorted R (l1 ++ l2).
Proof.
  induction 1 as [|a l1 S1 IH F1]; intros S2 H; cbn [app]; [exact S2|].
  constructor.
  - apply IH; [exact S2|]. intros; apply H; [now right | assumption].
  - rewrite Forall_forall in *. intros x Hx. apply in_app_or in Hx. destruct Hx; [now apply F1 | apply H; [now left | assumption]].
Qed.

Lemma sorted_rev {A} (R : A -> A -> Prop) l :
  StronglySorted R l -> StronglySorted (fun a b => R b a) (rev l).
Proof.
  induction 1 as [|a l S IH F]; cbn [rev]; [constructor|].
  apply sorted_app; [exact IH | repeat constructor|].
  intros x y Hx Hy. destruct Hy as [<-|[]]. rewrite Forall_forall in F. apply F. now apply in_rev.
Qed.

Lemma sorted_repeat {A} (R : A -> A -> Prop) x k : R x x -> StronglySorted R (repeat x k).
Proof.
  intros Hx. induction k; cbn [repeat]; constructor; [assumption|].
  rewrite Forall_forall. intros y Hy. apply repeat_spec in Hy. now subst.
Qed.

Lemma rev_repeat {A} (x : A) k : rev (repeat x k) = repeat x k.
Proof.
  induction k; cbn [repeat rev]; [reflexivity|]. rewrite IHk.
  clear. induction k; cbn [repeat app]; [reflexivity|]. now rewrite IHk.
Qed.

Lemma map_repeat {A B} (f : A -> B) x k : map f (repeat x k) = repeat (f x) k.
Proof. induction k; cbn; congruence. Qed.

Lemma enumerate_from_app {A} (a b : list A) i :
  enumerate_from i (a ++ b) = enumerate_from i a ++ enumerate_from (i + length a) b.
Proof.
  revert i; induction a as [|x a IH]; intros i; cbn [app enumerate_from length].
  - now rewrite Nat.add_0_r.
  - rewrite IH. do 3 f_equal. lia.
Qed.

(* reversed(list(enumerate(reversed keys))): each key with the number of keys after it *)
Fixpoint denum {A} (l : list A) : list (nat * A) :=
  match l with
  | [] => []
  | x :: r => (length r, x) :: denum r
  end.

Lemma rev_enumerate_rev {A} (l : list A) : rev (enumerate_from 0 (rev l)) = denum l.
Proof.
  induction l as [|x l IH]; [reflexivity|].
  cbn [rev denum]. rewrite enumerate_from_app, rev_app_distr. cbn [enumerate_from rev app].
  rewrite IH, rev_length. reflexivity.
Qed.

Lemma first_match_none f l i : (forall k, In k l -> f k = false) -> first_match f l i = None.
Proof.
  revert i; induction l as [|k l IH]; intros i H; [reflexivity|].
  cbn [first_match]. rewrite (H k) by now left. apply IH. intros; apply H; now right.
Qed.

Lemma first_match_at f a k b i :
  (forall x, In x a -> f x = false) -> f k = true -> first_match f (a ++ k :: b) i = Some ((i + length a)%nat, k).
Proof.
  revert i; induction a as [|x a IH]; intros i Ha Hk; cbn [app first_match length].
  - rewrite Hk. now rewrite Nat.add_0_r.
  - rewrite (Ha x) by now left. rewrite IH; [|intros; apply Ha; now right|assumption]. do 2 f_equal. lia.
Qed.

(* ================================================================================================ *)
(* 5. the signing contract on the abstract multisig state                                             *)
Definition keyspec : Type := (bytes * bool)%type.          (* (secret, compressed) *)
Definition row : Type := (keyspec * option N)%type.        (* a listed key and the hash type it has signed with *)

Section Rows.
Variable hash160 : bytes -> bytes.
Variable verifies : bytes -> bytes -> bytes -> bool.
Variable sign : bytes -> bytes -> bytes.
Variable pub_of : bytes -> bool -> bytes.
Variable sighash : bool -> N -> bytes -> option bytes.
Variable wit : bool.
Variable sc : bytes.

Definition pub (k : keyspec) : bytes := pub_of (fst k) (snd k).
Definition blob (k : keyspec) (t : N) : bytes :=
  match sighash wit t sc with Some d => sign (fst k) d ++ [n2b t] | None => [] end.

(* signatures present, as the (index in sec_keys, blob) entries of _find_signatures, in script order *)
Fixpoint dentries (rows : list row) : list (Z * bytes) :=
  match rows with
  | [] => []
  | (k, Some t) :: r => (Z.of_nat (length r), blob k t) :: dentries r
  | (_, None) :: r => dentries r
  end.
Definition real_sigs (rows : list row) : list bytes := map snd (dentries rows).
Fixpoint solved_keys (rows : list row) : list bytes :=
  match rows with
  | [] => []
  | (k, Some _) :: r => pub k :: solved_keys r
  | (_, None) :: r => solved_keys r
  end.
Definition count (rows : list row) : nat := length (dentries rows).

Definition ht_ok (t : N) : Prop := t < 256 /\ sighash wit t sc <> None.
Definition rows_ok (rows : list row) : Prop := forall k t, In (k, Some t) rows -> ht_ok t.

(* drop the section hypotheses before arithmetic so that `lia` does not record them as dependencies *)
Ltac clr := repeat match goal with
  | H : ?T |- _ => match T with
                   | forall _, _ => clear H
                   | ht_ok _ => clear H
                   | nat => clear H
                   | N => clear H
                   | list _ => clear H
                   | bool => clear H
                   | lookup => clear H
                   end
  end.

Hypothesis Hsv : forall se c d, verifies (pub_of se c) d (sign se d) = true.
Hypothesis Hparse : forall se d t, parse_sig_ok (sign se d ++ [t]) = true.

Variable ks : list keyspec.
(* a signature made with one listed key does not verify under another listed key *)
Hypothesis Hexcl : forall a k1 b k2 c d, ks = a ++ k1 :: b ++ k2 :: c ->
  verifies (pub k1) d (sign (fst k2) d) = false /\ verifies (pub k2) d (sign (fst k1) d) = false.
(* the placeholder "signature" verifies under no listed key *)
Hypothesis Hph : forall k d, In k ks -> sighash wit 1 sc = Some d ->
  verifies (pub k) d (removelast gen_c05_placeholder) = false.

Variable m : nat.
Notation sec_keys := (rev (map pub ks)).
Notation FS := (find_sigs verifies sighash wit sc m sec_keys).

Lemma blob_ok k t : ht_ok t -> exists d, sighash wit t sc = Some d /\ blob k t = sign (fst k) d ++ [n2b t] /\
  hash_type_of (blob k t) = t /\ removelast (blob k t) = sign (fst k) d /\ parse_sig_ok (blob k t) = true.
Proof.
  intros [Hlt Hd]. unfold blob. destruct (sighash wit t sc) as [d|] eqn:E; [|congruence].
  exists d. repeat split.
  - unfold hash_type_of. rewrite last_last. now apply b2n_n2b.
  - apply removelast_last.
  - apply Hparse.
Qed.

Lemma find_sigs_cons d r seen :
  FS (d :: r) seen =
  if (m <=? seen)%nat then ([], [])
  else if parse_sig_ok d then
    let found := match sighash wit (hash_type_of d) sc with
                 | Some dg => first_match (fun k => verifies k dg (removelast d)) sec_keys 0
                 | None => None end in
    let '(sigs, solved) := FS r (S seen) in
    match found with Some (i, k) => ((Z.of_nat i, d) :: sigs, k :: solved) | None => (sigs, solved) end
  else FS r seen.
Proof using Type. reflexivity. Qed.

Lemma find_sigs_rows cur : forall pre seen rest,
  ks = map fst (pre ++ cur) -> rows_ok cur -> (seen + count cur <= m)%nat ->
  FS (real_sigs cur ++ rest) seen =
  (dentries cur ++ fst (FS rest (seen + count cur)), solved_keys cur ++ snd (FS rest (seen + count cur))).
Proof.
  induction cur as [|[k [t|]] r IH]; intros pre seen rest Hks Hok Hm.
  - unfold real_sigs, count. cbn [dentries map app solved_keys length]. rewrite Nat.add_0_r. now destruct (FS rest seen).
  - unfold real_sigs, count in *. cbn [dentries map snd app solved_keys length] in *.
    destruct (blob_ok k t) as (d & Hd & Hb & Hty & Hrl & Hp); [apply (Hok k t); now left|].
    rewrite find_sigs_cons. replace (m <=? seen)%nat with false by lia.
    rewrite Hp, Hty, Hd, Hrl.
    assert (Hfm : first_match (fun x => verifies x d (sign (fst k) d)) sec_keys 0 = Some (length r, pub k)).
    { assert (Hsec : sec_keys = rev (map pub (map fst r)) ++ pub k :: rev (map pub (map fst pre))).
      { rewrite Hks, map_app. cbn [map fst]. rewrite map_app. cbn [map]. rewrite rev_app_distr. cbn [rev].
        rewrite <- app_assoc. reflexivity. }
      rewrite Hsec. rewrite first_match_at.
      - rewrite rev_length, !map_length. reflexivity.
      - intros x Hx. apply in_rev in Hx. apply in_map_iff in Hx. destruct Hx as (k' & <- & Hk').
        apply in_split in Hk'. destruct Hk' as (b & c & Hsplit).
        destruct (Hexcl (map fst pre) k b k' c d) as [_ H]; [|exact H].
        rewrite Hks, map_app. cbn [map fst]. now rewrite Hsplit.
      - destruct k as [se c]. apply Hsv. }
    rewrite Hfm.
    specialize (IH (pre ++ [(k, Some t)]) (S seen) rest).
    rewrite <- app_assoc in IH. cbn [app] in IH.
    rewrite IH; [| exact Hks | intros k' t' H'; apply (Hok k' t'); now right | lia].
    replace (S seen + length (dentries r))%nat with (seen + S (length (dentries r)))%nat by lia.
    reflexivity.
  - unfold real_sigs, count in *. cbn [dentries solved_keys] in *.
    specialize (IH (pre ++ [(k, None)]) seen rest).
    rewrite <- app_assoc in IH. cbn [app] in IH.
    apply IH; [exact Hks | intros k' t' H'; apply (Hok k' t'); now right | exact Hm].
Qed.

Lemma find_sigs_pads j : forall seen tail, (seen + j = m)%nat ->
  FS (repeat gen_c05_placeholder j ++ tail) seen = ([], []).
Proof.
  induction j as [|j IH]; intros seen tail Hm; cbn [repeat app].
  - destruct tail as [|x tail]; [reflexivity|]. rewrite find_sigs_cons. now replace (m <=? seen)%nat with true by lia.
  - rewrite find_sigs_cons. replace (m <=? seen)%nat with false by lia.
    replace (parse_sig_ok gen_c05_placeholder) with true by (vm_compute; reflexivity).
    replace (hash_type_of gen_c05_placeholder) with 1 by (vm_compute; reflexivity).
    rewrite IH by lia.
    destruct (sighash wit 1 sc) as [dg|] eqn:E; [|reflexivity].
    rewrite first_match_none; [reflexivity|].
    intros x Hx. apply in_rev in Hx. apply in_map_iff in Hx. destruct Hx as (k & <- & Hk). now apply Hph.
Qed.

Lemma find_sigs_skip_empty r seen : FS ([] :: r) seen = FS r seen.
Proof.
  rewrite find_sigs_cons. destruct (m <=? seen)%nat eqn:E; [|reflexivity].
  destruct r; [reflexivity|]. rewrite find_sigs_cons. now rewrite E.
Qed.

(* the existing unlocking data of a multisig input in abstract state `rows`: dummy, signatures, placeholders, tail *)
Definition sig_items (rows : list row) : list bytes :=
  real_sigs rows ++ repeat gen_c05_placeholder (m - count rows).

Lemma find_sigs_state rows tail : ks = map fst rows -> rows_ok rows -> (count rows <= m)%nat ->
  FS ([] :: sig_items rows ++ tail) 0 = (dentries rows, solved_keys rows).
Proof.
  intros Hks Hok Hc. rewrite find_sigs_skip_empty. unfold sig_items. rewrite <- app_assoc.
  rewrite (find_sigs_rows rows [] 0); [|exact Hks|exact Hok|lia].
  cbn [Nat.add]. rewrite find_sigs_pads by lia. cbn [fst snd]. now rewrite !app_nil_r.
Qed.

(* ---- one signing pass: lookup table db, hash type ht ---------------------------------------------- *)
Variable db : lookup.
Variable ht : N.
Hypothesis Hdb : forall k se c, In k ks -> lookup_get db (hash160 (pub k)) = Some (se, c) -> se = fst k.
Hypothesis Hht : ht_ok ht.

Definition avail (k : keyspec) : bool :=
  match lookup_get db (hash160 (pub k)) with Some _ => true | None => false end.

(* the first `budget` unsigned available keys, in script order, sign with ht *)
Fixpoint fill (budget : nat) (rows : list row) : list row :=
  match rows with
  | [] => []
  | (k, Some t) :: r => (k, Some t) :: fill budget r
  | (k, None) :: r =>
    match budget with
    | O => (k, None) :: r
    | S b => if avail k then (k, Some ht) :: fill b r else (k, None) :: fill (S b) r
    end
  end.

Fixpoint new_entries (budget : nat) (rows : list row) : list (Z * bytes) :=
  match rows with
  | [] => []
  | (k, Some t) :: r => new_entries budget r
  | (k, None) :: r =>
    match budget with
    | O => []
    | S b => if avail k then (Z.of_nat (length r), blob k ht) :: new_entries b r else new_entries (S b) r
    end
  end.

Lemma fill_length b rows : length (fill b rows) = length rows.
Proof using Type.
  clr.
  revert b; induction rows as [|[k [t|]] r IH]; intros b; cbn [fill length]; auto.
  destruct b; [reflexivity|]. destruct (avail k); cbn [length]; auto.
Qed.

Lemma fill_fst b rows : map fst (fill b rows) = map fst rows.
Proof using Type.
  clr.
  revert b; induction rows as [|[k [t|]] r IH]; intros b; cbn [fill map fst]; auto.
  - now rewrite IH.
  - destruct b; [reflexivity|]. destruct (avail k); cbn [map fst]; now rewrite IH.
Qed.

Lemma fill_ok b rows : rows_ok rows -> rows_ok (fill b rows).
Proof.
  revert b; induction rows as [|[k [t|]] r IH]; intros b Hok; cbn [fill]; auto.
  - intros k' t' [H|H]; [apply (Hok k' t'); now left|]. apply (IH b) in H; [exact H|]. intros ? ? ?; eapply Hok; right; eauto.
  - assert (Hr : rows_ok r) by (intros ? ? ?; eapply Hok; right; eauto).
    destruct b; [exact Hok|]. destruct (avail k).
    + intros k' t' [H|H]; [injection H as <- <-; exact Hht | now apply (IH b Hr k' t')].
    + intros k' t' [H|H]; [discriminate | now apply (IH (S b) Hr k' t')].
Qed.

Lemma new_entries_length b rows : (length (new_entries b rows) <= b)%nat.
Proof using Type.
  clr.
  revert b; induction rows as [|[k [t|]] r IH]; intros b; cbn [new_entries length]; try lia; auto.
  destruct b; [cbn; lia|]. destruct (avail k); cbn [length]; [specialize (IH b) | specialize (IH (S b))]; lia.
Qed.

Lemma dentries_fill_perm b rows : Permutation (dentries rows ++ new_entries b rows) (dentries (fill b rows)).
Proof using Type.
  clr.
  revert b; induction rows as [|[k [t|]] r IH]; intros b; cbn [dentries new_entries fill app].
  - constructor.
  - rewrite fill_length. apply perm_skip, IH.
  - destruct b; [rewrite app_nil_r; apply Permutation_refl|].
    destruct (avail k); cbn [dentries].
    + rewrite fill_length. apply Permutation_sym. eapply perm_trans; [|apply Permutation_middle].
      apply perm_skip, Permutation_sym, IH.
    + apply IH.
Qed.

Lemma count_fill b rows : count (fill b rows) = (count rows + length (new_entries b rows))%nat.
Proof using Type. unfold count. rewrite <- (Permutation_length (dentries_fill_perm b rows)), app_length. reflexivity. Qed.

(* positions: a listed key is not the key of another position *)
Lemma pub_distinct a k1 b k2 c : ks = a ++ k1 :: b ++ k2 :: c -> pub k1 <> pub k2.
Proof.
  intros Hs E. destruct (Hexcl a k1 b k2 c [] Hs) as [H _].
  rewrite E in H. destruct k2 as [se cc]. unfold pub in H. cbn [fst snd] in H. rewrite Hsv in H. discriminate.
Qed.

Lemma solved_keys_in x rows : In x (solved_keys rows) -> exists k t, In (k, Some t) rows /\ x = pub k.
Proof using Type.
  clr.
  induction rows as [|[k [t|]] r IH]; cbn [solved_keys]; [intros []| |].
  - intros [<-|H]; [exists k, t; split; [now left|reflexivity]|].
    destruct (IH H) as (k' & t' & H1 & H2). exists k', t'. split; [now right|exact H2].
  - intros H. destruct (IH H) as (k' & t' & H1 & H2). exists k', t'. split; [now right|exact H2].
Qed.

Lemma existsb_bytes_in x l : existsb (bytes_eqb x) l = true <-> In x l.
Proof.
  rewrite existsb_exists. split.
  - intros (y & Hy & E). apply bytes_eqb_eq in E. now subst.
  - intros H. exists x. split; [exact H | apply bytes_eqb_refl].
Qed.

Lemma sign_loop_rows cur : forall pre acc,
  ks = map fst (pre ++ cur) ->
  sign_loop hash160 sign sighash db wit sc ht m (denum (map (fun r => pub (fst r)) cur)) (solved_keys (pre ++ cur)) acc
  = Ret (acc ++ new_entries (m - length acc) cur).
Proof.
  induction cur as [|[k [t|]] r IH]; intros pre acc Hks.
  - cbn [map denum sign_loop new_entries]. now rewrite app_nil_r.
  - cbn [map denum sign_loop new_entries fst].
    replace (existsb (bytes_eqb (pub k)) (solved_keys (pre ++ (k, Some t) :: r))) with true.
    + specialize (IH (pre ++ [(k, Some t)]) acc). rewrite <- app_assoc in IH. cbn [app] in IH. now apply IH.
    + symmetry. apply existsb_bytes_in. clear. induction pre as [|[k' [t'|]] pre IHp]; cbn [app solved_keys]; [now left|now right|exact IHp].
  - cbn [map denum sign_loop new_entries fst].
    replace (existsb (bytes_eqb (pub k)) (solved_keys (pre ++ (k, None) :: r))) with false.
    2:{ symmetry. apply not_true_iff_false. intros H. apply existsb_bytes_in in H.
        apply solved_keys_in in H. destruct H as (k' & t' & Hin & E).
        apply in_app_or in Hin. destruct Hin as [Hin|[Hin|Hin]]; [|discriminate|].
        - apply in_split in Hin. destruct Hin as (a & b & ->).
          apply (pub_distinct (map fst a) k' (map fst b) k (map fst r)); [|now symmetry].
          rewrite Hks, !map_app. cbn [map fst]. rewrite <- app_assoc. reflexivity.
        - apply in_split in Hin. destruct Hin as (a & b & ->).
          apply (pub_distinct (map fst pre) k (map fst a) k' (map fst b)); [|exact E].
          rewrite Hks, map_app. cbn [map fst]. now rewrite map_app. }
    rewrite map_length.
    destruct (m - length acc)%nat as [|b] eqn:Eb.
    + replace (m <=? length acc)%nat with true by lia. now rewrite app_nil_r.
    + replace (m <=? length acc)%nat with false by lia.
      unfold avail. destruct (lookup_get db (hash160 (pub k))) as [[se c]|] eqn:El.
      * assert (se = fst k) as ->.
        { eapply Hdb; [|exact El]. rewrite Hks, map_app. apply in_or_app. right. now left. }
        destruct Hht as [Hlt Hd]. destruct (sighash wit ht sc) as [dg|] eqn:Ed; [|congruence].
        replace (256 <=? ht) with false by lia.
        specialize (IH (pre ++ [(k, None)]) (acc ++ [(Z.of_nat (length r), sign (fst k) dg ++ [n2b ht])])).
        rewrite <- app_assoc in IH. cbn [app] in IH. rewrite IH by exact Hks.
        rewrite app_length. cbn [length]. replace (m - (length acc + 1))%nat with b by lia.
        rewrite <- app_assoc. cbn [app]. unfold blob. now rewrite Ed.
      * specialize (IH (pre ++ [(k, None)]) acc). rewrite <- app_assoc in IH. cbn [app] in IH.
        rewrite IH by exact Hks. now rewrite Eb.
Qed.

Lemma dentries_bound rows : Forall (fun e => (0 <= fst e < Z.of_nat (length rows))%Z) (dentries rows).
Proof using Type.
  clr.
  induction rows as [|[k [t|]] r IH]; cbn [dentries length]; [constructor| |].
  - constructor; [cbn [fst]; lia|]. eapply Forall_impl; [|exact IH]. cbn beta. intros; lia.
  - eapply Forall_impl; [|exact IH]. cbn beta. intros; lia.
Qed.

Lemma dentries_desc rows : StronglySorted (fun a b => (fst b < fst a)%Z) (dentries rows).
Proof using Type.
  clr.
  induction rows as [|[k [t|]] r IH]; cbn [dentries]; [constructor| |exact IH].
  constructor; [exact IH|]. eapply Forall_impl; [|apply dentries_bound]. cbn [fst]. intros; lia.
Qed.

Lemma sorted_weaken {A} (R R' : A -> A -> Prop) l :
  (forall a b, R a b -> R' a b) -> StronglySorted R l -> StronglySorted R' l.
Proof.
  intros H. induction 1 as [|a l S IH F]; constructor; [exact IH|].
  eapply Forall_impl; [|exact F]. intros; now apply H.
Qed.

Lemma expected_sorted rows j :
  StronglySorted ele (repeat ((-1)%Z, gen_c05_placeholder) j ++ rev (dentries rows)).
Proof using Type.
  clr.
  apply sorted_app.
  - apply sorted_repeat, ele_refl.
  - apply (sorted_weaken (fun a b => (fst a < fst b)%Z)); [intros; now apply ele_lt|].
    apply (sorted_rev (fun a b => (fst b < fst a)%Z)), dentries_desc.
  - intros a b Ha Hb. apply repeat_spec in Ha. subst a. apply ele_lt. cbn [fst].
    apply in_rev in Hb. pose proof (dentries_bound rows) as F. rewrite Forall_forall in F. specialize (F _ Hb). lia.
Qed.

Lemma real_sigs_length rows : length (real_sigs rows) = count rows.
Proof using Type. clr. unfold real_sigs, count. apply map_length. Qed.

Lemma signing_solver_from blobs rows : ks = map fst rows -> (count rows <= m)%nat ->
  find_sigs verifies sighash wit sc m (rev (map pub ks)) blobs 0 = (dentries rows, solved_keys rows) ->
  signing_solver hash160 verifies sign sighash db wit sc ht m (map pub ks) blobs
  = Ret (sig_items (fill (m - count rows) rows)).
Proof.
  intros Hks Hc Hfs. unfold signing_solver. rewrite Hfs.
  rewrite rev_enumerate_rev.
  replace (map pub ks) with (map (fun r : keyspec * option N => pub (fst r)) rows) by (rewrite Hks, map_map; reflexivity).
  pose proof (sign_loop_rows rows [] (dentries rows)) as HL. cbn [app] in HL. rewrite HL by exact Hks. clear HL.
  fold (count rows).
  set (b := (m - count rows)%nat). set (rows' := fill b rows).
  assert (Hc' : count rows' = (count rows + length (new_entries b rows))%nat) by apply count_fill.
  pose proof (new_entries_length b rows) as Hn.
  rewrite app_length. fold (count rows). rewrite <- Hc'.
  set (j := (m - count rows')%nat).
  rewrite (isort_unique _ (repeat ((-1)%Z, gen_c05_placeholder) j ++ rev (dentries rows'))).
  - rewrite firstn_all2.
    2:{ rewrite app_length, repeat_length, rev_length. fold (count rows'). lia. }
    rewrite map_app, map_repeat, map_rev, rev_app_distr, rev_involutive, rev_repeat. cbn [snd].
    unfold sig_items. fold j. reflexivity.
  - apply expected_sorted.
  - eapply perm_trans; [apply Permutation_app_comm|]. apply Permutation_app_head.
    eapply perm_trans; [apply dentries_fill_perm | apply Permutation_rev].
Qed.

(* ---- the template evaluator on an abstract state ---------------------------------------------------- *)
Variable fl : flags.
Notation sv := (sig_verifies verifies sighash wit sc).

Lemma sig_verifies_nonempty s k : s <> [] ->
  sv s k = match sighash wit (hash_type_of s) sc with Some d => verifies k d (removelast s) | None => false end.
Proof. destruct s; [congruence | reflexivity]. Qed.

Lemma sv_blob k t : ht_ok t -> sv (blob k t) (pub k) = true.
Proof.
  intros H. destruct (blob_ok k t H) as (d & Hd & Hb & Hty & Hrl & Hp).
  unfold sig_verifies. rewrite Hty, Hd, Hrl.
  destruct (blob k t) eqn:E.
  - rewrite Hb in E. destruct (sign (fst k) d); discriminate.
  - destruct k as [se c]. apply Hsv.
Qed.

Lemma sv_placeholder k : In k ks -> sv gen_c05_placeholder (pub k) = false.
Proof.
  intros Hk. rewrite sig_verifies_nonempty by (unfold gen_c05_placeholder; discriminate).
  replace (hash_type_of gen_c05_placeholder) with 1 by (vm_compute; reflexivity).
  destruct (sighash wit 1 sc) as [d|] eqn:Ed; [|reflexivity]. now apply Hph.
Qed.

Lemma matchable_rows rows : rows_ok rows ->
  matchable verifies sighash wit sc (rev (map pub (map fst rows))) (rev (real_sigs rows)).
Proof.
  induction rows as [|[k [t|]] r IH]; intros Hok; unfold real_sigs; cbn [map fst dentries rev snd].
  - constructor.
  - apply matchable_snoc_take.
    + apply sv_blob. apply (Hok k t). now left.
    + apply IH. intros ? ? ?; eapply Hok; right; eauto.
  - apply matchable_snoc_skip. apply IH. intros ? ? ?; eapply Hok; right; eauto.
Qed.

Definition rows_enc_ok (rows : list row) : Prop :=
  forall k t, In (k, Some t) rows -> sig_enc_ok fl (blob k t) = true.

Lemma real_sigs_in x rows : In x (real_sigs rows) -> exists k t, In (k, Some t) rows /\ x = blob k t.
Proof using Type.
  clr.
  unfold real_sigs. induction rows as [|[k [t|]] r IH]; cbn [dentries map snd]; [intros []| |].
  - intros [<-|H]; [exists k, t; split; [now left|reflexivity]|].
    destruct (IH H) as (k' & t' & H1 & H2). exists k', t'. split; [now right|exact H2].
  - intros H. destruct (IH H) as (k' & t' & H1 & H2). exists k', t'. split; [now right|exact H2].
Qed.

Lemma sig_items_length rows : (count rows <= m)%nat -> length (sig_items rows) = m.
Proof using Type. clr. intros H. unfold sig_items. rewrite app_length, repeat_length, real_sigs_length. lia. Qed.

Lemma eval_multisig_state rows clean :
  ks = map fst rows -> rows_ok rows -> rows_enc_ok rows -> (count rows <= m)%nat ->
  (1 <= m <= length ks)%nat -> (length ks <= 20)%nat ->
  (forall k, In k ks -> pub_enc_ok fl wit (pub k) = true) ->
  eval_multisig verifies sighash fl wit clean sc m (map pub ks) ([] :: sig_items rows) = (count rows =? m)%nat.
Proof.
  intros Hks Hok Henc Hc Hm Hn Hpub.
  unfold eval_multisig. rewrite map_length. cbn [length]. rewrite sig_items_length by exact Hc.
  replace ((1 <=? m)%nat && (m <=? length ks)%nat && (length ks <=? 20)%nat && (m + 1 <=? S m)%nat) with true by lia.
  replace (lenN ([] :: sig_items rows) + N.of_nat (length ks) + 2 <=? 1000) with true
    by (unfold lenN; cbn [length]; rewrite sig_items_length by exact Hc; lia).
  replace (S m - (m + 1))%nat with 0%nat by lia. cbn [skipn firstn andb is_nil].
  replace (if f_std fl then true else true) with true by (destruct (f_std fl); reflexivity).
  replace (if clean then true else true) with true by (destruct clean; reflexivity).
  rewrite andb_true_r. cbn [andb].
  destruct (count rows =? m)%nat eqn:E.
  - unfold sig_items. replace (m - count rows)%nat with 0%nat by lia. cbn [repeat]. rewrite app_nil_r.
    apply cms_matchable.
    + rewrite Forall_forall. intros x Hx. apply in_rev in Hx. apply real_sigs_in in Hx.
      destruct Hx as (k & t & Hin & ->). now apply (Henc k t).
    + rewrite Forall_forall. intros x Hx. apply in_rev in Hx. apply in_map_iff in Hx.
      destruct Hx as (k & <- & Hk). now apply Hpub.
    + rewrite Hks. now apply matchable_rows.
  - unfold sig_items. destruct (m - count rows)%nat as [|j] eqn:Ej; [lia|].
    rewrite rev_app_distr, rev_repeat. cbn [repeat app].
    apply cms_head_never. intros x Hx. apply in_rev in Hx. apply in_map_iff in Hx.
    destruct Hx as (k & <- & Hk). now apply sv_placeholder.
Qed.
End Rows.

(* ================================================================================================ *)
(* 6. sizes                                                                                           *)
Lemma push_data_length d : lenN d <= 65535 -> lenN (push_data d) <= lenN d + 3.
Proof.
  intros H. unfold push_data, spec_push. destruct d as [|b [|b2 r]].
  - cbn. lia.
  - destruct ((1 <=? b2n b) && (b2n b <=? 16)); [cbn; lia|]. destruct (b2n b =? 129); cbn; lia.
  - set (d := b :: b2 :: r) in *. fold (lenN d).
    destruct (lenN d <=? 75); [rewrite lenN_cons; lia|].
    destruct (lenN d <=? 255); [rewrite lenN_cons, lenN_app; unfold lenN at 1; rewrite le_encode_length; lia|].
    destruct (lenN d <=? 65535) eqn:E65; [rewrite lenN_cons, lenN_app; unfold lenN at 1; rewrite le_encode_length; lia|lia].
Qed.

Lemma pushes_app a b : pushes (a ++ b) = pushes a ++ pushes b.
Proof. unfold pushes. apply flat_map_app. Qed.

Lemma lenN_pushes B items : B <= 65535 -> Forall (fun d => lenN d <= B) items -> lenN (pushes items) <= (B + 3) * lenN items.
Proof.
  intros HB. induction 1 as [|d items Hd H IH]; [cbn; lia|].
  unfold pushes in *. cbn [flat_map]. rewrite lenN_app, lenN_cons.
  pose proof (push_data_length d ltac:(lia)). nia.
Qed.

Lemma split_last_snoc {A} (l : list A) x : split_last (l ++ [x]) = Some (l, x).
Proof. unfold split_last. rewrite rev_app_distr. cbn [rev app]. now rewrite rev_involutive. Qed.

Lemma strict_der_len sig : strict_der sig = true -> lenN sig <= 73.
Proof.
  unfold strict_der. intros H. repeat (apply andb_true_iff in H; destruct H as [H ?]). unfold lenN. lia.
Qed.

Lemma all_le_520_forall items : Forall (fun d => lenN d <= 520) items -> all_le_520 items = true.
Proof.
  intros H. unfold all_le_520. apply forallb_forall. rewrite Forall_forall in H. intros x Hx. specialize (H x Hx). lia.
Qed.

Lemma Forall_le_weaken items a b : a <= b -> Forall (fun d : bytes => lenN d <= a) items -> Forall (fun d : bytes => lenN d <= b) items.
Proof. intros Hab. apply Forall_impl. intros; lia. Qed.

(* ================================================================================================ *)
(* 7. the four multisig kinds: rendered states, evaluation, one signing pass                          *)
Definition is_ms_kind (kd : kind) : Prop := kd = K_MS \/ kd = K_P2SH_MS \/ kd = K_P2WSH_MS \/ kd = K_P2SH_P2WSH_MS.
Definition kwit (kd : kind) : bool := match kd with K_P2WSH_MS | K_P2SH_P2WSH_MS => true | _ => false end.

Section MsKinds.
Variable hash160 : bytes -> bytes.
Variable sha256 : bytes -> bytes.
Variable verifies : bytes -> bytes -> bytes -> bool.
Variable sign : bytes -> bytes -> bytes.
Variable pub_of : bytes -> bool -> bytes.
Variable sighash : bool -> N -> bytes -> option bytes.

Hypothesis Hsv : forall se c d, verifies (pub_of se c) d (sign se d) = true.
Hypothesis Hcanon : forall se d t, strict_der (sign se d ++ [t]) = true /\ low_s (sign se d ++ [t]) = true.
Hypothesis Hparse : forall se d t, parse_sig_ok (sign se d ++ [t]) = true.
Hypothesis Hsha : forall x, length (sha256 x) = 32%nat.

Notation keys_of ks := (map (pub pub_of) ks).
Notation ms_of m ks := (ms_script m (keys_of ks)).

Definition pz_ms (kd : kind) (m : nat) (ks : list keyspec) : puzzle := mkPuzzle kd m (keys_of ks) [].

(* what the property text assumes about the puzzle, plus the two hypotheses on the abstract ECDSA *)
Record ms_ok (kd : kind) (m : nat) (ks : list keyspec) : Prop := {
  mo_kind : is_ms_kind kd;
  mo_m : (1 <= m <= length ks)%nat;
  mo_n : (length ks <= 20)%nat;
  mo_520 : kd = K_P2SH_MS -> lenN (ms_of m ks) <= 520;
  mo_10k : lenN (ms_of m ks) <= 10000;
  mo_excl : forall a k1 b k2 c d, ks = a ++ k1 :: b ++ k2 :: c ->
            verifies (pub pub_of k1) d (sign (fst k2) d) = false /\ verifies (pub pub_of k2) d (sign (fst k1) d) = false;
  mo_ph : forall k d, In k ks -> sighash (kwit kd) 1 (ms_of m ks) = Some d ->
          verifies (pub pub_of k) d (removelast gen_c05_placeholder) = false
}.

(* the redeem / witness scripts the caller must supply *)
Definition p2sh_ok (kd : kind) (m : nat) (ks : list keyspec) (p2sh : list bytes) : Prop :=
  let ms := ms_of m ks in
  (kd = K_P2SH_MS -> p2sh_get hash160 sha256 p2sh (hash160 ms) = Some ms) /\
  (kd = K_P2WSH_MS \/ kd = K_P2SH_P2WSH_MS -> p2sh_get hash160 sha256 p2sh (sha256 ms) = Some ms) /\
  (kd = K_P2SH_P2WSH_MS ->
   p2sh_get hash160 sha256 p2sh (hash160 (wit0_script (sha256 ms))) = Some (wit0_script (sha256 ms))).

Definition items (kd : kind) (m : nat) (ks : list keyspec) (rows : list row) : list bytes :=
  [] :: sig_items sign sighash (kwit kd) (ms_of m ks) m rows.

Definition render (kd : kind) (m : nat) (ks : list keyspec) (rows : list row) : bytes * list bytes :=
  let ms := ms_of m ks in
  let its := items kd m ks rows in
  match kd with
  | K_MS => (pushes its, [])
  | K_P2SH_MS => (pushes (its ++ [ms]), [])
  | K_P2WSH_MS => ([], its ++ [ms])
  | K_P2SH_P2WSH_MS => (pushes [wit0_script (sha256 ms)], its ++ [ms])
  | _ => ([], [])
  end.

Lemma blob_small w sc k t : lenN (blob sign sighash w sc k t) <= 73.
Proof.
  unfold blob. destruct (sighash w t sc); [|cbn; lia]. apply strict_der_len. apply Hcanon.
Qed.

Lemma items_small kd m ks rows : Forall (fun d => lenN d <= 73) (items kd m ks rows).
Proof.
  unfold items. constructor; [cbn; lia|]. unfold sig_items. apply Forall_app. split.
  - rewrite Forall_forall. intros x Hx. apply real_sigs_in in Hx. destruct Hx as (k & t & _ & ->). apply blob_small.
  - rewrite Forall_forall. intros x Hx. apply repeat_spec in Hx. subst x. vm_compute. discriminate.
Qed.

Lemma items_length kd m ks rows : (count sign sighash (kwit kd) (ms_of m ks) rows <= m)%nat ->
  length (items kd m ks rows) = S m.
Proof. intros H. unfold items. cbn [length]. now rewrite sig_items_length. Qed.

Lemma wit0_sha_len x : lenN (wit0_script (sha256 x)) = 34.
Proof.
  unfold wit0_script, push_data, spec_push. pose proof (Hsha x) as H.
  destruct (sha256 x) as [|b [|b2 r]] eqn:E; [discriminate|discriminate|].
  rewrite <- E in *. unfold lenN. rewrite H. cbn [N.of_nat Pos.of_succ_nat Pos.succ N.leb N.compare Pos.compare Pos.compare_cont].
  cbn [app length]. rewrite H. reflexivity.
Qed.

Lemma parse_pushes_nil : parse_pushes [] = Some ([], true).
Proof. reflexivity. Qed.

Lemma items_sizes kd m ks rows : (m <= 20)%nat -> lenN (ms_of m ks) <= 520 ->
  (count sign sighash (kwit kd) (ms_of m ks) rows <= m)%nat ->
  lenN (items kd m ks rows) <= 21 /\
  lenN (pushes (items kd m ks rows)) <= 1600 /\ lenN (pushes (items kd m ks rows ++ [ms_of m ks])) <= 2200.
Proof.
  intros Hm Hms Hc.
  assert (H1 : lenN (items kd m ks rows) <= 21) by (unfold lenN; rewrite items_length by exact Hc; lia).
  pose proof (lenN_pushes 73 _ ltac:(lia) (items_small kd m ks rows)) as H2.
  split; [exact H1|]. split; [lia|].
  rewrite pushes_app, lenN_app.
  pose proof (lenN_pushes 520 [ms_of m ks] ltac:(lia) ltac:(repeat constructor; exact Hms)) as H3.
  change (lenN [ms_of m ks]) with 1 in H3. lia.
Qed.

Lemma eval_render fl kd m ks rows :
  ms_ok kd m ks -> ks = map fst rows ->
  rows_ok sighash (kwit kd) (ms_of m ks) rows -> rows_enc_ok sign sighash (kwit kd) (ms_of m ks) fl rows ->
  (count sign sighash (kwit kd) (ms_of m ks) rows <= m)%nat ->
  (forall k, In k ks -> pub_enc_ok fl (kwit kd) (pub pub_of k) = true) ->
  eval_input hash160 sha256 verifies sighash fl (pz_ms kd m ks) (fst (render kd m ks rows)) (snd (render kd m ks rows))
  = (count sign sighash (kwit kd) (ms_of m ks) rows =? m)%nat.
Proof.
  intros [Hkd Hm Hn H520 H10k Hex Hph] Hks Hok Henc Hc Hpub.
  assert (HE : forall clean, eval_multisig verifies sighash fl (kwit kd) clean (ms_of m ks) m (keys_of ks) (items kd m ks rows)
               = (count sign sighash (kwit kd) (ms_of m ks) rows =? m)%nat).
  { intros clean. unfold items. eapply (eval_multisig_state) with (hash160 := hash160) (db := []); eauto.
    intros ? ? ? ? H; discriminate H. }
  pose proof (items_small kd m ks rows) as Hsm.
  assert (Hsm520 : all_le_520 (items kd m ks rows) = true)
    by (apply all_le_520_forall; eapply Forall_le_weaken; [|exact Hsm]; lia).
  assert (Hm20 : (m <= 20)%nat) by lia.
  unfold eval_input.
  destruct Hkd as [ -> | [ -> | [ -> | -> ] ] ]; cbn [render fst snd pz_ms pz_kind pz_m pz_keys kwit] in *.
  - (* bare *)
    assert (H1 : lenN (items K_MS m ks rows) <= 21) by (unfold lenN; rewrite items_length by exact Hc; lia).
    pose proof (lenN_pushes 73 _ ltac:(lia) Hsm) as H2.
    replace (10000 <? lenN (pushes (items K_MS m ks rows))) with false by lia.
    rewrite parse_pushes_pushes by (eapply Forall_le_weaken; [|exact Hsm]; lia).
    rewrite Hsm520. replace (1000 <? lenN (items K_MS m ks rows)) with false by lia.
    rewrite andb_false_r. cbn [negb orb is_nil andb]. apply HE.
  - (* P2SH *)
    specialize (H520 eq_refl).
    destruct (items_sizes K_P2SH_MS m ks rows Hm20 H520 Hc) as (H1 & H2 & H3).
    replace (10000 <? lenN (pushes (items K_P2SH_MS m ks rows ++ [ms_of m ks]))) with false by lia.
    rewrite parse_pushes_pushes.
    2:{ apply Forall_app. split; [eapply Forall_le_weaken; [|exact Hsm]; lia | repeat constructor; lia]. }
    replace (all_le_520 (items K_P2SH_MS m ks rows ++ [ms_of m ks])) with true.
    2:{ symmetry. apply all_le_520_forall. apply Forall_app. split; [eapply Forall_le_weaken; [|exact Hsm]; lia | repeat constructor; lia]. }
    replace (1000 <? lenN (items K_P2SH_MS m ks rows ++ [ms_of m ks])) with false by (rewrite lenN_app; change (lenN [ms_of m ks]) with 1; lia).
    rewrite andb_false_r. cbn [negb orb is_nil andb].
    rewrite split_last_snoc, bytes_eqb_refl. cbn [andb]. apply HE.
  - (* P2WSH *)
    change (10000 <? lenN (@nil byte)) with false. cbv iota. rewrite parse_pushes_nil.
    rewrite andb_false_r. cbn [negb orb all_le_520 forallb lenN length N.of_nat N.ltb N.compare expected_wit_script_sig pz_kind bytes_eqb andb].
    unfold eval_witness_part. cbn [pz_kind pz_m pz_keys].
    rewrite split_last_snoc, bytes_eqb_refl, Hsm520.
    replace (lenN (ms_of m ks) <=? 10000) with true by lia. cbn [andb]. apply HE.
  - (* P2SH-P2WSH *)
    pose proof (wit0_sha_len (ms_of m ks)) as Hw.
    pose proof (push_data_length (wit0_script (sha256 (ms_of m ks))) ltac:(lia)) as Hp.
    assert (Hpp : pushes [wit0_script (sha256 (ms_of m ks))] = push_data (wit0_script (sha256 (ms_of m ks))))
      by (unfold pushes; cbn [flat_map]; apply app_nil_r).
    replace (10000 <? lenN (pushes [wit0_script (sha256 (ms_of m ks))])) with false by (rewrite Hpp; lia).
    rewrite parse_pushes_pushes by (repeat constructor; lia).
    replace (all_le_520 [wit0_script (sha256 (ms_of m ks))]) with true
      by (symmetry; apply all_le_520_forall; repeat constructor; lia).
    change (lenN [wit0_script (sha256 (ms_of m ks))]) with 1.
    rewrite andb_false_r. cbn [negb orb N.ltb N.compare Pos.compare Pos.compare_cont expected_wit_script_sig pz_kind pz_m pz_keys].
    rewrite Hpp, bytes_eqb_refl. cbn [andb].
    unfold eval_witness_part. cbn [pz_kind pz_m pz_keys].
    rewrite split_last_snoc, bytes_eqb_refl, Hsm520.
    replace (lenN (ms_of m ks) <=? 10000) with true by lia. cbn [andb]. apply HE.
Qed.
End MsKinds.
