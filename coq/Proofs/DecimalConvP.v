(* Proofs/DecimalConvP.v — lemmas about Model/DecimalConv.v (property C13, decimal conversions). *)
From PV Require Import Base.Bytes Base.Outcome Gen.GenTxBuild Model.DecimalConv.
From Coq Require Import ZifyBool ZifyNat.
Local Open Scope Z_scope.
Ltac Zify.zify_post_hook ::= Z.to_euclidean_division_equations.

(* the table generator found every constant in the shape it expects (see harness/gens/c13.py) *)
Lemma gen_c13_shape : gen_c13_shape_ok = true.
Proof. reflexivity. Qed.

(* ---- the constants are what the table says (a changed constant breaks these lemmas) ------------ *)
Lemma prec_val : prec = 28. Proof. reflexivity. Qed.
Lemma SATOSHI_PER_COIN_val : SATOSHI_PER_COIN = mk_dec false (10 ^ 8) 0. Proof. reflexivity. Qed.
Lemma COIN_PER_SATOSHI_val : COIN_PER_SATOSHI = mk_dec false 1 (-8). Proof. reflexivity. Qed.
Lemma SATOSHI_TO_MBTC_val : SATOSHI_TO_MBTC = mk_dec false (10 ^ 5) 0. Proof. reflexivity. Qed.
Lemma MBTC_PER_SATOSHI_val : MBTC_PER_SATOSHI = mk_dec false 1 (-5). Proof. reflexivity. Qed.
(* the module computes the two reciprocal constants by Decimal division: the division model reproduces them *)
Lemma COIN_PER_SATOSHI_computed : dec_div (dec_of_int 1) SATOSHI_PER_COIN = Ret COIN_PER_SATOSHI.
Proof. vm_compute. reflexivity. Qed.
Lemma MBTC_PER_SATOSHI_computed : dec_div (dec_of_int 1) SATOSHI_TO_MBTC = Ret MBTC_PER_SATOSHI.
Proof. vm_compute. reflexivity. Qed.

(* ---- powers of ten ---------------------------------------------------------------------------- *)
Lemma pow10_pos k : 0 <= k -> 0 < 10 ^ k.
Proof. intros. apply Z.pow_pos_nonneg; lia. Qed.

Lemma pow10_succ k : 0 <= k -> 10 ^ (k + 1) = 10 * 10 ^ k.
Proof. intros. rewrite Z.pow_add_r by lia. change (10 ^ 1) with 10. lia. Qed.

Lemma pow10_lt a b : 0 <= a -> 10 ^ a < 10 ^ b -> a < b.
Proof.
  intros Ha H. destruct (Z.lt_ge_cases a b) as [|Hge]; [assumption|].
  destruct (Z.lt_ge_cases b 0) as [Hb|Hb].
  - rewrite (Z.pow_neg_r 10 b Hb) in H. pose proof (pow10_pos a Ha). lia.
  - pose proof (Z.pow_le_mono_r 10 b a ltac:(lia) Hge). lia.
Qed.

(* ---- ndigits ------------------------------------------------------------------------------------- *)
Lemma ndigits_f_spec fuel c : 0 < c < 2 ^ Z.of_nat fuel ->
  10 ^ (ndigits_f fuel c - 1) <= c < 10 ^ ndigits_f fuel c /\ 1 <= ndigits_f fuel c.
Proof.
  revert c; induction fuel as [|fuel IH]; intros c H.
  - change (2 ^ Z.of_nat 0) with 1 in H. lia.
  - cbn [ndigits_f]. destruct (Z.ltb_spec c 10) as [Hc|Hc].
    + change (10 ^ (1 - 1)) with 1. change (10 ^ 1) with 10. lia.
    + assert (H1 : 0 < c / 10 < 2 ^ Z.of_nat fuel).
      { rewrite Nat2Z.inj_succ, Z.pow_succ_r in H by lia. split.
        - apply Z.div_str_pos; lia.
        - apply Z.div_lt_upper_bound; lia. }
      destruct (IH _ H1) as [[A B] C]. set (m := ndigits_f fuel (c / 10)) in *.
      replace (1 + m - 1) with ((m - 1) + 1) by lia. rewrite (pow10_succ (m - 1)) by lia.
      replace (1 + m) with (m + 1) by lia. rewrite (pow10_succ m) by lia.
      set (p := 10 ^ (m - 1)) in *. set (p' := 10 ^ m) in *. lia.
Qed.

(* fuel sufficiency: the bit length bounds the number of digits *)
Lemma ndigits_spec c : 0 < c -> 10 ^ (ndigits c - 1) <= c < 10 ^ ndigits c /\ 1 <= ndigits c.
Proof.
  intros Hc. unfold ndigits. apply ndigits_f_spec. split; [exact Hc|].
  rewrite Nat2Z.inj_succ, Z2Nat.id by apply Z.log2_nonneg.
  apply Z.log2_spec. exact Hc.
Qed.

Lemma ndigits_0 : ndigits 0 = 1. Proof. reflexivity. Qed.

Lemma ndigits_unique c n : 0 < c -> 10 ^ (n - 1) <= c < 10 ^ n -> ndigits c = n.
Proof.
  intros Hc [A B]. destruct (ndigits_spec c Hc) as [[A' B'] C]. set (m := ndigits c) in *.
  assert (0 <= n).
  { destruct (Z.lt_ge_cases n 0) as [Hn|]; [|assumption]. rewrite (Z.pow_neg_r 10 n Hn) in B. lia. }
  assert (m - 1 < n) by (apply pow10_lt; lia).
  destruct (Z.eq_dec n 0) as [->|]; [change (10 ^ 0) with 1 in B; lia|].
  assert (n - 1 < m) by (apply pow10_lt; lia). lia.
Qed.

Lemma ndigits_le c k : 0 <= c < 10 ^ k -> 1 <= k -> ndigits c <= k.
Proof.
  intros [H0 H] Hk. destruct (Z.eq_dec c 0) as [->|]; [rewrite ndigits_0; exact Hk|].
  destruct (ndigits_spec c ltac:(lia)) as [[A B] C].
  assert (ndigits c - 1 < k) by (apply pow10_lt; lia). lia.
Qed.

Lemma ndigits_scale c k : 0 < c -> 0 <= k -> ndigits (c * 10 ^ k) = ndigits c + k.
Proof.
  intros Hc Hk. destruct (ndigits_spec c Hc) as [[A B] C].
  pose proof (pow10_pos k Hk).
  apply ndigits_unique; [nia|].
  replace (ndigits c + k - 1) with ((ndigits c - 1) + k) by lia.
  rewrite !Z.pow_add_r by lia. nia.
Qed.

(* ---- _fix is the identity below the precision ---------------------------------------------------- *)
Lemma dec_fix_small d : 0 <= d_coef d < 10 ^ prec -> dec_fix d = d.
Proof.
  intros H. unfold dec_fix. destruct (Z.eqb_spec (d_coef d) 0); [reflexivity|].
  pose proof (ndigits_le (d_coef d) prec H ltac:(rewrite prec_val; lia)).
  destruct (Z.leb_spec (ndigits (d_coef d)) prec); [reflexivity|lia].
Qed.

Lemma dec_mul_small a b : 0 <= d_coef a * d_coef b < 10 ^ prec ->
  dec_mul a b = mk_dec (xorb (d_neg a) (d_neg b)) (d_coef a * d_coef b) (d_exp a + d_exp b).
Proof. intros H. unfold dec_mul. apply dec_fix_small. exact H. Qed.

(* ---- quantize to the exponent a value already has -------------------------------------------------- *)
Lemma dec_quantize_same n c e : 0 < c < 10 ^ prec -> dec_quantize (mk_dec n c e) e = Ret (mk_dec n c e).
Proof.
  intros H. unfold dec_quantize. cbn [d_coef d_exp d_neg].
  destruct (Z.eqb_spec c 0); [lia|].
  pose proof (ndigits_le c prec ltac:(lia) ltac:(rewrite prec_val; lia)) as Hn.
  destruct (Z.gtb_spec (ndigits c + e - 1 - e + 1) prec); [lia|].
  unfold dec_rescale. cbn [d_coef d_exp d_neg].
  destruct (Z.eqb_spec c 0); [lia|]. destruct (Z.leb_spec e e); [|lia].
  rewrite Z.sub_diag. change (10 ^ 0) with 1. rewrite Z.mul_1_r. cbn [d_coef].
  destruct (Z.gtb_spec (ndigits c) prec); [lia|reflexivity].
Qed.

(* quantize to a smaller exponent without losing digits *)
Lemma dec_quantize_down n c e e' : 0 < c -> e' <= e -> c * 10 ^ (e - e') < 10 ^ prec ->
  dec_quantize (mk_dec n c e) e' = Ret (mk_dec n (c * 10 ^ (e - e')) e').
Proof.
  intros Hc He H. unfold dec_quantize. cbn [d_coef d_exp d_neg].
  destruct (Z.eqb_spec c 0); [lia|].
  pose proof (pow10_pos (e - e') ltac:(lia)) as Hp.
  assert (Hn : ndigits (c * 10 ^ (e - e')) <= prec) by (apply ndigits_le; [nia|rewrite prec_val; lia]).
  rewrite ndigits_scale in Hn by lia.
  destruct (Z.gtb_spec (ndigits c + e - 1 - e' + 1) prec); [lia|].
  unfold dec_rescale. cbn [d_coef d_exp d_neg].
  destruct (Z.eqb_spec c 0); [lia|]. destruct (Z.leb_spec e' e); [|lia]. cbn [d_coef].
  rewrite ndigits_scale by lia.
  destruct (Z.gtb_spec (ndigits c + (e - e')) prec); [lia|reflexivity].
Qed.

(* ---- satoshi_to_btc ---------------------------------------------------------------------------------- *)
Lemma satoshi_to_btc_exact s : s <> 0 -> Z.abs s < 10 ^ 28 ->
  satoshi_to_btc s = Ret (mk_dec (s <? 0) (Z.abs s) (-8)).
Proof.
  intros Hs Hb. unfold satoshi_to_btc. destruct (Z.eqb_spec s 0); [contradiction|].
  rewrite COIN_PER_SATOSHI_val. cbn [d_exp].
  rewrite dec_mul_small; cbn [dec_of_int d_coef d_neg d_exp]; rewrite ?Z.mul_1_r, ?prec_val; [|lia].
  rewrite xorb_false_r. change (0 + -8) with (-8).
  apply dec_quantize_same. rewrite prec_val. lia.
Qed.

Lemma satoshi_to_btc_zero : satoshi_to_btc 0 = Ret (mk_dec false 0 0).
Proof. reflexivity. Qed.

(* ---- btc_to_satoshi: int(d * 10^8), exact truncation, when the product needs no rounding ----------- *)
Definition sgn (neg : bool) : Z := if neg then -1 else 1.

Lemma to_satoshi_exact (unit_ : dec) k n c e :
  unit_ = mk_dec false (10 ^ k) 0 -> 0 <= k -> 0 <= c -> c * 10 ^ k < 10 ^ prec ->
  dec_to_int (dec_mul (mk_dec n c e) unit_) =
  sgn n * (if 0 <=? e then c * 10 ^ k * 10 ^ e else c * 10 ^ k / 10 ^ (- e)).
Proof.
  intros -> Hk Hc H. pose proof (pow10_pos k Hk).
  rewrite dec_mul_small; cbn [d_coef d_neg d_exp]; [|nia].
  unfold dec_to_int. cbn [d_coef d_neg d_exp]. rewrite xorb_false_r, Z.add_0_r.
  unfold sgn. destruct (0 <=? e); reflexivity.
Qed.

Lemma btc_to_satoshi_trunc n c e : 0 <= c < 10 ^ 20 ->
  btc_to_satoshi (mk_dec n c e) =
  sgn n * (if 0 <=? e then c * 10 ^ 8 * 10 ^ e else c * 10 ^ 8 / 10 ^ (- e)).
Proof.
  intros H. unfold btc_to_satoshi. apply to_satoshi_exact; [apply SATOSHI_PER_COIN_val|lia|lia|].
  rewrite prec_val. change (10 ^ 28) with (10 ^ 20 * 10 ^ 8). nia.
Qed.

Lemma mbtc_to_satoshi_trunc n c e : 0 <= c < 10 ^ 23 ->
  mbtc_to_satoshi (mk_dec n c e) =
  sgn n * (if 0 <=? e then c * 10 ^ 5 * 10 ^ e else c * 10 ^ 5 / 10 ^ (- e)).
Proof.
  intros H. unfold mbtc_to_satoshi. apply to_satoshi_exact; [apply SATOSHI_TO_MBTC_val|lia|lia|].
  rewrite prec_val. change (10 ^ 28) with (10 ^ 23 * 10 ^ 5). nia.
Qed.

(* at most k decimals: the product is an integer and int() changes nothing *)
Lemma scaled_exact c k e : 0 <= k -> - k <= e ->
  (if 0 <=? e then c * 10 ^ k * 10 ^ e else c * 10 ^ k / 10 ^ (- e)) = c * 10 ^ (k + e).
Proof.
  intros Hk He. destruct (Z.leb_spec 0 e).
  - rewrite Z.pow_add_r by lia. lia.
  - replace k with ((k + e) + (- e)) at 1 by lia. rewrite Z.pow_add_r by lia.
    rewrite Z.mul_assoc, Z.div_mul; [reflexivity|]. pose proof (pow10_pos (- e) ltac:(lia)). lia.
Qed.

Lemma btc_to_satoshi_exact n c e : 0 <= c < 10 ^ 20 -> -8 <= e ->
  btc_to_satoshi (mk_dec n c e) = sgn n * (c * 10 ^ (8 + e)).
Proof. intros H He. rewrite btc_to_satoshi_trunc by exact H. rewrite scaled_exact by lia. reflexivity. Qed.

Lemma mbtc_to_satoshi_exact n c e : 0 <= c < 10 ^ 23 -> -5 <= e ->
  mbtc_to_satoshi (mk_dec n c e) = sgn n * (c * 10 ^ (5 + e)).
Proof. intros H He. rewrite mbtc_to_satoshi_trunc by exact H. rewrite scaled_exact by lia. reflexivity. Qed.

Lemma sgn_abs s : sgn (s <? 0) * Z.abs s = s.
Proof. unfold sgn. destruct (Z.ltb_spec s 0); lia. Qed.

(* ---- satoshi -> BTC -> satoshi -------------------------------------------------------------------- *)
Lemma btc_roundtrip s : Z.abs s < 10 ^ 20 ->
  exists d, satoshi_to_btc s = Ret d /\ btc_to_satoshi d = s.
Proof.
  intros H. destruct (Z.eq_dec s 0) as [->|Hs].
  - exists (mk_dec false 0 0). split; reflexivity.
  - exists (mk_dec (s <? 0) (Z.abs s) (-8)). split.
    + apply satoshi_to_btc_exact; [exact Hs|]. change (10 ^ 28) with (10 ^ 20 * 10 ^ 8). lia.
    + rewrite btc_to_satoshi_exact by lia. change (10 ^ (8 + -8)) with 1. rewrite Z.mul_1_r. apply sgn_abs.
Qed.

(* two decimals denote the same number *)
Definition dec_same_value (a b : dec) : Prop :=
  d_neg a = d_neg b /\
  exists m, m <= d_exp a /\ m <= d_exp b /\
    d_coef a * 10 ^ (d_exp a - m) = d_coef b * 10 ^ (d_exp b - m).

(* ---- BTC -> satoshi -> BTC (at most 8 decimals) ----------------------------------------------------- *)
Lemma btc_roundtrip_rev n c e : 0 < c -> -8 <= e -> c * 10 ^ (8 + e) < 10 ^ 20 ->
  satoshi_to_btc (btc_to_satoshi (mk_dec n c e)) = Ret (mk_dec n (c * 10 ^ (8 + e)) (-8)) /\
  dec_same_value (mk_dec n (c * 10 ^ (8 + e)) (-8)) (mk_dec n c e).
Proof.
  intros Hc He H. pose proof (pow10_pos (8 + e) ltac:(lia)) as Hp.
  assert (Hc20 : c < 10 ^ 20) by nia.
  rewrite btc_to_satoshi_exact by lia.
  set (v := c * 10 ^ (8 + e)) in *. assert (0 < v) by nia.
  split.
  - rewrite satoshi_to_btc_exact.
    + f_equal. unfold sgn. destruct n.
      * replace (-1 * v <? 0) with true by (symmetry; apply Z.ltb_lt; lia). f_equal. lia.
      * replace (1 * v <? 0) with false by (symmetry; apply Z.ltb_ge; lia). f_equal. lia.
    + unfold sgn. destruct n; lia.
    + change (10 ^ 28) with (10 ^ 20 * 10 ^ 8). unfold sgn. destruct n; lia.
  - split; [reflexivity|]. exists (-8). cbn [d_coef d_exp]. split; [lia|]. split; [lia|].
    change (-8 - -8) with 0. change (10 ^ 0) with 1. unfold v. replace (e - -8) with (8 + e) by lia. lia.
Qed.

(* ---- Decimal division by 10^5 (satoshi_to_mbtc) ------------------------------------------------------ *)
Lemma strip_zeros_spec fuel c e :
  exists j, 0 <= j <= Z.of_nat fuel /\ snd (strip_zeros fuel c e) = e + j /\ c = fst (strip_zeros fuel c e) * 10 ^ j.
Proof.
  revert c e; induction fuel as [|fuel IH]; intros c e.
  - exists 0. cbn. split; [lia|]. split; lia.
  - cbn [strip_zeros]. destruct (Z.eqb_spec (c mod 10) 0) as [Hm|Hm].
    + destruct (IH (c / 10) (e + 1)) as [j [Hj [He Hc]]].
      exists (j + 1). split; [lia|]. split; [lia|].
      rewrite pow10_succ by lia.
      set (c' := fst (strip_zeros fuel (c / 10) (e + 1))) in *. set (p := 10 ^ j) in *.
      assert (c = 10 * (c / 10)) by lia. nia.
    + exists 0. cbn [fst snd]. split; [lia|]. split; [lia|]. change (10 ^ 0) with 1. lia.
Qed.

(* at least the zeros that are known to be there are stripped *)
Lemma strip_zeros_min fuel c0 m e : 0 <= m <= Z.of_nat fuel -> c0 <> 0 ->
  e + m <= snd (strip_zeros fuel (c0 * 10 ^ m) e).
Proof.
  revert m e; induction fuel as [|fuel IH]; intros m e Hm Hc.
  - cbn. lia.
  - destruct (Z.eq_dec m 0) as [->|Hm0].
    + destruct (strip_zeros_spec (S fuel) (c0 * 10 ^ 0) e) as [j [Hj [He _]]]. lia.
    + cbn [strip_zeros].
      assert (E : c0 * 10 ^ m = (c0 * 10 ^ (m - 1)) * 10).
      { replace m with ((m - 1) + 1) at 1 by lia. rewrite pow10_succ by lia. lia. }
      rewrite E, Z.mod_mul by lia. cbn [Z.eqb]. rewrite Z.div_mul by lia.
      specialize (IH (m - 1) (e + 1) ltac:(lia) Hc). lia.
Qed.

Lemma satoshi_to_mbtc_pos c : 0 < c < 10 ^ 28 ->
  forall n, bind (dec_div (mk_dec n c 0) SATOSHI_TO_MBTC) (fun r => dec_quantize r (-5)) = Ret (mk_dec n c (-5)).
Proof.
  intros Hc n. rewrite SATOSHI_TO_MBTC_val. unfold dec_div. cbn [d_coef d_exp d_neg].
  change (10 ^ 5 =? 0) with false. cbv iota.
  destruct (Z.eqb_spec c 0); [lia|].
  change (ndigits (10 ^ 5)) with 6. rewrite prec_val.
  destruct (ndigits_spec c ltac:(lia)) as [[A B] C].
  assert (Hn : ndigits c <= 28) by (apply ndigits_le; lia).
  set (nd := ndigits c) in *.
  set (shift := 6 - nd + 28 + 1).
  assert (Hs : 7 <= shift) by (unfold shift; lia).
  destruct (Z.leb_spec 0 shift); [|lia].
  change (0 - 0 - shift) with (- shift).
  (* the division by 10^5 is exact *)
  assert (Hnum : c * 10 ^ shift = (c * 10 ^ (shift - 5)) * 10 ^ 5).
  { replace shift with ((shift - 5) + 5) at 1 by lia. rewrite Z.pow_add_r by lia. lia. }
  rewrite Hnum, Z.mod_mul, Z.div_mul by (change (10 ^ 5) with 100000; lia).
  cbn [Z.eqb negb]. cbv iota.
  change (0 - 0) with 0. replace (0 - - shift) with shift by lia.
  rewrite xorb_false_r.
  set (fuel := Z.to_nat shift).
  destruct (strip_zeros_spec fuel (c * 10 ^ (shift - 5)) (- shift)) as [j [Hj [He Hcj]]].
  pose proof (strip_zeros_min fuel c (shift - 5) (- shift) ltac:(unfold fuel; lia) ltac:(lia)) as Hmin.
  set (ce := strip_zeros fuel (c * 10 ^ (shift - 5)) (- shift)) in *.
  set (c' := fst ce) in *. set (e' := snd ce) in *.
  unfold fuel in Hj. rewrite Z2Nat.id in Hj by lia.
  (* c' * 10^(e'+5) = c *)
  assert (Hj5 : shift - 5 <= j) by lia.
  assert (Hval : c = c' * 10 ^ (e' + 5)).
  { replace j with ((e' + 5) + (shift - 5)) in Hcj by lia.
    rewrite Z.pow_add_r, Z.mul_assoc in Hcj by lia.
    pose proof (pow10_pos (shift - 5) ltac:(lia)). nia. }
  pose proof (pow10_pos (e' + 5) ltac:(lia)) as Hp.
  assert (Hc' : 0 < c') by nia.
  assert (Hc'le : c' <= c) by nia.
  rewrite dec_fix_small by (cbn [d_coef]; rewrite prec_val; lia).
  cbn [bind].
  rewrite (dec_quantize_down n c' e' (-5)).
  - replace (e' - -5) with (e' + 5) by lia. rewrite <- Hval. reflexivity.
  - exact Hc'.
  - lia.
  - replace (e' - -5) with (e' + 5) by lia. rewrite <- Hval, prec_val. lia.
Qed.

Lemma satoshi_to_mbtc_exact s : s <> 0 -> Z.abs s < 10 ^ 28 ->
  satoshi_to_mbtc s = Ret (mk_dec (s <? 0) (Z.abs s) (-5)).
Proof.
  intros Hs Hb. unfold satoshi_to_mbtc. destruct (Z.eqb_spec s 0); [contradiction|].
  rewrite MBTC_PER_SATOSHI_val. cbn [d_exp]. unfold dec_of_int.
  apply satoshi_to_mbtc_pos. lia.
Qed.

Lemma mbtc_roundtrip s : Z.abs s < 10 ^ 23 ->
  exists d, satoshi_to_mbtc s = Ret d /\ mbtc_to_satoshi d = s.
Proof.
  intros H. destruct (Z.eq_dec s 0) as [->|Hs].
  - exists (mk_dec false 0 0). split; reflexivity.
  - exists (mk_dec (s <? 0) (Z.abs s) (-5)). split.
    + apply satoshi_to_mbtc_exact; [exact Hs|]. change (10 ^ 28) with (10 ^ 23 * 10 ^ 5). lia.
    + rewrite mbtc_to_satoshi_exact by lia. change (10 ^ (5 + -5)) with 1. rewrite Z.mul_1_r. apply sgn_abs.
Qed.

Lemma mbtc_roundtrip_rev n c e : 0 < c -> -5 <= e -> c * 10 ^ (5 + e) < 10 ^ 23 ->
  satoshi_to_mbtc (mbtc_to_satoshi (mk_dec n c e)) = Ret (mk_dec n (c * 10 ^ (5 + e)) (-5)) /\
  dec_same_value (mk_dec n (c * 10 ^ (5 + e)) (-5)) (mk_dec n c e).
Proof.
  intros Hc He H. pose proof (pow10_pos (5 + e) ltac:(lia)) as Hp.
  assert (Hc23 : c < 10 ^ 23) by nia.
  rewrite mbtc_to_satoshi_exact by lia.
  set (v := c * 10 ^ (5 + e)) in *. assert (0 < v) by nia.
  split.
  - rewrite satoshi_to_mbtc_exact.
    + f_equal. unfold sgn. destruct n.
      * replace (-1 * v <? 0) with true by (symmetry; apply Z.ltb_lt; lia). f_equal. lia.
      * replace (1 * v <? 0) with false by (symmetry; apply Z.ltb_ge; lia). f_equal. lia.
    + unfold sgn. destruct n; lia.
    + change (10 ^ 28) with (10 ^ 23 * 10 ^ 5). unfold sgn. destruct n; lia.
  - split; [reflexivity|]. exists (-5). cbn [d_coef d_exp]. split; [lia|]. split; [lia|].
    change (-5 - -5) with 0. change (10 ^ 0) with 1. unfold v. replace (e - -5) with (5 + e) by lia. lia.
Qed.

(* the bitcoin money range is inside every bound used above *)
Lemma max_money_small : 21 * 10 ^ 14 < 10 ^ 20.
Proof. vm_compute. reflexivity. Qed.
