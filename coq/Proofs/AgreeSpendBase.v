(* Proofs/AgreeSpendBase.v — C03 spend-level agreement, ingredients that concern one side only or one evaluation:
   * Core's EvalScript reads the flags word through a fixed set of bits (feq): check_solution's stripped / extended
     flag words (no MINIMALIF / WITNESS_PUBKEYTYPE / P2SH for the base runs, CLEANSTACK added for witness runs) give
     the same Core evaluation;
   * the agreement theorem of Proofs/AgreeTop.v in Core's internal stack convention, and the size invariant of the
     stack an evaluation returns;
   * an undecodable script never evaluates successfully. *)
From Coq Require Import Lia ZifyBool ZifyNat ZifyN.
From PV Require Import Base.Bytes Base.Outcome Gen.GenOpcodes Gen.GenFlags.
From PV Require Import Model.ScriptNum Model.Push Model.CondStack Spec.VMTypes Model.VMpy Spec.VMcore.
From PV Require Import Proofs.AgreeBase Proofs.AgreeSigEnc Proofs.AgreeSig Proofs.AgreeInv Proofs.AgreeTop.
Local Open Scope N_scope.

(* ---- the bits EvalScript looks at ---------------------------------------------------------------------------------- *)
Record feq (f g : N) (sv : sigversion) : Prop := {
  fe_md : flag_set f VERIFY_MINIMALDATA = flag_set g VERIFY_MINIMALDATA;
  fe_cltv : flag_set f VERIFY_CHECKLOCKTIMEVERIFY = flag_set g VERIFY_CHECKLOCKTIMEVERIFY;
  fe_csv : flag_set f VERIFY_CHECKSEQUENCEVERIFY = flag_set g VERIFY_CHECKSEQUENCEVERIFY;
  fe_nops : flag_set f VERIFY_DISCOURAGE_UPGRADABLE_NOPS = flag_set g VERIFY_DISCOURAGE_UPGRADABLE_NOPS;
  fe_der : flag_set f VERIFY_DERSIG = flag_set g VERIFY_DERSIG;
  fe_lows : flag_set f VERIFY_LOW_S = flag_set g VERIFY_LOW_S;
  fe_strict : flag_set f VERIFY_STRICTENC = flag_set g VERIFY_STRICTENC;
  fe_nullfail : flag_set f VERIFY_NULLFAIL = flag_set g VERIFY_NULLFAIL;
  fe_nulldummy : flag_set f VERIFY_NULLDUMMY = flag_set g VERIFY_NULLDUMMY;
  fe_mif : sv = SV_WITNESS_V0 -> flag_set f VERIFY_MINIMALIF = flag_set g VERIFY_MINIMALIF;
  fe_wpt : sv = SV_WITNESS_V0 -> flag_set f VERIFY_WITNESS_PUBKEYTYPE = flag_set g VERIFY_WITNESS_PUBKEYTYPE
}.

Section Feq.
Variable o : oracles.
Variables f g : N.
Variable sv : sigversion.
Variable ctx : txctx.
Hypothesis E : feq f g sv.

Lemma feq_sigenc sig : check_signature_encoding (o_order o) f sig = check_signature_encoding (o_order o) g sig.
Proof. unfold check_signature_encoding. now rewrite (fe_der _ _ _ E), (fe_lows _ _ _ E), (fe_strict _ _ _ E). Qed.

Lemma feq_pkenc k : check_pubkey_encoding f sv k = check_pubkey_encoding g sv k.
Proof.
  unfold check_pubkey_encoding. rewrite (fe_strict _ _ _ E).
  destruct sv eqn:Esv; [now rewrite !andb_false_r|]. now rewrite (fe_wpt _ _ _ E eq_refl).
Qed.

Lemma feq_cms code keys : forall sigs, cms_loop o f sv code sigs keys = cms_loop o g sv code sigs keys.
Proof.
  induction keys as [|k keys IH]; intros sigs; destruct sigs as [|sg sigs]; cbn [cms_loop]; try reflexivity.
  rewrite feq_sigenc, feq_pkenc. destruct (check_signature_encoding _ _ _); cbn [cbind]; try reflexivity.
  destruct (check_pubkey_encoding _ _ _); cbn [cbind]; try reflexivity.
  destruct (length keys <? _)%nat; [reflexivity|apply IH].
Qed.

Lemma feq_checksig v s : op_checksig o f sv v s = op_checksig o g sv v s.
Proof.
  unfold op_checksig. destruct (e_stack s) as [|key [|sig r]]; try reflexivity.
  now rewrite feq_sigenc, feq_pkenc, (fe_nullfail _ _ _ E).
Qed.

Lemma feq_checkmultisig mn v s : op_checkmultisig o f sv mn v s = op_checkmultisig o g sv mn v s.
Proof.
  unfold op_checkmultisig. destruct (e_stack s) as [|kc s1]; [reflexivity|].
  destruct (script_num mn 4 kc); cbn [cbind]; try reflexivity.
  destruct (_ || _); [reflexivity|]. cbv zeta. destruct (MAX_OPS_PER_SCRIPT <? _); [reflexivity|].
  destruct (length s1 <? _)%nat; [reflexivity|]. destruct (skipn _ s1) as [|sc s3]; [reflexivity|].
  destruct (script_num mn 4 sc); cbn [cbind]; try reflexivity.
  destruct (_ || _); [reflexivity|]. destruct (length s3 <? _)%nat; [reflexivity|].
  now rewrite feq_cms, (fe_nullfail _ _ _ E), (fe_nulldummy _ _ _ E).
Qed.

Lemma feq_nop s : op_nop_upgradable f s = op_nop_upgradable g s.
Proof. unfold op_nop_upgradable. now rewrite (fe_nops _ _ _ E). Qed.
Lemma feq_cltv mn s : op_cltv f mn ctx s = op_cltv g mn ctx s.
Proof. unfold op_cltv. now rewrite (fe_cltv _ _ _ E), feq_nop. Qed.
Lemma feq_csv mn s : op_csv f mn ctx s = op_csv g mn ctx s.
Proof. unfold op_csv. now rewrite (fe_csv _ _ _ E), feq_nop. Qed.
Lemma feq_if notif fx s : op_if f sv notif fx s = op_if g sv notif fx s.
Proof.
  unfold op_if. destruct fx; [|reflexivity]. destruct (e_stack s); [reflexivity|].
  destruct sv eqn:Esv; [reflexivity|]. now rewrite (fe_mif _ _ _ E eq_refl).
Qed.

Lemma feq_exec op rest fx s : exec_op o f sv ctx op rest fx s = exec_op o g sv ctx op rest fx s.
Proof.
  unfold exec_op. cbv zeta. rewrite (fe_md _ _ _ E).
  destruct op; try reflexivity;
    first [apply feq_if | apply feq_cltv | apply feq_csv | apply feq_nop | apply feq_checksig | apply feq_checkmultisig].
Qed.

Lemma feq_step op data rest s : VMcore.step o f sv ctx op data rest s = VMcore.step o g sv ctx op data rest s.
Proof. unfold VMcore.step. now rewrite (fe_md _ _ _ E), feq_exec. Qed.

Lemma feq_loop fuel : forall rest s, eval_loop o f sv ctx fuel rest s = eval_loop o g sv ctx fuel rest s.
Proof.
  induction fuel as [|n IH]; intros rest s; destruct rest as [|b t]; cbn [eval_loop]; try reflexivity.
  destruct (get_op (b :: t)) as [[[op d] r]|]; [|reflexivity]. rewrite feq_step.
  destruct (VMcore.step o g sv ctx op d r s); cbn [cbind]; try reflexivity. apply IH.
Qed.

Lemma feq_eval script st : eval_script_e o f sv ctx script st = eval_script_e o g sv ctx script st.
Proof. unfold eval_script_e. now rewrite feq_loop. Qed.
End Feq.

(* ---- bit algebra of check_solution's flag words ----------------------------------------------------------------------- *)
Lemma land_ldiff_disjoint f m c : N.land m c = 0 -> N.land (N.ldiff f m) c = N.land f c.
Proof.
  intros H. apply N.bits_inj. intros i. rewrite !N.land_spec, N.ldiff_spec.
  assert (K : N.testbit (N.land m c) i = false) by (rewrite H; apply N.bits_0).
  rewrite N.land_spec in K. destruct (N.testbit f i), (N.testbit m i), (N.testbit c i); cbn in *; congruence.
Qed.
Lemma land_ldiff_inside f m c : N.land c m = c -> N.land (N.ldiff f m) c = 0.
Proof.
  intros H. apply N.bits_inj. intros i. rewrite N.land_spec, N.ldiff_spec, N.bits_0.
  assert (K : N.testbit (N.land c m) i = N.testbit c i) by now rewrite H.
  rewrite N.land_spec in K. destruct (N.testbit f i), (N.testbit m i), (N.testbit c i); cbn in *; congruence.
Qed.
Lemma land_lor_disjoint f m c : N.land m c = 0 -> N.land (N.lor f m) c = N.land f c.
Proof. intros H. now rewrite N.land_lor_distr_l, H, N.lor_0_r. Qed.

Lemma flag_ldiff f m c : N.land m c = 0 -> flag_set (N.ldiff f m) c = flag_set f c.
Proof. intros H. unfold flag_set. now rewrite land_ldiff_disjoint. Qed.
Lemma flag_ldiff_clear f m c : N.land c m = c -> flag_set (N.ldiff f m) c = false.
Proof. intros H. unfold flag_set. now rewrite land_ldiff_inside. Qed.
Lemma flag_lor f m c : N.land m c = 0 -> flag_set (N.lor f m) c = flag_set f c.
Proof. intros H. unfold flag_set. now rewrite land_lor_disjoint. Qed.

Definition base_mask : N := N.lor VERIFY_MINIMALIF VERIFY_WITNESS_PUBKEYTYPE.

Lemma feq_base1 flags : feq (N.ldiff flags base_mask) flags SV_BASE.
Proof. constructor; try discriminate; apply flag_ldiff; reflexivity. Qed.
Lemma feq_base2 flags : feq (N.ldiff (N.ldiff flags base_mask) VERIFY_P2SH) flags SV_BASE.
Proof. constructor; try discriminate; rewrite flag_ldiff by reflexivity; apply flag_ldiff; reflexivity. Qed.
Lemma feq_wit flags : feq (N.lor flags VERIFY_CLEANSTACK) flags SV_WITNESS_V0.
Proof. constructor; intros; apply flag_lor; reflexivity. Qed.

Lemma strict_base1 flags : strict (N.ldiff flags base_mask) = strict flags.
Proof. apply flag_ldiff. reflexivity. Qed.
Lemma strict_base2 flags : strict (N.ldiff (N.ldiff flags base_mask) VERIFY_P2SH) = strict flags.
Proof. unfold strict. rewrite flag_ldiff by reflexivity. apply flag_ldiff. reflexivity. Qed.
Lemma strict_wit flags : strict (N.lor flags VERIFY_CLEANSTACK) = strict flags.
Proof. apply flag_lor. reflexivity. Qed.

(* ---- one evaluation, in Core's internal convention (head of the list = top of the stack) -------------------------- *)
Lemma stack_eqb_eq a : forall b, stack_eqb a b = true -> a = b.
Proof.
  induction a as [|x a IH]; intros [|y b] H; cbn [stack_eqb] in H; try discriminate; [reflexivity|].
  apply andb_true_iff in H. destruct H as [H1 H2]. apply bytes_eqb_eq in H1. subst. f_equal. auto.
Qed.

Definition eval_rel (py : vres stack) (core : cres (list bytes)) : Prop :=
  match py, core with
  | VOk r, COk r' => r' = rev r
  | VFail, CErr _ => True
  | _, _ => False
  end.

Lemma eval_pair o fpy flags sv ctx script st : feq fpy flags sv -> c03_hyps o fpy sv script st ->
  eval_rel (VMpy.eval_script o fpy sv ctx script st) (eval_script_e o flags sv ctx script (rev st)).
Proof.
  intros E H. rewrite <- (feq_eval o fpy flags sv ctx E).
  pose proof (eval_agree_all o fpy sv ctx script st H) as A.
  unfold EvalScript, EvalScriptE in A.
  destruct (VMpy.eval_script o fpy sv ctx script st) as [r| |e|],
           (eval_script_e o fpy sv ctx script (rev st)) as [r'|e'|]; cbn in *; try discriminate; auto.
  apply stack_eqb_eq in A. subst. now rewrite rev_involutive.
Qed.

(* the stack a successful evaluation returns satisfies the size invariant again *)
Lemma loop_items o flags sv ctx (Hh : hash_ok o) fuel : forall rest c c',
  eval_loop o flags sv ctx fuel rest c = COk c' -> items_ok (e_stack c) (e_alt c) -> items_ok (e_stack c') (e_alt c').
Proof.
  induction fuel as [|n IH]; intros rest c c'; destruct rest as [|b t]; cbn [eval_loop]; try discriminate.
  - intros H; injection H as <-; auto.
  - intros H; injection H as <-; auto.
  - destruct (get_op (b :: t)) as [[[op d] r]|]; [|discriminate].
    destruct (VMcore.step o flags sv ctx op d r c) as [c1|e|] eqn:Es; cbn [cbind]; try discriminate.
    intros H Hi. eapply IH; [exact H|]. eapply step_inv; eauto.
Qed.

Lemma eval_items o flags sv ctx script st r : hash_ok o -> Forall item_ok st -> N.of_nat (length st) < 2 ^ 32 ->
  eval_script_e o flags sv ctx script st = COk r -> Forall item_ok r /\ N.of_nat (length r) < 2 ^ 32.
Proof.
  intros Hh Hf Hl. unfold eval_script_e. destruct (MAX_SCRIPT_SIZE <? len script); [discriminate|].
  destruct (eval_loop _ _ _ _ _ _ _) as [c'|e|] eqn:El; cbn [cbind]; try discriminate.
  destruct (e_vf c'); [|discriminate]. intros H; injection H as <-.
  apply (loop_items o flags sv ctx Hh) in El; [|cbn; unfold items_ok; auto].
  destruct El as (A & _ & B). auto.
Qed.
