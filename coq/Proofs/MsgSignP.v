(* Proofs/MsgSignP.v — lemmas about Model/MsgSign.v.
   Part 1: the compact signature encoding (first byte, r, s, base64) decodes to what was encoded.
   Part 2: totality of verify_message over ALL signature texts (no group law needed).
   Part 3: signer recovery and the exact conditions under which another hash/key/address verifies
           (group hypotheses about the multiples of G only). *)
From PV Require Import Base.Bytes Base.Outcome Base.Varint Model.Base64 Proofs.Base64P Model.MsgSign.
From Coq Require Import ZifyBool ZifyNat ZifyN Zdiv Setoid Morphisms.
Local Ltac Zify.zify_post_hook ::= idtac.   (* no div/mod expansion here: moduli are variables *)
Local Open Scope Z_scope.

(* ================================================================================================ *)
(* Part 1: encoding                                                                                  *)

(* the two early `return False` of verify_message's str branch *)
Definition key_refused (key : keyref) : bool :=
  match key with
  | KUnparseable => true
  | KAddr k _ => negb (refers_to_key k)
  | _ => false
  end.

(* "key is the signer (x, y) in compression form c": what a key or address must be for a signature to verify *)
Definition key_is_signer (hash160 : bytes -> bytes) (key : keyref) (x y : Z) (c : bool) : Prop :=
  match key with
  | KPair x' y' => x' = x /\ y' = y
  | KHash h => exists sec, public_pair_to_sec x y c = Ret sec /\ h = Some (hash160 sec)
  | KAddr k h => refers_to_key k = true /\ exists sec, public_pair_to_sec x y c = Ret sec /\ h = Some (hash160 sec)
  | KUnparseable => False
  end.

Lemma Ret_inj {A} (a b : A) : Ret a = Ret b -> a = b.
Proof. intros H. injection H. auto. Qed.

Lemma pow256_32 : (256 ^ N.of_nat 32)%N = Z.to_N (2 ^ 256).
Proof. vm_compute. reflexivity. Qed.

Lemma to_bytes_32_inv v b : to_bytes_32 v = Ret b ->
  0 <= v < 2 ^ 256 /\ b = be_encode 32 (Z.to_N v) /\ length b = 32%nat.
Proof.
  unfold to_bytes_32. destruct ((0 <=? v) && (v <? 2 ^ 256)) eqn:E; [|discriminate].
  intros H. injection H as <-. rewrite be_encode_length. split; [|auto].
  apply andb_true_iff in E. destruct E as [E1 E2]. apply Z.leb_le in E1. apply Z.ltb_lt in E2. auto.
Qed.

Lemma to_bytes_32_ok v : 0 <= v < 2 ^ 256 -> to_bytes_32 v = Ret (be_encode 32 (Z.to_N v)).
Proof.
  intros [H1 H2]. unfold to_bytes_32.
  apply Z.leb_le in H1. apply Z.ltb_lt in H2. now rewrite H1, H2.
Qed.

Lemma from_to_bytes_32 v : 0 <= v < 2 ^ 256 -> from_bytes_32 (be_encode 32 (Z.to_N v)) = v.
Proof.
  intros H. unfold from_bytes_32. rewrite be_decode_encode.
  - apply Z2N.id. lia.
  - rewrite pow256_32. apply Z2N.inj_lt; lia.
Qed.

Lemma from_bytes_32_range b : length b = 32%nat -> 0 <= from_bytes_32 b < 2 ^ 256.
Proof.
  intros H. unfold from_bytes_32, be_decode.
  pose proof (le_decode_bound (rev b)) as B. rewrite rev_length, H, pow256_32 in B.
  split; [lia|]. apply Z2N.inj_lt; [lia|lia|]. now rewrite N2Z.id.
Qed.

(* the bit fiddling on the first byte *)
Lemma first_byte_bits (recid : Z) (c : bool) : 0 <= recid <= 3 ->
  let first := 27 + recid + (if c then 4 else 0) in
  (27 <=? first) && (first <? 35) = true /\
  negb (Z.land (first - 27) 4 =? 0) = c /\ Z.land (first - 27) 3 = recid.
Proof.
  intros H. assert (C : recid = 0 \/ recid = 1 \/ recid = 2 \/ recid = 3) by lia.
  destruct c; destruct C as [-> | [-> | [-> | ->]]]; vm_compute; auto.
Qed.

Lemma land1_cases y : Z.land y 1 = 0 \/ Z.land y 1 = 1.
Proof.
  pose proof (Z.land_ones y 1 ltac:(lia)) as E. change (Z.ones 1) with 1 in E. change (2 ^ 1) with 2 in E.
  rewrite E. pose proof (Z.mod_pos_bound y 2 ltac:(lia)). lia.
Qed.

  Lemma decode_encode (first r s : Z) (rb sb : bytes) (recid : Z) (c : bool) :
    0 <= recid <= 3 -> first = 27 + recid + (if c then 4 else 0) ->
    to_bytes_32 r = Ret rb -> to_bytes_32 s = Ret sb ->
    decode_signature (bstrip (b2a_base64 (z2b first :: rb ++ sb))) = Ret (c, recid, r, s).
  Proof.
    intros Hrec Hfirst Hr Hs.
    apply to_bytes_32_inv in Hr. destruct Hr as (Rr & Er & Lr).
    apply to_bytes_32_inv in Hs. destruct Hs as (Rs & Es & Ls).
    unfold decode_signature. rewrite a2b_b2a.
    assert (L : length (z2b first :: rb ++ sb) = 65%nat) by (cbn [length]; rewrite app_length; lia).
    rewrite L. change (negb (65 =? 65)%nat) with false. cbv iota.
    cbn [nth]. rewrite b2z_z2b by (subst first; destruct c; lia).
    destruct (first_byte_bits recid c Hrec) as (B1 & B2 & B3). cbv zeta in B1, B2, B3.
    rewrite <- Hfirst in B1, B2, B3. rewrite B1. cbn [negb]. rewrite B2, B3.
    assert (S1 : slice 1 33 (z2b first :: rb ++ sb) = rb).
    { unfold slice. cbn [skipn Nat.sub]. change 32%nat with (32 + 0)%nat at 1.
      rewrite <- Lr at 1. rewrite Nat.add_0_r. apply firstn_app_exact. }
    assert (S2 : slice 33 65 (z2b first :: rb ++ sb) = sb).
    { unfold slice. change (65 - 33)%nat with 32%nat. 
      change (skipn 33 (z2b first :: rb ++ sb)) with (skipn 32 (rb ++ sb)).
      replace (skipn 32 (rb ++ sb)) with sb by (rewrite <- Lr; symmetry; apply skipn_app_exact).
      rewrite <- Ls. apply firstn_all. }
    rewrite S1, S2, Er, Es, !from_to_bytes_32 by assumption. reflexivity.
  Qed.

  (* every text: the decoder returns fields in range or raises EncodingError *)
  Lemma decode_class text :
    (exists c recid r s, decode_signature text = Ret (c, recid, r, s) /\ 0 <= recid <= 3) \/
    decode_signature text = Raise E_ENCODING.
  Proof.
    unfold decode_signature. destruct (a2b_class text) as [[sig ->] | ->]; [|now right].
    destruct (negb (length sig =? 65)%nat); [now right|].
    destruct (negb _); [now right|].
    left. do 4 eexists. split; [reflexivity|].
    pose proof (Z.land_ones (b2z (nth 0 sig x00) - 27) 2 ltac:(lia)) as E.
    change (Z.ones 2) with 3 in E. change (2 ^ 2) with 4 in E. rewrite E.
    pose proof (Z.mod_pos_bound (b2z (nth 0 sig x00) - 27) 4 ltac:(lia)). lia.
  Qed.

(* small arithmetic facts, stated outside the sections so that lia sees a clean context *)
Lemma range_true r s n : 0 <= r < n -> r <> 0 -> 0 <= s < n -> s <> 0 ->
  (1 <=? r) && (r <? n) && (1 <=? s) && (s <? n) = true.
Proof. lia. Qed.

Lemma recid_range y (b : bool) : 0 <= Z.land y 1 + (if b then 2 else 0) <= 3.
Proof. destruct (land1_cases y) as [-> | ->]; destruct b; lia. Qed.

Lemma recid_bit y (b : bool) : (Z.land (Z.land y 1 + (if b then 2 else 0)) 1 =? 0) = (Z.land y 1 =? 0).
Proof. destruct (land1_cases y) as [-> | ->]; destruct b; reflexivity. Qed.

(* the abscissa of the nonce point is restored from r and the high recid bit (needs x < 2n) *)
Lemma restore_x n p x y : 1 < n -> p <= 2 * n -> 0 <= x < p -> x mod n <> 0 ->
  (if 1 <? Z.land y 1 + (if n <? x then 2 else 0) then x mod n + n else x mod n) = x.
Proof.
  intros Hn Hp Hx Hr. destruct (n <? x) eqn:En.
  - replace (1 <? Z.land y 1 + 2) with true by (destruct (land1_cases y) as [-> | ->]; lia).
    apply Z.ltb_lt in En.
    assert (E : x - n = x mod n) by (apply (Z.mod_unique_pos x n 1 (x - n)); lia).
    lia.
  - replace (1 <? Z.land y 1 + 0) with false by (destruct (land1_cases y) as [-> | ->]; lia).
    apply Z.ltb_ge in En.
    assert (x <> n) by (intros ->; rewrite Z.mod_same in Hr by lia; lia).
    apply Z.mod_small. lia.
Qed.

(* ================================================================================================ *)
(* Part 2: totality of the verifier                                                                  *)
Section Total.
  Variable pt : Type.
  Variable padd : pt -> pt -> pt.
  Variable smul : Z -> pt -> pt.
  Variable G : pt.
  Variable n p : Z.
  Variable coords : pt -> option (Z * Z).
  Variable points_for_x : Z -> option (pt * pt).
  Variable inv_n : Z -> Z.
  Variable dsha256 : bytes -> bytes.
  Variable hash160 : bytes -> bytes.

  Local Notation pair_for := (pair_for_message_hash pt padd smul G n p coords points_for_x inv_n).
  Local Notation verify := (verify_message pt padd smul G n p coords points_for_x inv_n dsha256 hash160).
  Local Notation matches := (pair_matches_key pt coords hash160).

  (* `onc` = "is a point of the curve (or infinity)": the values the Python Point class can hold *)
  Variable onc : pt -> Prop.
  Hypothesis onc_G : onc G.
  Hypothesis onc_add : forall P Q, onc P -> onc Q -> onc (padd P Q).
  Hypothesis onc_smul : forall a P, onc P -> onc (smul a P).
  Hypothesis onc_points_for_x : forall x P0 P1, 0 <= x < p -> points_for_x x = Some (P0, P1) -> onc P0 /\ onc P1.
  Hypothesis coords_range : forall P x y, onc P -> coords P = Some (x, y) -> 0 <= x < p /\ 0 <= y < p.
  Hypothesis p_fits : p <= 2 ^ 256.

  (* for every text and hash: a finite on-curve point and a flag, or EncodingError — nothing else *)
  Lemma pair_for_class text z :
    (exists q c, pair_for text z = Ret (q, c) /\ onc q /\ coords q <> None) \/
    pair_for text z = Raise E_ENCODING.
  Proof.
    unfold pair_for_message_hash.
    destruct (decode_class text) as [(c & recid & r & s & -> & Hrec) | ->]; [|now right].
    cbn [bind].
    destruct ((1 <=? r) && (r <? n) && (1 <=? s) && (s <? n)) eqn:Erange; cbn [negb]; [|now right].
    repeat rewrite andb_true_iff in Erange. destruct Erange as [[[E1 E2] _] _].
    apply Z.leb_le in E1. apply Z.ltb_lt in E2.
    set (x := if 1 <? recid then r + n else r).
    assert (Hx0 : 0 <= x) by (unfold x; destruct (1 <? recid); lia).
    destruct (p <=? x) eqn:Epx; [now right|]. apply Z.leb_gt in Epx.
    destruct (points_for_x x) as [[p0 p1]|] eqn:Epts; [|now right].
    assert (Hr : r mod n <> 0) by (rewrite Z.mod_small; lia).
    unfold inverse. apply Z.eqb_neq in Hr. rewrite Hr. cbn [bind].
    destruct (onc_points_for_x _ _ _ (conj Hx0 Epx) Epts) as [O0 O1].
    set (q := padd _ _).
    assert (Oq : onc q).
    { apply onc_add; apply onc_smul; auto. destruct (Z.land recid 1 =? 0); auto. }
    destruct (coords q) as [xy|] eqn:Eq; [|now right].
    left. exists q, c. rewrite Eq. split; [reflexivity|]. split; [exact Oq|discriminate].
  Qed.

  Lemma sec_total x y c : 0 <= x < p -> 0 <= y < p -> exists sec, public_pair_to_sec x y c = Ret sec.
  Proof.
    intros Hx Hy. unfold public_pair_to_sec.
    rewrite (to_bytes_32_ok x) by lia. cbn [bind]. destruct c; [eauto|].
    rewrite (to_bytes_32_ok y) by lia. cbn [bind]. eauto.
  Qed.

  Lemma matches_total q key c : onc q -> coords q <> None -> key <> KUnparseable ->
    exists b, matches q key c = Ret b.
  Proof.
    intros Oq Hq Hk. destruct key as [x y|h|k h|]; [| | |congruence]; cbn [pair_matches_key]; [eauto| |];
    (destruct (coords q) as [[qx qy]|] eqn:E; [|congruence];
     destruct (coords_range _ _ _ Oq E) as [Hx Hy];
     destruct (sec_total qx qy c Hx Hy) as [sec ->]; cbn [bind]; eauto).
  Qed.

  Lemma verify_unfold_t key text magic message msg_hash :
    verify key text magic message msg_hash =
    if key_refused key then Ret false else
    match bind (match message with
                | Some m => hash_for_signing dsha256 magic m
                | None => Ret (match msg_hash with Some h => h | None => 0 end)
                end) (fun z => pair_for text z) with
    | Raise E_ENCODING => Ret false
    | Raise e => Raise e
    | OutOfFuel => OutOfFuel
    | Ret (q, c) => matches q key c
    end.
  Proof. reflexivity. Qed.

  Lemma not_refused key : key_refused key = false -> key <> KUnparseable.
  Proof. intros H ->. discriminate. Qed.

  (* verification with an explicit hash (msg_hash=...) or without message and hash (hash 0) *)
  Lemma verify_total_hash key text magic msg_hash :
    exists b, verify key text magic None msg_hash = Ret b.
  Proof.
    rewrite verify_unfold_t. destruct (key_refused key) eqn:Ek; [eauto|]. cbn [bind].
    destruct (pair_for_class text (match msg_hash with Some h0 => h0 | None => 0 end))
       as [(q & c & -> & Oq & Hq) | ->]; [|eauto]. apply matches_total; auto. now apply not_refused.
  Qed.

  (* verification of a text message: total as soon as the two strings can be framed (length < 2^64) *)
  Lemma hash_for_signing_total magic m :
    (N.of_nat (length magic) < 2 ^ 64)%N -> (N.of_nat (length m) < 2 ^ 64)%N ->
    exists z, hash_for_signing dsha256 magic m = Ret z.
  Proof.
    intros H1 H2. unfold hash_for_signing, stream_varstr.
    destruct (varint_frame _ [] H1) as (a & -> & _). destruct (varint_frame _ [] H2) as (b & -> & _).
    cbn [bind]. eauto.
  Qed.

  Lemma verify_total_message key text magic m msg_hash :
    (N.of_nat (length magic) < 2 ^ 64)%N -> (N.of_nat (length m) < 2 ^ 64)%N ->
    exists b, verify key text magic (Some m) msg_hash = Ret b.
  Proof.
    intros H1 H2. destruct (hash_for_signing_total magic m H1 H2) as [z Hz].
    rewrite verify_unfold_t, Hz. destruct (key_refused key) eqn:Ek; [eauto|]. cbn [bind].
    destruct (pair_for_class text z) as [(q & c & -> & Oq & Hq) | ->]; [|eauto].
    apply matches_total; auto. now apply not_refused.
  Qed.
End Total.

(* ================================================================================================ *)
(* Part 3: the signer is recovered; who else verifies                                                *)
Section Recover.
  Variable pt : Type.
  Variable padd : pt -> pt -> pt.
  Variable smul : Z -> pt -> pt.
  Variable G : pt.
  Variable n p : Z.
  Variable coords : pt -> option (Z * Z).
  Variable points_for_x : Z -> option (pt * pt).
  Variable inv_n : Z -> Z.
  Variable gen_k : Z -> Z -> Z -> Z.
  Variable dsha256 : bytes -> bytes.
  Variable hash160 : bytes -> bytes.

  Local Notation pair_for := (pair_for_message_hash pt padd smul G n p coords points_for_x inv_n).
  Local Notation verify := (verify_message pt padd smul G n p coords points_for_x inv_n dsha256 hash160).
  Local Notation matches := (pair_matches_key pt coords hash160).
  Local Notation sign_sig := (signature_for_message_hash pt smul G n coords inv_n gen_k).
  Local Notation sloop := (sign_loop pt smul G n coords inv_n).
  Local Notation "a == b" := (eqm n a b) (at level 70).

  (* hypotheses: all about the cyclic group of multiples of G, of prime order n, on a curve over F_p *)
  Hypothesis n_gt1 : 1 < n.
  Hypothesis inv_ok : forall a, a mod n <> 0 -> (a * inv_n a) mod n = 1.       (* n prime *)
  Hypothesis smulG_smul : forall a b, smul a (smul b G) = smul (a * b) G.
  Hypothesis smulG_add : forall a b, padd (smul a G) (smul b G) = smul (a + b) G.
  Hypothesis smulG_eq : forall a b, smul a G = smul b G <-> a mod n = b mod n. (* G has order exactly n *)
  Hypothesis smulG_inf : forall a, coords (smul a G) = None <-> a mod n = 0.
  Hypothesis coordsG_range : forall a x y, coords (smul a G) = Some (x, y) -> 0 <= x < p.
  Hypothesis hasse : p <= 2 * n.                (* holds for every curve of prime order over F_p with p >= 13 *)
  Hypothesis pfx_complete : forall a x y, coords (smul a G) = Some (x, y) ->
    exists P0 P1, points_for_x x = Some (P0, P1) /\ (if Z.land y 1 =? 0 then P0 else P1) = smul a G.

  Local Instance eqm_equiv : Equivalence (eqm n) := eqm_setoid n.
  Local Instance eqm_add : Proper (eqm n ==> eqm n ==> eqm n) Z.add := Zplus_eqm n.
  Local Instance eqm_sub : Proper (eqm n ==> eqm n ==> eqm n) Z.sub := Zminus_eqm n.
  Local Instance eqm_mul : Proper (eqm n ==> eqm n ==> eqm n) Z.mul := Zmult_eqm n.
  Local Instance eqm_opp : Proper (eqm n ==> eqm n) Z.opp := Zopp_eqm n.

  Lemma eqm_intro a b : a mod n = b mod n -> a == b.
  Proof. auto. Qed.
  Lemma eqm_of_eq a b : a = b -> a == b.
  Proof. intros ->. reflexivity. Qed.
  Lemma eqm_one a : a mod n = 1 -> a == 1.
  Proof. intros H. unfold eqm. rewrite H. symmetry. apply Z.mod_1_l. lia. Qed.

  (* what a successful sign_with_recid loop returns *)
  Lemma sign_loop_inv fuel : forall k d z r s recid, sloop fuel k d z = Ret (r, s, recid) ->
    exists k' x y, coords (smul k' G) = Some (x, y) /\ k' mod n <> 0 /\
      r = x mod n /\ r <> 0 /\ s = (inv_n k' * (z + (d * r) mod n)) mod n /\ s <> 0 /\
      recid = Z.land y 1 + (if n <? x then 2 else 0).
  Proof.
    induction fuel as [|f IH]; intros k d z r s recid; cbn [sign_loop]; [discriminate|].
    destruct (coords (smul k G)) as [[x y]|] eqn:Ec; [|discriminate].
    unfold inverse. destruct (k mod n =? 0) eqn:Ek; [discriminate|]. cbn [bind].
    destruct (negb (x mod n =? 0) && negb (_ =? 0)) eqn:Enz.
    - intros H. injection H as <- <- <-.
      apply andb_true_iff in Enz. destruct Enz as [E1 E2].
      rewrite negb_true_iff in E1, E2. apply Z.eqb_neq in E1, E2, Ek.
      exists k, x, y. repeat split; auto.
    - apply IH.
  Qed.

  (* the heart: on a text produced by the signer, recovery with ANY hash z' returns the point
     (d + r^-1 (z - z'))·G, or EncodingError when that is the point at infinity *)
  Lemma pair_for_signed fuel d z c text :
    sign_sig fuel d z c = Ret text ->
    exists ir, (forall t, ir * t == 0 -> t == 0) /\
      forall z', pair_for text z' =
        let q := smul (d + ir * (z - z')) G in
        match coords q with None => Raise E_ENCODING | Some _ => Ret (q, c) end.
  Proof.
    intros H. unfold signature_for_message_hash in H.
    apply bind_ret_inv in H. destruct H as ([[r s] recid] & Es & H). cbv beta iota zeta in H.
    apply bind_ret_inv in H. destruct H as (rb & Erb & H).
    apply bind_ret_inv in H. destruct H as (sb & Esb & H). apply Ret_inj in H. subst text.
    unfold sign_with_recid in Es. destruct (z =? 0); [discriminate|].
    destruct (sign_loop_inv _ _ _ _ _ _ _ Es) as (k & x & y & Ec & Hk & Hr & Hr0 & Hs & Hs0 & Hrec).
    pose proof (coordsG_range _ _ _ Ec) as Hx.
    pose proof (Z.mod_pos_bound x n ltac:(lia)) as Br. rewrite <- Hr in Br.
    assert (Bs : 0 <= s < n) by (rewrite Hs; apply Z.mod_pos_bound; lia).
    assert (Hrn : r mod n <> 0) by (rewrite Z.mod_small; lia).
    pose proof (inv_ok r Hrn) as Ir. pose proof (inv_ok k Hk) as Ik.
    exists (inv_n r). split.
    { intros t Ht.
      assert (E : t == (r * inv_n r) * t).
      { apply eqm_one in Ir. setoid_rewrite Ir. apply eqm_of_eq. ring. }
      setoid_rewrite E. replace (r * inv_n r * t) with (r * (inv_n r * t)) by ring.
      setoid_rewrite Ht. apply eqm_of_eq. ring. }
    intros z'. unfold pair_for_message_hash.
    assert (Hrecid : 0 <= recid <= 3) by (rewrite Hrec; apply recid_range).
    rewrite (decode_encode _ r s rb sb recid c Hrecid eq_refl Erb Esb). cbn [bind].
    rewrite (range_true r s n Br Hr0 Bs Hs0). cbn [negb].
    (* the abscissa is restored *)
    assert (Hxx : (if 1 <? recid then r + n else r) = x).
    { rewrite Hrec, Hr. apply (restore_x n p x y n_gt1 hasse Hx). now rewrite <- Hr. }
    rewrite Hxx. replace (p <=? x) with false by (clear - Hx; lia).
    destruct (pfx_complete _ _ _ Ec) as (P0 & P1 & -> & Hsel).
    assert (Hbit : (Z.land recid 1 =? 0) = (Z.land y 1 =? 0)) by (rewrite Hrec; apply recid_bit).
    rewrite Hbit, Hsel.
    unfold inverse. apply Z.eqb_neq in Hrn. rewrite Hrn. cbn [bind].
    rewrite smulG_smul, smulG_add.
    assert (Hexp : s * inv_n r * k + - (inv_n r * z') == d + inv_n r * (z - z')).
    { assert (Es' : s == inv_n k * (z + d * r)).
      { rewrite Hs. unfold eqm. rewrite Z.mod_mod by lia.
        change (inv_n k * (z + (d * r) mod n) == inv_n k * (z + d * r)).
        setoid_rewrite (Zmod_eqm n (d * r)). reflexivity. }
      setoid_rewrite Es'. apply eqm_one in Ir, Ik.
      transitivity ((k * inv_n k) * (inv_n r * z + d * (r * inv_n r)) + - (inv_n r * z')).
      { apply eqm_of_eq. ring. }
      setoid_rewrite Ik. setoid_rewrite Ir. apply eqm_of_eq. ring. }
    apply smulG_eq in Hexp. rewrite Hexp. reflexivity.
  Qed.

  (* ---- verify_message in terms of pair_for_message_hash ------------------------------------------- *)
  Definition verify_with (key : keyref) (text : bytes) (z : Z) : outcome bool :=
    match pair_for text z with
    | Raise E_ENCODING => Ret false
    | Raise e => Raise e
    | OutOfFuel => OutOfFuel
    | Ret (q, c) => matches q key c
    end.

  Lemma verify_hash_unfold key text magic z : key_refused key = false ->
    verify key text magic None (Some z) = verify_with key text z.
  Proof. intros H. destruct key as [x y|h|[| |] h|]; try discriminate; reflexivity. Qed.

  (* an address that does not refer to a key (P2SH, P2WSH, P2TR, unknown kind) and an unparseable address never
     verify, whatever the signature text, message or hash *)
  Lemma verify_refused key text magic message mh : key_refused key = true ->
    verify key text magic message mh = Ret false.
  Proof. intros H. destruct key as [x y|h|[| |] h|]; try discriminate; reflexivity. Qed.

  Lemma verify_msg_unfold key text magic m mh z : hash_for_signing dsha256 magic m = Ret z ->
    verify key text magic (Some m) mh = verify key text magic None (Some z).
  Proof. intros H. unfold verify_message. rewrite H. reflexivity. Qed.

  Lemma matches_pair_true q x y c : coords q = Some (x, y) -> matches q (KPair x y) c = Ret true.
  Proof. intros E. cbn [pair_matches_key]. rewrite E, !Z.eqb_refl. reflexivity. Qed.

  Lemma matches_hash_true q x y c sec : coords q = Some (x, y) -> public_pair_to_sec x y c = Ret sec ->
    matches q (KHash (Some (hash160 sec))) c = Ret true.
  Proof.
    intros E Hs. cbn [pair_matches_key]. rewrite E, Hs. cbn [bind opt_bytes_eqb].
    now rewrite bytes_eqb_refl.
  Qed.

  Lemma matches_addr_true q x y c sec k : coords q = Some (x, y) -> public_pair_to_sec x y c = Ret sec ->
    matches q (KAddr k (Some (hash160 sec))) c = Ret true.
  Proof.
    intros E Hs. cbn [pair_matches_key]. rewrite E, Hs. cbn [bind opt_bytes_eqb].
    now rewrite bytes_eqb_refl.
  Qed.

  (* exactly which keys a recovered point matches *)
  Lemma matches_true_inv q key c : matches q key c = Ret true ->
    exists x y, coords q = Some (x, y) /\
      match key with
      | KPair x' y' => x' = x /\ y' = y
      | KHash h | KAddr _ h => exists sec, public_pair_to_sec x y c = Ret sec /\ h = Some (hash160 sec)
      | KUnparseable => False
      end.
  Proof.
    destruct key as [x' y'|h|k h|]; cbn [pair_matches_key]; [| | |discriminate].
    - destruct (coords q) as [[qx qy]|]; [|discriminate]. intros H. apply Ret_inj in H.
      apply andb_true_iff in H. destruct H as [H1 H2]. apply Z.eqb_eq in H1, H2. eauto.
    - destruct (coords q) as [[qx qy]|]; [|discriminate].
      destruct (public_pair_to_sec qx qy c) as [sec| |] eqn:Es; cbn [bind]; try discriminate.
      intros H. apply Ret_inj in H. exists qx, qy. split; [reflexivity|]. exists sec. split; [first [exact Es | reflexivity]|].
      destruct h as [h|]; cbn [opt_bytes_eqb] in H; [|discriminate]. apply bytes_eqb_eq in H. now subst.
    - destruct (coords q) as [[qx qy]|]; [|discriminate].
      destruct (public_pair_to_sec qx qy c) as [sec| |] eqn:Es; cbn [bind]; try discriminate.
      intros H. apply Ret_inj in H. exists qx, qy. split; [reflexivity|]. exists sec. split; [first [exact Es | reflexivity]|].
      destruct h as [h|]; cbn [opt_bytes_eqb] in H; [|discriminate]. apply bytes_eqb_eq in H. now subst.
  Qed.

  (* ---- (a) the signer is recovered and verifies, by key and by address ----------------------------- *)
  Lemma sign_recovers fuel d z c text : d mod n <> 0 -> sign_sig fuel d z c = Ret text ->
    pair_for text z = Ret (smul d G, c).
  Proof.
    intros Hd H. destruct (pair_for_signed _ _ _ _ _ H) as (ir & _ & Hp). rewrite Hp. cbv zeta.
    replace (d + ir * (z - z)) with d by ring.
    destruct (coords (smul d G)) eqn:E; [reflexivity|]. apply smulG_inf in E. contradiction.
  Qed.

  Lemma sign_verifies fuel d z c text magic : d mod n <> 0 -> sign_sig fuel d z c = Ret text ->
    pair_for text z = Ret (smul d G, c) /\
    exists x y, coords (smul d G) = Some (x, y) /\
      verify (KPair x y) text magic None (Some z) = Ret true /\
      forall sec, public_pair_to_sec x y c = Ret sec ->
        verify (KHash (Some (hash160 sec))) text magic None (Some z) = Ret true /\
        forall k, refers_to_key k = true ->
          verify (KAddr k (Some (hash160 sec))) text magic None (Some z) = Ret true.
  Proof.
    intros Hd H. pose proof (sign_recovers _ _ _ _ _ Hd H) as R. split; [exact R|].
    destruct (coords (smul d G)) as [[x y]|] eqn:E; [|apply smulG_inf in E; contradiction].
    exists x, y. split; [reflexivity|]. split.
    - rewrite verify_hash_unfold by reflexivity. unfold verify_with. rewrite R. exact (matches_pair_true _ x y c E).
    - intros sec Hs. split.
      + rewrite verify_hash_unfold by reflexivity. unfold verify_with. rewrite R.
        exact (matches_hash_true _ x y c sec E Hs).
      + intros k Hk. rewrite verify_hash_unfold by (cbn [key_refused]; now rewrite Hk). unfold verify_with. rewrite R.
        exact (matches_addr_true _ x y c sec k E Hs).
  Qed.

  (* ---- (b) with the signed hash, nothing but the signer's pair / the hash160 of its SEC form verifies - *)
  Lemma verify_true_inv key text z magic : verify key text magic None (Some z) = Ret true ->
    key_refused key = false /\ verify_with key text z = Ret true.
  Proof.
    intros V. destruct (key_refused key) eqn:Ek.
    - rewrite (verify_refused _ _ _ _ _ Ek) in V. discriminate.
    - split; [reflexivity|]. now rewrite <- (verify_hash_unfold _ _ magic _ Ek).
  Qed.

  Lemma signer_of_match key q c x y : key_refused key = false -> matches q key c = Ret true ->
    coords q = Some (x, y) -> key_is_signer hash160 key x y c.
  Proof.
    intros Ek M Ec. apply matches_true_inv in M. destruct M as (x0 & y0 & E0 & M).
    rewrite Ec in E0. injection E0 as <- <-.
    destruct key as [x' y'|h|k h|]; cbn [key_is_signer]; auto.
    split; [|exact M]. cbn [key_refused] in Ek. now apply negb_false_iff in Ek.
  Qed.

  Lemma sign_only_signer fuel d z c text magic key : d mod n <> 0 -> sign_sig fuel d z c = Ret text ->
    verify key text magic None (Some z) = Ret true ->
    exists x y, coords (smul d G) = Some (x, y) /\ key_is_signer hash160 key x y c.
  Proof.
    intros Hd H V. apply verify_true_inv in V. destruct V as [Ek V]. unfold verify_with in V.
    rewrite (sign_recovers _ _ _ _ _ Hd H) in V.
    destruct (coords (smul d G)) as [[x y]|] eqn:E; [|apply smulG_inf in E; contradiction].
    exists x, y. split; [reflexivity|]. exact (signer_of_match _ _ _ _ _ Ek V E).
  Qed.

  (* ---- (c) another hash ------------------------------------------------------------------------------ *)
  Hypothesis coordsG_inj : forall a b, coords (smul a G) = coords (smul b G) -> smul a G = smul b G.

  (* recovery with z' returns the signer exactly when z' = z modulo n; otherwise another multiple of G
     (or EncodingError when that multiple is the point at infinity) *)
  Lemma sign_other_hash fuel d z c text z' : sign_sig fuel d z c = Ret text ->
    (z' mod n = z mod n -> d mod n <> 0 -> pair_for text z' = Ret (smul d G, c)) /\
    (z' mod n <> z mod n ->
       pair_for text z' = Raise E_ENCODING \/
       exists e, smul e G <> smul d G /\ coords (smul e G) <> None /\ pair_for text z' = Ret (smul e G, c)).
  Proof.
    intros H. destruct (pair_for_signed _ _ _ _ _ H) as (ir & Hir & Hp). rewrite Hp. cbv zeta. split.
    - intros Hz Hd.
      assert (E : d + ir * (z - z') == d).
      { apply eqm_intro in Hz. setoid_rewrite Hz. apply eqm_of_eq. ring. }
      apply smulG_eq in E. rewrite E.
      destruct (coords (smul d G)) eqn:Ec; [reflexivity|]. apply smulG_inf in Ec. contradiction.
    - intros Hz. destruct (coords (smul (d + ir * (z - z')) G)) eqn:Ec; [right|now left].
      exists (d + ir * (z - z')). split; [|split; [congruence|reflexivity]].
      intros Eq. apply smulG_eq in Eq. apply Hz. symmetry.
      assert (E0 : ir * (z - z') == 0).
      { apply eqm_intro in Eq.
        transitivity ((d + ir * (z - z')) - d); [apply eqm_of_eq; ring|].
        setoid_rewrite Eq. apply eqm_of_eq. ring. }
      apply Hir in E0.
      assert (E1 : z == (z - z') + z') by (apply eqm_of_eq; ring).
      unfold eqm in E1. rewrite E1. apply eqm_intro in E0.
      change ((z - z') + z' == z'). setoid_rewrite E0. apply eqm_of_eq. ring.
  Qed.

  Lemma sign_other_hash_key fuel d z c text magic x y z' :
    d mod n <> 0 -> sign_sig fuel d z c = Ret text -> coords (smul d G) = Some (x, y) ->
    (verify (KPair x y) text magic None (Some z') = Ret true <-> z' mod n = z mod n).
  Proof.
    intros Hd H Ec. rewrite verify_hash_unfold by reflexivity. unfold verify_with.
    destruct (sign_other_hash _ _ _ _ _ z' H) as [Same Other]. split.
    - intros V. destruct (Z.eq_dec (z' mod n) (z mod n)) as [E|E]; [exact E|exfalso].
      destruct (Other E) as [R | (e & Hne & _ & R)]; rewrite R in V; [discriminate|].
      apply matches_true_inv in V. destruct V as (x0 & y0 & Ee & -> & ->).
      apply Hne. apply coordsG_inj. congruence.
    - intros E. rewrite (Same E Hd). exact (matches_pair_true _ x y c Ec).
  Qed.

  (* by address: under another hash the address that verifies belongs to a DIFFERENT point e·G; so the
     signer's own address verifies only if hash160 collides on the SEC forms of e·G and d·G *)
  Lemma sign_other_hash_addr fuel d z c text magic key z' :
    sign_sig fuel d z c = Ret text ->
    (exists h, key = KHash h) \/ (exists k h, key = KAddr k h) ->
    verify key text magic None (Some z') = Ret true ->
    z' mod n = z mod n \/
    exists e x' y', smul e G <> smul d G /\ coords (smul e G) = Some (x', y') /\ key_is_signer hash160 key x' y' c.
  Proof.
    intros H _ V. apply verify_true_inv in V. destruct V as [Ek V]. unfold verify_with in V.
    destruct (Z.eq_dec (z' mod n) (z mod n)) as [E|E]; [now left|right].
    destruct (sign_other_hash _ _ _ _ _ z' H) as [_ Other].
    destruct (Other E) as [R | (e & Hne & Hfin & R)]; rewrite R in V; [discriminate|].
    destruct (coords (smul e G)) as [[x0 y0]|] eqn:Ee; [|congruence].
    exists e, x0, y0. split; [exact Hne|]. split; [first [exact Ee | reflexivity]|]. exact (signer_of_match _ _ _ _ _ Ek V Ee).
  Qed.

  (* ---- (d) the text-message level: sign_message / verify_message(message=...) ------------------------ *)
  Local Notation sign_msg := (sign_message pt smul G n coords inv_n gen_k dsha256).
  Local Notation hash_msg := (hash_for_signing dsha256).

  Lemma sign_message_inv fuel magic d c m text : sign_msg fuel magic d c m = Ret text ->
    exists z, hash_msg magic m = Ret z /\ sign_sig fuel d z c = Ret text.
  Proof.
    unfold sign_message. destruct (d =? 0); [discriminate|]. intros H.
    apply bind_ret_inv in H. destruct H as (z & Hz & H). eauto.
  Qed.

  Lemma sign_message_verifies fuel magic d c m text :
    d mod n <> 0 -> sign_msg fuel magic d c m = Ret text ->
    exists z, hash_msg magic m = Ret z /\ pair_for text z = Ret (smul d G, c) /\
    exists x y, coords (smul d G) = Some (x, y) /\
      verify (KPair x y) text magic (Some m) None = Ret true /\
      forall sec, public_pair_to_sec x y c = Ret sec ->
        verify (KHash (Some (hash160 sec))) text magic (Some m) None = Ret true /\
        forall k, refers_to_key k = true ->
          verify (KAddr k (Some (hash160 sec))) text magic (Some m) None = Ret true.
  Proof.
    intros Hd H. destruct (sign_message_inv _ _ _ _ _ _ H) as (z & Hz & Hs).
    destruct (sign_verifies _ _ _ _ _ magic Hd Hs) as (R & x & y & Ec & V1 & V2).
    exists z. split; [exact Hz|]. split; [exact R|]. exists x, y. split; [exact Ec|].
    split; [now rewrite (verify_msg_unfold _ _ _ _ _ _ Hz)|].
    intros sec Hsec. destruct (V2 sec Hsec) as [V3 V4]. split.
    - now rewrite (verify_msg_unfold _ _ _ _ _ _ Hz).
    - intros k Hk. rewrite (verify_msg_unfold _ _ _ _ _ _ Hz). now apply V4.
  Qed.

  Lemma verify_msg_true_inv key text magic m' mh : verify key text magic (Some m') mh = Ret true ->
    exists z', hash_msg magic m' = Ret z' /\ verify key text magic None (Some z') = Ret true.
  Proof.
    intros V. destruct (key_refused key) eqn:Ek.
    { rewrite (verify_refused _ _ _ _ _ Ek) in V. discriminate. }
    destruct (hash_msg magic m') as [z'| |] eqn:Hz.
    - exists z'. split; [reflexivity|]. now rewrite <- (verify_msg_unfold _ _ _ _ mh _ Hz).
    - unfold verify_message in V. rewrite Hz in V.
      destruct key as [x y|h|[| |] h|]; try discriminate Ek; cbn [bind] in V; destruct e; discriminate.
    - unfold verify_message in V. rewrite Hz in V.
      destruct key as [x y|h|[| |] h|]; try discriminate Ek; cbn [bind] in V; discriminate.
  Qed.

  Lemma sign_message_only_signer fuel magic d c m text key :
    d mod n <> 0 -> sign_msg fuel magic d c m = Ret text ->
    verify key text magic (Some m) None = Ret true ->
    exists x y, coords (smul d G) = Some (x, y) /\ key_is_signer hash160 key x y c.
  Proof.
    intros Hd H V. destruct (sign_message_inv _ _ _ _ _ _ H) as (z & Hz & Hs).
    rewrite (verify_msg_unfold _ _ _ _ _ _ Hz) in V. exact (sign_only_signer _ _ _ _ _ _ _ Hd Hs V).
  Qed.

  Lemma sign_message_other_message fuel magic d c m text x y m' :
    d mod n <> 0 -> sign_msg fuel magic d c m = Ret text -> coords (smul d G) = Some (x, y) ->
    verify (KPair x y) text magic (Some m') None = Ret true ->
    exists z z', hash_msg magic m = Ret z /\ hash_msg magic m' = Ret z' /\ z' mod n = z mod n.
  Proof.
    intros Hd H Ec V. destruct (sign_message_inv _ _ _ _ _ _ H) as (z & Hz & Hs).
    destruct (verify_msg_true_inv _ _ _ _ _ V) as (z' & Hz' & V').
    exists z, z'. split; [exact Hz|]. split; [exact Hz'|].
    exact (proj1 (sign_other_hash_key _ _ _ _ _ magic _ _ z' Hd Hs Ec) V').
  Qed.
End Recover.

(* ================================================================================================ *)
(* Part 4: the hashed string determines (magic, message): two messages with the same digest input are equal *)
Definition frame (magic m : bytes) : outcome bytes :=
  bind (stream_varstr magic) (fun a => bind (stream_varstr m) (fun b => Ret (a ++ b))).

Lemma hash_for_signing_frame dsha magic m z : hash_for_signing dsha magic m = Ret z ->
  exists f, frame magic m = Ret f /\ z = from_bytes_32 (dsha f).
Proof.
  unfold hash_for_signing, frame. intros H.
  apply bind_ret_inv in H. destruct H as (a & -> & H).
  apply bind_ret_inv in H. destruct H as (b & -> & H). apply Ret_inj in H.
  cbn [bind]. eauto.
Qed.

Lemma frame_inj magic m magic' m' f :
  (N.of_nat (length magic) < 2 ^ 63)%N -> (N.of_nat (length m) < 2 ^ 63)%N ->
  (N.of_nat (length magic') < 2 ^ 63)%N -> (N.of_nat (length m') < 2 ^ 63)%N ->
  frame magic m = Ret f -> frame magic' m' = Ret f -> magic = magic' /\ m = m'.
Proof.
  intros L1 L2 L3 L4 F1 F2. unfold frame in F1, F2.
  apply bind_ret_inv in F1. destruct F1 as (a & Ha & F1).
  apply bind_ret_inv in F1. destruct F1 as (b & Hb & F1). apply Ret_inj in F1.
  apply bind_ret_inv in F2. destruct F2 as (a' & Ha' & F2).
  apply bind_ret_inv in F2. destruct F2 as (b' & Hb' & F2). apply Ret_inj in F2.
  destruct (varstr_frame magic b L1) as (pa & Epa & Pa). rewrite Ha in Epa. apply Ret_inj in Epa. subst pa.
  destruct (varstr_frame magic' b' L3) as (pa' & Epa' & Pa'). rewrite Ha' in Epa'. apply Ret_inj in Epa'. subst pa'.
  rewrite F1 in Pa. rewrite F2 in Pa'. rewrite Pa in Pa'. apply Ret_inj in Pa'.
  injection Pa' as E1 E2. split; [exact E1|]. subst b'.
  destruct (varstr_frame m [] L2) as (pb & Epb & Pb). rewrite Hb in Epb. apply Ret_inj in Epb. subst pb.
  destruct (varstr_frame m' [] L4) as (pb' & Epb' & Pb'). rewrite Hb' in Epb'. apply Ret_inj in Epb'. subst pb'.
  rewrite Pb in Pb'. apply Ret_inj in Pb'. now injection Pb'.
Qed.
