(* Proofs/AgreeEval.v — C03 agreement: family (8) (reserved / invalid / disabled opcodes in and out of unexecuted
   branches, op-count limit with pycoin's delayed test, stack-size and script-size limits), the dispatcher over
   all opcodes, one whole instruction for every opcode, and the lifting to run / eval_loop and eval_script /
   EvalScript.  Generic in (p, Inv): p = the opcodes whose handler agreement is available, Inv = an extra
   invariant of the two stacks (used by the signature opcodes). *)
From Coq Require Import Lia ZifyBool ZifyNat ZifyN.
From PV Require Import Base.Bytes Base.Outcome Gen.GenOpcodes Gen.GenFlags.
From PV Require Import Model.ScriptNum Model.Push Model.CondStack Spec.CondStackCore Proofs.CondStackP.
From PV Require Import Spec.VMTypes Model.VMpy Spec.VMcore Proofs.VMpyP.
From PV Require Import Proofs.AgreeBase Proofs.AgreePush Proofs.AgreeFlow Proofs.AgreeStack Proofs.AgreeNum Proofs.AgreeMisc.
Local Open Scope N_scope.

(* ---- table facts about opcodes above OP_16 ------------------------------------------------------------------ *)
Lemma hk_disabled op : is_disabled op = true -> hk (b2n op) = KBadOpcode true.
Proof. destruct op; intros H; try discriminate H; reflexivity. Qed.

Lemma hk_outside_high op : (96 <? b2n op) = true -> is_disabled op = false ->
  hk_outside (hk (b2n op)) = (99 <=? b2n op) && (b2n op <=? 104).
Proof. destruct op; intros H1 H2; try discriminate H1; try discriminate H2; reflexivity. Qed.

Lemma const_of_high n : 96 < n -> const_of n = None.
Proof.
  intros H. unfold const_of. replace (n =? 0) with false by lia. replace (n =? 79) with false by lia.
  replace ((81 <=? n) && (n <=? 96)) with false by lia. reflexivity.
Qed.

(* OP_CHECKSIG, OP_CHECKSIGVERIFY, OP_CHECKMULTISIG, OP_CHECKMULTISIGVERIFY *)
Definition is_sig_op (op : byte) : bool := match op with xac | xad | xae | xaf => true | _ => false end.

(* scripts all of whose instructions (as both decoders read them) satisfy p *)
Fixpoint ops_ok (p : byte -> bool) (fuel : nat) (rest : bytes) : bool :=
  match rest with
  | [] => true
  | _ :: _ =>
    match fuel with
    | O => true
    | S f => match get_op rest with
             | None => true
             | Some (op, _, rest') => p op && ops_ok p f rest'
             end
    end
  end.

Section Dispatch.
Variable o : oracles.
Variable flags : N.
Variable sv : sigversion.
Variable ctx : txctx.
Variable script : bytes.
Hypothesis H1if : sv = SV_BASE -> flag_set flags VERIFY_MINIMALIF = false.

Notation abs := (abs script).
Notation hres := (hres script).
Notation handler := (handler o flags sv ctx script).
Notation exec_op := (exec_op o flags sv ctx).

(* every opcode above OP_16 except the four signature opcodes: families (2)..(8) *)
Lemma exec_agree_basic op : (96 <? b2n op) = true -> is_disabled op = false -> is_sig_op op = false ->
  forall s vf rest, cond_rel (st_cond s) vf -> rest = skipn (st_pc s) script ->
  hres s (handler (hk (b2n op)) s) (exec_op op rest (c_all_if_true (st_cond s)) (abs s vf)).
Proof.
  intros Hhi Hdis Hsig s vf rest R Hrest.
  destruct op; try discriminate Hhi; try discriminate Hdis; try discriminate Hsig;
  first
  [ exact I
  | apply (agree_if o flags sv ctx script H1if false); exact R
  | apply (agree_if o flags sv ctx script H1if true); exact R
  | apply agree_else; exact R
  | apply agree_endif; exact R
  | apply (hres_of_nf script s vf _ _ R);
    first
    [ apply agree_verify | apply agree_return | apply agree_nop
    | apply agree_toalt | apply agree_fromalt | apply agree_2drop | apply agree_2dup | apply agree_3dup
    | apply agree_2over | apply agree_2rot | apply agree_2swap | apply agree_ifdup | apply agree_depth
    | apply agree_drop | apply agree_dup | apply agree_nip | apply agree_over
    | apply (agree_pick_roll o flags sv ctx script false) | apply (agree_pick_roll o flags sv ctx script true)
    | apply agree_rot | apply agree_swap | apply agree_tuck | apply agree_size | apply agree_equal
    | apply agree_equalverify
    | apply (agree_unary o flags sv ctx script U1Add) | apply (agree_unary o flags sv ctx script U1Sub)
    | apply (agree_unary o flags sv ctx script UNegate) | apply (agree_unary o flags sv ctx script UAbs)
    | apply agree_not | apply agree_0notequal
    | apply (agree_bin o flags sv ctx script BAdd) | apply (agree_bin o flags sv ctx script BSub)
    | apply (agree_bin o flags sv ctx script BMin) | apply (agree_bin o flags sv ctx script BMax)
    | apply (agree_boolbin o flags sv ctx script BoBoolAnd) | apply (agree_boolbin o flags sv ctx script BoBoolOr)
    | apply (agree_boolbin o flags sv ctx script BoNumEqual) | apply (agree_boolbin o flags sv ctx script BoNumNotEqual)
    | apply (agree_boolbin o flags sv ctx script BoLessThan) | apply (agree_boolbin o flags sv ctx script BoGreaterThan)
    | apply (agree_boolbin o flags sv ctx script BoLessThanOrEqual)
    | apply (agree_boolbin o flags sv ctx script BoGreaterThanOrEqual)
    | apply agree_numequalverify | apply agree_within
    | apply (agree_hash o flags sv ctx script HRipemd160) | apply (agree_hash o flags sv ctx script HSha1)
    | apply (agree_hash o flags sv ctx script HSha256) | apply (agree_hash o flags sv ctx script HHash160)
    | apply (agree_hash o flags sv ctx script HHash256)
    | apply agree_codesep; exact Hrest
    | apply agree_cltv | apply agree_csv
    | apply agree_discourage; reflexivity ] ].
Qed.
End Dispatch.

(* ---- one whole instruction, then the loops ------------------------------------------------------------------- *)
Section Eval.
Variable o : oracles.
Variable flags : N.
Variable sv : sigversion.
Variable ctx : txctx.
Variable script : bytes.

Notation abs := (abs script).
Notation sim := (sim script).
Notation hres := (hres script).
Notation sres := (sres script).
Notation handler := (handler o flags sv ctx script).
Notation exec_op := (exec_op o flags sv ctx).
Notation pystep := (VMpy.step o flags sv ctx script).
Notation corestep := (VMcore.step o flags sv ctx).

(* p: opcodes above OP_16 with a handler-agreement lemma (under Inv); Inv: invariant of (stack, altstack, script
   code from the last executed OP_CODESEPARATOR on); D: a property of the not-yet-read script that GetOp keeps *)
Variable p : byte -> bool.
Variable Inv : list bytes -> list bytes -> bytes -> Prop.
Variable Dp : bytes -> Prop.
Hypothesis exec_agree : forall op, p op = true -> (96 <? b2n op) = true -> is_disabled op = false ->
  forall s vf rest, cond_rel (st_cond s) vf -> rest = skipn (st_pc s) script -> (0 <= st_opc s)%Z ->
  Inv (st_stack s) (st_alt s) (skipn (st_bch s) script) ->
  hres s (handler (hk (b2n op)) s) (exec_op op rest (c_all_if_true (st_cond s)) (abs s vf)).
Hypothesis D_step : forall rest op data rest', Dp rest -> get_op rest = Some (op, data, rest') -> Dp rest'.
Hypothesis Inv_step : forall op data rest c c', Inv (e_stack c) (e_alt c) (e_bch c) -> Dp rest ->
  corestep op data rest c = COk c' -> Inv (e_stack c') (e_alt c') (e_bch c').

Lemma step_agree_high s vf ob r :
  cond_rel (st_cond s) vf -> (0 <= st_opc s <= Z.of_N MAX_OP_COUNT)%Z ->
  Inv (st_stack s) (st_alt s) (skipn (st_bch s) script) ->
  skipn (st_pc s) script = ob :: r -> (96 <? b2n ob) = true -> p ob = true ->
  get_op (ob :: r) = Some (ob, [], r) /\ sres (pystep s) (corestep ob [] r (abs s vf)) r.
Proof.
  intros R Ho HI Hs Hhi Hp.
  pose proof (cond_rel_all_true _ _ R) as Hall.
  pose proof (decode_agree script (VMpy.flag flags VERIFY_MINIMALDATA && c_all_if_true (st_cond s)) _ _ _ Hs) as D.
  cbv zeta in D.
  assert (Hg : get_op (ob :: r) = Some (ob, [], r)).
  { cbn [get_op]. replace (78 <? b2n ob) with true by lia. reflexivity. }
  rewrite Hg in D. split; [exact Hg|].
  replace (b2n ob <=? 78) with false in D by lia. destruct D as (_ & _ & _ & E & Hr').
  rewrite const_of_high in E by lia.
  unfold VMpy.step, VMcore.step. rewrite E. cbn [lift vbind negb abs e_vf e_opc].
  change (forallb (fun b : bool => b) vf) with (vf_all_true vf). rewrite Hall.
  change (len []) with 0. change (MAX_SCRIPT_ELEMENT_SIZE <? 0) with false. cbv iota.
  rewrite Hhi. cbn [andb]. replace (b2n ob <=? 78) with false by lia. rewrite andb_false_r.
  destruct s as [pc stk alt cond opc bch]; cbn [st_pc st_stack st_alt st_cond st_opc st_bch] in *.
  set (s1 := mkst (S pc) stk alt cond (opc + 1)%Z bch).
  unfold MAX_OPS_PER_SCRIPT, MAX_OP_COUNT in *.
  assert (Hpost : forall k, good (post (S pc, cond)) (handler k s1)).
  { intros k. apply handler_post. split; reflexivity. }
  destruct (N.ltb_spec 201 (Z.to_N opc + 1)) as [Hcnt|Hcnt].
  { (* Core's count test fails: pycoin fails at the latest at its delayed test *)
    destruct (is_disabled ob) eqn:Hdis.
    { rewrite (hk_disabled _ Hdis). cbn [hk_outside VMpy.handler orb]. rewrite orb_true_r. exact I. }
    destruct (c_all_if_true cond || hk_outside (hk (b2n ob))).
    - pose proof (exec_agree ob Hp Hhi Hdis s1 vf r R Hr' ltac:(cbn; lia) HI) as H.
      destruct (handler (hk (b2n ob)) s1) as [s2| |e|]; cbn [vbind]; try exact I.
      + assert (202 <= st_opc s2)%Z.
        { destruct (exec_op ob r _ _) as [c2|e2|]; cbn in H; [|lia|contradiction].
          destruct H as (vf' & _ & _ & H & _). lia. }
        replace (Z.of_N 201 <? st_opc s2)%Z with true by lia. exact I.
      + destruct (exec_op ob r _ _); cbn in H; contradiction.
      + destruct (exec_op ob r _ _); cbn in H; contradiction.
    - cbn [vbind]. subst s1. cbn [st_opc]. replace (Z.of_N 201 <? opc + 1)%Z with true by lia. exact I. }
  destruct (is_disabled ob) eqn:Hdis.
  { rewrite (hk_disabled _ Hdis). cbn [hk_outside VMpy.handler orb]. rewrite orb_true_r. exact I. }
  rewrite (hk_outside_high _ Hhi Hdis).
  assert (Eabs : VMcore.set_opc (AgreeBase.abs script (mkst pc stk alt cond opc bch) vf) (Z.to_N opc + 1)
                 = abs s1 vf).
  { unfold AgreeBase.abs, VMcore.set_opc, s1. cbn. f_equal. lia. }
  rewrite Eabs.
  destruct (c_all_if_true cond || (99 <=? b2n ob) && (b2n ob <=? 104)) eqn:Ec.
  - pose proof (exec_agree ob Hp Hhi Hdis s1 vf r R Hr' ltac:(cbn; lia) HI) as H.
    pose proof (Hpost (hk (b2n ob))) as Hp2.
    destruct (handler (hk (b2n ob)) s1) as [s2| |e|], (exec_op ob r _ _) as [c2|e2|]; cbn in H; try contradiction;
      cbn [vbind cbind]; try exact I.
    + destruct H as (vf' & -> & R' & Hm1 & Hm2). cbn in Hp2. destruct Hp2 as [Hpc _].
      apply finish_agree; [exact R'| |].
      * unfold s1, MAX_OP_COUNT in Hm1, Hm2. cbn [st_opc] in Hm1, Hm2. unfold MAX_OP_COUNT. lia.
      * rewrite Hpc. exact Hr'.
    + replace (Z.of_N 201 <? st_opc s2)%Z with true by lia. exact I.
  - cbn [vbind cbind]. apply finish_agree; [exact R|cbn; lia|exact Hr'].
Qed.

Lemma step_agree s vf ob r :
  cond_rel (st_cond s) vf -> (0 <= st_opc s <= Z.of_N MAX_OP_COUNT)%Z ->
  Inv (st_stack s) (st_alt s) (skipn (st_bch s) script) ->
  skipn (st_pc s) script = ob :: r -> ((96 <? b2n ob) = true -> p ob = true) ->
  match get_op (ob :: r) with
  | None => pystep s = VFail
  | Some (op, data, rest') => sres (pystep s) (corestep op data rest' (abs s vf)) rest'
  end.
Proof.
  intros R Ho HI Hs Hp.
  destruct (N.leb_spec (b2n ob) 78) as [H78|H78]; [apply step_agree_push; assumption|].
  destruct (N.ltb_spec 96 (b2n ob)) as [H96|H96].
  { destruct (step_agree_high s vf ob r R Ho HI Hs ltac:(lia) (Hp ltac:(lia))) as [Hg H]. rewrite Hg. exact H. }
  destruct (N.eqb_spec (b2n ob) 80) as [E80|N80].
  { assert (ob = x50) by (apply b2n_inj; exact E80). subst ob. apply step_agree_reserved; assumption. }
  apply step_agree_const; try assumption. lia.
Qed.

Notation pyrun := (VMpy.run o flags sv ctx script).
Notation coreloop := (VMcore.eval_loop o flags sv ctx).

Lemma run_agree fuel : forall s c,
  sim s c -> Inv (st_stack s) (st_alt s) (skipn (st_bch s) script) -> Dp (skipn (st_pc s) script) ->
  ops_ok p fuel (skipn (st_pc s) script) = true ->
  (length script - st_pc s <= fuel)%nat ->
  match pyrun fuel s, coreloop fuel (skipn (st_pc s) script) c with
  | VOk s', COk c' => sim s' c'
  | VFail, CErr _ => True
  | _, _ => False
  end.
Proof.
  induction fuel as [|f IH]; intros s c S HI HD Hok Hf.
  - assert (Hn : skipn (st_pc s) script = []) by (apply skipn_nil_iff; lia).
    cbn [VMpy.run]. rewrite Hn. replace (length script <=? st_pc s)%nat with true by lia. exact S.
  - cbn [VMpy.run].
    destruct (skipn (st_pc s) script) as [|ob r] eqn:Hs.
    { apply skipn_nil_iff in Hs. replace (length script <=? st_pc s)%nat with true by lia. exact S. }
    assert (Hlt : (st_pc s < length script)%nat).
    { destruct (Nat.ltb_spec (st_pc s) (length script)); [assumption|].
      assert (skipn (st_pc s) script = []) by (apply skipn_nil_iff; lia). congruence. }
    replace (length script <=? st_pc s)%nat with false by lia.
    cbn [VMcore.eval_loop]. destruct S as (vf & -> & R & Ho).
    cbn [ops_ok] in Hok.
    assert (Hp : (96 <? b2n ob) = true -> p ob = true).
    { intros H96. revert Hok. cbn [get_op]. replace (78 <? b2n ob) with true by lia.
      intros Hok. apply andb_true_iff in Hok. tauto. }
    pose proof (step_agree s vf ob r R Ho HI Hs Hp) as H.
    destruct (get_op (ob :: r)) as [[[op data] rest']|] eqn:Hg.
    2: { rewrite H. exact I. }
    apply andb_true_iff in Hok. destruct Hok as [_ Hok].
    pose proof (step_advances_pc o flags sv ctx script s) as Hadv.
    pose proof (Inv_step op data rest' (abs s vf)) as Hinv.
    assert (HD' : Dp rest') by (eapply D_step; [exact HD|exact Hg]).
    destruct (pystep s) as [s'| |e|], (corestep op data rest' (abs s vf)) as [c'|e2|]; cbn in H; try contradiction;
      cbn [vbind cbind]; try exact I.
    destruct H as [S' Er]. specialize (Hadv s' eq_refl). subst rest'.
    apply IH; [exact S'| |exact HD'|exact Hok|lia].
    destruct S' as (vf' & E' & _). specialize (Hinv c' HI HD' eq_refl). rewrite E' in Hinv. exact Hinv.
Qed.

(* VM.eval_script against EvalScript *)
Theorem eval_agree st :
  ops_ok p (length script) script = true -> Inv (rev st) [] script -> Dp script ->
  res_agree stack_eqb (VMpy.eval_script o flags sv ctx script st) (VMcore.EvalScript o flags sv ctx script st) = true.
Proof.
  intros Hok HI HD.
  unfold VMpy.eval_script, VMcore.EvalScript, VMcore.EvalScriptE, eval_state, eval_script_e.
  unfold MAX_SCRIPT_LENGTH, MAX_SCRIPT_SIZE, len.
  destruct (10000 <? N.of_nat (length script)); [reflexivity|].
  set (c0 := {| e_stack := rev st; e_alt := []; e_vf := []; e_opc := 0; e_bch := script |}).
  assert (S0 : sim (init_state (rev st)) c0).
  { exists []. split; [reflexivity|]. split; [apply cond_rel_init|]. cbn. lia. }
  pose proof (run_agree (length script) (init_state (rev st)) c0 S0 HI HD Hok ltac:(cbn; lia)) as H.
  change (skipn (st_pc (init_state (rev st))) script) with script in H.
  destruct (pyrun (length script) (init_state (rev st))) as [s'| |e|],
           (coreloop (length script) script c0) as [c'|e2|]; try contradiction; cbn [vbind cbind to_vres res_agree];
    try reflexivity.
  destruct H as (vf & -> & R & _).
  pose proof (cond_rel_final _ _ R) as Hfin. unfold vf_final_ok in Hfin. cbn [abs e_vf e_stack].
  destruct vf; rewrite <- Hfin; cbn [negb vbind cbind to_vres res_agree]; [apply stack_eqb_refl|reflexivity].
Qed.

End Eval.

(* ---- instance 1: every script without a signature opcode (families (1)..(8)), no extra invariant -------------- *)
Definition no_sig_ops (script : bytes) : bool := ops_ok (fun op => negb (is_sig_op op)) (length script) script.

Theorem eval_agree_no_sig o flags sv ctx script st :
  (sv = SV_BASE -> flag_set flags VERIFY_MINIMALIF = false) ->
  no_sig_ops script = true ->
  res_agree stack_eqb (VMpy.eval_script o flags sv ctx script st) (VMcore.EvalScript o flags sv ctx script st) = true.
Proof.
  intros H1 Hc.
  apply (eval_agree o flags sv ctx script (fun op => negb (is_sig_op op)) (fun _ _ _ => True) (fun _ => True)).
  - intros op Hp Hhi Hdis s vf rest R Hr _ _. apply exec_agree_basic; try assumption.
    destruct (is_sig_op op); [discriminate|reflexivity].
  - trivial.
  - trivial.
  - exact Hc.
  - exact I.
  - exact I.
Qed.
