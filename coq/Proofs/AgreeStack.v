(* Proofs/AgreeStack.v — C03 agreement, families (3) and (4): stack manipulation (TOALTSTACK .. TUCK, PICK/ROLL with
   their 4-byte / minimal / range rules), OP_SIZE, OP_EQUAL, OP_EQUALVERIFY.  (The disabled splice/bitwise opcodes
   are dealt with in Proofs/AgreeEval.v: they fail before any handler is looked at.) *)
From Coq Require Import Lia ZifyBool ZifyNat ZifyN.
From PV Require Import Base.Bytes Base.Outcome Gen.GenOpcodes Gen.GenFlags.
From PV Require Import Model.ScriptNum Model.Push Model.CondStack Spec.CondStackCore Proofs.CondStackP.
From PV Require Import Spec.VMTypes Model.VMpy Spec.VMcore Proofs.AgreeBase.
Local Open Scope N_scope.

Lemma remove_nth_agree {A} (d : A) k : forall l, (k < length l)%nat ->
  VMpy.remove_nth k l = Some (nth k l d, VMcore.remove_nth k l).
Proof.
  induction k as [|k IH]; intros l H; destruct l as [|x l]; cbn [length] in H; try lia.
  - reflexivity.
  - cbn [VMpy.remove_nth VMcore.remove_nth nth]. rewrite IH by lia. reflexivity.
Qed.

Section Stack.
Variable o : oracles.
Variable flags : N.
Variable sv : sigversion.
Variable ctx : txctx.
Variable script : bytes.

Notation abs := (abs script).
Notation hres_nf := (hres_nf script).
Notation handler := (handler o flags sv ctx script).
Notation exec_op := (exec_op o flags sv ctx).

Ltac stk_tac s :=
  cbn [VMpy.handler]; destruct s as [pc stk alt cond opc bch];
  destruct stk as [|a [|b [|c [|d [|e [|f stk]]]]]]; cbn; try exact I; repeat split; reflexivity.

Lemma agree_toalt s vf rest fx : hres_nf s vf (handler KToAlt s) (exec_op x6b rest fx (abs s vf)).
Proof. stk_tac s. Qed.
Lemma agree_fromalt s vf rest fx : hres_nf s vf (handler KFromAlt s) (exec_op x6c rest fx (abs s vf)).
Proof.
  cbn [VMpy.handler]. destruct s as [pc stk alt cond opc bch]. destruct alt; cbn; try exact I; repeat split; reflexivity.
Qed.
Lemma agree_2drop s vf rest fx : hres_nf s vf (handler K2Drop s) (exec_op x6d rest fx (abs s vf)).
Proof. stk_tac s. Qed.
Lemma agree_2dup s vf rest fx : hres_nf s vf (handler K2Dup s) (exec_op x6e rest fx (abs s vf)).
Proof. stk_tac s. Qed.
Lemma agree_3dup s vf rest fx : hres_nf s vf (handler K3Dup s) (exec_op x6f rest fx (abs s vf)).
Proof. stk_tac s. Qed.
Lemma agree_2over s vf rest fx : hres_nf s vf (handler K2Over s) (exec_op x70 rest fx (abs s vf)).
Proof. stk_tac s. Qed.
Lemma agree_2rot s vf rest fx : hres_nf s vf (handler K2Rot s) (exec_op x71 rest fx (abs s vf)).
Proof. stk_tac s. Qed.
Lemma agree_2swap s vf rest fx : hres_nf s vf (handler K2Swap s) (exec_op x72 rest fx (abs s vf)).
Proof. stk_tac s. Qed.
Lemma agree_ifdup s vf rest fx : hres_nf s vf (handler KIfDup s) (exec_op x73 rest fx (abs s vf)).
Proof.
  cbn [VMpy.handler]. destruct s as [pc stk alt cond opc bch]. destruct stk as [|a stk]; [exact I|].
  cbn. rewrite bool_from_is_cast. destruct (cast_to_bool a); cbn; repeat split; reflexivity.
Qed.
Lemma agree_depth s vf rest fx : hres_nf s vf (handler KDepth s) (exec_op x74 rest fx (abs s vf)).
Proof.
  cbn [VMpy.handler]. rewrite vm_push_int_eq. destruct s as [pc stk alt cond opc bch]. cbn. repeat split; reflexivity.
Qed.
Lemma agree_drop s vf rest fx : hres_nf s vf (handler KDrop s) (exec_op x75 rest fx (abs s vf)).
Proof. stk_tac s. Qed.
Lemma agree_dup s vf rest fx : hres_nf s vf (handler KDup s) (exec_op x76 rest fx (abs s vf)).
Proof. stk_tac s. Qed.
Lemma agree_nip s vf rest fx : hres_nf s vf (handler KNip s) (exec_op x77 rest fx (abs s vf)).
Proof. stk_tac s. Qed.
Lemma agree_over s vf rest fx : hres_nf s vf (handler KOver s) (exec_op x78 rest fx (abs s vf)).
Proof. stk_tac s. Qed.
Lemma agree_rot s vf rest fx : hres_nf s vf (handler KRot s) (exec_op x7b rest fx (abs s vf)).
Proof. stk_tac s. Qed.
Lemma agree_swap s vf rest fx : hres_nf s vf (handler KSwap s) (exec_op x7c rest fx (abs s vf)).
Proof. stk_tac s. Qed.
Lemma agree_tuck s vf rest fx : hres_nf s vf (handler KTuck s) (exec_op x7d rest fx (abs s vf)).
Proof. stk_tac s. Qed.

(* OP_PICK / OP_ROLL: the index is a 4-byte (minimal under MINIMALDATA) number in [0, depth-1) *)
Lemma agree_pick_roll (roll : bool) s vf rest fx :
  hres_nf s vf (handler (if roll then KRoll else KPick) s) (exec_op (if roll then x7a else x79) rest fx (abs s vf)).
Proof.
  assert (E : exec_op (if roll then x7a else x79) rest fx (abs s vf)
              = on_stack (abs s vf) (op_pick_roll (flag_set flags VERIFY_MINIMALDATA) roll)) by (destruct roll; reflexivity).
  rewrite E. clear E.
  assert (E : handler (if roll then KRoll else KPick) s =
              vbind (vm_pop_nonnegative flags s) (fun '(v, s1) =>
                match index_of v s1 with
                | Some k => if roll then move_from k s1 else dup_from k s1
                | None => VFail end)).
  { destruct roll; cbn [VMpy.handler]; destruct (vm_pop_nonnegative flags s) as [[v s1]| |e|]; cbn [vbind]; try reflexivity;
      destruct (index_of v s1); reflexivity. }
  rewrite E. clear E.
  unfold vm_pop_nonnegative. rewrite vm_pop_int_eq.
  destruct s as [pc stk alt cond opc bch]. unfold on_stack. cbn [st_stack abs e_stack].
  destruct stk as [|a r]; [exact I|].
  unfold op_pick_roll. change (N.of_nat 4) with 4.
  destruct r as [|b r0].
  { d_sn; cbn [to_vres vbind]; try exact I. destruct (z <? 0)%Z eqn:Ez; [exact I|]. cbn [vbind].
    unfold index_of. cbn [VMpy.set_stack st_stack length]. replace (z <? Z.of_nat 0)%Z with false by lia. exact I. }
  set (r := b :: r0) in *.
  d_sn; cbn [to_vres vbind cbind]; try exact I.
  destruct (z <? 0)%Z eqn:Ez; cbn [orb vbind]; [exact I|].
  unfold index_of. cbn [VMpy.set_stack st_stack st_pc st_alt st_cond st_opc st_bch].
  destruct (Z.ltb_spec z (Z.of_nat (length r))) as [Hlt|Hge].
  2: { replace (Z.of_nat (length r) <=? z)%Z with true by lia. exact I. }
  replace (Z.of_nat (length r) <=? z)%Z with false by lia.
  assert (Hk : (Z.to_nat z < length r)%nat) by lia.
  destruct roll.
  - unfold move_from, vm_pop_at. cbn [VMpy.set_stack st_stack st_pc st_alt st_cond st_opc st_bch]. replace (S (Z.to_nat z) - 1)%nat with (Z.to_nat z) by lia.
    rewrite (remove_nth_agree [] _ _ Hk). cbn. repeat split; reflexivity.
  - unfold dup_from, vm_get. cbn [VMpy.set_stack st_stack st_pc st_alt st_cond st_opc st_bch]. replace (S (Z.to_nat z) - 1)%nat with (Z.to_nat z) by lia.
    rewrite (nth_error_nth' r [] Hk). cbn. repeat split; reflexivity.
Qed.

(* ---- family (4) ---- *)
Lemma agree_size s vf rest fx : hres_nf s vf (handler KSize s) (exec_op x82 rest fx (abs s vf)).
Proof.
  cbn [VMpy.handler]. destruct s as [pc stk alt cond opc bch]. destruct stk as [|a stk]; [exact I|].
  cbn [vm_get st_stack Nat.sub nth_error vbind]. rewrite vm_push_int_eq. cbn. repeat split; reflexivity.
Qed.

Lemma bytes_eqb_sym a b : bytes_eqb a b = bytes_eqb b a.
Proof.
  destruct (bytes_eqb a b) eqn:E1, (bytes_eqb b a) eqn:E2; try reflexivity.
  - apply bytes_eqb_eq in E1. subst. rewrite bytes_eqb_refl in E2. discriminate.
  - apply bytes_eqb_eq in E2. subst. rewrite bytes_eqb_refl in E1. discriminate.
Qed.

Lemma agree_equal s vf rest fx : hres_nf s vf (handler KEqual s) (exec_op x87 rest fx (abs s vf)).
Proof.
  cbn [VMpy.handler]. destruct s as [pc stk alt cond opc bch]. destruct stk as [|a [|b stk]]; try exact I.
  cbn. rewrite (bytes_eqb_sym b a). repeat split; reflexivity.
Qed.

Lemma agree_equalverify s vf rest fx : hres_nf s vf (handler KEqualVerify s) (exec_op x88 rest fx (abs s vf)).
Proof.
  cbn [VMpy.handler]. destruct s as [pc stk alt cond opc bch]. destruct stk as [|a [|b stk]]; try exact I.
  cbn [vm_pop st_stack vbind VMpy.set_stack]. rewrite pop_verify_eq.
  cbn [VMcore.exec_op]. unfold on_stack. cbn [abs e_stack st_stack]. rewrite (bytes_eqb_sym b a).
  destruct (bytes_eqb a b); cbn; [repeat split; reflexivity|exact I].
Qed.

End Stack.
