(* Proofs/ComposeCommitBridge.v — composition C06 x C04, part (A): the two transaction models are the same code.
   Model/Commit.v (C06) and Model/Sighash.v (C04) both transcribe pycoin's _signature_hash and
   _segwit_signature_preimage; they differ in representation only:
     - Commit.txin carries the witness stack (never read by the two digest functions), Sighash.txin does not;
     - Commit's functions take the script code AFTER OP_CODESEPARATOR removal and (BIP143) the spent amount as
       arguments; Sighash.legacy_presig calls delete_subscript itself and _segwit_signature_preimage reads
       tx.unspents[idx].coin_value (IndexError / AttributeError when it is missing);
     - Commit builds a temporary transaction and streams it (Tx.hash), Sighash streams the parts directly;
     - Commit reads its constants from Gen/GenCommitC06.v, Sighash from Gen/GenSighashC04.v (both regenerated from
       /repo; `consts_agree` below breaks when the two harvests disagree).
   This file defines the conversion and proves that the preimages (hence the digests) are EQUAL AS OUTCOMES —
   same bytes, same exception class — for every transaction, script, index and hash type value.
   No hypothesis on well-formedness is needed. *)
From Coq Require Import List NArith Lia Bool.
From PV Require Import Base.Bytes Base.Outcome Base.Varint Gen.GenCommitC06 Gen.GenSighashC04.
From PV Require Model.Commit Model.Sighash.
Import ListNotations.
Local Open Scope N_scope.
Local Open Scope outcome_scope.

Module C := PV.Model.Commit.
Module S := PV.Model.Sighash.

(* ---- the conversion ------------------------------------------------------------------------------------------- *)
(* Commit -> Sighash: forget the witness stacks; the recorded unspents become Tx.unspents *)
Definition sh_in (x : C.txin) : S.txin := S.mk_txin (C.ti_hash x) (C.ti_index x) (C.ti_script x) (C.ti_seq x).
Definition sh_out (o : C.txout) : S.txout := S.mk_txout (C.to_amount o) (C.to_script o).
Definition sh_tx (t : C.tx) (unspents : list (option C.txout)) : S.tx :=
  S.mk_tx (C.tx_version t) (map sh_in (C.tx_ins t)) (map sh_out (C.tx_outs t)) (C.tx_lock t)
          (map (option_map sh_out) unspents).

(* Sighash -> Commit: empty witness stacks (any witness would do: see sh_tx_witness_irrelevant) *)
Definition cm_in (x : S.txin) : C.txin := C.mk_txin (S.ti_hash x) (S.ti_index x) (S.ti_script x) [] (S.ti_seq x).
Definition cm_out (o : S.txout) : C.txout := C.mk_txout (S.to_value o) (S.to_script o).
Definition cm_tx (t : S.tx) : C.tx :=
  C.mk_tx (S.tx_version t) (map cm_in (S.tx_ins t)) (map cm_out (S.tx_outs t)) (S.tx_lock t).
Definition cm_unspents (t : S.tx) : list (option C.txout) := map (option_map cm_out) (S.tx_unspents t).

(* the signing context of C06 as a C04 transaction: the recorded amount sits in unspents[idx] *)
Definition sh_ctx (idx : nat) (c : C.sctx) : S.tx :=
  sh_tx (C.sc_tx c) (repeat None idx ++ [Some (C.mk_txout (C.sc_amount c) [])]).

Lemma sh_cm_in x : sh_in (cm_in x) = x.
Proof. now destruct x. Qed.
Lemma sh_cm_out o : sh_out (cm_out o) = o.
Proof. now destruct o. Qed.

(* every Sighash transaction is the image of a Commit transaction: the bridge theorems cover ALL of C04's inputs *)
Lemma sh_tx_surjective t : sh_tx (cm_tx t) (cm_unspents t) = t.
Proof.
  destruct t as [v ins outs l us]. unfold sh_tx, cm_tx, cm_unspents. cbn.
  rewrite !map_map. f_equal.
  - rewrite <- (map_id ins) at 2. apply map_ext, sh_cm_in.
  - rewrite <- (map_id outs) at 2. apply map_ext, sh_cm_out.
  - rewrite <- (map_id us) at 2. apply map_ext. intros [o|]; cbn; [now rewrite sh_cm_out|reflexivity].
Qed.

(* witnesses do not survive the conversion (so nothing proved through it can depend on them) *)
Definition set_witness (w : list bytes) (x : C.txin) : C.txin :=
  C.mk_txin (C.ti_hash x) (C.ti_index x) (C.ti_script x) w (C.ti_seq x).
Lemma sh_in_witness_irrelevant w x : sh_in (set_witness w x) = sh_in x.
Proof. reflexivity. Qed.

(* ---- the two harvests of constants agree ---------------------------------------------------------------------- *)
Record consts_agree_t : Prop := {
  ca_none : gen_sighash_none = gen06_sighash_none;
  ca_single : gen_sighash_single = gen06_sighash_single;
  ca_acp : gen_sighash_anyonecanpay = gen06_sighash_anyonecanpay;
  ca_mask_none : gen_legacy_mask_none = gen06_mask_legacy;
  ca_mask_single : gen_legacy_mask_single = gen06_mask_legacy;
  ca_seq_single : gen_sw_seq_mask_single = gen06_mask_sequence;
  ca_seq_none : gen_sw_seq_mask_none = gen06_mask_sequence;
  ca_out_single : gen_sw_out_mask_single = gen06_mask_outputs;
  ca_out_none : gen_sw_out_mask_none = gen06_mask_outputs;
  ca_single_value : N.shiftl gen_single_value_base gen_single_value_shift = C.single_value;
  ca_blank : gen_blank_amount = gen06_blank_amount;
  ca_zero32 : gen_zero32 = gen06_zero32;
  ca_wL : gen06_width_L = 4%nat;
  ca_wQ : gen06_width_Q = 8%nat;
  ca_trunc : gen06_hash_trunc = 32%nat }.
Lemma consts_agree : consts_agree_t.
Proof. split; reflexivity. Qed.

(* ---- streaming ------------------------------------------------------------------------------------------------ *)
Lemma stream_txin_sh x : S.stream_txin (sh_in x) = C.stream_txin x.
Proof. reflexivity. Qed.
Lemma stream_txout_sh o : S.stream_txout (sh_out o) = C.stream_txout o.
Proof. reflexivity. Qed.

Lemma stream_all_concatM {A B} (conv : A -> B) (f : A -> outcome bytes) (g : B -> outcome bytes) l :
  (forall x, g (conv x) = f x) -> S.stream_all g (map conv l) = C.concatM f l.
Proof.
  intros E. induction l as [|x l IH]; [reflexivity|]. cbn [map S.stream_all C.concatM]. now rewrite E, IH.
Qed.

(* Tx.hash(hash_type) of the temporary transaction = the direct streaming of its parts *)
Lemma tx_hash_preimage_sh v ins outs lock ht :
  S.tx_hash_preimage v (map sh_in ins) (map sh_out outs) lock ht = C.hash_input (C.mk_tx v ins outs lock) ht.
Proof.
  unfold S.tx_hash_preimage, C.hash_input, C.stream_tx_nowit, C.stream_L.
  cbn [C.tx_version C.tx_ins C.tx_outs C.tx_lock]. rewrite !map_length.
  rewrite (stream_all_concatM sh_in C.stream_txin S.stream_txin) by exact stream_txin_sh.
  rewrite (stream_all_concatM sh_out C.stream_txout S.stream_txout) by exact stream_txout_sh.
  change gen06_width_L with 4%nat.
  destruct (write_le 4 v); cbn [bind]; try reflexivity.
  destruct (stream_varint (N.of_nat (length ins))); cbn [bind]; try reflexivity.
  destruct (C.concatM C.stream_txin ins); cbn [bind]; try reflexivity.
  destruct (stream_varint (N.of_nat (length outs))); cbn [bind]; try reflexivity.
  destruct (C.concatM C.stream_txout outs); cbn [bind]; try reflexivity.
  destruct (write_le 4 lock); cbn [bind]; try reflexivity.
  destruct (write_le 4 ht); cbn [bind]; try reflexivity.
  now rewrite <- !app_assoc.
Qed.

(* ---- the temporary input lists -------------------------------------------------------------------------------- *)
Lemma tx_in_for_idx_sh code idx l : forall k,
  map (fun p : nat * S.txin => let (i, ti) := p in S.tx_in_for_idx i ti code idx) (S.enumerate_from k (map sh_in l))
  = map sh_in (C.mapi (C.tx_in_for_idx code idx) k l).
Proof.
  induction l as [|x l IH]; intros k; [reflexivity|].
  cbn [map S.enumerate_from C.mapi]. rewrite IH. f_equal.
  unfold S.tx_in_for_idx, C.tx_in_for_idx. cbn [sh_in S.ti_hash S.ti_index S.ti_seq].
  now destruct (Nat.eqb k idx).
Qed.

Lemma zero_other_sh_from idx l : forall k,
  map (fun p : nat * S.txin => let (i, ti) := p in
         if (i =? idx)%nat then ti else S.mk_txin (S.ti_hash ti) (S.ti_index ti) (S.ti_script ti) 0)
      (S.enumerate_from k (map sh_in l))
  = map sh_in (C.mapi (C.zero_other_sequence idx) k l).
Proof.
  induction l as [|x l IH]; intros k; [reflexivity|].
  cbn [map S.enumerate_from C.mapi]. rewrite IH. f_equal.
  unfold C.zero_other_sequence. now destruct (Nat.eqb k idx).
Qed.
Lemma zero_other_sh idx l :
  S.zero_other_sequences idx (map sh_in l) = map sh_in (C.mapi (C.zero_other_sequence idx) 0 l).
Proof. apply zero_other_sh_from. Qed.

Lemma map_repeat' {A B} (f : A -> B) x n : map f (repeat x n) = repeat (f x) n.
Proof. induction n; cbn; congruence. Qed.

Lemma bind_assoc {A B D} (m : outcome A) (f : A -> outcome B) (g : B -> outcome D) :
  bind (bind m f) g = bind m (fun x => bind (f x) g).
Proof. now destruct m. Qed.

(* ---- legacy: _signature_hash ---------------------------------------------------------------------------------- *)
(* what Commit calls "fed" in Sighash's vocabulary *)
Definition presig_of_fed (f : option bytes) : S.presig :=
  match f with None => S.PConst C.single_value | Some b => S.PPreimage b end.

(* `finish` of Sighash.legacy_presig = Commit's `acp` followed by Tx.hash *)
Lemma finish_sh (t : C.tx) idx ht ins outs :
  (do txs_in <- (if N.land ht gen_sighash_anyonecanpay =? 0 then Ret (map sh_in ins)
                 else match nth_error (map sh_in ins) idx with
                      | Some x => Ret [x]
                      | None => Raise E_INDEX
                      end);
   do p <- S.tx_hash_preimage (C.tx_version t) txs_in (map sh_out outs) (C.tx_lock t) ht;
   Ret (S.PPreimage p))
  = (do m <- (if C.is_acp ht then
                match nth_error ins idx with
                | Some x => Ret (C.LM_tx (C.mk_tx (C.tx_version t) [x] outs (C.tx_lock t)))
                | None => Raise E_INDEX
                end
              else Ret (C.LM_tx (C.mk_tx (C.tx_version t) ins outs (C.tx_lock t))));
     do f <- (match m with
              | C.LM_one => Ret None
              | C.LM_tx tmp => do b <- C.hash_input tmp ht; Ret (Some b)
              end);
     Ret (presig_of_fed f)).
Proof.
  unfold C.is_acp. change gen06_sighash_anyonecanpay with gen_sighash_anyonecanpay.
  destruct (N.land ht gen_sighash_anyonecanpay =? 0); cbn [negb bind].
  - rewrite tx_hash_preimage_sh. now destruct (C.hash_input _ ht).
  - rewrite nth_error_map. destruct (nth_error ins idx) as [x|]; cbn [option_map bind]; [|reflexivity].
    change [sh_in x] with (map sh_in [x]). rewrite tx_hash_preimage_sh. now destruct (C.hash_input _ ht).
Qed.

(* THE LEGACY BRIDGE.  `script` is the script handed to _signature_hash, `code` what delete_subscript makes of it
   (delete_subscript is total: C04_delete_subscript_total). *)
Theorem bridge_legacy : forall (t : C.tx) (unspents : list (option C.txout)) (script code : bytes) (idx : nat) (ht : N),
  S.delete_subscript script gen_codeseparator = Ret code ->
  S.legacy_presig (sh_tx t unspents) script idx ht
  = (do f <- C.legacy_fed_of t code idx ht; Ret (presig_of_fed f)).
Proof.
  intros t us script code idx ht Hdel.
  unfold S.legacy_presig. rewrite Hdel. cbn [bind].
  unfold C.legacy_fed_of, C.legacy_tmp_tx.
  unfold sh_tx. cbn [S.tx_ins S.tx_outs S.tx_version S.tx_lock].
  rewrite tx_in_for_idx_sh.
  change gen_legacy_mask_none with gen06_mask_legacy. change gen_legacy_mask_single with gen06_mask_legacy.
  change gen_sighash_none with gen06_sighash_none. change gen_sighash_single with gen06_sighash_single.
  destruct (N.land ht gen06_mask_legacy =? gen06_sighash_none).
  - rewrite zero_other_sh. change (@nil S.txout) with (map sh_out []).
    rewrite (finish_sh t idx ht). now rewrite bind_assoc.
  - destruct (N.land ht gen06_mask_legacy =? gen06_sighash_single).
    + rewrite nth_error_map. destruct (nth_error (C.tx_outs t) idx) as [o|]; cbn [option_map].
      * rewrite zero_other_sh.
        replace (repeat (S.mk_txout gen_blank_amount []) idx ++ [sh_out o])
          with (map sh_out (repeat C.blank_txout idx ++ [o]))
          by (rewrite map_app, map_repeat'; reflexivity).
        rewrite (finish_sh t idx ht). now rewrite bind_assoc.
      * cbn [bind presig_of_fed]. reflexivity.
    + rewrite (finish_sh t idx ht). now rewrite bind_assoc.
Qed.

(* the integer _signature_hash returns (Bitcoin / Litecoin classes) *)
Theorem bridge_legacy_sighash : forall (sha256 dsha256 : bytes -> bytes) (c : S.coin)
    (t : C.tx) (unspents : list (option C.txout)) (script code : bytes) (idx : nat) (ht : N),
  c = S.BTC \/ c = S.LTC ->
  S.delete_subscript script gen_codeseparator = Ret code ->
  S.signature_hash sha256 dsha256 c (sh_tx t unspents) script idx ht = C.legacy_sighash dsha256 t code idx ht.
Proof.
  intros sha dsha c t us script code idx ht Hc Hdel.
  assert (E : S.signature_hash sha dsha c (sh_tx t us) script idx ht
              = (do r <- S.legacy_presig (sh_tx t us) script idx ht;
                 Ret (match r with S.PConst v => v | S.PPreimage p => S.from_bytes_32 (dsha p) end)))
    by (destruct Hc as [->| ->]; reflexivity).
  rewrite E, (bridge_legacy t us script code idx ht Hdel). unfold C.legacy_sighash.
  destruct (C.legacy_fed_of t code idx ht) as [[b|]| |]; reflexivity.
Qed.

(* ---- BIP143: _segwit_signature_preimage ----------------------------------------------------------------------- *)
Lemma slice_one {A} (l : list A) : forall i o, nth_error l i = Some o -> slice i (i + 1) l = [o].
Proof.
  unfold slice. intros i o H. replace (i + 1 - i)%nat with 1%nat by lia. revert i H.
  induction l as [|x l IH]; intros [|i] H; cbn in *; try discriminate.
  - now injection H as ->.
  - now apply IH.
Qed.

Section SegwitBridge.
Variable H : bytes -> bytes.

Lemma hash_prevouts_sh t us ht :
  S.hash_prevouts H (sh_tx t us) ht = (do o <- C.prevouts_blob t ht; Ret (C.sub_hash H o)).
Proof.
  unfold S.hash_prevouts, C.prevouts_blob, C.is_acp. change gen06_sighash_anyonecanpay with gen_sighash_anyonecanpay.
  destruct (negb (N.land ht gen_sighash_anyonecanpay =? 0)); [reflexivity|].
  unfold sh_tx. cbn [S.tx_ins].
  rewrite (stream_all_concatM sh_in C.prevout_entry) by reflexivity.
  now destruct (C.concatM C.prevout_entry (C.tx_ins t)).
Qed.

Lemma hash_sequence_sh t us ht :
  S.hash_sequence H gen_sw_seq_mask_single gen_sw_seq_mask_none (sh_tx t us) ht
  = (do o <- C.sequences_blob t ht; Ret (C.sub_hash H o)).
Proof.
  unfold S.hash_sequence, C.sequences_blob, C.is_acp. change gen06_sighash_anyonecanpay with gen_sighash_anyonecanpay.
  change gen_sw_seq_mask_single with gen06_mask_sequence. change gen_sw_seq_mask_none with gen06_mask_sequence.
  change gen_sighash_none with gen06_sighash_none. change gen_sighash_single with gen06_sighash_single.
  destruct (negb (N.land ht gen_sighash_anyonecanpay =? 0) || (N.land ht gen06_mask_sequence =? gen06_sighash_single)
            || (N.land ht gen06_mask_sequence =? gen06_sighash_none)); [reflexivity|].
  unfold sh_tx. cbn [S.tx_ins].
  rewrite (stream_all_concatM sh_in C.sequence_entry) by reflexivity.
  now destruct (C.concatM C.sequence_entry (C.tx_ins t)).
Qed.

Lemma hash_outputs_sh t us ht idx :
  S.hash_outputs H gen_sw_out_mask_single gen_sw_out_mask_none (sh_tx t us) ht idx
  = (do o <- C.outputs_blob t ht idx; Ret (C.sub_hash H o)).
Proof.
  unfold S.hash_outputs, C.outputs_blob.
  change gen_sw_out_mask_single with gen06_mask_outputs. change gen_sw_out_mask_none with gen06_mask_outputs.
  change gen_sighash_none with gen06_sighash_none. change gen_sighash_single with gen06_sighash_single.
  unfold sh_tx. cbn [S.tx_outs]. rewrite map_length.
  destruct (N.land ht gen06_mask_outputs =? gen06_sighash_single).
  - destruct (nth_error (C.tx_outs t) idx) as [o|] eqn:E.
    + assert (L : (idx < length (C.tx_outs t))%nat) by (apply nth_error_Some; congruence).
      replace (length (C.tx_outs t) <=? idx)%nat with false by (symmetry; apply Nat.leb_gt; exact L).
      rewrite (slice_one (map sh_out (C.tx_outs t)) idx (sh_out o)) by (rewrite nth_error_map, E; reflexivity).
      change [sh_out o] with (map sh_out [o]).
      rewrite (stream_all_concatM sh_out C.stream_txout) by exact stream_txout_sh.
      now destruct (C.concatM C.stream_txout [o]).
    + apply nth_error_None in E.
      replace (length (C.tx_outs t) <=? idx)%nat with true by (symmetry; apply Nat.leb_le; exact E).
      reflexivity.
  - destruct (N.land ht gen06_mask_outputs =? gen06_sighash_none); [reflexivity|].
    rewrite (stream_all_concatM sh_out C.stream_txout) by exact stream_txout_sh.
    now destruct (C.concatM C.stream_txout (C.tx_outs t)).
Qed.

(* THE BIP143 BRIDGE.  Commit takes the amount as an argument; the code reads tx.unspents[idx].coin_value. *)
Theorem bridge_segwit : forall (t : C.tx) (unspents : list (option C.txout)) (u : C.txout)
    (code : bytes) (idx : nat) (ht : N),
  nth_error unspents idx = Some (Some u) ->
  S.btc_segwit_preimage H (sh_tx t unspents) code idx ht = C.segwit_preimage H t code (C.to_amount u) idx ht.
Proof.
  intros t us u code idx ht Hu.
  unfold S.btc_segwit_preimage, S.segwit_signature_preimage, C.segwit_preimage, C.segwit_fed_of.
  rewrite hash_prevouts_sh, hash_sequence_sh, hash_outputs_sh.
  unfold C.stream_L, C.stream_Q. change gen06_width_L with 4%nat. change gen06_width_Q with 8%nat.
  assert (Eu : nth_error (S.tx_unspents (sh_tx t us)) idx = Some (Some (sh_out u)))
    by (unfold sh_tx; cbn [S.tx_unspents]; rewrite nth_error_map, Hu; reflexivity).
  rewrite Eu. clear Eu.
  assert (Ei : nth_error (S.tx_ins (sh_tx t us)) idx = option_map sh_in (nth_error (C.tx_ins t) idx))
    by (unfold sh_tx; cbn [S.tx_ins]; apply nth_error_map).
  rewrite Ei. clear Ei.
  assert (Ev : S.tx_version (sh_tx t us) = C.tx_version t) by reflexivity.
  assert (El : S.tx_lock (sh_tx t us) = C.tx_lock t) by reflexivity.
  rewrite Ev, El. clear Ev El.
  destruct (write_le 4 (C.tx_version t)); cbn [bind]; try reflexivity.
  destruct (C.prevouts_blob t ht); cbn [bind]; try reflexivity.
  destruct (C.sequences_blob t ht); cbn [bind]; try reflexivity.
  destruct (nth_error (C.tx_ins t) idx) as [x|]; cbn [option_map bind]; [|reflexivity].
  cbn [sh_in S.ti_index S.ti_seq S.ti_hash sh_out S.to_value].
  destruct (write_le 4 (C.ti_index x)); cbn [bind]; try reflexivity.
  destruct (stream_varstr code); cbn [bind]; try reflexivity.
  destruct (write_le 8 (C.to_amount u)); cbn [bind]; try reflexivity.
  destruct (write_le 4 (C.ti_seq x)); cbn [bind]; try reflexivity.
  destruct (C.outputs_blob t ht idx); cbn [bind]; try reflexivity.
  destruct (write_le 4 (C.tx_lock t)); cbn [bind]; try reflexivity.
  destruct (write_le 4 ht); cbn [bind]; try reflexivity.
  unfold C.segwit_assemble. cbn [C.sf_head C.sf_prevouts C.sf_sequences C.sf_mid C.sf_outputs C.sf_tail].
  now rewrite <- !app_assoc.
Qed.
End SegwitBridge.

(* the integer _signature_for_hash_type_segwit returns (Bitcoin / Litecoin / Bitcoin Cash classes) *)
Theorem bridge_segwit_sighash : forall (sha256 dsha256 : bytes -> bytes) (c : S.coin)
    (t : C.tx) (unspents : list (option C.txout)) (u : C.txout) (code : bytes) (idx : nat) (ht : N),
  c = S.BTC \/ c = S.LTC \/ c = S.BCH ->
  nth_error unspents idx = Some (Some u) ->
  S.signature_for_hash_type_segwit sha256 dsha256 c (sh_tx t unspents) code idx ht
  = C.segwit_sighash dsha256 t code (C.to_amount u) idx ht.
Proof.
  intros sha dsha c t us u code idx ht Hc Hu.
  assert (E : S.signature_for_hash_type_segwit sha dsha c (sh_tx t us) code idx ht
              = (do p <- S.btc_segwit_preimage dsha (sh_tx t us) code idx ht; Ret (S.from_bytes_32 (dsha p))))
    by (destruct Hc as [->|[->| ->]]; reflexivity).
  rewrite E, (bridge_segwit dsha t us u code idx ht Hu). unfold C.segwit_sighash, C.segwit_digest.
  destruct (C.segwit_preimage dsha t code (C.to_amount u) idx ht); reflexivity.
Qed.

(* the context form used by the corollaries: sh_ctx records the amount at position idx *)
Lemma sh_ctx_unspent idx c :
  nth_error (repeat (@None C.txout) idx ++ [Some (C.mk_txout (C.sc_amount c) [])]) idx
  = Some (Some (C.mk_txout (C.sc_amount c) [])).
Proof. rewrite nth_error_app2; rewrite repeat_length; [|lia]. now rewrite Nat.sub_diag. Qed.

Theorem bridge_segwit_ctx : forall (H : bytes -> bytes) (c : C.sctx) (idx : nat) (ht : N),
  S.btc_segwit_preimage H (sh_ctx idx c) (C.sc_code c) idx ht
  = C.segwit_preimage H (C.sc_tx c) (C.sc_code c) (C.sc_amount c) idx ht.
Proof. intros. unfold sh_ctx. now rewrite (bridge_segwit H _ _ _ _ _ _ (sh_ctx_unspent idx c)). Qed.

(* when the spent output is NOT recorded the code raises where Commit (which is handed the amount) has no opinion:
   IndexError for a short list, AttributeError for None — after version, hashPrevouts, hashSequence and the
   outpoint index have been produced *)
Theorem segwit_missing_unspent_raises : forall (H : bytes -> bytes) (t : C.tx) (unspents : list (option C.txout))
    (code : bytes) (idx : nat) (ht : N) (p : bytes),
  nth_error unspents idx = None \/ nth_error unspents idx = Some None ->
  S.btc_segwit_preimage H (sh_tx t unspents) code idx ht <> Ret p.
Proof.
  intros H t us code idx ht p Hu.
  unfold S.btc_segwit_preimage, S.segwit_signature_preimage.
  assert (Eu : nth_error (S.tx_unspents (sh_tx t us)) idx = None \/ nth_error (S.tx_unspents (sh_tx t us)) idx = Some None)
    by (unfold sh_tx; cbn [S.tx_unspents]; rewrite nth_error_map; destruct Hu as [->| ->]; cbn; auto).
  destruct (write_le 4 _); cbn [bind]; try discriminate.
  destruct (S.hash_prevouts _ _ _); cbn [bind]; try discriminate.
  destruct (S.hash_sequence _ _ _ _ _); cbn [bind]; try discriminate.
  destruct (nth_error (S.tx_ins _) idx); cbn [bind]; try discriminate.
  destruct (write_le 4 _); cbn [bind]; try discriminate.
  destruct Eu as [->| ->]; cbn [bind]; try discriminate.
  destruct (stream_varstr code); cbn [bind]; discriminate.
Qed.
