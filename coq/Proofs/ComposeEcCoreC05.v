(* Proofs/ComposeEcCoreC05.v — composition C05 x C01/C02/C10 x C03 (Core side): what pycoin's signer produces with the REAL
   ECDSA of Proofs/ComposeEcC05.v is accepted by the executable transcription of Bitcoin Core's VerifyScript
   (Spec/VMcore.v), under every flag word related to a standard flag set.
   = Proofs/ComposeEcC05.v (the template evaluator accepts) o Proofs/ComposeTemplates.v `templates_sound` (whatever the
   evaluator accepts, Core accepts; no hypothesis on ECDSA).  The two side facts templates_sound needs about the listed keys
   (pushed keys are at most 520 bytes and do not read as strictly encoded signatures: FindAndDelete inertness) are the
   lemmas of Proofs/ComposeTemplatesCor.v, which assume pub_wellformed for EVERY secret; they are reached through the
   normalised public-key function of Proofs/ComposeRelC05.v, which agrees with ec_pub_of on the listed keys.
   The oracle record `o` is any one with  o_checksig sig key code sv = ec_verifies key (sighash (sv is witness v0) (last byte of
   sig) code) (sig without its last byte)  (oracles_inst); core_oracles .. is the canonical instance. *)
From Coq Require Import ZArith List Lia Bool.
From PV Require Import Base.Bytes Base.Outcome Gen.GenSolveC05 Spec.Templates Spec.VMTypes Spec.VMcore Model.Solve.
From PV Require Import Proofs.SolveP Proofs.ComposeTemplatesEnc Proofs.ComposeTemplates Proofs.ComposeTemplatesCor.
From PV Require Import Proofs.ComposeRelC05 Proofs.ComposeEcC05.
Import ListNotations.
Local Open Scope N_scope.

Section EcCore.
Variable hash160 : bytes -> bytes.
Variable sha256 : bytes -> bytes.
Variable hmac : bytes -> bytes -> bytes.
Variable sighash : bool -> N -> bytes -> option bytes.
Hypothesis sha256_len : forall x, length (sha256 x) = 32%nat.
Hypothesis hash160_len : forall x, length (hash160 x) = 20%nat.
Variable blind : Z.
Variable kfuel fuel : nat.
Variable strict : bool.
Local Notation verifies := (ec_verifies blind strict).
Local Notation sign := (ec_sign blind hmac kfuel fuel).
Local Notation pub_of := (ec_pub_of blind).

Variable fl : flags.
Variable fw : N.
Hypothesis Hfl : flags_rel fl fw.
Variable o : oracles.
Hypothesis Ho : oracles_inst hash160 sha256 verifies sighash o.
Variable ctx : txctx.

(* the listed keys seen through a total, everywhere well-formed key function *)
Lemma total_pub (ks : list keyspec) k0 : In k0 ks -> keys_ok ks ->
  exists p' : bytes -> bool -> bytes,
    (forall se, is_compressed (p' se true) = true /\ is_uncompressed (p' se false) = true) /\
    (forall k, In k ks -> pub pub_of k = pub p' k).
Proof.
  intros Hk0 Hok.
  exists (n_pub_of pub_of (map fst ks) (fst k0)). split.
  - apply n_pub_wellformed; [now apply in_map|].
    intros se Hs. apply in_map_iff in Hs. destruct Hs as (k & <- & Hk). apply ec_pub_wellformed. now apply Hok.
  - apply n_pub_keys. intros k Hk. now apply in_map.
Qed.

Theorem ec_ms_valid_under_core forkid kd m ks db hto p2sh :
  f_std fl = true ->
  keys_ok ks -> signs_on blind hmac kfuel fuel sighash ks (kwit kd) (ms_script m (map (pub pub_of) ks)) ->
  ms_shape pub_of kd m ks -> p2sh_ok hash160 sha256 pub_of kd m ks p2sh -> db_ok hash160 pub_of db ks ->
  (forall k, In k ks -> avail hash160 pub_of db k = true) ->
  ht_ok sighash (kwit kd) (ms_script m (map (pub pub_of) ks)) (effective_hash_type forkid hto) ->
  (f_std fl = true -> f_strictenc fl = true -> std_hash_type (effective_hash_type forkid hto)) ->
  (forall k, In k ks -> pub_enc_ok fl (kwit kd) (pub pub_of k) = true) ->
  (kwit kd = true -> cast_to_bool (sha256 (ms_script m (map (pub pub_of) ks))) = true) ->
  exists st, sign_input hash160 sha256 verifies sign pub_of sighash db p2sh forkid (pz_ms pub_of kd m ks) hto [] [] = Ret st /\
             VerifyScript o (spend_of hash160 sha256 fw ctx (pz_ms pub_of kd m ks) (fst st) (snd st)) = VOk tt.
Proof.
  intros Hstd Hk Hs Hsh Hp Hdb Hav Hht Hty Hpub Hnz.
  destruct (ec_ms_validates blind strict hmac kfuel fuel hash160 sha256 sighash sha256_len
              fl forkid kd m ks db hto p2sh Hk Hs Hsh Hp Hdb Hav Hht Hty Hpub) as (st & Hsig & He).
  exists st. split; [exact Hsig|].
  assert (Hk0 : exists k0, In k0 ks).
  { destruct Hsh as [_ Hm _ _ _]. destruct ks as [|k0 kr]; [cbn in Hm; lia | exists k0; now left]. }
  destruct Hk0 as (k0 & Hk0).
  destruct (total_pub ks k0 Hk0 Hk) as (p' & Hwf' & HP).
  assert (Hwf : puzzle_wf sha256 (pz_ms pub_of kd m ks)).
  { rewrite (pz_ms_ext pub_of p' ks HP). apply (ms_puzzle_wf sha256 p' Hwf').
    - now apply (ms_shape_ext pub_of p' ks HP).
    - rewrite <- (keys_ext pub_of p' ks HP). exact Hnz. }
  assert (Hcd : forall d, In d (code_data (pz_ms pub_of kd m ks)) -> strict_der d = false).
  { rewrite (pz_ms_ext pub_of p' ks HP). apply (ms_code_not_der p' Hwf'). }
  apply (templates_sound hash160 sha256 verifies sighash fl fw Hfl o Ho ctx hash160_len sha256_len _ _ _ Hwf); [|exact He].
  exact (std_inert hash160 sha256 verifies sighash fl Hstd _ _ _ Hwf Hcd He).
Qed.

Theorem ec_single_valid_under_core forkid kd k db hto p2sh :
  f_std fl = true ->
  secret_ok (fst k) -> signs_on blind hmac kfuel fuel sighash [k] (single_wit kd) (single_sc hash160 pub_of kd k) ->
  is_single_kind kd ->
  lookup_get db (hash160 (pub pub_of k)) = Some k ->
  (kd = K_P2SH_P2WPKH ->
   p2sh_get hash160 sha256 p2sh (hash160 (wit0_script (hash160 (pub pub_of k)))) = Some (wit0_script (hash160 (pub pub_of k)))) ->
  ht_ok sighash (single_wit kd) (single_sc hash160 pub_of kd k) (effective_hash_type forkid hto) ->
  (f_std fl = true -> f_strictenc fl = true -> std_hash_type (effective_hash_type forkid hto)) ->
  pub_enc_ok fl (single_wit kd) (pub pub_of k) = true ->
  (kd = K_P2PKH -> strict_der (hash160 (pub pub_of k)) = false) ->
  (single_wit kd = true -> cast_to_bool (hash160 (pub pub_of k)) = true) ->
  exists st, sign_input hash160 sha256 verifies sign pub_of sighash db p2sh forkid (pz_single hash160 pub_of kd k) hto [] [] = Ret st /\
             VerifyScript o (spend_of hash160 sha256 fw ctx (pz_single hash160 pub_of kd k) (fst st) (snd st)) = VOk tt.
Proof.
  intros Hstd Hk Hs Hkd Hl Hp Hht Hty Hpub Hnd Hnz.
  destruct (ec_single_validates blind strict hmac kfuel fuel hash160 sha256 sighash hash160_len
              fl forkid kd k db hto p2sh Hk Hs Hkd Hl Hp Hht Hty Hpub) as (st & Hsig & He).
  exists st. split; [exact Hsig|].
  assert (Hks : keys_ok [k]) by (intros k' [<-|[]]; exact Hk).
  destruct (total_pub [k] k ltac:(now left) Hks) as (p' & Hwf' & HP).
  pose proof (HP k ltac:(now left)) as HPk.
  assert (Hsmall : lenN (pub pub_of k) <= 520) by (rewrite HPk; apply (pub_small p' Hwf')).
  assert (Hnder : strict_der (pub pub_of k) = false) by (rewrite HPk; apply (pub_not_der p' Hwf')).
  assert (Hwf : puzzle_wf sha256 (pz_single hash160 pub_of kd k)).
  { unfold puzzle_wf. destruct Hkd as [ -> | [ -> | [ -> | -> ] ] ]; cbn [pz_single pz_kind pz_keys pz_hash hd single_wit] in *.
    - exact Hsmall.
    - unfold lenN. rewrite hash160_len. lia.
    - split; [apply hash160_len|exact (Hnz eq_refl)].
    - split; [apply hash160_len|exact (Hnz eq_refl)]. }
  assert (Hcd : forall d, In d (code_data (pz_single hash160 pub_of kd k)) -> strict_der d = false).
  { clear - Hkd Hnder Hnd. intros d. unfold code_data.
    destruct Hkd as [ -> | [ -> | [ -> | -> ] ] ]; unfold pz_single; cbn [pz_kind pz_keys pz_hash hd In].
    - intros [<-|[]]. exact Hnder.
    - intros [<-|[]]. exact (Hnd eq_refl).
    - intros [].
    - intros []. }
  apply (templates_sound hash160 sha256 verifies sighash fl fw Hfl o Ho ctx hash160_len sha256_len _ _ _ Hwf); [|exact He].
  exact (std_inert hash160 sha256 verifies sighash fl Hstd _ _ _ Hwf Hcd He).
Qed.
End EcCore.
