(* Proofs/MsgInstP.v — the hypotheses of the C17 theorems (Proofs/MsgSignP.v) are satisfiable: every one of
   them is proved, by finite tables checked with vm_compute, for the curve y^2 = x^3 + 7 over F_43 with
   G = (2,12) of prime order 31 (Model/MsgInst.v, cv43).  The theorems are then instantiated hypothesis-free. *)
From PV Require Import Base.Bytes Base.Outcome Base.Varint Model.Base64 Model.MsgSign Model.MsgInst Proofs.MsgSignP.
Local Open Scope Z_scope.

Definition tpt_eqb (P Q : tpt) : bool :=
  match P, Q with
  | None, None => true
  | Some (a, b), Some (c, d) => (a =? c) && (b =? d)
  | _, _ => false
  end.
Lemma tpt_eqb_eq P Q : tpt_eqb P Q = true <-> P = Q.
Proof.
  destruct P as [[a b]|], Q as [[c d]|]; cbn [tpt_eqb]; try (split; congruence).
  rewrite andb_true_iff, !Z.eqb_eq. split; [intros [-> ->]; reflexivity | intros H; injection H; auto].
Qed.

Definition range (k : nat) : list Z := map Z.of_nat (seq 0 k).
Lemma in_range k i : 0 <= i < Z.of_nat k -> In i (range k).
Proof. intros H. apply in_map_iff. exists (Z.to_nat i). split; [lia|]. apply in_seq. lia. Qed.
Lemma forall_range k (f : Z -> bool) : forallb f (range k) = true -> forall i, 0 <= i < Z.of_nat k -> f i = true.
Proof. intros H i Hi. rewrite forallb_forall in H. apply H. now apply in_range. Qed.

Local Notation G := (tG cv43).
Local Notation mul := (tsmul cv43).
Local Notation add := (tadd cv43).
Local Notation inv := (t_inv cv43).
Local Notation pfx := (t_points_for_x cv43).

Lemma mod31 a : 0 <= a mod 31 < Z.of_nat 31.
Proof. pose proof (Z.mod_pos_bound a 31 ltac:(lia)). lia. Qed.

Lemma mul_mod a P : mul a P = mul (a mod 31) P.
Proof. unfold tsmul. cbn [cn cv43]. rewrite Z.mod_mod by lia. reflexivity. Qed.

(* ---- the finite tables -------------------------------------------------------------------------- *)
Lemma T_smul : forallb (fun i => forallb (fun j => tpt_eqb (mul i (mul j G)) (mul (i * j) G)) (range 31)) (range 31) = true.
Proof. vm_compute. reflexivity. Qed.
Lemma T_add : forallb (fun i => forallb (fun j => tpt_eqb (add (mul i G) (mul j G)) (mul (i + j) G)) (range 31)) (range 31) = true.
Proof. vm_compute. reflexivity. Qed.
Lemma T_inj : forallb (fun i => forallb (fun j => negb (tpt_eqb (mul i G) (mul j G)) || (i =? j)) (range 31)) (range 31) = true.
Proof. vm_compute. reflexivity. Qed.
Lemma T_inf : forallb (fun i => Bool.eqb (match mul i G with None => true | Some _ => false end) (i =? 0)) (range 31) = true.
Proof. vm_compute. reflexivity. Qed.
Lemma T_range : forallb (fun i => match mul i G with
                                  | Some (x, y) => (0 <=? x) && (x <? 43) && (0 <=? y) && (y <? 43)
                                  | None => true end) (range 31) = true.
Proof. vm_compute. reflexivity. Qed.
Lemma T_pfx : forallb (fun i => match mul i G with
                                | Some (x, y) =>
                                  match pfx x with
                                  | Some (P0, P1) => tpt_eqb (if Z.land y 1 =? 0 then P0 else P1) (Some (x, y))
                                  | None => false
                                  end
                                | None => true end) (range 31) = true.
Proof. vm_compute. reflexivity. Qed.
Lemma T_inv : forallb (fun i => (i =? 0) || ((i * inv i) mod 31 =? 1)) (range 31) = true.
Proof. vm_compute. reflexivity. Qed.
Definition in_group (P : tpt) : bool := existsb (fun i => tpt_eqb P (mul i G)) (range 31).
Lemma T_pfx_closed : forallb (fun x => match pfx x with
                                       | Some (P0, P1) => in_group P0 && in_group P1
                                       | None => true end) (range 43) = true.
Proof. vm_compute. reflexivity. Qed.

(* ---- the hypotheses of Section Recover ------------------------------------------------------------ *)
Lemma h_n_gt1 : 1 < cn cv43.
Proof. cbn. lia. Qed.

Lemma h_inv_ok a : a mod cn cv43 <> 0 -> (a * inv a) mod cn cv43 = 1.
Proof.
  cbn [cn cv43]. intros H.
  assert (E : inv a = inv (a mod 31)) by (unfold t_inv, inv_mod; cbn [cn cv43]; now rewrite Z.mod_mod by lia).
  rewrite Z.mul_mod, E by lia. rewrite <- (Z.mod_mod (inv (a mod 31)) 31) at 1 by lia.
  assert (E2 : inv (a mod 31) mod 31 = inv (a mod 31)).
  { pose proof (forall_range 31 (fun i => inv i mod 31 =? inv i) ltac:(vm_compute; reflexivity)
                  (a mod 31) (mod31 a)) as T.
    cbv beta in T. now apply Z.eqb_eq in T. }
  rewrite Z.mod_mod, E2 by lia.
  pose proof (forall_range 31 _ T_inv (a mod 31) (mod31 a)) as T. cbv beta in T.
  apply orb_true_iff in T. destruct T as [T|T]; [apply Z.eqb_eq in T; contradiction|].
  now apply Z.eqb_eq in T.
Qed.

Lemma h_smul a b : mul a (mul b G) = mul (a * b) G.
Proof.
  rewrite (mul_mod a (mul b G)), (mul_mod b G), (mul_mod (a * b) G), Z.mul_mod by lia.
  rewrite <- (mul_mod (a mod 31 * (b mod 31)) G).
  pose proof (forall_range 31 _ T_smul (a mod 31) (mod31 a)) as T. cbv beta in T.
  pose proof (forall_range 31 _ T (b mod 31) (mod31 b)) as T2. cbv beta in T2.
  now apply tpt_eqb_eq.
Qed.

Lemma h_add a b : add (mul a G) (mul b G) = mul (a + b) G.
Proof.
  rewrite (mul_mod a G), (mul_mod b G), (mul_mod (a + b) G), Z.add_mod by lia.
  rewrite <- (mul_mod (a mod 31 + b mod 31) G).
  pose proof (forall_range 31 _ T_add (a mod 31) (mod31 a)) as T. cbv beta in T.
  pose proof (forall_range 31 _ T (b mod 31) (mod31 b)) as T2. cbv beta in T2.
  now apply tpt_eqb_eq.
Qed.

Lemma h_eq a b : mul a G = mul b G <-> a mod cn cv43 = b mod cn cv43.
Proof.
  cbn [cn cv43]. split.
  - rewrite (mul_mod a G), (mul_mod b G). intros H.
    pose proof (forall_range 31 _ T_inj (a mod 31) (mod31 a)) as T. cbv beta in T.
    pose proof (forall_range 31 _ T (b mod 31) (mod31 b)) as T2. cbv beta in T2.
    apply orb_true_iff in T2. destruct T2 as [T2|T2]; [|now apply Z.eqb_eq].
    apply negb_true_iff in T2. apply tpt_eqb_eq in H. congruence.
  - intros H. now rewrite (mul_mod a G), (mul_mod b G), H.
Qed.

Lemma h_inf a : tcoords (mul a G) = None <-> a mod cn cv43 = 0.
Proof.
  cbn [cn cv43]. unfold tcoords. rewrite (mul_mod a G).
  pose proof (forall_range 31 _ T_inf (a mod 31) (mod31 a)) as T. cbv beta in T.
  apply Bool.eqb_prop in T. destruct (mul (a mod 31) G); split; intros H.
  - discriminate.
  - apply Z.eqb_eq in H. rewrite H in T. discriminate.
  - apply Z.eqb_eq. now rewrite <- T.
  - reflexivity.
Qed.

Lemma h_rangeG a x y : tcoords (mul a G) = Some (x, y) -> 0 <= x < cp cv43 /\ 0 <= y < cp cv43.
Proof.
  cbn [cp cv43]. unfold tcoords. rewrite (mul_mod a G). intros H.
  pose proof (forall_range 31 _ T_range (a mod 31) (mod31 a)) as T. cbv beta in T. rewrite H in T. lia.
Qed.

Lemma h_hasse : cp cv43 <= 2 * cn cv43.
Proof. cbn. lia. Qed.

Lemma h_pfx a x y : tcoords (mul a G) = Some (x, y) ->
  exists P0 P1, pfx x = Some (P0, P1) /\ (if Z.land y 1 =? 0 then P0 else P1) = mul a G.
Proof.
  unfold tcoords. rewrite (mul_mod a G). intros H.
  pose proof (forall_range 31 _ T_pfx (a mod 31) (mod31 a)) as T. cbv beta in T. rewrite H in T.
  destruct (pfx x) as [[P0 P1]|]; [|discriminate]. exists P0, P1. split; [reflexivity|].
  apply tpt_eqb_eq in T. rewrite T. symmetry. exact H.
Qed.

Lemma h_coords_inj a b : tcoords (mul a G) = tcoords (mul b G) -> mul a G = mul b G.
Proof. auto. Qed.

(* ---- the hypotheses of Section Total ---------------------------------------------------------------- *)
Definition onc43 (P : tpt) : Prop := in_group P = true.

Lemma onc43_inv P : onc43 P -> exists i, P = mul i G.
Proof.
  unfold onc43, in_group. rewrite existsb_exists. intros (i & _ & H). apply tpt_eqb_eq in H. eauto.
Qed.
Lemma onc43_mul i : onc43 (mul i G).
Proof.
  unfold onc43, in_group. apply existsb_exists. exists (i mod 31). split; [apply in_range, mod31|].
  apply tpt_eqb_eq. apply mul_mod.
Qed.

Lemma h_onc_G : onc43 G.
Proof. vm_compute. reflexivity. Qed.
Lemma h_onc_add P Q : onc43 P -> onc43 Q -> onc43 (add P Q).
Proof. intros HP HQ. destruct (onc43_inv P HP) as [i ->]. destruct (onc43_inv Q HQ) as [j ->]. rewrite h_add. apply onc43_mul. Qed.
Lemma h_onc_smul a P : onc43 P -> onc43 (mul a P).
Proof. intros HP. destruct (onc43_inv P HP) as [i ->]. rewrite h_smul. apply onc43_mul. Qed.
Lemma h_onc_pfx x P0 P1 : 0 <= x < cp cv43 -> pfx x = Some (P0, P1) -> onc43 P0 /\ onc43 P1.
Proof.
  cbn [cp cv43]. intros Hx H.
  pose proof (forall_range 43 _ T_pfx_closed x ltac:(lia)) as T. cbv beta in T. rewrite H in T.
  apply andb_true_iff in T. exact T.
Qed.
Lemma h_coords_range P x y : onc43 P -> tcoords P = Some (x, y) -> 0 <= x < cp cv43 /\ 0 <= y < cp cv43.
Proof. intros HP. destruct (onc43_inv P HP) as [i ->]. apply h_rangeG. Qed.
Lemma h_p_fits : cp cv43 <= 2 ^ 256.
Proof. cbn [cp cv43]. lia. Qed.

(* ---- the theorems, hypothesis-free on this curve ------------------------------------------------------ *)
Section Toy43.
  Variable gen_k : Z -> Z -> Z -> Z.
  Variable dsha256 hash160 : bytes -> bytes.

  Local Notation sign43 := (signature_for_message_hash tpt (tsmul cv43) G 31 tcoords inv gen_k).
  Local Notation pair43 := (pair_for_message_hash tpt add mul G 31 43 tcoords pfx inv).
  Local Notation verify43 := (verify_message tpt add mul G 31 43 tcoords pfx inv dsha256 hash160).

  Lemma toy43_recovers fuel d z c text : d mod 31 <> 0 -> sign43 fuel d z c = Ret text ->
    pair43 text z = Ret (mul d G, c).
  Proof.
    exact (sign_recovers tpt add mul G 31 43 tcoords pfx inv gen_k dsha256 hash160
             h_n_gt1 h_inv_ok h_smul h_add h_eq h_inf (fun a x y H => proj1 (h_rangeG a x y H)) h_hasse h_pfx
             fuel d z c text).
  Qed.

  Lemma toy43_other_hash fuel d z c text magic x y z' :
    d mod 31 <> 0 -> sign43 fuel d z c = Ret text -> tcoords (mul d G) = Some (x, y) ->
    (verify43 (KPair x y) text magic None (Some z') = Ret true <-> z' mod 31 = z mod 31).
  Proof.
    exact (sign_other_hash_key tpt add mul G 31 43 tcoords pfx inv gen_k dsha256 hash160
             h_n_gt1 h_inv_ok h_smul h_add h_eq h_inf (fun a x y H => proj1 (h_rangeG a x y H)) h_hasse h_pfx
             h_coords_inj fuel d z c text magic x y z').
  Qed.

  Lemma toy43_total key text magic msg_hash : exists b, verify43 key text magic None msg_hash = Ret b.
  Proof.
    exact (verify_total_hash tpt add mul G 31 43 tcoords pfx inv dsha256 hash160 onc43
             h_onc_G h_onc_add h_onc_smul h_onc_pfx h_coords_range h_p_fits key text magic msg_hash).
  Qed.
End Toy43.

(* concrete signatures on this curve: nonce points with x < n (first byte 27/28 + 4) and with x > n
   (recid 2/3: first byte 33/34 when compressed) *)
Definition first_byte_of (o : outcome bytes) : option byte :=
  match o with Ret t => match a2b_base64 t with Ret (b :: _) => Some b | _ => None end | _ => None end.
Example toy43_recids :
  map (fun k => first_byte_of (signature_for_message_hash tpt mul G 31 tcoords inv (fun _ _ _ => k) 5 5 77 true))
      [1; 2; 8; 3]
  = [Some x1f; Some x20; Some x21; Some x22].
Proof. vm_compute. reflexivity. Qed.
