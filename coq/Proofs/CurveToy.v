(* Proofs/CurveToy.v — the mathematical premises M1 (p prime), M3 (Fermat), M4 (associativity) and "n * P = O" are
   DECIDED by exhaustive kernel computation on small curves, so that every theorem of Props/C02.v is instantiated
   without any hypothesis on the toy curves below (the theorems are not vacuous). *)
From Coq Require Import ZArith Lia Znumtheory Bool List Zpow_facts.
From PV Require Import Base.Outcome Model.Curve Spec.Weierstrass Proofs.CurveInvP Proofs.CurveAddP Proofs.CurveGroupP
  Proofs.CurveMulP Proofs.CurveSqrtP.
Import ListNotations.
Local Open Scope Z_scope.

Definition zrange (lo : Z) (len : nat) : list Z := map (fun i => lo + Z.of_nat i) (seq 0 len).

Lemma in_zrange lo len z : lo <= z < lo + Z.of_nat len -> In z (zrange lo len).
Proof.
  intros H. unfold zrange. apply in_map_iff. exists (Z.to_nat (z - lo)). split; [lia|].
  apply in_seq. lia.
Qed.

(* ---- M1 ---- *)
Definition prime_checkb (p : Z) : bool :=
  (1 <? p) && forallb (fun k => negb (p mod k =? 0)) (zrange 2 (Z.to_nat (p - 2))).

Lemma prime_checkb_sound p : prime_checkb p = true -> prime p.
Proof.
  unfold prime_checkb. intros H. apply andb_prop in H. destruct H as [H1 H2].
  apply Z.ltb_lt in H1. apply prime_alt. split; [exact H1|].
  intros k Hk D. rewrite forallb_forall in H2.
  specialize (H2 k (in_zrange 2 (Z.to_nat (p - 2)) k ltac:(lia))).
  apply Z.mod_divide in D; [|lia]. rewrite D in H2. discriminate.
Qed.

(* ---- M3 ---- *)
Definition fermat_checkb (p : Z) : bool :=
  forallb (fun t => pow_mod t (p - 1) p =? 1) (zrange 1 (Z.to_nat (p - 1))).

Lemma fermat_checkb_sound p : 1 < p -> fermat_checkb p = true ->
  forall t, t mod p <> 0 -> (t ^ (p - 1)) mod p = 1.
Proof.
  intros Hp H t Ht. unfold fermat_checkb in H. rewrite forallb_forall in H.
  pose proof (Z.mod_pos_bound t p ltac:(lia)) as Hb.
  specialize (H (t mod p) (in_zrange 1 (Z.to_nat (p - 1)) (t mod p) ltac:(lia))).
  apply Z.eqb_eq in H. rewrite pow_mod_spec in H by lia.
  rewrite Zpower_mod by lia. exact H.
Qed.

(* ---- enumeration of the group elements ---- *)
Definition all_points (c : curve) : list pt :=
  None :: flat_map (fun x => flat_map (fun y => if contains_point c (Some (x, y)) then [Some (x, y)] else [])
                                      (zrange 0 (Z.to_nat (cp c)))) (zrange 0 (Z.to_nat (cp c))).

Lemma all_points_complete c P : valid c P -> contains_point c P = true -> In P (all_points c).
Proof.
  intros [_ Hr] Hc. destruct P as [[x y]|]; [|left; reflexivity]. right.
  destruct Hr as [Hx Hy].
  apply in_flat_map. exists x. split; [apply in_zrange; lia|].
  apply in_flat_map. exists y. split; [apply in_zrange; lia|].
  rewrite Hc. left. reflexivity.
Qed.

Definition pt_eqb (P Q : pt) : bool :=
  match P, Q with
  | None, None => true
  | Some (x, y), Some (x', y') => (x =? x') && (y =? y')
  | _, _ => false
  end.

Lemma pt_eqb_eq P Q : pt_eqb P Q = true -> P = Q.
Proof.
  destruct P as [[x y]|], Q as [[x' y']|]; cbn; try discriminate; auto.
  intros H. apply andb_prop in H. destruct H as [H1 H2]. apply Z.eqb_eq in H1, H2. now subst.
Qed.

(* ---- M4 and the order, exhaustively ---- *)
Definition assoc_checkb (c : curve) : bool :=
  let pts := all_points c in
  forallb (fun P => forallb (fun Q => forallb (fun R =>
    pt_eqb (gadd c (gadd c P Q) R) (gadd c P (gadd c Q R))) pts) pts) pts.

Definition order_checkb (c : curve) : bool :=
  forallb (fun P => pt_eqb (smul None (gadd c) (gneg c) (cn c) P) None) (all_points c).

Definition toy_ok (c : curve) : bool :=
  prime_checkb (cp c) && negb (cp c =? 2) && (cp c mod 4 =? 3) && fermat_checkb (cp c) &&
  (0 <? cn c) && Z.odd (cn c) && assoc_checkb c && order_checkb c.

Record toy_facts (c : curve) : Prop := {
  tf_prime : prime (cp c);
  tf_not2 : cp c <> 2;
  tf_mod4 : cp c mod 4 = 3;
  tf_fermat : forall t, t mod cp c <> 0 -> (t ^ (cp c - 1)) mod cp c = 1;
  tf_npos : 0 < cn c;
  tf_nodd : Z.odd (cn c) = true;
  tf_assoc : forall P Q R, valid c P -> valid c Q -> valid c R -> gadd c (gadd c P Q) R = gadd c P (gadd c Q R);
  tf_order : forall P, valid c P -> smul None (gadd c) (gneg c) (cn c) P = None
}.

Lemma toy_ok_sound c : toy_ok c = true -> toy_facts c.
Proof.
  unfold toy_ok. intros H.
  repeat (apply andb_prop in H; let H' := fresh "K" in destruct H as [H H']).
  assert (Hpc : prime_checkb (cp c) = true) by (unfold prime_checkb; rewrite H, K6; reflexivity).
  pose proof (prime_checkb_sound _ Hpc) as Hprime.
  assert (Hp1 : 1 < cp c) by (destruct Hprime; lia).
  assert (Hne2 : cp c <> 2) by (apply negb_true_iff in K5; now apply Z.eqb_neq in K5).
  assert (Hin : forall P, valid c P -> In P (all_points c)).
  { intros P HV. apply all_points_complete; [exact HV|]. apply (contains_iff_c c Hprime Hne2). apply HV. }
  constructor.
  - exact Hprime.
  - exact Hne2.
  - now apply Z.eqb_eq.
  - now apply fermat_checkb_sound.
  - now apply Z.ltb_lt.
  - assumption.
  - intros P Q R HP HQ HR. unfold assoc_checkb in K0. cbv zeta in K0.
    rewrite forallb_forall in K0. specialize (K0 P (Hin P HP)).
    rewrite forallb_forall in K0. specialize (K0 Q (Hin Q HQ)).
    rewrite forallb_forall in K0. specialize (K0 R (Hin R HR)).
    now apply pt_eqb_eq.
  - intros P HP. unfold order_checkb in K. rewrite forallb_forall in K.
    specialize (K P (Hin P HP)). now apply pt_eqb_eq.
Qed.
