(* Proofs/WordsC19.v — bit operations of unbounded (Python) integers, reduced mod 2^32.
   Used by RipemdP.v and MurmurP.v.  Everything over Z (Z.land/lor/lxor/lnot on negative numbers are the
   two's-complement operations, as in Python). *)
From PV Require Import Base.Bytes Spec.RipemdSpec.
From Coq Require Import ZifyBool.
Local Open Scope Z_scope.

Lemma W_pow : W = 2 ^ 32.
Proof. reflexivity. Qed.
Lemma W_pos : 0 < W.
Proof. reflexivity. Qed.
Lemma M32_ones : 4294967295 = Z.ones 32.
Proof. reflexivity. Qed.

Lemma mod_W_range a : 0 <= a mod W < W.
Proof. apply Z.mod_pos_bound. reflexivity. Qed.

Lemma mod_W_ones a : a mod W = Z.land a (Z.ones 32).
Proof. rewrite W_pow. symmetry. apply Z.land_ones. lia. Qed.

(* x & 0xFFFFFFFF *)
Lemma land_M32 a : Z.land a 4294967295 = a mod W.
Proof. rewrite M32_ones. symmetry. apply mod_W_ones. Qed.

Lemma land_mod a b : Z.land a b mod W = Z.land (a mod W) (b mod W).
Proof.
  rewrite !mod_W_ones. apply Z.bits_inj'. intros n Hn.
  rewrite !Z.land_spec. destruct (Z.testbit a n), (Z.testbit b n), (Z.testbit (Z.ones 32) n); reflexivity.
Qed.

Lemma lor_mod a b : Z.lor a b mod W = Z.lor (a mod W) (b mod W).
Proof.
  rewrite !mod_W_ones. apply Z.bits_inj'. intros n Hn.
  rewrite ?Z.land_spec, ?Z.lor_spec, ?Z.land_spec.
  destruct (Z.testbit a n), (Z.testbit b n), (Z.testbit (Z.ones 32) n); reflexivity.
Qed.

Lemma lxor_mod a b : Z.lxor a b mod W = Z.lxor (a mod W) (b mod W).
Proof.
  rewrite !mod_W_ones. apply Z.bits_inj'. intros n Hn.
  rewrite ?Z.land_spec, ?Z.lxor_spec, ?Z.land_spec.
  destruct (Z.testbit a n), (Z.testbit b n), (Z.testbit (Z.ones 32) n); reflexivity.
Qed.

(* ~x on an arbitrary integer, reduced, is the 32-bit complement of the reduced x *)
Lemma lnot_mod a : Z.lnot a mod W = wnot (a mod W).
Proof.
  unfold wnot, Z.lnot, W. 
  pose proof (Z.div_mod a 4294967296 ltac:(lia)) as H1.
  pose proof (Z.mod_pos_bound a 4294967296 ltac:(lia)) as H2.
  symmetry. apply Z.mod_unique_pos with (q := - (a / 4294967296) - 1); lia.
Qed.

Lemma add_mod a b : (a + b) mod W = wadd (a mod W) (b mod W).
Proof. unfold wadd. apply Z.add_mod. discriminate. Qed.

Lemma mul_mod a b : (a * b) mod W = wmul (a mod W) (b mod W).
Proof. unfold wmul. apply Z.mul_mod. discriminate. Qed.

Lemma mod_mod_W a : (a mod W) mod W = a mod W.
Proof. apply Z.mod_mod. discriminate. Qed.

Lemma wadd_range a b : 0 <= wadd a b < W.
Proof. apply mod_W_range. Qed.

(* x << i *)
Lemma shiftl_mod a i : 0 <= i -> Z.shiftl a i mod W = ((a mod W) * 2 ^ i) mod W.
Proof.
  intros Hi. rewrite Z.shiftl_mul_pow2 by exact Hi.
  rewrite Z.mul_mod_idemp_l by discriminate. reflexivity.
Qed.

(* a | (b << n) when a fits below bit n *)
Lemma land_low_shiftl a b n : 0 <= n -> 0 <= a < 2 ^ n -> Z.land a (Z.shiftl b n) = 0.
Proof.
  intros Hn Ha. apply Z.bits_inj'. intros k Hk.
  rewrite Z.land_spec, Z.bits_0.
  destruct (Z.lt_ge_cases k n) as [L|G].
  - rewrite (Z.shiftl_spec_low b n k L). apply andb_false_r.
  - assert (Z.testbit a k = false) as ->; [|reflexivity].
    destruct (Z.eq_dec a 0) as [->|Hz]; [apply Z.bits_0|].
    apply Z.bits_above_log2; [lia|].
    assert (Z.log2 a < n); [|lia]. apply Z.log2_lt_pow2; lia.
Qed.

Lemma lor_low_shiftl a b n : 0 <= n -> 0 <= a < 2 ^ n -> Z.lor a (Z.shiftl b n) = a + b * 2 ^ n.
Proof.
  intros Hn Ha. rewrite <- Z.lxor_lor by (apply land_low_shiftl; assumption).
  rewrite <- Z.add_nocarry_lxor by (apply land_low_shiftl; assumption).
  rewrite Z.shiftl_mul_pow2 by exact Hn. reflexivity.
Qed.

Lemma lxor_low_shiftl a b n : 0 <= n -> 0 <= a < 2 ^ n -> Z.lxor a (Z.shiftl b n) = a + b * 2 ^ n.
Proof.
  intros Hn Ha.
  rewrite <- Z.add_nocarry_lxor by (apply land_low_shiftl; assumption).
  rewrite Z.shiftl_mul_pow2 by exact Hn. reflexivity.
Qed.

(* the rotation idiom  (x << i) | ((x & 0xFFFFFFFF) >> (32 - i))  : its low 32 bits are the rotation of the
   low 32 bits of x; x itself is an arbitrary integer *)
Lemma rol_idiom_mod x i : 0 <= i <= 32 ->
  Z.lor (Z.shiftl x i) (Z.shiftr (Z.land x 4294967295) (32 - i)) mod W = rotl i (x mod W).
Proof.
  intros Hi. rewrite land_M32. unfold rotl.
  set (w := x mod W). assert (Hw : 0 <= w < W) by apply mod_W_range.
  rewrite lor_mod, shiftl_mod by lia. fold w.
  rewrite Z.shiftr_div_pow2 by lia.
  assert (Hlow : 0 <= w / 2 ^ (32 - i) < 2 ^ i).
  { split; [apply Z.div_pos; [lia| apply Z.pow_pos_nonneg; lia]|].
    apply Z.div_lt_upper_bound; [apply Z.pow_pos_nonneg; lia|].
    rewrite <- Z.pow_add_r by lia. replace (32 - i + i) with 32 by lia. exact (proj2 Hw). }
  assert (Hle : 2 ^ i <= W).
  { rewrite W_pow. apply Z.pow_le_mono_r; lia. }
  rewrite (Z.mod_small (w / 2 ^ (32 - i)) W) by lia.
  (* (w * 2^i) mod 2^32 = (w mod 2^(32-i)) * 2^i *)
  assert (Hhi : (w * 2 ^ i) mod W = Z.shiftl (w mod 2 ^ (32 - i)) i).
  { rewrite Z.shiftl_mul_pow2 by lia. rewrite W_pow.
    replace (2 ^ 32) with (2 ^ (32 - i) * 2 ^ i) by (rewrite <- Z.pow_add_r by lia; f_equal; lia).
    rewrite Z.mul_mod_distr_r; [reflexivity| |]; apply Z.pow_nonzero; lia. }
  rewrite Hhi. rewrite Z.lor_comm. rewrite lor_low_shiftl by lia.
  rewrite Z.shiftl_mul_pow2 by lia. lia.
Qed.
