(* Proofs/WordsC19.v — bit operations of unbounded (Python) integers, reduced mod 2^32.
   Used by RipemdP.v and MurmurP.v.  Everything over Z (Z.land/lor/lxor/lnot on negative numbers are the
   two's-complement operations, as in Python). *)
From PV Require Import Base.Bytes Spec.RipemdSpec.
From Coq Require Import ZifyBool.
Local Open Scope Z_scope.

Lemma W_pow : W = 2 ^ 32.
Proof. reflexivity. Qed.
Lemma W_pos : 0 < W.
Proof. reflexivity. Qed.
Lemma M32_ones : 4294967295 = Z.ones 32.
Proof. reflexivity. Qed.

Lemma mod_W_range a : 0 <= a mod W < W.
Proof. apply Z.mod_pos_bound. reflexivity. Qed.

Lemma mod_W_ones a : a mod W = Z.land a (Z.ones 32).
Proof. rewrite W_pow. symmetry. apply Z.land_ones. lia. Qed.

(* x & 0xFFFFFFFF *)
Lemma land_M32 a : Z.land a 4294967295 = a mod W.
Proof. rewrite M32_ones. symmetry. apply mod_W_ones. Qed.

Lemma land_mod a b : Z.land a b mod W = Z.land (a mod W) (b mod W).
Proof.
  rewrite !mod_W_ones. apply Z.bits_inj'. intros n Hn.
  rewrite !Z.land_spec. destruct (Z.testbit a n), (Z.testbit b n), (Z.testbit (Z.ones 32) n); reflexivity.
Qed.

Lemma lor_mod a b : Z.lor a b mod W = Z.lor (a mod W) (b mod W).
Proof.
  rewrite !mod_W_ones. apply Z.bits_inj'. intros n Hn.
  rewrite ?Z.land_spec, ?Z.lor_spec, ?Z.land_spec.
  destruct (Z.testbit a n), (Z.testbit b n), (Z.testbit (Z.ones 32) n); reflexivity.
Qed.

Lemma lxor_mod a b : Z.lxor a b mod W = Z.lxor (a mod W) (b mod W).
Proof.
  rewrite !mod_W_ones. apply Z.bits_inj'. intros n Hn.
  rewrite ?Z.land_spec, ?Z.lxor_spec, ?Z.land_spec.
  destruct (Z.testbit a n), (Z.testbit b n), (Z.testbit (Z.ones 32) n); reflexivity.
Qed.

(* ~x on an arbitrary integer, reduced, is the 32-bit complement of the reduced x *)
Lemma lnot_mod a : Z.lnot a mod W = wnot (a mod W).
Proof.
  unfold wnot. rewrite <- Z.add_opp_r, Z.opp_lnot...
Qed.
