(* Proofs/Pocklington.v — a kernel-checked primality checker (Pocklington's criterion with chained certificates) on Z.
   Purpose: premises M1 (`prime p`) and M2 (`prime n`) of DESIGN.md section 3 for the shipped 256-bit curves.  No primality
   library is installed, so the criterion is proved here from Znumtheory.prime and Fermat's little theorem (Proofs/FermatC10.v).

   Criterion (one step).  N > 1, items = [(q_i, e_i, a_i)], every q_i prime, q_i^e_i | N-1, a_i^(N-1) = 1 (mod N),
   gcd(a_i^((N-1)/q_i) - 1, N) = 1, the q_i^e_i pairwise coprime (checked by gcd while folding) and F = prod q_i^e_i with
   N < F*F.  Then every prime divisor p of N is 1 modulo F, hence > sqrt N, hence N is prime.
   A chain is a list of steps in dependency order; a prime factor q is accepted when it is < 2^24 and passes trial division,
   or is the subject of an earlier step.  Everything is computed with Zpow_mod/Z.gcd by vm_compute. *)
From Coq Require Import ZArith Znumtheory Zpow_facts Lia List Bool.
From PV Require Import Proofs.FermatC10.
Import ListNotations.
Local Open Scope Z_scope.

(* ---------- elementary facts ---------- *)

Lemma pow_mod_one x k p : 1 < p -> 0 <= k -> x mod p = 1 -> (x ^ k) mod p = 1.
Proof.
  intros Hp Hk Hx. rewrite Zpower_mod by lia. rewrite Hx, Z.pow_1_l by assumption. apply Z.mod_1_l; assumption.
Qed.

Lemma mul_mod_one x y p : 1 < p -> x mod p = 1 -> (x * y) mod p = y mod p.
Proof. intros Hp Hx. rewrite Z.mul_mod by lia. rewrite Hx, Z.mul_1_l. apply Z.mod_mod; lia. Qed.

(* every n > 1 has a prime divisor *)
Lemma prime_divisor_exists : forall n, 1 < n -> exists p, prime p /\ (p | n).
Proof.
  intros n Hn. assert (H : 0 <= n) by lia. revert Hn. pattern n. apply (Zlt_0_ind); [|exact H].
  clear n H. intros n IH _ Hn.
  destruct (prime_dec n) as [Hp|Hnp].
  - exists n. split; [assumption|apply Z.divide_refl].
  - destruct (not_prime_divide n Hn Hnp) as (d & Hd & Hdn).
    destruct (IH d ltac:(lia) ltac:(lia)) as (p & Hp & Hpd).
    exists p. split; [assumption|]. eapply Z.divide_trans; eassumption.
Qed.

(* a composite n > 1 has a prime divisor p with p*p <= n *)
Lemma small_prime_divisor n : 1 < n -> ~ prime n -> exists p, prime p /\ (p | n) /\ p * p <= n.
Proof.
  intros Hn Hnp. destruct (not_prime_divide n Hn Hnp) as (d & Hd & [k Hk]).
  assert (Hk1 : 1 < k) by nia.
  destruct (Z_le_gt_dec d k) as [Hle|Hgt].
  - destruct (prime_divisor_exists d ltac:(lia)) as (p & Hp & Hpd).
    exists p. split; [assumption|]. split.
    + apply Z.divide_trans with d; [assumption|]. exists k. lia.
    + assert (p <= d) by (apply Z.divide_pos_le; [lia|assumption]).
      assert (2 <= p) by (apply prime_ge_2; assumption). nia.
  - destruct (prime_divisor_exists k Hk1) as (p & Hp & Hpk).
    exists p. split; [assumption|]. split.
    + apply Z.divide_trans with k; [assumption|]. exists d. lia.
    + assert (p <= k) by (apply Z.divide_pos_le; [lia|assumption]).
      assert (2 <= p) by (apply prime_ge_2; assumption). nia.
Qed.

(* a positive divisor of q^e (q prime) other than q^e divides q^(e-1) *)
Lemma divisor_prime_power q : prime q -> forall e, 0 <= e -> forall d, 0 < d -> (d | q ^ e) -> d = q ^ e \/ (0 < e /\ (d | q ^ (e - 1))).
Proof.
  intros Hq e He. pattern e. apply natlike_ind; [| |exact He]; clear e He.
  - intros d Hd Hdiv. left. rewrite Z.pow_0_r in *. apply Z.divide_1_r_nonneg in Hdiv; lia.
  - intros e He IH d Hd Hdiv.
    replace (Z.succ e - 1) with e by lia.
    rewrite Z.pow_succ_r in Hdiv by assumption.
    destruct (Zdivide_dec q d) as [[d' Hd']|Hnq].
    + (* q | d *)
      assert (Hq2 : 2 <= q) by (apply prime_ge_2; assumption).
      assert (Hd'pos : 0 < d') by nia.
      assert (Hd'div : (d' | q ^ e)).
      { destruct Hdiv as [c Hc]. exists c. subst d. nia. }
      destruct (IH d' Hd'pos Hd'div) as [Heq|[He0 Hdiv']].
      * left. rewrite Z.pow_succ_r by assumption. subst d. rewrite Heq. ring.
      * right. split; [lia|]. subst d.
        replace e with (Z.succ (e - 1)) at 1 by lia. rewrite Z.pow_succ_r by lia.
        rewrite Z.mul_comm. apply Z.mul_divide_mono_l. assumption.
    + right. split; [lia|].
      apply Gauss with q; [assumption|].
      apply rel_prime_sym. apply prime_rel_prime; assumption.
Qed.

Lemma mul_pos_cancel c g x : 0 < g -> 0 < x -> x = c * g -> 0 <= c.
Proof. intros Hg Hx ->. nia. Qed.

(* Bezout with non-negative coefficients: u*a = g + v*b *)
Lemma bezout_pos a b : 0 < a -> 0 < b -> exists u v, 0 <= u /\ 0 <= v /\ u * a = Z.gcd a b + v * b.
Proof.
  intros Ha Hb.
  destruct (Z.gcd_bezout a b (Z.gcd a b) eq_refl) as (u0 & v0 & Huv).
  set (k := Z.abs u0 + Z.abs v0 + 1).
  exists (u0 + k * b), (- v0 + k * a).
  assert (0 <= k) by (unfold k; lia).
  assert (Z.abs u0 <= k * b) by (unfold k; nia).
  assert (Z.abs v0 <= k * a) by (unfold k; nia).
  split; [lia|]. split; [lia|]. rewrite <- Huv. ring.
Qed.

(* ---------- the core step: q^e | p - 1 for every prime divisor p of N ---------- *)

Lemma pock_core N p q e a :
  1 < N -> prime p -> (p | N) -> prime q -> 0 < e -> (q ^ e | N - 1) ->
  (a ^ (N - 1)) mod N = 1 -> Z.gcd ((a ^ ((N - 1) / q)) mod N - 1) N = 1 ->
  (q ^ e | p - 1).
Proof.
  intros HN Hp HpN Hq He HQ Ha Hg.
  assert (Hp2 : 2 <= p) by (apply prime_ge_2; assumption).
  assert (Hq2 : 2 <= q) by (apply prime_ge_2; assumption).
  set (Q := q ^ e) in *.
  assert (HQpos : 0 < Q) by (unfold Q; apply Z.pow_pos_nonneg; lia).
  destruct HQ as [R HR].
  assert (HRnn : 0 <= R) by nia.
  set (A := a ^ R).
  (* A^Q = a^(N-1) = 1 mod p *)
  assert (HAQ : (A ^ Q) mod p = 1).
  { unfold A. rewrite <- Z.pow_mul_r by lia. rewrite <- HR.
    destruct HpN as [c Hc].
    assert (Hmm : (a ^ (N - 1)) mod p = ((a ^ (N - 1)) mod N) mod p).
    { apply Zmod_div_mod; [lia|lia|]. exists c. exact Hc. }
    rewrite Hmm, Ha. apply Z.mod_1_l. lia. }
  (* A^(q^(e-1)) = a^((N-1)/q) <> 1 mod p *)
  assert (HQq : Q = q * q ^ (e - 1)).
  { unfold Q. replace e with (Z.succ (e - 1)) at 1 by lia. rewrite Z.pow_succ_r by lia. reflexivity. }
  assert (Hdivq : (N - 1) / q = R * q ^ (e - 1)).
  { rewrite HR, HQq. rewrite (Z.mul_comm q), Z.mul_assoc. apply Z.div_mul. lia. }
  assert (HAnot : (A ^ (q ^ (e - 1))) mod p <> 1).
  { intros H1. unfold A in H1. rewrite <- Z.pow_mul_r in H1 by (try lia; apply Z.pow_nonneg; lia).
    rewrite <- Hdivq in H1.
    set (x := a ^ ((N - 1) / q)) in *.
    (* p | x - 1, hence p | x mod N - 1, hence p | gcd = 1 *)
    assert (Hpx : (p | x - 1)).
    { apply Z.mod_divide; [lia|]. rewrite Zminus_mod, H1, Z.mod_1_l by lia. reflexivity. }
    assert (Hpxm : (p | x mod N - 1)).
    { rewrite Z.mod_eq by lia. replace (x - N * (x / N) - 1) with ((x - 1) - N * (x / N)) by ring.
      apply Z.divide_sub_r; [assumption|]. apply Z.divide_mul_l. assumption. }
    assert (Hpg : (p | Z.gcd (x mod N - 1) N)) by (apply Z.gcd_greatest; assumption).
    rewrite Hg in Hpg. apply Z.divide_1_r_nonneg in Hpg; lia. }
  (* A is invertible mod p, Fermat applies to A mod p *)
  assert (HAp : (A ^ (p - 1)) mod p = 1).
  { rewrite Zpower_mod by lia.
    assert (HAm : 0 < A mod p < p).
    { pose proof (Z.mod_pos_bound A p ltac:(lia)) as Hb.
      assert (A mod p <> 0); [|lia].
      intros H0. rewrite Zpower_mod in HAQ by lia. rewrite H0 in HAQ.
      rewrite Z.pow_0_l in HAQ by lia. rewrite Z.mod_0_l in HAQ by lia. discriminate. }
    apply fermat_little; assumption. }
  (* g = gcd(Q, p-1): A^g = 1 mod p *)
  destruct (bezout_pos Q (p - 1) HQpos ltac:(lia)) as (u & v & Hu & Hv & Huv).
  set (g := Z.gcd Q (p - 1)) in *.
  assert (Hgpos : 0 < g).
  { unfold g. pose proof (Z.gcd_nonneg Q (p - 1)). assert (Z.gcd Q (p - 1) <> 0); [|lia].
    intros H0. apply Z.gcd_eq_0_l in H0. lia. }
  assert (HAg : (A ^ g) mod p = 1).
  { assert (H1 : (A ^ (u * Q)) mod p = 1).
    { rewrite Z.mul_comm, Z.pow_mul_r by lia. apply pow_mod_one; [lia|assumption|assumption]. }
    rewrite Huv in H1. rewrite Z.pow_add_r in H1; [|lia|apply Z.mul_nonneg_nonneg; lia].
    rewrite Z.mul_comm in H1. rewrite mul_mod_one in H1; [assumption|lia|].
    rewrite Z.mul_comm, Z.pow_mul_r by lia. apply pow_mod_one; [lia|assumption|assumption]. }
  assert (HgQ : (g | Q)) by apply Z.gcd_divide_l.
  destruct (divisor_prime_power q Hq e ltac:(lia) g Hgpos HgQ) as [Heq|[_ [c Hc]]].
  - fold Q in Heq. rewrite <- Heq. apply Z.gcd_divide_r.
  - exfalso. apply HAnot. rewrite Hc.
    assert (Hcnn : 0 <= c).
    { apply (mul_pos_cancel c g (q ^ (e - 1))); [exact Hgpos|apply Z.pow_pos_nonneg; lia|exact Hc]. }
    rewrite Z.mul_comm, Z.pow_mul_r by lia. apply pow_mod_one; [lia|assumption|assumption].
Qed.

(* ---------- the executable check ---------- *)

Definition item := (Z * Z * Z)%type.     (* (q, e, a) *)

Definition item_ok (N : Z) (it : item) : bool :=
  let '(q, e, a) := it in
  (0 <? e) && ((N - 1) mod (q ^ e) =? 0) && (Zpow_mod a (N - 1) N =? 1) &&
  (Z.gcd (Zpow_mod a ((N - 1) / q) N - 1) N =? 1).

(* product of the prime powers, or 0 when two of them are not coprime *)
Fixpoint coprime_prod (items : list item) : Z :=
  match items with
  | [] => 1
  | (q, e, _) :: rest => let r := coprime_prod rest in if Z.gcd (q ^ e) r =? 1 then q ^ e * r else 0
  end.

Definition pock_check (N : Z) (items : list item) : bool :=
  (1 <? N) && forallb (item_ok N) items && (let F := coprime_prod items in N <? F * F).

Lemma coprime_prod_divides N items p :
  1 < N -> prime p -> (p | N) -> (forall q e a, In (q, e, a) items -> prime q) ->
  forallb (item_ok N) items = true -> 0 < coprime_prod items -> (coprime_prod items | p - 1).
Proof.
  intros HN Hp HpN. induction items as [|[[q e] a] rest IH]; intros Hpr Hall Hpos; cbn [coprime_prod] in *.
  - apply Z.divide_1_l.
  - cbn [forallb] in Hall. apply andb_prop in Hall. destruct Hall as [Hit Hrest].
    destruct (Z.gcd (q ^ e) (coprime_prod rest) =? 1) eqn:Hg; [|lia].
    apply Z.eqb_eq in Hg.
    assert (Hq : prime q) by (apply (Hpr q e a); left; reflexivity).
    assert (Hq2 : 2 <= q) by (apply prime_ge_2; assumption).
    unfold item_ok in Hit.
    apply andb_prop in Hit. destruct Hit as [Hit H4]. apply andb_prop in Hit. destruct Hit as [Hit H3].
    apply andb_prop in Hit. destruct Hit as [H1 H2].
    apply Z.ltb_lt in H1. apply Z.eqb_eq in H2, H3, H4.
    assert (HQpos : 0 < q ^ e) by (apply Z.pow_pos_nonneg; lia).
    assert (Hrpos : 0 < coprime_prod rest) by nia.
    assert (HQ : (q ^ e | p - 1)).
    { apply (pock_core N p q e a); try assumption.
      - apply Z.mod_divide; [lia|assumption].
      - rewrite <- Zpow_mod_correct by lia. assumption.
      - rewrite <- Zpow_mod_correct by lia. assumption. }
    assert (HR : (coprime_prod rest | p - 1)).
    { apply IH; [|assumption|assumption]. intros q' e' a' Hin. apply (Hpr q' e' a'). right; assumption. }
    destruct HR as [k Hk]. rewrite Hk in HQ |- *.
    assert (Hk' : (q ^ e | k)).
    { apply Gauss with (coprime_prod rest).
      - rewrite Z.mul_comm. assumption.
      - apply Zgcd_1_rel_prime. assumption. }
    destruct Hk' as [j Hj]. exists j. rewrite Hj. ring.
Qed.

Lemma coprime_prod_nonneg items : (forall q e a, In (q, e, a) items -> prime q) -> 0 <= coprime_prod items.
Proof.
  induction items as [|[[q e] a] rest IH]; intros Hpr; cbn [coprime_prod]; [lia|].
  destruct (Z.gcd (q ^ e) (coprime_prod rest) =? 1); [|lia].
  assert (Hq : prime q) by (apply (Hpr q e a); left; reflexivity).
  assert (Hq2 : 2 <= q) by (apply prime_ge_2; assumption).
  assert (0 <= q ^ e) by (apply Z.pow_nonneg; lia).
  assert (0 <= coprime_prod rest).
  { apply IH. intros q' e' a' Hin. apply (Hpr q' e' a'). right; assumption. }
  nia.
Qed.

Theorem pocklington N items :
  pock_check N items = true -> (forall q e a, In (q, e, a) items -> prime q) -> prime N.
Proof.
  intros Hc Hpr. unfold pock_check in Hc.
  apply andb_prop in Hc. destruct Hc as [Hc HF]. apply andb_prop in Hc. destruct Hc as [HN Hall].
  apply Z.ltb_lt in HN. apply Z.ltb_lt in HF.
  destruct (prime_dec N) as [H|Hnp]; [assumption|exfalso].
  destruct (small_prime_divisor N HN Hnp) as (p & Hp & HpN & Hpp).
  assert (Hp2 : 2 <= p) by (apply prime_ge_2; assumption).
  pose proof (coprime_prod_nonneg items Hpr) as HF0.
  set (F := coprime_prod items) in *.
  assert (HFpos : 0 < F) by nia.
  assert (Hdiv : (F | p - 1)) by (apply (coprime_prod_divides N items p); assumption).
  assert (F <= p - 1) by (apply Z.divide_pos_le; [lia|assumption]).
  nia.
Qed.

(* ---------- small primes by trial division ---------- *)

Definition trial_divisors (n : Z) : list Z := map Z.of_nat (seq 2 (Z.to_nat (Z.sqrt n) - 1)).

Definition trialb (n : Z) : bool :=
  if (1 <? n) && (n <? 2 ^ 24) then forallb (fun d => negb (n mod d =? 0)) (trial_divisors n) else false.
(* `if`, not `&&`: vm_compute is call-by-value and must not build the divisor list of a 256-bit number *)

Lemma trialb_sound n : trialb n = true -> prime n.
Proof.
  unfold trialb. intros Hall. destruct ((1 <? n) && (n <? 2 ^ 24)) eqn:H; [|discriminate].
  apply andb_prop in H. destruct H as [H1 _].
  apply Z.ltb_lt in H1.
  destruct (prime_dec n) as [Hp|Hnp]; [assumption|exfalso].
  destruct (small_prime_divisor n H1 Hnp) as (p & Hp & Hpn & Hpp).
  assert (Hp2 : 2 <= p) by (apply prime_ge_2; assumption).
  assert (Hps : p <= Z.sqrt n).
  { apply Z.sqrt_le_square; lia. }
  rewrite forallb_forall in Hall.
  assert (Hin : In p (trial_divisors n)).
  { unfold trial_divisors. apply in_map_iff. exists (Z.to_nat p). split; [apply Z2Nat.id; lia|].
    apply in_seq. split; [lia|]. lia. }
  specialize (Hall p Hin). apply negb_true_iff in Hall. apply Z.eqb_neq in Hall.
  apply Hall. apply Z.mod_divide; [lia|assumption].
Qed.

(* ---------- chains ---------- *)

Definition known (acc : list Z) (q : Z) : bool := trialb q || existsb (Z.eqb q) acc.

Fixpoint check_chain (acc : list Z) (cs : list (Z * list item)) : bool :=
  match cs with
  | [] => true
  | (N, items) :: rest =>
      pock_check N items && forallb (fun it => known acc (fst (fst it))) items && check_chain (N :: acc) rest
  end.

Lemma known_sound acc q : Forall prime acc -> known acc q = true -> prime q.
Proof.
  intros Hacc H. unfold known in H. apply orb_prop in H. destruct H as [H|H].
  - apply trialb_sound; assumption.
  - apply existsb_exists in H. destruct H as (x & Hin & Hx). apply Z.eqb_eq in Hx. subst x.
    rewrite Forall_forall in Hacc. apply Hacc; assumption.
Qed.

Theorem check_chain_sound : forall cs acc, Forall prime acc -> check_chain acc cs = true -> Forall prime (map fst cs).
Proof.
  induction cs as [|[N items] rest IH]; intros acc Hacc H; cbn [map fst check_chain] in *; [constructor|].
  apply andb_prop in H. destruct H as [H Hrest]. apply andb_prop in H. destruct H as [Hpc Hkn].
  assert (HN : prime N).
  { apply (pocklington N items Hpc). intros q e a Hin. rewrite forallb_forall in Hkn.
    specialize (Hkn _ Hin). cbn [fst] in Hkn. apply (known_sound acc); assumption. }
  constructor; [assumption|]. apply (IH (N :: acc)); [constructor; assumption|assumption].
Qed.

Corollary chain_last_prime cs N : check_chain [] cs = true -> In N (map fst cs) -> prime N.
Proof.
  intros H Hin. pose proof (check_chain_sound cs [] (Forall_nil _) H) as HF. rewrite Forall_forall in HF. apply HF; assumption.
Qed.
