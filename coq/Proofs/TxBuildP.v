(* Proofs/TxBuildP.v — lemmas about Model/TxBuild.v (property C13). *)
From PV Require Import Base.Bytes Base.Outcome Gen.GenTxBuild Model.TxBuild.
From Coq Require Import ZifyBool ZifyNat.
Local Open Scope Z_scope.
Ltac Zify.zify_post_hook ::= Z.to_euclidean_division_equations.

(* the table generator found every constant in the shape it expects (see harness/gens/c13.py) *)
Lemma gen_c13_shape : gen_c13_shape_ok = true.
Proof. reflexivity. Qed.

(* ---- sums ---------------------------------------------------------------------------------- *)
Lemma zsum_app a b : zsum (a ++ b) = zsum a + zsum b.
Proof. induction a as [|x a IH]; cbn [zsum fold_right app] in *; [reflexivity|]. unfold zsum in *. lia. Qed.

Lemma zsum_repeat x n : zsum (repeat x n) = x * Z.of_nat n.
Proof.
  induction n as [|n IH]; [cbn; lia|].
  change (repeat x (S n)) with (x :: repeat x n).
  change (zsum (x :: repeat x n)) with (x + zsum (repeat x n)). rewrite IH. lia.
Qed.

Lemma zsum_cons x l : zsum (x :: l) = x + zsum l.
Proof. reflexivity. Qed.

(* ---- split_with_remainder ------------------------------------------------------------------- *)
Definition split_list (total k : Z) : list Z :=
  repeat (total / k + 1) (Z.to_nat (total mod k)) ++ repeat (total / k) (Z.to_nat (k - total mod k)).

Lemma split_ret total k : k <> 0 -> split_with_remainder total k = Ret (split_list total k).
Proof. intros H. unfold split_with_remainder, split_list. destruct (Z.eqb_spec k 0); [contradiction|reflexivity]. Qed.

Lemma split_zero total k : split_with_remainder total k = Raise E_OTHER <-> k = 0.
Proof.
  unfold split_with_remainder. destruct (Z.eqb_spec k 0); split; intros; try discriminate; auto; contradiction.
Qed.

Lemma split_list_length total k : 0 < k -> Z.of_nat (length (split_list total k)) = k.
Proof.
  intros Hk. unfold split_list. rewrite app_length, !repeat_length.
  pose proof (Z.mod_pos_bound total k Hk). lia.
Qed.

Lemma split_list_sum total k : 0 < k -> zsum (split_list total k) = total.
Proof.
  intros Hk. unfold split_list. rewrite zsum_app, !zsum_repeat.
  pose proof (Z.mod_pos_bound total k Hk) as Hb.
  rewrite !Z2Nat.id by lia.
  pose proof (Z.div_mod total k ltac:(lia)) as Hd.
  set (q := total / k) in *. set (r := total mod k) in *. nia.
Qed.

Lemma nth_repeat_lt' (x d : Z) n i : (i < n)%nat -> nth i (repeat x n) d = x.
Proof.
  revert i; induction n as [|n IH]; intros i Hi; [lia|].
  destruct i; cbn [repeat nth]; [reflexivity|]. apply IH. lia.
Qed.

Lemma nth_repeat_app (x y : Z) n m i :
  (i < n + m)%nat -> nth i (repeat x n ++ repeat y m) 0 = if (i <? n)%nat then x else y.
Proof.
  intros Hi. destruct (Nat.ltb_spec i n) as [H|H].
  - rewrite app_nth1 by (rewrite repeat_length; exact H). apply nth_repeat_lt'. exact H.
  - rewrite app_nth2 by (rewrite repeat_length; exact H). rewrite repeat_length.
    apply nth_repeat_lt'. lia.
Qed.

Lemma split_list_nth total k i : 0 < k -> Z.of_nat i < k ->
  nth i (split_list total k) 0 = total / k + (if Z.of_nat i <? total mod k then 1 else 0).
Proof.
  intros Hk Hi. unfold split_list.
  pose proof (Z.mod_pos_bound total k Hk) as Hb.
  rewrite nth_repeat_app by lia.
  destruct (Nat.ltb_spec i (Z.to_nat (total mod k))); destruct (Z.ltb_spec (Z.of_nat i) (total mod k)); lia.
Qed.

(* the full specification of the split, for k > 0 *)
Lemma split_spec total k : 0 < k ->
  exists l, split_with_remainder total k = Ret l /\
    zsum l = total /\ Z.of_nat (length l) = k /\
    (forall i, (i < length l)%nat ->
       nth i l 0 = total / k + (if Z.of_nat i <? total mod k then 1 else 0)) /\
    (forall i j, (i <= j < length l)%nat -> nth j l 0 <= nth i l 0 <= nth j l 0 + 1).
Proof.
  intros Hk. exists (split_list total k).
  pose proof (split_list_length total k Hk) as HL.
  split; [apply split_ret; lia|]. split; [apply split_list_sum; exact Hk|]. split; [exact HL|].
  split.
  - intros i Hi. apply split_list_nth; lia.
  - intros i j Hij. rewrite !split_list_nth by lia.
    destruct (Z.ltb_spec (Z.of_nat i) (total mod k)); destruct (Z.ltb_spec (Z.of_nat j) (total mod k)); lia.
Qed.

Lemma split_list_ge1 total k : 0 < k -> k <= total -> Forall (fun v => 1 <= v) (split_list total k).
Proof.
  intros Hk Ht. unfold split_list. apply Forall_app.
  assert (1 <= total / k) by (apply Z.div_le_lower_bound; lia).
  split; apply Forall_forall; intros x Hx; apply repeat_spec in Hx; lia.
Qed.

Lemma split_list_ge0 total k : 0 < k -> 0 <= total -> Forall (fun v => 0 <= v) (split_list total k).
Proof.
  intros Hk Ht. unfold split_list. apply Forall_app.
  assert (0 <= total / k) by (apply Z.div_pos; lia).
  split; apply Forall_forall; intros x Hx; apply repeat_spec in Hx; lia.
Qed.

(* ---- fill_zero ------------------------------------------------------------------------------ *)
(* the values that ended up in the pool positions (outputs whose value was 0 in `orig`) *)
Fixpoint pool_values (orig new : list txout) : list Z :=
  match orig, new with
  | o :: r, o' :: r' => if is_zero_out o then o_value o' :: pool_values r r' else pool_values r r'
  | _, _ => []
  end.

(* what may happen to one output: script kept; a fixed (non-zero) output is untouched *)
Definition out_preserved (o o' : txout) : Prop :=
  o_script o' = o_script o /\ (o_value o <> 0 -> o' = o).

Lemma fill_zero_length outs vals : length (fill_zero outs vals) = length outs.
Proof.
  revert vals; induction outs as [|o r IH]; intros vals; cbn [fill_zero length]; [reflexivity|].
  destruct (is_zero_out o); [destruct vals|]; cbn [length]; rewrite IH; reflexivity.
Qed.

Lemma fill_zero_pool outs vals : length vals = length (filter is_zero_out outs) ->
  pool_values outs (fill_zero outs vals) = vals.
Proof.
  revert vals; induction outs as [|o r IH]; intros vals H; cbn [fill_zero filter pool_values length] in *.
  - destruct vals; [reflexivity|discriminate].
  - destruct (is_zero_out o) eqn:E.
    + destruct vals as [|v vs]; cbn [length] in H; [discriminate|].
      cbn [pool_values]. try rewrite E. cbn [o_value]. f_equal. apply IH. lia.
    + cbn [pool_values]. try rewrite E. apply IH. exact H.
Qed.

Lemma fill_zero_sum outs vals : length vals = length (filter is_zero_out outs) ->
  zsum (map o_value (fill_zero outs vals)) = zsum (map o_value outs) + zsum vals.
Proof.
  revert vals; induction outs as [|o r IH]; intros vals H; cbn [fill_zero filter length map] in *.
  - destruct vals; [reflexivity|discriminate].
  - destruct (is_zero_out o) eqn:E.
    + destruct vals as [|v vs]; cbn [length] in H; [discriminate|].
      cbn [map o_value]. rewrite !zsum_cons, IH by lia. unfold is_zero_out in E. lia.
    + cbn [map]. rewrite !zsum_cons, IH by exact H. lia.
Qed.

Lemma fill_zero_preserved outs vals : Forall2 out_preserved outs (fill_zero outs vals).
Proof.
  revert vals; induction outs as [|o r IH]; intros vals; cbn [fill_zero]; [constructor|].
  destruct (is_zero_out o) eqn:E.
  - unfold is_zero_out in E. destruct vals as [|v vs]; constructor; try apply IH; split; cbn; auto; lia.
  - constructor; [split; auto|apply IH].
Qed.

(* ---- sum_unspents ---------------------------------------------------------------------------- *)
Lemma sum_unspents_some l : sum_unspents (map Some l) = Ret (zsum (map o_value l)).
Proof.
  induction l as [|u r IH]; [reflexivity|]. cbn [map sum_unspents]. rewrite IH. reflexivity.
Qed.

Lemma sum_unspents_ret us v : sum_unspents us = Ret v ->
  exists l, us = map Some l /\ v = zsum (map o_value l).
Proof.
  revert v; induction us as [|[u|] r IH]; intros v H; cbn [sum_unspents] in H.
  - exists []. inversion H. split; reflexivity.
  - destruct (sum_unspents r) as [s| |] eqn:E; cbn [bind] in H; try discriminate.
    destruct (IH s eq_refl) as [l [-> ->]]. exists (u :: l). inversion H. split; reflexivity.
  - discriminate.
Qed.

Lemma sum_unspents_cases us :
  (exists l, us = map Some l /\ sum_unspents us = Ret (zsum (map o_value l))) \/
  (In None us /\ sum_unspents us = Raise E_ATTR).
Proof.
  induction us as [|[u|] r IH].
  - left. exists []. split; reflexivity.
  - destruct IH as [[l [-> H]]|[Hin H]].
    + left. exists (u :: l). split; [reflexivity|]. cbn [sum_unspents]. rewrite H. reflexivity.
    + right. split; [right; exact Hin|]. cbn [sum_unspents]. rewrite H. reflexivity.
  - right. split; [left; reflexivity|reflexivity].
Qed.

(* ---- distribute_from_split_pool --------------------------------------------------------------- *)
Section Dist.
Variable bc : tx -> Z.

Lemma zero_count_nonneg outs : 0 <= zero_count_of outs.
Proof. unfold zero_count_of. lia. Qed.

(* normal return with a non-empty pool *)
Lemma distribute_ret t fe t' zc :
  distribute_from_split_pool bc t fe = Ret (t', zc) -> 0 < zero_count_of (t_outs t) ->
  exists total vals,
    sum_unspents (t_unspents t) = Ret total /\
    zc = zero_count_of (t_outs t) /\
    zc <= total - (total_out t + fee_value bc t fe) /\
    split_with_remainder (total - (total_out t + fee_value bc t fe)) zc = Ret vals /\
    t' = set_outs t (fill_zero (t_outs t) vals) /\
    total_out t' + fee_value bc t fe = total /\
    pool_values (t_outs t) (t_outs t') = vals /\
    Forall (fun v => 1 <= v) vals /\
    Forall2 out_preserved (t_outs t) (t_outs t').
Proof.
  intros H Hz. unfold distribute_from_split_pool in H.
  destruct (Z.ltb_spec 0 (zero_count_of (t_outs t))) as [_|]; [|lia].
  destruct (sum_unspents (t_unspents t)) as [total| |] eqn:Es; cbn [bind] in H; try discriminate.
  set (rem := total - (total_out t + fee_value bc t fe)) in *.
  destruct (Z.ltb_spec rem 0); [discriminate|].
  destruct (Z.ltb_spec rem (zero_count_of (t_outs t))); [discriminate|].
  rewrite split_ret in H by lia. cbn [bind] in H. inversion H; subst t' zc; clear H.
  set (k := zero_count_of (t_outs t)) in *.
  assert (HL : length (split_list rem k) = length (filter is_zero_out (t_outs t))).
  { pose proof (split_list_length rem k Hz). unfold k, zero_count_of in *. lia. }
  exists total, (split_list rem k).
  repeat split; auto.
  - apply split_ret. lia.
  - unfold total_out, set_outs; cbn [t_outs]. rewrite fill_zero_sum by exact HL.
    rewrite split_list_sum by exact Hz. unfold rem, total_out. lia.
  - cbn [set_outs t_outs]. apply fill_zero_pool. exact HL.
  - apply split_list_ge1; lia.
  - cbn [set_outs t_outs]. apply fill_zero_preserved.
Qed.

(* empty pool: nothing happens *)
Lemma distribute_no_pool t fe : zero_count_of (t_outs t) = 0 ->
  distribute_from_split_pool bc t fe = Ret (t, 0).
Proof.
  intros H. unfold distribute_from_split_pool. rewrite H. reflexivity.
Qed.

(* ValueError exactly at the boundary the code tests *)
Lemma distribute_value_error_iff t fe :
  distribute_from_split_pool bc t fe = Raise E_VALUE <->
  (0 < zero_count_of (t_outs t) /\
   exists total, sum_unspents (t_unspents t) = Ret total /\
     let remaining := total - (total_out t + fee_value bc t fe) in
     (remaining < 0 \/ remaining < zero_count_of (t_outs t))).
Proof.
  unfold distribute_from_split_pool. split.
  - intros H. destruct (Z.ltb_spec 0 (zero_count_of (t_outs t))) as [Hz|]; [|discriminate].
    split; [exact Hz|].
    destruct (sum_unspents_cases (t_unspents t)) as [[l [_ Es]]|[_ Es]]; rewrite Es in H; cbn [bind] in H;
      [|discriminate].
    rewrite Es. exists (zsum (map o_value l)). split; [reflexivity|]. cbn zeta.
    set (total := zsum (map o_value l)) in *.
    set (rem := total - (total_out t + fee_value bc t fe)) in *.
    destruct (Z.ltb_spec rem 0); [left; lia|].
    destruct (Z.ltb_spec rem (zero_count_of (t_outs t))); [right; lia|].
    rewrite split_ret in H by lia. discriminate.
  - intros [Hz [total [Es Hr]]]. cbn zeta in Hr.
    destruct (Z.ltb_spec 0 (zero_count_of (t_outs t))); [|lia].
    rewrite Es. cbn [bind].
    set (rem := total - (total_out t + fee_value bc t fe)) in *.
    destruct (Z.ltb_spec rem 0); [reflexivity|].
    destruct (Z.ltb_spec rem (zero_count_of (t_outs t))); [reflexivity|lia].
Qed.

(* every possible outcome *)
Lemma distribute_outcomes t fe :
  (exists t' zc, distribute_from_split_pool bc t fe = Ret (t', zc)) \/
  distribute_from_split_pool bc t fe = Raise E_VALUE \/
  (distribute_from_split_pool bc t fe = Raise E_ATTR /\ In None (t_unspents t) /\ 0 < zero_count_of (t_outs t)).
Proof.
  unfold distribute_from_split_pool.
  destruct (Z.ltb_spec 0 (zero_count_of (t_outs t))) as [Hz|]; [|left; eauto].
  destruct (sum_unspents_cases (t_unspents t)) as [[l [_ ->]]|[Hin ->]]; cbn [bind].
  - set (rem := _ - _).
    destruct (Z.ltb_spec rem 0); [right; left; reflexivity|].
    destruct (Z.ltb_spec rem (zero_count_of (t_outs t))); [right; left; reflexivity|].
    rewrite split_ret by lia. cbn [bind]. left; eauto.
  - right; right. auto.
Qed.

(* ---- create_tx -------------------------------------------------------------------------------- *)
(* the transaction create_tx hands to distribute_from_split_pool *)
Definition initial_tx (sps : list spendable) (pays : list payable) (lock_time version : Z) : tx :=
  mk_tx version (map spendable_tx_in sps) (map payable_txout pays) lock_time
        (map (fun s => Some (spendable_as_txout s)) sps).

Lemma create_tx_unfold sps pays fe lt ver :
  create_tx bc sps pays fe lt ver =
  bind (distribute_from_split_pool bc (initial_tx sps pays lt ver) fe) (fun r => Ret (fst r)).
Proof.
  unfold create_tx, set_unspents. cbn [t_ins]. rewrite !map_length, Nat.eqb_refl. reflexivity.
Qed.

Definition spendables_total (sps : list spendable) : Z := zsum (map s_value sps).
Definition payables_total (pays : list payable) : Z := zsum (map o_value (map payable_txout pays)).
Definition pool_size (pays : list payable) : Z := zero_count_of (map payable_txout pays).

Lemma initial_unspents_sum sps pays lt ver :
  sum_unspents (t_unspents (initial_tx sps pays lt ver)) = Ret (spendables_total sps).
Proof.
  cbn [initial_tx t_unspents].
  rewrite <- (map_map spendable_as_txout Some), sum_unspents_some, map_map. reflexivity.
Qed.

(* inputs and unspents of the result are those of the spendables, in order *)
Lemma create_tx_frame sps pays fe lt ver t :
  create_tx bc sps pays fe lt ver = Ret t ->
  t_ins t = map spendable_tx_in sps /\
  t_unspents t = map (fun s => Some (spendable_as_txout s)) sps /\
  t_version t = ver /\ t_lock_time t = lt /\
  Forall2 out_preserved (map payable_txout pays) (t_outs t).
Proof.
  rewrite create_tx_unfold. intros H.
  destruct (distribute_from_split_pool bc (initial_tx sps pays lt ver) fe) as [[t' zc]| |] eqn:E;
    cbn [bind fst] in H; try discriminate. inversion H; subst t'; clear H.
  destruct (Z.ltb_spec 0 (zero_count_of (t_outs (initial_tx sps pays lt ver)))) as [Hz|Hz].
  - destruct (distribute_ret _ _ _ _ E Hz) as [total [vals [_ [_ [_ [_ [-> [_ [_ [_ HP]]]]]]]]]].
    cbn [set_outs t_ins t_unspents t_version t_lock_time initial_tx]. repeat split; auto.
  - rewrite distribute_no_pool in E by (pose proof (zero_count_nonneg (t_outs (initial_tx sps pays lt ver))); lia).
    inversion E; subst t. cbn [initial_tx t_ins t_unspents t_version t_lock_time t_outs]. repeat split; auto.
    clear. induction (map payable_txout pays); constructor; auto. split; auto.
Qed.

Lemma create_tx_paired sps pays fe lt ver t :
  create_tx bc sps pays fe lt ver = Ret t ->
  length (t_ins t) = length sps /\ length (t_unspents t) = length sps /\
  forall i s, nth_error sps i = Some s ->
    exists tx_in,
      nth_error (t_ins t) i = Some tx_in /\
      i_hash tx_in = s_hash s /\ i_index tx_in = s_index s /\
      i_script tx_in = gen_txin_default_script /\ i_sequence tx_in = gen_txin_default_sequence /\
      nth_error (t_unspents t) i = Some (Some (mk_txout (s_value s) (s_script s))).
Proof.
  intros H. destruct (create_tx_frame _ _ _ _ _ _ H) as [Hi [Hu _]].
  rewrite Hi, Hu, !map_length. split; [reflexivity|]. split; [reflexivity|].
  intros i s Hs. exists (spendable_tx_in s).
  rewrite (map_nth_error _ _ _ Hs), (map_nth_error _ _ _ Hs). repeat split; reflexivity.
Qed.

Lemma create_tx_conserves sps pays fe lt ver t :
  create_tx bc sps pays fe lt ver = Ret t -> 0 < pool_size pays ->
  let f := fee_value bc (initial_tx sps pays lt ver) fe in
  let remaining := spendables_total sps - (payables_total pays + f) in
  total_out t + f = spendables_total sps /\
  pool_size pays <= remaining /\
  split_with_remainder remaining (pool_size pays) = Ret (pool_values (map payable_txout pays) (t_outs t)) /\
  Forall (fun v => 1 <= v) (pool_values (map payable_txout pays) (t_outs t)) /\
  Forall2 out_preserved (map payable_txout pays) (t_outs t).
Proof.
  rewrite create_tx_unfold. intros H Hz.
  destruct (distribute_from_split_pool bc (initial_tx sps pays lt ver) fe) as [[t' zc]| |] eqn:E;
    cbn [bind fst] in H; try discriminate. inversion H; subst t'; clear H.
  destruct (distribute_ret _ _ _ _ E Hz) as [total [vals [Hs [Hzc [Hle [Hsp [Ht [Hc [Hp [Hg HP]]]]]]]]]].
  rewrite initial_unspents_sum in Hs.
  assert (Ht' : total = spendables_total sps) by congruence. clear Hs. rewrite Ht' in *. clear Ht' total.
  cbn zeta. change (total_out (initial_tx sps pays lt ver)) with (payables_total pays) in *.
  change (zero_count_of (t_outs (initial_tx sps pays lt ver))) with (pool_size pays) in *.
  change (t_outs (initial_tx sps pays lt ver)) with (map payable_txout pays) in *.
  subst zc. rewrite Hp. repeat split; auto.
Qed.

Lemma create_tx_value_error_iff sps pays fe lt ver :
  create_tx bc sps pays fe lt ver = Raise E_VALUE <->
  (0 < pool_size pays /\
   let remaining := spendables_total sps
                    - (payables_total pays + fee_value bc (initial_tx sps pays lt ver) fe) in
   (remaining < 0 \/ remaining < pool_size pays)).
Proof.
  rewrite create_tx_unfold. split.
  - intros H.
    destruct (distribute_from_split_pool bc (initial_tx sps pays lt ver) fe) as [[t' zc]|e|] eqn:E;
      cbn [bind] in H; try discriminate. inversion H; subst e.
    apply distribute_value_error_iff in E. destruct E as [Hz [total [Hs Hr]]].
    rewrite initial_unspents_sum in Hs. inversion Hs; subst total. split; [exact Hz|exact Hr].
  - intros [Hz Hr].
    assert (E : distribute_from_split_pool bc (initial_tx sps pays lt ver) fe = Raise E_VALUE).
    { apply distribute_value_error_iff. split; [exact Hz|].
      exists (spendables_total sps). split; [apply initial_unspents_sum|exact Hr]. }
    rewrite E. reflexivity.
Qed.

(* the pool shares: one per unspecified payable, they add up to what is left, each at least one satoshi,
   they differ by at most one and the larger ones come first *)
Lemma create_tx_pool_shares sps pays fe lt ver t :
  create_tx bc sps pays fe lt ver = Ret t -> 0 < pool_size pays ->
  let shares := pool_values (map payable_txout pays) (t_outs t) in
  Z.of_nat (length shares) = pool_size pays /\
  zsum shares = spendables_total sps - (payables_total pays + fee_value bc (initial_tx sps pays lt ver) fe) /\
  Forall (fun v => 1 <= v) shares /\
  (forall i j, (i <= j < length shares)%nat -> nth j shares 0 <= nth i shares 0 <= nth j shares 0 + 1).
Proof.
  intros H Hz. destruct (create_tx_conserves _ _ _ _ _ _ H Hz) as [_ [_ [Hsp [Hg _]]]]. cbn zeta.
  destruct (split_spec (spendables_total sps - (payables_total pays + fee_value bc (initial_tx sps pays lt ver) fe))
              (pool_size pays) Hz) as [l [Hl [Hsum [Hlen [_ Hord]]]]].
  rewrite Hsp in Hl. inversion Hl; subst l. auto.
Qed.

(* create_tx returns a transaction or raises ValueError, nothing else *)
Lemma create_tx_outcomes sps pays fe lt ver :
  (exists t, create_tx bc sps pays fe lt ver = Ret t) \/ create_tx bc sps pays fe lt ver = Raise E_VALUE.
Proof.
  rewrite create_tx_unfold.
  destruct (distribute_outcomes (initial_tx sps pays lt ver) fe) as [[t' [zc ->]]|[->|[_ [Hin _]]]]; cbn [bind].
  - left; eauto.
  - right; reflexivity.
  - exfalso. cbn [initial_tx t_unspents] in Hin. apply in_map_iff in Hin. destruct Hin as [s [Hs _]]. discriminate.
Qed.
End Dist.

(* ---- total_in / fee ---------------------------------------------------------------------------- *)
Lemma existsb_seq_false f n : existsb f (seq 0 n) = false <-> forall i, (i < n)%nat -> f i = false.
Proof.
  split.
  - intros H i Hi. destruct (f i) eqn:E; [|reflexivity].
    assert (existsb f (seq 0 n) = true) by (apply existsb_exists; exists i; split; [apply in_seq; lia|exact E]).
    congruence.
  - intros H. destruct (existsb f (seq 0 n)) eqn:E; [|reflexivity].
    apply existsb_exists in E. destruct E as [i [Hi Hf]]. apply in_seq in Hi. rewrite H in Hf by lia. discriminate.
Qed.

Lemma all_some_list {A} (us : list (option A)) :
  (forall i, (i < length us)%nat -> exists a, nth_error us i = Some (Some a)) -> exists l, us = map Some l.
Proof.
  induction us as [|u r IH]; intros H.
  - exists []. reflexivity.
  - destruct (H 0%nat ltac:(cbn; lia)) as [a Ha]. cbn in Ha. inversion Ha; subst u.
    destruct IH as [l ->].
    { intros i Hi. apply (H (S i)). cbn. lia. }
    exists (a :: l). reflexivity.
Qed.

Lemma missing_unspents_false t : tx_is_coinbase t = false ->
  (missing_unspents t = false <->
   length (t_unspents t) = length (t_ins t) /\ exists l, t_unspents t = map Some l).
Proof.
  intros Hc. unfold missing_unspents. rewrite Hc. rewrite orb_false_iff, negb_false_iff, Nat.eqb_eq, existsb_seq_false.
  split.
  - intros [HL H]. split; [exact HL|]. apply all_some_list. intros i Hi.
    specialize (H i ltac:(lia)). unfold missing_unspent in H. rewrite Hc in H.
    destruct (nth_error (t_unspents t) i) as [[a|]|]; try discriminate. eauto.
  - intros [HL [l Hl]]. split; [exact HL|]. intros i Hi. unfold missing_unspent. rewrite Hc, Hl.
    destruct (nth_error (map Some l) i) as [[a|]|] eqn:E; [reflexivity| |].
    + apply nth_error_In, in_map_iff in E. destruct E as [x [Hx _]]. discriminate.
    + apply nth_error_None in E. rewrite <- Hl in E. lia.
Qed.

(* the definition of fee, both branches visible *)
Lemma fee_def t f :
  fee t = Ret f <-> exists ti, total_in t = Ret ti /\ f = ti - total_out t.
Proof.
  unfold fee. split.
  - intros H. destruct (total_in t) as [ti| |]; cbn [bind] in H; try discriminate.
    inversion H. eauto.
  - intros [ti [-> ->]]. reflexivity.
Qed.

Lemma total_in_noncoinbase t : tx_is_coinbase t = false ->
  forall v, total_in t = Ret v <->
    (length (t_unspents t) = length (t_ins t) /\
     exists l, t_unspents t = map Some l /\ v = zsum (map o_value l)).
Proof.
  intros Hc v. unfold total_in, check_unspents. rewrite Hc.
  pose proof (missing_unspents_false t Hc) as HM.
  destruct (missing_unspents t) eqn:E; cbn [bind].
  - split; [discriminate|]. intros [HL [l [Hl _]]].
    assert (true = false) by (apply HM; eauto). discriminate.
  - destruct (proj1 HM eq_refl) as [HL [l Hl]].
    assert (Hs : sum_unspents (t_unspents t) = Ret (zsum (map o_value l))) by (rewrite Hl; apply sum_unspents_some).
    rewrite Hs. split.
    + intros H. inversion H. split; [exact HL|]. exists l. split; [exact Hl|reflexivity].
    + intros [_ [l' [Hl' ->]]]. f_equal. rewrite Hl in Hl'.
      assert (l = l').
      { clear -Hl'. revert l' Hl'. induction l as [|a l IH]; intros [|b l'] H; cbn in H; try discriminate; auto.
        inversion H. f_equal. auto. }
      subst. reflexivity.
Qed.

Lemma total_in_coinbase t : tx_is_coinbase t = true ->
  total_in t = match t_outs t with o :: _ => Ret (o_value o) | [] => Raise E_INDEX end.
Proof. intros Hc. unfold total_in. rewrite Hc. reflexivity. Qed.

(* tx.fee() of a transaction built by create_tx with a non-empty pool is the requested fee *)
Lemma create_tx_fee bc sps pays fe lt ver t :
  create_tx bc sps pays fe lt ver = Ret t -> 0 < pool_size pays -> tx_is_coinbase t = false ->
  fee t = Ret (fee_value bc (initial_tx sps pays lt ver) fe).
Proof.
  intros H Hz Hc.
  destruct (create_tx_conserves bc _ _ _ _ _ _ H Hz) as [Hcons _].
  destruct (create_tx_frame bc _ _ _ _ _ _ H) as [Hi [Hu _]].
  apply fee_def. exists (spendables_total sps). split; [|lia].
  apply total_in_noncoinbase; [exact Hc|]. rewrite Hu, Hi, !map_length. split; [reflexivity|].
  exists (map spendable_as_txout sps). rewrite !map_map. split; reflexivity.
Qed.

(* ---- py_index ----------------------------------------------------------------------------------- *)
Lemma py_index_nonneg {A} (l : list A) i a : 0 <= i -> py_index l i = Ret a ->
  nth_error l (Z.to_nat i) = Some a /\ i < Z.of_nat (length l).
Proof.
  intros Hi. unfold py_index. destruct (Z.ltb_spec i 0); [lia|].
  destruct (Z.ltb_spec i 0); [lia|]. cbn [orb].
  destruct (Z.leb_spec (Z.of_nat (length l)) i); [discriminate|].
  destruct (nth_error l (Z.to_nat i)) eqn:E; [|discriminate]. intros HR; inversion HR; subst. split; [reflexivity|lia].
Qed.

Lemma py_index_in_range {A} (l : list A) i a : nth_error l (Z.to_nat i) = Some a -> 0 <= i ->
  py_index l i = Ret a.
Proof.
  intros E Hi. unfold py_index. destruct (Z.ltb_spec i 0); [lia|].
  destruct (Z.ltb_spec i 0); [lia|]. cbn [orb].
  assert (Z.to_nat i < length l)%nat by (apply nth_error_Some; congruence).
  destruct (Z.leb_spec (Z.of_nat (length l)) i); [lia|]. rewrite E. reflexivity.
Qed.

(* ---- validate_unspents ---------------------------------------------------------------------------- *)
Section DBP.
Variable srctx : Type.
Variable src_hash : srctx -> bytes.
Variable src_outs : srctx -> list txout.
Variable db : bytes -> option srctx.

(* input number k of the transaction is authenticated by the database:
   the database holds, under the input's hash, a transaction that really hashes to it, and the output the
   input points at carries exactly the recorded amount and script *)
Definition input_authenticated (unspents : list (option txout)) (k : nat) (i : txin) : Prop :=
  exists the_tx src_out recorded,
    db (i_hash i) = Some the_tx /\ src_hash the_tx = i_hash i /\
    py_index (src_outs the_tx) (i_index i) = Ret src_out /\
    nth_error unspents k = Some (Some recorded) /\
    o_value recorded = o_value src_out /\ o_script recorded = o_script src_out.

Lemma load_lookup_sound ins : load_lookup srctx src_hash db ins = Ret tt ->
  forall i, In i ins -> i_hash i <> gen_zero32 ->
  exists the_tx, db (i_hash i) = Some the_tx /\ src_hash the_tx = i_hash i.
Proof.
  induction ins as [|x r IH]; intros H i Hin Hnz; [destruct Hin|].
  cbn [load_lookup] in H.
  destruct (bytes_eqb (i_hash x) gen_zero32) eqn:Ez.
  - destruct Hin as [->|Hin]; [apply bytes_eqb_eq in Ez; contradiction|]. apply IH; auto.
  - destruct (db (i_hash x)) as [the_tx|] eqn:Ed; [|discriminate].
    destruct (bytes_eqb (src_hash the_tx) (i_hash x)) eqn:Eh; cbn [negb] in H; [|discriminate].
    destruct Hin as [->|Hin]; [|apply IH; auto].
    exists the_tx. split; [exact Ed|]. apply bytes_eqb_eq. exact Eh.
Qed.

Lemma check_inputs_sound unspents ins idx : check_inputs srctx src_outs db unspents ins idx = Ret tt ->
  (forall i, In i ins -> i_hash i <> gen_zero32 -> exists the_tx, db (i_hash i) = Some the_tx /\ src_hash the_tx = i_hash i) ->
  forall k i, nth_error ins k = Some i -> txin_is_coinbase i = false ->
    input_authenticated unspents (idx + k) i.
Proof.
  revert idx; induction ins as [|x r IH]; intros idx H HL k i Hk Hc; [destruct k; discriminate|].
  cbn [check_inputs] in H.
  assert (HL' : forall i, In i r -> i_hash i <> gen_zero32 -> exists the_tx, db (i_hash i) = Some the_tx /\ src_hash the_tx = i_hash i)
    by (intros; apply HL; [right|]; assumption).
  destruct k as [|k]; cbn [nth_error] in Hk.
  - inversion Hk; subst x; clear Hk. rewrite Hc in H.
    unfold tx_lookup in H.
    destruct (bytes_eqb (i_hash i) gen_zero32) eqn:Ez; cbn [bind] in H; [discriminate|].
    destruct (db (i_hash i)) as [the_tx|] eqn:Ed; cbn [bind] in H; [|discriminate].
    destruct (i_index i >? Z.of_nat (length (src_outs the_tx))); [discriminate|].
    destruct (py_index (src_outs the_tx) (i_index i)) as [o1| |] eqn:Ep; cbn [bind] in H; try discriminate.
    destruct (nth_error unspents idx) as [[o2|]|] eqn:Eu; cbn [bind] in H; try discriminate.
    destruct (Z.eqb_spec (o_value o1) (o_value o2)); cbn [negb] in H; [|discriminate].
    destruct (bytes_eqb (o_script o1) (o_script o2)) eqn:Es; cbn [negb] in H; [|discriminate].
    apply bytes_eqb_eq in Es.
    destruct (HL i (or_introl eq_refl)) as [t2 [Hd Hh]].
    { intros E. rewrite E, bytes_eqb_refl in Ez. discriminate. }
    rewrite Ed in Hd. inversion Hd; subst t2.
    exists the_tx, o1, o2. rewrite Nat.add_0_r. repeat split; auto.
  - assert (Hrest : check_inputs srctx src_outs db unspents r (S idx) = Ret tt).
    { destruct (txin_is_coinbase x); [exact H|].
      destruct (tx_lookup srctx db (i_hash x)) as [the_tx| |]; cbn [bind] in H; try discriminate.
      destruct (i_index x >? Z.of_nat (length (src_outs the_tx))); [discriminate|].
      destruct (py_index (src_outs the_tx) (i_index x)) as [o1| |]; cbn [bind] in H; try discriminate.
      destruct (nth_error unspents idx) as [[o2|]|]; cbn [bind] in H; try discriminate.
      destruct (negb (o_value o1 =? o_value o2)); [discriminate|].
      destruct (negb (bytes_eqb (o_script o1) (o_script o2))); [discriminate|]. exact H. }
    replace (idx + S k)%nat with (S idx + k)%nat by lia.
    apply (IH (S idx) Hrest HL' k i Hk Hc).
Qed.

(* soundness: a normal return authenticates every non-coinbase input and returns inputs - outputs *)
Lemma validate_unspents_sound t f :
  validate_unspents srctx src_hash src_outs db t = Ret f ->
  (forall k i, nth_error (t_ins t) k = Some i -> txin_is_coinbase i = false ->
     input_authenticated (t_unspents t) k i) /\
  fee t = Ret f.
Proof.
  unfold validate_unspents. intros H.
  destruct (load_lookup srctx src_hash db (t_ins t)) as [[]| |] eqn:EL; cbn [bind] in H; try discriminate.
  destruct (check_inputs srctx src_outs db (t_unspents t) (t_ins t) 0) as [[]| |] eqn:EC; cbn [bind] in H; try discriminate.
  split; [|exact H].
  intros k i Hk Hc.
  apply (check_inputs_sound _ _ 0%nat EC (load_lookup_sound _ EL) k i Hk Hc).
Qed.

(* for an ordinary (non-negative) index the authenticated output is the one at that position *)
Lemma input_authenticated_nonneg unspents k i : input_authenticated unspents k i -> 0 <= i_index i ->
  exists the_tx src_out recorded,
    db (i_hash i) = Some the_tx /\ src_hash the_tx = i_hash i /\
    nth_error (src_outs the_tx) (Z.to_nat (i_index i)) = Some src_out /\
    nth_error unspents k = Some (Some recorded) /\
    o_value recorded = o_value src_out /\ o_script recorded = o_script src_out.
Proof.
  intros [the_tx [o [u [H1 [H2 [H3 [H4 [H5 H6]]]]]]]] Hi.
  apply py_index_nonneg in H3; [|exact Hi]. destruct H3 as [H3 _].
  exists the_tx, o, u. repeat split; auto.
Qed.

(* completeness on well-formed data: every input non-coinbase and authenticated, one unspent per input *)
Lemma load_lookup_complete ins :
  (forall i, In i ins -> exists the_tx, db (i_hash i) = Some the_tx /\ src_hash the_tx = i_hash i) ->
  load_lookup srctx src_hash db ins = Ret tt.
Proof.
  induction ins as [|x r IH]; intros H; [reflexivity|]. cbn [load_lookup].
  rewrite IH by (intros; apply H; right; assumption).
  destruct (bytes_eqb (i_hash x) gen_zero32); [reflexivity|].
  destruct (H x (or_introl eq_refl)) as [the_tx [-> Hh]]. rewrite Hh, bytes_eqb_refl. reflexivity.
Qed.

Lemma check_inputs_complete unspents ins idx :
  (forall k i, nth_error ins k = Some i ->
     i_hash i <> gen_zero32 /\ 0 <= i_index i /\ input_authenticated unspents (idx + k) i) ->
  check_inputs srctx src_outs db unspents ins idx = Ret tt.
Proof.
  revert idx; induction ins as [|x r IH]; intros idx H; [reflexivity|]. cbn [check_inputs].
  assert (Hr : check_inputs srctx src_outs db unspents r (S idx) = Ret tt).
  { apply IH. intros k i Hk. replace (S idx + k)%nat with (idx + S k)%nat by lia. apply (H (S k) i Hk). }
  destruct (txin_is_coinbase x); [exact Hr|].
  destruct (H 0%nat x eq_refl) as [Hnz [Hi [the_tx [o [u [H1 [H2 [H3 [H4 [H5 H6]]]]]]]]]].
  rewrite Nat.add_0_r in H4.
  unfold tx_lookup. destruct (bytes_eqb (i_hash x) gen_zero32) eqn:Ez; [apply bytes_eqb_eq in Ez; contradiction|].
  rewrite H1. cbn [bind].
  pose proof (py_index_nonneg _ _ _ Hi H3) as [_ Hlt].
  destruct (Z.gtb_spec (i_index x) (Z.of_nat (length (src_outs the_tx)))); [lia|].
  rewrite H3, H4. cbn [bind]. rewrite H5, Z.eqb_refl, H6, bytes_eqb_refl. cbn [negb]. exact Hr.
Qed.

Lemma validate_unspents_complete t :
  (forall k i, nth_error (t_ins t) k = Some i ->
     i_hash i <> gen_zero32 /\ 0 <= i_index i /\ input_authenticated (t_unspents t) k i) ->
  validate_unspents srctx src_hash src_outs db t = fee t.
Proof.
  intros H. unfold validate_unspents.
  rewrite load_lookup_complete.
  - cbn [bind]. rewrite check_inputs_complete; [reflexivity|]. intros k i Hk. apply (H k i Hk).
  - intros i Hin. apply In_nth_error in Hin. destruct Hin as [k Hk].
    destruct (H k i Hk) as [_ [_ [the_tx [o [u [H1 [H2 _]]]]]]]. eauto.
Qed.
End DBP.

(* ==== the transaction as a mutable object: refused calls change nothing, histories ================== *)
Section StP.
Variable bc : tx -> Z.

(* the state-passing version agrees with the value-returning one; after a raise the object is the old one *)
Lemma distribute_st_spec t fe :
  distribute_from_split_pool_st bc t fe =
  match distribute_from_split_pool bc t fe with
  | Ret (t', zc) => (Ret zc, t')
  | Raise e => (Raise e, t)
  | OutOfFuel => (OutOfFuel, t)
  end.
Proof.
  unfold distribute_from_split_pool_st, distribute_from_split_pool.
  destruct (0 <? zero_count_of (t_outs t)); [|reflexivity].
  destruct (sum_unspents (t_unspents t)) as [total| |]; cbn [bind]; try reflexivity.
  destruct (_ <? 0); [reflexivity|].
  destruct (_ <? zero_count_of (t_outs t)); [reflexivity|].
  destruct (split_with_remainder _ _); reflexivity.
Qed.

Lemma distribute_st_refused t fe e :
  fst (distribute_from_split_pool_st bc t fe) = Raise e -> snd (distribute_from_split_pool_st bc t fe) = t.
Proof.
  rewrite distribute_st_spec.
  destruct (distribute_from_split_pool bc t fe) as [[t' zc]| |]; cbn [fst snd]; intros H; try discriminate; reflexivity.
Qed.

(* a refused distribution followed by another one behaves like the second one alone *)
Lemma distribute_st_retry t fe1 fe2 e :
  fst (distribute_from_split_pool_st bc t fe1) = Raise e ->
  distribute_from_split_pool_st bc (snd (distribute_from_split_pool_st bc t fe1)) fe2 =
  distribute_from_split_pool_st bc t fe2.
Proof. intros H. rewrite (distribute_st_refused _ _ _ H). reflexivity. Qed.

(* the ValueError of the state-passing version: exactly the boundary, and the transaction is untouched *)
Lemma distribute_st_value_error t fe :
  fst (distribute_from_split_pool_st bc t fe) = Raise E_VALUE <->
  (0 < zero_count_of (t_outs t) /\
   exists total, sum_unspents (t_unspents t) = Ret total /\
     let remaining := total - (total_out t + fee_value bc t fe) in
     (remaining < 0 \/ remaining < zero_count_of (t_outs t))).
Proof.
  rewrite <- distribute_value_error_iff. rewrite distribute_st_spec.
  destruct (distribute_from_split_pool bc t fe) as [[t' zc]| |]; cbn [fst]; split; intros H; try discriminate; inversion H; reflexivity.
Qed.

Variable srctx : Type.
Variable src_hash : srctx -> bytes.
Variable src_outs : srctx -> list txout.
Variable dbs : nat -> bytes -> option srctx.

Notation step := (step bc srctx src_hash src_outs dbs).
Notation run := (run bc srctx src_hash src_outs dbs).

(* every refused call — any operation, any exception class — leaves the object as it was *)
Lemma step_refused o t e : fst (step o t) = Raise e -> snd (step o t) = t.
Proof.
  destruct o; cbn [TxBuild.step fst snd]; try reflexivity; try discriminate.
  - unfold set_unspents_st. destruct (negb _); cbn; [reflexivity|discriminate].
  - unfold unspents_from_db_st. destruct (unspents_from_db_list _ _ _ _ _ _); cbn; try reflexivity; discriminate.
  - unfold edit_unspent_st. destruct (nth_error _ _) as [[u|]|]; cbn; try reflexivity; discriminate.
  - unfold edit_out_st. destruct (nth_error _ _); cbn; [discriminate|reflexivity].
  - apply distribute_st_refused.
Qed.

(* observers never change the object *)
Lemma step_observer o t : is_observer o = true -> snd (step o t) = t.
Proof. destruct o; cbn; intros H; try discriminate; reflexivity. Qed.

(* ... and what they report is a function of the current fields only *)
Lemma step_observer_value o t : is_observer o = true ->
  fst (step o t) =
  match o with
  | ObsTotalIn => total_in t
  | ObsTotalOut => Ret (total_out t)
  | ObsFee => fee t
  | ObsIsCoinbase => b2o (tx_is_coinbase t)
  | ObsValidate k => validate_unspents srctx src_hash src_outs (dbs k) t
  | _ => Ret 0
  end.
Proof. destruct o; cbn; intros H; try discriminate; reflexivity. Qed.

Definition is_mutator (o : op) : bool := negb (is_observer o).

Lemma run_cons o h t :
  run (o :: h) t = (fst (step o t) :: fst (run h (snd (step o t))), snd (run h (snd (step o t)))).
Proof. cbn [TxBuild.run]. destruct (step o t) as [res t1]. cbn [fst snd]. destruct (run h t1) as [rs t2]. reflexivity. Qed.

Lemma run_app h1 h2 t :
  run (h1 ++ h2) t = (fst (run h1 t) ++ fst (run h2 (snd (run h1 t))), snd (run h2 (snd (run h1 t)))).
Proof.
  revert t; induction h1 as [|o h1 IH]; intros t; [cbn; destruct (run h2 t); reflexivity|].
  rewrite <- app_comm_cons, !run_cons, IH. reflexivity.
Qed.

(* history independence: the state after a history is the state after its mutators alone — the
   observer calls made on the way (fee, total_in, validate_unspents, ...) leave no trace *)
Lemma run_state_mutators_only h t : snd (run h t) = snd (run (filter is_mutator h) t).
Proof.
  revert t; induction h as [|o h IH]; intros t; [reflexivity|].
  rewrite run_cons. cbn [snd filter]. unfold is_mutator at 1.
  destruct (is_observer o) eqn:E; cbn [negb].
  - rewrite step_observer by exact E. apply IH.
  - rewrite run_cons. cbn [snd]. apply IH.
Qed.

(* so an observation made after any history equals the observation made on the transaction reached by the
   mutators alone (a "freshly built equal transaction": in the model a transaction IS its fields) *)
Lemma observation_history_independent h t o :
  fst (step o (snd (run h t))) = fst (step o (snd (run (filter is_mutator h) t))).
Proof. rewrite <- run_state_mutators_only. reflexivity. Qed.

(* refused calls can be dropped from a history as well *)
Definition accepted_at (o : op) (t : tx) : bool :=
  match fst (step o t) with Raise _ => false | _ => true end.

Fixpoint drop_refused (h : list op) (t : tx) : list op :=
  match h with
  | [] => []
  | o :: r => if accepted_at o t then o :: drop_refused r (snd (step o t)) else drop_refused r t
  end.

Lemma run_state_drop_refused h t : snd (run h t) = snd (run (drop_refused h t) t).
Proof.
  revert t; induction h as [|o h IH]; intros t; [reflexivity|].
  rewrite run_cons. cbn [snd drop_refused]. unfold accepted_at.
  destruct (fst (step o t)) as [v|e|] eqn:E.
  - rewrite run_cons. cbn [snd]. apply IH.
  - rewrite (step_refused _ _ _ E). apply IH.
  - rewrite run_cons. cbn [snd]. apply IH.
Qed.

(* unspents_from_db followed by validate_unspents against the same database: for a transaction whose inputs
   are all ordinary (not coinbase, hash not null) validation succeeds with the fee computed from the loaded outputs *)
Lemma unspents_from_db_list_spec db im ins us :
  unspents_from_db_list srctx src_hash src_outs db im ins = Ret us ->
  length us = length ins /\
  forall k i, nth_error ins k = Some i -> txin_is_coinbase i = false ->
    match nth_error us k with
    | Some (Some o) => exists the_tx, db (i_hash i) = Some the_tx /\ src_hash the_tx = i_hash i /\
                                      py_index (src_outs the_tx) (i_index i) = Ret o
    | Some None => im = true
    | None => False
    end.
Proof.
  revert us; induction ins as [|x r IH]; intros us H; cbn [unspents_from_db_list] in H.
  - inversion H. split; [reflexivity|]. intros [|k] i Hk; discriminate.
  - assert (Hmiss : forall us0, (if im then bind (unspents_from_db_list srctx src_hash src_outs db im r) (fun us => Ret (None :: us)) else Raise E_KEY) = Ret us0 ->
        im = true /\ exists us', unspents_from_db_list srctx src_hash src_outs db im r = Ret us' /\ us0 = None :: us').
    { intros us0 H0. destruct im; [|discriminate]. split; [reflexivity|].
      destruct (unspents_from_db_list srctx src_hash src_outs db true r) as [us'| |]; cbn [bind] in H0; try discriminate.
      inversion H0. eauto. }
    destruct (txin_is_coinbase x) eqn:Ec.
    + destruct (unspents_from_db_list srctx src_hash src_outs db im r) as [us'| |]; cbn [bind] in H; try discriminate.
      inversion H; subst us. destruct (IH us' eq_refl) as [HL HI]. split; [cbn; lia|].
      intros [|k] i Hk Hc; cbn [nth_error] in *.
      * inversion Hk; subst. congruence.
      * apply HI; assumption.
    + destruct (db (i_hash x)) as [the_tx|] eqn:Ed.
      * destruct (bytes_eqb (src_hash the_tx) (i_hash x)) eqn:Eh.
        -- destruct (py_index (src_outs the_tx) (i_index x)) as [o| |] eqn:Ep; cbn [bind] in H; try discriminate.
           destruct (unspents_from_db_list srctx src_hash src_outs db im r) as [us'| |]; cbn [bind] in H; try discriminate.
           inversion H; subst us. destruct (IH us' eq_refl) as [HL HI]. split; [cbn; lia|].
           intros [|k] i Hk Hc; cbn [nth_error] in *.
           ++ inversion Hk; subst i. exists the_tx. apply bytes_eqb_eq in Eh. auto.
           ++ apply HI; assumption.
        -- destruct (Hmiss us H) as [Him [us' [Hr ->]]]. destruct (IH us' Hr) as [HL HI]. split; [cbn; lia|].
           intros [|k] i Hk Hc; cbn [nth_error] in *; [exact Him|apply HI; assumption].
      * destruct (Hmiss us H) as [Him [us' [Hr ->]]]. destruct (IH us' Hr) as [HL HI]. split; [cbn; lia|].
        intros [|k] i Hk Hc; cbn [nth_error] in *; [exact Him|apply HI; assumption].
Qed.

Lemma unspents_from_db_then_validate k t :
  (forall j i, nth_error (t_ins t) j = Some i ->
     txin_is_coinbase i = false /\ i_hash i <> gen_zero32 /\ 0 <= i_index i) ->
  fst (step (MutUnspentsFromDb k false) t) = Ret 0 ->
  let t' := snd (step (MutUnspentsFromDb k false) t) in
  t_ins t' = t_ins t /\ t_outs t' = t_outs t /\
  validate_unspents srctx src_hash src_outs (dbs k) t' = fee t'.
Proof.
  intros Hins H. cbn [TxBuild.step] in *. unfold unspents_from_db_st in *.
  destruct (unspents_from_db_list srctx src_hash src_outs (dbs k) false (t_ins t)) as [us| |] eqn:E;
    cbn [fst snd] in *; try discriminate.
  split; [reflexivity|]. split; [reflexivity|].
  apply validate_unspents_complete. cbn [with_unspents t_ins t_unspents].
  intros j i Hj. destruct (Hins j i Hj) as [Hc [Hz Hi]].
  split; [exact Hz|]. split; [exact Hi|].
  destruct (unspents_from_db_list_spec _ _ _ _ E) as [_ HS]. specialize (HS j i Hj Hc).
  destruct (nth_error us j) as [[o|]|] eqn:Eu; try contradiction; [|discriminate].
  destruct HS as [the_tx [H1 [H2 H3]]]. exists the_tx, o, o. repeat split; auto.
Qed.
End StP.
