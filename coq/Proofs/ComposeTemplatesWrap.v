(* Proofs/ComposeTemplatesWrap.v — composition C05 x C03, part 7: the wrappers.
   * HASH160 <h> EQUAL and 0 <program> under Core's EvalScript;
   * Templates.eval_multisig rephrased on the reversed stack (`ms_bridge`);
   * VerifyWitnessProgram for P2WPKH and for the P2WSH multisig (`vwp_p2wpkh`, `vwp_p2wsh`);
   * VerifyScript for: P2SH around a non-witness redeem script, native witness programs, P2SH-wrapped witness
     programs, and their malleated scriptSigs. *)
From Coq Require Import Lia ZifyBool ZifyNat ZifyN.
From PV Require Import Base.Bytes Base.Outcome Gen.GenFlags Proofs.PushP Spec.Templates.
From PV Require Import Model.ScriptNum Spec.VMTypes Spec.VMcore.
From PV Require Import Proofs.SolveP Proofs.ComposeTemplatesEnc Proofs.ComposeTemplatesEval Proofs.ComposeTemplatesFad
                       Proofs.ComposeTemplatesSingle Proofs.ComposeTemplatesMulti Proofs.ComposeTemplatesVerify.
Local Open Scope N_scope.

Lemma split_last_rev {A} (l : list A) : split_last l = match rev l with [] => None | x :: r => Some (rev r, x) end.
Proof. reflexivity. Qed.
Lemma is_nil_rev {A} (l : list A) : is_nil (rev l) = is_nil l.
Proof. destruct l as [|x l]; [reflexivity|]. cbn [rev]. destruct (rev l); reflexivity. Qed.

Lemma all_le_520_rev l : all_le_520 (rev l) = all_le_520 l.
Proof.
  unfold all_le_520. induction l as [|x l IH]; [reflexivity|]. cbn [rev forallb]. rewrite forallb_app, IH.
  cbn [forallb]. rewrite andb_true_r. apply andb_comm.
Qed.

Lemma existsb_big l : existsb (fun it => MAX_SCRIPT_ELEMENT_SIZE <? VMcore.len it) l = negb (all_le_520 l).
Proof.
  unfold all_le_520. induction l as [|x l IH]; [reflexivity|]. cbn [existsb forallb]. rewrite IH.
  unfold MAX_SCRIPT_ELEMENT_SIZE. change (VMcore.len x) with (lenN x). destruct (forallb _ l); cbn [negb]; lia.
Qed.

(* Templates.eval_multisig on the reversed (Core-internal) stack *)
Lemma ms_bridge verifies sighash fl wit clean sc m keys st :
  (1 <= m <= length keys)%nat -> (length keys <= 20)%nat ->
  eval_multisig verifies sighash fl wit clean sc m keys st =
  ((m + 1 <=? length (rev st))%nat && (lenN (rev st) + N.of_nat (length keys) + 2 <=? 1000)) &&
  match skipn m (rev st) with
  | dummy :: r => (if f_std fl then is_nil dummy else true) && cms verifies sighash fl wit sc (rev keys) (firstn m (rev st))
                  && (if clean then is_nil r else true)
  | [] => false
  end.
Proof.
  intros Hm Hn. unfold eval_multisig. cbv zeta. rewrite lenN_rev, rev_length.
  replace ((1 <=? m) && (m <=? length keys) && (length keys <=? 20))%nat with true by lia. cbn [andb].
  destruct (m + 1 <=? length st)%nat eqn:El; cbn [andb]; [|reflexivity].
  destruct (lenN st + N.of_nat (length keys) + 2 <=? 1000); cbn [andb]; [|reflexivity].
  set (k := (length st - (m + 1))%nat).
  pose proof (firstn_skipn k st) as Hst. pose proof (skipn_length k st) as Hl.
  destruct (skipn k st) as [|dummy sigs] eqn:Eb; [cbn [length] in Hl; lia|].
  assert (Hs : length sigs = m) by (cbn [length] in Hl; lia).
  assert (Er : rev st = rev sigs ++ dummy :: rev (firstn k st)).
  { rewrite <- Hst at 1. rewrite rev_app_distr. cbn [rev]. now rewrite <- app_assoc. }
  rewrite Er. rewrite (SolveP.firstn_app_exact (rev sigs)) by (rewrite rev_length; lia).
  rewrite (SolveP.skipn_app_exact (rev sigs)) by (rewrite rev_length; lia). now rewrite is_nil_rev.
Qed.

Section Wrap.
Variable hash160 : bytes -> bytes.
Variable sha256 : bytes -> bytes.
Variable verifies : bytes -> bytes -> bytes -> bool.
Variable sighash : bool -> N -> bytes -> option bytes.
Variable fl : flags.
Variable fw : N.
Hypothesis Hfl : flags_rel fl fw.
Variable o : oracles.
Hypothesis Ho : oracles_inst hash160 sha256 verifies sighash o.
Variable ctx : txctx.

(* HASH160 <H> EQUAL *)
Lemma eval_p2sh_spk H st : lenN H <= 520 ->
  exists e, eval_script_e o fw SV_BASE ctx (p2sh_script H) st =
    match st with
    | redeem :: r => if lenN st + 1 <=? 1000 then COk (bool_vec (bytes_eqb (hash160 redeem) H) :: r) else CErr e
    | [] => CErr e
    end.
Proof.
  intros HH. rewrite eval_script_fin.
  assert (Hsz : (MAX_SCRIPT_SIZE <? VMcore.len (p2sh_script H)) = false).
  { pose proof (push_data_len_520 H HH) as K. unfold p2sh_script, MAX_SCRIPT_SIZE, VMcore.len, lenN in *.
    rewrite !app_length. cbn [length]. lia. }
  rewrite Hsz. set (sc := p2sh_script H).
  destruct st as [|redeem r].
  { assert (He : exists e', crun o fw SV_BASE ctx sc (mk [] 0 sc) = CErr e')
      by exact (crun_exec_err o fw SV_BASE ctx xa9 (push_data H ++ [x87]) [] 0 sc ISO eq_refl eq_refl
                  (exec_hash160_nil _ _ _ _ _ _ _)).
    destruct He as [e He]. exists e. rewrite He. reflexivity. }
  assert (E1 : crun o fw SV_BASE ctx sc (mk (redeem :: r) 0 sc) =
               if 1000 <? lenN (o_hash160 o redeem :: r) then CErr SE_STACK_SIZE
               else crun o fw SV_BASE ctx (push_data H ++ [x87]) (mk (o_hash160 o redeem :: r) (0 + 1) sc))
    by exact (crun_exec_ok o fw SV_BASE ctx xa9 _ (redeem :: r) 0 sc _ sc eq_refl eq_refl ltac:(lia)
                (exec_hash160 _ _ _ _ _ _ _ _ _)).
  rewrite E1. clear E1. rewrite !lenN_cons.
  destruct (1000 <? 1 + lenN r) eqn:C1.
  { exists SE_STACK_SIZE. replace (1 + lenN r + 1 <=? 1000) with false by lia. reflexivity. }
  rewrite crun_push_data by exact HH. rewrite lenN_cons.
  destruct (1000 <? 1 + lenN r + 1) eqn:C2.
  { exists SE_STACK_SIZE. replace (1 + lenN r + 1 <=? 1000) with false by lia. reflexivity. }
  replace (1 + lenN r + 1 <=? 1000) with true by lia.
  rewrite (crun_exec_ok o fw SV_BASE ctx x87 [] _ (0 + 1) sc _ sc eq_refl eq_refl ltac:(lia) (exec_equal _ _ _ _ _ _ _ _ _ _)).
  rewrite lenN_cons. replace (1000 <? 1 + lenN r) with false by lia.
  rewrite (oi_hash160 _ _ _ _ o Ho). exists SE_UNKNOWN_ERROR. reflexivity.
Qed.

(* 0 <program> *)
Lemma eval_wit0 prog st : lenN prog <= 520 ->
  exists e, eval_script_e o fw SV_BASE ctx (wit0_script prog) st =
            if lenN st + 2 <=? 1000 then COk (prog :: [] :: st) else CErr e.
Proof.
  intros Hp. rewrite eval_script_fin.
  assert (Hsz : (MAX_SCRIPT_SIZE <? VMcore.len (wit0_script prog)) = false).
  { pose proof (push_data_len_520 prog Hp) as K. unfold wit0_script, MAX_SCRIPT_SIZE, VMcore.len, lenN in *.
    rewrite !app_length. cbn [length]. lia. }
  rewrite Hsz. set (sc := wit0_script prog).
  assert (E1 : crun o fw SV_BASE ctx sc (mk st 0 sc) =
               if 1000 <? lenN st + 1 then CErr SE_STACK_SIZE
               else crun o fw SV_BASE ctx (push_data prog ++ []) (mk ([] :: st) 0 sc)).
  { unfold sc at 1. unfold wit0_script. rewrite <- (app_nil_r (push_data prog)) at 1.
    exact (crun_push_data o fw SV_BASE ctx [] (push_data prog ++ []) st 0 sc ltac:(cbn; lia)). }
  rewrite E1. clear E1.
  destruct (1000 <? lenN st + 1) eqn:C1.
  { exists SE_STACK_SIZE. replace (lenN st + 2 <=? 1000) with false by lia. reflexivity. }
  rewrite crun_push_data by exact Hp. rewrite lenN_cons.
  destruct (1000 <? 1 + lenN st + 1) eqn:C2.
  { exists SE_STACK_SIZE. replace (lenN st + 2 <=? 1000) with false by lia. reflexivity. }
  replace (lenN st + 2 <=? 1000) with true by lia. exists SE_UNKNOWN_ERROR. reflexivity.
Qed.

(* ---- VerifyWitnessProgram ------------------------------------------------------------------------------------ *)
Lemma p2wpkh_script_eq prog : length prog = 20%nat -> [x76; xa9; x14] ++ prog ++ [x88; xac] = p2pkh_script prog.
Proof.
  intros H. unfold p2pkh_script. rewrite push_data_direct by (unfold lenN; lia). unfold lenN. rewrite H. reflexivity.
Qed.

Lemma vwp_p2wpkh prog wit : length prog = 20%nat ->
  exists e, verify_witness_program o fw ctx (rev wit) 0 prog =
            if (length wit =? 2)%nat && all_le_520 wit &&
               eval_p2pkh hash160 verifies sighash fl true true (p2pkh_script prog) prog wit
            then COk tt else CErr e.
Proof.
  intros Hl. unfold verify_witness_program. change (0 =? 0) with true. cbv iota.
  unfold VMcore.len at 1 2. rewrite Hl. change (N.of_nat 20 =? 32) with false. change (N.of_nat 20 =? 20) with true. cbv iota.
  rewrite <- (rev_length wit). rewrite <- (all_le_520_rev wit).
  assert (Hw : wit = rev (rev wit)) by (symmetry; apply rev_involutive).
  destruct (rev wit) as [|pub [|sig [|c l]]] eqn:Er; try (exists SE_WITNESS_PROGRAM_MISMATCH; reflexivity).
  cbn [cbind fst snd length Nat.eqb andb]. rewrite existsb_big.
  destruct (all_le_520 [pub; sig]); cbn [negb andb]; [|exists SE_PUSH_SIZE; reflexivity].
  rewrite p2wpkh_script_eq by exact Hl.
  pose proof (eval_p2pkh_core hash160 sha256 verifies sighash fl fw Hfl o Ho ctx SV_WITNESS_V0 prog [pub; sig]
                ltac:(unfold lenN; lia) ltac:(intros; discriminate)) as T. cbv zeta in T. cbn [sv_wit] in T.
  rewrite Hw. cbn [rev app]. unfold eval_p2pkh. cbn [split_last rev app is_nil]. rewrite andb_true_r.
  change (lenN [sig; pub]) with (lenN [pub; sig]).
  destruct (_ && _ && _).
  - rewrite T. cbn [cbind cast_to_bool]. exists SE_UNKNOWN_ERROR. reflexivity.
  - destruct T as [[e T]|[t T]]; rewrite T; cbn [cbind]; [exists e; reflexivity|].
    exists SE_EVAL_FALSE. destruct t; reflexivity.
Qed.

Lemma vwp_p2wsh m keys wit :
  (1 <= m <= length keys)%nat -> (length keys <= 20)%nat -> Forall (fun k => lenN k <= 520) keys ->
  length (sha256 (ms_script m keys)) = 32%nat ->
  (forall ws st, rev wit = ws :: st -> sha256 ws = sha256 (ms_script m keys) -> ws = ms_script m keys) ->
  let ms := ms_script m keys in
  exists e, verify_witness_program o fw ctx (rev wit) 0 (sha256 ms) =
            if match split_last wit with
               | Some (st, ws) => bytes_eqb ws ms && (lenN ws <=? 10000) && all_le_520 st &&
                                  eval_multisig verifies sighash fl true true ms m keys st
               | None => false
               end
            then COk tt else CErr e.
Proof.
  intros Hm Hn Hk Hl Hcoll. cbv zeta. set (ms := ms_script m keys) in *.
  unfold verify_witness_program. change (0 =? 0) with true. cbv iota.
  unfold VMcore.len at 1. rewrite Hl. change (N.of_nat 32 =? 32) with true. cbv iota.
  rewrite split_last_rev.
  destruct (rev wit) as [|ws st] eqn:Er; [exists SE_WITNESS_PROGRAM_WITNESS_EMPTY; reflexivity|].
  rewrite (oi_sha256 _ _ _ _ o Ho).
  destruct (bytes_eqb ws ms) eqn:Ews.
  2:{ destruct (bytes_eqb (sha256 ws) (sha256 ms)) eqn:Eh.
      - apply bytes_eqb_eq in Eh. rewrite (Hcoll ws st eq_refl Eh), bytes_eqb_refl in Ews. discriminate.
      - exists SE_WITNESS_PROGRAM_MISMATCH. reflexivity. }
  apply bytes_eqb_eq in Ews. subst ws. rewrite bytes_eqb_refl. cbn [cbind fst snd andb].
  rewrite existsb_big, all_le_520_rev.
  destruct (all_le_520 st); cbn [negb]; [|exists SE_PUSH_SIZE; rewrite andb_false_r; reflexivity].
  rewrite andb_true_r.
  destruct (lenN ms <=? 10000) eqn:Esz; cbn [andb].
  2:{ rewrite eval_script_fin. unfold MAX_SCRIPT_SIZE. change (VMcore.len ms) with (lenN ms).
      replace (10000 <? lenN ms) with true by lia. exists SE_SCRIPT_SIZE. reflexivity. }
  rewrite (ms_bridge verifies sighash fl true true ms m keys (rev st) Hm Hn). rewrite rev_involutive.
  pose proof (eval_ms_core hash160 sha256 verifies sighash fl fw Hfl o Ho ctx SV_WITNESS_V0 m keys st Hm Hn Hk
                ltac:(fold ms; lia) ltac:(intros; discriminate)) as T. cbv zeta in T. cbn [sv_wit] in T. fold ms in T.
  destruct ((m + 1 <=? length st)%nat && (lenN st + N.of_nat (length keys) + 2 <=? 1000)) eqn:Ec; cbn [andb].
  2:{ destruct T as [[e T]|[t T]]; rewrite T; cbn [cbind]; [exists e; reflexivity|].
      exists SE_EVAL_FALSE. destruct t; reflexivity. }
  destruct (skipn m st) as [|dummy r] eqn:Esk.
  { apply (f_equal (@length _)) in Esk. rewrite skipn_length in Esk. cbn [length] in Esk. lia. }
  destruct ((if f_std fl then is_nil dummy else true) && cms verifies sighash fl true ms (rev keys) (firstn m st)); cbn [andb].
  - rewrite T. cbn [cbind]. destruct r; cbn [is_nil cast_to_bool]; [exists SE_UNKNOWN_ERROR|exists SE_EVAL_FALSE]; reflexivity.
  - destruct T as [[e T]|[t T]]; rewrite T; cbn [cbind]; [exists e; reflexivity|].
    exists SE_EVAL_FALSE. destruct t; reflexivity.
Qed.
End Wrap.

(* ---- VerifyScript around the wrappers ------------------------------------------------------------------------ *)
Section WrapVerify.
Variable hash160 : bytes -> bytes.
Variable sha256 : bytes -> bytes.
Variable verifies : bytes -> bytes -> bytes -> bool.
Variable sighash : bool -> N -> bytes -> option bytes.
Variable fl : flags.
Variable fw : N.
Hypothesis Hfl : flags_rel fl fw.
Variable o : oracles.
Hypothesis Ho : oracles_inst hash160 sha256 verifies sighash o.
Variable ctx : txctx.

Notation SP ss spk wit := {| sp_script_sig := ss; sp_script_pubkey := spk; sp_witness := wit; sp_flags := fw; sp_ctx := ctx |}.

Lemma cast_bool_vec b : cast_to_bool (bool_vec b) = b.
Proof. destruct b; reflexivity. Qed.

Lemma wit_unexpected (wit : list bytes) : negb (length (rev wit) =? 0)%nat = negb (is_nil wit).
Proof. rewrite rev_length. destruct wit; reflexivity. Qed.

(* P2SH around a redeem script that is not a witness program *)
Lemma verify_p2sh_plain ss H wit items mn : length H = 20%nat -> parse_pushes ss = Some (items, mn) ->
  let V := VerifyScriptE o (SP ss (p2sh_script H) wit) in
  (sig_conds fl ss items mn = false -> exists e, V = CErr e) /\
  (sig_conds fl ss items mn = true ->
   match rev items with
   | [] => exists e, V = CErr e
   | redeem :: st =>
     ((lenN items + 1 <=? 1000) && bytes_eqb (hash160 redeem) H = false -> exists e, V = CErr e) /\
     ((lenN items + 1 <=? 1000) && bytes_eqb (hash160 redeem) H = true -> is_witness_program redeem = None ->
      let r := eval_script_e o fw SV_BASE ctx redeem st in
      (evfalse r -> exists e, V = CErr e) /\
      (forall rest, r = COk ([x01] :: rest) ->
         exists e, V = if (if f_std fl then is_nil rest else true) && is_nil wit then COk tt else CErr e))
   end).
Proof.
  intros HH Hp. cbv zeta. unfold VerifyScriptE. cbn [sp_flags sp_ctx sp_script_sig sp_script_pubkey sp_witness].
  rewrite (parse_pushes_push_only _ _ _ _ Hp). cbn [negb]. rewrite andb_false_r.
  destruct (eval_script_sig fl fw Hfl o ctx ss items mn Hp) as [e0 He0]. rewrite He0.
  rewrite (p2sh_not_wp H), (p2sh_is_p2sh H HH).
  rewrite (fr_witness _ _ Hfl), (fr_p2sh _ _ Hfl), (fr_cleanstack _ _ Hfl). cbn [andb].
  split.
  { intros ->. eexists. reflexivity. }
  intros ->. cbn [cbind].
  destruct (eval_p2sh_spk hash160 sha256 verifies sighash fw o Ho ctx H (rev items) ltac:(unfold lenN; lia)) as [e1 He1].
  rewrite He1. rewrite lenN_rev.
  destruct (rev items) as [|redeem st] eqn:Er; [eexists; reflexivity|].
  destruct (lenN items + 1 <=? 1000); cbn [andb].
  2:{ split; [intros _; eexists; reflexivity|intros K; discriminate]. }
  cbn [cbind top_true]. rewrite cast_bool_vec.
  destruct (bytes_eqb (hash160 redeem) H).
  2:{ split; [intros _; eexists; reflexivity|intros K; discriminate]. }
  split; [intros K; discriminate|]. intros _ Hwp. cbn [cbind fst snd]. rewrite Hwp.
  split.
  - intros [[e Hev]|[t Hev]]; rewrite Hev; eexists; reflexivity.
  - intros rest Hr. rewrite Hr. cbn [cbind top_true cast_to_bool fst snd].
    change (b2n x01 =? 0) with false. cbn [cbind fst snd negb andb]. rewrite wit_unexpected.
    destruct (f_std fl).
    + destruct rest as [|x rest]; cbn [is_nil length Nat.eqb negb andb].
      * destruct (is_nil wit); [exists SE_UNKNOWN_ERROR|exists SE_WITNESS_UNEXPECTED]; reflexivity.
      * exists SE_CLEANSTACK. reflexivity.
    + cbn [andb]. destruct (is_nil wit); [exists SE_UNKNOWN_ERROR|exists SE_WITNESS_UNEXPECTED]; reflexivity.
Qed.

Lemma cbind_unit (m : cres unit) : cbind m (fun _ => COk tt) = m.
Proof. destruct m as [[]| |]; reflexivity. Qed.

(* native witness program, empty scriptSig *)
Lemma verify_native prog wit : 2 <= lenN prog <= 40 -> cast_to_bool prog = true ->
  VerifyScriptE o (SP [] (wit0_script prog) wit) = verify_witness_program o fw ctx (rev wit) 0 prog.
Proof.
  intros Hl Hc. unfold VerifyScriptE. cbn [sp_flags sp_ctx sp_script_sig sp_script_pubkey sp_witness].
  change (is_push_only []) with true. cbn [negb]. rewrite andb_false_r.
  change (eval_script_e o fw SV_BASE ctx [] []) with (@COk (list bytes) []). cbn [cbind].
  destruct (eval_wit0 fw o ctx prog [] ltac:(lia)) as [e1 He1]. rewrite He1.
  change (lenN [] + 2 <=? 1000) with true. cbn [cbind top_true]. rewrite Hc. cbn [cbind].
  rewrite (fr_witness _ _ Hfl), (fr_p2sh _ _ Hfl), (fr_cleanstack _ _ Hfl).
  rewrite (wit0_is_wp prog Hl), (wit0_not_p2sh prog). change (VMcore.len [] =? 0) with true. cbn [negb andb].
  destruct (verify_witness_program o fw ctx (rev wit) 0 prog) as [[]|e|]; cbn [cbind fst snd resize1 length Nat.eqb negb andb];
    try reflexivity.
  destruct (f_std fl); reflexivity.
Qed.

Lemma nf_cases {A} (r : cres A) : nf r -> (exists a, r = COk a) \/ (exists e, r = CErr e).
Proof. destruct r; intros H; [left; eauto|right; eauto|exfalso; apply H; reflexivity]. Qed.

(* native witness program, any other scriptSig *)
Lemma verify_native_malleated prog ss wit : 2 <= lenN prog <= 40 -> ss <> [] ->
  exists e, VerifyScriptE o (SP ss (wit0_script prog) wit) = CErr e.
Proof.
  intros Hl Hss. unfold VerifyScriptE. cbn [sp_flags sp_ctx sp_script_sig sp_script_pubkey sp_witness].
  destruct (_ && _); [eexists; reflexivity|].
  destruct (nf_cases _ (nf_eval_script_e o fw SV_BASE ctx ss [])) as [[sc ->]|[e ->]]; [|eexists; reflexivity].
  cbn [cbind].
  destruct (nf_cases _ (nf_eval_script_e o fw SV_BASE ctx (wit0_script prog) sc)) as [[st ->]|[e ->]]; [|eexists; reflexivity].
  cbn [cbind].
  destruct (nf_cases _ (nf_top_true st)) as [[[] ->]|[e ->]]; [|eexists; reflexivity].
  cbn [cbind]. rewrite (fr_witness _ _ Hfl), (wit0_is_wp prog Hl).
  assert (Hne : (VMcore.len ss =? 0) = false) by (destruct ss; [contradiction|reflexivity]).
  rewrite Hne. eexists. reflexivity.
Qed.

Lemma wit0_len prog : 2 <= lenN prog <= 40 -> lenN (wit0_script prog) = lenN prog + 2.
Proof. intros H. unfold wit0_script. rewrite push_data_direct by lia. unfold lenN. cbn [app length]. lia. Qed.

Lemma wit0_plain prog : 2 <= lenN prog <= 40 -> push_data (wit0_script prog) = push_encode (wit0_script prog).
Proof.
  intros H. apply push_data_plain. pose proof (wit0_len prog H) as K.
  destruct (wit0_script prog) as [|a [|b r]]; try reflexivity; unfold lenN in K; cbn [length] in K; lia.
Qed.

(* P2SH-wrapped witness program, the canonical scriptSig *)
Lemma verify_p2sh_wit prog wit : 2 <= lenN prog <= 40 -> cast_to_bool prog = true ->
  length (hash160 (wit0_script prog)) = 20%nat ->
  VerifyScriptE o (SP (push_data (wit0_script prog)) (p2sh_script (hash160 (wit0_script prog))) wit)
  = verify_witness_program o fw ctx (rev wit) 0 prog.
Proof.
  intros Hl Hc HH. set (redeem := wit0_script prog) in *. set (ss := push_data redeem).
  assert (Hrl : lenN redeem = lenN prog + 2) by (apply wit0_len; exact Hl).
  assert (Hp : parse_pushes ss = Some ([redeem], true)).
  { unfold ss. rewrite <- (app_nil_r (push_data redeem)). apply (parse_pushes_pushes [redeem]). repeat constructor. lia. }
  assert (Hsc : sig_conds fl ss [redeem] true = true).
  { unfold sig_conds. pose proof (push_data_length redeem ltac:(lia)) as K. fold ss in K.
    replace (10000 <? lenN ss) with false by lia. cbn [negb andb all_le_520 forallb]. rewrite andb_false_r.
    replace (lenN redeem <=? 520) with true by lia. reflexivity. }
  unfold VerifyScriptE. cbn [sp_flags sp_ctx sp_script_sig sp_script_pubkey sp_witness].
  rewrite (parse_pushes_push_only _ _ _ _ Hp). cbn [negb]. rewrite andb_false_r.
  destruct (eval_script_sig fl fw Hfl o ctx ss [redeem] true Hp) as [e0 He0]. rewrite He0, Hsc. cbn [rev app cbind].
  destruct (eval_p2sh_spk hash160 sha256 verifies sighash fw o Ho ctx (hash160 redeem) [redeem] ltac:(unfold lenN; lia)) as [e1 He1].
  rewrite He1. change (lenN [redeem] + 1 <=? 1000) with true. cbv iota. rewrite bytes_eqb_refl.
  cbn [cbind top_true bool_vec cast_to_bool]. change (b2n x01 =? 0) with false. cbn [cbind fst snd negb].
  rewrite (p2sh_not_wp (hash160 redeem)), (p2sh_is_p2sh _ HH).
  rewrite (fr_witness _ _ Hfl), (fr_p2sh _ _ Hfl), (fr_cleanstack _ _ Hfl). cbn [andb cbind fst snd].
  destruct (eval_wit0 fw o ctx prog [] ltac:(lia)) as [e2 He2]. fold redeem in He2. rewrite He2.
  change (lenN [] + 2 <=? 1000) with true. cbn [cbind top_true]. rewrite Hc. cbn [cbind].
  unfold redeem at 1. rewrite (wit0_is_wp prog Hl). fold redeem.
  pose proof (wit0_plain prog Hl) as Hpl. fold redeem in Hpl. unfold ss. rewrite <- Hpl. rewrite bytes_eqb_refl. cbn [negb].
  destruct (verify_witness_program o fw ctx (rev wit) 0 prog) as [[]|e|]; cbn [cbind fst snd resize1 length Nat.eqb negb andb];
    try reflexivity.
  destruct (f_std fl); reflexivity.
Qed.

(* P2SH-wrapped witness program, any other scriptSig *)
Lemma verify_p2sh_wit_malleated prog ss wit : 2 <= lenN prog <= 40 ->
  length (hash160 (wit0_script prog)) = 20%nat ->
  ss <> push_data (wit0_script prog) ->
  (forall x, hash160 x = hash160 (wit0_script prog) -> x = wit0_script prog) ->
  exists e, VerifyScriptE o (SP ss (p2sh_script (hash160 (wit0_script prog))) wit) = CErr e.
Proof.
  intros Hl HH Hss Hcoll. set (redeem := wit0_script prog) in *.
  unfold VerifyScriptE. cbn [sp_flags sp_ctx sp_script_sig sp_script_pubkey sp_witness].
  destruct (_ && _); [eexists; reflexivity|].
  destruct (nf_cases _ (nf_eval_script_e o fw SV_BASE ctx ss [])) as [[sc ->]|[e ->]]; [|eexists; reflexivity].
  cbn [cbind].
  destruct (eval_p2sh_spk hash160 sha256 verifies sighash fw o Ho ctx (hash160 redeem) sc ltac:(unfold lenN; lia)) as [e1 He1].
  rewrite He1. destruct sc as [|x st]; [eexists; reflexivity|].
  destruct (lenN (x :: st) + 1 <=? 1000); [|eexists; reflexivity].
  cbn [cbind top_true]. rewrite cast_bool_vec.
  destruct (bytes_eqb (hash160 x) (hash160 redeem)) eqn:Eh; [|eexists; reflexivity].
  apply bytes_eqb_eq in Eh. apply Hcoll in Eh. subst x.
  cbn [cbind fst snd]. rewrite (p2sh_not_wp (hash160 redeem)), (p2sh_is_p2sh _ HH).
  rewrite (fr_witness _ _ Hfl), (fr_p2sh _ _ Hfl). cbn [andb cbind fst snd].
  destruct (negb (is_push_only ss)); [eexists; reflexivity|].
  destruct (nf_cases _ (nf_eval_script_e o fw SV_BASE ctx redeem st)) as [[st2 ->]|[e ->]]; [|eexists; reflexivity].
  cbn [cbind].
  destruct (nf_cases _ (nf_top_true st2)) as [[[] ->]|[e ->]]; [|eexists; reflexivity].
  cbn [cbind]. unfold redeem at 1. rewrite (wit0_is_wp prog Hl). fold redeem.
  pose proof (wit0_plain prog Hl) as Hpl. fold redeem in Hpl. rewrite <- Hpl.
  destruct (bytes_eqb ss (push_data redeem)) eqn:Es; [apply bytes_eqb_eq in Es; contradiction|].
  eexists. reflexivity.
Qed.
End WrapVerify.
