(* Proofs/ComposeBlockTx.v — COMPOSITION of C14 (blocks, Model/Block.v + Proofs/BlockP.v) with C07 (transactions,
   Model/TxWire.v + Proofs/TxWireP.v).

   C14 proves its block theorems for ANY transaction codec (Section variables parse_tx / stream_tx / tx_hash) under the
   hypotheses tx_frame, tx_parser_consumes, tx_parser_exact.  Here the codec is C07's model of pycoin's Tx:
       parse_tx  := TxWire.parse_tx true                     (Tx.parse, allow_segwit defaults to True)
       stream_tx := the bytes Tx.stream writes               (c07_stream, see below)
       tx_hash   := Tx.hash()                                (c07_txhash H, H = the hash the Tx class uses)
   and the hypotheses are DISCHARGED from C07's theorems:
       tx_frame            holds for every t with tx_wf t and tx_ins t <> []      (C07 parse_stream_frame)
       tx_parser_consumes  holds outright                                          (proved here: parse_tx_consumes)
       parse_tx total      holds outright                                          (C07 parse_tx_fuel)
       tx_parser_exact     is FALSE for this codec (c07_not_exact: a non-minimal input count parses but does not
                           re-serialise to itself); it holds on exactly the canonical byte strings, i.e. those accepted
                           by C07's independent strict decoder decode_strict — the bytes->block->bytes theorem is
                           restated with that condition (block_parse_strict / block_stream_of_parse_canonical) and the
                           condition is shown to be met by every streamed block (block_stream_is_canonical).

   Block.v's section takes TOTAL functions stream_tx : tx -> bytes and tx_hash : tx -> bytes, C07's model has
   outcome-valued ones (struct.error on an out-of-range field).  c07_stream / c07_txhash are the outcome-valued model
   functions with the failure case mapped to []: on every tx_wf transaction they ARE the model's result
   (c07_stream_ok, c07_txhash_ok), and every transaction the parser returns is tx_wf (parse_tx_wf, proved here), so the
   wrapper never hides a failure in any theorem below.  No axioms. *)
From PV Require Import Base.Bytes Base.Outcome Base.Varint Gen.GenTxConsts Model.TxWire Spec.TxWireSpec Proofs.TxWireP.
From PV Require Import Model.Merkle Spec.MerkleSpec Proofs.MerkleP Model.Block Proofs.BlockP.
From Coq Require Import ZifyBool ZifyNat ZifyN.
Local Open Scope outcome_scope.

(* ---- the instantiation ------------------------------------------------------------------------------------------ *)
Definition ret_or_nil (m : outcome bytes) : bytes := match m with Ret b => b | _ => [] end.

Definition c07_parse : parser tx := parse_tx true.
Definition c07_stream (t : tx) : bytes := ret_or_nil (stream_tx false true t).
Definition c07_txhash (H : bytes -> bytes) (t : tx) : bytes := ret_or_nil (tx_hash H t None).

(* the well-formedness under which C07 proves the frame law *)
Definition tx_ok (t : tx) : Prop := tx_wf t /\ tx_ins t <> [].

Lemma c07_stream_ok t : tx_wf t -> stream_tx false true t = Ret (c07_stream t) /\ wire_format t (c07_stream t).
Proof.
  intros W. destruct (stream_is_wire_format t W) as (b & S & F). unfold c07_stream. rewrite S. cbn [ret_or_nil]. auto.
Qed.

Lemma c07_txhash_ok H t : tx_wf t -> tx_hash H t None = Ret (c07_txhash H t) /\ c07_txhash H t = H (ser_legacy t).
Proof. intros W. unfold c07_txhash. rewrite (hash_is_legacy H t W). cbn [ret_or_nil]. auto. Qed.

(* list level: Block.stream's loop over tx.stream(f) and check_merkle_hash's [tx.hash() for tx in txs], written with
   the outcome-valued model functions, are the total wrappers on well-formed transactions *)
Lemma stream_all_c07 ts : Forall tx_wf ts -> stream_all (stream_tx false true) ts = Ret (concat (map c07_stream ts)).
Proof.
  induction 1 as [|t ts W _ IH]; [reflexivity|]. cbn [stream_all map concat].
  destruct (c07_stream_ok t W) as [-> _]. rewrite IH. reflexivity.
Qed.
Lemma mapM_txhash_c07 H ts : Forall tx_wf ts -> mapM (fun t => tx_hash H t None) ts = Ret (map (c07_txhash H) ts).
Proof.
  induction 1 as [|t ts W _ IH]; [reflexivity|]. cbn [mapM map].
  destruct (c07_txhash_ok H t W) as [-> _]. rewrite IH. reflexivity.
Qed.

(* ---- hypothesis 1: the frame law ---------------------------------------------------------------------------------- *)
Lemma c07_frame t : tx_ok t -> tx_frame tx c07_parse c07_stream t.
Proof.
  intros [W N] r. destruct (parse_stream_frame t r W N) as (b & S & P).
  unfold c07_stream. rewrite S. exact P.
Qed.

Lemma c07_frame_all ts : Forall tx_ok ts -> Forall (tx_frame tx c07_parse c07_stream) ts.
Proof. intros H. eapply Forall_impl; [|exact H]. exact c07_frame. Qed.

(* ---- hypothesis 2: the parser consumes at least one byte ------------------------------------------------------------ *)
Lemma parse_tx_body_shrinks fuel ver seg v1 v2 s t r : (length s < fuel)%nat ->
  parse_tx_body fuel ver seg v1 v2 s = Ret (t, r) -> (length r <= length s)%nat.
Proof.
  intros Hf E. unfold parse_tx_body in E.
  apply bind_ret_inv in E. destruct E as ([c s1] & E1 & E). apply parse_satoshi_int_shrinks in E1.
  apply bind_ret_inv in E. destruct E as ([ins s2] & E2 & E).
  destruct (parse_count_list_fuel parse_txin parse_txin_consumes parse_txin_no_oof fuel c s1 ltac:(lia)) as (_ & S2).
  specialize (S2 _ _ E2).
  apply bind_ret_inv in E. destruct E as ([c2 s3] & E3 & E). apply parse_satoshi_int_shrinks in E3.
  apply bind_ret_inv in E. destruct E as ([outs s4] & E4 & E).
  destruct (parse_count_list_fuel parse_txout parse_txout_consumes parse_txout_no_oof fuel c2 s3 ltac:(lia)) as (_ & S4).
  specialize (S4 _ _ E4).
  apply bind_ret_inv in E. destruct E as ([ins' s5] & E5 & E).
  assert (S5 : (length s5 <= length s4)%nat).
  { destruct seg.
    - destruct (parse_witnesses_fuel fuel ins s4 ltac:(lia)) as (_ & S5). exact (S5 _ _ E5).
    - injection E5 as _ <-. lia. }
  apply bind_ret_inv in E. destruct E as ([lt s6] & E6 & E). apply parse_word_shrinks in E6.
  injection E as _ <-. lia.
Qed.

Lemma parse_tx_consumes a s t r : parse_tx a s = Ret (t, r) -> (length r < length s)%nat.
Proof.
  unfold parse_tx. intros E.
  apply bind_ret_inv in E. destruct E as ([ver s1] & E1 & E). apply parse_word_shrinks in E1.
  destruct s1 as [|b1 s2]; [discriminate|]. cbn [length] in E1.
  destruct (a && _).
  - destruct s2 as [|fl s3]; [discriminate|]. cbn [length] in E1. destruct (_ =? _)%N; [discriminate|].
    destruct (N.odd _); apply parse_tx_body_shrinks in E; lia.
  - apply parse_tx_body_shrinks in E; lia.
Qed.

Lemma c07_consumes : tx_parser_consumes tx c07_parse.
Proof. intros s t r. apply parse_tx_consumes. Qed.

Lemma c07_total s : c07_parse s <> OutOfFuel.
Proof. apply parse_tx_fuel. Qed.

(* ---- hypothesis 3 (tx_parser_exact) is false: witness ------------------------------------------------------------ *)
(* version 1 | input count written as fd 01 00 | one input | no outputs | lock time 0.  Tx.parse reads it as a
   one-input transaction, whose serialisation writes the count as the single byte 01 *)
Definition nonminimal_tx_bytes : bytes :=
  [x01; x00; x00; x00] ++ [xfd; x01; x00] ++ (repeatb x11 32 ++ [x00; x00; x00; x00] ++ [x00] ++ [xff; xff; xff; xff])
  ++ [x00] ++ [x00; x00; x00; x00].

Lemma nonminimal_parses :
  exists t, c07_parse nonminimal_tx_bytes = Ret (t, []) /\ tx_ok t /\ nonminimal_tx_bytes <> c07_stream t ++ [] /\
            decode_strict nonminimal_tx_bytes = None.
Proof.
  eexists. split; [vm_compute; reflexivity|]. split; [|split].
  - unfold tx_ok, tx_wf, txin_wf, txout_wf, u32, u64, len64, len63, zlen. cbn.
    repeat (split || constructor || discriminate || lia).
  - vm_compute. discriminate.
  - vm_compute. reflexivity.
Qed.

Lemma c07_not_exact : ~ tx_parser_exact tx c07_parse c07_stream.
Proof.
  intros Hx. destruct nonminimal_parses as (t & P & _ & N & _). apply Hx in P. contradiction.
Qed.

(* ---- every transaction the parser returns is tx_wf -------------------------------------------------------------------- *)
Lemma pow256_2 : (256 ^ N.of_nat 2 = 65536)%N. Proof. reflexivity. Qed.
Lemma pow256_8 : (256 ^ N.of_nat 8 = 18446744073709551616)%N. Proof. reflexivity. Qed.
Lemma two64N : (2 ^ 64 = 18446744073709551616)%N. Proof. reflexivity. Qed.
Lemma two32Z : (2 ^ 32 = 4294967296)%Z. Proof. reflexivity. Qed.
Lemma two63Z : (2 ^ 63 = 9223372036854775808)%Z. Proof. reflexivity. Qed.
Lemma two64Z : (2 ^ 64 = 18446744073709551616)%Z. Proof. reflexivity. Qed.

Lemma parse_varint_lt64 s v r : parse_varint s = Ret (v, r) -> (v < 2 ^ 64)%N.
Proof.
  unfold parse_varint. destruct s as [|b t]; [discriminate|]. pose proof (b2n_lt b) as Hb. rewrite two64N.
  destruct (b2n b =? 253)%N; [intros E; apply read_le_inv in E; rewrite pow256_2 in E; lia|].
  destruct (b2n b =? 254)%N; [intros E; apply read_le_inv in E; rewrite pow256_4 in E; lia|].
  destruct (b2n b =? 255)%N; [intros E; apply read_le_inv in E; rewrite pow256_8 in E; lia|].
  intros E. injection E as <- _. lia.
Qed.

Lemma parse_satoshi_int_lt64 v s c r : (forall x, v = Some x -> (x < 256)%N) ->
  parse_satoshi_int v s = Ret (c, r) -> (c < 2 ^ 64)%N.
Proof.
  destruct v as [x|]; cbn [parse_satoshi_int]; intros Hx; [|apply parse_varint_lt64].
  specialize (Hx x eq_refl). unfold parse_varint_tail. rewrite two64N.
  destruct (x =? 253)%N; [intros E; apply read_le_inv in E; rewrite pow256_2 in E; lia|].
  destruct (x =? 254)%N; [intros E; apply read_le_inv in E; rewrite pow256_4 in E; lia|].
  destruct (x =? 255)%N; [intros E; apply read_le_inv in E; rewrite pow256_8 in E; lia|].
  intros E. injection E as <- _. lia.
Qed.

Lemma parse_varstr_len63 s v r : parse_varstr s = Ret (v, r) -> len63 v.
Proof.
  unfold parse_varstr. destruct (parse_varint s) as [[n r']| |]; try discriminate.
  destruct (9223372036854775808 <=? n)%N eqn:E; [discriminate|]. intros H. injection H as H.
  unfold len63, zlen. rewrite two63Z. unfold readN, read in H.
  destruct (N.of_nat (length r') <=? n)%N eqn:E2; injection H as <- _; [lia|].
  rewrite firstn_length. lia.
Qed.

Lemma parse_word_u32 s z r : parse_word s = Ret (z, r) -> u32 z.
Proof.
  rewrite parse_word_eq. intros E. apply bind_ret_inv in E. destruct E as ([v r'] & E1 & E). injection E as <- _.
  apply read_le_inv in E1. rewrite pow256_4 in E1. unfold u32. rewrite two32Z. lia.
Qed.

Lemma parse_txin_wf s i r : parse_txin s = Ret (i, r) -> txin_wf i.
Proof.
  rewrite parse_txin_eq. unfold read at 1. cbv iota beta. intros E.
  apply bind_ret_inv in E. destruct E as ([x s2] & E1 & E).
  apply bind_ret_inv in E. destruct E as ([sc s3] & E2 & E).
  apply bind_ret_inv in E. destruct E as ([q s4] & E3 & E). injection E as <- _.
  apply parse_varstr_len63 in E2.
  apply read_le_inv in E1. destruct E1 as [E1 Hx]. apply read_le_inv in E3. destruct E3 as [_ Hq].
  rewrite pow256_4 in Hx, Hq.
  assert (Hl : length (firstn 32 s) = 32%nat).
  { apply (f_equal (@length byte)) in E1. rewrite skipn_length, app_length, le_encode_length in E1.
    rewrite firstn_length. lia. }
  unfold txin_wf, u32, len64, zlen. cbn [ti_hash ti_index ti_sequence ti_script ti_witness length].
  rewrite two32Z, two64Z. repeat split; try lia; try assumption. constructor.
Qed.

Lemma parse_txout_wf s o r : parse_txout s = Ret (o, r) -> txout_wf o.
Proof.
  rewrite parse_txout_eq. intros E.
  apply bind_ret_inv in E. destruct E as ([v s1] & E1 & E).
  apply bind_ret_inv in E. destruct E as ([sc s2] & E2 & E). injection E as <- _.
  apply parse_varstr_len63 in E2. apply read_le_inv in E1. destruct E1 as [_ Hv]. rewrite pow256_8 in Hv.
  unfold txout_wf, u64. cbn [to_value to_script]. rewrite two64Z. split; [lia | assumption].
Qed.

Lemma parse_count_list_inv {A} (p : parser A) (P : A -> Prop) :
  (forall s x r, p s = Ret (x, r) -> P x) ->
  forall fuel count s l r, parse_count_list p fuel count s = Ret (l, r) -> Forall P l /\ N.of_nat (length l) = count.
Proof.
  intros Hp. induction fuel as [|f IH]; intros count s l r E; cbn [parse_count_list] in E.
  - destruct (count =? 0)%N eqn:C; [|discriminate]. injection E as <- _. split; [constructor | cbn [length]; lia].
  - destruct (count =? 0)%N eqn:C.
    + injection E as <- _. split; [constructor | cbn [length]; lia].
    + apply bind_ret_inv in E. destruct E as ([x s1] & E1 & E).
      apply bind_ret_inv in E. destruct E as ([xs s2] & E2 & E). injection E as <- _.
      apply IH in E2. destruct E2 as [F L]. split; [constructor; eauto | cbn [length]; lia].
Qed.

Lemma parse_witnesses_wf fuel ins : forall s ins' r, Forall txin_wf ins ->
  parse_witnesses fuel ins s = Ret (ins', r) -> Forall txin_wf ins' /\ length ins' = length ins.
Proof.
  induction ins as [|i ins IH]; intros s ins' r Hwf E; cbn [parse_witnesses] in E.
  - injection E as <- _. split; [constructor | reflexivity].
  - inversion Hwf as [|? ? Hi Hins]; subst.
    apply bind_ret_inv in E. destruct E as ([count s1] & E1 & E).
    apply bind_ret_inv in E. destruct E as ([stack s2] & E2 & E).
    apply bind_ret_inv in E. destruct E as ([r' s3] & E3 & E). injection E as <- _.
    apply parse_varint_lt64 in E1.
    destruct (parse_count_list_inv parse_varstr len63 parse_varstr_len63 _ _ _ _ _ E2) as [F L].
    destruct (IH _ _ _ Hins E3) as [F' L']. split; [|cbn [length]; lia].
    constructor; [|exact F']. destruct Hi as (A1 & A2 & A3 & A4 & _).
    unfold txin_wf, len64, zlen. cbn [ti_hash ti_index ti_script ti_sequence ti_witness].
    rewrite two64N in E1. rewrite two64Z. refine (conj A1 (conj A2 (conj A3 (conj A4 (conj _ F))))). lia.
Qed.

Lemma parse_tx_body_wf fuel ver seg v1 v2 s t r : u32 ver ->
  (forall x, v1 = Some x -> (x < 256)%N) -> (forall x, v2 = Some x -> (x < 256)%N) ->
  parse_tx_body fuel ver seg v1 v2 s = Ret (t, r) -> tx_wf t.
Proof.
  intros Hver H1 H2 E. unfold parse_tx_body in E.
  apply bind_ret_inv in E. destruct E as ([c s1] & E1 & E). apply parse_satoshi_int_lt64 in E1; [|exact H1].
  apply bind_ret_inv in E. destruct E as ([ins s2] & E2 & E).
  destruct (parse_count_list_inv parse_txin txin_wf parse_txin_wf _ _ _ _ _ E2) as [Fi Li].
  apply bind_ret_inv in E. destruct E as ([c2 s3] & E3 & E). apply parse_satoshi_int_lt64 in E3; [|exact H2].
  apply bind_ret_inv in E. destruct E as ([outs s4] & E4 & E).
  destruct (parse_count_list_inv parse_txout txout_wf parse_txout_wf _ _ _ _ _ E4) as [Fo Lo].
  apply bind_ret_inv in E. destruct E as ([ins' s5] & E5 & E).
  assert (W5 : Forall txin_wf ins' /\ length ins' = length ins).
  { destruct seg; [exact (parse_witnesses_wf _ _ _ _ _ Fi E5) | injection E5 as <- _; auto]. }
  destruct W5 as [Fi' Li'].
  apply bind_ret_inv in E. destruct E as ([lt s6] & E6 & E). apply parse_word_u32 in E6. injection E as <- _.
  unfold tx_wf, len64, zlen. cbn [tx_version tx_ins tx_outs tx_lock_time].
  rewrite two64N in E1, E3. rewrite two64Z. refine (conj Hver (conj E6 (conj Fi' (conj Fo (conj _ _))))); lia.
Qed.

Theorem parse_tx_wf a s t r : parse_tx a s = Ret (t, r) -> tx_wf t.
Proof.
  unfold parse_tx. intros E.
  apply bind_ret_inv in E. destruct E as ([ver s1] & E1 & E). apply parse_word_u32 in E1.
  destruct s1 as [|b1 s2]; [discriminate|].
  assert (B : forall b x, Some (b2n b) = Some x -> (x < 256)%N).
  { intros b x Hx. injection Hx as <-. apply b2n_lt. }
  assert (Nn : forall x, @None N = Some x -> (x < 256)%N) by discriminate.
  destruct (a && _).
  - destruct s2 as [|fl s3]; [discriminate|]. destruct (_ =? _)%N; [discriminate|].
    destruct (N.odd _); eapply parse_tx_body_wf in E; eauto.
  - eapply parse_tx_body_wf in E; eauto.
Qed.

(* so for a parsed transaction the total wrappers are the model's stream / hash results *)
Corollary parsed_tx_streams a s t r : parse_tx a s = Ret (t, r) ->
  stream_tx false true t = Ret (c07_stream t) /\ forall H, tx_hash H t None = Ret (c07_txhash H t) /\ c07_txhash H t = H (ser_legacy t).
Proof.
  intros E. apply parse_tx_wf in E. split; [apply c07_stream_ok; exact E | intros H; apply c07_txhash_ok; exact E].
Qed.

(* the transaction loop of Block.parse returns tx_wf transactions only *)
Lemma parse_txs_wf fuel : forall count s ts r, parse_txs tx c07_parse fuel count s = Ret (ts, r) -> Forall tx_wf ts.
Proof.
  induction fuel as [|f IH]; intros count s ts r E; cbn [parse_txs] in E.
  - destruct (count =? 0)%N; [|discriminate]. injection E as <- _. constructor.
  - destruct (count =? 0)%N; [injection E as <- _; constructor|].
    apply bind_ret_inv in E. destruct E as ([t s1] & E1 & E).
    apply bind_ret_inv in E. destruct E as ([ts' s2] & E2 & E). injection E as <- _.
    constructor; [exact (parse_tx_wf _ _ _ _ E1) | exact (IH _ _ _ _ E2)].
Qed.

Lemma c_block_stream_bytes0 h ts : wf_header h -> ts <> [] -> (N.of_nat (length ts) < 2 ^ 64)%N ->
  block_stream tx c07_stream (mkBlock tx h ts) = Ret (header_bytes h ++ compact_size (zlen ts) ++ concat (map c07_stream ts)).
Proof.
  intros W Hne Hlen.
  unfold block_stream. cbn [b_header b_txs]. rewrite stream_header_wf by exact W. cbn [bind].
  destruct ts as [|t0 ts0] eqn:Ets; [congruence|]. rewrite <- Ets in *.
  assert (Hz : (0 <= zlen ts < 2 ^ 64)%Z).
  { unfold zlen. rewrite two64Z. rewrite two64N in Hlen. lia. }
  rewrite <- zlen_N, stream_varint_spec by exact Hz. reflexivity.
Qed.

(* ---- composed block theorems ------------------------------------------------------------------------------------- *)
Section Composed.
Variable Htx : bytes -> bytes.        (* the hash of the Tx class: double SHA-256 (Bitcoin), SHA-256 (Groestlcoin) *)
Variable dsha256 : bytes -> bytes.    (* Block's double_sha256 (header hash and merkle tree) *)

Notation blk := (block tx).
Notation bparse := (block_parse tx c07_parse (c07_txhash Htx) dsha256).
Notation bstream := (block_stream tx c07_stream).

Theorem c_block_roundtrip h ts : wf_header h -> ts <> [] -> (N.of_nat (length ts) < 2 ^ 64)%N -> Forall tx_ok ts ->
  h_merkle_root h = merkle_root dsha256 (map (c07_txhash Htx) ts) ->
  exists s, bstream (mkBlock tx h ts) = Ret s /\ forall rest, bparse true true (s ++ rest) = Ret (mkBlock tx h ts, rest).
Proof.
  intros W Hne Hlen Hok Hroot.
  exact (block_roundtrip tx c07_parse c07_stream (c07_txhash Htx) dsha256 h ts c07_consumes W Hne Hlen (c07_frame_all ts Hok) Hroot).
Qed.

Theorem c_block_parse_of_stream h ts check : wf_header h -> ts <> [] -> (N.of_nat (length ts) < 2 ^ 64)%N -> Forall tx_ok ts ->
  exists s, bstream (mkBlock tx h ts) = Ret s /\ forall rest,
    bparse true check (s ++ rest) =
      if negb check || bytes_eqb (merkle_root dsha256 (map (c07_txhash Htx) ts)) (h_merkle_root h)
      then Ret (mkBlock tx h ts, rest) else Raise E_BADMERKLE.
Proof.
  intros W Hne Hlen Hok.
  exact (block_parse_of_stream tx c07_parse c07_stream (c07_txhash Htx) dsha256 h ts check c07_consumes W Hne Hlen (c07_frame_all ts Hok)).
Qed.

Theorem c_block_bad_root_rejected h ts : wf_header h -> ts <> [] -> (N.of_nat (length ts) < 2 ^ 64)%N -> Forall tx_ok ts ->
  h_merkle_root h <> merkle_root dsha256 (map (c07_txhash Htx) ts) ->
  exists s, bstream (mkBlock tx h ts) = Ret s /\ forall rest, bparse true true (s ++ rest) = Raise E_BADMERKLE.
Proof.
  intros W Hne Hlen Hok Hroot.
  exact (block_bad_root_rejected tx c07_parse c07_stream (c07_txhash Htx) dsha256 h ts c07_consumes W Hne Hlen (c07_frame_all ts Hok) Hroot).
Qed.

(* the streamed bytes and the hashed bytes, spelled out with C07's wire-format specification *)
Lemma c_block_stream_bytes h ts : wf_header h -> ts <> [] -> (N.of_nat (length ts) < 2 ^ 64)%N -> Forall tx_wf ts ->
  bstream (mkBlock tx h ts) = Ret (header_bytes h ++ compact_size (zlen ts) ++ concat (map c07_stream ts)) /\
  Forall (fun t => wire_format t (c07_stream t)) ts /\
  map (c07_txhash Htx) ts = map (fun t => Htx (ser_legacy t)) ts.
Proof.
  intros W Hne Hlen Hwf. split; [|split].
  - now apply c_block_stream_bytes0.
  - eapply Forall_impl; [|exact Hwf]. intros t Wt. now destruct (c07_stream_ok t Wt).
  - apply map_ext_in. intros t Hin. rewrite Forall_forall in Hwf. now destruct (c07_txhash_ok Htx t (Hwf t Hin)).
Qed.

(* whatever the bytes: an accepted block with transactions carries the root of the ids of its transactions, every
   transaction is well formed, and the ids are the hashes of the witness-stripped serialisations *)
Theorem c_block_accepted_root s b rest : bparse true true s = Ret (b, rest) -> b_txs tx b <> [] ->
  Forall tx_wf (b_txs tx b) /\
  h_merkle_root (b_header tx b) = merkle_root dsha256 (map (fun t => Htx (ser_legacy t)) (b_txs tx b)) /\
  mapM (fun t => tx_hash Htx t None) (b_txs tx b) = Ret (map (fun t => Htx (ser_legacy t)) (b_txs tx b)).
Proof.
  intros E Hne.
  pose proof (block_accepted_root tx c07_parse (c07_txhash Htx) dsha256 s b rest E Hne) as R.
  assert (Wf : Forall tx_wf (b_txs tx b)).
  { unfold block_parse in E.
    apply bind_ret_inv in E. destruct E as ([h s1] & E1 & E).
    apply bind_ret_inv in E. destruct E as ([count s2] & E2 & E).
    apply bind_ret_inv in E. destruct E as ([ts s3] & E3 & E).
    apply bind_ret_inv in E. destruct E as (b' & E4 & E). injection E as <- _.
    apply parse_txs_wf in E3. unfold set_txs in E4. destruct ts as [|t0 ts0] eqn:Ets.
    - injection E4 as <-. constructor.
    - apply bind_ret_inv in E4. destruct E4 as (? & _ & E4). injection E4 as <-. exact E3. }
  assert (M : map (c07_txhash Htx) (b_txs tx b) = map (fun t => Htx (ser_legacy t)) (b_txs tx b)).
  { apply map_ext_in. intros t Hin. rewrite Forall_forall in Wf. now destruct (c07_txhash_ok Htx t (Wf t Hin)). }
  split; [exact Wf|]. split; [now rewrite <- M|]. rewrite <- M. now apply mapM_txhash_c07.
Qed.

Theorem c_block_parse_total inc check s : bparse inc check s <> OutOfFuel.
Proof. exact (block_parse_total tx c07_parse c07_stream (c07_txhash Htx) dsha256 inc check s c07_consumes c07_total). Qed.

(* ---- bytes -> block -> bytes on canonical bytes ------------------------------------------------------------------ *)
(* the strict transaction decoder of C07, iterated: what Block.parse's loop returns on canonical bytes *)
Lemma d_seq_strict n : forall s ts r, d_seq decode_strict n s = Some (ts, r) ->
  (forall fuel, n <= fuel -> parse_txs tx c07_parse fuel (N.of_nat n) s = Ret (ts, r)) /\
  s = concat (map c07_stream ts) ++ r /\ length ts = n /\ Forall tx_ok ts.
Proof.
  induction n as [|n IH]; intros s ts r H; cbn [d_seq] in H.
  - injection H as <- <-. split; [intros fuel _; destruct fuel; reflexivity|]. repeat split. constructor.
  - apply obind_some in H. destruct H as ([x r1] & Hx & H). apply obind_some in H.
    destruct H as ([xs r2] & Hxs & H). injection H as <- <-.
    destruct (stream_parse_canonical _ _ _ Hx) as (P & w & Sw & ->).
    destruct (decode_strict_sound _ _ _ Hx) as (Wx & Nx & _).
    destruct (IH _ _ _ Hxs) as (IH1 & -> & IH3 & IH4).
    assert (Ew : c07_stream x = w) by (unfold c07_stream; rewrite Sw; reflexivity).
    split; [|split; [|split]].
    + intros fuel Hf. destruct fuel as [|f]; [lia|]. cbn [parse_txs].
      replace (N.of_nat (S n) =? 0)%N with false by lia.
      unfold c07_parse at 1. rewrite P. cbn [bind].
      replace (N.of_nat (S n) - 1)%N with (N.of_nat n) by lia. rewrite IH1 by lia. reflexivity.
    + cbn [map concat]. rewrite Ew, <- app_assoc. reflexivity.
    + cbn [length]. lia.
    + constructor; [split; assumption | exact IH4].
Qed.

(* a byte string is a CANONICAL block serialisation when, after the 80 header bytes, C07's strict decoder reads a
   minimally encoded count followed by that many canonical transactions (d_vec decode_strict).  On such bytes
   Block.parse is completely determined, and re-serialising gives the bytes back. *)
Theorem block_parse_strict s ts rest : 80 <= length s -> d_vec decode_strict (skipn 80 s) = Some (ts, rest) ->
  exists h c, parse_header s = Ret (h, skipn 80 s) /\ wf_header h /\ stream_header h = Ret (firstn 80 s) /\
    Forall tx_ok ts /\ stream_varint (N.of_nat (length ts)) = Ret c /\
    s = firstn 80 s ++ c ++ concat (map c07_stream ts) ++ rest /\
    forall check, bparse true check s = do b <- set_txs tx (c07_txhash Htx) dsha256 h ts check; Ret (b, rest).
Proof.
  intros Hl Hd. destruct (header_parse_long s Hl) as (h & E1 & E2 & W).
  unfold d_vec in Hd. apply obind_some in Hd. destruct Hd as ([n r1] & Hc & Hd).
  destruct (n <=? N.of_nat (length r1))%N eqn:Hn; [|discriminate].
  unfold d_compact in Hc. destruct (varint_canonical (skipn 80 s)) eqn:C; [|discriminate].
  destruct (parse_varint (skipn 80 s)) as [[n' r1']| |] eqn:P; try discriminate. injection Hc as -> ->.
  destruct (varint_parse_inv _ _ _ P C) as (c & Sc & Es).
  destruct (d_seq_strict _ _ _ _ Hd) as (Pt & -> & Lt & Ok).
  exists h, c. split; [exact E1|]. split; [exact W|]. split; [exact E2|]. split; [exact Ok|].
  assert (Ln : N.of_nat (length ts) = n) by lia.
  split; [rewrite Ln; exact Sc|]. split.
  - rewrite <- Es. symmetry. apply firstn_skipn.
  - intros check. unfold block_parse. rewrite E1. cbn [bind]. rewrite P. cbn [bind].
    specialize (Pt (S (length (concat (map c07_stream ts) ++ rest))) ltac:(lia)).
    rewrite N2Nat.id in Pt. rewrite Pt. cbn [bind]. reflexivity.
Qed.

Theorem c_block_parse_canonical s ts rest : 80 <= length s -> d_vec decode_strict (skipn 80 s) = Some (ts, rest) -> ts <> [] ->
  exists h, wf_header h /\ stream_header h = Ret (firstn 80 s) /\ Forall tx_ok ts /\
    (forall check, bparse true check s =
       if negb check || bytes_eqb (merkle_root dsha256 (map (c07_txhash Htx) ts)) (h_merkle_root h)
       then Ret (mkBlock tx h ts, rest) else Raise E_BADMERKLE) /\
    exists p, bstream (mkBlock tx h ts) = Ret p /\ s = p ++ rest.
Proof.
  intros Hl Hd Hne. destruct (block_parse_strict s ts rest Hl Hd) as (h & c & E1 & W & E2 & Ok & Sc & Es & Bp).
  exists h. split; [exact W|]. split; [exact E2|]. split; [exact Ok|]. split.
  - intros check. rewrite Bp. unfold set_txs. destruct ts as [|t0 ts0] eqn:Ets; [congruence|]. rewrite <- Ets in *.
    destruct check; cbn [negb orb bind]; [|reflexivity].
    rewrite (check_merkle_iff tx (c07_txhash Htx) dsha256) by exact Hne.
    destruct (bytes_eqb _ _); reflexivity.
  - unfold block_stream. cbn [b_header b_txs]. rewrite E2. cbn [bind].
    destruct ts as [|t0 ts0] eqn:Ets; [congruence|]. rewrite <- Ets in *.
    rewrite Sc. cbn [bind]. eexists. split; [reflexivity|]. rewrite <- !app_assoc. exact Es.
Qed.

(* the same in the shape of C14_block_parse_roundtrip: tx_parser_exact replaced by canonicity of the bytes *)
Theorem c_block_stream_of_parse check s b rest : bparse true check s = Ret (b, rest) -> b_txs tx b <> [] ->
  (exists ts r, d_vec decode_strict (skipn 80 s) = Some (ts, r)) ->
  exists p, bstream b = Ret p /\ s = p ++ rest.
Proof.
  intros E Hne (ts & r & Hd).
  assert (Hl : 80 <= length s).
  { destruct (header_parse_cases s) as [[L _]|[_ Es]]; [exact L|].
    unfold block_parse in E. rewrite Es in E. discriminate. }
  destruct (block_parse_strict s ts r Hl Hd) as (h & c & E1 & W & E2 & Ok & Sc & Es & Bp).
  rewrite Bp in E. apply bind_ret_inv in E. destruct E as (b' & E4 & E). injection E as <- <-.
  assert (Eb : b' = mkBlock tx h ts).
  { unfold set_txs in E4. destruct ts; [now injection E4|]. destruct check.
    - apply bind_ret_inv in E4. destruct E4 as (? & _ & E4). now injection E4.
    - now injection E4. }
  subst b'. cbn [b_txs] in Hne.
  unfold block_stream. cbn [b_header b_txs]. rewrite E2. cbn [bind].
  destruct ts as [|t0 ts0] eqn:Ets; [congruence|]. rewrite <- Ets in *.
  rewrite Sc. cbn [bind]. eexists. split; [reflexivity|]. rewrite <- !app_assoc. exact Es.
Qed.

End Composed.

(* canonicity is not too narrow: every streamed block of well-formed transactions is canonical *)
Theorem block_stream_is_canonical h ts s rest : wf_header h -> ts <> [] -> (N.of_nat (length ts) < 2 ^ 64)%N ->
  Forall tx_ok ts -> block_stream tx c07_stream (mkBlock tx h ts) = Ret s ->
  80 <= length (s ++ rest) /\ d_vec decode_strict (skipn 80 (s ++ rest)) = Some (ts, rest).
Proof.
  intros W Hne Hlen Hok Hs.
  assert (Hwf : Forall tx_wf ts) by (eapply Forall_impl; [|exact Hok]; intros t [Wt _]; exact Wt).
  pose proof (c_block_stream_bytes0 h ts W Hne Hlen) as Sb. rewrite Sb in Hs.
  assert (Es : s = header_bytes h ++ compact_size (zlen ts) ++ concat (map c07_stream ts)) by congruence.
  subst s. clear Hs.
  assert (Lh : length (header_bytes h) = 80).
  { destruct W as (_ & Hp & Hm & _). unfold header_bytes. rewrite !app_length, !le_encode_length. lia. }
  split; [rewrite !app_length; lia|].
  rewrite <- app_assoc. rewrite <- Lh at 1. rewrite skipn_app_exact.
  assert (L64 : len64 ts). { unfold len64, zlen. rewrite two64Z. rewrite two64N in Hlen. lia. }
  pose proof (d_vec_frame decode_strict c07_stream (fun t => t) ts rest L64) as F.
  unfold ser_vec in F. rewrite map_id in F. rewrite <- app_assoc. rewrite <- app_assoc in F. apply F.
  intros x Hx. rewrite Forall_forall in Hok. destruct (Hok x Hx) as [Wx Nx].
  destruct (c07_stream_ok x Wx) as [_ Fx]. split.
  - pose proof (stream_nonempty tx c07_parse c07_stream (fun _ => []) (fun b => b) x c07_consumes (c07_frame x (conj Wx Nx))) as Ne.
    destruct (c07_stream x); [congruence | cbn [length]; lia].
  - intros r. apply decode_strict_complete; assumption.
Qed.
