(* Proofs/Bip32P.v — lemmas about Model/Bip32.v (C09).  The group, its encodings and the hash functions are Section
   variables; what a lemma needs of them is a Section hypothesis, and after the Section each lemma is generalised over
   exactly the hypotheses its proof uses. *)
From Coq Require Import List ZArith NArith Bool Lia.
From Coq Require Import Strings.Byte.
From PV Require Import Base.Bytes Base.Outcome Model.Bip32 Spec.Bip32Spec.
Import ListNotations.
Local Open Scope Z_scope.
Local Open Scope outcome_scope.

(* ---------------------------------------------------------------------------------------------- *)
(* group-independent facts *)

Lemma land_mask i : 0 <= i < 2 ^ 31 -> Z.land i 2147483647 = i.
Proof.
  intros H. change 2147483647 with (Z.ones 31). rewrite Z.land_ones by lia. apply Z.mod_small. lia.
Qed.

Lemma lor_hbit i : 0 <= i < 2 ^ 31 -> Z.lor i 2147483648 = i + 2 ^ 31.
Proof.
  intros H. change 2147483648 with (2 ^ 31).
  assert (L : Z.land i (2 ^ 31) = 0).
  { apply Z.bits_inj'. intros m Hm. rewrite Z.land_spec, Z.bits_0, Z.pow2_bits_eqb by lia.
    destruct (Z.eqb_spec 31 m) as [<-|]; [|apply andb_false_r].
    rewrite andb_true_r. apply Z.testbit_false; [lia|]. rewrite Z.div_small by lia. reflexivity. }
  rewrite Z.add_nocarry_lxor by exact L. symmetry. apply Z.lxor_lor. exact L.
Qed.

Lemma pack_BE_L_ok i : 0 <= i < 2 ^ 32 -> pack_BE_L i = Ret (be_encode 4 (Z.to_N i)).
Proof.
  intros H. unfold pack_BE_L.
  replace ((0 <=? i) && (i <? 2 ^ 32)) with true; [reflexivity|].
  symmetry. apply andb_true_intro. split; [apply Z.leb_le|apply Z.ltb_lt]; lia.
Qed.

Lemma pack_BE_l_ok i : 0 <= i < 2 ^ 31 -> pack_BE_l i = Ret (be_encode 4 (Z.to_N i)).
Proof.
  intros H. unfold pack_BE_l.
  replace ((- 2 ^ 31 <=? i) && (i <? 2 ^ 31)) with true.
  - rewrite Z.mod_small by lia. reflexivity.
  - symmetry. apply andb_true_intro. split; [apply Z.leb_le|apply Z.ltb_lt]; lia.
Qed.

Lemma to_bytes_32_ok k : 0 <= k < 2 ^ 256 -> to_bytes_32 k = Ret (be_encode 32 (Z.to_N k)).
Proof.
  intros H. unfold to_bytes_32.
  replace ((0 <=? k) && (k <? 2 ^ 256)) with true; [reflexivity|].
  symmetry. apply andb_true_intro. split; [apply Z.leb_le|apply Z.ltb_lt]; lia.
Qed.

Lemma from_to_bytes_32 k : 0 <= k < 2 ^ 256 -> from_bytes_32 (be_encode 32 (Z.to_N k)) = k.
Proof.
  intros H. unfold from_bytes_32. rewrite be_decode_encode.
  - lia.
  - assert (E : (256 ^ N.of_nat 32)%N = Z.to_N (2 ^ 256)) by (vm_compute; reflexivity). rewrite E. lia.
Qed.

Lemma from_bytes_32_range b : length b = 32%nat -> 0 <= from_bytes_32 b < 2 ^ 256.
Proof.
  intros H. unfold from_bytes_32, be_decode. pose proof (le_decode_bound (rev b)) as B.
  rewrite rev_length, H in B.
  assert (E : (256 ^ N.of_nat 32)%N = Z.to_N (2 ^ 256)) by (vm_compute; reflexivity). rewrite E in B. lia.
Qed.

Lemma to_from_bytes_32 b : length b = 32%nat -> be_encode 32 (Z.to_N (from_bytes_32 b)) = b.
Proof.
  intros H. unfold from_bytes_32. rewrite N2Z.id. rewrite <- H. apply be_encode_decode.
Qed.

Lemma be4_roundtrip i : 0 <= i < 2 ^ 32 -> Z.of_N (be_decode (be_encode 4 (Z.to_N i))) = i.
Proof.
  intros H. rewrite be_decode_encode; [lia|].
  assert (E : (256 ^ N.of_nat 4)%N = Z.to_N (2 ^ 32)) by (vm_compute; reflexivity). rewrite E. lia.
Qed.

Lemma starts_with_app p d : starts_with p (p ++ d) = true.
Proof. induction p as [|a p IH]; cbn; [reflexivity|]. now rewrite byte_eqb_refl, IH. Qed.

Lemma starts_with_length_neq p q d :
  length p = length q -> p <> q -> starts_with p (q ++ d) = false.
Proof.
  revert q. induction p as [|a p IH]; intros [|b q] L N; cbn in *; try discriminate; try congruence.
  destruct (byte_eqb a b) eqn:E; [|reflexivity]. cbn. apply byte_eqb_eq in E. subst b.
  apply IH; [lia|congruence].
Qed.

Lemma skipn_plus {A} (m n : nat) : forall l : list A, skipn (m + n) l = skipn n (skipn m l).
Proof.
  induction m as [|m IH]; intros l; [reflexivity|]. destruct l as [|x l]; cbn [Nat.add skipn].
  - now destruct n.
  - apply IH.
Qed.

Lemma firstn_skipn_len {A} (l : list A) n m : length l = (n + m)%nat -> length (skipn n l) = m.
Proof. intros. rewrite skipn_length. lia. Qed.

(* ---- the child index with the hardened bit ---- *)
Definition child_number (i : Z) (h : bool) : Z := if h then i + 2 ^ 31 else i.

Lemma index_bits i (h : bool) : 0 <= i < 2 ^ 31 ->
  (if h then Z.lor (Z.land i 2147483647) 2147483648 else Z.land i 2147483647) = child_number i h.
Proof. intros H. rewrite land_mask by exact H. destruct h; cbn; [apply lor_hbit; exact H|reflexivity]. Qed.

Lemma range_tests i : 0 <= i < 2 ^ 31 -> (i <? 0) = false /\ (2147483648 <=? i) = false.
Proof. intros H. split; [apply Z.ltb_ge|apply Z.leb_gt]; lia. Qed.

Lemma child_number_range i h : 0 <= i < 2 ^ 31 -> 0 <= child_number i h < 2 ^ 32.
Proof. intros H. unfold child_number. destruct h; lia. Qed.

Lemma hardened_child_number i h : 0 <= i < 2 ^ 31 -> hardened (child_number i h) = h.
Proof.
  intros H. unfold hardened, child_number. destruct h; [apply Z.leb_le|apply Z.leb_gt]; lia.
Qed.

Lemma from_bytes_32_nonneg b : 0 <= from_bytes_32 b.
Proof. unfold from_bytes_32. lia. Qed.

(* ---------------------------------------------------------------------------------------------- *)
Section WithGroup.
Variable pt : Type.
Variable padd : pt -> pt -> pt.
Variable pO : pt.
Variable smul : Z -> pt -> pt.
Variable pG : pt.
Variable order : Z.
Variable pt_eqb : pt -> pt -> bool.
Variable sec : pt -> bytes.
Variable xy : pt -> bytes.
Variable unsec : bytes -> outcome pt.
Variable hmac512 : bytes -> bytes -> bytes.
Variable hash160 : bytes -> bytes.
Variable dsha256 : bytes -> bytes.
Variable b58enc : N -> bytes -> bytes.
Variable b58dec : N -> bytes -> option bytes.
Variable loop_fuel : nat.

(* what the theorems assume of the parameters *)
Hypothesis order_range : 1 < order <= 2 ^ 256.
Hypothesis smul_add : forall a b, smul (a + b) pG = padd (smul a pG) (smul b pG).
Hypothesis smul_mod : forall a, smul (a mod order) pG = smul a pG.
Hypothesis smul_zero : forall a, smul a pG = pO <-> a mod order = 0.
Hypothesis pt_eqb_spec : forall P Q, pt_eqb P Q = true <-> P = Q.
Hypothesis hmac_len : forall k m, length (hmac512 k m) = 64%nat.
Hypothesis hash160_len : forall b, length (hash160 b) = 20%nat.
Hypothesis sec_len : forall P, P <> pO -> length (sec P) = 33%nat.
Hypothesis sec_head : forall P, P <> pO -> exists b r, sec P = b :: r /\ b <> x00.
Hypothesis unsec_sec : forall P, P <> pO -> unsec (sec P) = Ret P.
Hypothesis fuel_pos : (0 < loop_fuel)%nat.
Hypothesis b58_roundtrip : forall c b, b58dec c (b58enc c b) = Some b.

(* lia looks at every hypothesis of the context and would make each lemma depend on all Section hypotheses:
   drop the ones that are not arithmetic first *)
Ltac clr := try clear b58_roundtrip; try clear b58enc; try clear b58dec; try clear unsec_sec; try clear unsec;
  try clear xy; try clear dsha256; try clear sec_head; try clear sec_len; try clear hash160_len;
  try clear hmac_len; try clear pt_eqb_spec; try clear smul_zero; try clear smul_mod; try clear smul_add.
Ltac glia := clr; lia.

Notation node := (node pt).
Notation mkNode := (mkNode pt).
Notation key_init := (key_init pt pO smul pG order pt_eqb).
Notation node_init := (node_init pt pO smul pG order pt_eqb).
Notation public_copy := (public_copy pt pO smul pG order pt_eqb).
Notation fingerprint := (fingerprint pt sec hash160).
Notation ckd_priv_loop := (ckd_priv_loop order hmac512).
Notation ckd_priv := (subkey_secret_exponent_chain_code_pair pt smul pG order sec hmac512).
Notation ckd_pub := (subkey_public_pair_chain_code_pair pt padd pO smul pG order pt_eqb sec hmac512).
Notation subkey_raw := (subkey_raw pt padd pO smul pG order pt_eqb sec hmac512 hash160 loop_fuel).
Notation serialize := (serialize pt sec).
Notation deserialize := (deserialize pt pO smul pG order pt_eqb unsec).
Notation from_master_secret := (from_master_secret pt pO smul pG order pt_eqb hmac512).

Lemma pt_eqb_false P Q : P <> Q -> pt_eqb P Q = false.
Proof. intros H. destruct (pt_eqb P Q) eqn:E; [|reflexivity]. apply pt_eqb_spec in E. contradiction. Qed.

Lemma smul_nonzero k : 1 <= k < order -> smul k pG <> pO.
Proof. intros H E. apply smul_zero in E. rewrite Z.mod_small in E by glia. glia. Qed.

(* well-formed node: what __init__ guarantees *)
Definition wf_node (nd : node) : Prop :=
  length (nd_chain pt nd) = 32%nat /\ length (nd_fpr pt nd) = 4%nat /\ nd_point pt nd <> pO /\
  match nd_secret pt nd with
  | Some k => 1 <= k < order /\ nd_point pt nd = smul k pG
  | None => True
  end.

Lemma key_init_prv k : 1 <= k < order -> key_init (Some k) None = Ret (Some k, smul k pG).
Proof.
  intros H. unfold Bip32.key_init.
  replace ((k <? 1) || (order <=? k)) with false.
  - rewrite pt_eqb_false by (apply smul_nonzero; exact H). reflexivity.
  - symmetry. apply orb_false_intro; [apply Z.ltb_ge|apply Z.leb_gt]; glia.
Qed.

Lemma key_init_pub P : P <> pO -> key_init None (Some P) = Ret (None, P).
Proof. intros H. unfold Bip32.key_init. now rewrite pt_eqb_false. Qed.

Lemma node_init_prv chain d f i k :
  length chain = 32%nat -> length f = 4%nat -> 1 <= k < order ->
  node_init chain d f i (Some k) None = Ret (mkNode chain d f i (Some k) (smul k pG)).
Proof.
  intros Hc Hf Hk. unfold Bip32.node_init. rewrite key_init_prv by exact Hk. cbn [bind].
  replace (k =? 0) with false by (symmetry; apply Z.eqb_neq; glia).
  rewrite to_bytes_32_ok by glia. cbn [bind]. rewrite Hc, Hf. reflexivity.
Qed.

Lemma node_init_pub chain d f i P :
  length chain = 32%nat -> length f = 4%nat -> P <> pO ->
  node_init chain d f i None (Some P) = Ret (mkNode chain d f i None P).
Proof.
  intros Hc Hf HP. unfold Bip32.node_init. rewrite key_init_pub by exact HP. cbn [bind].
  rewrite Hc, Hf. reflexivity.
Qed.

Lemma node_init_wf chain d f i s p nd : node_init chain d f i s p = Ret nd -> wf_node nd.
Proof.
  unfold Bip32.node_init, Bip32.key_init. intros H.
  destruct s as [k|], p as [P|]; cbn [bind] in H; try discriminate.
  - destruct ((k <? 1) || (order <=? k)) eqn:R; [discriminate|].
    destruct (pt_eqb (smul k pG) pO) eqn:E; [discriminate|]. cbn [bind] in H.
    destruct (if k =? 0 then Ret [] else to_bytes_32 k); cbn [bind] in H; try discriminate.
    destruct (Nat.eqb (length chain) 32) eqn:Lc; cbn [negb] in H; [|discriminate].
    destruct (Nat.eqb (length f) 4) eqn:Lf; cbn [negb] in H; [|discriminate].
    injection H as <-. apply Nat.eqb_eq in Lc, Lf. apply orb_false_elim in R. destruct R as [R1 R2].
    apply Z.ltb_ge in R1. apply Z.leb_gt in R2.
    repeat split; cbn; try assumption; try glia.
    intros Q. rewrite <- Q in E. rewrite (proj2 (pt_eqb_spec _ _) eq_refl) in E. discriminate.
  - destruct (pt_eqb P pO) eqn:E; [discriminate|]. cbn [bind] in H.
    destruct (Nat.eqb (length chain) 32) eqn:Lc; cbn [negb] in H; [|discriminate].
    destruct (Nat.eqb (length f) 4) eqn:Lf; cbn [negb] in H; [|discriminate].
    injection H as <-. apply Nat.eqb_eq in Lc, Lf.
    repeat split; cbn; try assumption.
    intros Q. rewrite Q in E. rewrite (proj2 (pt_eqb_spec _ _) eq_refl) in E. discriminate.
Qed.

Lemma node_init_fields chain d f i s p nd : node_init chain d f i s p = Ret nd ->
  nd_chain pt nd = chain /\ nd_depth pt nd = d /\ nd_fpr pt nd = f /\ nd_index pt nd = i.
Proof.
  unfold Bip32.node_init. intros H.
  destruct (key_init s p) as [[s' P]| |]; cbn [bind] in H; try discriminate.
  match type of H with bind ?m _ = _ => destruct m end; cbn [bind] in H; try discriminate.
  destruct (negb _) in H; [discriminate|]. destruct (negb _) in H; [discriminate|].
  injection H as <-. repeat split.
Qed.

Definition neuter_node (nd : node) : node :=
  mkNode (nd_chain pt nd) (nd_depth pt nd) (nd_fpr pt nd) (nd_index pt nd) None (nd_point pt nd).

Lemma public_copy_ok nd : wf_node nd -> public_copy nd = Ret (neuter_node nd).
Proof. intros (Hc & Hf & HP & _). unfold Bip32.public_copy. now apply node_init_pub. Qed.

Lemma neuter_wf nd : wf_node nd -> wf_node (neuter_node nd).
Proof. intros (Hc & Hf & HP & _). repeat split; assumption. Qed.

Lemma fingerprint_len nd : length (fingerprint nd) = 4%nat.
Proof. unfold Bip32.fingerprint. rewrite firstn_length, hash160_len. reflexivity. Qed.


(* HMAC input of the first attempt of the private derivation *)
Definition priv_data (k : Z) (P : pt) (i' : Z) (h : bool) : bytes :=
  if h then x00 :: be_encode 32 (Z.to_N k) ++ be_encode 4 (Z.to_N i')
  else sec P ++ be_encode 4 (Z.to_N i').

(* ---- private derivation: first attempt succeeds ---- *)
Lemma ckd_priv_first k chain i' h P :
  1 <= k < order -> 0 <= i' < 2 ^ 32 ->
  let I64 := hmac512 chain (priv_data k P i' h) in
  let IL := from_bytes_32 (firstn 32 I64) in
  IL < order -> (IL + k) mod order <> 0 ->
  ckd_priv loop_fuel k chain i' h (Some P) = Ret ((IL + k) mod order, skipn 32 I64).
Proof.
  intros Hk Hi I64 IL H1 H2. unfold subkey_secret_exponent_chain_code_pair.
  rewrite pack_BE_L_ok by exact Hi. cbn [bind].
  assert (D : (if h then do kb <- to_bytes_32 k; Ret (x00 :: kb ++ be_encode 4 (Z.to_N i'))
               else Ret (sec P ++ be_encode 4 (Z.to_N i'))) = Ret (priv_data k P i' h)).
  { unfold priv_data. destruct h; [|reflexivity]. rewrite to_bytes_32_ok by glia. reflexivity. }
  rewrite D. cbn [bind]. destruct loop_fuel as [|f]; [glia|]. cbn [Bip32.ckd_priv_loop].
  fold I64. fold IL.
  replace (IL <? order) with true by (symmetry; apply Z.ltb_lt; exact H1).
  replace ((IL + k) mod order =? 0) with false by (symmetry; apply Z.eqb_neq; exact H2).
  reflexivity.
Qed.

(* every successful private derivation: the result comes from an HMAC over an input that ENDS with the 4-byte
   big-endian child number, and passed the two tests *)
Lemma ckd_priv_loop_inv fuel k chain ib : forall pre0 k' c',
  ckd_priv_loop fuel k chain (pre0 ++ ib) ib = Ret (k', c') ->
  exists pre, let I64 := hmac512 chain (pre ++ ib) in
    c' = skipn 32 I64 /\ k' = (from_bytes_32 (firstn 32 I64) + k) mod order /\
    from_bytes_32 (firstn 32 I64) < order /\ k' <> 0.
Proof.
  induction fuel as [|f IH]; intros pre0 k' c' H; [discriminate|]. cbn [Bip32.ckd_priv_loop] in H.
  set (I64 := hmac512 chain (pre0 ++ ib)) in *.
  destruct (from_bytes_32 (firstn 32 I64) <? order) eqn:T1; cbn [andb] in H.
  - destruct ((from_bytes_32 (firstn 32 I64) + k) mod order =? 0) eqn:T2; cbn [negb] in H.
    + apply (IH (x01 :: skipn 32 I64)). exact H.
    + injection H as <- <-. exists pre0. cbn zeta. fold I64.
      apply Z.ltb_lt in T1. apply Z.eqb_neq in T2. repeat split; assumption.
  - apply (IH (x01 :: skipn 32 I64)). exact H.
Qed.

(* ---- _subkey on a private node, first attempt succeeds ---- *)
Definition first_I64 (nd : node) (i : Z) (h : bool) : bytes :=
  match nd_secret pt nd with
  | Some k => hmac512 (nd_chain pt nd) (priv_data k (nd_point pt nd) (child_number i h) h)
  | None => hmac512 (nd_chain pt nd) (sec (nd_point pt nd) ++ be_encode 4 (Z.to_N (child_number i h)))
  end.
Definition first_IL (nd : node) (i : Z) (h : bool) : Z := from_bytes_32 (firstn 32 (first_I64 nd i h)).



Lemma skip32_len k m : length (skipn 32 (hmac512 k m)) = 32%nat.
Proof. rewrite skipn_length, hmac_len. reflexivity. Qed.

Lemma subkey_raw_prv nd k i h :
  wf_node nd -> nd_secret pt nd = Some k -> 0 <= i < 2 ^ 31 ->
  first_IL nd i h < order -> (first_IL nd i h + k) mod order <> 0 ->
  let k' := (first_IL nd i h + k) mod order in
  let child := mkNode (skipn 32 (first_I64 nd i h)) (nd_depth pt nd + 1) (fingerprint nd) (child_number i h)
                      (Some k') (smul k' pG) in
  subkey_raw nd i h true = Ret child /\ subkey_raw nd i h false = Ret (neuter_node child) /\ wf_node child.
Proof.
  intros W S Hi H1 H2 k' child. destruct W as (Hc & Hf & HP & Hs). rewrite S in Hs. destruct Hs as [Hk HPk].
  pose proof (Z.mod_pos_bound (first_IL nd i h + k) order ltac:(glia)) as B.
  assert (Wc : wf_node child).
  { repeat split; cbn; try (apply skip32_len || apply fingerprint_len || glia);
      try (unfold first_I64; rewrite S; apply skip32_len); try (apply smul_nonzero; unfold k'; glia); unfold k'; glia. }
  assert (R : forall ap, subkey_raw nd i h ap = if ap then Ret child else public_copy child).
  { intros ap. unfold Bip32.subkey_raw. destruct (range_tests i Hi) as [-> ->].
    rewrite (index_bits i h Hi). rewrite S.
    unfold first_IL, first_I64 in H1, H2. rewrite S in H1, H2.
    rewrite (ckd_priv_first k (nd_chain pt nd) (child_number i h) h (nd_point pt nd) Hk
               (child_number_range i h Hi) H1 H2).
    cbn [bind]. rewrite node_init_prv.
    - cbn [bind]. unfold child, k', first_IL, first_I64. rewrite S. reflexivity.
    - apply skip32_len.
    - apply fingerprint_len.
    - glia. }
  split; [apply (R true)|]. split; [|exact Wc]. rewrite (R false). apply public_copy_ok. exact Wc.
Qed.

(* ---- _subkey on a public node ---- *)
Lemma subkey_raw_pub nd i ap :
  wf_node nd -> nd_secret pt nd = None -> 0 <= i < 2 ^ 31 ->
  let Q := padd (smul (first_IL nd i false mod order) pG) (nd_point pt nd) in
  Q <> pO ->
  let child := mkNode (skipn 32 (first_I64 nd i false)) (nd_depth pt nd + 1) (fingerprint nd) i None Q in
  subkey_raw nd i false ap = Ret child /\ wf_node child.
Proof.
  intros W S Hi Q HQ child. destruct W as (Hc & Hf & HP & _).
  assert (Wc : wf_node child).
  { repeat split; cbn; try (apply fingerprint_len); try exact HQ.
    unfold first_I64. rewrite S. apply skip32_len. }
  split; [|exact Wc].
  unfold Bip32.subkey_raw. destruct (range_tests i Hi) as [-> ->].
  rewrite (index_bits i false Hi). rewrite S. cbn [child_number].
  unfold subkey_public_pair_chain_code_pair. rewrite pack_BE_l_ok by exact Hi. cbn [bind].
  unfold Q, first_IL, first_I64 in HQ. rewrite S in HQ. cbn [child_number] in HQ.
  rewrite (pt_eqb_false _ _ HQ). cbn [bind].
  rewrite node_init_pub; [|apply skip32_len|apply fingerprint_len|exact HQ].
  cbn [bind].
  assert (E : mkNode (skipn 32 (hmac512 (nd_chain pt nd) (sec (nd_point pt nd) ++ be_encode 4 (Z.to_N i))))
                (nd_depth pt nd + 1) (fingerprint nd) i None
                (padd (smul (from_bytes_32 (firstn 32 (hmac512 (nd_chain pt nd) (sec (nd_point pt nd) ++ be_encode 4 (Z.to_N i)))) mod order) pG)
                   (nd_point pt nd)) = child).
  { unfold child, Q, first_IL, first_I64. rewrite S. reflexivity. }
  rewrite E. destruct ap; [reflexivity|]. rewrite (public_copy_ok child Wc).
  unfold neuter_node, child. reflexivity.
Qed.

Lemma subkey_raw_pub_hardened nd i ap :
  nd_secret pt nd = None -> 0 <= i < 2 ^ 31 -> subkey_raw nd i true ap = Raise E_OTHER.
Proof.
  intros S Hi. unfold Bip32.subkey_raw. destruct (range_tests i Hi) as [-> ->]. rewrite S. reflexivity.
Qed.

(* ---- going public commutes with non-hardened derivation (first attempt succeeds) ---- *)
Lemma pub_priv_commute nd k i ap :
  wf_node nd -> nd_secret pt nd = Some k -> 0 <= i < 2 ^ 31 ->
  first_IL nd i false < order -> (first_IL nd i false + k) mod order <> 0 ->
  exists child,
    subkey_raw nd i false true = Ret child /\
    subkey_raw nd i false false = Ret (neuter_node child) /\
    subkey_raw (neuter_node nd) i false ap = Ret (neuter_node child).
Proof.
  intros W S Hi H1 H2.
  destruct (subkey_raw_prv nd k i false W S Hi H1 H2) as (R1 & R2 & Wc).
  eexists. split; [exact R1|]. split; [exact R2|].
  destruct W as (Hc & Hf & HP & Hs). rewrite S in Hs. destruct Hs as [Hk HPk].
  assert (Wn : wf_node (neuter_node nd)) by (repeat split; assumption).
  assert (I : first_I64 (neuter_node nd) i false = first_I64 nd i false).
  { unfold first_I64. rewrite S. cbn. reflexivity. }
  assert (IL : first_IL (neuter_node nd) i false = first_IL nd i false).
  { unfold first_IL. now rewrite I. }
  assert (Q : padd (smul (first_IL (neuter_node nd) i false mod order) pG) (nd_point pt (neuter_node nd))
              = smul ((first_IL nd i false + k) mod order) pG).
  { rewrite IL. cbn [neuter_node nd_point]. rewrite HPk, smul_mod, <- smul_add, smul_mod. reflexivity. }
  pose proof (Z.mod_pos_bound (first_IL nd i false + k) order ltac:(glia)) as B.
  destruct (subkey_raw_pub (neuter_node nd) i ap Wn eq_refl Hi) as [R3 _].
  { rewrite Q. apply smul_nonzero. glia. }
  rewrite R3. f_equal. unfold neuter_node at 2. cbn [nd_chain nd_depth nd_fpr nd_index nd_point].
  rewrite Q, I. reflexivity.
Qed.


(* ---------------------------------------------------------------------------------------------- *)
(* agreement with the BIP text (Spec/Bip32Spec.v) *)
Notation spec_child := (Bip32Spec.child pt padd pO smul pG order pt_eqb sec hmac512 hash160).
Notation spec_master := (Bip32Spec.master pt order hmac512).
Notation spec_derive := (Bip32Spec.derive pt padd pO smul pG order pt_eqb sec hmac512 hash160).
Notation spec_neuter := (Bip32Spec.neuter pt smul pG).
Notation spec_ser := (Bip32Spec.serialize_x pt sec).

Definition xkey_of (nd : node) : xkey pt :=
  mkX pt (nd_depth pt nd) (nd_fpr pt nd) (nd_index pt nd) (nd_chain pt nd)
      (match nd_secret pt nd with Some k => Prv pt k | None => Pub pt (nd_point pt nd) end).



Lemma child_is_bip32 nd i h y :
  wf_node nd -> 0 <= i < 2 ^ 31 ->
  spec_child (xkey_of nd) (child_number i h) = Some y ->
  exists c, subkey_raw nd i h (is_some (nd_secret pt nd)) = Ret c /\ xkey_of c = y /\ wf_node c /\
            is_some (nd_secret pt c) = is_some (nd_secret pt nd).
Proof.
  intros W Hi H. pose proof W as (Hc & Hf & HP & Hs).
  unfold Bip32Spec.child, xkey_of in H. cbn [x_key x_chain x_depth] in H.
  destruct (nd_secret pt nd) as [k|] eqn:S.
  - destruct Hs as [Hk HPk]. unfold CKDpriv in H. rewrite (hardened_child_number i h Hi) in H.
    assert (E : (if h then hmac512 (nd_chain pt nd) (x00 :: ser256 k ++ ser32 (child_number i h))
                 else hmac512 (nd_chain pt nd) (sec (point pt smul pG k) ++ ser32 (child_number i h)))
                = first_I64 nd i h).
    { unfold first_I64, priv_data, ser256, ser32, point. rewrite S, HPk. destruct h; reflexivity. }
    rewrite E in H. clear E.
    change (parse256 (firstn 32 (first_I64 nd i h))) with (first_IL nd i h) in H.
    destruct ((order <=? first_IL nd i h) || ((first_IL nd i h + k) mod order =? 0)) eqn:T; [discriminate|].
    apply orb_false_elim in T. destruct T as [T1 T2]. apply Z.leb_gt in T1. apply Z.eqb_neq in T2.
    destruct (subkey_raw_prv nd k i h W S Hi T1 T2) as (R1 & _ & Wc).
    eexists. split; [exact R1|]. split; [|split; [exact Wc|reflexivity]].
    injection H as <-. unfold xkey_of. cbn [nd_depth nd_fpr nd_index nd_chain nd_secret key_point].
    unfold key_fingerprint, identifier, Bip32.fingerprint, point. rewrite HPk. reflexivity.
  - unfold CKDpub in H. rewrite (hardened_child_number i h Hi) in H. destruct h; [discriminate|].
    cbn [child_number] in H.
    assert (E : hmac512 (nd_chain pt nd) (sec (nd_point pt nd) ++ ser32 i) = first_I64 nd i false).
    { unfold first_I64, ser32. rewrite S. reflexivity. }
    rewrite E in H. clear E.
    change (parse256 (firstn 32 (first_I64 nd i false))) with (first_IL nd i false) in H.
    destruct ((order <=? first_IL nd i false) ||
              pt_eqb (padd (point pt smul pG (first_IL nd i false)) (nd_point pt nd)) pO) eqn:T; [discriminate|].
    apply orb_false_elim in T. destruct T as [T1 T2]. apply Z.leb_gt in T1.
    pose proof (from_bytes_32_nonneg (firstn 32 (first_I64 nd i false))) as NN. fold (first_IL nd i false) in NN.
    assert (Q : padd (smul (first_IL nd i false mod order) pG) (nd_point pt nd) <> pO).
    { rewrite Z.mod_small by glia. intros Q. unfold point in T2. rewrite Q in T2.
      rewrite (proj2 (pt_eqb_spec _ _) eq_refl) in T2. discriminate. }
    destruct (subkey_raw_pub nd i false W S Hi Q) as [R Wc].
    eexists. split; [exact R|]. split; [|split; [exact Wc|reflexivity]].
    injection H as <-. unfold xkey_of. cbn [nd_depth nd_fpr nd_index nd_chain nd_secret key_point].
    unfold key_fingerprint, identifier, Bip32.fingerprint, point. rewrite Z.mod_small by glia. reflexivity.
Qed.

Lemma master_is_bip32 seed :
  match spec_master seed with
  | Some x => exists nd, from_master_secret seed = Ret nd /\ xkey_of nd = x /\ wf_node nd
  | None => from_master_secret seed = Raise E_SECRET
  end.
Proof.
  unfold Bip32Spec.master, Bip32.from_master_secret.
  change bitcoin_seed with str_bitcoin_seed.
  set (I := hmac512 str_bitcoin_seed seed).
  change (parse256 (firstn 32 I)) with (from_bytes_32 (firstn 32 I)).
  set (k := from_bytes_32 (firstn 32 I)).
  pose proof (from_bytes_32_nonneg (firstn 32 I)) as NN. fold k in NN.
  destruct ((k =? 0) || (order <=? k)) eqn:T.
  - unfold Bip32.node_init, Bip32.key_init.
    replace ((k <? 1) || (order <=? k)) with true; [reflexivity|].
    symmetry. apply orb_true_iff. apply orb_true_iff in T. destruct T as [T|T]; [left|right; exact T].
    apply Z.eqb_eq in T. apply Z.ltb_lt. glia.
  - apply orb_false_elim in T. destruct T as [T1 T2]. apply Z.eqb_neq in T1. apply Z.leb_gt in T2.
    eexists. split.
    + apply node_init_prv; [apply skip32_len|reflexivity|glia].
    + split; [reflexivity|]. repeat split; cbn; try apply skip32_len; try glia. apply smul_nonzero. glia.
Qed.

(* uncached derivation along a list of cache keys: the reference semantics of histories *)
Definition derive_step (acc : outcome node) (key : ckey) : outcome node :=
  do nd <- acc; let '(i, h, ap) := key in subkey_raw nd i h ap.
Definition derive_raw (root : node) (p : list ckey) : outcome node := fold_left derive_step p (Ret root).

Lemma fold_derive_raise e p : fold_left derive_step p (Raise e) = Raise e.
Proof. induction p as [|k p IH]; cbn; [reflexivity|exact IH]. Qed.
Lemma fold_derive_oof p : fold_left derive_step p OutOfFuel = OutOfFuel.
Proof. induction p as [|k p IH]; cbn; [reflexivity|exact IH]. Qed.

Lemma derive_raw_cons root i h ap p :
  derive_raw root ((i, h, ap) :: p) =
  match subkey_raw root i h ap with Ret c => derive_raw c p | Raise e => Raise e | OutOfFuel => OutOfFuel end.
Proof.
  unfold derive_raw. cbn [fold_left derive_step bind].
  destruct (subkey_raw root i h ap); [reflexivity|apply fold_derive_raise|apply fold_derive_oof].
Qed.

Lemma derive_raw_snoc root p key :
  derive_raw root (p ++ [key]) = derive_step (derive_raw root p) key.
Proof. unfold derive_raw. rewrite fold_left_app. reflexivity. Qed.

Lemma path_is_bip32 : forall (path : list (Z * bool)) root y,
  wf_node root -> Forall (fun ih => 0 <= fst ih < 2 ^ 31) path ->
  spec_derive (xkey_of root) (map (fun ih => child_number (fst ih) (snd ih)) path) = Some y ->
  exists c, derive_raw root (map (fun ih => (fst ih, snd ih, is_some (nd_secret pt root))) path) = Ret c /\
            xkey_of c = y /\ wf_node c.
Proof.
  induction path as [|[i h] path IH]; intros root y W F H.
  - cbn in H. injection H as <-. exists root. repeat split; try apply W. 
  - cbn [map fst snd] in *. cbn [Bip32Spec.derive] in H.
    destruct (spec_child (xkey_of root) (child_number i h)) as [x|] eqn:C; [|discriminate].
    inversion F as [|? ? Hi F']; subst. cbn [fst] in Hi.
    destruct (child_is_bip32 root i h x W Hi C) as (c & R & X & Wc & P).
    rewrite derive_raw_cons, R. rewrite <- X in H. rewrite <- P.
    apply (IH c y Wc F' H).
Qed.

(* the same along a whole path of non-hardened indices: the hypothesis is asked at every step, of the node reached *)
Fixpoint commute_path_ok (nd : node) (path : list Z) : Prop :=
  match path with
  | [] => True
  | i :: r =>
    0 <= i < 2 ^ 31 /\
    exists k, nd_secret pt nd = Some k /\ first_IL nd i false < order /\ (first_IL nd i false + k) mod order <> 0 /\
              forall c, subkey_raw nd i false true = Ret c -> commute_path_ok c r
  end.

Lemma pub_priv_commute_path : forall (path : list Z) (nd : node) (ap : bool),
  wf_node nd -> commute_path_ok nd path ->
  exists c, derive_raw nd (map (fun i => (i, false, true)) path) = Ret c /\
            derive_raw (neuter_node nd) (map (fun i => (i, false, ap)) path) = Ret (neuter_node c).
Proof.
  induction path as [|i path IH]; intros nd ap W H.
  - exists nd. split; reflexivity.
  - cbn [commute_path_ok] in H. destruct H as (Hi & k & S & H1 & H2 & Hn).
    destruct (subkey_raw_prv nd k i false W S Hi H1 H2) as (R1 & _ & Wc).
    destruct (pub_priv_commute nd k i ap W S Hi H1 H2) as (child & C1 & _ & C3).
    rewrite R1 in C1. injection C1 as <-.
    cbn [map]. rewrite !derive_raw_cons, R1, C3.
    apply IH; [exact Wc|]. apply Hn. exact R1.
Qed.

(* ---------------------------------------------------------------------------------------------- *)
(* metadata of every successful derivation (no assumption on the HMAC values) *)
Lemma subkey_raw_metadata nd i h ap c :
  wf_node nd -> subkey_raw nd i h ap = Ret c ->
  0 <= i < 2 ^ 31 /\
  nd_depth pt c = nd_depth pt nd + 1 /\
  nd_fpr pt c = firstn 4 (hash160 (sec (nd_point pt nd))) /\
  nd_index pt c = child_number i h /\
  (exists pre, nd_chain pt c =
     skipn 32 (hmac512 (nd_chain pt nd) (pre ++ be_encode 4 (Z.to_N (child_number i h))))) /\
  wf_node c.
Proof.
  intros W H. unfold Bip32.subkey_raw in H.
  destruct (i <? 0) eqn:T1; [discriminate|]. destruct (2147483648 <=? i) eqn:T2; [discriminate|].
  apply Z.ltb_ge in T1. apply Z.leb_gt in T2. assert (Hi : 0 <= i < 2 ^ 31) by glia.
  rewrite (index_bits i h Hi) in H. split; [exact Hi|].
  set (fp := fingerprint nd) in *.
  match type of H with bind ?m _ = _ => destruct m as [key| |] eqn:K end; cbn [bind] in H; try discriminate.
  assert (Kp : nd_depth pt key = nd_depth pt nd + 1 /\ nd_fpr pt key = fp /\ nd_index pt key = child_number i h /\
               (exists pre, nd_chain pt key =
                  skipn 32 (hmac512 (nd_chain pt nd) (pre ++ be_encode 4 (Z.to_N (child_number i h))))) /\
               wf_node key).
  { destruct (nd_secret pt nd) as [k|] eqn:S.
    - unfold subkey_secret_exponent_chain_code_pair in K.
      rewrite pack_BE_L_ok in K by (apply child_number_range; exact Hi). cbn [bind] in K.
      match type of K with bind (bind ?d _) _ = _ => destruct d as [data| |] eqn:D end; cbn [bind] in K; try discriminate.
      assert (exists pre0, data = pre0 ++ be_encode 4 (Z.to_N (child_number i h))) as [pre0 ->].
      { destruct h.
        - destruct (to_bytes_32 k); cbn [bind] in D; try discriminate. injection D as <-.
          eexists (x00 :: _). reflexivity.
        - injection D as <-. eexists. reflexivity. }
      match type of K with bind ?m _ = _ => destruct m as [[k' c']| |] eqn:L end; cbn [bind] in K; try discriminate.
      apply ckd_priv_loop_inv in L. destruct L as (pre & -> & _).
      pose proof (node_init_wf _ _ _ _ _ _ _ K) as Wk.
      apply node_init_fields in K. destruct K as (-> & -> & -> & ->).
      split; [reflexivity|]. split; [reflexivity|]. split; [reflexivity|]. split; [exists pre; reflexivity|exact Wk].
    - destruct h; [discriminate|]. unfold subkey_public_pair_chain_code_pair in K.
      cbn [child_number] in *. rewrite pack_BE_l_ok in K by exact Hi. cbn [bind] in K.
      match type of K with bind (if ?t then _ else _) _ = _ => destruct t end; cbn [bind] in K; try discriminate.
      pose proof (node_init_wf _ _ _ _ _ _ _ K) as Wk.
      apply node_init_fields in K. destruct K as (-> & -> & -> & ->).
      split; [reflexivity|]. split; [reflexivity|]. split; [reflexivity|]. split; [eexists; reflexivity|exact Wk]. }
  destruct Kp as (K1 & K2 & K3 & K4 & Wk).
  destruct ap.
  - injection H as <-. repeat (split; [assumption|]). exact Wk.
  - rewrite (public_copy_ok key Wk) in H. injection H as <-. unfold neuter_node at 1 2 3 4.
    cbn [nd_depth nd_fpr nd_index nd_chain].
    repeat (split; [assumption|]). apply neuter_wf. exact Wk.
Qed.


(* ---------------------------------------------------------------------------------------------- *)
(* serialization: 78 bytes, the BIP layout, and back *)
Notation hwif_data := (hwif_data pt sec).
Notation hparse_data := (hparse_data pt pO smul pG order pt_eqb unsec).
Notation parse_hd_data := (parse_hd_data pt pO smul pG order pt_eqb unsec).
Notation hwif := (hwif pt sec b58enc).
Notation hparse := (hparse pt pO smul pG order pt_eqb unsec b58dec).
Notation parse_hd := (parse_hd pt pO smul pG order pt_eqb unsec b58dec).

Definition ser_ok (nd : node) : Prop := 0 <= nd_depth pt nd < 256 /\ 0 <= nd_index pt nd < 2 ^ 32.

Definition ser_head (nd : node) : bytes :=
  [z2b (nd_depth pt nd)] ++ nd_fpr pt nd ++ be_encode 4 (Z.to_N (nd_index pt nd)) ++ nd_chain pt nd.

Lemma serialize_pub nd : ser_ok nd -> serialize nd (Some false) = Ret (ser_head nd ++ sec (nd_point pt nd)).
Proof.
  intros [Hd Hi]. unfold Bip32.serialize. rewrite andb_false_r.
  replace ((0 <=? nd_depth pt nd) && (nd_depth pt nd <? 256)) with true
    by (symmetry; apply andb_true_intro; split; [apply Z.leb_le|apply Z.ltb_lt]; glia).
  cbn [bind]. rewrite pack_BE_L_ok by exact Hi. cbn [bind]. unfold ser_head.
  rewrite <- !app_assoc. reflexivity.
Qed.

Lemma serialize_prv nd k : ser_ok nd -> nd_secret pt nd = Some k -> 1 <= k < order ->
  serialize nd (Some true) = Ret (ser_head nd ++ x00 :: be_encode 32 (Z.to_N k)).
Proof.
  intros [Hd Hi] S Hk. unfold Bip32.serialize. rewrite S. cbn [is_some negb andb].
  replace ((0 <=? nd_depth pt nd) && (nd_depth pt nd <? 256)) with true
    by (symmetry; apply andb_true_intro; split; [apply Z.leb_le|apply Z.ltb_lt]; glia).
  cbn [bind]. rewrite pack_BE_L_ok by exact Hi. cbn [bind]. rewrite to_bytes_32_ok by glia. cbn [bind].
  unfold ser_head. rewrite <- !app_assoc. reflexivity.
Qed.

(* serialize succeeds ONLY for a depth that fits one byte and a child number that fits four: nothing is ever wrapped or
   truncated; outside, it refuses (ValueError for the depth, struct.error for the child number) *)
Lemma serialize_ret_inv nd ap b : serialize nd ap = Ret b -> ser_ok nd.
Proof.
  unfold Bip32.serialize, ser_ok. intros H.
  destruct (negb (is_some (nd_secret pt nd)) && _) in H; [discriminate|].
  destruct ((0 <=? nd_depth pt nd) && (nd_depth pt nd <? 256)) eqn:D; cbn [bind] in H; [|discriminate].
  apply andb_true_iff in D. destruct D as [D1 D2]. apply Z.leb_le in D1. apply Z.ltb_lt in D2.
  unfold pack_BE_L in H.
  destruct ((0 <=? nd_index pt nd) && (nd_index pt nd <? 2 ^ 32)) eqn:I; cbn [bind] in H; [|discriminate].
  apply andb_true_iff in I. destruct I as [I1 I2]. apply Z.leb_le in I1. apply Z.ltb_lt in I2.
  split; split; assumption.
Qed.

Lemma serialize_refuses_depth nd ap : ~ (0 <= nd_depth pt nd < 256) ->
  serialize nd ap = Raise E_VALUE \/ serialize nd ap = Raise E_OTHER.
Proof.
  intros H. unfold Bip32.serialize.
  destruct (negb (is_some (nd_secret pt nd)) && _); [right; reflexivity|].
  replace ((0 <=? nd_depth pt nd) && (nd_depth pt nd <? 256)) with false; [left; reflexivity|].
  symmetry. apply andb_false_iff. destruct (Z.leb_spec 0 (nd_depth pt nd)) as [L|L]; [right|left; reflexivity].
  destruct (Z.ltb_spec (nd_depth pt nd) 256) as [U|U]; [exfalso; apply H; split; assumption|reflexivity].
Qed.

Lemma serialize_default nd : serialize nd None = serialize nd (Some (is_some (nd_secret pt nd))).
Proof. reflexivity. Qed.

Lemma serialize_prv_on_public nd : nd_secret pt nd = None -> serialize nd (Some true) = Raise E_OTHER.
Proof. intros S. unfold Bip32.serialize. rewrite S. reflexivity. Qed.

(* the 78-byte layout *)
Lemma layout78 (A4 F4 I4 C32 K33 : bytes) (d : byte) :
  length A4 = 4%nat -> length F4 = 4%nat -> length I4 = 4%nat -> length C32 = 32%nat -> length K33 = 33%nat ->
  let data := A4 ++ [d] ++ F4 ++ I4 ++ C32 ++ K33 in
  length data = 78%nat /\ slice 4 5 data = [d] /\ slice 5 9 data = F4 /\ slice 9 13 data = I4 /\
  slice 13 45 data = C32 /\ skipn 45 data = K33.
Proof.
  intros HA HF HI HC HK.
  do 4 (destruct A4 as [|? A4]; [discriminate|]). destruct A4; [|discriminate].
  do 4 (destruct F4 as [|? F4]; [discriminate|]). destruct F4; [|discriminate].
  do 4 (destruct I4 as [|? I4]; [discriminate|]). destruct I4; [|discriminate].
  do 32 (destruct C32 as [|? C32]; [discriminate|]). destruct C32; [|discriminate].
  cbn zeta. unfold slice. cbn [app skipn firstn Nat.sub length]. rewrite HK. repeat split.
Qed.

Lemma ser_head_parts nd : wf_node nd ->
  length (nd_fpr pt nd) = 4%nat /\ length (be_encode 4 (Z.to_N (nd_index pt nd))) = 4%nat /\
  length (nd_chain pt nd) = 32%nat.
Proof. intros (Hc & Hf & _). split; [exact Hf|]. split; [apply be_encode_length|exact Hc]. Qed.

Lemma bytes_eqb_neq a b : a <> b -> bytes_eqb a b = false.
Proof. intros H. destruct (bytes_eqb a b) eqn:E; [|reflexivity]. apply bytes_eqb_eq in E. contradiction. Qed.

Lemma deserialize_prv nd k A4 : wf_node nd -> ser_ok nd -> nd_secret pt nd = Some k -> length A4 = 4%nat ->
  let data := A4 ++ ser_head nd ++ x00 :: be_encode 32 (Z.to_N k) in
  length data = 78%nat /\ deserialize data = Ret nd.
Proof.
  intros W [Hd Hi] S HA data. pose proof W as (Hc & Hf & HP & Hs). rewrite S in Hs. destruct Hs as [Hk HPk].
  destruct (ser_head_parts nd W) as (L1 & L2 & L3).
  assert (LK : length (x00 :: be_encode 32 (Z.to_N k)) = 33%nat) by (cbn [length]; now rewrite be_encode_length).
  pose proof (layout78 A4 _ _ _ _ (z2b (nd_depth pt nd)) HA L1 L2 L3 LK) as L. cbn zeta in L.
  assert (E : data = A4 ++ [z2b (nd_depth pt nd)] ++ nd_fpr pt nd ++ be_encode 4 (Z.to_N (nd_index pt nd)) ++
                     nd_chain pt nd ++ x00 :: be_encode 32 (Z.to_N k)).
  { unfold data, ser_head. rewrite <- !app_assoc. reflexivity. }
  rewrite <- E in L. destruct L as (L78 & S4 & S5 & S9 & S13 & S45).
  split; [exact L78|]. unfold Bip32.deserialize. rewrite L78. cbn [Nat.eqb negb].
  rewrite S4, S5, S9, S13.
  assert (S4546 : slice 45 46 data = [x00]).
  { unfold slice. rewrite S45. reflexivity. }
  rewrite S4546. cbn [bytes_eqb byte_eqb]. rewrite byte_eqb_refl. cbn [andb].
  assert (S46 : skipn 46 data = be_encode 32 (Z.to_N k)).
  { change 46%nat with (45 + 1)%nat. rewrite skipn_plus, S45. reflexivity. }
  rewrite S46, from_to_bytes_32 by glia. rewrite be4_roundtrip by exact Hi. rewrite b2z_z2b by exact Hd.
  rewrite node_init_prv by assumption. f_equal. destruct nd as [c d f i s P]. cbn in *. subst s P. reflexivity.
Qed.

Lemma deserialize_pub nd A4 : wf_node nd -> ser_ok nd -> length A4 = 4%nat ->
  let data := A4 ++ ser_head nd ++ sec (nd_point pt nd) in
  length data = 78%nat /\ deserialize data = Ret (neuter_node nd).
Proof.
  intros W [Hd Hi] HA data. pose proof W as (Hc & Hf & HP & Hs).
  destruct (ser_head_parts nd W) as (L1 & L2 & L3).
  pose proof (sec_len _ HP) as LK. destruct (sec_head _ HP) as (b & r & Eb & Nb).
  pose proof (layout78 A4 _ _ _ _ (z2b (nd_depth pt nd)) HA L1 L2 L3 LK) as L. cbn zeta in L.
  assert (E : data = A4 ++ [z2b (nd_depth pt nd)] ++ nd_fpr pt nd ++ be_encode 4 (Z.to_N (nd_index pt nd)) ++
                     nd_chain pt nd ++ sec (nd_point pt nd)).
  { unfold data, ser_head. rewrite <- !app_assoc. reflexivity. }
  rewrite <- E in L. destruct L as (L78 & S4 & S5 & S9 & S13 & S45).
  split; [exact L78|]. unfold Bip32.deserialize. rewrite L78. cbn [Nat.eqb negb].
  rewrite S4, S5, S9, S13.
  assert (S4546 : slice 45 46 data = [b]).
  { unfold slice. rewrite S45, Eb. reflexivity. }
  rewrite S4546. rewrite bytes_eqb_neq by congruence.
  rewrite S45, unsec_sec by exact HP. cbn [bind].
  rewrite be4_roundtrip by exact Hi. rewrite b2z_z2b by exact Hd.
  rewrite node_init_pub by assumption. reflexivity.
Qed.

(* one row of the generated table, as the record the model uses *)
Definition row_net (r : String.string * N * option bytes * option bytes * option bytes * option bytes * N * N) : bipnet :=
  let '(_, _, a, b, c, d, pc, qc) := r in mkBipnet a b c d pc qc.
Definition opt_len4 (o : option bytes) : bool := match o with Some p => Nat.eqb (length p) 4 | None => false end.
Definition opt_eqb (a b : option bytes) : bool :=
  match a, b with Some x, Some y => bytes_eqb x y | None, None => true | _, _ => false end.
(* the facts about a network's prefixes that the round trip needs: all four present, printer = parser, 4 bytes,
   private and public prefix different *)
Definition net_ok (net : bipnet) : bool :=
  opt_len4 (bn_print_prv net) && opt_len4 (bn_print_pub net) &&
  opt_eqb (bn_print_prv net) (bn_parse_prv net) && opt_eqb (bn_print_pub net) (bn_parse_pub net) &&
  negb (opt_eqb (bn_print_prv net) (bn_print_pub net)).

Lemma net_ok_inv net : net_ok net = true ->
  exists pv pb, bn_print_prv net = Some pv /\ bn_print_pub net = Some pb /\ bn_parse_prv net = Some pv /\
                bn_parse_pub net = Some pb /\ length pv = 4%nat /\ length pb = 4%nat /\ pv <> pb.
Proof.
  unfold net_ok. intros H. repeat (apply andb_true_iff in H; destruct H as [H ?]).
  destruct net as [a b c d pc qc]. cbn in *.
  destruct a as [pv|], b as [pb|]; cbn in *; try discriminate.
  destruct c as [pv'|], d as [pb'|]; cbn in *; try discriminate.
  exists pv, pb. repeat match goal with E : bytes_eqb _ _ = true |- _ => apply bytes_eqb_eq in E end. subst.
  repeat split; try (apply Nat.eqb_eq; assumption).
  intros ->. rewrite bytes_eqb_refl in *. discriminate.
Qed.

(* what the text form carries of a node *)
Definition shown (nd : node) (as_private : bool) : node := if as_private then nd else neuter_node nd.

Lemma hwif_roundtrip_data net nd ap :
  net_ok net = true -> wf_node nd -> ser_ok nd -> (ap = true -> nd_secret pt nd <> None) ->
  exists data, hwif_data net nd ap = Ret data /\ length data = 78%nat /\
    hparse_data net ap (Some data) = Ret (Some (shown nd ap)) /\
    hparse_data net (negb ap) (Some data) = Ret None /\
    parse_hd_data net (Some data) = Ret (Some (shown nd ap)).
Proof.
  intros N W So Hap. destruct (net_ok_inv net N) as (pv & pb & E1 & E2 & E3 & E4 & L1 & L2 & NE).
  pose proof W as (Hc & Hf & HP & Hs).
  destruct ap.
  - destruct (nd_secret pt nd) as [k|] eqn:S; [|exfalso; apply Hap; reflexivity]. destruct Hs as [Hk HPk].
    destruct (deserialize_prv nd k pv W So S L1) as [L78 D]. cbn zeta in L78, D.
    exists (pv ++ ser_head nd ++ x00 :: be_encode 32 (Z.to_N k)).
    unfold Bip32.hwif_data. rewrite (serialize_prv nd k So S Hk). cbn [bind]. rewrite E1.
    split; [reflexivity|]. split; [exact L78|].
    assert (P1 : hparse_data net true (Some (pv ++ ser_head nd ++ x00 :: be_encode 32 (Z.to_N k))) = Ret (Some nd)).
    { unfold Bip32.hparse_data. rewrite E3, starts_with_app, D. reflexivity. }
    assert (P2 : hparse_data net false (Some (pv ++ ser_head nd ++ x00 :: be_encode 32 (Z.to_N k))) = Ret None).
    { unfold Bip32.hparse_data. rewrite E4, starts_with_length_neq; [reflexivity|glia|congruence]. }
    split; [exact P1|]. split; [exact P2|]. unfold Bip32.parse_hd_data. rewrite P1. reflexivity.
  - destruct (deserialize_pub nd pb W So L2) as [L78 D]. cbn zeta in L78, D.
    exists (pb ++ ser_head nd ++ sec (nd_point pt nd)).
    unfold Bip32.hwif_data. rewrite (serialize_pub nd So). cbn [bind]. rewrite E2.
    split; [reflexivity|]. split; [exact L78|].
    assert (P1 : hparse_data net false (Some (pb ++ ser_head nd ++ sec (nd_point pt nd))) = Ret (Some (neuter_node nd))).
    { unfold Bip32.hparse_data. rewrite E4, starts_with_app, D. reflexivity. }
    assert (P2 : hparse_data net true (Some (pb ++ ser_head nd ++ sec (nd_point pt nd))) = Ret None).
    { unfold Bip32.hparse_data. rewrite E3, starts_with_length_neq; [reflexivity|glia|congruence]. }
    split; [exact P1|]. split; [exact P2|]. unfold Bip32.parse_hd_data. rewrite P2. cbn [bind]. exact P1.
Qed.

Lemma hwif_roundtrip_text net nd ap :
  net_ok net = true -> bn_print_codec net = bn_parse_codec net ->
  wf_node nd -> ser_ok nd -> (ap = true -> nd_secret pt nd <> None) ->
  exists text, hwif net nd ap = Ret text /\
    hparse net ap text = Ret (Some (shown nd ap)) /\
    hparse net (negb ap) text = Ret None /\
    parse_hd net text = Ret (Some (shown nd ap)).
Proof.
  intros N C W So Hap. destruct (hwif_roundtrip_data net nd ap N W So Hap) as (data & H1 & _ & H2 & H3 & H4).
  exists (b58enc (bn_print_codec net) data). unfold Bip32.hwif, Bip32.hparse, Bip32.parse_hd. rewrite H1. cbn [bind].
  rewrite <- C, b58_roundtrip. repeat split; assumption.
Qed.

(* the serialization is the BIP's *)
Lemma hwif_is_bip32 net nd ap prefix :
  wf_node nd -> ser_ok nd -> (ap = true -> nd_secret pt nd <> None) ->
  (if ap then bn_print_prv net else bn_print_pub net) = Some prefix ->
  hwif_data net nd ap = Ret (spec_ser prefix (if ap then xkey_of nd else spec_neuter (xkey_of nd))).
Proof.
  intros W So Hap Hp. pose proof W as (Hc & Hf & HP & Hs). unfold Bip32.hwif_data.
  destruct ap.
  - destruct (nd_secret pt nd) as [k|] eqn:S; [|exfalso; apply Hap; reflexivity]. destruct Hs as [Hk HPk].
    rewrite (serialize_prv nd k So S Hk). cbn [bind]. rewrite Hp.
    unfold serialize_x, xkey_of, ser_head, ser32, ser256. rewrite S. cbn [x_depth x_parent_fpr x_child_number x_chain x_key].
    rewrite <- !app_assoc. reflexivity.
  - rewrite (serialize_pub nd So). cbn [bind]. rewrite Hp.
    unfold serialize_x, Bip32Spec.neuter, xkey_of, ser_head, ser32.
    cbn [x_depth x_parent_fpr x_child_number x_chain x_key].
    assert (KP : key_point pt smul pG (match nd_secret pt nd with Some k => Prv pt k | None => Pub pt (nd_point pt nd) end)
                 = nd_point pt nd).
    { destruct (nd_secret pt nd) as [k|]; [|reflexivity]. destruct Hs as [_ ->]. reflexivity. }
    rewrite KP. rewrite <- !app_assoc. reflexivity.
Qed.


(* ---------------------------------------------------------------------------------------------- *)
(* outside the hypothesis of the commutation lemma *)
Lemma ckd_priv_retry k chain i' h P :
  1 <= k < order -> 0 <= i' < 2 ^ 32 ->
  let I64 := hmac512 chain (priv_data k P i' h) in
  let IL := from_bytes_32 (firstn 32 I64) in
  order <= IL \/ (IL + k) mod order = 0 ->
  ckd_priv loop_fuel k chain i' h (Some P) =
  ckd_priv_loop (pred loop_fuel) k chain (x01 :: skipn 32 I64 ++ be_encode 4 (Z.to_N i')) (be_encode 4 (Z.to_N i')).
Proof.
  intros Hk Hi I64 IL H. unfold subkey_secret_exponent_chain_code_pair.
  rewrite pack_BE_L_ok by exact Hi. cbn [bind].
  assert (D : (if h then do kb <- to_bytes_32 k; Ret (x00 :: kb ++ be_encode 4 (Z.to_N i'))
               else Ret (sec P ++ be_encode 4 (Z.to_N i'))) = Ret (priv_data k P i' h)).
  { unfold priv_data. destruct h; [|reflexivity]. rewrite to_bytes_32_ok by glia. reflexivity. }
  rewrite D. cbn [bind]. destruct loop_fuel as [|f]; [glia|]. cbn [Bip32.ckd_priv_loop pred].
  fold I64. fold IL.
  replace ((IL <? order) && negb ((IL + k) mod order =? 0)) with false; [reflexivity|].
  symmetry. destruct H as [H|H].
  - replace (IL <? order) with false by (symmetry; apply Z.ltb_ge; exact H). reflexivity.
  - rewrite H. cbn. apply andb_false_r.
Qed.

(* what happens outside the hypothesis of pub_priv_commute, on a private node and its public copy:
   the BIP calls both children invalid; the private side hashes again (input 01 || I_R || index), the public side goes
   on with I_L mod n, and fails only when the sum is the point at infinity *)
Lemma divergence nd k i ap :
  wf_node nd -> nd_secret pt nd = Some k -> 0 <= i < 2 ^ 31 ->
  let I64 := first_I64 nd i false in
  let IL := first_IL nd i false in
  order <= IL \/ (IL + k) mod order = 0 ->
  spec_child (xkey_of nd) i = None /\
  spec_child (xkey_of (neuter_node nd)) i = None /\
  ckd_priv loop_fuel k (nd_chain pt nd) i false (Some (nd_point pt nd)) =
    ckd_priv_loop (pred loop_fuel) k (nd_chain pt nd) (x01 :: skipn 32 I64 ++ be_encode 4 (Z.to_N i)) (be_encode 4 (Z.to_N i)) /\
  let Q := padd (smul (IL mod order) pG) (nd_point pt nd) in
  (Q <> pO -> subkey_raw (neuter_node nd) i false ap =
              Ret (mkNode (skipn 32 I64) (nd_depth pt nd + 1) (fingerprint nd) i None Q)) /\
  (Q = pO -> subkey_raw (neuter_node nd) i false ap = Raise E_VALUE).
Proof.
  intros W S Hi I64 IL H. pose proof W as (Hc & Hf & HP & Hs). rewrite S in Hs. destruct Hs as [Hk HPk].
  assert (Wn : wf_node (neuter_node nd)) by (apply neuter_wf; exact W).
  assert (In : first_I64 (neuter_node nd) i false = I64).
  { unfold I64, first_I64. rewrite S. reflexivity. }
  assert (ILn : first_IL (neuter_node nd) i false = IL) by (unfold IL, first_IL; now rewrite In).
  pose proof (from_bytes_32_nonneg (firstn 32 I64)) as NN. fold (first_IL nd i false) in NN. fold IL in NN.
  pose proof (hardened_child_number i false Hi) as Hh. cbn [child_number] in Hh.
  split; [|split; [|split; [|intros Q; split]]].
  - unfold Bip32Spec.child, xkey_of. cbn [x_key x_chain]. rewrite S. unfold CKDpriv.
    rewrite Hh.
    assert (E : hmac512 (nd_chain pt nd) (sec (point pt smul pG k) ++ ser32 i) = I64).
    { unfold I64, first_I64, priv_data, ser32, point. rewrite S, HPk. reflexivity. }
    rewrite E. change (parse256 (firstn 32 I64)) with IL.
    replace ((order <=? IL) || ((IL + k) mod order =? 0)) with true; [reflexivity|].
    symmetry. apply orb_true_iff. destruct H as [H|H]; [left; apply Z.leb_le; exact H|right; apply Z.eqb_eq; exact H].
  - unfold Bip32Spec.child, xkey_of. cbn [x_key x_chain neuter_node nd_secret nd_chain nd_point]. unfold CKDpub.
    rewrite Hh.
    assert (E : hmac512 (nd_chain pt nd) (sec (nd_point pt nd) ++ ser32 i) = I64).
    { unfold I64, first_I64, priv_data, ser32. rewrite S. reflexivity. }
    rewrite E. change (parse256 (firstn 32 I64)) with IL.
    destruct H as [H|H].
    + replace (order <=? IL) with true by (symmetry; apply Z.leb_le; exact H). reflexivity.
    + assert (Z0 : padd (point pt smul pG IL) (nd_point pt nd) = pO).
      { unfold point. rewrite HPk, <- smul_add. apply smul_zero. exact H. }
      rewrite Z0, (proj2 (pt_eqb_spec pO pO) eq_refl), orb_true_r. reflexivity.
  - pose proof (ckd_priv_retry k (nd_chain pt nd) i false (nd_point pt nd) Hk ltac:(glia)) as R. cbn zeta in R.
    unfold I64, first_I64. rewrite S. apply R. unfold IL, first_IL, first_I64 in H. rewrite S in H. exact H.
  - intros HQ. destruct (subkey_raw_pub (neuter_node nd) i ap Wn eq_refl Hi) as [R _].
    + rewrite ILn. exact HQ.
    + rewrite R, In, ILn. reflexivity.
  - intros HQ. unfold Bip32.subkey_raw. destruct (range_tests i Hi) as [-> ->].
    rewrite (index_bits i false Hi). cbn [neuter_node nd_secret nd_chain nd_point child_number].
    unfold subkey_public_pair_chain_code_pair. rewrite pack_BE_l_ok by exact Hi. cbn [bind].
    assert (E : hmac512 (nd_chain pt nd) (sec (nd_point pt nd) ++ be_encode 4 (Z.to_N i)) = I64).
    { unfold I64, first_I64, priv_data. rewrite S. reflexivity. }
    rewrite E. change (from_bytes_32 (firstn 32 I64)) with IL.
    change (padd (smul (IL mod order) pG) (nd_point pt nd)) with Q.
    rewrite HQ, (proj2 (pt_eqb_spec pO pO) eq_refl). reflexivity.
Qed.

(* ---------------------------------------------------------------------------------------------- *)
(* the sub-key cache is transparent *)
Notation cache := (cache pt).
Notation cache_lookup := (cache_lookup pt).
Notation subkey := (Bip32.subkey pt padd pO smul pG order pt_eqb sec hmac512 hash160 loop_fuel).
Notation path_walk := (path_walk pt padd pO smul pG order pt_eqb sec hmac512 hash160 loop_fuel).
Notation subkey_for_path := (subkey_for_path pt padd pO smul pG order pt_eqb sec hmac512 hash160 loop_fuel).
Notation subkeys_walk := (subkeys_walk pt padd pO smul pG order pt_eqb sec hmac512 hash160 loop_fuel).
Notation subkeys := (subkeys pt padd pO smul pG order pt_eqb sec hmac512 hash160 loop_fuel).
Notation run_op := (run_op pt padd pO smul pG order pt_eqb sec hmac512 hash160 loop_fuel).
Notation run_ops := (run_ops pt padd pO smul pG order pt_eqb sec hmac512 hash160 loop_fuel).
Notation opres := (opres pt).

Lemma ckey_eqb_eq a b : ckey_eqb a b = true <-> a = b.
Proof.
  destruct a as [[i h] p], b as [[j g] q]. unfold ckey_eqb. rewrite !andb_true_iff, Z.eqb_eq, !Bool.eqb_true_iff.
  split; [intros [[-> ->] ->]; reflexivity|intros E; injection E as -> -> ->; auto].
Qed.
Lemma cpath_eqb_eq : forall a b, cpath_eqb a b = true <-> a = b.
Proof.
  induction a as [|x a IH]; intros [|y b]; cbn; split; intros H; try discriminate; try reflexivity.
  - apply andb_true_iff in H. destruct H as [H1 H2]. apply ckey_eqb_eq in H1. apply IH in H2. congruence.
  - injection H as -> ->. apply andb_true_iff. split; [apply ckey_eqb_eq|apply IH]; reflexivity.
Qed.

(* every cached object is what an uncached derivation along its cache path gives *)
Definition cache_ok (root : node) (c : cache) : Prop :=
  forall p nd, cache_lookup c p = Some nd -> derive_raw root p = Ret nd.

Lemma cache_ok_nil root : cache_ok root [].
Proof. intros p nd H. discriminate. Qed.

Definition resolve_ap (nd : node) (as_private : option bool) : bool :=
  match as_private with Some b => b | None => is_some (nd_secret pt nd) end.

Lemma subkey_ok root c p nd i h ap r c' :
  cache_ok root c -> derive_raw root p = Ret nd -> subkey c p nd i h ap = (r, c') ->
  r = subkey_raw nd i h (resolve_ap nd ap) /\ cache_ok root c' /\
  (forall k, r = Ret k -> derive_raw root (p ++ [(i, h, resolve_ap nd ap)]) = Ret k).
Proof.
  intros C D H. unfold Bip32.subkey in H. fold (resolve_ap nd ap) in H.
  set (q := p ++ [(i, h, resolve_ap nd ap)]) in *.
  assert (Dq : derive_raw root q = subkey_raw nd i h (resolve_ap nd ap)).
  { unfold q. rewrite derive_raw_snoc, D. reflexivity. }
  destruct (cache_lookup c q) as [k|] eqn:L.
  - injection H as <- <-. apply C in L. rewrite Dq in L. split; [symmetry; exact L|]. split; [exact C|].
    intros k0 E. rewrite Dq, L. exact E.
  - destruct (subkey_raw nd i h (resolve_ap nd ap)) as [k| |] eqn:R; injection H as <- <-.
    + split; [reflexivity|]. split; [|intros k0 E; rewrite Dq; exact E].
      intros p0 x Hl. cbn [Bip32.cache_lookup] in Hl. destruct (cpath_eqb q p0) eqn:Q.
      * apply cpath_eqb_eq in Q. subst p0. injection Hl as <-. rewrite Dq. reflexivity.
      * apply C. exact Hl.
    + split; [reflexivity|]. split; [exact C|]. intros k0 E. discriminate.
    + split; [reflexivity|]. split; [exact C|]. intros k0 E. discriminate.
Qed.

(* uncached reference semantics of subkey_for_path / subkeys *)
Fixpoint walk_raw (key : node) (invocations : list bytes) : outcome node :=
  match invocations with
  | [] => Ret key
  | v :: r =>
    do '(vi, h) <- path_token v;
    do k <- subkey_raw key vi h (is_some (nd_secret pt key));
    walk_raw k r
  end.
Definition subkey_for_path_raw (nd : node) (path : bytes) : outcome node :=
  let '(force_public, invocations) := path_tokens path in
  do key <- walk_raw nd invocations;
  if force_public && is_some (nd_secret pt key) then public_copy key else Ret key.
Fixpoint subkeys_walk_raw (nd : node) (paths : list bytes) : list node * option pyexn :=
  match paths with
  | [] => ([], None)
  | s :: r =>
    match subkey_for_path_raw nd s with
    | Ret k => let '(ks, e) := subkeys_walk_raw nd r in (k :: ks, e)
    | Raise e => ([], Some e)
    | OutOfFuel => ([], Some E_OTHER)
    end
  end.
Definition subkeys_raw (limit : Z) (nd : node) (path : bytes) : outcome (list node * option pyexn) :=
  do paths <- subpaths_for_path_range limit path;
  Ret (subkeys_walk_raw nd paths).

Lemma path_walk_ok root : forall toks c p key r c',
  cache_ok root c -> derive_raw root p = Ret key -> path_walk c p key toks = (r, c') ->
  r = walk_raw key toks /\ cache_ok root c'.
Proof.
  induction toks as [|v toks IH]; intros c p key r c' C D H; cbn [Bip32.path_walk walk_raw] in *.
  - injection H as <- <-. split; [reflexivity|exact C].
  - destruct (path_token v) as [[vi h]| |]; cbn [bind].
    + destruct (subkey c p key vi h (Some (is_some (nd_secret pt key)))) as [r1 c1] eqn:S.
      destruct (subkey_ok root c p key vi h _ r1 c1 C D S) as (E & C1 & Dk). cbn [resolve_ap] in E, Dk.
      rewrite <- E. destruct r1 as [k| |].
      * cbn [bind]. apply (IH c1 _ k r c' C1 (Dk k eq_refl) H).
      * injection H as <- <-. split; [reflexivity|exact C1].
      * injection H as <- <-. split; [reflexivity|exact C1].
    + injection H as <- <-. split; [reflexivity|exact C].
    + injection H as <- <-. split; [reflexivity|exact C].
Qed.

Lemma subkey_for_path_ok root c p nd path r c' :
  cache_ok root c -> derive_raw root p = Ret nd -> subkey_for_path c p nd path = (r, c') ->
  r = subkey_for_path_raw nd path /\ cache_ok root c'.
Proof.
  intros C D H. unfold Bip32.subkey_for_path, subkey_for_path_raw in *.
  destruct (path_tokens path) as [fp toks].
  destruct (path_walk c p nd toks) as [r1 c1] eqn:W.
  destruct (path_walk_ok root toks c p nd r1 c1 C D W) as [E C1]. rewrite <- E.
  destruct r1 as [key| |]; cbn [bind].
  - destruct (fp && is_some (nd_secret pt key)); injection H as <- <-; split; (reflexivity || exact C1).
  - injection H as <- <-. split; [reflexivity|exact C1].
  - injection H as <- <-. split; [reflexivity|exact C1].
Qed.

Lemma subkeys_walk_ok root p nd : forall paths c ks e c',
  cache_ok root c -> derive_raw root p = Ret nd -> subkeys_walk c p nd paths = (ks, e, c') ->
  (ks, e) = subkeys_walk_raw nd paths /\ cache_ok root c'.
Proof.
  induction paths as [|s paths IH]; intros c ks e c' C D H; cbn [Bip32.subkeys_walk subkeys_walk_raw] in *.
  - injection H as <- <- <-. split; [reflexivity|exact C].
  - destruct (subkey_for_path c p nd s) as [r1 c1] eqn:S.
    destruct (subkey_for_path_ok root c p nd s r1 c1 C D S) as [E C1]. rewrite <- E.
    destruct r1 as [k| |].
    + destruct (subkeys_walk c1 p nd paths) as [[ks1 e1] c2] eqn:W.
      destruct (IH c1 ks1 e1 c2 C1 D W) as [E2 C2]. rewrite <- E2.
      injection H as <- <- <-. split; [reflexivity|exact C2].
    + injection H as <- <- <-. split; [reflexivity|exact C1].
    + injection H as <- <- <-. split; [reflexivity|exact C1].
Qed.

(* what a call of the history returns without any cache, the receiver being the node derived along p *)
Definition op_raw (limit : Z) (root : node) (o : hdop) : opres :=
  match o with
  | OpSubkey p i h ap =>
    match derive_raw root p with Ret nd => RNode pt (subkey_raw nd i h (resolve_ap nd ap)) | _ => RSkip pt end
  | OpPath p path =>
    match derive_raw root p with Ret nd => RNode pt (subkey_for_path_raw nd path) | _ => RSkip pt end
  | OpSubkeys p path =>
    match derive_raw root p with Ret nd => RList pt (subkeys_raw limit nd path) | _ => RSkip pt end
  end.

Lemma op_target_ok root c p nd :
  cache_ok root c -> op_target pt root c p = Some nd -> derive_raw root p = Ret nd.
Proof.
  intros C H. unfold op_target in H. destruct p as [|k p].
  - injection H as <-. reflexivity.
  - apply C. exact H.
Qed.

Lemma run_op_ok limit root c o r c' :
  cache_ok root c -> run_op limit root c o = (r, c') ->
  (r = RSkip pt \/ r = op_raw limit root o) /\ cache_ok root c'.
Proof.
  intros C H. destruct o as [p i h ap|p path|p path]; cbn [Bip32.run_op op_raw] in *.
  - destruct (op_target pt root c p) as [nd|] eqn:T.
    + pose proof (op_target_ok root c p nd C T) as D. rewrite D.
      destruct (subkey c p nd i h ap) as [r1 c1] eqn:S. injection H as <- <-.
      destruct (subkey_ok root c p nd i h ap r1 c1 C D S) as (E & C1 & _). rewrite E. split; [right; reflexivity|exact C1].
    + injection H as <- <-. split; [left; reflexivity|exact C].
  - destruct (op_target pt root c p) as [nd|] eqn:T.
    + pose proof (op_target_ok root c p nd C T) as D. rewrite D.
      destruct (subkey_for_path c p nd path) as [r1 c1] eqn:S. injection H as <- <-.
      destruct (subkey_for_path_ok root c p nd path r1 c1 C D S) as (E & C1). rewrite E. split; [right; reflexivity|exact C1].
    + injection H as <- <-. split; [left; reflexivity|exact C].
  - destruct (op_target pt root c p) as [nd|] eqn:T.
    + pose proof (op_target_ok root c p nd C T) as D. rewrite D.
      unfold Bip32.subkeys, subkeys_raw in *.
      destruct (subpaths_for_path_range limit path) as [paths| |]; cbn [bind] in *.
      * destruct (subkeys_walk c p nd paths) as [[ks e] c1] eqn:W. injection H as <- <-.
        destruct (subkeys_walk_ok root p nd paths c ks e c1 C D W) as [E C1]. rewrite <- E.
        split; [right; reflexivity|exact C1].
      * injection H as <- <-. split; [right; reflexivity|exact C].
      * injection H as <- <-. split; [right; reflexivity|exact C].
    + injection H as <- <-. split; [left; reflexivity|exact C].
Qed.

Lemma run_ops_ok limit root : forall ops c, cache_ok root c ->
  Forall2 (fun r o => r = RSkip pt \/ r = op_raw limit root o) (run_ops limit root c ops) ops.
Proof.
  induction ops as [|o ops IH]; intros c C; cbn [Bip32.run_ops]; [constructor|].
  destruct (run_op limit root c o) as [r c1] eqn:R.
  destruct (run_op_ok limit root c o r c1 C R) as [E C1].
  constructor; [exact E|apply IH; exact C1].
Qed.

(* calls on the root object itself are never skipped *)
Lemma run_op_root_not_skipped limit root c o :
  match o with OpSubkey [] _ _ _ | OpPath [] _ | OpSubkeys [] _ => fst (run_op limit root c o) <> RSkip pt | _ => True end.
Proof.
  destruct o as [[|k p] i h ap|[|k p] path|[|k p] path]; try exact I; cbn [Bip32.run_op op_target].
  - destruct (subkey c [] root i h ap). cbn. discriminate.
  - destruct (subkey_for_path c [] root path). cbn. discriminate.
  - destruct (subkeys limit c [] root path) as [[[ks e] c1]| |]; cbn; discriminate.
Qed.

(* ---------------------------------------------------------------------------------------------- *)
(* histories over a family of related objects (twins made by public_copy, re-read copies, cached children) *)
Notation run_fop := (run_fop pt padd pO smul pG order pt_eqb sec unsec hmac512 hash160 loop_fuel).
Notation run_fops := (run_fops pt padd pO smul pG order pt_eqb sec unsec hmac512 hash160 loop_fuel).
Notation reload := (Bip32.reload pt pO smul pG order pt_eqb sec unsec).
Notation fstate := (fstate pt).
Notation fres := (fres pt).

Definition fam_ok (st : fstate) : Prop := Forall (fun rc => cache_ok (fst rc) (snd rc)) st.

(* the cache-free answer, given the root objects that exist at the time of the call *)
Definition fop_raw (limit : Z) (roots : list node) (o : fop) : fres :=
  match o with
  | FCall r op =>
    match nth_error roots r with Some root => FRes pt (op_raw limit root op) | None => FSkip pt end
  | FPublicCopy r p =>
    match nth_error roots r with
    | Some root => match derive_raw root p with Ret nd => FNew pt (public_copy nd) | _ => FSkip pt end
    | None => FSkip pt
    end
  | FReload r p =>
    match nth_error roots r with
    | Some root => match derive_raw root p with Ret nd => FNew pt (reload nd) | _ => FSkip pt end
    | None => FSkip pt
    end
  end.

Lemma Forall_set_nth {A} (P : A -> Prop) (x : A) : forall n l, Forall P l -> P x -> Forall P (set_nth n x l).
Proof.
  induction n as [|n IH]; intros [|h t] F Hx; cbn [set_nth]; try constructor; inversion F; subst; auto.
Qed.

Lemma fam_ok_nth st r root c : fam_ok st -> nth_error st r = Some (root, c) -> cache_ok root c.
Proof.
  intros F H. apply nth_error_In in H. unfold fam_ok in F. rewrite Forall_forall in F. apply (F _ H).
Qed.

Lemma new_root_ok st x : fam_ok st -> fam_ok (new_root pt st x).
Proof.
  intros F. destruct x as [k| |]; cbn [new_root]; try exact F.
  apply Forall_app. split; [exact F|]. constructor; [|constructor]. apply cache_ok_nil.
Qed.

Lemma new_root_roots st x : exists extra, map fst (new_root pt st x) = map fst st ++ extra.
Proof.
  destruct x as [k| |]; cbn [new_root]; [|exists []; now rewrite app_nil_r|exists []; now rewrite app_nil_r].
  exists [k]. rewrite map_app. reflexivity.
Qed.

Lemma run_fop_ok limit st o r st' :
  fam_ok st -> run_fop limit st o = (r, st') ->
  (r = FSkip pt \/ r = fop_raw limit (map fst st) o) /\ fam_ok st'.
Proof.
  intros F H. destruct o as [n op|n p|n p]; cbn [Bip32.run_fop fop_raw] in *.
  - destruct (nth_error st n) as [[root c]|] eqn:N.
    + rewrite (map_nth_error fst _ _ N). cbn [fst].
      destruct (run_op limit root c op) as [x c1] eqn:R. injection H as <- <-.
      destruct (run_op_ok limit root c op x c1 (fam_ok_nth _ _ _ _ F N) R) as [E C1].
      split.
      * destruct E as [-> | ->]; [left; reflexivity|]. destruct (op_raw limit root op); cbn [fres_of]; auto.
      * apply Forall_set_nth; [exact F|exact C1].
    + injection H as <- <-. split; [left; reflexivity|exact F].
  - destruct (nth_error st n) as [[root c]|] eqn:N.
    + rewrite (map_nth_error fst _ _ N). cbn [fst].
      destruct (op_target pt root c p) as [nd|] eqn:T.
      * rewrite (op_target_ok root c p nd (fam_ok_nth _ _ _ _ F N) T). injection H as <- <-.
        split; [right; reflexivity|apply new_root_ok; exact F].
      * injection H as <- <-. split; [left; reflexivity|exact F].
    + injection H as <- <-. split; [left; reflexivity|exact F].
  - destruct (nth_error st n) as [[root c]|] eqn:N.
    + rewrite (map_nth_error fst _ _ N). cbn [fst].
      destruct (op_target pt root c p) as [nd|] eqn:T.
      * rewrite (op_target_ok root c p nd (fam_ok_nth _ _ _ _ F N) T). injection H as <- <-.
        split; [right; reflexivity|apply new_root_ok; exact F].
      * injection H as <- <-. split; [left; reflexivity|exact F].
    + injection H as <- <-. split; [left; reflexivity|exact F].
Qed.

Lemma run_fops_ok limit : forall ops st, fam_ok st ->
  Forall2 (fun a o => snd a = FSkip pt \/ snd a = fop_raw limit (fst a) o) (run_fops limit st ops) ops.
Proof.
  induction ops as [|o ops IH]; intros st F; cbn [Bip32.run_fops]; [constructor|].
  destruct (run_fop limit st o) as [x st1] eqn:R.
  destruct (run_fop_ok limit st o x st1 F R) as [E F1].
  constructor; [exact E|apply IH; exact F1].
Qed.

Lemma fam_ok_single root : fam_ok [(root, [])].
Proof. constructor; [apply cache_ok_nil|constructor]. Qed.

(* a public-only node never yields a node with a secret, whatever is asked of it *)
Lemma node_init_pub_secret chain d f i P nd : node_init chain d f i None (Some P) = Ret nd -> nd_secret pt nd = None.
Proof.
  unfold Bip32.node_init, Bip32.key_init. intros H. destruct (pt_eqb P pO); cbn [bind] in H; [discriminate|].
  destruct (negb _) in H; [discriminate|]. destruct (negb _) in H; [discriminate|]. injection H as <-. reflexivity.
Qed.

Lemma public_never_private nd i h ap c :
  nd_secret pt nd = None -> subkey_raw nd i h ap = Ret c -> nd_secret pt c = None.
Proof.
  intros S H. unfold Bip32.subkey_raw in H. rewrite S in H.
  destruct (i <? 0); [discriminate|]. destruct (2147483648 <=? i); [discriminate|].
  destruct h; [discriminate|].
  match type of H with bind ?m _ = _ => destruct m as [key| |] eqn:K end; cbn [bind] in H; try discriminate.
  match type of K with bind ?m _ = _ => destruct m as [[Q c0]| |] end; cbn [bind] in K; try discriminate.
  apply node_init_pub_secret in K.
  destruct ap; [injection H as <-; exact K|]. unfold Bip32.public_copy in H. apply node_init_pub_secret in H. exact H.
Qed.

End WithGroup.

(* ---------------------------------------------------------------------------------------------- *)
(* strings: split / join, int(), "%d" *)

Lemma byte_eqb_neq a b : a <> b -> byte_eqb a b = false.
Proof. intros H. destruct (byte_eqb a b) eqn:E; [|reflexivity]. apply byte_eqb_eq in E. contradiction. Qed.

Lemma split_nosep sep x : contains sep x = false -> split sep x = [x].
Proof.
  induction x as [|b x IH]; cbn [contains split]; intros H; [reflexivity|].
  apply orb_false_elim in H. destruct H as [H1 H2]. rewrite H1, (IH H2). reflexivity.
Qed.

Lemma split_app_sep sep x s : contains sep x = false -> split sep (x ++ sep :: s) = x :: split sep s.
Proof.
  induction x as [|b x IH]; cbn [contains split app]; intros H.
  - rewrite byte_eqb_refl. reflexivity.
  - apply orb_false_elim in H. destruct H as [H1 H2]. rewrite H1, (IH H2). reflexivity.
Qed.

Lemma split_join sep ts : ts <> [] -> Forall (fun t => contains sep t = false) ts -> split sep (join sep ts) = ts.
Proof.
  induction ts as [|x ts IH]; intros N F; [contradiction|].
  inversion F as [|? ? Hx F']; subst. destruct ts as [|y ts].
  - cbn [join]. apply split_nosep. exact Hx.
  - change (join sep (x :: y :: ts)) with (x ++ sep :: join sep (y :: ts)).
    rewrite split_app_sep by exact Hx. rewrite IH; [reflexivity|discriminate|exact F'].
Qed.

Lemma contains_app c a b : contains c (a ++ b) = contains c a || contains c b.
Proof. induction a as [|x a IH]; cbn [contains app]; [reflexivity|]. rewrite IH. apply orb_assoc. Qed.

Lemma contains_join c sep ts : byte_eqb sep c = false -> Forall (fun t => contains c t = false) ts ->
  contains c (join sep ts) = false.
Proof.
  intros Hs. induction ts as [|x ts IH]; intros F; [reflexivity|].
  inversion F as [|? ? Hx F']; subst. destruct ts as [|y ts]; [exact Hx|].
  change (join sep (x :: y :: ts)) with (x ++ sep :: join sep (y :: ts)).
  rewrite contains_app, Hx. cbn [contains orb]. rewrite Hs. apply IH. exact F'.
Qed.

Lemma split_once_nosep sep x : contains sep x = false -> split_once sep x = None.
Proof.
  induction x as [|b x IH]; cbn [contains split_once]; intros H; [reflexivity|].
  apply orb_false_elim in H. destruct H as [H1 H2]. rewrite H1, (IH H2). reflexivity.
Qed.

Lemma split_once_app sep x s : contains sep x = false -> split_once sep (x ++ sep :: s) = Some (x, s).
Proof.
  induction x as [|b x IH]; cbn [contains split_once app]; intros H.
  - rewrite byte_eqb_refl. reflexivity.
  - apply orb_false_elim in H. destruct H as [H1 H2]. rewrite H1, (IH H2). reflexivity.
Qed.

Lemma last_opt_snoc {A} (s : list A) c : last_opt (s ++ [c]) = Some c.
Proof. unfold last_opt. rewrite rev_app_distr. reflexivity. Qed.

Lemma last_opt_forall {A} (P : A -> Prop) (s : list A) : s <> [] -> Forall P s -> exists d, last_opt s = Some d /\ P d.
Proof.
  intros N F. unfold last_opt. apply Forall_rev in F. destruct (rev s) as [|d r] eqn:E.
  - exfalso. apply N. rewrite <- (rev_involutive s), E. reflexivity.
  - inversion F; subst. eauto.
Qed.

Definition is_digit (b : byte) : bool := (48 <=? b2z b) && (b2z b <=? 57).

Lemma is_digit_range b : is_digit b = true <-> 48 <= b2z b <= 57.
Proof. unfold is_digit. rewrite andb_true_iff, Z.leb_le, Z.leb_le. reflexivity. Qed.

Lemma digit_neq b c : is_digit b = true -> (b2z c < 48 \/ 57 < b2z c) -> byte_eqb b c = false.
Proof. intros D H. apply byte_eqb_neq. intros ->. apply is_digit_range in D. lia. Qed.

Lemma digit_not_ws b : is_digit b = true -> is_ws b = false.
Proof.
  intros D. apply is_digit_range in D. unfold is_ws. cbn zeta.
  repeat (apply orb_false_intro); try (apply Z.eqb_neq; lia).
  apply andb_false_iff. right. apply Z.leb_gt. lia.
Qed.

Lemma digit_not_hardening b : is_digit b = true -> is_hardening_char b = false.
Proof.
  intros D. unfold is_hardening_char.
  rewrite !(digit_neq b _ D) by (vm_compute; intuition congruence). reflexivity.
Qed.

Lemma digit_val_digit b : is_digit b = true -> digit_val b = Some (b2z b - 48).
Proof. intros D. unfold digit_val. cbn zeta. unfold is_digit in D. rewrite D. reflexivity. Qed.

Lemma digit_char_ok d : 0 <= d <= 9 -> is_digit (digit_char d) = true /\ b2z (digit_char d) = 48 + d.
Proof.
  intros H. assert (E : b2z (digit_char d) = 48 + d) by (unfold digit_char; apply b2z_z2b; lia).
  split; [|exact E]. apply is_digit_range. lia.
Qed.

Lemma dec_pos_digits f : forall v, 0 <= v -> Forall (fun b => is_digit b = true) (dec_pos f v).
Proof.
  induction f as [|f IH]; intros v Hv; cbn [dec_pos]; [constructor|].
  destruct (Z.ltb_spec v 10).
  - constructor; [|constructor]. apply digit_char_ok. lia.
  - apply Forall_app. split.
    + apply IH. apply Z.div_pos; lia.
    + constructor; [|constructor]. apply digit_char_ok. pose proof (Z.mod_pos_bound v 10). lia.
Qed.

Lemma dec_pos_nonempty f v : dec_pos (S f) v <> [].
Proof. cbn [dec_pos]. destruct (v <? 10); [discriminate|]. intros E. apply app_eq_nil in E. destruct E; discriminate. Qed.

Lemma dec_pos_S f v :
  dec_pos (S f) v = if v <? 10 then [digit_char v] else dec_pos f (v / 10) ++ [digit_char (v mod 10)].
Proof. reflexivity. Qed.

Lemma dec_pos_parse f : forall v acc p rest, 0 <= v < 2 ^ (Z.of_nat f + 1) ->
  exists k : nat, parse_digits (dec_pos (S f) v ++ rest) acc p = parse_digits rest (acc * 10 ^ Z.of_nat k + v) true.
Proof.
  induction f as [|f IH]; intros v acc p rest Hv.
  - rewrite dec_pos_S. change (2 ^ (Z.of_nat 0 + 1)) with 2 in Hv.
    replace (v <? 10) with true by (symmetry; apply Z.ltb_lt; lia).
    exists 1%nat. cbn [app parse_digits]. destruct (digit_char_ok v ltac:(lia)) as [D E].
    rewrite (digit_val_digit _ D), E. f_equal. change (10 ^ Z.of_nat 1) with 10. lia.
  - rewrite dec_pos_S. destruct (Z.ltb_spec v 10) as [L|L].
    + exists 1%nat. cbn [app parse_digits]. destruct (digit_char_ok v ltac:(lia)) as [D E].
      rewrite (digit_val_digit _ D), E. f_equal. change (10 ^ Z.of_nat 1) with 10. lia.
    + rewrite <- app_assoc. cbn [app].
      assert (Hq : 0 <= v / 10 < 2 ^ (Z.of_nat f + 1)).
      { split; [apply Z.div_pos; lia|]. apply Z.div_lt_upper_bound; [lia|].
        replace (Z.of_nat (S f) + 1) with (Z.succ (Z.of_nat f + 1)) in Hv by lia.
        rewrite Z.pow_succ_r in Hv by lia. lia. }
      destruct (IH (v / 10) acc p (digit_char (v mod 10) :: rest) Hq) as [k Hk].
      exists (S k). rewrite Hk.
      cbn [parse_digits]. pose proof (Z.mod_pos_bound v 10 ltac:(lia)) as Hm.
      destruct (digit_char_ok (v mod 10) ltac:(lia)) as [D E].
      rewrite (digit_val_digit _ D), E. f_equal.
      rewrite Nat2Z.inj_succ, Z.pow_succ_r by lia. pose proof (Z.div_mod v 10 ltac:(lia)). lia.
Qed.

Lemma dec_fuel_ok v : 0 <= v -> exists f, dec_fuel v = S f /\ 0 <= v < 2 ^ (Z.of_nat f + 1).
Proof.
  intros Hv. unfold dec_fuel. eexists. split; [reflexivity|]. split; [exact Hv|].
  rewrite Z2Nat.id by apply Z.log2_nonneg.
  destruct (Z.eq_dec v 0) as [->|N]; [cbn; lia|].
  pose proof (Z.log2_spec v ltac:(lia)) as [_ H]. replace (Z.log2 v + 1) with (Z.succ (Z.log2 v)) by lia. exact H.
Qed.

Lemma py_dec_digits v : 0 <= v -> py_dec v <> [] /\ Forall (fun b => is_digit b = true) (py_dec v).
Proof.
  intros Hv. unfold py_dec. replace (v <? 0) with false by (symmetry; apply Z.ltb_ge; exact Hv).
  destruct (dec_fuel_ok v Hv) as (f & -> & _). split; [apply dec_pos_nonempty|apply dec_pos_digits; exact Hv].
Qed.

Lemma lstrip_nows s : Forall (fun b => is_ws b = false) s -> lstrip s = s.
Proof. intros F. destruct s as [|b s]; [reflexivity|]. inversion F; subst. cbn [lstrip]. now rewrite H1. Qed.

Lemma digits_nows s : Forall (fun b => is_digit b = true) s -> Forall (fun b => is_ws b = false) s.
Proof. intros F. eapply Forall_impl; [|exact F]. intros b. apply digit_not_ws. Qed.

Lemma py_int_dec v : 0 <= v -> py_int (py_dec v) = Ret v.
Proof.
  intros Hv. destruct (py_dec_digits v Hv) as [NE F]. unfold py_int.
  assert (S : strip (py_dec v) = py_dec v).
  { unfold strip. rewrite (lstrip_nows _ (digits_nows _ F)).
    rewrite (lstrip_nows (rev (py_dec v))) by (apply Forall_rev, digits_nows, F). apply rev_involutive. }
  rewrite S. destruct (py_dec v) as [|b t] eqn:E; [contradiction|].
  inversion F as [|? ? Hb _]; subst.
  rewrite !(digit_neq b _ Hb) by (vm_compute; intuition congruence).
  rewrite <- E. unfold py_dec. replace (v <? 0) with false by (symmetry; apply Z.ltb_ge; exact Hv).
  destruct (dec_fuel_ok v Hv) as (f & -> & Hf).
  destruct (dec_pos_parse f v 0 false [] Hf) as [k Hk]. rewrite app_nil_r in Hk. rewrite Hk.
  cbn [parse_digits]. replace (0 * 10 ^ Z.of_nat k + v) with v by lia. reflexivity.
Qed.

Lemma digits_contains c s : (b2z c < 48 \/ 57 < b2z c) -> Forall (fun b => is_digit b = true) s -> contains c s = false.
Proof.
  intros Hc. induction s as [|b s IH]; intros F; [reflexivity|]. inversion F; subst. cbn [contains].
  rewrite (digit_neq b c) by assumption. apply IH. assumption.
Qed.

(* a path element: canonical decimal index, optionally followed by one of the three hardening characters *)
Lemma path_token_plain t : 0 <= t -> path_token (py_dec t) = Ret (t, false).
Proof.
  intros Ht. destruct (py_dec_digits t Ht) as [NE F]. unfold path_token.
  destruct (last_opt_forall _ _ NE F) as (d & -> & Hd). rewrite (digit_not_hardening d Hd).
  rewrite (py_int_dec t Ht). reflexivity.
Qed.

Lemma removelast_snoc {A} (s : list A) c : removelast (s ++ [c]) = s.
Proof. apply removelast_last. Qed.

Lemma path_token_hardened t c : 0 <= t -> is_hardening_char c = true -> path_token (py_dec t ++ [c]) = Ret (t, true).
Proof.
  intros Ht Hc. unfold path_token. rewrite last_opt_snoc, Hc, removelast_snoc, (py_int_dec t Ht). reflexivity.
Qed.

(* the three spellings of a hardened element are interchangeable *)
Definition same_token (v v' : bytes) : Prop :=
  v = v' \/ exists body c c', is_hardening_char c = true /\ is_hardening_char c' = true /\
                            v = body ++ [c] /\ v' = body ++ [c'].

Lemma path_token_respell v v' : same_token v v' -> path_token v = path_token v'.
Proof.
  intros [->|(body & c & c' & Hc & Hc' & -> & ->)]; [reflexivity|].
  unfold path_token. rewrite !last_opt_snoc, Hc, Hc', !removelast_snoc. reflexivity.
Qed.

(* a path string assembled from elements *)
Definition render_path (force_public : bool) (tokens : list bytes) : bytes :=
  join ch_slash tokens ++ (if force_public then str_pub else []).

Lemma path_tokens_render fp ts :
  Forall (fun t => contains ch_slash t = false) ts -> join ch_slash ts <> [] ->
  (fp = false -> skipn (length (join ch_slash ts) - 4) (join ch_slash ts) <> str_pub) ->
  path_tokens (render_path fp ts) = (fp, ts).
Proof.
  intros F NE Hs. unfold path_tokens, render_path. set (s := join ch_slash ts) in *.
  assert (Nts : ts <> []) by (intros ->; apply NE; reflexivity).
  destruct fp.
  - rewrite app_length. change (length str_pub) with 4%nat.
    replace (length s + 4 - 4)%nat with (length s) by lia.
    rewrite skipn_app_exact, firstn_app_exact. cbn [bytes_eqb byte_eqb]. rewrite bytes_eqb_refl.
    destruct s as [|b s'] eqn:E; [contradiction|]. rewrite <- E. unfold s. rewrite split_join by assumption. reflexivity.
  - rewrite app_nil_r. destruct (bytes_eqb (skipn (length s - 4) s) str_pub) eqn:B.
    + apply bytes_eqb_eq in B. exfalso. apply (Hs eq_refl). exact B.
    + destruct s as [|b s'] eqn:E; [contradiction|]. rewrite <- E. unfold s. rewrite split_join by assumption. reflexivity.
Qed.

(* ---------------------------------------------------------------------------------------------- *)
(* path ranges: subpaths_for_path_range enumerates exactly the product *)
Inductive ritem : Type :=
| RSingle (raw : bytes) (hard : option byte)       (* "raw" or "raw<c>" : passed through, hardened spelled H *)
| RRange (lo hi : Z) (hard : option byte).         (* "lo-hi" or "lo-hi<c>" *)
Definition hard_suffix (h : option byte) : bytes := match h with Some c => [c] | None => [] end.
Definition hard_H (h : option byte) : bytes := match h with Some _ => [ch_H] | None => [] end.
Definition render_item (it : ritem) : bytes :=
  match it with
  | RSingle raw h => raw ++ hard_suffix h
  | RRange lo hi h => py_dec lo ++ ch_minus :: py_dec hi ++ hard_suffix h
  end.
Definition zrange_list (lo hi : Z) : list Z := zrange_aux (Z.to_nat (hi + 1 - lo)) lo.
Definition expand_item (it : ritem) : list bytes :=
  match it with
  | RSingle raw h => [raw ++ hard_H h]
  | RRange lo hi h => map (fun t => py_dec t ++ hard_H h) (zrange_list lo hi)
  end.
Definition hard_ok (h : option byte) : Prop := match h with Some c => is_hardening_char c = true | None => True end.
Definition sep_free (s : bytes) : Prop := contains ch_comma s = false /\ contains ch_slash s = false.
Definition item_ok (limit : Z) (it : ritem) : Prop :=
  match it with
  | RSingle raw h =>
    hard_ok h /\ sep_free raw /\ contains ch_minus raw = false /\
    match h with
    | None => exists d, last_opt raw = Some d /\ is_hardening_char d = false
    | Some c => byte_eqb c ch_comma = false /\ byte_eqb c ch_slash = false
    end
  | RRange lo hi h => hard_ok h /\ 0 <= lo /\ 0 <= hi /\ hi + 1 - lo <= limit
  end.
Definition render_component (comp : list ritem) : bytes := join ch_comma (map render_item comp).
Definition render_range (comps : list (list ritem)) : bytes := join ch_slash (map render_component comps).
Definition expand_component (comp : list ritem) : list bytes := concat (map expand_item comp).

Lemma hardening_not_sep c : is_hardening_char c = true ->
  byte_eqb c ch_comma = false /\ byte_eqb c ch_slash = false /\ byte_eqb c ch_minus = false.
Proof.
  unfold is_hardening_char. intros H. apply orb_true_iff in H. destruct H as [H|H]; [apply orb_true_iff in H; destruct H as [H|H]|];
    apply byte_eqb_eq in H; subst c; repeat split; reflexivity.
Qed.

Lemma zrange_ok limit lo hi : hi + 1 - lo <= limit -> zrange limit lo hi = Ret (zrange_list lo hi).
Proof.
  intros H. unfold zrange, zrange_list. destruct (Z.ltb_spec hi lo).
  - replace (Z.to_nat (hi + 1 - lo)) with 0%nat by lia. reflexivity.
  - replace (limit <? hi + 1 - lo) with false by (symmetry; apply Z.ltb_ge; lia). reflexivity.
Qed.

Lemma hard_suffix_last s h : hard_ok h -> h <> None ->
  exists c, h = Some c /\ last_opt (s ++ hard_suffix h) = Some c /\ is_hardening_char c = true /\
            removelast (s ++ hard_suffix h) = s.
Proof.
  intros Hh N. destruct h as [c|]; [|contradiction]. exists c. cbn [hard_suffix].
  rewrite last_opt_snoc, removelast_snoc. auto.
Qed.

Lemma range_item_ok limit it : item_ok limit it -> range_item limit (render_item it) = Ret (expand_item it).
Proof.
  destruct it as [raw h|lo hi h]; cbn [item_ok render_item expand_item].
  - intros (Hh & _ & Hm & Hl). unfold range_item. destruct h as [c|].
    + cbn [hard_suffix hard_H]. rewrite last_opt_snoc. cbn [hard_ok] in Hh. rewrite Hh, removelast_snoc.
      rewrite (split_once_nosep _ _ Hm). reflexivity.
    + cbn [hard_suffix hard_H]. rewrite !app_nil_r. destruct Hl as (d & -> & ->).
      rewrite (split_once_nosep _ _ Hm). rewrite ?app_nil_r. reflexivity.
  - intros (Hh & Hlo & Hhi & Hlim). unfold range_item.
    destruct (py_dec_digits lo Hlo) as [NElo Flo]. destruct (py_dec_digits hi Hhi) as [NEhi Fhi].
    assert (Mlo : contains ch_minus (py_dec lo) = false) by (apply digits_contains; [vm_compute; intuition congruence|exact Flo]).
    destruct h as [c|].
    + cbn [hard_suffix hard_H]. cbn [hard_ok] in Hh.
      replace (py_dec lo ++ ch_minus :: py_dec hi ++ [c]) with ((py_dec lo ++ ch_minus :: py_dec hi) ++ [c])
        by (rewrite <- app_assoc; reflexivity).
      rewrite last_opt_snoc, Hh, removelast_snoc, (split_once_app _ _ _ Mlo).
      rewrite (py_int_dec lo Hlo), (py_int_dec hi Hhi). cbn [bind]. rewrite (zrange_ok _ _ _ Hlim). reflexivity.
    + cbn [hard_suffix hard_H]. rewrite app_nil_r.
      assert (L : exists d, last_opt (py_dec lo ++ ch_minus :: py_dec hi) = Some d /\ is_digit d = true).
      { destruct (last_opt_forall _ _ NEhi Fhi) as (d & Hd & Dd). exists d. split; [|exact Dd].
        unfold last_opt in *. rewrite rev_app_distr. cbn [rev]. rewrite <- app_assoc.
        destruct (rev (py_dec hi)) as [|x r]; [discriminate|]. injection Hd as ->. reflexivity. }
      destruct L as (d & -> & Dd). rewrite (digit_not_hardening d Dd), (split_once_app _ _ _ Mlo).
      rewrite (py_int_dec lo Hlo), (py_int_dec hi Hhi). cbn [bind]. rewrite (zrange_ok _ _ _ Hlim).
      reflexivity.
Qed.

Lemma mapM_ret {A B} (f : A -> outcome B) (g : A -> B) l :
  Forall (fun x => f x = Ret (g x)) l -> mapM f l = Ret (map g l).
Proof.
  induction l as [|x l IH]; intros F; [reflexivity|]. inversion F; subst. cbn [mapM map].
  rewrite H1. cbn [bind]. rewrite (IH H2). reflexivity.
Qed.

Lemma mapM_map_ret {A B C} (f : B -> outcome C) (r : A -> B) (g : A -> C) l :
  Forall (fun a => f (r a) = Ret (g a)) l -> mapM f (map r l) = Ret (map g l).
Proof.
  induction l as [|x l IH]; intros F; [reflexivity|]. inversion F; subst. cbn [mapM map].
  rewrite H1. cbn [bind]. rewrite (IH H2). reflexivity.
Qed.

Lemma render_item_no c limit it : item_ok limit it ->
  (c = ch_comma \/ c = ch_slash) -> contains c (render_item it) = false.
Proof.
  intros Ok Hc. assert (Dc : b2z c < 48 \/ 57 < b2z c) by (destruct Hc as [->| ->]; vm_compute; intuition congruence).
  destruct it as [raw h|lo hi h]; cbn [item_ok render_item] in *.
  - destruct Ok as (Hh & [S1 S2] & _ & Hl). rewrite contains_app.
    replace (contains c raw) with false by (destruct Hc as [->| ->]; symmetry; assumption). cbn [orb].
    destruct h as [x|]; [|reflexivity]. cbn [hard_suffix contains]. destruct Hl as [L1 L2].
    destruct Hc as [->| ->]; [rewrite L1|rewrite L2]; reflexivity.
  - destruct Ok as (Hh & Hlo & Hhi & _).
    destruct (py_dec_digits lo Hlo) as [_ Flo]. destruct (py_dec_digits hi Hhi) as [_ Fhi].
    rewrite contains_app, (digits_contains c _ Dc Flo). cbn [orb contains].
    replace (byte_eqb ch_minus c) with false by (destruct Hc as [->| ->]; reflexivity). cbn [orb].
    rewrite contains_app, (digits_contains c _ Dc Fhi). cbn [orb].
    destruct h as [x|]; [|reflexivity]. cbn [hard_suffix contains hard_ok] in *.
    destruct (hardening_not_sep x Hh) as (H1 & H2 & _). destruct Hc as [->| ->]; [rewrite H1|rewrite H2]; reflexivity.
Qed.

Lemma range_iterator_ok limit comp : comp <> [] -> Forall (item_ok limit) comp ->
  range_iterator limit (render_component comp) = Ret (expand_component comp) /\
  contains ch_slash (render_component comp) = false.
Proof.
  intros NE F. unfold range_iterator, render_component, expand_component. split.
  - rewrite split_join.
    + rewrite (mapM_map_ret _ _ expand_item).
      * reflexivity.
      * eapply Forall_impl; [|exact F]. intros it Ok. apply range_item_ok. exact Ok.
    + destruct comp; [contradiction|discriminate].
    + apply Forall_map. eapply Forall_impl; [|exact F]. intros it Ok. apply (render_item_no _ limit); auto.
  - apply contains_join; [reflexivity|]. apply Forall_map. eapply Forall_impl; [|exact F].
    intros it Ok. apply (render_item_no _ limit); auto.
Qed.

Lemma subpaths_product limit comps :
  comps <> [] -> Forall (fun comp => comp <> [] /\ Forall (item_ok limit) comp) comps -> render_range comps <> [] ->
  subpaths_for_path_range limit (render_range comps) =
  Ret (map (join ch_slash) (product (map expand_component comps))).
Proof.
  intros NE F NR. unfold subpaths_for_path_range. destruct (render_range comps) as [|b s] eqn:E; [contradiction|].
  rewrite <- E. unfold render_range. rewrite split_join.
  - rewrite (mapM_map_ret _ _ expand_component).
    + reflexivity.
    + eapply Forall_impl; [|exact F]. intros comp [N Fi]. apply (range_iterator_ok limit comp N Fi).
  - destruct comps; [contradiction|discriminate].
  - apply Forall_map. eapply Forall_impl; [|exact F]. intros comp [N Fi]. apply (range_iterator_ok limit comp N Fi).
Qed.

(* the product really is the set of all choices, in lexicographic order: characterised by membership and length *)
Lemma in_product {A} (ls : list (list A)) (t : list A) :
  In t (product ls) <-> Forall2 (fun x l => In x l) t ls.
Proof.
  revert t. induction ls as [|l ls IH]; intros t; cbn [product].
  - split; [intros [<-|[]]; constructor|intros H; inversion H; left; reflexivity].
  - rewrite in_flat_map. split.
    + intros (x & Hx & Ht). apply in_map_iff in Ht. destruct Ht as (t' & <- & Ht'). constructor; [exact Hx|]. apply IH. exact Ht'.
    + intros H. inversion H as [|x ? t' ? Hx Ht']; subst. exists x. split; [exact Hx|]. apply in_map. apply IH. exact Ht'.
Qed.

Lemma product_length {A} (ls : list (list A)) :
  length (product ls) = fold_right (fun l n => (length l * n)%nat) 1%nat ls.
Proof.
  induction ls as [|l ls IH]; [reflexivity|]. cbn [product fold_right]. rewrite <- IH. clear IH.
  induction l as [|x l IHl]; [reflexivity|]. cbn [flat_map]. rewrite app_length, map_length, IHl. reflexivity.
Qed.

Lemma zrange_list_spec lo hi t : In t (zrange_list lo hi) <-> lo <= t <= hi.
Proof.
  unfold zrange_list. remember (Z.to_nat (hi + 1 - lo)) as n eqn:En.
  assert (G : forall n lo, In t (zrange_aux n lo) <-> lo <= t < lo + Z.of_nat n).
  { clear. induction n as [|n IH]; intros lo; cbn [zrange_aux In]; [lia|]. rewrite IH. lia. }
  rewrite G. lia.
Qed.

(* ---------------------------------------------------------------------------------------------- *)
Section WithGroup2.
Variable pt : Type.
Variable padd : pt -> pt -> pt.
Variable pO : pt.
Variable smul : Z -> pt -> pt.
Variable pG : pt.
Variable order : Z.
Variable pt_eqb : pt -> pt -> bool.
Variable sec : pt -> bytes.
Variable xy : pt -> bytes.
Variable hmac512 : bytes -> bytes -> bytes.
Variable hash160 : bytes -> bytes.
Variable dsha256 : bytes -> bytes.
Variable loop_fuel : nat.
Hypothesis order_range : 1 < order <= 2 ^ 256.
Hypothesis smul_add : forall a b, smul (a + b) pG = padd (smul a pG) (smul b pG).
Hypothesis smul_mod : forall a, smul (a mod order) pG = smul a pG.
Hypothesis smul_zero : forall a, smul a pG = pO <-> a mod order = 0.
Hypothesis pt_eqb_spec : forall P Q, pt_eqb P Q = true <-> P = Q.

Ltac clr2 := try clear sec; try clear hmac512; try clear hash160; try clear loop_fuel; try clear pt_eqb_spec; try clear smul_zero; try clear smul_mod; try clear smul_add.
Ltac hlia := clr2; lia.

Notation path_walk := (path_walk pt padd pO smul pG order pt_eqb sec hmac512 hash160 loop_fuel).
Notation subkey_for_path := (subkey_for_path pt padd pO smul pG order pt_eqb sec hmac512 hash160 loop_fuel).

(* spelling a hardened element with ', p or H makes no difference, to the result and to the cache *)
Lemma path_walk_respell : forall ts ts' c p key, Forall2 same_token ts ts' -> path_walk c p key ts = path_walk c p key ts'.
Proof.
  induction ts as [|v ts IH]; intros ts' c p key F; inversion F as [|? v' ? ts1 Hv F']; subst; [reflexivity|].
  cbn [Bip32.path_walk]. rewrite (path_token_respell v v' Hv).
  destruct (path_token v') as [[vi h]| |]; try reflexivity.
  destruct (Bip32.subkey _ _ _ _ _ _ _ _ _ _ _ c p key vi h _) as [[k| |] c1]; try reflexivity.
  apply IH. exact F'.
Qed.

Lemma subkey_for_path_respell c p nd path path' fp ts ts' :
  path_tokens path = (fp, ts) -> path_tokens path' = (fp, ts') -> Forall2 same_token ts ts' ->
  subkey_for_path c p nd path = subkey_for_path c p nd path'.
Proof.
  intros H1 H2 F. unfold Bip32.subkey_for_path. rewrite H1, H2, (path_walk_respell ts ts' c p nd F). reflexivity.
Qed.

(* ---- Electrum ---- *)
Notation ewallet := (ewallet pt).
Notation electrum_init := (electrum_init pt pO smul pG order pt_eqb).
Notation electrum_public_copy := (electrum_public_copy pt pO smul pG order pt_eqb).
Notation electrum_subkey := (electrum_subkey pt padd pO smul pG order pt_eqb xy dsha256).

Definition wf_ew (w : ewallet) : Prop :=
  ew_point pt w <> pO /\
  match ew_secret pt w with Some k => 1 <= k < order /\ ew_point pt w = smul k pG | None => True end.
Definition neuter_ew (w : ewallet) : ewallet := mkEw pt None (ew_point pt w).

Lemma pt_eqb_false2 P Q : P <> Q -> pt_eqb P Q = false.
Proof. intros H. destruct (pt_eqb P Q) eqn:E; [|reflexivity]. apply pt_eqb_spec in E. contradiction. Qed.

Lemma electrum_init_prv k : electrum_init (Some k) None =
  if (k <? 1) || (order <=? k) then Raise E_SECRET
  else if pt_eqb (smul k pG) pO then Raise E_PUBPAIR else Ret (mkEw pt (Some k) (smul k pG)).
Proof.
  unfold Bip32.electrum_init, Bip32.key_init. destruct ((k <? 1) || (order <=? k)); [reflexivity|].
  destruct (pt_eqb (smul k pG) pO); reflexivity.
Qed.
Lemma electrum_init_pub P : electrum_init None (Some P) = if pt_eqb P pO then Raise E_PUBPAIR else Ret (mkEw pt None P).
Proof. unfold Bip32.electrum_init, Bip32.key_init. destruct (pt_eqb P pO); reflexivity. Qed.

Lemma electrum_public_copy_ok w : wf_ew w -> electrum_public_copy w = Ret (match ew_secret pt w with Some _ => neuter_ew w | None => w end).
Proof.
  intros [HP _]. unfold Bip32.electrum_public_copy. destruct (ew_secret pt w); [|reflexivity].
  rewrite electrum_init_pub, pt_eqb_false2 by exact HP. reflexivity.
Qed.

Lemma electrum_commute w k path :
  wf_ew w -> ew_secret pt w = Some k ->
  (exists c, electrum_subkey w path = Ret c /\ wf_ew c /\ ew_secret pt c <> None /\
             electrum_subkey (neuter_ew w) path = Ret (neuter_ew c) /\
             electrum_public_copy c = Ret (neuter_ew c)) \/
  (exists e e', electrum_subkey w path = Raise e /\ electrum_subkey (neuter_ew w) path = Raise e').
Proof.
  intros [HP Hs] S. rewrite S in Hs. destruct Hs as [Hk HPk].
  unfold Bip32.electrum_subkey. cbn [neuter_ew ew_secret ew_point]. rewrite S.
  unfold electrum_mpk. change (ew_point pt (neuter_ew w)) with (ew_point pt w).
  destruct (match split ch_slash path with
            | [n; fc] => Ret (n, fc) | [n] => Ret (n, [x30]) | _ => Raise E_VALUE end) as [[n fc]|e|] eqn:T.
  - cbn [bind]. set (offset := from_bytes_32 (dsha256 (utf8_latin1 (n ++ ch_colon :: fc ++ [ch_colon]) ++ xy (ew_point pt w)))).
    replace (k =? 0) with false by (symmetry; apply Z.eqb_neq; hlia).
    assert (Q : padd (smul offset pG) (ew_point pt w) = smul ((k + offset) mod order) pG).
    { rewrite HPk, <- smul_add, smul_mod. f_equal. hlia. }
    rewrite Q, electrum_init_prv, electrum_init_pub.
    pose proof (Z.mod_pos_bound (k + offset) order ltac:(hlia)) as B.
    destruct (Z.eq_dec ((k + offset) mod order) 0) as [Z0|NZ].
    + right. rewrite Z0. replace ((0 <? 1) || (order <=? 0)) with true by reflexivity.
      assert (E0 : smul 0 pG = pO) by (apply smul_zero; apply Z.mod_0_l; hlia).
      rewrite E0, (proj2 (pt_eqb_spec pO pO) eq_refl). eauto.
    + left. replace (((k + offset) mod order <? 1) || (order <=? (k + offset) mod order)) with false
        by (symmetry; apply orb_false_intro; [apply Z.ltb_ge|apply Z.leb_gt]; hlia).
      assert (NO : smul ((k + offset) mod order) pG <> pO).
      { intros E. apply smul_zero in E. rewrite Z.mod_mod in E by hlia. contradiction. }
      rewrite pt_eqb_false2 by exact NO.
      eexists. split; [reflexivity|]. split; [split; cbn; [exact NO|split; [hlia|reflexivity]]|].
      split; [discriminate|]. split; [reflexivity|].
      unfold Bip32.electrum_public_copy. cbn [ew_secret ew_point]. rewrite electrum_init_pub, pt_eqb_false2 by exact NO. reflexivity.
  - right. cbn [bind]. eauto.
  - exfalso. destruct (split ch_slash path) as [|a [|b [|? ?]]]; discriminate.
Qed.

End WithGroup2.

(* ---------------------------------------------------------------------------------------------- *)
(* a concrete instance of all the parameters: the hypotheses are satisfiable, and the statements that need a
   hypothesis are false without it.  Group: Z/2 on bool. *)
Module Toy.
Definition pt := bool.
Definition padd := xorb.
Definition pO := false.
Definition smul (k : Z) (P : bool) : bool := Z.odd k && P.
Definition pG := true.
Definition order : Z := 2.
Definition pt_eqb := Bool.eqb.
Definition sec (P : bool) : bytes := (if P then x03 else x02) :: repeatb x07 32.
Definition xy (P : bool) : bytes := repeatb (if P then x01 else x00) 64.
Definition unsec (b : bytes) : outcome bool := if bytes_eqb b (sec true) then Ret true else Raise E_ENCODING.
Definition hash160 (b : bytes) : bytes := repeatb x09 20.
Definition dsha256 (b : bytes) : bytes := repeatb x00 32.
(* I_L = 0 for every input, I_R = 32 bytes 0x0c: the first attempt always succeeds for k = 1 *)
Definition hmac_good (k m : bytes) : bytes := repeatb x00 32 ++ repeatb x0c 32.
(* I_L = 2 >= n on the first attempt (I_R = 0x0a..), I_L = 0 on the retry whose input starts with 01 (I_R = 0x0b..) *)
Definition hmac_retry (k m : bytes) : bytes :=
  match m with
  | x01 :: _ => repeatb x00 32 ++ repeatb x0b 32
  | _ => (repeatb x00 31 ++ [x02]) ++ repeatb x0a 32
  end.
Definition b58enc (c : N) (b : bytes) : bytes := n2b c :: b.
Definition b58dec (c : N) (s : bytes) : option bytes :=
  match s with h :: t => if byte_eqb h (n2b c) then Some t else None | [] => None end.

Lemma order_range : 1 < order <= 2 ^ 256. Proof. unfold order. lia. Qed.
Lemma smul_add a b : smul (a + b) pG = padd (smul a pG) (smul b pG).
Proof. unfold smul, pG, padd. rewrite !andb_true_r. apply Z.odd_add. Qed.
Lemma odd_mod2 a : Z.odd (a mod 2) = Z.odd a.
Proof.
  rewrite (Z.div_mod a 2) at 2 by lia. rewrite Z.add_comm, Z.odd_add_mul_2. reflexivity.
Qed.
Lemma smul_mod a : smul (a mod order) pG = smul a pG.
Proof. unfold smul, order. now rewrite odd_mod2. Qed.
Lemma smul_zero a : smul a pG = pO <-> a mod order = 0.
Proof.
  unfold smul, pG, pO, order. rewrite andb_true_r. rewrite <- odd_mod2.
  pose proof (Z.mod_pos_bound a 2 ltac:(lia)) as B. split; intros H.
  - destruct (Z.eq_dec (a mod 2) 0) as [E|E]; [exact E|]. replace (a mod 2) with 1 in H by lia. discriminate.
  - rewrite H. reflexivity.
Qed.
Lemma pt_eqb_spec P Q : pt_eqb P Q = true <-> P = Q. Proof. apply Bool.eqb_true_iff. Qed.
Lemma hmac_good_len k m : length (hmac_good k m) = 64%nat. Proof. reflexivity. Qed.
Lemma hmac_retry_len k m : length (hmac_retry k m) = 64%nat.
Proof. unfold hmac_retry. destruct m as [|b m]; [reflexivity|]. destruct b; reflexivity. Qed.
Lemma hash160_len b : length (hash160 b) = 20%nat. Proof. reflexivity. Qed.
Lemma sec_len P : P <> pO -> length (sec P) = 33%nat. Proof. destruct P; reflexivity. Qed.
Lemma sec_head P : P <> pO -> exists b r, sec P = b :: r /\ b <> x00.
Proof. intros _. destruct P; eexists; eexists; (split; [reflexivity|discriminate]). Qed.
Lemma unsec_sec P : P <> pO -> unsec (sec P) = Ret P.
Proof. destruct P; [reflexivity|]. intros H. exfalso. apply H. reflexivity. Qed.
Lemma b58_roundtrip c b : b58dec c (b58enc c b) = Some b.
Proof. unfold b58dec, b58enc. now rewrite byte_eqb_refl. Qed.

Definition root : node bool := mkNode bool (repeatb x05 32) 0 [x00; x00; x00; x00] 0 (Some 1) true.
Lemma root_wf : wf_node bool pO smul pG order root.
Proof. unfold wf_node, root, order. cbn. repeat split; try discriminate; lia. Qed.
End Toy.

(* ---------------------------------------------------------------------------------------------- *)
(* the generated prefix table *)
From PV Require Import Gen.GenBip32Prefixes.
From Coq Require Import String.

Definition codec_mismatch (net : bipnet) : bool := negb (N.eqb (bn_print_codec net) (bn_parse_codec net)).

Lemma table_nets_ok : forall r, In r bip_prefix_table -> net_ok (row_net r) = true.
Proof. apply forallb_forall. vm_compute. reflexivity. Qed.

Definition row_name (r : string * N * option bytes * option bytes * option bytes * option bytes * N * N) : string * N :=
  let '(s, kt, _, _, _, _, _, _) := r in (s, kt).
Definition mismatch_rows := filter (fun r => codec_mismatch (row_net r)) bip_prefix_table.

(* every row's printer and parser use the same checksum function (after the fix of the Groestlcoin bip49/bip84 printers) *)
Lemma table_codecs_match : forall r, In r bip_prefix_table -> codec_mismatch (row_net r) = false.
Proof.
  intros r H. apply negb_true_iff. revert r H. apply forallb_forall. vm_compute. reflexivity.
Qed.
Lemma mismatch_rows_none : mismatch_rows = [].
Proof. vm_compute. reflexivity. Qed.

(* concrete witnesses in the toy instance *)
Lemma toy_commute_fails :
  let sk := subkey_raw bool xorb false Toy.smul true 2 Bool.eqb Toy.sec Toy.hmac_retry Toy.hash160 8 in
  exists c1 c2, sk Toy.root 0 false true = Ret c1 /\ sk (neuter_node bool Toy.root) 0 false false = Ret c2 /\
                c2 <> neuter_node bool c1.
Proof.
  cbn zeta. eexists. eexists. split; [vm_compute; reflexivity|]. split; [vm_compute; reflexivity|].
  vm_compute. discriminate.
Qed.

Lemma toy_commute_holds :
  let sk := subkey_raw bool xorb false Toy.smul true 2 Bool.eqb Toy.sec Toy.hmac_good Toy.hash160 1 in
  exists c1, sk Toy.root 5 false true = Ret c1 /\ sk (neuter_node bool Toy.root) 5 false false = Ret (neuter_node bool c1).
Proof. cbn zeta. eexists. split; [vm_compute; reflexivity|vm_compute; reflexivity]. Qed.

Lemma toy_root_ser_ok : ser_ok bool Toy.root.
Proof. unfold ser_ok, Toy.root. cbn [nd_depth nd_index]. lia. Qed.


